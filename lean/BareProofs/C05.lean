import BareModel.HostPy
import BareModel.Machine
import BareModel.HostImpl
import BareProofs.C05Lemmas

/-!
# C05 — runtime errors are contained: only documented exceptions escape

Two levels.

**Host level** (`BareModel/HostPy.lean`: Python exceptions are values).
`binopPy` is the body of the `try:` of runtime.py:273-347 over partial Python primitives.
`binopPy_raises_only` says, operator by operator, which exception classes the body can raise *for all operands, heaps and
libm behaviours* — never TypeError/KeyError/IndexError/anything else; `handler_covers_block` says the handler
(`except (ArithmeticError, ValueError, RecursionError)`, runtime.py:351) covers every one of them, hence
`binopSafe_total`: the operator block is a TOTAL function into values.  That is exactly the totality of
`Machine.Host.binop` that the machine-level typing argument assumes.  `wrapper_contains` & co. do the same for the call
wrapper (runtime.py:240-250).

**Machine level** (`BareModel/Machine.lean`): `no_host_escape_machine` — by typing; its doc-comment states what the
typing assumes and which theorem discharges each assumption.

`refines_host_*` tie the host-level model to `HostImpl.binop`, the operator the correspondence drivers run, on the
exactly-representable fragment.
-/

namespace C05
open HostPy

/-! ## 1. the operator block -/

/-- the exception classes the body of the `try:` can raise, per operator -/
def allowedFor : BinOp → HostExc → Bool
  | .add, e => sOvValRec e        -- OverflowError (int→float, timedelta, date range), ValueError + RecursionError (value_string)
  | .sub, e => sOverflow e        -- OverflowError (int→float, aware datetime normalisation)
  | .mul, e => sOverflow e        -- OverflowError (float(int))
  | .div, e => sArith e           -- ZeroDivisionError, OverflowError
  | .mod, e => sArith e
  | .pow, e => sArith e
  | .and, _ => false
  | .or, _ => false
  | _, e => sOvRec e              -- comparisons: RecursionError, OverflowError (aware datetime normalisation)

theorem okVal_only {S : HostExc → Bool} {r : Except HostExc PyVal} (hr : Only S r) : Only S (okVal r) := by
  intro e h
  cases r with
  | ok v => cases h
  | error e' => cases h; exact hr _ rfl

theorem cmpOp_only (F : Libm) (h : Heap) (a b : PyVal) (t : Int → Bool) : Only sOvRec (cmpOp F h a b t) := by
  intro e hh
  unfold cmpOp at hh
  split at hh
  · cases hh
  · rename_i heq; cases hh; exact cmpVal_only F h _ _ _ _ heq

theorem concatL_only (F : Libm) (h : Heap) (s : String) (v : PyVal) : Only sOvValRec (concatL F h s v) := by
  intro e hh
  unfold concatL at hh
  split at hh
  · cases hh
  · rename_i heq; cases hh; exact valueString_only F h v _ heq

theorem concatR_only (F : Libm) (h : Heap) (v : PyVal) (s : String) : Only sOvValRec (concatR F h v s) := by
  intro e hh
  unfold concatR at hh
  split at hh
  · cases hh
  · rename_i heq; cases hh; exact valueString_only F h v _ heq

theorem and_true_split {p q : Bool} (h : (p && q) = true) : p = true ∧ q = true := by
  cases p <;> cases q <;> simp_all

theorem sOverflow_ovValRec : ∀ e, sOverflow e = true → sOvValRec e = true := by
  intro e; cases e <;> simp [sOverflow, sOvValRec]

/-- **Which host exceptions the operator block can raise** — for every operator, all operands (of any type, any
magnitude, non-finite floats, huge ints, datetimes at the edge of the range), every heap (cyclic ones included), every
rounding / libm / zone behaviour `F` and every recursion limit.  In particular: never `TypeError` (the `_is_number` /
`isinstance` dispatch guards every primitive), `KeyError`, `IndexError` or any other class. -/
theorem binopPy_raises_only (F : Libm) (h : Heap) (op : BinOp) (a b : PyVal) :
    Only (allowedFor op) (binopPy F h op a b) := by
  cases op
  case pow =>
    unfold binopPy; simp only
    split
    · rename_i hn; exact pyPowF_only F (and_true_split hn).1 (and_true_split hn).2
    · exact Only.ok _
  case mul =>
    unfold binopPy; simp only
    split
    · rename_i hn; exact okVal_only (pyMulF_only F (and_true_split hn).1 (and_true_split hn).2)
    · exact Only.ok _
  case div =>
    unfold binopPy; simp only
    split
    · rename_i hn; exact okVal_only (pyDiv_only F (and_true_split hn).1 (and_true_split hn).2)
    · exact Only.ok _
  case mod =>
    unfold binopPy; simp only
    split
    · rename_i hn; exact okVal_only (pyMod_only F (and_true_split hn).1 (and_true_split hn).2)
    · exact Only.ok _
  case sub =>
    unfold binopPy; simp only
    split
    · rename_i hn; exact okVal_only (pySub_only F (and_true_split hn).1 (and_true_split hn).2)
    · split
      · exact okVal_only (dtMinus_only F _ _ _ _)
      · exact Only.ok _
  case add =>
    unfold binopPy; simp only
    split
    · rename_i hn
      exact (okVal_only (pyAdd_only F (and_true_split hn).1 (and_true_split hn).2)).mono sOverflow_ovValRec
    · split
      · exact Only.ok _
      · exact concatL_only F h _ _
      · exact concatR_only F h _ _
      · split
        · rename_i hn; exact (okVal_only (dtPlus_only F _ _ hn)).mono sOvVal_ovValRec
        · exact Only.ok _
      · split
        · rename_i hn; exact (okVal_only (dtPlus_only F _ _ hn)).mono sOvVal_ovValRec
        · exact Only.ok _
      · exact Only.ok _
  case and => unfold binopPy; exact Only.ok _
  case or => unfold binopPy; exact Only.ok _
  all_goals (unfold binopPy; exact cmpOp_only F h a b _)

/-- every class the block can raise is a class the handler of runtime.py:351 catches -/
theorem handler_covers_block : ∀ op e, allowedFor op e = true → caught e = true := by
  intro op e
  cases op <;> cases e <;> decide

theorem binopPy_only_caught (F : Libm) (h : Heap) (op : BinOp) (a b : PyVal) : Only caught (binopPy F h op a b) :=
  (binopPy_raises_only F h op a b).mono (handler_covers_block op)

/-- **The operator block is total**: for every operator and ALL operands, heaps and host behaviours, `binopSafe`
(= try-body + complex test + handler) is a value.  No hypothesis: after fix F25 neither `NoHugeInt` (F17) nor `Acyclic`
(F18) is needed.  This is the totality of `Machine.Host.binop`. -/
theorem binopSafe_total (F : Libm) (h : Heap) (op : BinOp) (a b : PyVal) : ∃ v, binopSafe F h op a b = .ok v := by
  unfold binopSafe binopWith
  split
  · exact ⟨_, rfl⟩
  · exact ⟨_, rfl⟩
  · rename_i e heq
    rw [binopPy_only_caught F h op a b e heq]
    exact ⟨_, rfl⟩

/-- **No host exception escapes the operator block** — not the ArithmeticError classes (F4), not ValueError /
RecursionError (F17, F18, F25), nor any other class; and the result is never a `complex` (the type `PyVal` has none:
`.ok .complex` of the body is mapped to `None`, see `complex_is_null`). -/
theorem binopSafe_no_escape (F : Libm) (h : Heap) (op : BinOp) (a b : PyVal) (e : HostExc) : binopSafe F h op a b ≠ .error e := by
  obtain ⟨v, hv⟩ := binopSafe_total F h op a b
  rw [hv]; intro hh; cases hh

theorem complex_is_null (F : Libm) (h : Heap) (op : BinOp) (a b : PyVal) (hc : binopPy F h op a b = .ok .complex) :
    binopSafe F h op a b = .ok .none := by
  unfold binopSafe binopWith; rw [hc]

/-- a caught exception evaluates to null ("invalid operation values yield null") -/
theorem raised_is_null (F : Libm) (h : Heap) (op : BinOp) (a b : PyVal) (e : HostExc) (he : binopPy F h op a b = .error e) :
    binopSafe F h op a b = .ok .none := by
  unfold binopSafe binopWith
  rw [he]
  simp only [binopPy_only_caught F h op a b e he, if_true]

/-- **What escaped BEFORE fix F25** (handler `except ArithmeticError` only — the state after F4): exactly the classes
ValueError and RecursionError, ValueError only from `+` (string concatenation through value_string: int digit limit
F17, circular reference F18, non-finite float in a container, datetime at the edge of the range; `datetime + nan`),
RecursionError only from `+` and the six comparisons (containers nested beyond the limit or self-containing, F18).
This is the explicit list the widened handler has to cover — and all it has to cover. -/
theorem binopF4_escapes_only (F : Libm) (h : Heap) (op : BinOp) (a b : PyVal) (e : HostExc)
    (hesc : binopWith caughtF4 F h op a b = .error e) :
    (e = .valueError ∧ op = .add) ∨
    (e = .recursion ∧ (op = .add ∨ op = .eq ∨ op = .ne ∨ op = .le ∨ op = .lt ∨ op = .ge ∨ op = .gt)) := by
  unfold binopWith at hesc
  split at hesc
  · cases hesc
  · cases hesc
  · rename_i e' heq
    split at hesc
    · cases hesc
    · rename_i hnc
      cases hesc
      have hall := binopPy_raises_only F h op a b e heq
      cases op <;> cases e <;> simp_all [allowedFor, caughtF4, sOvValRec, sOverflow, sArith, sOvRec, HostExc.isArithmetic]

/-- unary minus is total behind its `_is_number` guard (runtime.py:363): no handler is needed -/
theorem negSafe_never_raises (v : PyVal) (hv : isNumber v = true) : ∃ r, pyNeg v = .ok r ∧ negSafe v = r := by
  obtain ⟨r, hr⟩ := pyNeg_total hv
  exact ⟨r, hr, by unfold negSafe; rw [hv, hr]; rfl⟩

/-! ### non-vacuity: the adversarial operands of the property all evaluate to null in the model (`HostPy.ieee` =
correctly rounded binary64).  Number literals are floats, `numberParseInt` gives ints. -/

section examples
open PyVal

instance {α : Type} [DecidableEq α] : DecidableEq (Except HostExc α) := fun a b =>
  match a, b with
  | .ok x, .ok y => if h : x = y then isTrue (by rw [h]) else isFalse (by intro hh; cases hh; exact h rfl)
  | .error x, .error y => if h : x = y then isTrue (by rw [h]) else isFalse (by intro hh; cases hh; exact h rfl)
  | .ok _, .error _ => isFalse (by intro hh; cases hh)
  | .error _, .ok _ => isFalse (by intro hh; cases hh)

def fl (q : Rat) : PyVal := .float (.fin q)

/-- 1 / 0 -/
example : binopPy ieee [] .div (fl 1) (fl 0) = .error .zeroDivision ∧ binopSafe ieee [] .div (fl 1) (fl 0) = .ok .none := by
  decide
/-- 1 % 0 -/
example : binopPy ieee [] .mod (fl 1) (fl 0) = .error .zeroDivision ∧ binopSafe ieee [] .mod (fl 1) (fl 0) = .ok .none := by
  decide
/-- 0 ** -1 -/
example : binopPy ieee [] .pow (fl 0) (fl (-1)) = .error .zeroDivision ∧ binopSafe ieee [] .pow (fl 0) (fl (-1)) = .ok .none := by
  decide
/-- (0 - 8) ** 0.5 : complex -/
example : binopPy ieee [] .pow (fl (-8)) (fl (1/2)) = .ok .complex ∧ binopSafe ieee [] .pow (fl (-8)) (fl (1/2)) = .ok .none := by
  decide +kernel
/-- int operands (numberParseInt): 1 / 0, 1 % 0 -/
example : binopSafe ieee [] .div (.int 1) (.int 0) = .ok .none ∧ binopSafe ieee [] .mod (.int 1) (.int 0) = .ok .none := by
  decide
/-- datetime + nan (F25-N1): ValueError in the block, null outside -/
example : binopPy ieee [] .add (.dt .naive 63713433600000000) (.float .nan) = .error .valueError
    ∧ binopSafe ieee [] .add (.dt .naive 63713433600000000) (.float .nan) = .ok .none := by decide
/-- '' + [inf] (F25-N2): a non-finite float inside a stringified container -/
example : binopPy ieee [.list [.float (.inf false)]] .add (.str "") (.list 0) = .error .valueError
    ∧ binopSafe ieee [.list [.float (.inf false)]] .add (.str "") (.list 0) = .ok .none := by decide
/-- '' + datetimeNew(9999,12,31) (F25-N3) -/
example : binopPy ieee [] .add (.str "") (.dt .naive (maxUs - 1000)) = .error .valueError
    ∧ binopSafe ieee [] .add (.str "") (.dt .naive (maxUs - 1000)) = .ok .none := by decide
/-- a = arrayNew(); arrayPush(a, a); '' + a (F18): circular reference -/
example : binopPy ieee [.list [.list 0]] .add (.str "") (.list 0) = .error .valueError
    ∧ binopSafe ieee [.list [.list 0]] .add (.str "") (.list 0) = .ok .none := by decide
/-- … and a == a on it: RecursionError (recursion limit 5 here so that the kernel evaluates it quickly) -/
example : binopPy { ieee with recLimit := 5 } [.list [.list 0]] .eq (.list 0) (.list 0) = .error .recursion
    ∧ binopSafe { ieee with recLimit := 5 } [.list [.list 0]] .eq (.list 0) (.list 0) = .ok .none := by decide
/-- acyclic but deeper than the recursion limit (F25-N4) -/
example : binopSafe { ieee with recLimit := 2 } [.list [], .list [.list 0], .list [.list 1]] .add (.str "") (.list 2) = .ok .none
    ∧ binopPy { ieee with recLimit := 2 } [.list [], .list [.list 0], .list [.list 1]] .add (.str "") (.list 2) = .error .recursion := by
  decide
/-- before F25 these escaped: the model of the old handler reproduces F18 -/
example : binopWith caughtF4 ieee [.list [.list 0]] .add (.str "") (.list 0) = .error .valueError := by decide
/-- ordinary cases are not null: 'a' + [1, 'x'] -/
example : binopSafe ieee [.list [.int 1, .str "x"]] .add (.str "a") (.list 0) = .ok (.str "a[1,\"x\"]") := by decide +kernel

end examples

/-! ## 2. the call wrapper (runtime.py:240-250) -/

/-- **Only the two documented exceptions pass the wrapper**: whatever the callee does — return, raise a runtime error,
raise a parser error (include inside a function, F21), raise ValueArgsError, raise ANY other exception — the call
expression either evaluates to a value or re-raises the callee's BareScriptRuntimeError / BareScriptParserError
unchanged.  (`EvalOut` has no constructor for a host exception; this theorem says which callee outcome gives which.) -/
theorem wrapper_contains (cfg : WrapCfg) (name : String) (out : CalleeOut) (log : List String) :
    (∃ v, (wrapCall cfg name out log).1 = .value v ∧ (∀ m, out ≠ .rtError m) ∧ (∀ m, out ≠ .parserError m))
    ∨ (∃ m, out = .rtError m ∧ (wrapCall cfg name out log).1 = .raiseRuntime m)
    ∨ (∃ m, out = .parserError m ∧ (wrapCall cfg name out log).1 = .raiseParser m) := by
  cases out with
  | ret v => refine .inl ⟨v, rfl, ?_, ?_⟩ <;> (intro m hm; cases hm)
  | rtError m => exact .inr (.inl ⟨m, rfl, rfl⟩)
  | parserError m => exact .inr (.inr ⟨m, rfl, rfl⟩)
  | argsError m rv => refine .inl ⟨rv, rfl, ?_, ?_⟩ <;> (intro m hm; cases hm)
  | host e m => refine .inl ⟨.none, rfl, ?_, ?_⟩ <;> (intro m hm; cases hm)

/-- a host exception of ANY class inside a library / host function never propagates -/
theorem wrapper_swallows_every_host_class (cfg : WrapCfg) (name : String) (e : HostExc) (m : String) (log : List String) :
    (wrapCall cfg name (.host e m) log).1 = .value .none := rfl

/-- **A failing call evaluates to null, or to the function's documented failure value** (the `return_value` the
function passed to `value_args_validate` / `ValueArgsError`) -/
theorem failure_is_null_or_documented (cfg : WrapCfg) (name : String) (log : List String) :
    (∀ e m, (wrapCall cfg name (.host e m) log).1 = .value .none)
    ∧ (∀ m rv, (wrapCall cfg name (.argsError m rv) log).1 = .value rv) := ⟨fun _ _ => rfl, fun _ _ => rfl⟩

/-- is the callee outcome a swallowed failure, and with which message -/
def failureMsg : CalleeOut → Option String
  | .argsError m _ => some m
  | .host _ m => some m
  | _ => none

/-- **Exactly one log line in debug mode, none otherwise**: the log after the call is the log the callee left, plus —
iff the call failed, `logFn` is present and `debug` is on — the single line
`BareScript: Function "<name>" failed with error: <message>`; nothing already logged is lost or re-ordered. -/
theorem failure_logged_once_in_debug (cfg : WrapCfg) (name : String) (out : CalleeOut) (log : List String) :
    (wrapCall cfg name out log).2 =
      match failureMsg out with
      | some m => if cfg.hasLogFn && cfg.debug then log ++ [failureLine name m] else log
      | none => log := by
  cases out <;> simp [wrapCall, failureMsg, logFailure]

theorem failure_log_length (cfg : WrapCfg) (name : String) (out : CalleeOut) (log : List String) :
    ((wrapCall cfg name out log).2).length =
      log.length + (if (failureMsg out).isSome && cfg.hasLogFn && cfg.debug then 1 else 0) := by
  cases out <;> simp [wrapCall, failureMsg, logFailure] <;> split <;> simp_all

/-- **The host configuration changes nothing but the log**: what a call evaluates to (value, or which documented
exception) is the same under every combination of `debug` and `logFn` present / absent, whatever was logged before. -/
theorem wrapper_result_config_independent (cfg cfg' : WrapCfg) (name : String) (out : CalleeOut) (log log' : List String) :
    (wrapCall cfg name out log).1 = (wrapCall cfg' name out log').1 := by
  cases out <;> rfl

/-- without a `logFn` (the member is optional), or without `debug`, the wrapper logs nothing — and needs no log
function: a failing call is still only its value -/
theorem wrapper_silent_without_logFn_or_debug (cfg : WrapCfg) (h : cfg.hasLogFn = false ∨ cfg.debug = false)
    (name : String) (out : CalleeOut) (log : List String) :
    (wrapCall cfg name out log).2 = log := by
  cases out <;> rcases h with h | h <;> simp [wrapCall, logFailure, h]

example : wrapCall ⟨true, false⟩ "arrayGet" (.host .indexError "list index out of range") []
    = (.value .none, []) := by decide

example : wrapCall ⟨true, true⟩ "arrayGet" (.host .indexError "list index out of range") ["before"]
    = (.value .none, ["before", "BareScript: Function \"arrayGet\" failed with error: list index out of range"]) := by decide
example : wrapCall ⟨false, true⟩ "arrayIndexOf" (.argsError "Invalid \"index\" argument value, 5" (.int (-1))) ["before"]
    = (.value (.int (-1)), ["before"]) := by decide
example : wrapCall ⟨true, true⟩ "ff" (.parserError "Syntax error") [] = (.raiseParser "Syntax error", []) := by decide

/-! ## 3. the machine level -/

section machine
open Machine

variable {W : Type}

/-- the Python class of each machine error: all six are one of the two documented exception classes -/
def rtErrClass : RtErr → String
  | .includeParse _ => "BareScriptParserError"
  | _ => "BareScriptRuntimeError"

/-- **No host exception at machine level — by typing.**  Every result of `evalExpr`/`callValue` is an `Out`
(`ok | err RtErr | oof`), every result of `execM`/`execute` a `Res` (`done | ret | err RtErr | oof`), and `RtErr` has six
constructors, each a BareScriptRuntimeError except `includeParse` (BareScriptParserError).  The statement is trivial;
what the typing ASSUMES about the code is not, and is discharged one level down:

* `Host.truthy`, `Host.binop`, `Host.neg` are total functions — `HostPy.truthy` is total by definition (no partial
  primitive in it), `binopSafe_total` (operator block + handler), `negSafe_never_raises` (guard);
* a library / host function body ends in `LibOut.ok | fail | rt` — i.e. it fails only INSIDE the wrapper:
  `wrapper_contains`, `libOut_of_wrapCall`;
* variable lookup, parameter binding, label search are total on the model's data (dict / list operations with present
  keys and in-range indices only: by construction of `evalExpr`, `bindArgs`, `findLabel`);
* OUTSIDE the model (DESIGN §6): the Python recursion limit at evaluator level (a RecursionError raised in
  `evaluate_expression` itself is caught by the innermost enclosing call wrapper or operator handler, but an
  expression nested ~1000 deep with no enclosing call escapes — the parser refuses such text long before), memory
  exhaustion, `KeyboardInterrupt`/`SystemExit` (not `Exception`s), exceptions raised by the host's own `logFn`, `urlFn`,
  and values that are not BareScript values (e.g. a dict global with non-string keys). -/
theorem no_host_escape_machine (cfg : Config W) (fuel : Nat) (P : List Stmt) (base : Option String) (st : State W) :
    (∃ st', execute cfg fuel P base st = .done st') ∨ (∃ v st', execute cfg fuel P base st = .ret v st')
    ∨ (∃ e st', execute cfg fuel P base st = .err e st'
          ∧ (rtErrClass e = "BareScriptRuntimeError" ∨ rtErrClass e = "BareScriptParserError"))
    ∨ execute cfg fuel P base st = .oof := by
  cases h : execute cfg fuel P base st with
  | done st' => exact .inl ⟨_, rfl⟩
  | ret v st' => exact .inr (.inl ⟨_, _, rfl⟩)
  | err e st' => exact .inr (.inr (.inl ⟨e, st', rfl, by cases e <;> simp [rtErrClass]⟩))
  | oof => exact .inr (.inr (.inr rfl))

theorem no_host_escape_expr (cfg : Config W) (call : CallFn W) (locals : Option Env) (e : Expr) (st : State W) :
    (∃ v st', evalExpr cfg call locals e st = .ok v st')
    ∨ (∃ err st', evalExpr cfg call locals e st = .err err st'
          ∧ (rtErrClass err = "BareScriptRuntimeError" ∨ rtErrClass err = "BareScriptParserError"))
    ∨ evalExpr cfg call locals e st = .oof := by
  cases h : evalExpr cfg call locals e st with
  | ok v st' => exact .inl ⟨_, _, rfl⟩
  | err er st' => exact .inr (.inl ⟨er, st', rfl, by cases er <;> simp [rtErrClass]⟩)
  | oof => exact .inr (.inr rfl)

/-- how a callee outcome of the host level is seen by the machine (`abs` = abstraction of values) -/
def libOutOf (abs : PyVal → Value) : CalleeOut → LibOut
  | .ret v => .ok (abs v)
  | .rtError m => .rt m
  | .parserError m => .rt m          -- the machine keeps both documented exceptions in `RtErr`
  | .argsError _ rv => .fail (abs rv)
  | .host _ _ => .fail .null

/-- the machine's treatment of a finished library call IS the wrapper: value ↔ `.ok`, documented exception ↔ `.err`,
and the debug line is appended under the same condition (`logFn` present is part of `Host.logFailure`) -/
theorem libOut_of_wrapCall (cfg : Config W) (call : CallFn W) (abs : PyVal → Value) (habs : abs .none = .null)
    (wc : WrapCfg) (name : String) (out : CalleeOut) (log : List String) (w : W) (st : State W) :
    match (wrapCall wc name out log).1 with
    | .value v => ∃ st', runTree cfg call (.ret (libOutOf abs out) w) st = .ok (abs v) st'
        ∧ st'.globals = st.globals ∧ st'.count = st.count
        ∧ st'.world = (if (failureMsg out).isSome && cfg.debug then cfg.host.logFailure w else w)
    | .raiseRuntime m => runTree cfg call (.ret (libOutOf abs out) w) st = .err (.host m) { st with world := w }
    | .raiseParser m => runTree cfg call (.ret (libOutOf abs out) w) st = .err (.host m) { st with world := w } := by
  cases out <;> simp [wrapCall, libOutOf, runTree, failureMsg, habs]

/-- the host-level log grows by exactly one line precisely when the machine applies `Host.logFailure`
(same `debug` flag, `logFn` present) -/
theorem log_line_iff_machine_logFailure (cfg : Config W) (wc : WrapCfg) (hd : wc.debug = cfg.debug) (hl : wc.hasLogFn = true)
    (name : String) (out : CalleeOut) (log : List String) :
    ((wrapCall wc name out log).2).length = log.length + (if (failureMsg out).isSome && cfg.debug then 1 else 0) := by
  rw [failure_log_length, hl, hd]; simp

/-- **Execution continues after a swallowed failure.**  In the machine a failing library call (`.ret (.fail v)`)
(1) yields the failure value as an ordinary `ok` result, (2) in the state the callee left (`globals`, statement counter
untouched, world = callee's world plus the debug line iff `debug`), and (3) is from then on INDISTINGUISHABLE from a
normal return of that value: every continuation (the enclosing library tree via `k`, the remaining operands, the next
statements) is a function of this `Out` only. -/
theorem execution_continues (cfg : Config W) (call : CallFn W) (v : Value) (w : W) (st : State W) :
    runTree cfg call (.ret (.fail v) w) st
      = .ok v { st with world := if cfg.debug then cfg.host.logFailure w else w }
    ∧ runTree cfg call (.ret (.fail v) w) st
      = runTree cfg call (.ret (.ok v) (if cfg.debug then cfg.host.logFailure w else w)) st := by
  constructor <;> simp [runTree]

/-- the rest of a binary expression is evaluated normally after its left operand ended in a swallowed failure (or in
any other way that produced a value): the right operand runs in the state the callee left, then the operator applies;
a documented error of the right operand propagates -/
theorem binary_continues (cfg : Config W) (call : CallFn W) (locals : Option Env) (op : BinOp) (l r : Expr) (st st1 : State W)
    (lv : Value) (hop : op ≠ .and ∧ op ≠ .or) (hl : evalExpr cfg call locals l st = .ok lv st1) :
    (∀ rv st2, evalExpr cfg call locals r st1 = .ok rv st2 →
        evalExpr cfg call locals (.binary op l r) st = .ok (cfg.host.binop op lv rv st2.world) st2)
    ∧ (∀ e st2, evalExpr cfg call locals r st1 = .err e st2 → evalExpr cfg call locals (.binary op l r) st = .err e st2)
    ∧ (evalExpr cfg call locals r st1 = .oof → evalExpr cfg call locals (.binary op l r) st = .oof) := by
  refine ⟨fun rv st2 hr => ?_, fun e st2 hr => ?_, fun hr => ?_⟩ <;> cases op <;> simp_all [evalExpr]

/-- … and the remaining arguments of a call likewise -/
theorem args_continue (cfg : Config W) (call : CallFn W) (locals : Option Env) (a : Expr) (as : List Expr) (st st1 : State W)
    (v : Value) (ha : evalExpr cfg call locals a st = .ok v st1) :
    (∀ vs st2, evalArgs cfg call locals as st1 = .ok vs st2 → evalArgs cfg call locals (a :: as) st = .ok (v :: vs) st2)
    ∧ (∀ e st2, evalArgs cfg call locals as st1 = .err e st2 → evalArgs cfg call locals (a :: as) st = .err e st2) := by
  refine ⟨fun vs st2 hr => ?_, fun e st2 hr => ?_⟩ <;> simp [evalArgs, ha, hr]

/-- … and the next statement: an expression statement whose call failed still assigns (the failure value) and the
machine proceeds to `pc + 1` -/
theorem statement_continues (cfg : Config W) (fuel : Nat) (P : List Stmt) (base : Option String) (cache : Cache) (pc : Nat)
    (st st2 : State W) (n : Name) (e : Expr) (v : Value)
    (hs : P[pc]? = some (.expr (some n) e))
    (hlim : ¬ (cfg.maxStatements > 0 && st.count + 1 > cfg.maxStatements) = true)
    (he : evalExpr cfg (callValue cfg fuel) none e { st with count := st.count + 1 } = .ok v st2) :
    execM cfg (fuel+1) P none base cache pc st
      = execM cfg fuel P none base cache (pc+1) { st2 with globals := st2.globals.set n v } := by
  rw [execM]
  simp [hs, he, hlim]

end machine

/-! ## 4. `HostImpl.binop` (the operator of the correspondence drivers) refines `binopSafe`

on the exactly-representable fragment: scalar operands (null, booleans, ints, finite floats, strings), every rational
that is converted or produced is representable (`F.rnd q = .fin q`: no rounding, no overflow). -/

section refines
open Machine

/-- abstraction of host-level scalars to machine values (forgets int vs float: DESIGN §3.2 "one number type") -/
def absVal : PyVal → Option Value
  | .none => some .null
  | .bool b => some (.bool b)
  | .int n => some (.num (n : Rat))
  | .float (.fin q) => some (.num q)
  | .str s => some (.str s)
  | _ => none

/-- the rational a scalar number denotes -/
def numQ : PyVal → Option Rat
  | .int n => some (n : Rat)
  | .float (.fin q) => some q
  | _ => none

/-- `q` is exactly representable: rounding does nothing (no rounding error, no overflow) -/
abbrev Exact (F : Libm) (q : Rat) : Prop := F.rnd q = .fin q

theorem numQ_cases {v : PyVal} {q : Rat} (hq : numQ v = some q) : (∃ n : Int, v = .int n ∧ q = (n : Rat)) ∨ v = .float (.fin q) := by
  cases v <;> simp [numQ] at hq
  · exact .inl ⟨_, rfl, hq.symm⟩
  · rename_i x; cases x <;> simp at hq; subst hq; exact .inr rfl

theorem asFloat_exact (F : Libm) {v : PyVal} {q : Rat} (hq : numQ v = some q) (hx : Exact F q) : asFloat F v = .ok (.fin q) := by
  rcases numQ_cases hq with ⟨n, rfl, rfl⟩ | rfl
  · simp [asFloat, toFloat, hx]
  · rfl

theorem numQ_isNumber {v : PyVal} {q : Rat} (hq : numQ v = some q) : isNumber v = true := by
  rcases numQ_cases hq with ⟨n, rfl, rfl⟩ | rfl <;> rfl

theorem numQ_abs {v : PyVal} {q : Rat} (hq : numQ v = some q) : absVal v = some (.num q) := by
  rcases numQ_cases hq with ⟨n, rfl, rfl⟩ | rfl <;> rfl

/-- result of `binopSafe` seen through the abstraction -/
def absRes (r : Except HostExc PyVal) : Option Value :=
  match r with
  | .ok v => absVal v
  | .error _ => none

/-- **`+`, `-`, `*`, `/` on numbers** (ints or finite floats in any combination).  Side condition: both operands and the
exact result are representable (then no rounding and no overflow happens anywhere on the Python side); division by zero
is null on both sides without any side condition on the result. -/
theorem refines_host_arith (F : Libm) (h : Heap) (w : HostImpl.World) (a b : PyVal) (x y : Rat)
    (ha : numQ a = some x) (hb : numQ b = some y) (hx : Exact F x) (hy : Exact F y) :
    (Exact F (x + y) → absRes (binopSafe F h .add a b) = some (HostImpl.binop .add (.num x) (.num y) w))
    ∧ (Exact F (x - y) → absRes (binopSafe F h .sub a b) = some (HostImpl.binop .sub (.num x) (.num y) w))
    ∧ (Exact F (x * y) → absRes (binopSafe F h .mul a b) = some (HostImpl.binop .mul (.num x) (.num y) w))
    ∧ ((y ≠ 0 → Exact F (x / y)) → absRes (binopSafe F h .div a b) = some (HostImpl.binop .div (.num x) (.num y) w)) := by
  have na := numQ_isNumber ha
  have nb := numQ_isNumber hb
  have fa := asFloat_exact F ha hx
  have fb := asFloat_exact F hb hy
  refine ⟨fun hr => ?_, fun hr => ?_, fun hr => ?_, fun hr => ?_⟩
  · rcases numQ_cases ha with ⟨n, rfl, rfl⟩ | rfl <;> rcases numQ_cases hb with ⟨m, rfl, rfl⟩ | rfl
    · simp [binopSafe, binopWith, binopPy, isNumber, pyAdd, okVal, absRes, absVal, HostImpl.binop, Rat.intCast_add]
    all_goals simp_all [binopSafe, binopWith, binopPy, isNumber, pyAdd, okVal, absRes, absVal, HostImpl.binop, fAdd, asFloat, toFloat]
  · rcases numQ_cases ha with ⟨n, rfl, rfl⟩ | rfl <;> rcases numQ_cases hb with ⟨m, rfl, rfl⟩ | rfl
    · simp [binopSafe, binopWith, binopPy, isNumber, pySub, okVal, absRes, absVal, HostImpl.binop, Rat.intCast_sub]
    all_goals simp_all [binopSafe, binopWith, binopPy, isNumber, pySub, okVal, absRes, absVal, HostImpl.binop, fSub, fAdd,
      PyFloat.neg, asFloat, toFloat, Rat.sub_eq_add_neg]
  · rcases numQ_cases ha with ⟨n, rfl, rfl⟩ | rfl <;> rcases numQ_cases hb with ⟨m, rfl, rfl⟩ | rfl
    all_goals simp_all [binopSafe, binopWith, binopPy, isNumber, pyMulF, pyFloatOf, pyMul, okVal, absRes, absVal, HostImpl.binop,
      fMul, asFloat, toFloat]
  · by_cases hy0 : y = 0
    · subst hy0
      rcases numQ_cases ha with ⟨n, rfl, rfl⟩ | rfl <;> rcases numQ_cases hb with ⟨m, rfl, hm⟩ | rfl
      · have : m = 0 := Rat.intCast_eq_zero_iff.mp hm.symm
        subst this
        simp [binopSafe, binopWith, binopPy, isNumber, pyDiv, okVal, absRes, absVal, HostImpl.binop, caught, HostExc.isArithmetic]
      all_goals simp_all [binopSafe, binopWith, binopPy, isNumber, pyDiv, okVal, absRes, absVal, HostImpl.binop, fDiv,
        PyFloat.isZero, asFloat, toFloat, caught, HostExc.isArithmetic]
    · have hr' := hr hy0
      rcases numQ_cases ha with ⟨n, rfl, rfl⟩ | rfl <;> rcases numQ_cases hb with ⟨m, rfl, rfl⟩ | rfl
      · have : m ≠ 0 := fun hm => hy0 (by rw [hm]; rfl)
        simp_all [binopSafe, binopWith, binopPy, isNumber, pyDiv, okVal, absRes, absVal, HostImpl.binop]
      all_goals simp_all [binopSafe, binopWith, binopPy, isNumber, pyDiv, okVal, absRes, absVal, HostImpl.binop, fDiv,
        PyFloat.isZero, asFloat, toFloat]

/-- **`%`** with at least one float operand (number literals and all arithmetic results are floats; `int % int` is the
exact `Int.fmod`, tied by the correspondence stream `binopPy` only): same floor-modulo formula on both sides -/
theorem refines_host_mod (F : Libm) (h : Heap) (w : HostImpl.World) (a b : PyVal) (x y : Rat)
    (ha : numQ a = some x) (hb : numQ b = some y) (hx : Exact F x) (hy : Exact F y)
    (hfl : (∃ q, a = .float (.fin q)) ∨ (∃ q, b = .float (.fin q)))
    (hr : y ≠ 0 → Exact F (HostImpl.pyMod x y)) :
    absRes (binopSafe F h .mod a b) = some (HostImpl.binop .mod (.num x) (.num y) w) := by
  have fa := asFloat_exact F ha hx
  have fb := asFloat_exact F hb hy
  have hm : HostImpl.pyMod x y = ratFloorMod x y := rfl
  by_cases hy0 : y = 0
  · subst hy0
    rcases numQ_cases ha with ⟨n, rfl, rfl⟩ | rfl <;> rcases numQ_cases hb with ⟨m, rfl, hm⟩ | rfl
    · rcases hfl with ⟨q, hq⟩ | ⟨q, hq⟩ <;> cases hq
    all_goals simp_all [binopSafe, binopWith, binopPy, isNumber, pyMod, okVal, absRes, absVal, HostImpl.binop, fMod,
      PyFloat.isZero, asFloat, toFloat, caught, HostExc.isArithmetic]
  · have hr' := hr hy0
    rw [hm] at hr'
    rcases numQ_cases ha with ⟨n, rfl, rfl⟩ | rfl <;> rcases numQ_cases hb with ⟨m, rfl, rfl⟩ | rfl
    · rcases hfl with ⟨q, hq⟩ | ⟨q, hq⟩ <;> cases hq
    all_goals simp_all [binopSafe, binopWith, binopPy, isNumber, pyMod, okVal, absRes, absVal, HostImpl.binop, fMod,
      PyFloat.isZero, asFloat, toFloat, HostImpl.pyMod, ratFloorMod, HostImpl.ratFloor]

/-- scalars: the fragment on which the two `value_compare`s are compared -/
def isScalar : PyVal → Bool
  | .none => true
  | .bool _ => true
  | .int _ => true
  | .float (.fin _) => true
  | .str _ => true
  | _ => false

theorem absVal_scalar {v : PyVal} (hv : isScalar v = true) : ∃ m, absVal v = some m := by
  cases v <;> simp [isScalar] at hv <;> try exact ⟨_, rfl⟩
  rename_i x; cases x <;> simp at hv; exact ⟨_, rfl⟩

theorem scalar_cases {v : PyVal} (hv : isScalar v = true) :
    v = .none ∨ (∃ b, v = .bool b) ∨ (∃ n, v = .int n) ∨ (∃ q, v = .float (.fin q)) ∨ (∃ s, v = .str s) := by
  cases v <;> simp [isScalar] at hv <;> simp
  rename_i x; cases x <;> simp at hv; simp

/-- the value of a partial computation, if any -/
def okOpt {α : Type} : Except HostExc α → Option α
  | .ok a => some a
  | .error _ => none

/-- `value_compare` on scalars: the host-level ladder (value.py:193-229) and `HostImpl.compare?` give the same integer
(no side condition beyond a positive recursion limit: comparison never rounds) -/
theorem compare_scalar (F : Libm) (h : Heap) (w : HostImpl.World) (a b : PyVal) (va vb : Value)
    (ha : isScalar a = true) (hb : isScalar b = true) (ea : absVal a = some va) (eb : absVal b = some vb)
    (hL : 0 < F.recLimit) :
    okOpt (valueCompare F h a b) = HostImpl.compare? w va vb := by
  unfold valueCompare HostImpl.compare?
  obtain ⟨n, hn⟩ : ∃ n, F.recLimit = n + 1 := ⟨F.recLimit - 1, by omega⟩
  have hm : (w.heap.length + 1) * (w.heap.length + 1) + 2 = ((w.heap.length + 1) * (w.heap.length + 1) + 1) + 1 := rfl
  rw [hn, hm]
  rcases scalar_cases ha with rfl | ⟨p, rfl⟩ | ⟨i, rfl⟩ | ⟨q, rfl⟩ | ⟨s, rfl⟩ <;>
    rcases scalar_cases hb with rfl | ⟨p', rfl⟩ | ⟨i', rfl⟩ | ⟨q', rfl⟩ | ⟨s', rfl⟩ <;>
    simp [absVal] at ea eb <;> subst_vars <;>
    simp [okOpt, cmpVal, HostImpl.valueCompare, cmpStr, cmp3, HostImpl.cmpOrd, isNumber, numExact, floatCmpLt, floatCmpEq,
      typeName, HostImpl.typeName, HostImpl.boolNat, Rat.intCast_lt_intCast]
  cases p <;> cases p' <;> simp

/-- **the six comparisons on scalars** agree (they are sign tests of the same integer) -/
theorem refines_host_cmp (F : Libm) (h : Heap) (w : HostImpl.World) (a b : PyVal) (va vb : Value)
    (ha : isScalar a = true) (hb : isScalar b = true) (ea : absVal a = some va) (eb : absVal b = some vb)
    (hL : 0 < F.recLimit) (op : BinOp) (hop : op = .eq ∨ op = .ne ∨ op = .le ∨ op = .lt ∨ op = .ge ∨ op = .gt) :
    absRes (binopSafe F h op a b) = some (HostImpl.binop op va vb w) := by
  have hc := compare_scalar F h w a b va vb ha hb ea eb hL
  cases hv : valueCompare F h a b with
  | error e =>
    -- impossible on scalars: the left side of `hc` would be `none`, the right side is `some _`
    exfalso
    rw [hv] at hc
    obtain ⟨n, hn⟩ : ∃ n, (w.heap.length + 1) * (w.heap.length + 1) + 2 = n + 1 := ⟨_, rfl⟩
    unfold HostImpl.compare? at hc
    rw [hn] at hc
    rcases scalar_cases ha with rfl | ⟨p, rfl⟩ | ⟨i, rfl⟩ | ⟨q, rfl⟩ | ⟨s, rfl⟩ <;>
      rcases scalar_cases hb with rfl | ⟨p', rfl⟩ | ⟨i', rfl⟩ | ⟨q', rfl⟩ | ⟨s', rfl⟩ <;>
      simp [absVal] at ea eb <;> subst_vars <;> simp [okOpt, HostImpl.valueCompare] at hc
  | ok c =>
    rw [hv] at hc
    have hc' : HostImpl.compare? w va vb = some c := hc.symm
    rcases hop with rfl | rfl | rfl | rfl | rfl | rfl <;>
      simp [binopSafe, binopWith, binopPy, cmpOp, hv, hc', absRes, absVal, HostImpl.binop]

/-- **string concatenation** of a string with a string, null or a boolean (numbers are excluded here: their text goes
through `float.__repr__` = the abstract `Libm.floatText`; tied by the exec correspondence instead) -/
theorem refines_host_concat (F : Libm) (h : Heap) (w : HostImpl.World) (s : String) (v : PyVal) (mv : Value)
    (hv : v = .none ∨ (∃ b, v = .bool b) ∨ (∃ t, v = .str t)) (ev : absVal v = some mv) :
    absRes (binopSafe F h .add (.str s) v) = some (HostImpl.binop .add (.str s) mv w)
    ∧ absRes (binopSafe F h .add v (.str s)) = some (HostImpl.binop .add mv (.str s) w) := by
  rcases hv with rfl | ⟨b, rfl⟩ | ⟨t, rfl⟩ <;> simp [absVal] at ev <;> subst ev <;>
    constructor <;>
    simp [binopSafe, binopWith, binopPy, isNumber, concatL, concatR, valueString, absRes, absVal, HostImpl.binop,
      HostImpl.valueString?] <;>
    (try (cases b <;> simp))

/-- **unsupported operand types are null on both sides**: for the arithmetic operators, scalar operands that are not
both numbers (and, for `+`, neither is a string) -/
theorem refines_host_unsupported (F : Libm) (h : Heap) (w : HostImpl.World) (a b : PyVal) (va vb : Value)
    (ha : isScalar a = true) (hb : isScalar b = true) (ea : absVal a = some va) (eb : absVal b = some vb)
    (hnn : (isNumber a && isNumber b) = false) (hns : isStr a = false ∧ isStr b = false)
    (op : BinOp) (hop : op = .add ∨ op = .sub ∨ op = .mul ∨ op = .div ∨ op = .mod ∨ op = .pow) :
    absRes (binopSafe F h op a b) = some .null ∧ HostImpl.binop op va vb w = .null := by
  rcases scalar_cases ha with rfl | ⟨p, rfl⟩ | ⟨n, rfl⟩ | ⟨q, rfl⟩ | ⟨s, rfl⟩ <;>
    rcases scalar_cases hb with rfl | ⟨p', rfl⟩ | ⟨n', rfl⟩ | ⟨q', rfl⟩ | ⟨s', rfl⟩ <;>
    simp [isStr, isNumber] at hns hnn <;>
    simp [absVal] at ea eb <;> subst_vars <;>
    rcases hop with rfl | rfl | rfl | rfl | rfl | rfl <;>
    simp [binopSafe, binopWith, binopPy, isNumber, absRes, absVal, HostImpl.binop]

theorem ratPowNat_eq (x : Rat) : ∀ n, HostImpl.ratPowNat x n = HostPy.ratPowNat x n
  | 0 => rfl
  | n+1 => by simp [HostImpl.ratPowNat, HostPy.ratPowNat, ratPowNat_eq x n]

theorem ratPowNat_zero : ∀ n, 0 < n → HostPy.ratPowNat 0 n = 0
  | n+1, _ => by simp [HostPy.ratPowNat, Rat.zero_mul]

theorem ratPowNat_one : ∀ n, HostPy.ratPowNat 1 n = 1
  | 0 => rfl
  | n+1 => by simp [HostPy.ratPowNat, ratPowNat_one n, Rat.mul_one]

/-- **`**`** for a base `x ≥ 0` and an INTEGRAL exponent `k` (`HostImpl.binop` is null for a fractional exponent:
"outside the driver").  Side condition: libm's `pow` returns the exact power, which is representable
(`hpow`); the special cases `k = 0`, `x = 0` (ZeroDivisionError → null for `k < 0`), `x = 1` need nothing.
`_partial`: negative bases (sign by parity of `k`) and fractional exponents are tied by the correspondence stream
`binopPy` only. -/
theorem refines_host_pow_partial (F : Libm) (h : Heap) (w : HostImpl.World) (a b : PyVal) (x : Rat) (k : Int)
    (ha : numQ a = some x) (hb : numQ b = some (k : Rat)) (hx : Exact F x) (hy : Exact F (k : Rat)) (hx0 : 0 ≤ x)
    (hpow : x ≠ 0 → x ≠ 1 → k ≠ 0 → F.powPos x (k : Rat) = .fin (HostPy.ratPowInt x k)) :
    absRes (binopSafe F h .pow a b) = some (HostImpl.binop .pow (.num x) (.num (k : Rat)) w) := by
  have na := numQ_isNumber ha
  have nb := numQ_isNumber hb
  have fa := asFloat_exact F ha hx
  have fb := asFloat_exact F hb hy
  have h2 : pyPow F (.float (.fin x)) b = floatPowOut F (.fin x) (.fin (k : Rat)) := by
    have e1 : asFloat F (.float (.fin x)) = .ok (.fin x) := rfl
    unfold pyPow
    split
    · simp_all
    · rw [e1, fb]
  have hpy : binopPy F h .pow a b = floatPowOut F (.fin x) (.fin (k : Rat)) := by
    unfold binopPy
    simp only [na, nb, Bool.and_self, if_true]
    unfold pyPowF pyFloatOf
    rw [fa]
    exact h2
  unfold binopSafe binopWith
  rw [hpy]
  have hnotneg : ¬ x < 0 := Rat.not_lt.mpr hx0
  by_cases hk0 : k = 0
  · subst hk0
    simp [floatPowOut, fPow, PyFloat.isZero, absRes, absVal, HostImpl.binop, HostImpl.ratPowNat]
  · have hkq : ¬ ((k : Rat) = 0) := fun hh => hk0 (Rat.intCast_eq_zero_iff.mp hh)
    by_cases hxz : x = 0
    · subst hxz
      by_cases hkneg : k < 0
      · have : (k : Rat) < 0 := Rat.intCast_neg_iff.mpr hkneg
        have hk' : ¬ (0 ≤ k) := by omega
        simp [floatPowOut, fPow, PyFloat.isZero, hkq, this, absRes, absVal, HostImpl.binop, caught, HostExc.isArithmetic, hk']
      · have : ¬ (k : Rat) < 0 := fun hh => hkneg (Rat.intCast_neg_iff.mp hh)
        have hk' : 0 ≤ k := by omega
        have hpos : 0 < k.toNat := by omega
        simp [floatPowOut, fPow, PyFloat.isZero, hkq, this, absRes, absVal, HostImpl.binop, hk', ratPowNat_eq,
          ratPowNat_zero _ hpos]
    · by_cases hx1 : x = 1
      · subst hx1
        by_cases hk' : 0 ≤ k
        · simp [floatPowOut, fPow, PyFloat.isZero, hkq, hxz, hnotneg, powPosE, absRes, absVal, HostImpl.binop, hk',
            ratPowNat_eq, ratPowNat_one]
        · simp [floatPowOut, fPow, PyFloat.isZero, hkq, hxz, hnotneg, powPosE, absRes, absVal, HostImpl.binop, hk',
            ratPowNat_eq, ratPowNat_one]
          rw [Rat.div_def, Rat.mul_inv_cancel 1 (by decide)]
      · have hp := hpow hxz hx1 hk0
        by_cases hk' : 0 ≤ k
        · simp [floatPowOut, fPow, PyFloat.isZero, hkq, hxz, hnotneg, powPosE, hx1, hp, absRes, absVal, HostImpl.binop, hk',
            ratPowNat_eq, HostPy.ratPowInt]
        · have hnat : (-k).toNat = k.natAbs := by omega
          simp [floatPowOut, fPow, PyFloat.isZero, hkq, hxz, hnotneg, powPosE, hx1, hp, absRes, absVal, HostImpl.binop, hk',
            ratPowNat_eq, HostPy.ratPowInt, hnat]

/-! non-vacuity of the side conditions: a `Libm` whose rounding is the identity makes every rational exact -/

def exactLibm : Libm := { ieee with rnd := fun q => .fin q, powPos := fun a y => .fin (HostPy.ratPowInt a y.num) }

/-- 1.5 + int 2 (a `numberParseInt` result) = 3.5 on both sides -/
example : absRes (binopSafe exactLibm [] .add (.float (.fin (3/2))) (.int 2)) = some (HostImpl.binop .add (.num (3/2)) (.num (2 : Int)) {}) :=
  (refines_host_arith exactLibm [] {} (.float (.fin (3/2))) (.int 2) (3/2) (2 : Int) rfl rfl rfl rfl).1 rfl

/-- 7 / 0 is null on both sides (no exactness needed for the quotient) -/
example : absRes (binopSafe exactLibm [] .div (.float (.fin 7)) (.float (.fin 0))) = some (HostImpl.binop .div (.num 7) (.num 0) {}) :=
  (refines_host_arith exactLibm [] {} (.float (.fin 7)) (.float (.fin 0)) 7 0 rfl rfl rfl rfl).2.2.2 (fun h => absurd rfl h)

/-- 'a' < 5 compares type names on both sides -/
example : absRes (binopSafe exactLibm [] .lt (.str "a") (.int 5)) = some (HostImpl.binop .lt (.str "a") (.num (5 : Int)) {}) :=
  refines_host_cmp exactLibm [] {} (.str "a") (.int 5) _ _ rfl rfl rfl rfl (by decide) .lt (by simp)

/-- 2 ** -3 = 1/8 on both sides -/
example : absRes (binopSafe exactLibm [] .pow (.float (.fin 2)) (.float (.fin ((-3 : Int) : Rat))))
    = some (HostImpl.binop .pow (.num 2) (.num ((-3 : Int) : Rat)) {}) :=
  refines_host_pow_partial exactLibm [] {} (.float (.fin 2)) (.float (.fin ((-3 : Int) : Rat))) 2 (-3) rfl rfl rfl rfl (by decide)
    (fun _ _ _ => rfl)

end refines

end C05
