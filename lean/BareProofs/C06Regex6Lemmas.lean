import BareProofs.C06Regex5
import BareProofs.C10

/-!
# C06Regex6Lemmas — the text layer: `\r?\n` splitting by the engine = `Text.splitLinesL`; logical lines never contain `'\n'`
-/

namespace C06Regex
open Rx Text Scan RxPatterns

/-! ## `_R_SCRIPT_LINE_SPLIT.split(text)` -/

theorem ctrl_test (l x : Char) : (Atom.ctrl l).test x = (x == ctrlChar l) := rfl

/-- `\r?\n` at one position -/
theorem lineSplit_match (c : Char) (t : Chars) :
    matchFrom lineSplit 0 (c :: t) =
      if c = '\n' then some ⟨1, t, []⟩
      else if c = '\r' then
        match t with
        | d :: t' => if d = '\n' then some ⟨2, t', []⟩ else none
        | [] => none
      else none := by
  unfold matchFrom lineSplit
  simp only [seq_m, opt_m, one_m', step, ctrl_test, show ctrlChar 'r' = '\r' from rfl, show ctrlChar 'n' = '\n' from rfl,
    beq_iff_eq]
  by_cases h1 : c = '\n'
  · subst h1; simp
  · by_cases h2 : c = '\r'
    · subst h2
      cases t with
      | nil => simp
      | cons d t' => by_cases hd : d = '\n' <;> simp [hd]
    · simp [h1, h2]

/-- put a text in front of the first line -/
def prependHead (p : Chars) : List Chars → List Chars
  | [] => [p]
  | l :: ls => (p ++ l) :: ls

theorem prependHead_nil (x : List Chars) (h : x ≠ []) : prependHead [] x = x := by
  cases x with
  | nil => exact absurd rfl h
  | cons l ls => rfl

theorem prependHead_consHead (p : Chars) (c : Char) (x : List Chars) (h : x ≠ []) :
    prependHead p (consHead c x) = prependHead (p ++ [c]) x := by
  cases x with
  | nil => exact absurd rfl h
  | cons l ls => simp [prependHead, consHead]

theorem splitAux_lineSplit : ∀ (fuel : Nat) (s cur : Chars), s.length ≤ fuel →
    splitAux lineSplit fuel cur s = prependHead cur.reverse (splitLinesL s)
  | 0, s, cur, h => by
    have : s = [] := List.length_eq_zero_iff.mp (by omega)
    subst this; simp [splitAux, splitLinesL, prependHead]
  | n + 1, [], cur, _ => by simp [splitAux, splitLinesL, prependHead]
  | n + 1, c :: t, cur, h => by
    have hl : t.length ≤ n := by simpa using h
    rw [splitAux, lineSplit_match, C10.splitLinesL_cons]
    by_cases h1 : c = '\n'
    · subst h1
      simp only [if_true, show ¬ ((1 : Nat) = 0) from by decide, if_false]
      rw [splitAux_lineSplit n t [] hl, List.reverse_nil, prependHead_nil _ (C10.splitLinesL_ne_nil t)]
      simp [prependHead]
    · simp only [h1, if_false]
      by_cases h2 : c = '\r'
      · subst h2
        cases t with
        | nil =>
          simp only [List.head?_nil, reduceCtorEq, and_false, if_false, if_true]
          rw [splitAux_lineSplit n [] _ hl, prependHead_consHead _ _ _ (C10.splitLinesL_ne_nil [])]
          simp
        | cons d t' =>
          by_cases hd : d = '\n'
          · subst hd
            simp only [if_true, List.head?_cons, and_self, show ¬ ((2 : Nat) = 0) from by decide, if_false, List.tail_cons]
            rw [splitAux_lineSplit n t' [] (by simp at hl; omega), List.reverse_nil, prependHead_nil _ (C10.splitLinesL_ne_nil t')]
            simp [prependHead]
          · simp only [if_true, hd, if_false, List.head?_cons, Option.some.injEq, and_false]
            rw [splitAux_lineSplit n (d :: t') _ hl, prependHead_consHead _ _ _ (C10.splitLinesL_ne_nil _)]
            simp
      · simp only [h2, if_false, false_and]
        rw [splitAux_lineSplit n t _ hl, prependHead_consHead _ _ _ (C10.splitLinesL_ne_nil t)]
        simp

/-- **`Text.splitLinesL` IS `_R_SCRIPT_LINE_SPLIT.split`** (pattern `\r?\n`, by the engine on the pinned AST) — for every text -/
theorem splitLines_regex (t : Chars) : splitLinesL t = split lineSplit t := by
  unfold split
  rw [splitAux_lineSplit t.length t [] (Nat.le_refl _), List.reverse_nil, prependHead_nil _ (C10.splitLinesL_ne_nil t)]

/-! ## no `'\n'` in physical and logical lines -/

theorem noNL_rstripL {l : Chars} (h : '\n' ∉ l) : '\n' ∉ rstripL l := by
  unfold rstripL
  intro hm
  exact h (List.mem_reverse.mp ((List.dropWhile_sublist _).subset (List.mem_reverse.mp hm)))

theorem noNL_stripL {l : Chars} (h : '\n' ∉ l) : '\n' ∉ stripL l := noNL_rstripL (not_mem_dropWhile h)

theorem noNL_contBody {l nc : Chars} (h : '\n' ∉ l) (hc : contBody? l = some nc) : '\n' ∉ nc := by
  obtain ⟨w, _, e⟩ := C10.contBody?_some_decomp hc
  rw [e] at h; exact fun hm => h (List.mem_append_left _ hm)

theorem noNL_joinSp : ∀ ps : List Chars, (∀ p ∈ ps, '\n' ∉ p) → '\n' ∉ joinSp ps
  | [], _ => by simp [joinSp]
  | [p], h => by simpa [joinSp] using h p (by simp)
  | p :: q :: ps, h => by
    show '\n' ∉ p ++ ' ' :: joinSp (q :: ps)
    intro hm
    rcases List.mem_append.mp hm with h1 | h1
    · exact h p (by simp) h1
    · rcases List.mem_cons.mp h1 with h2 | h2
      · exact absurd h2 (by decide)
      · exact noNL_joinSp (q :: ps) (fun x hx => h x (List.mem_cons_of_mem _ hx)) h2

theorem loopL_noNL : ∀ (lines : List Chars) (i : Nat) (cont : List Chars) (ix : Nat), (∀ l ∈ lines, '\n' ∉ l) →
    (∀ c ∈ cont, '\n' ∉ c) → ∀ x ∈ (loopL i lines cont ix).1, '\n' ∉ x.2
  | [], i, cont, ix, _, _ => by simp [loopL]
  | part :: rest, i, cont, ix, hl, hc => by
    have hp : '\n' ∉ part := hl part (by simp)
    have hrest : ∀ l ∈ rest, '\n' ∉ l := fun l hm => hl l (List.mem_cons_of_mem _ hm)
    rw [loopL]
    by_cases hcm : isCommentL part = true
    · simp only [hcm, if_true]; exact loopL_noNL rest _ _ _ hrest hc
    · simp only [hcm, Bool.false_eq_true, if_false]
      cases hcb : contBody? part with
      | some nc =>
        simp only []
        apply loopL_noNL rest _ _ _ hrest
        intro c hm
        rcases List.mem_append.mp hm with h1 | h1
        · exact hc c h1
        · have hn := noNL_contBody hp hcb
          simp only [List.mem_singleton] at h1
          rw [h1]; split
          · exact noNL_stripL hn
          · exact noNL_rstripL hn
      | none =>
        simp only []
        split
        · intro x hx
          simp only [emit, List.mem_cons] at hx
          rcases hx with rfl | hx
          · apply noNL_joinSp
            intro p hm
            rcases List.mem_append.mp hm with h1 | h1
            · exact hc p h1
            · simp only [List.mem_singleton] at h1; rw [h1]; exact noNL_stripL hp
          · exact loopL_noNL rest _ _ _ hrest (by simp) x hx
        · intro x hx
          simp only [emit, List.mem_cons] at hx
          rcases hx with rfl | hx
          · exact hp
          · exact loopL_noNL rest _ _ _ hrest (by simp) x hx

end C06Regex
