import BareModel.CsvText

/-!
C19 extension, reader/writer layer: the `_csv` reader state machine run over the lines of a text produced by the RFC-4180
writer gives back the records, for every line end (LF / CRLF / CR), with or without a line end after the last record.
-/

namespace C19CsvText
open CsvText

/-! ## the event stream of a text -/

/-- the events of a text that is followed by the end of the input: the characters, an end-of-line event after each line,
and one at the very end (also for the empty text) -/
def evE : List Char → List (Option Char)
  | [] => [none]
  | c :: t => some c :: (if isBreak c t && !t.isEmpty then none :: evE t else evE t)

/-- the events of a text -/
def evT (t : List Char) : List (Option Char) := if t = [] then [] else evE t

theorem splitLines_eq_nil : ∀ t : List Char, splitLines t = [] ↔ t = []
  | [] => by simp [splitLines]
  | c :: rest => by
    simp only [splitLines]
    split
    · simp
    · split <;> simp

theorem events_cons_cons (c : Char) (l : List Char) (ls : List (List Char)) :
    events ((c :: l) :: ls) = some c :: events (l :: ls) := by
  simp [events]

theorem events_splitLines : ∀ t : List Char, events (splitLines t) = evT t
  | [] => by simp [splitLines, events, evT]
  | c :: rest => by
    have ih := events_splitLines rest
    simp only [splitLines, evT, evE]
    by_cases hb : isBreak c rest = true
    · simp only [hb, if_true, Bool.true_and]
      have : events ([c] :: splitLines rest) = some c :: none :: events (splitLines rest) := by simp [events]
      rw [this, ih]
      by_cases hr : rest = []
      · subst hr; simp [evT, evE]
      · simp [evT, hr]
    · simp only [hb, Bool.false_and]
      by_cases hr : rest = []
      · subst hr; simp [splitLines, events, evE]
      · obtain ⟨l, ls, hl⟩ : ∃ l ls, splitLines rest = l :: ls := by
          cases h : splitLines rest with
          | nil => exact absurd ((splitLines_eq_nil rest).mp h) hr
          | cons l ls => exact ⟨l, ls, rfl⟩
        rw [hl] at ih ⊢
        simp [events_cons_cons, ih, evT, hr]

theorem isBreak_plain (c : Char) (t : List Char) (h1 : c ≠ '\n') (h2 : c ≠ '\r') : isBreak c t = false := by
  simp [isBreak, h1, h2]

theorem evE_cons_plain (c : Char) (t : List Char) (h1 : c ≠ '\n') (h2 : c ≠ '\r') : evE (c :: t) = some c :: evE t := by
  simp [evE, isBreak_plain c t h1 h2]

/-! ## single steps -/

theorem run_some (r r' : Rd) (c : Char) (es : List (Option Char)) (h : stepChar r c = .ok r') :
    run r (some c :: es) = run r' es := by
  simp [run, h]

/-- an end-of-line event inside a quoted field changes nothing -/
theorem run_none_inQuoted (F : List (List Char)) (B : List Char) (n : Nat) (es : List (Option Char)) :
    run ⟨F, B, n, .inQuoted⟩ (none :: es) = run ⟨F, B, n, .inQuoted⟩ es := by
  simp [run, stepEOL]

/-! ## fields -/

/-- the body of a quoted field up to and including the closing quote -/
theorem run_quoted : ∀ (s : List Char) (F : List (List Char)) (B : List Char) (n : Nat) (Y : List Char),
    n + s.length ≤ fieldLimit →
    run ⟨F, B, n, .inQuoted⟩ (evE (escapeQuotes s ++ '"' :: Y)) = run ⟨F, s.reverse ++ B, n + s.length, .quoteInQuoted⟩ (evE Y)
  | [], F, B, n, Y, _ => by
    simp only [escapeQuotes, List.nil_append]
    rw [evE_cons_plain _ _ (by decide) (by decide)]
    rw [run_some _ ⟨F, B, n, .quoteInQuoted⟩]
    · simp
    · simp [stepChar]
  | c :: s, F, B, n, Y, h => by
    simp only [List.length_cons] at h
    have hn : ¬ fieldLimit ≤ n := by omega
    by_cases hc : c = '"'
    · subst hc
      simp only [escapeQuotes, if_true, List.cons_append]
      rw [evE_cons_plain _ _ (by decide) (by decide), evE_cons_plain _ _ (by decide) (by decide)]
      rw [run_some _ ⟨F, B, n, .quoteInQuoted⟩ _ _ (by simp [stepChar])]
      rw [run_some _ ⟨F, '"' :: B, n + 1, .inQuoted⟩ _ _ (by simp [stepChar, addChar, hn])]
      rw [run_quoted s F ('"' :: B) (n + 1) Y (by omega)]
      simp [Nat.add_assoc, Nat.add_comm 1]
    · simp only [escapeQuotes, hc, if_false, List.cons_append]
      have hstep : stepChar ⟨F, B, n, .inQuoted⟩ c = .ok ⟨F, c :: B, n + 1, .inQuoted⟩ := by simp [stepChar, addChar, hn, hc]
      have ih := run_quoted s F (c :: B) (n + 1) Y (by omega)
      have hfin : run ⟨F, c :: B, n + 1, .inQuoted⟩ (evE (escapeQuotes s ++ '"' :: Y)) =
          run ⟨F, (c :: s).reverse ++ B, n + (s.length + 1), .quoteInQuoted⟩ (evE Y) := by
        rw [ih]; simp [Nat.add_assoc, Nat.add_comm 1]
      simp only [evE]
      split
      · rw [run_some _ _ _ _ hstep, run_none_inQuoted, hfin]; rfl
      · rw [run_some _ _ _ _ hstep, hfin]; rfl

/-- a character that is neither delimiter, quote nor line end -/
def Plain (c : Char) : Prop := c ≠ ',' ∧ c ≠ '"' ∧ c ≠ '\r' ∧ c ≠ '\n'

theorem plain_of_needsQuote {s : List Char} (h : needsQuote s = false) : ∀ c ∈ s, Plain c := by
  intro c hc
  simp only [needsQuote, List.any_eq_false] at h
  have := h c hc
  simp only [Bool.or_eq_true, beq_iff_eq, not_or] at this
  exact ⟨this.1.1.1, this.1.1.2, this.1.2, this.2⟩

/-- the rest of an unquoted field -/
theorem run_plain : ∀ (s : List Char) (F : List (List Char)) (B : List Char) (n : Nat) (Y : List Char),
    (∀ c ∈ s, Plain c) → n + s.length ≤ fieldLimit →
    run ⟨F, B, n, .inField⟩ (evE (s ++ Y)) = run ⟨F, s.reverse ++ B, n + s.length, .inField⟩ (evE Y)
  | [], F, B, n, Y, _, _ => by simp
  | c :: s, F, B, n, Y, hp, h => by
    simp only [List.length_cons] at h
    have hn : ¬ fieldLimit ≤ n := by omega
    obtain ⟨h1, h2, h3, h4⟩ := hp c (by simp)
    simp only [List.cons_append]
    rw [evE_cons_plain _ _ h4 h3]
    rw [run_some _ ⟨F, c :: B, n + 1, .inField⟩ _ _ (by simp [stepChar, addChar, hn, h1, h3, h4])]
    rw [run_plain s F (c :: B) (n + 1) Y (fun c' hc' => hp c' (by simp [hc'])) (by omega)]
    simp [Nat.add_assoc, Nat.add_comm 1]

/-- the reader after a field written by `fieldText force f`, started in the state `st` with the completed fields `F` -/
def afterField (F : List (List Char)) (st : St) (force : Bool) (f : List Char) : Rd :=
  if force || needsQuote f then ⟨F, f.reverse, f.length, .quoteInQuoted⟩
  else if f = [] then ⟨F, [], 0, st⟩
  else ⟨F, f.reverse, f.length, .inField⟩

theorem afterField_fields (F : List (List Char)) (st : St) (force : Bool) (f : List Char) : (afterField F st force f).fields = F := by
  unfold afterField; split
  · rfl
  · split <;> rfl

theorem afterField_buf (F : List (List Char)) (st : St) (force : Bool) (f : List Char) : (afterField F st force f).buf.reverse = f := by
  unfold afterField; split
  · simp
  · split
    · simp [*]
    · simp

theorem afterField_st (F : List (List Char)) (st : St) (force : Bool) (f : List Char) :
    (afterField F st force f).st = .quoteInQuoted ∨ (afterField F st force f).st = .inField ∨
      ((afterField F st force f).st = st ∧ f = [] ∧ force = false) := by
  unfold afterField; split
  · exact .inl rfl
  · rename_i h
    split
    · refine .inr (.inr ⟨rfl, ‹_›, ?_⟩)
      cases force <;> simp_all
    · exact .inr (.inl rfl)

/-- **one field**: from the start of a field the reader takes the written field to the field -/
theorem run_field (F : List (List Char)) (st : St) (hst : st = .startRecord ∨ st = .startField) (force : Bool) (f : List Char)
    (Y : List Char) (hlen : f.length ≤ fieldLimit) (hsp : needsQuote f = true ∨ f.head? ≠ some ' ') :
    run ⟨F, [], 0, st⟩ (evE (fieldText force f ++ Y)) = run (afterField F st force f) (evE Y) := by
  unfold fieldText afterField
  by_cases hq : (force || needsQuote f) = true
  · simp only [hq, if_true, quoteField, List.cons_append, List.append_assoc, List.nil_append]
    rw [evE_cons_plain _ _ (by decide) (by decide)]
    rw [run_some _ ⟨F, [], 0, .inQuoted⟩ _ _ (by rcases hst with h | h <;> subst h <;> simp [stepChar, startField])]
    rw [run_quoted f F [] 0 Y (by omega)]
    simp
  · simp only [hq, Bool.false_eq_true, if_false]
    have hnq : needsQuote f = false := by
      cases h : needsQuote f
      · rfl
      · simp [h] at hq
    cases f with
    | nil => simp
    | cons c s =>
      have hp := plain_of_needsQuote hnq
      obtain ⟨h1, h2, h3, h4⟩ := hp c (by simp)
      have h5 : c ≠ ' ' := by
        rcases hsp with h | h
        · rw [hnq] at h; cases h
        · simpa using h
      simp only [List.length_cons] at hlen
      simp only [List.cons_append, reduceCtorEq, if_false]
      rw [evE_cons_plain _ _ h4 h3]
      have hl : ¬ fieldLimit ≤ 0 := by decide
      rw [run_some _ ⟨F, [c], 1, .inField⟩ _ _ (by
        rcases hst with h | h <;> subst h <;> simp [stepChar, startField, addChar, h1, h2, h3, h4, h5, hl])]
      rw [run_plain s F [c] 1 Y (fun c' hc' => hp c' (by simp [hc'])) (by omega)]
      simp [Nat.add_comm 1]

/-! ## records -/

/-- the events that end a record: end of input, LF, CRLF, CR (each with the end-of-line event) -/
def IsTerm (T : List (Option Char)) : Prop :=
  T = [none] ∨ T = [some '\n', none] ∨ T = [some '\r', some '\n', none] ∨ T = [some '\r', none]

/-- the state after a field that is not the lone empty unquoted one -/
def Closed (r : Rd) : Prop := r.st = .startField ∨ r.st = .inField ∨ r.st = .quoteInQuoted

theorem run_term (r : Rd) (hr : Closed r) (T es : List (Option Char)) (hT : IsTerm T) :
    run r (T ++ es) = (run .reset es).map ((r.fields ++ [r.buf.reverse]) :: ·) := by
  obtain ⟨F, B, n, st⟩ := r
  simp only [Closed] at hr
  rcases hr with h | h | h <;> subst h <;> rcases hT with h | h | h | h <;> subst h <;>
    simp [run, stepChar, stepEOL, saveField, startField]

theorem step_comma (r : Rd) (hr : Closed r ∨ r.st = .startRecord) :
    stepChar r ',' = .ok ⟨r.fields ++ [r.buf.reverse], [], 0, .startField⟩ := by
  obtain ⟨F, B, n, st⟩ := r
  simp only [Closed] at hr
  rcases hr with (h | h | h) | h <;> subst h <;> simp [stepChar, startField, saveField]

/-- a field the reader gives back unchanged -/
def FieldOK (f : List Char) : Prop := f.length ≤ fieldLimit ∧ (needsQuote f = true ∨ f.head? ≠ some ' ')

theorem fieldOK_of_textOK {f : List Char} (h : textOK f = true) : FieldOK f := by
  simp only [textOK, Bool.and_eq_true, decide_eq_true_eq, Bool.or_eq_true, bne_iff_ne, ne_eq] at h
  exact h

/-- the remaining fields of a record and its end -/
theorem run_rest : ∀ (gs : List (List Char)) (r : Rd), (Closed r ∨ r.st = .startRecord) → (r.st = .startRecord → gs ≠ []) →
    (∀ g ∈ gs, FieldOK g) → ∀ (Y : List Char) (T es : List (Option Char)), IsTerm T → evE Y = T ++ es →
    run r (evE (restText gs ++ Y)) = (run .reset es).map ((r.fields ++ r.buf.reverse :: gs) :: ·)
  | [], r, hr, hne, _, Y, T, es, hT, hY => by
    have hc : Closed r := by
      rcases hr with h | h
      · exact h
      · exact absurd rfl (hne h)
    simp only [restText, List.nil_append]
    rw [hY, run_term r hc T es hT]
  | g :: gs, r, hr, _, hok, Y, T, es, hT, hY => by
    simp only [restText, List.cons_append, List.append_assoc]
    rw [evE_cons_plain _ _ (by decide) (by decide)]
    rw [run_some _ _ _ _ (step_comma r hr)]
    obtain ⟨hlen, hsp⟩ := hok g (by simp)
    rw [run_field (r.fields ++ [r.buf.reverse]) .startField (.inr rfl) false g (restText gs ++ Y) hlen hsp]
    have hcl : Closed (afterField (r.fields ++ [r.buf.reverse]) .startField false g) := by
      rcases afterField_st (r.fields ++ [r.buf.reverse]) .startField false g with h | h | ⟨h, _, _⟩
      · exact .inr (.inr h)
      · exact .inr (.inl h)
      · exact .inl h
    rw [run_rest gs _ (.inl hcl) (fun h => by rcases hcl with h' | h' | h' <;> rw [h] at h' <;> cases h')
      (fun g' hg' => hok g' (by simp [hg'])) Y T es hT hY]
    simp [afterField_fields, afterField_buf]

/-- **one record** followed by a record end -/
theorem run_record (f : List Char) (gs : List (List Char)) (hok : ∀ g ∈ f :: gs, FieldOK g) (Y : List Char)
    (T es : List (Option Char)) (hT : IsTerm T) (hY : evE Y = T ++ es) :
    run .reset (evE (recordText (f :: gs) ++ Y)) = (run .reset es).map ((f :: gs) :: ·) := by
  obtain ⟨hlen, hsp⟩ := hok f (by simp)
  simp only [recordText, List.append_assoc]
  rw [show Rd.reset = ⟨[], [], 0, .startRecord⟩ from rfl]
  rw [run_field [] .startRecord (.inl rfl) _ f (restText gs ++ Y) hlen hsp]
  have hst := afterField_st [] .startRecord (gs.isEmpty && f.isEmpty) f
  rw [run_rest gs _ (by
      rcases hst with h | h | ⟨h, _, _⟩
      · exact .inl (.inr (.inr h))
      · exact .inl (.inr (.inl h))
      · exact .inr h)
    (by
      intro h
      rcases hst with h' | h' | ⟨_, hf, hforce⟩
      · rw [h] at h'; cases h'
      · rw [h] at h'; cases h'
      · subst hf
        intro hg; subst hg
        simp at hforce)
    (fun g hg => hok g (by simp [hg])) Y T es hT hY]
  simp [afterField_fields, afterField_buf, Rd.reset]

/-! ## tables -/

/-- the text of a non-empty record is not empty and does not start with LF -/
theorem recordText_head (f : List Char) (gs : List (List Char)) :
    ∃ c t, recordText (f :: gs) = c :: t ∧ c ≠ '\n' := by
  simp only [recordText, fieldText]
  split
  · exact ⟨'"', escapeQuotes f ++ ['"'] ++ restText gs, by simp [quoteField], by decide⟩
  · rename_i h
    simp only [Bool.or_eq_true, not_or, Bool.not_eq_true] at h
    cases f with
    | nil =>
      cases gs with
      | nil => simp at h
      | cons g gs => exact ⟨',', fieldText false g ++ restText gs, by simp [restText], by decide⟩
    | cons c s =>
      exact ⟨c, s ++ restText gs, by simp, (plain_of_needsQuote h.2 c (by simp)).2.2.2⟩

theorem joinRecords_head (le : LineEnd) (trailing : Bool) : ∀ (recs : List (List (List Char))), recs ≠ [] → (∀ r ∈ recs, r ≠ []) →
    ∃ c t, joinRecords le trailing (recs.map recordText) = c :: t ∧ c ≠ '\n' := by
  intro recs hne hall
  match recs, hne with
  | [f :: gs], _ =>
    obtain ⟨c, t, h, hc⟩ := recordText_head f gs
    refine ⟨c, if trailing then t ++ le.chars else t, ?_, hc⟩
    simp only [List.map_cons, List.map_nil, joinRecords, h]
    split <;> simp
  | (f :: gs) :: r2 :: more, _ =>
    obtain ⟨c, t, h, hc⟩ := recordText_head f gs
    exact ⟨c, _, by simp only [List.map_cons, joinRecords, h, List.cons_append]; rfl, hc⟩
  | [] :: _, _ => exact absurd rfl (hall [] (by simp))

/-- the events of a line end that is followed by the text `R` not starting with LF -/
theorem evE_lineEnd (le : LineEnd) (R : List Char) (hR : R.head? ≠ some '\n') :
    ∃ T, IsTerm T ∧ evE (le.chars ++ R) = T ++ evT R := by
  cases le with
  | lf =>
    refine ⟨[some '\n', none], .inr (.inl rfl), ?_⟩
    cases R with
    | nil => simp [LineEnd.chars, evE, evT]
    | cons c t => simp [LineEnd.chars, evE, evT, isBreak]
  | crlf =>
    refine ⟨[some '\r', some '\n', none], .inr (.inr (.inl rfl)), ?_⟩
    cases R with
    | nil => simp [LineEnd.chars, evE, evT, isBreak]
    | cons c t => simp [LineEnd.chars, evE, evT, isBreak]
  | cr =>
    refine ⟨[some '\r', none], .inr (.inr (.inr rfl)), ?_⟩
    cases R with
    | nil => simp [LineEnd.chars, evE, evT, isBreak]
    | cons c t =>
      have : c ≠ '\n' := by simpa using hR
      simp [LineEnd.chars, evE, evT, isBreak, this]

theorem run_reset_nil : run .reset [] = .ok [] := by simp [run, Rd.reset]

/-- **the reader inverts the writer on records**: records of at least one field each, every field fit for the reader -/
theorem run_writeRecords (le : LineEnd) (trailing : Bool) : ∀ (recs : List (List (List Char))),
    (∀ r ∈ recs, r ≠ [] ∧ ∀ f ∈ r, FieldOK f) →
    run .reset (evT (writeRecords le trailing recs)) = .ok recs
  | [], _ => by simp [writeRecords, joinRecords, evT, run_reset_nil]
  | [rec], h => by
    obtain ⟨hne, hok⟩ := h rec (by simp)
    obtain ⟨f, gs, rfl⟩ : ∃ f gs, rec = f :: gs := by
      cases rec with
      | nil => exact absurd rfl hne
      | cons f gs => exact ⟨f, gs, rfl⟩
    obtain ⟨c, t, hct, _⟩ := recordText_head f gs
    simp only [writeRecords, List.map_cons, List.map_nil, joinRecords]
    cases trailing with
    | false =>
      have : evT (recordText (f :: gs)) = evE (recordText (f :: gs) ++ []) := by simp [evT, hct]
      simp only [Bool.false_eq_true, if_false]
      rw [this, run_record f gs hok [] [none] [] (.inl rfl) (by simp [evE]), run_reset_nil]
      rfl
    | true =>
      obtain ⟨T, hT, hev⟩ := evE_lineEnd le [] (by simp)
      have : evT (recordText (f :: gs) ++ le.chars) = evE (recordText (f :: gs) ++ (le.chars ++ [])) := by
        simp [evT, hct]
      simp only [if_true]
      rw [this, run_record f gs hok _ T (evT []) hT hev]
      simp [evT, run_reset_nil]
      rfl
  | rec :: rec2 :: more, h => by
    obtain ⟨hne, hok⟩ := h rec (by simp)
    obtain ⟨f, gs, rfl⟩ : ∃ f gs, rec = f :: gs := by
      cases rec with
      | nil => exact absurd rfl hne
      | cons f gs => exact ⟨f, gs, rfl⟩
    obtain ⟨c, t, hct, _⟩ := recordText_head f gs
    have ih := run_writeRecords le trailing (rec2 :: more) (fun r hr => h r (by simp [hr]))
    obtain ⟨c2, t2, hR, hc2⟩ := joinRecords_head le trailing (rec2 :: more) (by simp) (fun r hr => (h r (by simp [hr])).1)
    simp only [writeRecords] at ih
    simp only [writeRecords, List.map_cons, joinRecords]
    simp only [List.map_cons] at hR ih
    obtain ⟨T, hT, hev⟩ := evE_lineEnd le (joinRecords le trailing (recordText rec2 :: more.map recordText)) (by simp [hR, hc2])
    have : evT (recordText (f :: gs) ++ (le.chars ++ joinRecords le trailing (recordText rec2 :: more.map recordText))) =
        evE (recordText (f :: gs) ++ (le.chars ++ joinRecords le trailing (recordText rec2 :: more.map recordText))) := by
      simp [evT, hct]
    rw [this, run_record f gs hok _ T _ hT hev, ih]
    rfl

/-! ## the error branch: the field size limit -/

/-- an unquoted field of more than 131072 characters makes the reader raise `field larger than field limit (131072)`,
whatever follows (so `dataParseCSV` fails on it): the limit in `FieldOK` is needed -/
theorem run_field_limit (F : List (List Char)) (st : St) (hst : st = .startRecord ∨ st = .startField) (s1 : List Char) (c : Char)
    (Y : List Char) (h1 : s1.length = fieldLimit) (hq : needsQuote (s1 ++ [c]) = false) (hsp : s1.head? ≠ some ' ') :
    run ⟨F, [], 0, st⟩ (evE (s1 ++ c :: Y)) = .error .fieldLimit := by
  have hp := plain_of_needsQuote hq
  have hq1 : needsQuote s1 = false := by
    simp only [needsQuote, List.any_append, Bool.or_eq_false_iff] at hq
    exact hq.1
  have hne : s1 ≠ [] := by
    intro e; subst e; simp [fieldLimit] at h1
  have := run_field F st hst false s1 (c :: Y) (by omega) (.inr hsp)
  simp only [fieldText, hq1, Bool.or_self, Bool.false_eq_true, if_false] at this
  rw [this]
  obtain ⟨h2, h3, h4, h5⟩ := hp c (by simp)
  simp only [afterField, hq1, Bool.or_self, Bool.false_eq_true, if_false, hne]
  rw [evE_cons_plain _ _ h5 h4]
  simp [run, stepChar, addChar, h1, h2, h4, h5]

end C19CsvText
