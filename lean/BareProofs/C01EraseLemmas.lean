import BareModel.StructuredS
import BareProofs.C01Exact

/-!
# Helper lemmas for C01 — T3 (ticked erasure)

* environments: `vis` (entries with generated names removed), `Keep` / `KeepAll` (generated entries preserved), `Env.set`
  algebra; the relations between a machine-side state and a pure-side state (`StRel`, `LRel`); "eventually" (`Ev`);
* **frame lemmas** `evalExpr_sim`, `runTree_sim`: code that mentions no generated name is insensitive to generated-name
  bindings and preserves them; parametric in a pair of related call runners (`CallSimG`), used in both directions;
  `evalExpr_cfg`, `runTree_cfg`: the evaluator only looks at `host`, `builtins`, `debug` of the configuration;
* the combined syntactic checker `okS / okB / okE`, the outcome relation `TSim` of the forward direction and its toolkit
  (`tsim_tick`: ticks are invisible; `tsim_stmtExpr`, `tsim_stmtCond`, `tsim_skip`, `tsim_andThen`);
* both semantics in combinator form (`execSS_…`, `forS_succ`, `execTS_…`), the helper expressions of `for`, the invariant
  `ForInv`;
* converse direction: the iteration bound of `loopW` / `loopF` is never binding (`loopW_irrel`, `loopF_irrel`, `loopW1`,
  `loopF1`), convergence of the ticked side (`TConv`, `ORel`, `CSim`) and its toolkit (`csim_…`).
-/

set_option linter.unusedSimpArgs false
set_option linter.unusedSectionVars false

namespace C01
open StructuredS Machine Lower Structured

variable {W : Type}

/-! ## environments -/

def isGen : Name → Bool
  | .gen _ _ => true
  | .user _ => false

/-- the user-visible part of an environment: entries with generated names (`__bareScript…`) removed -/
def vis (e : Env) : Env := e.filter (fun p => !isGen p.1)

theorem get?_cons (k : Name) (x : Value) (e : Env) (n : Name) :
    Env.get? ((k, x) :: e) n = if k = n then some x else Env.get? e n := by
  unfold Env.get?
  by_cases h : k = n <;> simp [h]

theorem get?_nil (n : Name) : Env.get? [] n = none := rfl

theorem get?_set (e : Env) (n m : Name) (v : Value) :
    (e.set n v).get? m = if m = n then some v else e.get? m := by
  induction e with
  | nil => simp only [Env.set, get?_cons, get?_nil]; by_cases h : n = m <;> simp [h, eq_comm]
  | cons p r ih =>
    obtain ⟨k, x⟩ := p
    simp only [Env.set]
    by_cases hk : k = n
    · subst hk; simp only [beq_self_eq_true, if_true, get?_cons]
      by_cases h : k = m
      · simp [h]
      · have : ¬ m = k := fun e => h e.symm
        simp [h, this]
    · have : (k == n) = false := by simp [hk]
      simp only [this, Bool.false_eq_true, if_false, get?_cons, ih]
      by_cases h : k = m
      · subst h; simp [hk]
      · simp [h]

theorem contains_eq (e : Env) (n : Name) : e.contains n = (e.get? n).isSome := by
  induction e with
  | nil => rfl
  | cons p r ih =>
    obtain ⟨k, x⟩ := p
    rw [get?_cons]
    simp only [Env.contains, List.any_cons] at ih ⊢
    by_cases h : k = n <;> simp [h, ih]

theorem vis_get? (e : Env) (n : Name) (h : isGen n = false) : (vis e).get? n = e.get? n := by
  induction e with
  | nil => rfl
  | cons p r ih =>
    obtain ⟨k, x⟩ := p
    simp only [vis, List.filter_cons] at ih ⊢
    by_cases hk : isGen k = true
    · have : k ≠ n := by intro e; subst e; simp [h] at hk
      simp [hk, get?_cons, this, ih]
    · simp only [Bool.not_eq_true] at hk
      simp only [hk, Bool.not_false, if_true, get?_cons, ih]

theorem vis_set_gen (e : Env) (n : Name) (v : Value) (h : isGen n = true) : vis (e.set n v) = vis e := by
  induction e with
  | nil => simp [Env.set, vis, h]
  | cons p r ih =>
    obtain ⟨k, x⟩ := p
    simp only [Env.set]
    by_cases hk : k = n
    · subst hk; simp [vis, h]
    · have : (k == n) = false := by simp [hk]
      simp only [this, Bool.false_eq_true, if_false]
      simp only [vis, List.filter_cons] at ih ⊢
      rw [ih]

theorem vis_set_user (e : Env) (n : Name) (v : Value) (h : isGen n = false) : vis (e.set n v) = (vis e).set n v := by
  induction e with
  | nil => simp [Env.set, vis, h]
  | cons p r ih =>
    obtain ⟨k, x⟩ := p
    simp only [Env.set]
    by_cases hk : k = n
    · subst hk; simp [vis, h, Env.set]
    · have hb : (k == n) = false := by simp [hk]
      simp only [hb, Bool.false_eq_true, if_false]
      simp only [vis, List.filter_cons] at ih ⊢
      by_cases hg : isGen k = true
      · simp [hg, ih]
      · simp only [Bool.not_eq_true] at hg
        simp [hg, Env.set, hb, ih]

/-- equal visible parts: equal look-ups of every user name -/
theorem vis_get?_eq {e e' : Env} (h : vis e = vis e') (n : Name) (hn : isGen n = false) : e.get? n = e'.get? n := by
  rw [← vis_get? e n hn, ← vis_get? e' n hn, h]

theorem vis_contains_eq {e e' : Env} (h : vis e = vis e') (n : Name) (hn : isGen n = false) :
    e.contains n = e'.contains n := by
  rw [contains_eq, contains_eq, vis_get?_eq h n hn]

theorem vis_set_congr {e e' : Env} (h : vis e = vis e') (n : Name) (v : Value) (hn : isGen n = false) :
    vis (e.set n v) = vis (e'.set n v) := by
  rw [vis_set_user e n v hn, vis_set_user e' n v hn, h]

/-- generated entries with index below `i` are the same in `e'` as in `e` -/
def Keep (i : Nat) (e e' : Env) : Prop := ∀ K k, k < i → e'.get? (.gen K k) = e.get? (.gen K k)

/-- all generated entries are the same -/
def KeepAll (e e' : Env) : Prop := ∀ K k, e'.get? (.gen K k) = e.get? (.gen K k)

theorem Keep.refl (i : Nat) (e : Env) : Keep i e e := fun _ _ _ => rfl
theorem KeepAll.refl (e : Env) : KeepAll e e := fun _ _ => rfl
theorem Keep.trans {i j : Nat} {a b c : Env} (h1 : Keep i a b) (h2 : Keep j b c) (hij : i ≤ j) : Keep i a c :=
  fun K k hk => (h2 K k (by omega)).trans (h1 K k hk)
theorem KeepAll.trans {a b c : Env} (h1 : KeepAll a b) (h2 : KeepAll b c) : KeepAll a c :=
  fun K k => (h2 K k).trans (h1 K k)
theorem KeepAll.keep {a b : Env} (h : KeepAll a b) (i : Nat) : Keep i a b := fun K k _ => h K k
theorem Keep.mono {i j : Nat} {a b : Env} (h : Keep j a b) (hij : i ≤ j) : Keep i a b :=
  fun K k hk => h K k (by omega)

theorem keepAll_set_user (e : Env) (n : Name) (v : Value) (hn : isGen n = false) : KeepAll e (e.set n v) := by
  intro K k
  rw [get?_set]
  have : Name.gen K k ≠ n := by intro h; subst h; simp [isGen] at hn
  simp [this]

theorem keep_set_ge (i : Nat) (e : Env) (K : GK) (k : Nat) (v : Value) (hk : i ≤ k) : Keep i e (e.set (.gen K k) v) := by
  intro K' k' hlt
  rw [get?_set]
  have : Name.gen K' k' ≠ Name.gen K k := by intro h; cases h; omega
  simp [this]

/-! ## the relations -/

/-- machine-side state vs pure-side state: same world (log, heap, …), same user-visible globals; `count` ignored -/
def StRel (s s' : State W) : Prop := s.world = s'.world ∧ vis s.globals = vis s'.globals

/-- locals likewise -/
def LRel : Option Env → Option Env → Prop
  | none, none => True
  | some a, some b => vis a = vis b
  | _, _ => False

theorem StRel.refl (s : State W) : StRel s s := ⟨rfl, rfl⟩
theorem LRel.refl : ∀ l : Option Env, LRel l l
  | none => trivial
  | some _ => rfl

theorem StRel.count {s s' : State W} (h : StRel s s') (c : Nat) : StRel { s with count := c } s' := h

/-- generated entries of the locals below `i` preserved -/
def KeepL (i : Nat) : Option Env → Option Env → Prop
  | none, none => True
  | some a, some b => Keep i a b
  | _, _ => False

/-- generated entries of the globals preserved: all of them inside a function (the hidden variables live in the locals),
those below `i` in global scope -/
def GKeep (l0 : Option Env) (i : Nat) (g g' : Env) : Prop :=
  match l0 with
  | none => Keep i g g'
  | some _ => KeepAll g g'

theorem KeepL.refl (i : Nat) : ∀ l : Option Env, KeepL i l l
  | none => trivial
  | some e => Keep.refl i e

theorem KeepL.trans {i j : Nat} : ∀ {a b c : Option Env}, KeepL i a b → KeepL j b c → i ≤ j → KeepL i a c
  | none, none, none, _, _, _ => trivial
  | some _, some _, some _, h1, h2, h => Keep.trans h1 h2 h
  | none, none, some _, _, h2, _ => h2.elim
  | none, some _, _, h1, _, _ => h1.elim
  | some _, none, _, h1, _, _ => h1.elim
  | some _, some _, none, _, h2, _ => h2.elim

theorem KeepL.mono {i j : Nat} : ∀ {a b : Option Env}, KeepL j a b → i ≤ j → KeepL i a b
  | none, none, _, _ => trivial
  | some _, some _, h, hij => Keep.mono h hij
  | none, some _, h, _ => h.elim
  | some _, none, h, _ => h.elim

theorem KeepL.isSome {i : Nat} : ∀ {a b : Option Env}, KeepL i a b → b.isSome = a.isSome
  | none, none, _ => rfl
  | some _, some _, _ => rfl
  | none, some _, h => h.elim
  | some _, none, h => h.elim

theorem GKeep.refl (l0 : Option Env) (i : Nat) (g : Env) : GKeep l0 i g g := by
  cases l0 <;> simp [GKeep, Keep.refl, KeepAll.refl]

theorem GKeep.of_all (l0 : Option Env) (i : Nat) {g g' : Env} (h : KeepAll g g') : GKeep l0 i g g' := by
  cases l0
  · exact h.keep i
  · exact h

theorem GKeep.trans {l0 l1 : Option Env} {i j : Nat} {a b c : Env} (h1 : GKeep l0 i a b) (h2 : GKeep l1 j b c)
    (hs : l1.isSome = l0.isSome) (hij : i ≤ j) : GKeep l0 i a c := by
  cases l0 <;> cases l1 <;> simp at hs
  · exact Keep.trans h1 h2 hij
  · exact KeepAll.trans h1 h2

theorem GKeep.mono {l0 : Option Env} {i j : Nat} {a b : Env} (h : GKeep l0 j a b) (hij : i ≤ j) : GKeep l0 i a b := by
  cases l0
  · exact Keep.mono h hij
  · exact h

/-- look-up in the scope assignments go to -/
def sget (l : Option Env) (g : Env) (x : Name) : Option Value :=
  match l with
  | some e => e.get? x
  | none => g.get? x

theorem lookupVar_of_sget {l : Option Env} {g : Env} {x : Name} {v : Value} (h : sget l g x = some v) :
    lookupVar l g x = v := by
  cases l with
  | none => simp only [sget] at h; simp [lookupVar, h]
  | some e => simp only [sget] at h; simp [lookupVar, contains_eq, h]

theorem sget_keep {j : Nat} {l0 l : Option Env} {g0 g : Env} (hl : KeepL j l0 l) (hg : GKeep l0 j g0 g)
    (K : GK) (k : Nat) (hk : k < j) : sget l g (.gen K k) = sget l0 g0 (.gen K k) := by
  cases l0 <;> cases l <;> simp only [KeepL] at hl
  · exact hg K k hk
  · exact hl K k hk

/-! ## "for all sufficiently large fuel" -/

def Ev (P : Nat → Prop) : Prop := ∃ N, ∀ k, N ≤ k → P k

theorem Ev.of_all {P : Nat → Prop} (h : ∀ k, P k) : Ev P := ⟨0, fun k _ => h k⟩

theorem Ev.and {P Q : Nat → Prop} (h1 : Ev P) (h2 : Ev Q) : Ev (fun k => P k ∧ Q k) := by
  obtain ⟨N1, h1⟩ := h1; obtain ⟨N2, h2⟩ := h2
  exact ⟨max N1 N2, fun k hk => ⟨h1 k (by omega), h2 k (by omega)⟩⟩

theorem Ev.mono {P Q : Nat → Prop} (h1 : Ev P) (h : ∀ k, P k → Q k) : Ev Q := by
  obtain ⟨N1, h1⟩ := h1
  exact ⟨N1, fun k hk => h k (h1 k hk)⟩

/-- one more unit of fuel -/
theorem Ev.step {α : Type} {S F : Nat → α} {o : α} (hS : ∀ k, S (k+1) = F k) (h : Ev fun k => F k = o) :
    Ev fun k => S k = o := by
  obtain ⟨N, h⟩ := h
  refine ⟨N+1, fun k hk => ?_⟩
  obtain ⟨k', rfl⟩ : ∃ k', k = k'+1 := ⟨k-1, by omega⟩
  rw [hS, h k' (by omega)]

/-- plug an eventually-constant intermediate result into a continuation -/
theorem Ev.comp {α β : Type} {X : Nat → α} {x : α} {Φ : Nat → α → β} {o : β}
    (h1 : Ev fun k => X k = x) (h2 : Ev fun k => Φ k x = o) : Ev fun k => Φ k (X k) = o := by
  obtain ⟨N1, h1⟩ := h1; obtain ⟨N2, h2⟩ := h2
  refine ⟨max N1 N2, fun k hk => ?_⟩
  have a := h1 k (by omega); have b := h2 k (by omega)
  simp only at a b ⊢
  rw [a, b]

end C01

namespace C01
open StructuredS Machine Lower Structured

variable {W : Type}

/-! ## expressions without generated names; look-ups on related scopes -/

mutual
/-- the expression mentions no generated name (as variable or function name) -/
def nrE : Expr → Bool
  | .number _ => true
  | .string _ => true
  | .variable n => !isGen n
  | .function n args => !isGen n && nrEs args
  | .binary _ l r => nrE l && nrE r
  | .unary _ e => nrE e
  | .group e => nrE e
def nrEs : List Expr → Bool
  | [] => true
  | a :: as => nrE a && nrEs as
end

theorem lookupVar_rel {l l' : Option Env} {g g' : Env} (hl : LRel l l') (hg : vis g = vis g') (n : Name)
    (hn : isGen n = false) : lookupVar l g n = lookupVar l' g' n := by
  cases l <;> cases l' <;> simp only [LRel] at hl
  · simp only [lookupVar, vis_get?_eq hg n hn]
  · simp only [lookupVar, vis_get?_eq hg n hn, vis_get?_eq hl n hn, vis_contains_eq hl n hn]

theorem lookupFunc_rel (cfg : Config W) {l l' : Option Env} {g g' : Env} (hl : LRel l l') (hg : vis g = vis g') (n : Name)
    (hn : isGen n = false) : lookupFunc cfg l g n = lookupFunc cfg l' g' n := by
  cases l <;> cases l' <;> simp only [LRel] at hl
  · simp only [lookupFunc, vis_get?_eq hg n hn, vis_contains_eq hg n hn]
  · simp only [lookupFunc, vis_get?_eq hg n hn, vis_contains_eq hg n hn, vis_get?_eq hl n hn, vis_contains_eq hl n hn]

/-! ## simulation of call results -/

/-- the only error the pure reading cannot produce: the statement budget (possible only when `maxStatements = L > 0`) -/
def Exceeded (L : Nat) (e : RtErr) : Prop := ∃ m, e = .exceeded m ∧ 0 < L

/-- a machine-side result `o` against the pure-side results `S k` (fuel `k`): unless `o` is out-of-fuel or the budget
error, `S k` is — for all sufficiently large `k` — the same kind of result with the same value / error and a related
state; a normal result also preserves every generated entry of the globals `g0` it started from -/
def OSimG (kp : Bool) (L : Nat) (g0 : Env) (o : Out W) (S : Nat → Out W) : Prop :=
  match o with
  | .oof => True
  | .ok v s => ∃ s', StRel s s' ∧ (kp = true → KeepAll g0 s.globals) ∧ Ev fun k => S k = .ok v s'
  | .err e s => Exceeded L e ∨ ∃ s', StRel s s' ∧ Ev fun k => S k = .err e s'

def ASimG (kp : Bool) (L : Nat) (g0 : Env) (o : ArgsOut W) (S : Nat → ArgsOut W) : Prop :=
  match o with
  | .oof => True
  | .ok vs s => ∃ s', StRel s s' ∧ (kp = true → KeepAll g0 s.globals) ∧ Ev fun k => S k = .ok vs s'
  | .err e s => Exceeded L e ∨ ∃ s', StRel s s' ∧ Ev fun k => S k = .err e s'

/-- the two call runners agree on related states -/
def CallSimG (kp : Bool) (L : Nat) (cv : CallFn W) (cs : Nat → CallFn W) : Prop :=
  ∀ fv args st st', StRel st st' → OSimG kp L st.globals (cv fv args st) (fun k => cs k fv args st')

/-- the forward instances (`kp = true`: the generated entries of the machine-side globals are tracked) -/
abbrev OSim (L : Nat) (g0 : Env) (o : Out W) (S : Nat → Out W) : Prop := OSimG true L g0 o S
abbrev ASim (L : Nat) (g0 : Env) (o : ArgsOut W) (S : Nat → ArgsOut W) : Prop := ASimG true L g0 o S
abbrev CallSim (L : Nat) (cv : CallFn W) (cs : Nat → CallFn W) : Prop := CallSimG true L cv cs

def _root_.Machine.Out.bind (o : Out W) (F : Value → State W → Out W) : Out W :=
  match o with
  | .ok v s => F v s
  | .err e s => .err e s
  | .oof => .oof

def _root_.Machine.ArgsOut.bindO (o : ArgsOut W) (F : List Value → State W → Out W) : Out W :=
  match o with
  | .ok v s => F v s
  | .err e s => .err e s
  | .oof => .oof

def _root_.Machine.Out.bindA (o : Out W) (F : Value → State W → ArgsOut W) : ArgsOut W :=
  match o with
  | .ok v s => F v s
  | .err e s => .err e s
  | .oof => .oof

theorem osim_bind {kp : Bool} {L : Nat} {g0 : Env} {o1 : Out W} {S1 : Nat → Out W} (h1 : OSimG kp L g0 o1 S1)
    (F : Value → State W → Out W) (G : Nat → Value → State W → Out W)
    (h2 : ∀ v s s', StRel s s' → OSimG kp L s.globals (F v s) (fun k => G k v s')) :
    OSimG kp L g0 (o1.bind F) (fun k => (S1 k).bind (G k)) := by
  cases o1 with
  | oof => trivial
  | err e s =>
    rcases h1 with h | ⟨s', hs, hev⟩
    · exact Or.inl h
    · exact Or.inr ⟨s', hs, hev.mono fun k hk => by simp only [hk, Out.bind]⟩
  | ok v s =>
    obtain ⟨s', hs, hk0, hev⟩ := h1
    have h := h2 v s s' hs
    simp only [Out.bind]
    cases hF : F v s with
    | oof => trivial
    | err e s2 =>
      rw [hF] at h
      rcases h with h | ⟨s2', hs2, hev2⟩
      · exact Or.inl h
      · exact Or.inr ⟨s2', hs2, Ev.comp (Φ := fun k r => Out.bind r (G k)) hev hev2⟩
    | ok v2 s2 =>
      rw [hF] at h
      obtain ⟨s2', hs2, hk2, hev2⟩ := h
      exact ⟨s2', hs2, fun h => (hk0 h).trans (hk2 h), Ev.comp (Φ := fun k r => Out.bind r (G k)) hev hev2⟩

theorem osim_bindA {kp : Bool} {L : Nat} {g0 : Env} {o1 : Out W} {S1 : Nat → Out W} (h1 : OSimG kp L g0 o1 S1)
    (F : Value → State W → ArgsOut W) (G : Nat → Value → State W → ArgsOut W)
    (h2 : ∀ v s s', StRel s s' → ASimG kp L s.globals (F v s) (fun k => G k v s')) :
    ASimG kp L g0 (o1.bindA F) (fun k => (S1 k).bindA (G k)) := by
  cases o1 with
  | oof => trivial
  | err e s =>
    rcases h1 with h | ⟨s', hs, hev⟩
    · exact Or.inl h
    · exact Or.inr ⟨s', hs, hev.mono fun k hk => by simp only [hk, Out.bindA]⟩
  | ok v s =>
    obtain ⟨s', hs, hk0, hev⟩ := h1
    have h := h2 v s s' hs
    simp only [Out.bindA]
    cases hF : F v s with
    | oof => trivial
    | err e s2 =>
      rw [hF] at h
      rcases h with h | ⟨s2', hs2, hev2⟩
      · exact Or.inl h
      · exact Or.inr ⟨s2', hs2, Ev.comp (Φ := fun k r => Out.bindA r (G k)) hev hev2⟩
    | ok v2 s2 =>
      rw [hF] at h
      obtain ⟨s2', hs2, hk2, hev2⟩ := h
      exact ⟨s2', hs2, fun h => (hk0 h).trans (hk2 h), Ev.comp (Φ := fun k r => Out.bindA r (G k)) hev hev2⟩

theorem asim_bindO {kp : Bool} {L : Nat} {g0 : Env} {o1 : ArgsOut W} {S1 : Nat → ArgsOut W} (h1 : ASimG kp L g0 o1 S1)
    (F : List Value → State W → Out W) (G : Nat → List Value → State W → Out W)
    (h2 : ∀ v s s', StRel s s' → OSimG kp L s.globals (F v s) (fun k => G k v s')) :
    OSimG kp L g0 (o1.bindO F) (fun k => (S1 k).bindO (G k)) := by
  cases o1 with
  | oof => trivial
  | err e s =>
    rcases h1 with h | ⟨s', hs, hev⟩
    · exact Or.inl h
    · exact Or.inr ⟨s', hs, hev.mono fun k hk => by simp only [hk, ArgsOut.bindO]⟩
  | ok v s =>
    obtain ⟨s', hs, hk0, hev⟩ := h1
    have h := h2 v s s' hs
    simp only [ArgsOut.bindO]
    cases hF : F v s with
    | oof => trivial
    | err e s2 =>
      rw [hF] at h
      rcases h with h | ⟨s2', hs2, hev2⟩
      · exact Or.inl h
      · exact Or.inr ⟨s2', hs2, Ev.comp (Φ := fun k r => ArgsOut.bindO r (G k)) hev hev2⟩
    | ok v2 s2 =>
      rw [hF] at h
      obtain ⟨s2', hs2, hk2, hev2⟩ := h
      exact ⟨s2', hs2, fun h => (hk0 h).trans (hk2 h), Ev.comp (Φ := fun k r => ArgsOut.bindO r (G k)) hev hev2⟩

theorem osim_ok {kp : Bool} (L : Nat) {s s' : State W} (v : Value) (h : StRel s s') (S : Nat → Out W) (hS : ∀ k, S k = .ok v s') :
    OSimG kp L s.globals (.ok v s) S :=
  ⟨s', h, fun _ => KeepAll.refl _, Ev.of_all hS⟩

end C01

namespace C01
open StructuredS Machine Lower Structured

variable {W : Type}

/-! ## `evalExpr` in bind form -/

/-- the call of a looked-up function value (runtime.py:224-249) -/
def callLooked (call : CallFn W) (n : Name) (r : Option Value) (vs : List Value) (st : State W) : Out W :=
  match r with
  | some .null => .err (.undefinedFunction n) st
  | some fv => call fv vs st
  | none => .err (.undefinedFunction n) st

section
variable (cfg : Config W) (call : CallFn W) (l : Option Env)

theorem evalExpr_function (n : Name) (args : List Expr) (st : State W) (h : n ≠ kwIf) :
    evalExpr cfg call l (.function n args) st =
      (evalArgs cfg call l args st).bindO fun vs st1 => callLooked call n (lookupFunc cfg l st1.globals n) vs st1 := by
  rw [evalExpr]; simp only [h, if_false]
  cases evalArgs cfg call l args st with
  | ok vs st1 =>
    simp only [ArgsOut.bindO, callLooked]
    cases lookupFunc cfg l st1.globals n with
    | none => rfl
    | some fv => cases fv <;> rfl
  | err e s => rfl
  | oof => rfl

theorem evalExpr_and (a b : Expr) (st : State W) :
    evalExpr cfg call l (.binary .and a b) st =
      (evalExpr cfg call l a st).bind fun lv st1 =>
        if cfg.host.truthy lv st1.world then evalExpr cfg call l b st1 else .ok lv st1 := by
  rw [evalExpr]; cases evalExpr cfg call l a st <;> rfl

theorem evalExpr_or (a b : Expr) (st : State W) :
    evalExpr cfg call l (.binary .or a b) st =
      (evalExpr cfg call l a st).bind fun lv st1 =>
        if cfg.host.truthy lv st1.world then .ok lv st1 else evalExpr cfg call l b st1 := by
  rw [evalExpr]; cases evalExpr cfg call l a st <;> rfl

theorem evalExpr_binary (op : BinOp) (a b : Expr) (st : State W) (h1 : op ≠ .and) (h2 : op ≠ .or) :
    evalExpr cfg call l (.binary op a b) st =
      (evalExpr cfg call l a st).bind fun lv st1 =>
        (evalExpr cfg call l b st1).bind fun rv st2 => .ok (cfg.host.binop op lv rv st2.world) st2 := by
  cases op <;> first | exact absurd rfl h1 | exact absurd rfl h2 | skip
  all_goals
    rw [evalExpr]
    · cases evalExpr cfg call l a st with
      | ok lv st1 => simp only [Out.bind]; cases evalExpr cfg call l b st1 <;> rfl
      | err e s => rfl
      | oof => rfl
    · exact h1
    · exact h2

theorem evalExpr_not (a : Expr) (st : State W) :
    evalExpr cfg call l (.unary .not a) st =
      (evalExpr cfg call l a st).bind fun v st1 => .ok (.bool (!cfg.host.truthy v st1.world)) st1 := by
  rw [evalExpr]; cases evalExpr cfg call l a st <;> rfl

theorem evalExpr_neg (a : Expr) (st : State W) :
    evalExpr cfg call l (.unary .neg a) st =
      (evalExpr cfg call l a st).bind fun v st1 => .ok (cfg.host.neg v) st1 := by
  rw [evalExpr]; cases evalExpr cfg call l a st <;> rfl

theorem evalArgs_cons (a : Expr) (as : List Expr) (st : State W) :
    evalArgs cfg call l (a :: as) st =
      (evalExpr cfg call l a st).bindA fun v st1 =>
        match evalArgs cfg call l as st1 with
        | .ok vs st2 => .ok (v :: vs) st2
        | .err e s => .err e s
        | .oof => .oof := by
  rw [evalArgs]
  cases evalExpr cfg call l a st with
  | ok v st1 => simp only [Out.bindA]; cases evalArgs cfg call l as st1 <;> rfl
  | err e s => rfl
  | oof => rfl

theorem evalIf_1 (c : Expr) (st : State W) :
    evalIf cfg call l [c] st = (evalExpr cfg call l c st).bind fun _ st1 => .ok .null st1 := by
  rw [evalIf]; cases evalExpr cfg call l c st <;> rfl

theorem evalIf_2 (c t : Expr) (st : State W) :
    evalIf cfg call l [c, t] st = (evalExpr cfg call l c st).bind fun v st1 =>
      if cfg.host.truthy v st1.world then evalExpr cfg call l t st1 else .ok .null st1 := by
  rw [evalIf]; cases evalExpr cfg call l c st <;> rfl

theorem evalIf_3 (c t f : Expr) (r : List Expr) (st : State W) :
    evalIf cfg call l (c :: t :: f :: r) st = (evalExpr cfg call l c st).bind fun v st1 =>
      if cfg.host.truthy v st1.world then evalExpr cfg call l t st1 else evalExpr cfg call l f st1 := by
  rw [evalIf]; cases evalExpr cfg call l c st <;> rfl
end

end C01

namespace C01
open StructuredS Machine Lower Structured

variable {W : Type}

/-! ## frame lemma for expressions -/

theorem osim_err {kp : Bool} (L : Nat) (g0 : Env) {s s' : State W} (e : RtErr) (h : StRel s s') (S : Nat → Out W)
    (hS : ∀ k, S k = .err e s') : OSimG kp L g0 (.err e s) S :=
  Or.inr ⟨s', h, Ev.of_all hS⟩

theorem callLooked_sim {kp : Bool} {L : Nat} {cv : CallFn W} {cs : Nat → CallFn W} (hc : CallSimG kp L cv cs) (n : Name)
    (r : Option Value) (vs : List Value) {s s' : State W} (hs : StRel s s') :
    OSimG kp L s.globals (callLooked cv n r vs s) (fun k => callLooked (cs k) n r vs s') := by
  cases r with
  | none => exact osim_err L _ _ hs _ (fun _ => rfl)
  | some fv =>
    cases fv with
    | null => exact osim_err L _ _ hs _ (fun _ => rfl)
    | _ => exact hc _ vs s s' hs

section
variable (cfg : Config W) {kp : Bool} {L : Nat} {cv : CallFn W} {cs : Nat → CallFn W} (hc : CallSimG kp L cv cs)
  {l l' : Option Env} (hl : LRel l l')
include hc hl

mutual
/-- **frame lemma**: an expression that mentions no generated name evaluates, on related scopes and with related call
runners, to related results; the generated entries of the globals are untouched -/
theorem evalExpr_sim : ∀ (e : Expr) (st st' : State W), nrE e = true → StRel st st' →
    OSimG kp L st.globals (evalExpr cfg cv l e st) (fun k => evalExpr cfg (cs k) l' e st')
  | .number q, st, st', _, hs => by simp only [evalExpr]; exact osim_ok L _ hs _ (fun _ => rfl)
  | .string q, st, st', _, hs => by simp only [evalExpr]; exact osim_ok L _ hs _ (fun _ => rfl)
  | .variable n, st, st', hn, hs => by
      simp only [nrE, Bool.not_eq_true'] at hn
      simp only [evalExpr, lookupVar_rel hl hs.2 n hn]
      by_cases h1 : n = kwNull
      · simp only [h1, if_true]; exact osim_ok L _ hs _ (fun _ => rfl)
      · by_cases h2 : n = kwFalse
        · simp only [h1, h2, if_true, if_false]; exact osim_ok L _ hs _ (fun _ => rfl)
        · by_cases h3 : n = kwTrue
          · simp only [h1, h2, h3, if_true, if_false]; exact osim_ok L _ hs _ (fun _ => rfl)
          · simp only [h1, h2, h3, if_false]; exact osim_ok L _ hs _ (fun _ => rfl)
  | .function n args, st, st', hn, hs => by
      simp only [nrE, Bool.and_eq_true, Bool.not_eq_true'] at hn
      by_cases h : n = kwIf
      · simp only [evalExpr, h, if_true]
        exact evalIf_sim args st st' hn.2 hs
      · simp only [evalExpr_function cfg _ _ n args _ h]
        refine asim_bindO (evalArgs_sim args st st' hn.2 hs) _ _ ?_
        intro vs s s' hs1
        rw [lookupFunc_rel cfg hl hs1.2 n hn.1]
        exact callLooked_sim hc n _ vs hs1
  | .binary op a b, st, st', hn, hs => by
      simp only [nrE, Bool.and_eq_true] at hn
      by_cases h1 : op = .and
      · subst h1
        simp only [evalExpr_and]
        refine osim_bind (evalExpr_sim a st st' hn.1 hs) _ _ ?_
        intro v s s' hs1
        simp only [← hs1.1]
        split
        · exact evalExpr_sim b s s' hn.2 hs1
        · exact osim_ok L _ hs1 _ (fun _ => rfl)
      · by_cases h2 : op = .or
        · subst h2
          simp only [evalExpr_or]
          refine osim_bind (evalExpr_sim a st st' hn.1 hs) _ _ ?_
          intro v s s' hs1
          simp only [← hs1.1]
          split
          · exact osim_ok L _ hs1 _ (fun _ => rfl)
          · exact evalExpr_sim b s s' hn.2 hs1
        · simp only [evalExpr_binary cfg _ _ op a b _ h1 h2]
          refine osim_bind (evalExpr_sim a st st' hn.1 hs) _ _ ?_
          intro v s s' hs1
          refine osim_bind (evalExpr_sim b s s' hn.2 hs1) _ _ ?_
          intro v2 s2 s2' hs2
          simp only [← hs2.1]
          exact osim_ok L _ hs2 _ (fun _ => rfl)
  | .unary .not a, st, st', hn, hs => by
      simp only [nrE] at hn
      simp only [evalExpr_not]
      refine osim_bind (evalExpr_sim a st st' hn hs) _ _ ?_
      intro v s s' hs1
      simp only [← hs1.1]
      exact osim_ok L _ hs1 _ (fun _ => rfl)
  | .unary .neg a, st, st', hn, hs => by
      simp only [nrE] at hn
      simp only [evalExpr_neg]
      refine osim_bind (evalExpr_sim a st st' hn hs) _ _ ?_
      intro v s s' hs1
      exact osim_ok L _ hs1 _ (fun _ => rfl)
  | .group a, st, st', hn, hs => by
      simp only [nrE] at hn
      simp only [evalExpr]
      exact evalExpr_sim a st st' hn hs

theorem evalArgs_sim : ∀ (as : List Expr) (st st' : State W), nrEs as = true → StRel st st' →
    ASimG kp L st.globals (evalArgs cfg cv l as st) (fun k => evalArgs cfg (cs k) l' as st')
  | [], st, st', _, hs => by
      simp only [evalArgs]; exact ⟨st', hs, fun _ => KeepAll.refl _, Ev.of_all fun _ => rfl⟩
  | a :: as, st, st', hn, hs => by
      simp only [nrEs, Bool.and_eq_true] at hn
      simp only [evalArgs_cons]
      refine osim_bindA (evalExpr_sim a st st' hn.1 hs) _ _ ?_
      intro v s s' hs1
      have ih := evalArgs_sim as s s' hn.2 hs1
      cases hA : evalArgs cfg cv l as s with
      | oof => trivial
      | err e s2 =>
        rw [hA] at ih
        rcases ih with h | ⟨s2', hs2, hev⟩
        · exact Or.inl h
        · exact Or.inr ⟨s2', hs2, hev.mono fun k hk => by simp only [hk]⟩
      | ok vs s2 =>
        rw [hA] at ih
        obtain ⟨s2', hs2, hk2, hev⟩ := ih
        exact ⟨s2', hs2, hk2, hev.mono fun k hk => by simp only [hk]⟩

theorem evalIf_sim : ∀ (as : List Expr) (st st' : State W), nrEs as = true → StRel st st' →
    OSimG kp L st.globals (evalIf cfg cv l as st) (fun k => evalIf cfg (cs k) l' as st')
  | [], st, st', _, hs => by simp only [evalIf]; exact osim_ok L _ hs _ (fun _ => rfl)
  | [c], st, st', hn, hs => by
      simp only [nrEs, Bool.and_eq_true] at hn
      simp only [evalIf_1]
      refine osim_bind (evalExpr_sim c st st' hn.1 hs) _ _ ?_
      intro v s s' hs1
      exact osim_ok L _ hs1 _ (fun _ => rfl)
  | [c, t], st, st', hn, hs => by
      simp only [nrEs, Bool.and_eq_true] at hn
      simp only [evalIf_2]
      refine osim_bind (evalExpr_sim c st st' hn.1 hs) _ _ ?_
      intro v s s' hs1
      simp only [← hs1.1]
      split
      · exact evalExpr_sim t s s' hn.2.1 hs1
      · exact osim_ok L _ hs1 _ (fun _ => rfl)
  | c :: t :: f :: r, st, st', hn, hs => by
      simp only [nrEs, Bool.and_eq_true] at hn
      simp only [evalIf_3]
      refine osim_bind (evalExpr_sim c st st' hn.1 hs) _ _ ?_
      intro v s s' hs1
      simp only [← hs1.1]
      split
      · exact evalExpr_sim t s s' hn.2.1 hs1
      · exact evalExpr_sim f s s' hn.2.2.1 hs1
end
end

end C01

namespace C01
open StructuredS Machine Lower Structured

variable {W : Type}

/-! ## the evaluator and the library runner only look at `host`, `builtins`, `debug` of the configuration -/

theorem lookupFunc_cfg {c c' : Config W} (hh : c'.host = c.host) (hb : c'.builtins = c.builtins) (l : Option Env) (g : Env)
    (n : Name) : lookupFunc c' l g n = lookupFunc c l g n := by
  simp only [lookupFunc, hh, hb]

section
variable {c c' : Config W} (hh : c'.host = c.host) (hb : c'.builtins = c.builtins) (call : CallFn W) (l : Option Env)
include hh hb

mutual
theorem evalExpr_cfg : ∀ (e : Expr) (st : State W), evalExpr c' call l e st = evalExpr c call l e st
  | .number _, _ => by simp only [evalExpr]
  | .string _, _ => by simp only [evalExpr]
  | .variable _, _ => by simp only [evalExpr]
  | .function n args, st => by
      by_cases h : n = kwIf
      · simp only [evalExpr, h, if_true]; exact evalIf_cfg args st
      · simp only [evalExpr_function _ _ _ n args _ h, evalArgs_cfg args st, lookupFunc_cfg hh hb]
  | .binary op a b, st => by
      by_cases h1 : op = .and
      · subst h1; simp only [evalExpr_and, evalExpr_cfg a, evalExpr_cfg b, hh]
      · by_cases h2 : op = .or
        · subst h2; simp only [evalExpr_or, evalExpr_cfg a, evalExpr_cfg b, hh]
        · simp only [evalExpr_binary _ _ _ op a b _ h1 h2, evalExpr_cfg a, evalExpr_cfg b, hh]
  | .unary .not a, st => by simp only [evalExpr_not, evalExpr_cfg a, hh]
  | .unary .neg a, st => by simp only [evalExpr_neg, evalExpr_cfg a, hh]
  | .group a, st => by simp only [evalExpr]; exact evalExpr_cfg a st
theorem evalArgs_cfg : ∀ (as : List Expr) (st : State W), evalArgs c' call l as st = evalArgs c call l as st
  | [], _ => by simp only [evalArgs]
  | a :: as, st => by simp only [evalArgs_cons, evalExpr_cfg a, evalArgs_cfg as]
theorem evalIf_cfg : ∀ (as : List Expr) (st : State W), evalIf c' call l as st = evalIf c call l as st
  | [], _ => by simp only [evalIf]
  | [a], st => by simp only [evalIf_1, evalExpr_cfg a]
  | [a, t], st => by simp only [evalIf_2, evalExpr_cfg a, evalExpr_cfg t, hh]
  | a :: t :: f :: r, st => by simp only [evalIf_3, evalExpr_cfg a, evalExpr_cfg t, evalExpr_cfg f, hh]
end
end

theorem runTree_cfg {c c' : Config W} (hh : c'.host = c.host) (hd : c'.debug = c.debug) (call : CallFn W) :
    ∀ (t : LibTree W) (st : State W), runTree c' call t st = runTree c call t st := by
  intro t
  induction t with
  | ret out w => intro st; cases out <;> simp only [runTree, hh, hd]
  | call f args w k ih =>
    intro st; simp only [runTree]
    cases call f args { st with world := w } with
    | ok v st1 => exact ih v st1.world st1
    | err e s => rfl
    | oof => rfl
  | globalGet n w k ih => intro st; simp only [runTree]; exact ih _ _ _
  | globalSet n v w k ih => intro st; simp only [runTree]; exact ih _ _

end C01

namespace C01
open StructuredS Machine Lower Structured

variable {W : Type}

/-! ## frame lemma for library interaction trees -/

/-- the tree never reads or writes a generated global (`systemGlobalGet` / `systemGlobalSet` of a `__bareScript…` name) -/
inductive TreeOK : LibTree W → Prop
  | ret (out : LibOut) (w : W) : TreeOK (.ret out w)
  | call (f : Value) (args : List Value) (w : W) (k : Value → W → LibTree W) :
      (∀ v w', TreeOK (k v w')) → TreeOK (.call f args w k)
  | globalGet (n : Name) (w : W) (k : Option Value → W → LibTree W) :
      isGen n = false → (∀ ov w', TreeOK (k ov w')) → TreeOK (.globalGet n w k)
  | globalSet (n : Name) (v : Value) (w : W) (k : W → LibTree W) :
      isGen n = false → (∀ w', TreeOK (k w')) → TreeOK (.globalSet n v w k)

/-- the host's functions never touch the parser-generated variables -/
def HostNoReserved (h : Host W) : Prop :=
  (∀ name args w, TreeOK (h.lib name args w)) ∧ (∀ k args w, TreeOK (h.other k args w))

theorem OSimG.weaken {kp : Bool} {L : Nat} {g0 g1 : Env} {o : Out W} {S : Nat → Out W} (hk : KeepAll g0 g1) (h : OSimG kp L g1 o S) :
    OSimG kp L g0 o S := by
  cases o with
  | oof => trivial
  | err e s => exact h
  | ok v s => obtain ⟨s', hs, hk1, hev⟩ := h; exact ⟨s', hs, fun h => hk.trans (hk1 h), hev⟩

theorem runTree_call (cfg : Config W) (call : CallFn W) (f : Value) (args : List Value) (w : W)
    (k : Value → W → LibTree W) (st : State W) :
    runTree cfg call (.call f args w k) st =
      (call f args { st with world := w }).bind fun v st1 => runTree cfg call (k v st1.world) st1 := by
  rw [runTree]; cases call f args { st with world := w } <;> rfl

theorem runTree_sim (cfg : Config W) {kp : Bool} {L : Nat} {cv : CallFn W} {cs : Nat → CallFn W} (hc : CallSimG kp L cv cs)
    {t : LibTree W} (ht : TreeOK t) : ∀ (st st' : State W), StRel st st' →
    OSimG kp L st.globals (runTree cfg cv t st) (fun k => runTree cfg (cs k) t st') := by
  induction ht with
  | ret out w =>
    intro st st' hs
    cases out with
    | ok v => exact ⟨{ st' with world := w }, ⟨rfl, hs.2⟩, fun _ => KeepAll.refl _, Ev.of_all fun _ => rfl⟩
    | fail v =>
      exact ⟨{ st' with world := if cfg.debug then cfg.host.logFailure w else w }, ⟨rfl, hs.2⟩, fun _ => KeepAll.refl _,
        Ev.of_all fun _ => rfl⟩
    | rt msg => exact Or.inr ⟨{ st' with world := w }, ⟨rfl, hs.2⟩, Ev.of_all fun _ => rfl⟩
  | call f args w k _ ih =>
    intro st st' hs
    simp only [runTree_call]
    refine osim_bind (hc f args { st with world := w } { st' with world := w } ⟨rfl, hs.2⟩) _ _ ?_
    intro v s s' hs1
    simp only [← hs1.1]
    exact ih v s.world s s' hs1
  | globalGet n w k hn _ ih =>
    intro st st' hs
    simp only [runTree, ← vis_get?_eq hs.2 n hn]
    exact ih _ _ { st with world := w } { st' with world := w } ⟨rfl, hs.2⟩
  | globalSet n v w k hn _ ih =>
    intro st st' hs
    simp only [runTree]
    exact OSimG.weaken (keepAll_set_user st.globals n v hn)
      (ih _ { st with globals := st.globals.set n v, world := w } { st' with globals := st'.globals.set n v, world := w }
        ⟨rfl, vis_set_congr hs.2 n v hn⟩)

end C01

namespace C01
open StructuredS Machine Lower Structured

variable {W : Type}

/-! ## syntactic hypotheses -/

/-- kind of the innermost enclosing loop of the same function -/
inductive LK where
  | none | whileL | forL
deriving DecidableEq, Repr

def LK.inLoop : LK → Bool
  | .none => false
  | _ => true

/-- an optional identifier is not a generated name -/
def ngO : Option Name → Bool
  | none => true
  | some x => !isGen x

def nrEO : Option Expr → Bool
  | none => true
  | some e => nrE e

mutual
/-- the combined checker the simulation is proved for (function bodies are checked where they are *called*: in the
tables): no raw label / jump, no include, no generated identifier, `break` only in a loop, `continue` only when the
innermost enclosing loop is a `for` -/
def okS (lk : LK) : SStmt → Bool
  | .expr n e => ngO n && nrE e
  | .ret e => nrEO e
  | .ite c t e => nrE c && okB lk t && okE lk e
  | .while c b => nrE c && okB .whileL b
  | .for v ix vals b => !isGen v && ngO ix && nrE vals && okB .forL b
  | .brk => lk.inLoop
  | .cont => decide (lk = .forL)
  | .func _ n _ _ _ _ => !isGen n
  | .label _ => false
  | .jump _ _ => false
  | .include _ => false
def okB (lk : LK) : List SStmt → Bool
  | [] => true
  | s :: ss => okS lk s && okB lk ss
def okE (lk : LK) : SElse → Bool
  | .none => true
  | .els b => okB lk b
  | .elif c t e => nrE c && okB lk t && okE lk e
end

/-! ## simulation of statement outcomes -/

/-- relation between the two sides after a statement that started at counter `i` from locals `l0` / globals `g0` -/
def Post (i : Nat) (l0 : Option Env) (g0 : Env) (l : Option Env) (s : State W) (l' : Option Env) (s' : State W) : Prop :=
  LRel l l' ∧ StRel s s' ∧ KeepL i l0 l ∧ GKeep l0 i g0 s.globals

/-- ticked outcome `t` against the pure outcomes `S k`; `F` bounds the fuel left (so that nested calls are covered by the
induction hypothesis on fuel) -/
def TSim (L F : Nat) (lk : LK) (i : Nat) (l0 : Option Env) (g0 : Env) (t : TOut W) (S : Nat → SOut W) : Prop :=
  match t with
  | .oof => True
  | .err e s => Exceeded L e ∨ ∃ s', StRel s s' ∧ Ev fun k => S k = .err e s'
  | .ret v s => ∃ s', StRel s s' ∧ GKeep l0 i g0 s.globals ∧ Ev fun k => S k = .ret v s'
  | .norm l s f => f ≤ F ∧ ∃ l' s', Post i l0 g0 l s l' s' ∧ Ev fun k => S k = .norm l' s'
  | .brk l s f => f ≤ F ∧ lk ≠ .none ∧ ∃ l' s', Post i l0 g0 l s l' s' ∧ Ev fun k => S k = .brk l' s'
  | .cont l s f => f ≤ F ∧ lk = .forL ∧ ∃ l' s', Post i l0 g0 l s l' s' ∧ Ev fun k => S k = .cont l' s'

theorem Post.weaken {i j : Nat} {l0 l1 l l' : Option Env} {g0 g1 : Env} {s s' : State W}
    (hl : KeepL i l0 l1) (hg : GKeep l0 i g0 g1) (hij : i ≤ j) (h : Post j l1 g1 l s l' s') : Post i l0 g0 l s l' s' := by
  obtain ⟨a, b, c, d⟩ := h
  exact ⟨a, b, hl.trans c hij, hg.trans d hl.isSome hij⟩

/-- a later statement's simulation (counter `j ≥ i`, started from `l1`, `g1`) read from the start of the block -/
theorem TSim.weaken {L F : Nat} {lk : LK} {i j : Nat} {l0 l1 : Option Env} {g0 g1 : Env} {t : TOut W} {S : Nat → SOut W}
    (hl : KeepL i l0 l1) (hg : GKeep l0 i g0 g1) (hij : i ≤ j) (h : TSim L F lk j l1 g1 t S) : TSim L F lk i l0 g0 t S := by
  cases t with
  | oof => trivial
  | err e s => exact h
  | ret v s => obtain ⟨s', hs, hk, hev⟩ := h; exact ⟨s', hs, hg.trans hk hl.isSome hij, hev⟩
  | norm l s f => obtain ⟨hf, l', s', hp, hev⟩ := h; exact ⟨hf, l', s', hp.weaken hl hg hij, hev⟩
  | brk l s f => obtain ⟨hf, hk, l', s', hp, hev⟩ := h; exact ⟨hf, hk, l', s', hp.weaken hl hg hij, hev⟩
  | cont l s f => obtain ⟨hf, hk, l', s', hp, hev⟩ := h; exact ⟨hf, hk, l', s', hp.weaken hl hg hij, hev⟩

/-- replace the pure side by one that is eventually the same -/
theorem TSim.transfer {L F : Nat} {lk : LK} {i : Nat} {l0 : Option Env} {g0 : Env} {t : TOut W} {S0 S : Nat → SOut W}
    (h : TSim L F lk i l0 g0 t S0) (hx : ∀ o, (Ev fun k => S0 k = o) → Ev fun k => S k = o) : TSim L F lk i l0 g0 t S := by
  cases t with
  | oof => trivial
  | err e s =>
    rcases h with h | ⟨s', hs, hev⟩
    · exact Or.inl h
    · exact Or.inr ⟨s', hs, hx _ hev⟩
  | ret v s => obtain ⟨s', hs, hk, hev⟩ := h; exact ⟨s', hs, hk, hx _ hev⟩
  | norm l s f => obtain ⟨hf, l', s', hp, hev⟩ := h; exact ⟨hf, l', s', hp, hx _ hev⟩
  | brk l s f => obtain ⟨hf, hk, l', s', hp, hev⟩ := h; exact ⟨hf, hk, l', s', hp, hx _ hev⟩
  | cont l s f => obtain ⟨hf, hk, l', s', hp, hev⟩ := h; exact ⟨hf, hk, l', s', hp, hx _ hev⟩

/-- loop results (never `break` / `continue`) do not depend on the kind of the enclosing loop -/
theorem TSim.relk {L F : Nat} {lk lk' : LK} {i : Nat} {l0 : Option Env} {g0 : Env} {t : TOut W} {S : Nat → SOut W}
    (h : TSim L F lk i l0 g0 t S) (hn : NoBC t) : TSim L F lk' i l0 g0 t S := by
  cases t <;> first | exact h | exact hn.elim

/-- ticks are invisible: a tick only advances the counter (or runs out of fuel, or exceeds a positive budget) -/
theorem tsim_tick (cfg : Config W) {F : Nat} {lk : LK} {i : Nat} {l0 : Option Env} {g0 : Env}
    {f : Nat} {st st' : State W} (hs : StRel st st') (k : Nat → State W → TOut W) (S : Nat → SOut W)
    (h : ∀ f' st1, f' < f → StRel st1 st' → st1.globals = st.globals →
      TSim cfg.maxStatements F lk i l0 g0 (k f' st1) S) :
    TSim cfg.maxStatements F lk i l0 g0 (tick cfg f st k) S := by
  cases f with
  | zero => trivial
  | succ f =>
    simp only [tick]
    split
    · rename_i hc
      simp only [Bool.and_eq_true, decide_eq_true_eq] at hc
      exact Or.inl ⟨_, rfl, hc.1⟩
    · exact h f _ (Nat.lt_succ_self f) hs rfl

end C01

namespace C01
open StructuredS Machine Lower Structured

variable {W : Type}

/-! ## the two configurations -/

/-- the machine-side definition of a structured function definition: same header, body lowered (outside any loop) with
the label counter at `i0` (the value the script-wide counter had when the parser reached the definition) -/
def lowerDef (i0 : Nat) (d : SFuncDef) : FuncDef :=
  { name := d.name, args := d.args, lastArgArray := d.lastArgArray, body := (lowerB none d.body i0).1 }

/-- the machine's function table is the lowering of the structured one; `start id` = the value of the script-wide label
counter where definition `id` was lowered -/
abbrev TablesAgree (cfg : Config W) (scfg : SConfig W) (start : FnId → Nat) : Prop :=
  ∀ id, cfg.funs id = (scfg.sfuns id).map (lowerDef (start id))

/-- `cfg` (machine) and `scfg` (pure) describe the same host, and the tables agree -/
structure Agree (cfg : Config W) (scfg : SConfig W) (start : FnId → Nat) : Prop where
  host : scfg.host = cfg.host
  builtins : scfg.builtins = cfg.builtins
  debug : scfg.debug = cfg.debug
  funs : TablesAgree cfg scfg start

/-! ## the pure semantics in combinator form -/

def exprK (n : Option Name) (l : Option Env) (r : Out W) : SOut W :=
  match r with
  | .ok v st2 =>
      match n with
      | none => .norm l st2
      | some x => .norm (assign l st2 x v).1 (assign l st2 x v).2
  | .err e s => .err e s
  | .oof => .oof

def retK (r : Out W) : SOut W :=
  match r with
  | .ok v s => .ret v s
  | .err e s => .err e s
  | .oof => .oof

def condK (host : Host W) (A B : State W → SOut W) (r : Out W) : SOut W :=
  match r with
  | .ok v s => if host.truthy v s.world then A s else B s
  | .err e s => .err e s
  | .oof => .oof

def seqK (G : Option Env → State W → SOut W) (r : SOut W) : SOut W :=
  match r with
  | .norm l s => G l s
  | o => o

/-- after a loop body: `G` = what follows a normal end or `continue` -/
def loopK (G : Option Env → State W → SOut W) (r : SOut W) : SOut W :=
  match r with
  | .norm l s => G l s
  | .cont l s => G l s
  | .brk l s => .norm l s
  | o => o

/-- result of a script function body as a call result -/
def bodyK (r : SOut W) : Out W :=
  match r with
  | .norm _ s => .ok .null s
  | .brk _ s => .ok .null s
  | .cont _ s => .ok .null s
  | .ret v s => .ok v s
  | .err e s => .err e s
  | .oof => .oof

section
variable {cfg : Config W} {scfg : SConfig W} {start : FnId → Nat} (ag : Agree cfg scfg start)
include ag

theorem evalS_eq (call : CallFn W) (l : Option Env) (e : Expr) (st : State W) :
    evalExpr scfg.toConfig call l e st = evalExpr cfg call l e st :=
  evalExpr_cfg (c := cfg) (c' := scfg.toConfig) ag.host ag.builtins call l e st

theorem lookupS_eq (l : Option Env) (g : Env) (n : Name) : lookupFunc scfg.toConfig l g n = lookupFunc cfg l g n :=
  lookupFunc_cfg (c := cfg) (c' := scfg.toConfig) ag.host ag.builtins l g n

theorem runTreeS_eq (call : CallFn W) (t : LibTree W) (st : State W) :
    runTree scfg.toConfig call t st = runTree cfg call t st :=
  runTree_cfg (c := cfg) (c' := scfg.toConfig) ag.host ag.debug call t st

theorem execSS_expr (k : Nat) (n : Option Name) (e : Expr) (l : Option Env) (st : State W) :
    execSS scfg (k+1) (.expr n e) l st = exprK n l (evalExpr cfg (callS scfg k) l e st) := by
  rw [execSS, evalS_eq ag]
  cases evalExpr cfg (callS scfg k) l e st with
  | ok v s => cases n <;> rfl
  | err e s => rfl
  | oof => rfl

theorem execSS_ret (k : Nat) (e : Expr) (l : Option Env) (st : State W) :
    execSS scfg (k+1) (.ret (some e)) l st = retK (evalExpr cfg (callS scfg k) l e st) := by
  rw [execSS, evalS_eq ag]
  cases evalExpr cfg (callS scfg k) l e st <;> rfl

theorem execSS_ite (k : Nat) (c : Expr) (t : List SStmt) (e : SElse) (l : Option Env) (st : State W) :
    execSS scfg (k+1) (.ite c t e) l st =
      condK cfg.host (fun s => execSB scfg k t l s) (fun s => execSE scfg k e l s) (evalExpr cfg (callS scfg k) l c st) := by
  rw [execSS, evalS_eq ag, ag.host]
  cases evalExpr cfg (callS scfg k) l c st <;> rfl

theorem execSE_elif (k : Nat) (c : Expr) (t : List SStmt) (e : SElse) (l : Option Env) (st : State W) :
    execSE scfg (k+1) (.elif c t e) l st =
      condK cfg.host (fun s => execSB scfg k t l s) (fun s => execSE scfg k e l s) (evalExpr cfg (callS scfg k) l c st) := by
  rw [execSE, evalS_eq ag, ag.host]
  cases evalExpr cfg (callS scfg k) l c st <;> rfl

theorem execSS_while (k : Nat) (c : Expr) (b : List SStmt) (l : Option Env) (st : State W) :
    execSS scfg (k+1) (.while c b) l st =
      condK cfg.host (fun s => loopK (fun l1 s1 => execSS scfg k (.while c b) l1 s1) (execSB scfg k b l s))
        (fun s => .norm l s) (evalExpr cfg (callS scfg k) l c st) := by
  rw [execSS, evalS_eq ag, ag.host]
  cases evalExpr cfg (callS scfg k) l c st with
  | ok v s =>
    simp only [condK]
    split
    · cases execSB scfg k b l s <;> rfl
    · rfl
  | err e s => rfl
  | oof => rfl
end

theorem execSB_cons (scfg : SConfig W) (k : Nat) (s : SStmt) (ss : List SStmt) (l : Option Env) (st : State W) :
    execSB scfg (k+1) (s :: ss) l st = seqK (fun l1 s1 => execSB scfg k ss l1 s1) (execSS scfg k s l st) := by
  rw [execSB]; cases execSS scfg k s l st <;> rfl

end C01

namespace C01
open StructuredS Machine Lower Structured

variable {W : Type}

/-! ## assignments -/

/-- target of `name = e` / bare `e` -/
def assignO (l : Option Env) (st : State W) (n : Option Name) (v : Value) : Option Env × State W :=
  match n with
  | none => (l, st)
  | some x => assign l st x v

theorem stmtExpr_eq (cfg : Config W) (cv : CallAt W) (n : Option Name) (e : Expr) (f : Nat) (l : Option Env) (st : State W) :
    stmtExpr cfg cv n e f l st = tick cfg f st fun f' st1 =>
      match evalExpr cfg (cv f') l e st1 with
      | .ok v st2 => .norm (assignO l st2 n v).1 (assignO l st2 n v).2 f'
      | .err e s => .err e s
      | .oof => .oof := by
  unfold stmtExpr; congr 1; funext f' st1
  cases evalExpr cfg (cv f') l e st1 with
  | ok v st2 => cases n <;> rfl
  | err e s => rfl
  | oof => rfl

theorem andThen_tick (cfg : Config W) (f : Nat) (st : State W) (k : Nat → State W → TOut W)
    (g : Option Env → State W → Nat → TOut W) :
    andThen (tick cfg f st k) g = tick cfg f st fun f' st1 => andThen (k f' st1) g := by
  cases f with
  | zero => rfl
  | succ f => simp only [tick]; split <;> rfl

/-- assignment of a user name on both sides -/
theorem assign_user {l l' : Option Env} {s s' : State W} (hl : LRel l l') (hs : StRel s s') (x : Name) (v : Value)
    (hx : isGen x = false) (i : Nat) :
    Post i l s.globals (assign l s x v).1 (assign l s x v).2 (assign l' s' x v).1 (assign l' s' x v).2 := by
  cases l <;> cases l' <;> simp only [LRel] at hl
  · exact ⟨trivial, ⟨hs.1, vis_set_congr hs.2 x v hx⟩, trivial, (keepAll_set_user _ x v hx).keep i⟩
  · exact ⟨vis_set_congr hl x v hx, hs, (keepAll_set_user _ x v hx).keep i, KeepAll.refl _⟩

/-- assignment of a hidden variable (machine side only) -/
theorem assign_gen {l l' : Option Env} {s s' : State W} (hl : LRel l l') (hs : StRel s s') (K : GK) (k : Nat) (v : Value)
    (i : Nat) (hk : i ≤ k) :
    Post i l s.globals (assign l s (.gen K k) v).1 (assign l s (.gen K k) v).2 l' s' := by
  cases l <;> cases l' <;> simp only [LRel] at hl
  · exact ⟨trivial, ⟨hs.1, by simp only [assign]; rw [vis_set_gen _ _ _ rfl]; exact hs.2⟩, trivial, keep_set_ge i _ K k v hk⟩
  · exact ⟨by simp only [assign, LRel]; rw [vis_set_gen _ _ _ rfl]; exact hl, hs, keep_set_ge i _ K k v hk, KeepAll.refl _⟩

theorem sget_assign_self (l : Option Env) (s : State W) (x : Name) (v : Value) :
    sget (assign l s x v).1 (assign l s x v).2.globals x = some v := by
  cases l <;> simp [assign, sget, get?_set]

theorem sget_assign_ne (l : Option Env) (s : State W) (x y : Name) (v : Value) (h : y ≠ x) :
    sget (assign l s x v).1 (assign l s x v).2.globals y = sget l s.globals y := by
  cases l <;> simp [assign, sget, get?_set, h]

theorem assign_world (l : Option Env) (s : State W) (x : Name) (v : Value) : (assign l s x v).2.world = s.world := by
  cases l <;> rfl

theorem assign_isSome (l : Option Env) (s : State W) (x : Name) (v : Value) : (assign l s x v).1.isSome = l.isSome := by
  cases l <;> rfl

/-! ## one lowered statement against its pure counterpart -/

theorem TSim.step {L F : Nat} {lk : LK} {i : Nat} {l0 : Option Env} {g0 : Env} {t : TOut W} {S0 S : Nat → SOut W}
    (h : TSim L F lk i l0 g0 t S0) (hS : ∀ k, S (k+1) = S0 k) : TSim L F lk i l0 g0 t S :=
  h.transfer fun _ hev => Ev.step hS hev

section
variable (cfg : Config W) {F : Nat} {lk : LK} {i : Nat} {l0 : Option Env} {g0 : Env}

/-- `name = e` followed by `g`; the pure side computes `X k` (related to the value of `e`) and goes on with `Φ` -/
theorem tsim_stmtExpr (cv : CallAt W) {n : Option Name} {e : Expr} {f : Nat} {l : Option Env} {st st' : State W}
    {g : Option Env → State W → Nat → TOut W} {X : Nat → Out W} {Φ : Nat → Out W → SOut W}
    (hs : StRel st st')
    (hX : ∀ f' st1, f' < f → StRel st1 st' → st1.globals = st.globals →
      OSim cfg.maxStatements st1.globals (evalExpr cfg (cv f') l e st1) X)
    (hΦe : ∀ k e s, Φ k (.err e s) = .err e s)
    (hg : ∀ v st2 st2' f', f' < f → StRel st2 st2' → KeepAll st.globals st2.globals →
      TSim cfg.maxStatements F lk i l0 g0 (g (assignO l st2 n v).1 (assignO l st2 n v).2 f') (fun k => Φ k (.ok v st2'))) :
    TSim cfg.maxStatements F lk i l0 g0 (andThen (stmtExpr cfg cv n e f l st) g) (fun k => Φ k (X k)) := by
  rw [stmtExpr_eq, andThen_tick]
  refine tsim_tick cfg hs _ _ ?_
  intro f' st1 hlt hs1 hg1
  have hE := hX f' st1 hlt hs1 hg1
  cases hT : evalExpr cfg (cv f') l e st1 with
  | oof => trivial
  | err er s =>
    rw [hT] at hE
    rcases hE with h | ⟨s', hs2, hev⟩
    · exact Or.inl h
    · exact Or.inr ⟨s', hs2, Ev.comp hev (Ev.of_all fun k => hΦe k er s')⟩
  | ok v st2 =>
    rw [hT] at hE
    obtain ⟨st2', hs2, hk, hev⟩ := hE
    simp only [andThen]
    refine (hg v st2 st2' f' hlt hs2 (hg1 ▸ hk rfl)).transfer ?_
    intro o ho
    exact Ev.comp hev ho

/-- a conditional jump on `c`; the pure side computes `X k` and branches in `Φ` -/
theorem tsim_stmtCond (cv : CallAt W) {c : Expr} {f : Nat} {l : Option Env} {st st' : State W}
    {K : Bool → Nat → State W → TOut W} {X : Nat → Out W} {Φ : Nat → Out W → SOut W}
    (hs : StRel st st')
    (hX : ∀ f' st1, f' < f → StRel st1 st' → st1.globals = st.globals →
      OSim cfg.maxStatements st1.globals (evalExpr cfg (cv f') l c st1) X)
    (hΦe : ∀ k e s, Φ k (.err e s) = .err e s)
    (hK : ∀ v st2 st2' f', f' < f → StRel st2 st2' → KeepAll st.globals st2.globals →
      TSim cfg.maxStatements F lk i l0 g0 (K (cfg.host.truthy v st2.world) f' st2) (fun k => Φ k (.ok v st2'))) :
    TSim cfg.maxStatements F lk i l0 g0 (stmtCond cfg cv c f l st K) (fun k => Φ k (X k)) := by
  unfold stmtCond
  refine tsim_tick cfg hs _ _ ?_
  intro f' st1 hlt hs1 hg1
  have hE := hX f' st1 hlt hs1 hg1
  cases hT : evalExpr cfg (cv f') l c st1 with
  | oof => trivial
  | err er s =>
    rw [hT] at hE
    rcases hE with h | ⟨s', hs2, hev⟩
    · exact Or.inl h
    · exact Or.inr ⟨s', hs2, Ev.comp hev (Ev.of_all fun k => hΦe k er s')⟩
  | ok v st2 =>
    rw [hT] at hE
    obtain ⟨st2', hs2, hk, hev⟩ := hE
    refine (hK v st2 st2' f' hlt hs2 (hg1 ▸ hk rfl)).transfer ?_
    intro o ho
    exact Ev.comp hev ho

/-- a label / unconditional jump followed by `g`: invisible -/
theorem tsim_skip {f : Nat} {l : Option Env} {st st' : State W} {g : Option Env → State W → Nat → TOut W}
    {S : Nat → SOut W} (hs : StRel st st')
    (hg : ∀ f' st1, f' < f → StRel st1 st' → st1.globals = st.globals →
      TSim cfg.maxStatements F lk i l0 g0 (g l st1 f') S) :
    TSim cfg.maxStatements F lk i l0 g0 (andThen (stmtSkip cfg f l st) g) S := by
  unfold stmtSkip
  rw [andThen_tick]
  exact tsim_tick cfg hs _ _ hg

/-- sequencing -/
theorem tsim_andThen {L : Nat} {t1 : TOut W} {S1 : Nat → SOut W} {g : Option Env → State W → Nat → TOut W}
    {G : Nat → Option Env → State W → SOut W}
    (h1 : TSim L F lk i l0 g0 t1 S1)
    (h2 : ∀ l s f l' s', f ≤ F → Post i l0 g0 l s l' s' → TSim L F lk i l0 g0 (g l s f) (fun k => G k l' s')) :
    TSim L F lk i l0 g0 (andThen t1 g) (fun k => seqK (G k) (S1 k)) := by
  cases t1 with
  | oof => trivial
  | err e s =>
    rcases h1 with h | ⟨s', hs, hev⟩
    · exact Or.inl h
    · exact Or.inr ⟨s', hs, hev.mono fun k hk => by simp only [hk, seqK]⟩
  | ret v s => obtain ⟨s', hs, hk0, hev⟩ := h1; exact ⟨s', hs, hk0, hev.mono fun k hk => by simp only [hk, seqK]⟩
  | brk l s f =>
    obtain ⟨hf, hk, l', s', hp, hev⟩ := h1
    exact ⟨hf, hk, l', s', hp, hev.mono fun k hk => by simp only [hk, seqK]⟩
  | cont l s f =>
    obtain ⟨hf, hk, l', s', hp, hev⟩ := h1
    exact ⟨hf, hk, l', s', hp, hev.mono fun k hk => by simp only [hk, seqK]⟩
  | norm l s f =>
    obtain ⟨hf, l', s', hp, hev⟩ := h1
    simp only [andThen]
    refine (h2 l s f l' s' hf hp).transfer ?_
    intro o ho
    exact Ev.comp (Φ := fun k r => seqK (G k) r) hev ho
end

end C01

namespace C01
open StructuredS Machine Lower Structured

variable {W : Type}

/-! ## the ticked semantics in `andThen` form -/

/-- the host's truth value of a boolean is the boolean (`value_boolean(True) = True`) -/
def TruthyBool (h : Host W) : Prop := ∀ b w, h.truthy (.bool b) w = b

theorem andThen_id (t : TOut W) : andThen t (fun l s f => .norm l s f) = t := by cases t <;> rfl

theorem stmtCond_notE (cfg : Config W) (htb : TruthyBool cfg.host) (cv : CallAt W) (c : Expr) (f : Nat) (l : Option Env)
    (st : State W) (K : Bool → Nat → State W → TOut W) :
    stmtCond cfg cv (notE c) f l st K = stmtCond cfg cv c f l st (fun b => K (!b)) := by
  unfold stmtCond notE
  congr 1; funext f' st1
  rw [evalExpr_not]
  cases evalExpr cfg (cv f') l c st1 with
  | ok v s => simp only [Out.bind]; rw [htb]
  | err e s => rfl
  | oof => rfl

section
variable (cfg : Config W) (cv : CallAt W) (ei : InclAt W) (il : Bool)

theorem execTB_cons (s : SStmt) (ss : List SStmt) (i f : Nat) (l : Option Env) (base : Option String) (st : State W) :
    execTB cfg cv ei il (s :: ss) i f l base st =
      andThen (execTS cfg cv ei il s i f l base st) fun l1 st1 f1 => execTB cfg cv ei il ss (cntS s i) f1 l1 base st1 := by
  rw [execTB]; cases execTS cfg cv ei il s i f l base st <;> rfl

/-- a branch of an `if` chain: the block, then `label done` / `jump done` -/
def thenT (t : List SStmt) (i f : Nat) (l : Option Env) (base : Option String) (st : State W) : TOut W :=
  andThen (execTB cfg cv ei il t i f l base st) fun l2 st2 f2 => stmtSkip cfg f2 l2 st2

theorem execTS_ite (c : Expr) (t : List SStmt) (e : SElse) (i f : Nat) (l : Option Env) (base : Option String) (st : State W) :
    execTS cfg cv ei il (.ite c t e) i f l base st =
      stmtCond cfg cv (notE c) f l st fun taken f st1 =>
        if taken then execTE cfg cv ei il e (cntB t (i+1)) f l base st1 else thenT cfg cv ei il t (i+1) f l base st1 := by
  rw [execTS]; rfl

theorem execTE_elif (c : Expr) (t : List SStmt) (e : SElse) (i f : Nat) (l : Option Env) (base : Option String) (st : State W) :
    execTE cfg cv ei il (.elif c t e) i f l base st =
      stmtCond cfg cv (notE c) f l st fun taken f st1 =>
        if taken then execTE cfg cv ei il e (cntB t (i+1)) f l base st1 else thenT cfg cv ei il t (i+1) f l base st1 := by
  rw [execTE]; rfl

theorem execTE_els (b : List SStmt) (i f : Nat) (l : Option Env) (base : Option String) (st : State W) :
    execTE cfg cv ei il (.els b) i f l base st = thenT cfg cv ei il b i f l base st := by
  rw [execTE]; unfold thenT; cases execTB cfg cv ei il b i f l base st <;> rfl

theorem execTS_while (c : Expr) (b : List SStmt) (i f : Nat) (l : Option Env) (base : Option String) (st : State W) :
    execTS cfg cv ei il (.while c b) i f l base st =
      stmtCond cfg cv (notE c) f l st fun taken f st1 =>
        if taken then .norm l st1 f
        else andThen (stmtSkip cfg f l st1) fun l2 st2 f2 =>
          loopW cfg cv c (fun f l s => execTB cfg cv ei true b (i+1) f l base s) (f2 + 1) f2 l2 st2 := by
  rw [execTS]; rfl
end

end C01

namespace C01
open StructuredS Machine Lower Structured

variable {W : Type}

/-! ## the helper expressions emitted by the lowering of `for` -/

theorem evalExpr_variable (cfg : Config W) (call : CallFn W) (l : Option Env) (n : Name) (st : State W) :
    evalExpr cfg call l (.variable n) st = .ok (readVar l st.globals n) st := by
  simp only [evalExpr, readVar]
  split
  · rfl
  split
  · rfl
  split <;> rfl

theorem readVar_gen (l : Option Env) (g : Env) (K : GK) (k : Nat) : readVar l g (.gen K k) = lookupVar l g (.gen K k) := by
  simp [readVar, kwNull, kwFalse, kwTrue]

theorem readVar_of_sget {l : Option Env} {g : Env} {K : GK} {k : Nat} {v : Value} (h : sget l g (.gen K k) = some v) :
    readVar l g (.gen K k) = v := by
  rw [readVar_gen, lookupVar_of_sget h]

theorem readVar_rel {l l' : Option Env} {g g' : Env} (hl : LRel l l') (hg : vis g = vis g') (n : Name)
    (hn : isGen n = false) : readVar l g n = readVar l' g' n := by
  simp only [readVar, lookupVar_rel hl hg n hn]

theorem evalExpr_call1 (cfg : Config W) (call : CallFn W) (l : Option Env) (fn x : Name) (st : State W) (h : fn ≠ kwIf) :
    evalExpr cfg call l (.function fn [.variable x]) st =
      callLooked call fn (lookupFunc cfg l st.globals fn) [readVar l st.globals x] st := by
  rw [evalExpr_function cfg call l fn _ st h, evalArgs_cons, evalExpr_variable]
  simp only [Out.bindA, evalArgs, ArgsOut.bindO]

theorem evalExpr_call2 (cfg : Config W) (call : CallFn W) (l : Option Env) (fn x y : Name) (st : State W) (h : fn ≠ kwIf) :
    evalExpr cfg call l (.function fn [.variable x, .variable y]) st =
      callLooked call fn (lookupFunc cfg l st.globals fn) [readVar l st.globals x, readVar l st.globals y] st := by
  rw [evalExpr_function cfg call l fn _ st h, evalArgs_cons, evalExpr_variable]
  simp only [Out.bindA, evalArgs_cons, evalExpr_variable, evalArgs, ArgsOut.bindO]

theorem evalExpr_incr (cfg : Config W) (call : CallFn W) (l : Option Env) (x : Name) (st : State W) :
    evalExpr cfg call l (.binary .add (.variable x) (.number 1)) st =
      .ok (cfg.host.binop .add (readVar l st.globals x) (.num 1) st.world) st := by
  rw [evalExpr_binary cfg call l .add _ _ st (by decide) (by decide), evalExpr_variable]
  simp only [Out.bind, evalExpr]

theorem evalExpr_ltvars (cfg : Config W) (call : CallFn W) (l : Option Env) (x y : Name) (st : State W) :
    evalExpr cfg call l (.binary .lt (.variable x) (.variable y)) st =
      .ok (cfg.host.binop .lt (readVar l st.globals x) (readVar l st.globals y) st.world) st := by
  rw [evalExpr_binary cfg call l .lt _ _ st (by decide) (by decide), evalExpr_variable]
  simp only [Out.bind, evalExpr_variable]

theorem fnArrayGet_ne : fnArrayGet ≠ kwIf := by decide
theorem fnArrayLength_ne : fnArrayLength ≠ kwIf := by decide

/-! ## machine-only statements whose value is known -/

section
variable (cfg : Config W) {F : Nat} {lk : LK} {i : Nat} {l0 : Option Env} {g0 : Env}

theorem tsim_stmtExpr_pure (cv : CallAt W) {n : Option Name} {e : Expr} {f : Nat} {l : Option Env} {st st' : State W}
    {g : Option Env → State W → Nat → TOut W} {S : Nat → SOut W} (val : State W → Value)
    (hs : StRel st st')
    (hE : ∀ f' st1, st1.globals = st.globals → evalExpr cfg (cv f') l e st1 = .ok (val st1) st1)
    (hg : ∀ f' st1, f' < f → StRel st1 st' → st1.globals = st.globals →
      TSim cfg.maxStatements F lk i l0 g0 (g (assignO l st1 n (val st1)).1 (assignO l st1 n (val st1)).2 f') S) :
    TSim cfg.maxStatements F lk i l0 g0 (andThen (stmtExpr cfg cv n e f l st) g) S := by
  rw [stmtExpr_eq, andThen_tick]
  refine tsim_tick cfg hs _ _ ?_
  intro f' st1 hlt hs1 hg1
  rw [hE f' st1 hg1]
  exact hg f' st1 hlt hs1 hg1

theorem tsim_stmtCond_pure (cv : CallAt W) {c : Expr} {f : Nat} {l : Option Env} {st st' : State W}
    {K : Bool → Nat → State W → TOut W} {S : Nat → SOut W} (val : State W → Value)
    (hs : StRel st st')
    (hE : ∀ f' st1, st1.globals = st.globals → evalExpr cfg (cv f') l c st1 = .ok (val st1) st1)
    (hK : ∀ f' st1, f' < f → StRel st1 st' → st1.globals = st.globals →
      TSim cfg.maxStatements F lk i l0 g0 (K (cfg.host.truthy (val st1) st1.world) f' st1) S) :
    TSim cfg.maxStatements F lk i l0 g0 (stmtCond cfg cv c f l st K) S := by
  unfold stmtCond
  refine tsim_tick cfg hs _ _ ?_
  intro f' st1 hlt hs1 hg1
  rw [hE f' st1 hg1]
  exact hK f' st1 hlt hs1 hg1
end

end C01

namespace C01
open StructuredS Machine Lower Structured

variable {W : Type}

/-! ## `for` on the pure side, in combinator form -/

/-- the index the pure side passes to `arrayGet` -/
def idxS (ix : Option Name) (c : Value) (l : Option Env) (g : Env) : Value :=
  match ix with
  | some x => readVar l g x
  | none => c

/-- after the body of a `for` iteration: increment, test, next iteration or end -/
def footerS (host : Host W) (scfg : SConfig W) (k : Nat) (v : Name) (ix : Option Name) (b : List SStmt) (a n c : Value)
    (l2 : Option Env) (st2 : State W) : SOut W :=
  match ix with
  | some xn =>
      if host.truthy (host.binop .lt
          (readVar (assign l2 st2 xn (host.binop .add (readVar l2 st2.globals xn) (.num 1) st2.world)).1
            (assign l2 st2 xn (host.binop .add (readVar l2 st2.globals xn) (.num 1) st2.world)).2.globals xn) n
          (assign l2 st2 xn (host.binop .add (readVar l2 st2.globals xn) (.num 1) st2.world)).2.world)
          (assign l2 st2 xn (host.binop .add (readVar l2 st2.globals xn) (.num 1) st2.world)).2.world
      then forS scfg k v ix b a n c (assign l2 st2 xn (host.binop .add (readVar l2 st2.globals xn) (.num 1) st2.world)).1
            (assign l2 st2 xn (host.binop .add (readVar l2 st2.globals xn) (.num 1) st2.world)).2
      else .norm (assign l2 st2 xn (host.binop .add (readVar l2 st2.globals xn) (.num 1) st2.world)).1
            (assign l2 st2 xn (host.binop .add (readVar l2 st2.globals xn) (.num 1) st2.world)).2
  | none =>
      if host.truthy (host.binop .lt (host.binop .add c (.num 1) st2.world) n st2.world) st2.world
      then forS scfg k v ix b a n (host.binop .add c (.num 1) st2.world) l2 st2
      else .norm l2 st2

/-- after `arrayGet`: bind the value variable, run the body, then the footer -/
def forIterK (host : Host W) (scfg : SConfig W) (k : Nat) (v : Name) (ix : Option Name) (b : List SStmt) (a n c : Value)
    (l : Option Env) (r : Out W) : SOut W :=
  match r with
  | .ok x st1 => loopK (footerS host scfg k v ix b a n c) (execSB scfg k b (assign l st1 v x).1 (assign l st1 v x).2)
  | .err e s => .err e s
  | .oof => .oof

/-- after `arrayLength`: skip an empty array, else initialise the index and iterate -/
def forLenK (host : Host W) (scfg : SConfig W) (k : Nat) (v : Name) (ix : Option Name) (b : List SStmt) (a : Value)
    (l : Option Env) (r : Out W) : SOut W :=
  match r with
  | .ok n st2 =>
      if host.truthy n st2.world then
        forS scfg k v ix b a n (.num 0) (assignO l st2 ix (.num 0)).1 (assignO l st2 ix (.num 0)).2
      else .norm l st2
  | .err e s => .err e s
  | .oof => .oof

/-- after the array expression -/
def forValsK (cfg : Config W) (scfg : SConfig W) (k : Nat) (v : Name) (ix : Option Name) (b : List SStmt)
    (l : Option Env) (r : Out W) : SOut W :=
  match r with
  | .ok a st1 =>
      forLenK cfg.host scfg k v ix b a l
        (callLooked (callS scfg k) fnArrayLength (lookupFunc cfg l st1.globals fnArrayLength) [a] st1)
  | .err e s => .err e s
  | .oof => .oof

section
variable {cfg : Config W} {scfg : SConfig W} {start : FnId → Nat} (ag : Agree cfg scfg start)
include ag

theorem forS_succ (k : Nat) (v : Name) (ix : Option Name) (b : List SStmt) (a n c : Value) (l : Option Env) (st : State W) :
    forS scfg (k+1) v ix b a n c l st =
      forIterK cfg.host scfg k v ix b a n c l
        (callLooked (callS scfg k) fnArrayGet (lookupFunc cfg l st.globals fnArrayGet) [a, idxS ix c l st.globals] st) := by
  cases ix with
  | none =>
    rw [forS, lookupS_eq ag, ag.host]
    cases lookupFunc cfg l st.globals fnArrayGet with
    | none => rfl
    | some fv =>
      cases fv <;> try rfl
      all_goals
        simp only [callLooked, idxS]
        cases callS scfg k _ [a, c] st with
        | ok x st1 =>
          simp only [forIterK]
          cases execSB scfg k b (assign l st1 v x).1 (assign l st1 v x).2 <;> rfl
        | err e s => rfl
        | oof => rfl
  | some xn =>
    rw [forS, lookupS_eq ag, ag.host]
    cases lookupFunc cfg l st.globals fnArrayGet with
    | none => rfl
    | some fv =>
      cases fv <;> try rfl
      all_goals
        simp only [callLooked, idxS]
        cases callS scfg k _ [a, readVar l st.globals xn] st with
        | ok x st1 =>
          simp only [forIterK]
          cases execSB scfg k b (assign l st1 v x).1 (assign l st1 v x).2 <;> rfl
        | err e s => rfl
        | oof => rfl

theorem execSS_for (k : Nat) (v : Name) (ix : Option Name) (vals : Expr) (b : List SStmt) (l : Option Env) (st : State W) :
    execSS scfg (k+1) (.for v ix vals b) l st =
      forValsK cfg scfg k v ix b l (evalExpr cfg (callS scfg k) l vals st) := by
  rw [execSS, evalS_eq ag]
  cases evalExpr cfg (callS scfg k) l vals st with
  | ok a st1 =>
    simp only [forValsK]
    rw [lookupS_eq ag, ag.host]
    cases lookupFunc cfg l st1.globals fnArrayLength with
    | none => rfl
    | some fv =>
      cases fv <;> try rfl
      all_goals
        simp only [callLooked]
        cases callS scfg k _ [a] st1 with
        | ok n st2 =>
          simp only [forLenK]
          cases ix <;> rfl
        | err e s => rfl
        | oof => rfl
  | err e s => rfl
  | oof => rfl
end

/-! ## `for` on the machine side -/

theorem execTS_for (cfg : Config W) (cv : CallAt W) (ei : InclAt W) (il : Bool) (v : Name) (ix : Option Name) (vals : Expr)
    (b : List SStmt) (i f : Nat) (l : Option Env) (base : Option String) (st : State W) :
    execTS cfg cv ei il (.for v ix vals b) i f l base st =
      andThen (stmtExpr cfg cv (some (vValues i)) vals f l st) fun l1 st1 f1 =>
      andThen (stmtExpr cfg cv (some (vLength i)) (.function fnArrayLength [.variable (vValues i)]) f1 l1 st1) fun l2 st2 f2 =>
      stmtCond cfg cv (notE (.variable (vLength i))) f2 l2 st2 fun taken f3 st3 =>
        if taken then .norm l2 st3 f3
        else
          andThen (stmtExpr cfg cv (some (ix.getD (vIndex i))) (.number 0) f3 l2 st3) fun l4 st4 f4 =>
          andThen (stmtSkip cfg f4 l4 st4) fun l5 st5 f5 =>
            loopF cfg cv i v (ix.getD (vIndex i)) (usesContB b)
              (fun f l s => execTB cfg cv ei true b (i+1) f l base s) (f5 + 1) f5 l5 st5 := by
  rw [execTS]; rfl

/-- the hidden variables of the `for` loop numbered `i` hold the interpreter's values -/
def ForInv (i : Nat) (ix : Option Name) (a n c : Value) (l : Option Env) (g : Env) : Prop :=
  sget l g (vValues i) = some a ∧ sget l g (vLength i) = some n ∧ (ix = none → sget l g (vIndex i) = some c)

theorem ForInv.keep {i j : Nat} {ix : Option Name} {a n c : Value} {l0 l : Option Env} {g0 g : Env}
    (h : ForInv i ix a n c l0 g0) (hl : KeepL j l0 l) (hg : GKeep l0 j g0 g) (hij : i < j) : ForInv i ix a n c l g := by
  obtain ⟨h1, h2, h3⟩ := h
  refine ⟨?_, ?_, fun hx => ?_⟩
  · rw [vValues, sget_keep hl hg _ _ hij]; exact h1
  · rw [vLength, sget_keep hl hg _ _ hij]; exact h2
  · rw [vIndex, sget_keep hl hg _ _ hij]; exact h3 hx

end C01

namespace C01
open StructuredS Machine Lower Structured

variable {W : Type}

/-! ## the iteration bound of `loopW` / `loopF` is never binding (each iteration burns fuel) -/

section
variable (cfg : Config W) (cv : CallAt W)

theorem tick_congr (f : Nat) (st : State W) (k1 k2 : Nat → State W → TOut W)
    (h : ∀ f' st1, f' < f → k1 f' st1 = k2 f' st1) : tick cfg f st k1 = tick cfg f st k2 := by
  cases f with
  | zero => rfl
  | succ f => simp only [tick]; split
              · rfl
              · exact h f _ (Nat.lt_succ_self f)

theorem stmtCond_congr (c : Expr) (f : Nat) (l : Option Env) (st : State W) (K1 K2 : Bool → Nat → State W → TOut W)
    (h : ∀ b f' st', f' < f → K1 b f' st' = K2 b f' st') : stmtCond cfg cv c f l st K1 = stmtCond cfg cv c f l st K2 := by
  unfold stmtCond; apply tick_congr; intro f' st1 hlt
  cases evalExpr cfg (cv f') l c st1 with
  | ok v s => exact h _ _ _ hlt
  | err e s => rfl
  | oof => rfl

theorem stmtExpr_andThen_congr (n : Option Name) (e : Expr) (f : Nat) (l : Option Env) (st : State W)
    (g1 g2 : Option Env → State W → Nat → TOut W) (h : ∀ l' st' f', f' < f → g1 l' st' f' = g2 l' st' f') :
    andThen (stmtExpr cfg cv n e f l st) g1 = andThen (stmtExpr cfg cv n e f l st) g2 := by
  rw [stmtExpr_eq, andThen_tick, andThen_tick]; apply tick_congr; intro f' st1 hlt
  cases evalExpr cfg (cv f') l e st1 with
  | ok v s => exact h _ _ _ hlt
  | err e s => rfl
  | oof => rfl

theorem skip_andThen_congr (f : Nat) (l : Option Env) (st : State W)
    (g1 g2 : Option Env → State W → Nat → TOut W) (h : ∀ l' st' f', f' < f → g1 l' st' f' = g2 l' st' f') :
    andThen (stmtSkip cfg f l st) g1 = andThen (stmtSkip cfg f l st) g2 := by
  unfold stmtSkip; rw [andThen_tick, andThen_tick]; apply tick_congr; intro f' st1 hlt
  exact h _ _ _ hlt

/-- what `loopW` does with the outcome of the body -/
def wAfter (c : Expr) (body : Nat → Option Env → State W → TOut W) (n : Nat) (r : TOut W) : TOut W :=
  match r with
  | .norm l1 st1 f1 =>
      stmtCond cfg cv c f1 l1 st1 fun taken f2 st2 =>
        if taken then loopW cfg cv c body n f2 l1 st2 else stmtSkip cfg f2 l1 st2
  | .brk l1 st1 f1 => .norm l1 st1 f1
  | .cont l1 st1 f1 => loopW cfg cv c body n f1 l1 st1
  | o => o

theorem loopW_succ (c : Expr) (body : Nat → Option Env → State W → TOut W) (n f : Nat) (l : Option Env) (st : State W) :
    loopW cfg cv c body (n+1) f l st = wAfter cfg cv c body n (body f l st) := by
  rw [loopW]; cases body f l st <;> rfl

/-- what `loopF` does with the outcome of the body -/
def fAfter (i : Nat) (v ixv : Name) (hc : Bool) (body : Nat → Option Env → State W → TOut W) (n : Nat) (r : TOut W) : TOut W :=
  match r with
  | .norm l1 st1 f1 =>
      if hc then andThen (stmtSkip cfg f1 l1 st1) (forAfter cfg cv i v ixv hc body n)
      else forAfter cfg cv i v ixv hc body n l1 st1 f1
  | .cont l1 st1 f1 => forAfter cfg cv i v ixv hc body n l1 st1 f1
  | .brk l1 st1 f1 => .norm l1 st1 f1
  | o => o

theorem loopF_succ' (i : Nat) (v ixv : Name) (hc : Bool) (body : Nat → Option Env → State W → TOut W) (n f : Nat)
    (l : Option Env) (st : State W) :
    loopF cfg cv i v ixv hc body (n+1) f l st =
      andThen (stmtExpr cfg cv (some v) (.function fnArrayGet [.variable (vValues i), .variable ixv]) f l st) fun l0 st0 f0 =>
        fAfter cfg cv i v ixv hc body n (body f0 l0 st0) := by
  rw [loopF_succ]; rfl

/-- one more admissible iteration changes nothing once the bound exceeds the fuel -/
theorem loopW_irrel (c : Expr) (body : Nat → Option Env → State W → TOut W) (hb : ∀ f l st, FuelOK f (body f l st)) :
    ∀ n f l st, f < n → loopW cfg cv c body (n+1) f l st = loopW cfg cv c body n f l st := by
  intro n
  induction n with
  | zero => intro f l st h; omega
  | succ n ih =>
    intro f l st hlt
    rw [loopW_succ, loopW_succ]
    have hb1 := hb f l st
    cases hO : body f l st with
    | norm l1 st1 f1 =>
      rw [hO] at hb1; simp only [FuelOK] at hb1
      simp only [wAfter]
      apply stmtCond_congr; intro b f2 st2 h2
      cases b
      · rfl
      · simp only [if_true]; exact ih f2 l1 st2 (by omega)
    | cont l1 st1 f1 =>
      rw [hO] at hb1; simp only [FuelOK] at hb1
      exact ih f1 l1 st1 (by omega)
    | brk l1 st1 f1 => rfl
    | ret v s => rfl
    | err e s => rfl
    | oof => rfl

theorem loopW_bound (c : Expr) (body : Nat → Option Env → State W → TOut W) (hb : ∀ f l st, FuelOK f (body f l st))
    (f : Nat) (l : Option Env) (st : State W) :
    ∀ d, loopW cfg cv c body (f+1+d) f l st = loopW cfg cv c body (f+1) f l st := by
  intro d
  induction d with
  | zero => rfl
  | succ d ih => rw [← ih]; exact loopW_irrel cfg cv c body hb (f+1+d) f l st (by omega)

theorem forAfter_irrel (i : Nat) (v ixv : Name) (hc : Bool) (body : Nat → Option Env → State W → TOut W) (n f : Nat)
    (ih : ∀ f' l st, f' < f → loopF cfg cv i v ixv hc body (n+1) f' l st = loopF cfg cv i v ixv hc body n f' l st)
    (l : Option Env) (st : State W) :
    forAfter cfg cv i v ixv hc body (n+1) l st f = forAfter cfg cv i v ixv hc body n l st f := by
  unfold forAfter
  apply stmtExpr_andThen_congr; intro l3 st3 f3 h3
  apply stmtCond_congr; intro b f4 st4 h4
  cases b
  · rfl
  · simp only [if_true]; exact ih f4 l3 st4 (by omega)

theorem loopF_irrel (i : Nat) (v ixv : Name) (hc : Bool) (body : Nat → Option Env → State W → TOut W)
    (hb : ∀ f l st, FuelOK f (body f l st)) :
    ∀ n f l st, f < n → loopF cfg cv i v ixv hc body (n+1) f l st = loopF cfg cv i v ixv hc body n f l st := by
  intro n
  induction n with
  | zero => intro f l st h; omega
  | succ n ih =>
    intro f l st hlt
    rw [loopF_succ', loopF_succ']
    apply stmtExpr_andThen_congr; intro l0 st0 f0 h0
    have hb1 := hb f0 l0 st0
    have hA : ∀ f1, f1 ≤ f0 → ∀ l1 st1, forAfter cfg cv i v ixv hc body (n+1) l1 st1 f1 =
        forAfter cfg cv i v ixv hc body n l1 st1 f1 := fun f1 h1 l1 st1 =>
      forAfter_irrel cfg cv i v ixv hc body n f1 (fun f' l st h' => ih f' l st (by omega)) l1 st1
    cases hO : body f0 l0 st0 with
    | norm l1 st1 f1 =>
      rw [hO] at hb1; simp only [FuelOK] at hb1
      simp only [fAfter]
      split
      · apply skip_andThen_congr; intro l2 st2 f2 h2; exact hA f2 (by omega) l2 st2
      · exact hA f1 hb1 l1 st1
    | cont l1 st1 f1 =>
      rw [hO] at hb1; simp only [FuelOK] at hb1
      exact hA f1 (by omega) l1 st1
    | brk l1 st1 f1 => rfl
    | ret v s => rfl
    | err e s => rfl
    | oof => rfl

theorem loopF_bound (i : Nat) (v ixv : Name) (hc : Bool) (body : Nat → Option Env → State W → TOut W)
    (hb : ∀ f l st, FuelOK f (body f l st)) (f : Nat) (l : Option Env) (st : State W) :
    ∀ d, loopF cfg cv i v ixv hc body (f+1+d) f l st = loopF cfg cv i v ixv hc body (f+1) f l st := by
  intro d
  induction d with
  | zero => rfl
  | succ d ih => rw [← ih]; exact loopF_irrel cfg cv i v ixv hc body hb (f+1+d) f l st (by omega)
end

end C01

namespace C01
open StructuredS Machine Lower Structured

variable {W : Type}

/-! ## the loops as functions of the fuel alone -/

section
variable (cfg : Config W) (cv : CallAt W)

/-- `loopW` as the `while` statement enters it: bound = fuel + 1 -/
def loopW1 (c : Expr) (body : Nat → Option Env → State W → TOut W) (f : Nat) (l : Option Env) (st : State W) : TOut W :=
  loopW cfg cv c body (f+1) f l st

/-- after the body of a `while` iteration: test, next iteration or `label done` -/
def wTest1 (c : Expr) (body : Nat → Option Env → State W → TOut W) (f1 : Nat) (l1 : Option Env) (st1 : State W) : TOut W :=
  stmtCond cfg cv c f1 l1 st1 fun taken f2 st2 =>
    if taken then loopW1 cfg cv c body f2 l1 st2 else stmtSkip cfg f2 l1 st2

/-- what a `while` iteration does with the outcome of the body -/
def wAfter1 (c : Expr) (body : Nat → Option Env → State W → TOut W) (r : TOut W) : TOut W :=
  match r with
  | .norm l1 st1 f1 => wTest1 cfg cv c body f1 l1 st1
  | .brk l1 st1 f1 => .norm l1 st1 f1
  | .cont l1 st1 f1 => loopW1 cfg cv c body f1 l1 st1
  | o => o

theorem loopW1_eq (c : Expr) (body : Nat → Option Env → State W → TOut W) (hb : ∀ f l st, FuelOK f (body f l st))
    (f : Nat) (l : Option Env) (st : State W) :
    loopW1 cfg cv c body f l st = wAfter1 cfg cv c body (body f l st) := by
  unfold loopW1 wAfter1
  rw [loopW_succ]
  have hb1 := hb f l st
  cases hO : body f l st with
  | norm l1 st1 f1 =>
    rw [hO] at hb1; simp only [FuelOK] at hb1
    simp only [wAfter, wTest1]
    apply stmtCond_congr; intro b f2 st2 h2
    cases b
    · rfl
    · simp only [if_true, loopW1]
      have := loopW_bound cfg cv c body hb f2 l1 st2 (f - f2 - 1)
      rw [show f2 + 1 + (f - f2 - 1) = f by omega] at this
      exact this
  | cont l1 st1 f1 =>
    rw [hO] at hb1; simp only [FuelOK] at hb1
    simp only [wAfter, loopW1]
    have := loopW_bound cfg cv c body hb f1 l1 st1 (f - f1 - 1)
    rw [show f1 + 1 + (f - f1 - 1) = f by omega] at this
    exact this
  | brk l1 st1 f1 => rfl
  | ret v s => rfl
  | err e s => rfl
  | oof => rfl

/-- `loopF` as the `for` statement enters it -/
def loopF1 (i : Nat) (v ixv : Name) (hc : Bool) (body : Nat → Option Env → State W → TOut W) (f : Nat) (l : Option Env)
    (st : State W) : TOut W :=
  loopF cfg cv i v ixv hc body (f+1) f l st

/-- the footer of a `for` iteration as a function of the fuel alone -/
def forAfter1 (i : Nat) (v ixv : Name) (hc : Bool) (body : Nat → Option Env → State W → TOut W)
    (l2 : Option Env) (st2 : State W) (f2 : Nat) : TOut W :=
  andThen (stmtExpr cfg cv (some ixv) (.binary .add (.variable ixv) (.number 1)) f2 l2 st2) fun l3 st3 f3 =>
    stmtCond cfg cv (.binary .lt (.variable ixv) (.variable (vLength i))) f3 l3 st3 fun taken f4 st4 =>
      if taken then loopF1 cfg cv i v ixv hc body f4 l3 st4 else stmtSkip cfg f4 l3 st4

theorem forAfter_eq1 (i : Nat) (v ixv : Name) (hc : Bool) (body : Nat → Option Env → State W → TOut W)
    (hb : ∀ f l st, FuelOK f (body f l st)) (n f2 : Nat) (h : f2 ≤ n) (l2 : Option Env) (st2 : State W) :
    forAfter cfg cv i v ixv hc body n l2 st2 f2 = forAfter1 cfg cv i v ixv hc body l2 st2 f2 := by
  unfold forAfter forAfter1
  apply stmtExpr_andThen_congr; intro l3 st3 f3 h3
  apply stmtCond_congr; intro b f4 st4 h4
  cases b
  · rfl
  · simp only [if_true, loopF1]
    have := loopF_bound cfg cv i v ixv hc body hb f4 l3 st4 (n - f4 - 1)
    rw [show f4 + 1 + (n - f4 - 1) = n by omega] at this
    exact this

/-- what a `for` iteration does with the outcome of the body -/
def fAfter1 (i : Nat) (v ixv : Name) (hc : Bool) (body : Nat → Option Env → State W → TOut W) (r : TOut W) : TOut W :=
  match r with
  | .norm l1 st1 f1 =>
      if hc then andThen (stmtSkip cfg f1 l1 st1) (forAfter1 cfg cv i v ixv hc body)
      else forAfter1 cfg cv i v ixv hc body l1 st1 f1
  | .cont l1 st1 f1 => forAfter1 cfg cv i v ixv hc body l1 st1 f1
  | .brk l1 st1 f1 => .norm l1 st1 f1
  | o => o

theorem loopF1_eq (i : Nat) (v ixv : Name) (hc : Bool) (body : Nat → Option Env → State W → TOut W)
    (hb : ∀ f l st, FuelOK f (body f l st)) (f : Nat) (l : Option Env) (st : State W) :
    loopF1 cfg cv i v ixv hc body f l st =
      andThen (stmtExpr cfg cv (some v) (.function fnArrayGet [.variable (vValues i), .variable ixv]) f l st) fun l0 st0 f0 =>
        fAfter1 cfg cv i v ixv hc body (body f0 l0 st0) := by
  unfold loopF1
  rw [loopF_succ']
  apply stmtExpr_andThen_congr; intro l0 st0 f0 h0
  have hb1 := hb f0 l0 st0
  cases hO : body f0 l0 st0 with
  | norm l1 st1 f1 =>
    rw [hO] at hb1; simp only [FuelOK] at hb1
    simp only [fAfter, fAfter1]
    split
    · apply skip_andThen_congr; intro l2 st2 f2 h2
      exact forAfter_eq1 cfg cv i v ixv hc body hb f f2 (by omega) l2 st2
    · exact forAfter_eq1 cfg cv i v ixv hc body hb f f1 (by omega) l1 st1
  | cont l1 st1 f1 =>
    rw [hO] at hb1; simp only [FuelOK] at hb1
    exact forAfter_eq1 cfg cv i v ixv hc body hb f f1 (by omega) l1 st1
  | brk l1 st1 f1 => rfl
  | ret v s => rfl
  | err e s => rfl
  | oof => rfl
end

/-! ## converse direction: the toolkit -/

theorem StRel.symm {s s' : State W} (h : StRel s s') : StRel s' s := ⟨h.1.symm, h.2.symm⟩

theorem LRel.symm : ∀ {l l' : Option Env}, LRel l l' → LRel l' l
  | none, none, _ => trivial
  | some _, some _, h => Eq.symm h
  | none, some _, h => h.elim
  | some _, none, h => h.elim

/-- a pure outcome read as a ticked outcome with `f` units of fuel left -/
def _root_.StructuredS.SOut.withFuel : SOut W → Nat → TOut W
  | .norm l s, f => .norm l s f
  | .brk l s, f => .brk l s f
  | .cont l s, f => .cont l s f
  | .ret v s, _ => .ret v s
  | .err e s, _ => .err e s
  | .oof, _ => .oof

/-- from some fuel on, the ticked computation `T` yields the outcome `o` and has consumed exactly `c` units -/
def TConv (T : Nat → TOut W) (c : Nat) (o : SOut W) : Prop :=
  ∃ N, c ≤ N ∧ ∀ f, N ≤ f → T f = o.withFuel (f - c)

/-- machine-side outcome (fuel dropped) against pure-side outcome -/
def ORel (lk : LK) (i : Nat) (l0 : Option Env) (g0 : Env) : SOut W → SOut W → Prop
  | .norm l s, .norm l' s' => Post i l0 g0 l s l' s'
  | .brk l s, .brk l' s' => lk ≠ .none ∧ Post i l0 g0 l s l' s'
  | .cont l s, .cont l' s' => lk = .forL ∧ Post i l0 g0 l s l' s'
  | .ret v s, .ret v' s' => v = v' ∧ StRel s s' ∧ GKeep l0 i g0 s.globals
  | .err e s, .err e' s' => e = e' ∧ StRel s s'
  | _, _ => False

/-- converse simulation: if the pure side terminates with `o'`, the ticked side converges to a related outcome -/
def CSim (lk : LK) (i : Nat) (l0 : Option Env) (g0 : Env) (T : Nat → TOut W) (o' : SOut W) : Prop :=
  o' = .oof ∨ ∃ o c, ORel lk i l0 g0 o o' ∧ TConv T c o

theorem ORel.weaken {lk : LK} {i j : Nat} {l0 l1 : Option Env} {g0 g1 : Env} {o o' : SOut W}
    (hl : KeepL i l0 l1) (hg : GKeep l0 i g0 g1) (hij : i ≤ j) (h : ORel lk j l1 g1 o o') : ORel lk i l0 g0 o o' := by
  cases o <;> cases o' <;> simp only [ORel] at h ⊢
  · exact h.weaken hl hg hij
  · exact ⟨h.1, h.2.weaken hl hg hij⟩
  · exact ⟨h.1, h.2.weaken hl hg hij⟩
  · exact ⟨h.1, h.2.1, hg.trans h.2.2 hl.isSome hij⟩
  · exact h

theorem CSim.weaken {lk : LK} {i j : Nat} {l0 l1 : Option Env} {g0 g1 : Env} {T : Nat → TOut W} {o' : SOut W}
    (hl : KeepL i l0 l1) (hg : GKeep l0 i g0 g1) (hij : i ≤ j) (h : CSim lk j l1 g1 T o') : CSim lk i l0 g0 T o' := by
  rcases h with h | ⟨o, c, hr, ht⟩
  · exact Or.inl h
  · exact Or.inr ⟨o, c, hr.weaken hl hg hij, ht⟩

theorem TConv.congr {T T' : Nat → TOut W} {c : Nat} {o : SOut W} (h : TConv T c o) (he : ∀ f, T' f = T f) : TConv T' c o := by
  obtain ⟨N, hc, h⟩ := h
  exact ⟨N, hc, fun f hf => by rw [he, h f hf]⟩

theorem CSim.congr {lk : LK} {i : Nat} {l0 : Option Env} {g0 : Env} {T T' : Nat → TOut W} {o' : SOut W}
    (h : CSim lk i l0 g0 T o') (he : ∀ f, T' f = T f) : CSim lk i l0 g0 T' o' := by
  rcases h with h | ⟨o, c, hr, ht⟩
  · exact Or.inl h
  · exact Or.inr ⟨o, c, hr, ht.congr he⟩

/-- the state after a tick -/
def tk (st : State W) : State W := { st with count := st.count + 1 }

theorem tick_unlimited (cfg : Config W) (hmax : cfg.maxStatements = 0) (f : Nat) (st : State W)
    (K : Nat → State W → TOut W) : tick cfg (f+1) st K = K f (tk st) := by
  simp [tick, hmax, tk]

theorem tconv_tick (cfg : Config W) (hmax : cfg.maxStatements = 0) {st : State W} {K : Nat → State W → TOut W} {c : Nat}
    {o : SOut W} (h : TConv (fun f => K f (tk st)) c o) : TConv (fun f => tick cfg f st K) (c+1) o := by
  obtain ⟨N, hc, h⟩ := h
  refine ⟨N+1, by omega, fun f hf => ?_⟩
  obtain ⟨f', rfl⟩ : ∃ f', f = f'+1 := ⟨f-1, by omega⟩
  have h' := h f' (by omega)
  simp only at h' ⊢
  rw [tick_unlimited cfg hmax, h', Nat.add_sub_add_right]

theorem csim_tick (cfg : Config W) (hmax : cfg.maxStatements = 0) {lk : LK} {i : Nat} {l0 : Option Env} {g0 : Env}
    {st : State W} {K : Nat → State W → TOut W} {o' : SOut W}
    (h : CSim lk i l0 g0 (fun f => K f (tk st)) o') : CSim lk i l0 g0 (fun f => tick cfg f st K) o' := by
  rcases h with h | ⟨o, c, hr, ht⟩
  · exact Or.inl h
  · exact Or.inr ⟨o, c+1, hr, tconv_tick cfg hmax ht⟩

end C01

namespace C01
open StructuredS Machine Lower Structured

variable {W : Type}

theorem tconv_andThen {T1 : Nat → TOut W} {c1 c2 : Nat} {l : Option Env} {s : State W} {o : SOut W}
    {g : Option Env → State W → Nat → TOut W}
    (h1 : TConv T1 c1 (.norm l s)) (h2 : TConv (fun f => g l s f) c2 o) : TConv (fun f => andThen (T1 f) g) (c1+c2) o := by
  obtain ⟨N1, hc1, h1⟩ := h1; obtain ⟨N2, hc2, h2⟩ := h2
  refine ⟨max N1 (N2 + c1), by omega, fun f hf => ?_⟩
  have a := h1 f (by omega); have b := h2 (f - c1) (by omega)
  simp only [SOut.withFuel] at a b ⊢
  rw [a]; simp only [andThen]; rw [b, Nat.sub_sub]

theorem tconv_andThen_stop {T1 : Nat → TOut W} {c1 : Nat} {o : SOut W} {g : Option Env → State W → Nat → TOut W}
    (h1 : TConv T1 c1 o) (hn : ∀ l s, o ≠ .norm l s) : TConv (fun f => andThen (T1 f) g) c1 o := by
  obtain ⟨N1, hc1, h1⟩ := h1
  refine ⟨N1, hc1, fun f hf => ?_⟩
  have a := h1 f hf
  simp only at a ⊢
  rw [a]
  cases o <;> first | rfl | exact absurd rfl (hn _ _)

/-- continue a converged computation: `Ψ` post-processes the ticked outcome -/
theorem tconv_then {T1 : Nat → TOut W} {c1 c2 : Nat} {o1 o : SOut W} {Ψ : TOut W → TOut W}
    (h1 : TConv T1 c1 o1) (h2 : TConv (fun f => Ψ (o1.withFuel f)) c2 o) : TConv (fun f => Ψ (T1 f)) (c1+c2) o := by
  obtain ⟨N1, hc1, h1⟩ := h1; obtain ⟨N2, hc2, h2⟩ := h2
  refine ⟨max N1 (N2 + c1), by omega, fun f hf => ?_⟩
  have a := h1 f (by omega); have b := h2 (f - c1) (by omega)
  simp only at a b ⊢
  rw [a, b, Nat.sub_sub]

theorem csim_then {lk lk' : LK} {i j : Nat} {l0 l1 : Option Env} {g0 g1 : Env} {T1 : Nat → TOut W} {o1' : SOut W}
    {Ψ : TOut W → TOut W} {Γ : SOut W → SOut W} (h1 : CSim lk' j l1 g1 T1 o1') (hoof : Γ .oof = .oof)
    (h2 : ∀ o o', ORel lk' j l1 g1 o o' → CSim lk i l0 g0 (fun f => Ψ (o.withFuel f)) (Γ o')) :
    CSim lk i l0 g0 (fun f => Ψ (T1 f)) (Γ o1') := by
  rcases h1 with h | ⟨o, c, hr, ht⟩
  · subst h; exact Or.inl hoof
  · rcases h2 o o1' hr with h | ⟨o2, c2, hr2, ht2⟩
    · exact Or.inl h
    · exact Or.inr ⟨o2, c + c2, hr2, tconv_then ht ht2⟩

theorem csim_norm {lk : LK} {i : Nat} {l0 : Option Env} {g0 : Env} {l l' : Option Env} {s s' : State W}
    (hp : Post i l0 g0 l s l' s') : CSim lk i l0 g0 (fun f => .norm l s f) (.norm l' s') :=
  Or.inr ⟨.norm l s, 0, hp, 0, Nat.le_refl 0, fun _ _ => rfl⟩

theorem csim_ret {lk : LK} {i : Nat} {l0 : Option Env} {g0 : Env} {v : Value} {s s' : State W}
    (hs : StRel s s') (hk : GKeep l0 i g0 s.globals) : CSim lk i l0 g0 (fun _ => .ret v s) (.ret v s') :=
  Or.inr ⟨.ret v s, 0, ⟨rfl, hs, hk⟩, 0, Nat.le_refl 0, fun _ _ => rfl⟩

theorem csim_err {lk : LK} {i : Nat} {l0 : Option Env} {g0 : Env} {e : RtErr} {s s' : State W}
    (hs : StRel s s') : CSim lk i l0 g0 (fun _ => .err e s) (.err e s') :=
  Or.inr ⟨.err e s, 0, ⟨rfl, hs⟩, 0, Nat.le_refl 0, fun _ _ => rfl⟩

section
variable (cfg : Config W) (hmax : cfg.maxStatements = 0) (cv : CallAt W) {lk : LK} {i : Nat} {l0 : Option Env} {g0 : Env}
include hmax

theorem csim_andThen {T1 : Nat → TOut W} {o1' : SOut W} {g : Option Env → State W → Nat → TOut W}
    {G : Option Env → State W → SOut W} (h1 : CSim lk i l0 g0 T1 o1')
    (h2 : ∀ l s l' s', Post i l0 g0 l s l' s' → CSim lk i l0 g0 (fun f => g l s f) (G l' s')) :
    CSim lk i l0 g0 (fun f => andThen (T1 f) g) (seqK G o1') := by
  rcases h1 with h | ⟨o, c, hr, ht⟩
  · subst h; exact Or.inl rfl
  · cases o <;> cases o1' <;> simp only [ORel] at hr
    · rename_i l s l' s'
      rcases h2 l s l' s' hr with h | ⟨o2, c2, hr2, ht2⟩
      · exact Or.inl h
      · exact Or.inr ⟨o2, c + c2, hr2, tconv_andThen ht ht2⟩
    · exact Or.inr ⟨.brk _ _, c, by simp only [seqK, ORel]; exact hr, tconv_andThen_stop ht (by intro _ _ h; cases h)⟩
    · exact Or.inr ⟨.cont _ _, c, by simp only [seqK, ORel]; exact hr, tconv_andThen_stop ht (by intro _ _ h; cases h)⟩
    · exact Or.inr ⟨.ret _ _, c, by simp only [seqK, ORel]; exact hr, tconv_andThen_stop ht (by intro _ _ h; cases h)⟩
    · exact Or.inr ⟨.err _ _, c, by simp only [seqK, ORel]; exact hr, tconv_andThen_stop ht (by intro _ _ h; cases h)⟩

theorem stmtExpr_andThen_step (n : Option Name) (e : Expr) (f : Nat) (l : Option Env) (st : State W)
    (g : Option Env → State W → Nat → TOut W) :
    andThen (stmtExpr cfg cv n e (f+1) l st) g =
      match evalExpr cfg (cv f) l e (tk st) with
      | .ok v s2 => g (assignO l s2 n v).1 (assignO l s2 n v).2 f
      | .err er s => .err er s
      | .oof => .oof := by
  rw [stmtExpr_eq, andThen_tick, tick_unlimited cfg hmax]
  cases evalExpr cfg (cv f) l e (tk st) <;> rfl

theorem stmtCond_step (c : Expr) (f : Nat) (l : Option Env) (st : State W) (K : Bool → Nat → State W → TOut W) :
    stmtCond cfg cv c (f+1) l st K =
      match evalExpr cfg (cv f) l c (tk st) with
      | .ok v s2 => K (cfg.host.truthy v s2.world) f s2
      | .err er s => .err er s
      | .oof => .oof := by
  unfold stmtCond
  rw [tick_unlimited cfg hmax]
  cases evalExpr cfg (cv f) l c (tk st) <;> rfl

/-- `name = e` followed by `g`, converse: `X` is what the pure side evaluated -/
theorem csim_stmtExpr {n : Option Name} {e : Expr} {l : Option Env} {st : State W} {gx : Env}
    {g : Option Env → State W → Nat → TOut W} {Φ : Out W → SOut W} {X : Out W}
    (hX : OSimG false 0 gx X (fun m => evalExpr cfg (cv m) l e (tk st)))
    (hkeep : ∀ m v s2, evalExpr cfg (cv m) l e (tk st) = .ok v s2 → KeepAll st.globals s2.globals)
    (hΦe : ∀ er s, Φ (.err er s) = .err er s) (hΦo : Φ .oof = .oof)
    (hg : ∀ v s2 s2', StRel s2 s2' → KeepAll st.globals s2.globals →
      CSim lk i l0 g0 (fun f => g (assignO l s2 n v).1 (assignO l s2 n v).2 f) (Φ (.ok v s2'))) :
    CSim lk i l0 g0 (fun f => andThen (stmtExpr cfg cv n e f l st) g) (Φ X) := by
  cases X with
  | oof => rw [hΦo]; exact Or.inl rfl
  | err er sS =>
    rcases hX with ⟨m, _, h0⟩ | ⟨sT, hs, N, hN⟩
    · omega
    · rw [hΦe]
      refine Or.inr ⟨.err er sT, 0, ⟨rfl, hs.symm⟩, N+1, by omega, fun f hf => ?_⟩
      obtain ⟨f', rfl⟩ : ∃ f', f = f'+1 := ⟨f-1, by omega⟩
      have := hN f' (by omega)
      simp only at this
      simp only [stmtExpr_andThen_step cfg hmax, this]; rfl
  | ok v sS =>
    obtain ⟨sT, hs, _, N, hN⟩ := hX
    have hk := hkeep N v sT (hN N (Nat.le_refl N))
    rcases hg v sT sS hs.symm hk with h | ⟨o, c, hr, N2, hc, h2⟩
    · exact Or.inl h
    · refine Or.inr ⟨o, c+1, hr, max N N2 + 1, by omega, fun f hf => ?_⟩
      obtain ⟨f', rfl⟩ : ∃ f', f = f'+1 := ⟨f-1, by omega⟩
      have a := hN f' (by omega); have b := h2 f' (by omega)
      simp only at a b
      simp only [stmtExpr_andThen_step cfg hmax, a]
      rw [b, Nat.add_sub_add_right]

/-- a conditional jump, converse -/
theorem csim_stmtCond {c : Expr} {l : Option Env} {st : State W} {gx : Env}
    {K : Bool → Nat → State W → TOut W} {Φ : Out W → SOut W} {X : Out W}
    (hX : OSimG false 0 gx X (fun m => evalExpr cfg (cv m) l c (tk st)))
    (hkeep : ∀ m v s2, evalExpr cfg (cv m) l c (tk st) = .ok v s2 → KeepAll st.globals s2.globals)
    (hΦe : ∀ er s, Φ (.err er s) = .err er s) (hΦo : Φ .oof = .oof)
    (hK : ∀ v s2 s2', StRel s2 s2' → KeepAll st.globals s2.globals →
      CSim lk i l0 g0 (fun f => K (cfg.host.truthy v s2.world) f s2) (Φ (.ok v s2'))) :
    CSim lk i l0 g0 (fun f => stmtCond cfg cv c f l st K) (Φ X) := by
  cases X with
  | oof => rw [hΦo]; exact Or.inl rfl
  | err er sS =>
    rcases hX with ⟨m, _, h0⟩ | ⟨sT, hs, N, hN⟩
    · omega
    · rw [hΦe]
      refine Or.inr ⟨.err er sT, 0, ⟨rfl, hs.symm⟩, N+1, by omega, fun f hf => ?_⟩
      obtain ⟨f', rfl⟩ : ∃ f', f = f'+1 := ⟨f-1, by omega⟩
      have := hN f' (by omega)
      simp only at this
      simp only [stmtCond_step cfg hmax, this]; rfl
  | ok v sS =>
    obtain ⟨sT, hs, _, N, hN⟩ := hX
    have hk := hkeep N v sT (hN N (Nat.le_refl N))
    rcases hK v sT sS hs.symm hk with h | ⟨o, c, hr, N2, hc, h2⟩
    · exact Or.inl h
    · refine Or.inr ⟨o, c+1, hr, max N N2 + 1, by omega, fun f hf => ?_⟩
      obtain ⟨f', rfl⟩ : ∃ f', f = f'+1 := ⟨f-1, by omega⟩
      have a := hN f' (by omega); have b := h2 f' (by omega)
      simp only at a b
      simp only [stmtCond_step cfg hmax, a]
      rw [b, Nat.add_sub_add_right]

theorem csim_skip {l : Option Env} {st : State W} {g : Option Env → State W → Nat → TOut W} {o' : SOut W}
    (h : CSim lk i l0 g0 (fun f => g l (tk st) f) o') :
    CSim lk i l0 g0 (fun f => andThen (stmtSkip cfg f l st) g) o' := by
  unfold stmtSkip
  simp only [andThen_tick]
  exact csim_tick cfg hmax (K := fun f st1 => andThen (.norm l st1 f) g) h

/-- machine-only statement whose value is known -/
theorem csim_stmtExpr_pure {n : Option Name} {e : Expr} {l : Option Env} {st : State W}
    {g : Option Env → State W → Nat → TOut W} {o' : SOut W} (val : Value)
    (hE : ∀ m, evalExpr cfg (cv m) l e (tk st) = .ok val (tk st))
    (hg : CSim lk i l0 g0 (fun f => g (assignO l (tk st) n val).1 (assignO l (tk st) n val).2 f) o') :
    CSim lk i l0 g0 (fun f => andThen (stmtExpr cfg cv n e f l st) g) o' := by
  rcases hg with h | ⟨o, c, hr, N2, hc, h2⟩
  · exact Or.inl h
  · refine Or.inr ⟨o, c+1, hr, N2 + 1, by omega, fun f hf => ?_⟩
    obtain ⟨f', rfl⟩ : ∃ f', f = f'+1 := ⟨f-1, by omega⟩
    have b := h2 f' (by omega)
    simp only at b
    simp only [stmtExpr_andThen_step cfg hmax, hE]
    rw [b, Nat.add_sub_add_right]

theorem csim_stmtCond_pure {c : Expr} {l : Option Env} {st : State W}
    {K : Bool → Nat → State W → TOut W} {o' : SOut W} (val : Value)
    (hE : ∀ m, evalExpr cfg (cv m) l c (tk st) = .ok val (tk st))
    (hK : CSim lk i l0 g0 (fun f => K (cfg.host.truthy val (tk st).world) f (tk st)) o') :
    CSim lk i l0 g0 (fun f => stmtCond cfg cv c f l st K) o' := by
  rcases hK with h | ⟨o, c', hr, N2, hc, h2⟩
  · exact Or.inl h
  · refine Or.inr ⟨o, c'+1, hr, N2 + 1, by omega, fun f hf => ?_⟩
    obtain ⟨f', rfl⟩ : ∃ f', f = f'+1 := ⟨f-1, by omega⟩
    have b := h2 f' (by omega)
    simp only at b
    simp only [stmtCond_step cfg hmax, hE]
    rw [b, Nat.add_sub_add_right]
end

end C01
