import BareModel.EvalSpec

/-!
# C03 — lemmas: the state-threading evaluator computes the compositional specification

`eval_spec` / `args_spec` / `if_spec`: in the TRACE instance, `Machine.evalExpr` (resp. `evalArgs`, `evalIf`) started in
state `st` returns the specification value and the state `st` with `traceOf` appended to its world.
Structural recursion over the nested inductive `Expr` / `List Expr`.
-/

namespace C03
open Machine EvalSpec

section
variable (cfg : Config Trace) (hb : Blind cfg.host) (result : Value → List Value → Value) (locals : Option Env)

@[simp] theorem embed_ok (v : Value) (t : Trace) (st : State Trace) :
    embed (.ok v) t st = .ok v { st with world := st.world ++ t } := rfl

@[simp] theorem embed_undef (n : Name) (t : Trace) (st : State Trace) :
    embed (.undef n) t st = .err (.undefinedFunction n) { st with world := st.world ++ t } := rfl

@[simp] theorem embedArgs_ok (vs : List Value) (t : Trace) (st : State Trace) :
    embedArgs (.ok vs) t st = .ok vs { st with world := st.world ++ t } := rfl

@[simp] theorem embedArgs_undef (n : Name) (t : Trace) (st : State Trace) :
    embedArgs (.undef n) t st = .err (.undefinedFunction n) { st with world := st.world ++ t } := rfl

@[simp] theorem ctx_truthy (g : Env) (v : Value) : (ctxOf cfg result locals g).truthy v = cfg.host.truthy v [] := rfl
@[simp] theorem ctx_binop (g : Env) (op : BinOp) (a b : Value) :
    (ctxOf cfg result locals g).binop op a b = cfg.host.binop op a b [] := rfl
@[simp] theorem ctx_neg (g : Env) : (ctxOf cfg result locals g).neg = cfg.host.neg := rfl
@[simp] theorem ctx_result (g : Env) : (ctxOf cfg result locals g).result = result := rfl
@[simp] theorem ctx_var (g : Env) : (ctxOf cfg result locals g).var = lookupVar locals g := rfl
@[simp] theorem ctx_func (g : Env) : (ctxOf cfg result locals g).func = lookupFunc cfg locals g := rfl

/-- state after appending to the trace: globals and counter unchanged -/
theorem app_nil (st : State Trace) : ({ st with world := st.world ++ [] } : State Trace) = st := by
  cases st; simp

theorem app_app (st : State Trace) (a b : Trace) :
    ({ ({ st with world := st.world ++ a } : State Trace) with world := (st.world ++ a) ++ b } : State Trace)
      = { st with world := st.world ++ (a ++ b) } := by
  simp [List.append_assoc]

end

end C03
