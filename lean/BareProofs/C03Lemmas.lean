import BareModel.EvalSpec

/-!
# C03 — lemmas: the state-threading evaluator computes the compositional specification

`eval_spec` / `args_spec` / `if_spec`: in the TRACE instance, `Machine.evalExpr` (resp. `evalArgs`, `evalIf`) started in
state `st` returns the specification value and the state `st` with `traceOf` appended to its world.
Structural recursion over the nested inductive `Expr` / `List Expr`.
-/

namespace C03
open Machine EvalSpec

section
variable (cfg : Config Trace) (hb : Blind cfg.host) (result : Value → List Value → Value) (locals : Option Env)

@[simp] theorem embed_ok (v : Value) (t : Trace) (st : State Trace) :
    embed (.ok v) t st = .ok v { st with world := st.world ++ t } := rfl

@[simp] theorem embed_undef (n : Name) (t : Trace) (st : State Trace) :
    embed (.undef n) t st = .err (.undefinedFunction n) { st with world := st.world ++ t } := rfl

@[simp] theorem embedArgs_ok (vs : List Value) (t : Trace) (st : State Trace) :
    embedArgs (.ok vs) t st = .ok vs { st with world := st.world ++ t } := rfl

@[simp] theorem embedArgs_undef (n : Name) (t : Trace) (st : State Trace) :
    embedArgs (.undef n) t st = .err (.undefinedFunction n) { st with world := st.world ++ t } := rfl

@[simp] theorem ctx_truthy (g : Env) (v : Value) : (ctxOf cfg result locals g).truthy v = cfg.host.truthy v [] := rfl
@[simp] theorem ctx_binop (g : Env) (op : BinOp) (a b : Value) :
    (ctxOf cfg result locals g).binop op a b = cfg.host.binop op a b [] := rfl
@[simp] theorem ctx_neg (g : Env) : (ctxOf cfg result locals g).neg = cfg.host.neg := rfl
@[simp] theorem ctx_result (g : Env) : (ctxOf cfg result locals g).result = result := rfl
@[simp] theorem ctx_var (g : Env) : (ctxOf cfg result locals g).var = lookupVar locals g := rfl
@[simp] theorem ctx_func (g : Env) : (ctxOf cfg result locals g).func = lookupFunc cfg locals g := rfl

/-- state after appending to the trace: globals and counter unchanged -/
theorem app_nil (st : State Trace) : ({ st with world := st.world ++ [] } : State Trace) = st := by
  cases st; simp

theorem app_app (st : State Trace) (a b : Trace) :
    ({ ({ st with world := st.world ++ a } : State Trace) with world := (st.world ++ a) ++ b } : State Trace)
      = { st with world := st.world ++ (a ++ b) } := by
  simp [List.append_assoc]

end


/-- the strict-operator shape of `evalExpr` (the third equation of the `binary` case) -/
theorem evalExpr_strict {W : Type} (cfg : Config W) (call : CallFn W) (locals : Option Env) (op : BinOp) (l r : Expr) (st : State W)
    (h1 : op ≠ .and) (h2 : op ≠ .or) :
    evalExpr cfg call locals (.binary op l r) st =
      match evalExpr cfg call locals l st with
      | .ok lv st1 =>
          match evalExpr cfg call locals r st1 with
          | .ok rv st2 => .ok (cfg.host.binop op lv rv st2.world) st2
          | o => o
      | o => o := by
  cases op <;> first | (exact absurd rfl h1) | (exact absurd rfl h2) | (rw [evalExpr] <;> first | rfl | (intro h; cases h))



mutual
theorem eval_spec (cfg : Config Trace) (hb : Blind cfg.host) (result : Value → List Value → Value) (locals : Option Env) : ∀ (e : Expr) (st : State Trace),
    evalExpr cfg (traceCall result) locals e st =
      embed (valueOf (ctxOf cfg result locals st.globals) e) (traceOf (ctxOf cfg result locals st.globals) e) st
  | .number q, st => by simp [evalExpr, valueOf, traceOf]
  | .string s, st => by simp [evalExpr, valueOf, traceOf]
  | .variable n, st => by
      simp [evalExpr, valueOf, traceOf, apply_ite (fun r => embed r [] st)]
  | .function n args, st => by
      rw [evalExpr, valueOf, traceOf]
      by_cases hn : n = kwIf
      · simp only [hn, if_true]; exact if_spec cfg hb result locals args st
      · simp only [hn, if_false]
        rw [args_spec cfg hb result locals args st]
        cases hv : valuesOf (ctxOf cfg result locals st.globals) args with
        | undef m => simp [callTrace]
        | ok vs =>
          simp only [embedArgs_ok, callTrace, callee, ctx_func, ctx_result]
          cases hf : lookupFunc cfg locals st.globals n with
          | none => simp
          | some fv => cases fv <;> simp [traceCall, List.append_assoc]
  | .binary op l r, st => by
      by_cases h1 : op = .and
      · subst h1
        rw [evalExpr, eval_spec cfg hb result locals l st, valueOf, traceOf]
        cases hl : valueOf (ctxOf cfg result locals st.globals) l with
        | undef m => simp [rightSelected]
        | ok lv =>
          simp only [embed_ok, rightSelected, ctx_truthy]
          rw [hb.truthy lv _ []]
          by_cases ht : cfg.host.truthy lv [] = true
          · simp only [ht, if_true]; rw [eval_spec cfg hb result locals r]
            cases valueOf (ctxOf cfg result locals st.globals) r <;> simp [List.append_assoc]
          · simp [ht]
      · by_cases h2 : op = .or
        · subst h2
          rw [evalExpr, eval_spec cfg hb result locals l st, valueOf, traceOf]
          cases hl : valueOf (ctxOf cfg result locals st.globals) l with
          | undef m => simp [rightSelected]
          | ok lv =>
            simp only [embed_ok, rightSelected, ctx_truthy]
            rw [hb.truthy lv _ []]
            by_cases ht : cfg.host.truthy lv [] = true
            · simp [ht]
            · simp only [ht]; rw [eval_spec cfg hb result locals r]
              cases valueOf (ctxOf cfg result locals st.globals) r <;> simp [List.append_assoc]
        · rw [evalExpr_strict _ _ _ _ _ _ _ h1 h2, eval_spec cfg hb result locals l st, valueOf, traceOf]
          cases hl : valueOf (ctxOf cfg result locals st.globals) l with
          | undef m => simp [rightSelected]
          | ok lv =>
            simp only [embed_ok]
            rw [eval_spec cfg hb result locals r]
            have hsel : rightSelected (ctxOf cfg result locals st.globals) op (.ok lv) = true := by
              cases op <;> first | rfl | exact absurd rfl h1 | exact absurd rfl h2
            rw [hsel]
            cases hr : valueOf (ctxOf cfg result locals st.globals) r with
            | undef m => cases op <;> simp [List.append_assoc] <;> first | exact absurd rfl h1 | exact absurd rfl h2
            | ok rv =>
              simp only [embed_ok]
              rw [hb.binop op lv rv _ []]
              cases op <;> first | exact absurd rfl h1 | exact absurd rfl h2 | simp [List.append_assoc]
  | .unary .not e, st => by
      rw [evalExpr, eval_spec cfg hb result locals e st, valueOf, traceOf]
      cases valueOf (ctxOf cfg result locals st.globals) e with
      | undef m => simp
      | ok v => simp only [embed_ok, ctx_truthy]; rw [hb.truthy v _ []]
  | .unary .neg e, st => by
      rw [evalExpr, eval_spec cfg hb result locals e st, valueOf, traceOf]
      cases valueOf (ctxOf cfg result locals st.globals) e <;> simp
  | .group e, st => by rw [evalExpr, eval_spec cfg hb result locals e st, valueOf, traceOf]

theorem args_spec (cfg : Config Trace) (hb : Blind cfg.host) (result : Value → List Value → Value) (locals : Option Env) : ∀ (as : List Expr) (st : State Trace),
    evalArgs cfg (traceCall result) locals as st =
      embedArgs (valuesOf (ctxOf cfg result locals st.globals) as) (tracesOf (ctxOf cfg result locals st.globals) as) st
  | [], st => by simp [evalArgs, valuesOf, tracesOf]
  | a :: as, st => by
      rw [evalArgs, eval_spec cfg hb result locals a st, valuesOf, tracesOf]
      cases valueOf (ctxOf cfg result locals st.globals) a with
      | undef m => simp
      | ok v =>
        simp only [embed_ok]; rw [args_spec cfg hb result locals as]
        cases valuesOf (ctxOf cfg result locals st.globals) as <;> simp [List.append_assoc]

theorem if_spec (cfg : Config Trace) (hb : Blind cfg.host) (result : Value → List Value → Value) (locals : Option Env) : ∀ (as : List Expr) (st : State Trace),
    evalIf cfg (traceCall result) locals as st =
      embed (ifValue (ctxOf cfg result locals st.globals) as) (ifTrace (ctxOf cfg result locals st.globals) as) st
  | [], st => by simp [evalIf, ifValue, ifTrace]
  | [c], st => by
      rw [evalIf, eval_spec cfg hb result locals c st, ifValue, ifTrace]
      cases valueOf (ctxOf cfg result locals st.globals) c <;> simp
  | [c, t], st => by
      rw [evalIf, eval_spec cfg hb result locals c st, ifValue, ifTrace]
      cases valueOf (ctxOf cfg result locals st.globals) c with
      | undef m => simp
      | ok v =>
        simp only [embed_ok, ctx_truthy]; rw [hb.truthy v _ []]
        by_cases ht : cfg.host.truthy v [] = true
        · simp only [ht, if_true]; rw [eval_spec cfg hb result locals t]
          cases valueOf (ctxOf cfg result locals st.globals) t <;> simp [List.append_assoc]
        · simp [ht]
  | c :: t :: f :: rest, st => by
      rw [evalIf, eval_spec cfg hb result locals c st, ifValue, ifTrace]
      cases valueOf (ctxOf cfg result locals st.globals) c with
      | undef m => simp
      | ok v =>
        simp only [embed_ok, ctx_truthy]; rw [hb.truthy v _ []]
        by_cases ht : cfg.host.truthy v [] = true
        · simp only [ht, if_true]; rw [eval_spec cfg hb result locals t]
          cases valueOf (ctxOf cfg result locals st.globals) t <;> simp [List.append_assoc]
        · simp only [ht]; rw [eval_spec cfg hb result locals f]
          cases valueOf (ctxOf cfg result locals st.globals) f <;> simp [List.append_assoc]
end

end C03
