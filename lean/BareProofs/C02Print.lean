import BareProofs.C02
import BareProofs.C02PrintLemmas

/-!
# C02 — text-level print / parse round trip of the expression parser model

The printer is `Print.printExpr` (`BareModel/Print.lean`); the class of trees is `C02.Printable` (same file, a Boolean
computation, every condition justified there by what `parse_expression` does).  All statements are about the Lean model
`ExprParse.parseExpr` of `parse_expression`; the printer is tied to the *real* parser by the correspondence stream
`print-parse` of `harness/props/C02.py` (random trees → `printExpr` in the driver → real `parse_expression` → same tree).

* `parse_print`      `Printable e → parseExpr (printExpr e) = .ok e`, for all printable trees of any depth / size / arity;
* `parse_print_ws`   the same for every *spaced* rendering: arbitrary blanks (`isPySpace`) — also none — in front of
                     every token and behind the last one (`Spaced e cs`); `parse_printPad` is the instance "the same pad
                     everywhere", e.g. the text without any blank at all (`a--b*f(c,2)`);
* `print_injective`  `printExpr` is injective on printable trees;
* `printL_head`      the canonical text of a printable tree starts with a digit, `'`, `[A-Za-z_]`, `[`, `!`, `-` or `(`;
* `parse_in_image`   every tree `parseExpr` returns on ANY text is in `InImage` (= `Printable` with `varImg` for `varOk`);
* `printable_of_parse_partial`  … hence `Printable`, provided no variable name in it ends in a backslash (the full
                     statement is false: `[a\]` parses to the name `a\`, which has no context-independent spelling);
                     `image_of_printable`, `printable_of_image`: `Printable ⊆ image(parseExpr) ⊆ InImage`, and
                     `InImage \ Printable` is exactly the trees with a backslash-ended variable name;
* `parse_print_parse`  `parseExpr s = ok e → parseExpr (printExpr e) = ok e` under the same proviso.

Proof: `Spaced` is defined by recursion over the tree; `round_trip` shows by induction on the size of the tree that
`parseUnary` / `parseBinary` read a spaced text back whatever *admissible* text follows (`Follow`: the next character does
not extend a number or an identifier and no `(` follows behind blanks; `Stop`: additionally no binary operator
follows), with fuel ≥ text length.  The binary level re-uses the chain theorems of `C02.lean`: a spaced text of a tree
splits into the text of its first operand and the spaced chain (`spaced_split`), the chain loop turns that into
`parseChain (first e) (chain e)` (`chainLoop_spaced`), and that *is* `e` for a precedence-respecting tree (`rebuild`).
-/

namespace C02
open ExprParse ExprScan Print


/-! ### spaced renderings -/

mutual
/-- `Spaced e cs`: `cs` is the canonical token sequence of `e` with an arbitrary run of blanks (possibly empty) in front of
every token; for a call, blanks are also allowed between the name and its `(` (the pattern is `name\s*\(`) -/
def Spaced : Expr → List Char → Prop
  | .number q, cs => ∃ w, AllSpace w ∧ cs = w ++ printNum q
  | .string s, cs => ∃ w, AllSpace w ∧ cs = w ++ printStr s
  | .variable n, cs => ∃ w, AllSpace w ∧ cs = w ++ printVar n
  | .function n args, cs => ∃ w w1 body, AllSpace w ∧ AllSpace w1 ∧ SpacedArgs args body ∧
      cs = w ++ (n.render.toList ++ (w1 ++ '(' :: body))
  | .binary op l r, cs => ∃ a w b, Spaced l a ∧ AllSpace w ∧ Spaced r b ∧ cs = a ++ (w ++ (op.text.toList ++ b))
  | .unary op e, cs => ∃ w a, AllSpace w ∧ Spaced e a ∧ cs = w ++ (op.text.toList ++ a)
  | .group e, cs => ∃ w a w2, AllSpace w ∧ Spaced e a ∧ AllSpace w2 ∧ cs = w ++ '(' :: (a ++ (w2 ++ [')']))
/-- the argument list including the closing `)` … -/
def SpacedArgs : List Expr → List Char → Prop
  | [], cs => ∃ w, AllSpace w ∧ cs = w ++ [')']
  | a :: rest, cs => ∃ x y, Spaced a x ∧ SpacedMore rest y ∧ cs = x ++ y
/-- … every further argument behind a comma -/
def SpacedMore : List Expr → List Char → Prop
  | [], cs => ∃ w, AllSpace w ∧ cs = w ++ [')']
  | a :: rest, cs => ∃ w x y, AllSpace w ∧ Spaced a x ∧ SpacedMore rest y ∧ cs = w ++ ',' :: (x ++ y)
end

theorem allSpace_nil : AllSpace [] := by intro c h; cases h
theorem allSpace_one : AllSpace [' '] := by intro c h; simp at h; subst h; decide

theorem spaced_ws {w : List Char} (hw : AllSpace w) : ∀ (e : Expr) (cs : List Char), Spaced e cs → Spaced e (w ++ cs)
  | .binary op l r, cs, h => by
    simp only [Spaced] at h ⊢
    obtain ⟨a, w1, b, hl, hw1, hr, rfl⟩ := h
    exact ⟨w ++ a, w1, b, spaced_ws hw l a hl, hw1, hr, by simp⟩
  | .number q, cs, h => by
    simp only [Spaced] at h ⊢
    obtain ⟨w', hw', rfl⟩ := h
    exact ⟨w ++ w', hw.append hw', by simp⟩
  | .string s, cs, h => by
    simp only [Spaced] at h ⊢
    obtain ⟨w', hw', rfl⟩ := h
    exact ⟨w ++ w', hw.append hw', by simp⟩
  | .variable n, cs, h => by
    simp only [Spaced] at h ⊢
    obtain ⟨w', hw', rfl⟩ := h
    exact ⟨w ++ w', hw.append hw', by simp⟩
  | .function n args, cs, h => by
    simp only [Spaced] at h ⊢
    obtain ⟨w', w1, body, hw', hw1, hb, rfl⟩ := h
    exact ⟨w ++ w', w1, body, hw.append hw', hw1, hb, by simp⟩
  | .unary op e, cs, h => by
    simp only [Spaced] at h ⊢
    obtain ⟨w', a, hw', ha, rfl⟩ := h
    exact ⟨w ++ w', a, hw.append hw', ha, by simp⟩
  | .group e, cs, h => by
    simp only [Spaced] at h ⊢
    obtain ⟨w', a, w2, hw', ha, hw2, rfl⟩ := h
    exact ⟨w ++ w', a, w2, hw.append hw', ha, hw2, by simp⟩

mutual
theorem spaced_print : ∀ e : Expr, Spaced e (printL e)
  | .number q => by simp only [Spaced, printL]; exact ⟨[], allSpace_nil, rfl⟩
  | .string s => by simp only [Spaced, printL]; exact ⟨[], allSpace_nil, rfl⟩
  | .variable n => by simp only [Spaced, printL]; exact ⟨[], allSpace_nil, rfl⟩
  | .function n args => by
    simp only [Spaced, printL]
    exact ⟨[], [], printArgsL args ++ [')'], allSpace_nil, allSpace_nil, spacedArgs_print args, by simp⟩
  | .binary op l r => by
    simp only [Spaced, printL]
    exact ⟨printL l, [' '], ' ' :: printL r, spaced_print l, allSpace_one, spaced_ws allSpace_one r _ (spaced_print r), by simp⟩
  | .unary op e => by
    simp only [Spaced, printL]
    exact ⟨[], printL e, allSpace_nil, spaced_print e, rfl⟩
  | .group e => by
    simp only [Spaced, printL]
    exact ⟨[], printL e, [], allSpace_nil, spaced_print e, allSpace_nil, by simp⟩
theorem spacedArgs_print : ∀ args : List Expr, SpacedArgs args (printArgsL args ++ [')'])
  | [] => by simp only [SpacedArgs, printArgsL]; exact ⟨[], allSpace_nil, rfl⟩
  | a :: rest => by
    simp only [SpacedArgs, printArgsL]
    exact ⟨printL a, printMoreL rest ++ [')'], spaced_print a, spacedMore_print rest, by simp⟩
theorem spacedMore_print : ∀ args : List Expr, SpacedMore args (printMoreL args ++ [')'])
  | [] => by simp only [SpacedMore, printMoreL]; exact ⟨[], allSpace_nil, rfl⟩
  | a :: rest => by
    simp only [SpacedMore, printMoreL]
    exact ⟨[], ' ' :: printL a, printMoreL rest ++ [')'], allSpace_nil, spaced_ws allSpace_one a _ (spaced_print a),
      spacedMore_print rest, by simp⟩
end



/-! ### the first character of an operand text -/

/-- characters an operand can start with -/
def OperandStart (c : Char) : Prop :=
  isDigit c = true ∨ isIdStart c = true ∨ c = '\'' ∨ c = '[' ∨ c = '!' ∨ c = '-' ∨ c = '('

theorem OperandStart.facts {c : Char} (h : OperandStart c) :
    isPySpace c = false ∧ c ≠ '*' ∧ c ≠ '=' ∧ c ≠ ')' ∧ c ≠ ',' ∧ c ≠ ':' ∧ c ≠ '#' := by
  rcases h with h | h | h | h | h | h | h
  · exact ⟨digit_not_space h, digit_ne h (by decide), digit_ne h (by decide), digit_ne h (by decide),
      digit_ne h (by decide), digit_ne h (by decide), digit_ne h (by decide)⟩
  · exact ⟨word_not_space (idStart_word h), idStart_ne h (by decide), idStart_ne h (by decide), idStart_ne h (by decide),
      idStart_ne h (by decide), idStart_ne h (by decide), idStart_ne h (by decide)⟩
  all_goals (subst h; decide)

/-- the text starts (after blanks) with an operand-start character -/
def StartsOperand (cs : List Char) : Prop := ∃ w c t, cs = w ++ c :: t ∧ AllSpace w ∧ OperandStart c

theorem StartsOperand.ws {w cs : List Char} (hw : AllSpace w) (h : StartsOperand cs) : StartsOperand (w ++ cs) := by
  obtain ⟨w', c, t, rfl, hw', hc⟩ := h
  exact ⟨w ++ w', c, t, by simp, hw.append hw', hc⟩

theorem StartsOperand.append {cs : List Char} (h : StartsOperand cs) (s : List Char) : StartsOperand (cs ++ s) := by
  obtain ⟨w', c, t, rfl, hw', hc⟩ := h
  exact ⟨w', c, t ++ s, by simp, hw', hc⟩

theorem StartsOperand.opSafe {cs : List Char} (h : StartsOperand cs) : OpSafe cs := by
  obtain ⟨w, c, t, rfl, hw, hc⟩ := h
  intro d r hd
  cases w with
  | nil =>
    simp only [List.nil_append, List.cons.injEq] at hd
    rw [← hd.1]; exact ⟨hc.facts.2.1, hc.facts.2.2.1⟩
  | cons x xs =>
    simp only [List.cons_append, List.cons.injEq] at hd
    rw [← hd.1]
    have hx := hw x (List.mem_cons_self ..)
    exact ⟨ne_of_space hx (by decide), ne_of_space hx (by decide)⟩

theorem StartsOperand.length_pos {cs : List Char} (h : StartsOperand cs) : 1 ≤ cs.length := by
  obtain ⟨w, c, t, rfl, _, _⟩ := h; simp; omega

theorem StartsOperand.scanClose {cs : List Char} (h : StartsOperand cs) : scanClose cs = none := by
  obtain ⟨w, c, t, rfl, hw, hc⟩ := h
  rw [ExprScan.scanClose, scanChar_ws hw]
  exact scanChar_ne hc.facts.1 hc.facts.2.2.2.1 _

theorem unText_start (op : UnOp) (s : List Char) : ∃ c t, op.text.toList ++ s = c :: t ∧ OperandStart c := by
  cases op
  · exact ⟨'!', s, rfl, by simp [OperandStart]⟩
  · exact ⟨'-', s, rfl, by simp [OperandStart]⟩

theorem printVar_start (n : Name) : ∃ c t, printVar n = c :: t ∧ OperandStart c := by
  by_cases hid : isIdent n.render.toList = true
  · obtain ⟨c, x, hcx, hc, _⟩ := isIdent_shape hid
    refine ⟨c, x, ?_, Or.inr (Or.inl hc)⟩
    show (if isIdent n.render.toList then n.render.toList else _) = _
    rw [if_pos hid, hcx]
  · refine ⟨'[', escape ']' n.render.toList ++ [']'], ?_, by simp [OperandStart]⟩
    show (if isIdent n.render.toList then n.render.toList else _) = _
    rw [if_neg hid]

/-- the canonical text of a printable tree starts with an operand-start character (never a blank, `=`, `:`, `#`, …) -/
theorem printL_head : ∀ e : Expr, Printable e → ∃ c t, printL e = c :: t ∧ OperandStart c
  | .number q, h => by
    simp only [Printable, printable] at h
    obtain ⟨⟨d, r, hd, hdd⟩, _⟩ := printNum_scan h
    exact ⟨d, r, by simp [printL, hd], Or.inl hdd⟩
  | .string s, _ => ⟨'\'', escape '\'' s.toList ++ ['\''], by simp [printL, printStr], by simp [OperandStart]⟩
  | .variable n, h => by
    simp only [Printable, printable] at h
    simpa [printL] using printVar_start n
  | .function n args, h => by
    simp only [Printable, printable, Bool.and_eq_true, fnOk] at h
    obtain ⟨c, x, hcx, hc, _⟩ := isIdent_shape h.1.2
    exact ⟨c, x ++ '(' :: (printArgsL args ++ [')']), by simp [printL, hcx], Or.inr (Or.inl hc)⟩
  | .binary op l r, h => by
    simp only [Printable, printable, Bool.and_eq_true] at h
    obtain ⟨c, t, hl, hc⟩ := printL_head l h.1.1.1
    exact ⟨c, t ++ ' ' :: (op.text.toList ++ ' ' :: printL r), by simp [printL, hl], hc⟩
  | .unary op e, _ => by
    obtain ⟨c, t, h1, hc⟩ := unText_start op (printL e)
    exact ⟨c, t, by simpa [printL] using h1, hc⟩
  | .group e, _ => ⟨'(', printL e ++ [')'], by simp [printL], by simp [OperandStart]⟩

theorem spaced_start : ∀ (e : Expr) (cs : List Char), Printable e → Spaced e cs → StartsOperand cs
  | .number q, cs, h, hs => by
    simp only [Printable, printable] at h
    simp only [Spaced] at hs
    obtain ⟨w, hw, rfl⟩ := hs
    obtain ⟨⟨d, r, hd, hdd⟩, _⟩ := printNum_scan h
    exact ⟨w, d, r, by rw [hd], hw, Or.inl hdd⟩
  | .string s, cs, _, hs => by
    simp only [Spaced] at hs
    obtain ⟨w, hw, rfl⟩ := hs
    exact ⟨w, '\'', escape '\'' s.toList ++ ['\''], by simp [printStr], hw, by simp [OperandStart]⟩
  | .variable n, cs, h, hs => by
    simp only [Printable, printable] at h
    simp only [Spaced] at hs
    obtain ⟨w, hw, rfl⟩ := hs
    obtain ⟨c, t, hp, hc⟩ := printVar_start n
    exact ⟨w, c, t, by rw [hp], hw, hc⟩
  | .function n args, cs, h, hs => by
    simp only [Printable, printable, Bool.and_eq_true, fnOk] at h
    simp only [Spaced] at hs
    obtain ⟨w, w1, body, hw, _, _, rfl⟩ := hs
    obtain ⟨c, x, hcx, hc, _⟩ := isIdent_shape h.1.2
    exact ⟨w, c, x ++ (w1 ++ '(' :: body), by rw [hcx]; rfl, hw, Or.inr (Or.inl hc)⟩
  | .binary op l r, cs, h, hs => by
    simp only [Printable, printable, Bool.and_eq_true] at h
    simp only [Spaced] at hs
    obtain ⟨a, w, b, hl, _, _, rfl⟩ := hs
    exact (spaced_start l a h.1.1.1 hl).append _
  | .unary op e, cs, _, hs => by
    simp only [Spaced] at hs
    obtain ⟨w, a, hw, _, rfl⟩ := hs
    obtain ⟨c, t, h1, hc⟩ := unText_start op a
    exact ⟨w, c, t, by rw [h1], hw, hc⟩
  | .group e, cs, _, hs => by
    simp only [Spaced] at hs
    obtain ⟨w, a, w2, hw, _, _, rfl⟩ := hs
    exact ⟨w, '(', a ++ (w2 ++ [')']), rfl, hw, by simp [OperandStart]⟩


/-! ### size, and the pieces of a printable tree -/

mutual
def size : Expr → Nat
  | .function _ args => 1 + sizeArgs args
  | .binary _ l r => 1 + size l + size r
  | .unary _ e => 1 + size e
  | .group e => 1 + size e
  | .number _ => 1
  | .string _ => 1
  | .variable _ => 1
def sizeArgs : List Expr → Nat
  | [] => 0
  | a :: r => size a + sizeArgs r
end

theorem size_pos : ∀ e : Expr, 1 ≤ size e
  | .function _ _ | .binary _ _ _ | .unary _ _ | .group _ | .number _ | .string _ | .variable _ => by
    simp only [size]; omega

theorem size_mem_args {a : Expr} : ∀ {args : List Expr}, a ∈ args → size a ≤ sizeArgs args
  | [], h => by cases h
  | b :: r, h => by
    simp only [sizeArgs]
    rcases List.mem_cons.mp h with rfl | h
    · omega
    · have := size_mem_args h; omega

theorem size_first_le (e : Expr) : size (first e) ≤ size e := by
  induction e using binInd with
  | binary op l r ihl _ => simp only [first, size]; omega
  | operand e he => cases e <;> simp_all [IsOperand, rootOp, first]

theorem size_chain_lt (e : Expr) : ∀ x ∈ chain e, size x.2 < size e := by
  induction e using binInd with
  | binary op l r ihl ihr =>
    intro x hx
    simp only [chain, List.mem_append, List.mem_cons] at hx
    simp only [size]
    rcases hx with hx | hx | hx
    · have := ihl x hx; omega
    · subst hx; have := size_first_le r; simp only; omega
    · have := ihr x hx; omega
  | operand e he => intro x hx; cases e <;> simp_all [chain, IsOperand, rootOp]

/-- an operand is its own chain; the operands of a proper binary tree are strictly smaller -/
theorem pieces (e : Expr) :
    (IsOperand e ∧ first e = e ∧ chain e = []) ∨ (¬ IsOperand e ∧ size (first e) < size e) := by
  cases e with
  | binary op l r =>
    right
    refine ⟨by simp [IsOperand, rootOp], ?_⟩
    have := size_first_le l
    simp only [first, size]; omega
  | _ => left; simp [IsOperand, rootOp, first, chain]

theorem printable_wf (e : Expr) : Printable e → WFPrec e := by
  induction e using binInd with
  | binary op l r ihl ihr =>
    intro h
    simp only [Printable, printable, Bool.and_eq_true] at h
    refine ⟨ihl h.1.1.1, ihr h.1.1.2, ?_, ?_⟩
    · intro q hq
      cases l <;> simp_all [rootOp, precOkL]
    · intro q hq
      cases r <;> simp_all [rootOp, precOkR]
  | operand e he => intro _; exact WF_operand he

theorem printable_first (e : Expr) : Printable e → Printable (first e) := by
  induction e using binInd with
  | binary op l r ihl _ =>
    intro h
    simp only [Printable, printable, Bool.and_eq_true] at h
    simpa [first] using ihl h.1.1.1
  | operand e he => intro h; cases e <;> simp_all [first, IsOperand, rootOp]

theorem printable_chain (e : Expr) : Printable e → ∀ x ∈ chain e, Printable x.2 := by
  induction e using binInd with
  | binary op l r ihl ihr =>
    intro h x hx
    simp only [Printable, printable, Bool.and_eq_true] at h
    simp only [chain, List.mem_append, List.mem_cons] at hx
    rcases hx with hx | hx | hx
    · exact ihl h.1.1.1 x hx
    · subst hx; exact printable_first r h.1.1.2
    · exact ihr h.1.1.2 x hx
  | operand e he => intro _ x hx; cases e <;> simp_all [chain, IsOperand, rootOp]

/-! ### a spaced text of a tree is the spaced text of its first operand followed by the spaced chain -/

def SpacedChain : List (BinOp × Expr) → List Char → Prop
  | [], cs => cs = []
  | (op, x) :: rest, cs => ∃ w a b, AllSpace w ∧ Spaced x a ∧ SpacedChain rest b ∧ cs = w ++ (op.text.toList ++ (a ++ b))

theorem SpacedChain.append : ∀ {c1 c2 : List (BinOp × Expr)} {b1 b2 : List Char}, SpacedChain c1 b1 → SpacedChain c2 b2 →
    SpacedChain (c1 ++ c2) (b1 ++ b2)
  | [], _, _, _, h1, h2 => by simp only [SpacedChain] at h1; subst h1; simpa using h2
  | (op, x) :: rest, c2, b1, b2, h1, h2 => by
    simp only [SpacedChain] at h1
    obtain ⟨w, a, b, hw, ha, hb, rfl⟩ := h1
    simp only [List.cons_append, SpacedChain]
    exact ⟨w, a, b ++ b2, hw, ha, SpacedChain.append hb h2, by simp⟩

theorem spaced_split (e : Expr) : ∀ cs, Spaced e cs → ∃ a b, cs = a ++ b ∧ Spaced (first e) a ∧ SpacedChain (chain e) b := by
  induction e using binInd with
  | binary op l r ihl ihr =>
    intro cs h
    simp only [Spaced] at h
    obtain ⟨A, w, B, hl, hw, hr, rfl⟩ := h
    obtain ⟨a1, b1, rfl, hf1, hc1⟩ := ihl A hl
    obtain ⟨a2, b2, rfl, hf2, hc2⟩ := ihr B hr
    refine ⟨a1, b1 ++ (w ++ (op.text.toList ++ (a2 ++ b2))), by simp, by simpa [first] using hf1, ?_⟩
    simp only [chain]
    refine SpacedChain.append hc1 ?_
    simp only [SpacedChain]
    exact ⟨w, a2, b2, hw, hf2, hc2, rfl⟩
  | operand e he =>
    intro cs h
    have hfu : first e = e := by cases e <;> simp_all [IsOperand, rootOp, first]
    have hcu : chain e = [] := by cases e <;> simp_all [IsOperand, rootOp, chain]
    exact ⟨cs, [], by simp, by rwa [hfu], by rw [hcu]; rfl⟩

theorem binText_length (op : BinOp) : 1 ≤ op.text.toList.length := by cases op <;> decide
theorem unText_length (op : UnOp) : 1 ≤ op.text.toList.length := by cases op <;> decide

theorem spacedChain_follow {ch : List (BinOp × Expr)} {b rest : List Char} (h : SpacedChain ch b) (hr : Follow rest) :
    Follow (b ++ rest) := by
  cases ch with
  | nil => simp only [SpacedChain] at h; subst h; simpa using hr
  | cons p ch =>
    obtain ⟨op, x⟩ := p
    simp only [SpacedChain] at h
    obtain ⟨w, a, b', hw, _, _, rfl⟩ := h
    have := follow_ws_append hw (follow_binText op (a ++ b' ++ rest))
    simpa using this

/-- the chain loop reads a spaced chain back, given that the unary-level parser `pu` reads each operand back -/
theorem chainLoop_spaced (pu : List Char → Res (Expr × List Char)) (F : Nat) :
    ∀ (ch : List (BinOp × Expr)),
      (∀ x ∈ ch, Printable x.2 ∧ ∀ cs rest, Spaced x.2 cs → Follow rest → (cs ++ rest).length ≤ F → pu (cs ++ rest) = .ok (x.2, rest)) →
      ∀ (t0 : Expr) (b rest : List Char) (n : Nat), SpacedChain ch b → Stop rest → (b ++ rest).length ≤ n → (b ++ rest).length ≤ F →
        chainLoop pu n t0 (b ++ rest) = .ok (parseChain t0 ch, rest)
  | [], _, t0, b, rest, n, hb, hstop, _, _ => by
    simp only [SpacedChain] at hb; subst hb
    cases n <;> simp [chainLoop, hstop.2, parseChain]
  | (op, x) :: ch, hch, t0, b, rest, n, hb, hstop, hn, hF => by
    simp only [SpacedChain] at hb
    obtain ⟨w, a, b', hw, ha, hb', rfl⟩ := hb
    obtain ⟨hpx, hpu⟩ := hch (op, x) (List.mem_cons_self ..)
    have hstart := spaced_start x a hpx ha
    have hlen := binText_length op
    have e1 : w ++ (op.text.toList ++ (a ++ b')) ++ rest = w ++ (op.text.toList ++ (a ++ (b' ++ rest))) := by simp
    rw [e1] at hn hF ⊢
    simp only [List.length_append] at hn hF
    cases n with
    | zero => omega
    | succ m =>
      have hscan : scanBinOp (w ++ (op.text.toList ++ (a ++ (b' ++ rest)))) = some (op, a ++ (b' ++ rest)) := by
        rw [scanBinOp_ws hw]; exact scanBinOp_text op _ (hstart.append _).opSafe
      have hx := hpu a (b' ++ rest) ha (spacedChain_follow hb' hstop.1) (by simp only [List.length_append]; omega)
      simp only [chainLoop, hscan, hx]
      have := chainLoop_spaced pu F ch (fun y hy => hch y (List.mem_cons_of_mem _ hy)) (insR t0 op x) b' rest m hb' hstop
        (by simp only [List.length_append]; omega) (by simp only [List.length_append]; omega)
      simpa [parseChain] using this

/-! ### the argument loop -/

theorem spacedMore_stop : ∀ {more : List Expr} {y : List Char}, SpacedMore more y → ∀ rest, Stop (y ++ rest)
  | [], y, h, rest => by
    simp only [SpacedMore] at h
    obtain ⟨w, hw, rfl⟩ := h
    have := stop_ws_append hw (stop_close rest)
    simpa using this
  | a :: more, y, h, rest => by
    simp only [SpacedMore] at h
    obtain ⟨w, x, y', hw, _, _, rfl⟩ := h
    have := stop_ws_append hw (stop_comma (x ++ y' ++ rest))
    simpa using this

theorem argsLoop_spaced (pb : List Char → Res (Expr × List Char)) (F : Nat) :
    ∀ (more : List Expr),
      (∀ a ∈ more, Printable a ∧ ∀ cs rest, Spaced a cs → Stop rest → (cs ++ rest).length ≤ F → pb (cs ++ rest) = .ok (a, rest)) →
      ∀ (done : List Expr) (body rest : List Char) (n : Nat),
        (if done.isEmpty then SpacedArgs more body else SpacedMore more body) → (body ++ rest).length ≤ n → (body ++ rest).length ≤ F →
        argsLoop pb n done (body ++ rest) = .ok (done ++ more, rest)
  | [], _, done, body, rest, n, hb, hn, _ => by
    have hb' : ∃ w, AllSpace w ∧ body = w ++ [')'] := by
      split at hb <;> simpa [SpacedArgs, SpacedMore] using hb
    obtain ⟨w, hw, rfl⟩ := hb'
    have hclose : scanClose (w ++ [')'] ++ rest) = some rest := by
      have : w ++ [')'] ++ rest = w ++ ')' :: rest := by simp
      rw [this, ExprScan.scanClose, scanChar_ws hw]; exact scanChar_eq ')' (by decide) rest
    cases n with
    | zero => simp at hn
    | succ m => simp only [argsLoop, hclose, List.append_nil]
  | a :: more, hmore, done, body, rest, n, hb, hn, hF => by
    obtain ⟨hpa, hpb⟩ := hmore a (List.mem_cons_self ..)
    have ih := argsLoop_spaced pb F more (fun y hy => hmore y (List.mem_cons_of_mem _ hy))
    by_cases hd : done.isEmpty = true
    · simp only [hd, if_true, SpacedArgs] at hb
      obtain ⟨x, y, hx, hy, rfl⟩ := hb
      have hstart := spaced_start a x hpa hx
      have hxl := hstart.length_pos
      have e1 : x ++ y ++ rest = x ++ (y ++ rest) := by simp
      rw [e1] at hn hF ⊢
      simp only [List.length_append] at hn hF
      cases n with
      | zero => omega
      | succ m =>
        have hclose : scanClose (x ++ (y ++ rest)) = none := (hstart.append _).scanClose
        have hpx := hpb x (y ++ rest) hx (spacedMore_stop hy rest) (by simp only [List.length_append]; omega)
        simp only [argsLoop, hclose, hd, if_true, hpx]
        have hne : (done ++ [a]).isEmpty = false := by simp
        have := ih (done ++ [a]) y rest m (by simp only [hne]; exact hy)
          (by simp only [List.length_append]; omega) (by simp only [List.length_append]; omega)
        simpa using this
    · simp only [hd, SpacedMore] at hb
      obtain ⟨w, x, y, hw, hx, hy, rfl⟩ := hb
      have hstart := spaced_start a x hpa hx
      have e1 : w ++ ',' :: (x ++ y) ++ rest = w ++ ',' :: (x ++ (y ++ rest)) := by simp
      rw [e1] at hn hF ⊢
      simp only [List.length_append, List.length_cons] at hn hF
      cases n with
      | zero => omega
      | succ m =>
        have hclose : scanClose (w ++ ',' :: (x ++ (y ++ rest))) = none := by
          rw [ExprScan.scanClose, scanChar_ws hw]; exact scanChar_ne (by decide) (by decide) _
        have hcomma : scanComma (w ++ ',' :: (x ++ (y ++ rest))) = some (x ++ (y ++ rest)) := by
          rw [ExprScan.scanComma, scanChar_ws hw]; exact scanChar_eq ',' (by decide) _
        have hpx := hpb x (y ++ rest) hx (spacedMore_stop hy rest) (by simp only [List.length_append]; omega)
        have hd' : done.isEmpty = false := by simpa using hd
        simp only [argsLoop, hclose, hd', Bool.false_eq_true, if_false, hcomma, hpx]
        have hne : (done ++ [a]).isEmpty = false := by simp
        have := ih (done ++ [a]) y rest m (by simp only [hne]; exact hy)
          (by simp only [List.length_append]; omega) (by simp only [List.length_append]; omega)
        simpa using this


/-! ### the round trip -/

/-- the unary-level parser reads a spaced text of `e` back (whatever admissible text follows, with fuel ≥ text length) -/
def PU (e : Expr) : Prop :=
  ∀ F cs rest, Spaced e cs → Follow rest → (cs ++ rest).length ≤ F → parseUnary F (cs ++ rest) = .ok (e, rest)

/-- the binary-level parser reads a spaced text of `e` back -/
def PB (e : Expr) : Prop :=
  ∀ F cs rest, Spaced e cs → Stop rest → (cs ++ rest).length ≤ F → parseBinary F (cs ++ rest) = .ok (e, rest)

theorem pb_of_pu (e : Expr) (hp : Printable e) (hfirst : PU (first e)) (hchain : ∀ x ∈ chain e, PU x.2) : PB e := by
  intro F cs rest hs hstop hlen
  obtain ⟨a, b, rfl, hfa, hcb⟩ := spaced_split e cs hs
  have e1 : a ++ b ++ rest = a ++ (b ++ rest) := by simp
  rw [e1] at hlen ⊢
  have h1 := hfirst F a (b ++ rest) hfa (spacedChain_follow hcb hstop.1) hlen
  simp only [parseBinary, binaryWith, h1]
  have hlen' : (b ++ rest).length ≤ F := by simp only [List.length_append] at hlen ⊢; omega
  rw [chainLoop_spaced (parseUnary F) F (chain e)
    (fun x hx => ⟨printable_chain e hp x hx, fun cs rest hs hf hl => hchain x hx F cs rest hs hf hl⟩)
    (first e) b rest F hcb hstop hlen' hlen']
  rw [rebuild e (printable_wf e hp)]

theorem printableArgs_mem : ∀ {args : List Expr}, printableArgs args = true → ∀ a ∈ args, Printable a
  | [], _, a, ha => by cases ha
  | b :: bs, h, a, ha => by
    simp only [printableArgs, Bool.and_eq_true] at h
    rcases List.mem_cons.mp ha with rfl | ha
    · exact h.1
    · exact printableArgs_mem h.2 a ha

theorem round_trip : ∀ (n : Nat) (e : Expr), size e ≤ n → Printable e → (IsOperand e → PU e) ∧ PB e := by
  intro n
  induction n with
  | zero => intro e hsz; have := size_pos e; omega
  | succ n ih =>
    intro e hsz hp
    have hPU : IsOperand e → PU e := by
      intro hop F cs rest hs hf hlen
      cases e with
      | binary op l r => simp [IsOperand, rootOp] at hop
      | number q =>
        simp only [Printable, printable] at hp
        simp only [Spaced] at hs
        obtain ⟨w, hw, rfl⟩ := hs
        rw [List.append_assoc]; exact parseUnary_number hp hw hf F
      | string s =>
        simp only [Spaced] at hs
        obtain ⟨w, hw, rfl⟩ := hs
        rw [List.append_assoc]; exact parseUnary_string s hw rest F
      | «variable» nm =>
        simp only [Printable, printable] at hp
        simp only [Spaced] at hs
        obtain ⟨w, hw, rfl⟩ := hs
        rw [List.append_assoc]; exact parseUnary_variable hp hw hf F
      | unary op x =>
        simp only [Printable, printable, Bool.and_eq_true] at hp
        simp only [Spaced] at hs
        obtain ⟨w, a, hw, ha, rfl⟩ := hs
        have hxop : IsOperand x := by cases x <;> simp_all [isOperandB, IsOperand, rootOp]
        have hsx : size x ≤ n := by simp only [size] at hsz; omega
        have e1 : w ++ (op.text.toList ++ a) ++ rest = w ++ (op.text.toList ++ (a ++ rest)) := by simp
        rw [e1] at hlen ⊢
        have hol := unText_length op
        simp only [List.length_append] at hlen
        cases F with
        | zero => omega
        | succ f =>
          have hg : scanGroupOpen (w ++ (op.text.toList ++ (a ++ rest))) = none := by
            rw [scanGroupOpen, scanChar_ws hw]; exact scanGroupOpen_unText op _
          have hu : scanUnaryOp (w ++ (op.text.toList ++ (a ++ rest))) = some (op, a ++ rest) := by
            rw [scanUnaryOp_ws hw]; exact scanUnaryOp_text op _
          have hx := (ih x hsx hp.2).1 hxop f a rest ha hf (by simp only [List.length_append]; omega)
          simp only [parseUnary, hg, hu, hx]
      | group x =>
        simp only [Printable, printable] at hp
        simp only [Spaced] at hs
        obtain ⟨w, a, w2, hw, ha, hw2, rfl⟩ := hs
        have hsx : size x ≤ n := by simp only [size] at hsz; omega
        have e1 : w ++ '(' :: (a ++ (w2 ++ [')'])) ++ rest = w ++ '(' :: (a ++ (w2 ++ ')' :: rest)) := by simp
        rw [e1] at hlen ⊢
        simp only [List.length_append, List.length_cons] at hlen
        cases F with
        | zero => omega
        | succ f =>
          have hg : scanGroupOpen (w ++ '(' :: (a ++ (w2 ++ ')' :: rest))) = some (a ++ (w2 ++ ')' :: rest)) := by
            rw [scanGroupOpen, scanChar_ws hw]; exact scanChar_eq '(' (by decide) _
          have hstop : Stop (w2 ++ ')' :: rest) := stop_ws_append hw2 (stop_close rest)
          have hx := (ih x hsx hp).2 f a (w2 ++ ')' :: rest) ha hstop
            (by simp only [List.length_append, List.length_cons]; omega)
          simp only [parseBinary] at hx
          have hc : scanClose (w2 ++ ')' :: rest) = some rest := by
            rw [ExprScan.scanClose, scanChar_ws hw2]; exact scanChar_eq ')' (by decide) _
          simp only [parseUnary, hg, hx, hc]
      | function nm args =>
        simp only [Printable, printable, Bool.and_eq_true, fnOk, nameOk, decide_eq_true_eq] at hp
        simp only [Spaced] at hs
        obtain ⟨w, w1, body, hw, hw1, hbody, rfl⟩ := hs
        obtain ⟨⟨hname, hid⟩, hargs⟩ := hp
        obtain ⟨c, x, hcx, hc, hx⟩ := isIdent_shape hid
        have hback : Name.ofString (String.ofList (c :: x)) = nm := by rw [← hcx, String.ofList_toList]; exact hname
        have hcs := word_not_space (idStart_word hc)
        have e1 : w ++ (nm.render.toList ++ (w1 ++ '(' :: body)) ++ rest = w ++ (c :: x ++ (w1 ++ '(' :: (body ++ rest))) := by
          rw [hcx]; simp
        rw [e1] at hlen ⊢
        simp only [List.length_append, List.length_cons] at hlen
        cases F with
        | zero => omega
        | succ f =>
          have hg : scanGroupOpen (w ++ (c :: x ++ (w1 ++ '(' :: (body ++ rest)))) = none := by
            rw [scanGroupOpen, scanChar_ws hw]; exact scanChar_ne hcs (idStart_ne hc (by decide)) _
          have hu : scanUnaryOp (w ++ (c :: x ++ (w1 ++ '(' :: (body ++ rest)))) = none := by
            rw [scanUnaryOp_ws hw]; exact scanUnaryOp_ne hcs (idStart_ne hc (by decide)) (idStart_ne hc (by decide)) _
          have hfo : scanFuncOpen (w ++ (c :: x ++ (w1 ++ '(' :: (body ++ rest)))) = some (c :: x, body ++ rest) := by
            rw [scanFuncOpen_ws hw]; exact scanFuncOpen_ident hc hx hw1 _
          have hall := printableArgs_mem hargs
          have hloop := argsLoop_spaced (binaryWith (parseUnary f) f) f args
            (fun a ha => ⟨hall a ha, fun cs rest hs hst hl =>
              (ih a (by have := size_mem_args ha; simp only [size] at hsz; omega) (hall a ha)).2 f cs rest hs hst hl⟩)
            [] body rest f (by simpa using hbody) (by simp only [List.length_append]; omega)
            (by simp only [List.length_append]; omega)
          simp only [parseUnary, hg, hu, hfo, hloop, List.nil_append, hback]
    refine ⟨hPU, ?_⟩
    rcases pieces e with ⟨hop, hfu, hcu⟩ | ⟨_, hlt⟩
    · exact pb_of_pu e hp (by rw [hfu]; exact hPU hop) (by rw [hcu]; intro x hx; cases hx)
    · refine pb_of_pu e hp ((ih (first e) (by omega) (printable_first e hp)).1 (first_operand e)) ?_
      intro x hx
      exact (ih x.2 (by have := size_chain_lt e x hx; omega) (printable_chain e hp x hx)).1 (chain_operands e x hx)


/-- `parseExprL` on a spaced text of a printable tree followed by blanks -/
theorem parse_print_wsL (e : Expr) (h : Printable e) (cs : List Char) (hs : Spaced e cs) (ws : List Char) (hws : AllSpace ws) :
    parseExprL (cs ++ ws) = .ok e := by
  have hstop : Stop ws := by simpa using stop_ws_append hws stop_nil
  have hb := (round_trip (size e) e (Nat.le_refl _) h).2 (cs ++ ws).length cs ws hs hstop (Nat.le_refl _)
  simp only [parseExprL]
  rw [hb]
  simp [skipWs_allSpace hws]

/-- **parse_print_ws** (whitespace robustness).  For every printable tree `e`: take the canonical token sequence of `e`
(the tokens `printExpr` writes, in its order), put an arbitrary run of blanks — any of the 29 characters of
`ExprScan.isPySpace`, possibly none — in front of every token (`Spaced e cs`; the two blanks `printExpr` writes around a
binary operator and behind a comma are instances, so the canonical text is one of these), append arbitrary blanks `ws`:
the text parses to exactly `e`.  Unbounded depth, size and argument counts. -/
theorem parse_print_ws (e : Expr) (h : Printable e) (cs : List Char) (hs : Spaced e cs) (ws : List Char) (hws : AllSpace ws) :
    parseExpr (String.ofList (cs ++ ws)) = .ok e := by
  simp only [parseExpr, String.toList_ofList]
  exact parse_print_wsL e h cs hs ws hws

/-- **parse_print**: the text `printExpr` writes for a printable tree is parsed back to exactly that tree by the model of
`parse_expression` — for ALL printable trees (any depth, size, chain length, argument count, any string / name content). -/
theorem parse_print (e : Expr) (h : Printable e) : parseExpr (printExpr e) = .ok e := by
  have := parse_print_ws e h (printL e) (spaced_print e) [] allSpace_nil
  simpa [printExpr] using this

/-- **print_injective**: two different printable trees never have the same canonical text. -/
theorem print_injective (e₁ e₂ : Expr) (h₁ : Printable e₁) (h₂ : Printable e₂) (h : printExpr e₁ = printExpr e₂) : e₁ = e₂ := by
  have p1 := parse_print e₁ h₁
  rw [h, parse_print e₂ h₂] at p1
  exact (Except.ok.inj p1).symm

/-! ### a padded printer: inhabitants of `Spaced` with blanks everywhere -/

mutual
theorem spaced_printPad {p : List Char} (hp : AllSpace p) : ∀ e : Expr, Spaced e (printPad p e)
  | .number q => by simp only [Spaced, printPad]; exact ⟨p, hp, rfl⟩
  | .string s => by simp only [Spaced, printPad]; exact ⟨p, hp, rfl⟩
  | .variable n => by simp only [Spaced, printPad]; exact ⟨p, hp, rfl⟩
  | .function n args => by
    simp only [Spaced, printPad]; exact ⟨p, p, printPadArgs p args, hp, hp, spacedArgs_printPad hp args, rfl⟩
  | .binary op l r => by
    simp only [Spaced, printPad]; exact ⟨printPad p l, p, printPad p r, spaced_printPad hp l, hp, spaced_printPad hp r, rfl⟩
  | .unary op e => by simp only [Spaced, printPad]; exact ⟨p, printPad p e, hp, spaced_printPad hp e, rfl⟩
  | .group e => by simp only [Spaced, printPad]; exact ⟨p, printPad p e, p, hp, spaced_printPad hp e, hp, rfl⟩
theorem spacedArgs_printPad {p : List Char} (hp : AllSpace p) : ∀ args : List Expr, SpacedArgs args (printPadArgs p args)
  | [] => by simp only [SpacedArgs, printPadArgs]; exact ⟨p, hp, rfl⟩
  | a :: rest => by
    simp only [SpacedArgs, printPadArgs]; exact ⟨printPad p a, printPadMore p rest, spaced_printPad hp a, spacedMore_printPad hp rest, rfl⟩
theorem spacedMore_printPad {p : List Char} (hp : AllSpace p) : ∀ args : List Expr, SpacedMore args (printPadMore p args)
  | [] => by simp only [SpacedMore, printPadMore]; exact ⟨p, hp, rfl⟩
  | a :: rest => by
    simp only [SpacedMore, printPadMore]
    exact ⟨p, printPad p a, printPadMore p rest, hp, spaced_printPad hp a, spacedMore_printPad hp rest, rfl⟩
end

/-- corollary: the same pad (e.g. nothing at all: `a+b*ff(c,d)`; or `"\t 　"`) in front of every token and behind the
last one -/
theorem parse_printPad (e : Expr) (h : Printable e) (p : List Char) (hp : AllSpace p) :
    parseExpr (String.ofList (printPad p e ++ p)) = .ok e :=
  parse_print_ws e h _ (spaced_printPad hp e) p hp

/-! ### non-vacuity -/

theorem allSpace_of_all {ws : List Char} (h : ws.all isPySpace = true) : AllSpace ws := by
  intro c hc; exact List.all_eq_true.mp h c hc

private def vv (s : String) : Expr := .variable (.user s)

/-- a deep mixed tree: all precedence levels, left-nested equal precedence, groups, nested unary operators, a call with 5
arguments (one of them a call without arguments), an integer, a fraction, a string with a quote, a backslash and non-ASCII
text, a bracketed name with a blank and a `]`, the name that is one blank -/
private def deep : Expr :=
  .binary .or
    (.binary .and (.binary .eq (vv "a") (.binary .lt (.binary .sub (.binary .sub (vv "b") (.number 1)) (.binary .mul (vv "c") (.binary .pow (vv "d") (.number (3/2))))) (vv "e")))
      (.unary .not (.unary .neg (.group (.binary .add (vv "x y]z") (.group (.group (.unary .neg (.number 5)))))))))
    (.function (.user "ff") [.string "it's a \\ backé", .binary .mod (vv " ") (.number (1/8)), .function (.user "g") [],
      vv "_x1", .group (.binary .or (vv "null") (vv "true"))])

theorem deep_printable : Printable deep := by decide +kernel
example : printExpr deep =
    "a == b - 1 - c * d ** 1.5 < e && !-([x y\\]z] + ((-5))) || ff('it\\'s a \\\\ backé', [ ] % 0.125, g(), _x1, (null || true))" := by
  kernel_rfl
example : parseExpr (printExpr deep) = .ok deep := parse_print deep deep_printable
/-- no blanks at all, and tab + ideographic space before every token and at the end -/
example : parseExpr (String.ofList (printPad [] deep ++ [])) = .ok deep := parse_printPad deep deep_printable [] allSpace_nil
example : parseExpr (String.ofList (printPad ['\t', '　'] deep ++ ['\t', '　'])) = .ok deep :=
  parse_printPad deep deep_printable _ (allSpace_of_all (by decide))
example : String.ofList (printPad [] (.binary .sub (vv "a") (.binary .mul (.unary .neg (vv "b")) (.function (.user "f") [vv "c", .number 2])))) = "a--b*f(c,2)" := by
  kernel_rfl
/-- `print_injective` is about printable trees: the right-nested tree needs a `group` node to be printable at all, and then
the texts differ -/
example : ¬ Printable (.binary .sub (vv "a") (.binary .sub (vv "b") (vv "c"))) := by decide +kernel
example : printExpr (.binary .sub (.binary .sub (vv "a") (vv "b")) (vv "c")) = "a - b - c" ∧
    printExpr (.binary .sub (vv "a") (.group (.binary .sub (vv "b") (vv "c")))) = "a - (b - c)" := ⟨by kernel_rfl, by kernel_rfl⟩
/-- the conditions of `Printable` are necessary: each of these trees prints to a text that parses to a *different* tree -/
example : parseExpr (printExpr (.unary .neg (.binary .pow (vv "a") (vv "b")))) = .ok (.binary .pow (.unary .neg (vv "a")) (vv "b")) := by kernel_rfl
example : parseExpr (printExpr (.binary .sub (vv "a") (.binary .sub (vv "b") (vv "c")))) = .ok (.binary .sub (.binary .sub (vv "a") (vv "b")) (vv "c")) := by kernel_rfl
example : parseExpr (printExpr (vv " a")) = .ok (vv "a") := by kernel_rfl
/-- … including the backslash corner of bracketed names: alone, `[a\\]` is the name `a\`; in front of another `]` it is not -/
example : parseExpr (printExpr (vv "a\\")) = .ok (vv "a\\") := by kernel_rfl
example : parseExpr (printExpr (.function (.user "ff") [vv "a\\", vv "b c"])) = .ok (.function (.user "ff") [vv "a\\], [b c"]) := by kernel_rfl


/-! ## the image of the parser -/

mutual
/-- leaf and operand conditions, hereditarily (the precedence conditions are `WFPrec`); `V` is the condition on variable names -/
def PInner (V : Name → Prop) : Expr → Prop
  | .number q => numOk q = true
  | .string _ => True
  | .variable n => V n
  | .function n args => fnOk n = true ∧ PInnerArgs V args
  | .binary _ l r => PInner V l ∧ PInner V r
  | .unary _ e => IsOperand e ∧ PInner V e
  | .group e => WFPrec e ∧ PInner V e
def PInnerArgs (V : Name → Prop) : List Expr → Prop
  | [] => True
  | a :: rest => (WFPrec a ∧ PInner V a) ∧ PInnerArgs V rest
end

/-- the class `Printable` with `varImg` in place of `varOk`: it contains every tree the parser returns (`parse_in_image`) -/
def InImage (e : Expr) : Prop := WFPrec e ∧ PInner (fun n => varImg n = true) e

theorem PInner_ins {V : Name → Prop} (t : Expr) (op : BinOp) (r : Expr) (ht : PInner V t) (hr : PInner V r) :
    PInner V (ins t op r) := by
  induction t using binInd with
  | binary pl l rr _ ihr =>
    simp only [PInner] at ht
    simp only [ins]; split
    · exact ⟨ht.1, ihr ht.2⟩
    · exact ⟨⟨ht.1, ht.2⟩, hr⟩
  | operand e he =>
    have : ins e op r = .binary op e r := by cases e <;> simp_all [IsOperand, rootOp, ins]
    rw [this]; exact ⟨ht, hr⟩

theorem PInner_parseChain {V : Name → Prop} (l : Expr) (ch : List (BinOp × Expr)) (hl : PInner V l)
    (hch : ∀ x ∈ ch, PInner V x.2) : PInner V (parseChain l ch) := by
  induction ch generalizing l with
  | nil => simpa [parseChain]
  | cons x xs ih =>
    simp only [parseChain, insR_eq_ins]
    exact ih _ (PInner_ins l x.1 x.2 hl (hch x (List.mem_cons_self ..))) (fun y hy => hch y (List.mem_cons_of_mem _ hy))

theorem PInnerArgs_append {V : Name → Prop} (args : List Expr) (a : Expr) (h : PInnerArgs V args) (ha : WFPrec a ∧ PInner V a) :
    PInnerArgs V (args ++ [a]) := by
  induction args with
  | nil => exact ⟨ha, trivial⟩
  | cons b bs ih => exact ⟨h.1, ih h.2⟩

/-- result of a unary-level parse -/
def ImgU (e : Expr) : Prop := IsOperand e ∧ PInner (fun n => varImg n = true) e

theorem chainScan_img {pu : List Char → Res (Expr × List Char)} (hpu : ∀ t e r, pu t = .ok (e, r) → ImgU e)
    {t r : List Char} {ch : List (BinOp × Expr)} (h : ChainScan pu t ch r) : ∀ x ∈ ch, ImgU x.2 := by
  induction h with
  | done t _ => simp
  | step t rt nt rest op x ch hop hx _ ih =>
    intro y hy
    rcases List.mem_cons.mp hy with h | h
    · subst h; exact hpu _ _ _ hx
    · exact ih y h

theorem binaryWith_img {pu : List Char → Res (Expr × List Char)} (hpu : ∀ t e r, pu t = .ok (e, r) → ImgU e)
    (n : Nat) (t : List Char) (e : Expr) (r : List Char) (h : binaryWith pu n t = .ok (e, r)) : InImage e := by
  obtain ⟨u0, t0, ch, hu, hcs, rfl⟩ := binaryWith_scan pu n t e r h
  have h0 := hpu _ _ _ hu
  have hch := chainScan_img hpu hcs
  exact ⟨chain_wf u0 ch h0.1 (fun x hx => (hch x hx).1), PInner_parseChain u0 ch h0.2 (fun x hx => (hch x hx).2)⟩

theorem argsLoop_img {pb : List Char → Res (Expr × List Char)} (hpb : ∀ t e r, pb t = .ok (e, r) → InImage e) :
    ∀ (n : Nat) (args : List Expr) (t : List Char) (as : List Expr) (r : List Char),
      argsLoop pb n args t = .ok (as, r) → PInnerArgs (fun n => varImg n = true) args → PInnerArgs (fun n => varImg n = true) as := by
  intro n
  induction n with
  | zero => intro args t as r h; simp [argsLoop] at h
  | succ n ih =>
    intro args t as r h hargs
    simp only [argsLoop] at h
    split at h
    · simp only [Except.ok.injEq, Prod.mk.injEq] at h
      obtain ⟨rfl, rfl⟩ := h
      exact hargs
    · split at h
      · cases h
      · split at h
        · cases h
        · rename_i a nt hpa
          exact ih _ _ _ _ h (PInnerArgs_append args a hargs (hpb _ _ _ hpa))

/-! ### the atoms -/

theorem identShape_isIdent {id : List Char} (h : IdentShape id) : isIdent id = true := by
  obtain ⟨c, w, rfl, hc, hw⟩ := h
  simp only [isIdent, Bool.and_eq_true, List.all_eq_true]
  exact ⟨hc, hw⟩

theorem nameOk_ofString (s : String) : nameOk (Name.ofString s) = true := by
  simp [nameOk, render_ofString]

theorem varImg_ident {id : List Char} (h : IdentShape id) : varImg (Name.ofString (String.ofList id)) = true := by
  simp [varImg, nameOk_ofString, render_ofString, identShape_isIdent h]

theorem fnOk_ident {id : List Char} (h : IdentShape id) : fnOk (Name.ofString (String.ofList id)) = true := by
  simp [fnOk, nameOk_ofString, render_ofString, identShape_isIdent h]

theorem bracketBody_head (t raw rest : List Char) (h : bracketBody t = some (raw, rest))
    (d : Char) (t' : List Char) (ht : t = d :: t') (hd : d ≠ ']') : ∃ raw', raw = d :: raw' := by
  obtain ⟨hsplit, _⟩ := bracketBody_spec t raw rest h
  subst ht
  cases raw with
  | nil => simp at hsplit; exact absurd hsplit.1 hd
  | cons x xs => simp at hsplit; exact ⟨xs, by rw [hsplit.1]⟩

theorem unescape_head (q d : Char) (raw : List Char) (hd : isPySpace d = false) (hq : isPySpace q = false) :
    ∃ c t, unescape q (d :: raw) = c :: t ∧ isPySpace c = false := by
  rw [unescape.eq_def]
  simp only
  split
  · rename_i hbs
    cases raw with
    | nil => exact ⟨d, [], by simp [hbs], hd⟩
    | cons x xs =>
      simp only
      split
      · rename_i hx
        refine ⟨x, _, rfl, ?_⟩
        simp only [Bool.or_eq_true, decide_eq_true_eq] at hx
        rcases hx with rfl | rfl
        · decide
        · exact hq
      · exact ⟨d, _, rfl, hd⟩
  · exact ⟨d, _, rfl, hd⟩

theorem bracketImg_scan {t r n : List Char} (h : scanVariableEx t = some (n, r)) : bracketImg n = true := by
  unfold scanVariableEx at h
  split at h
  · rename_i c0 r0 _
    split at h
    · split at h
      · cases h
      · rename_i d r2 hdrop
        split at h
        · split at h
          · simp only [Option.some.injEq, Prod.mk.injEq] at h
            rw [← h.1]; rfl
          · cases h
        · rename_i hd
          simp only [Option.map_eq_some_iff] at h
          obtain ⟨⟨raw, rest⟩, hbb, hp⟩ := h
          simp only [Prod.mk.injEq] at hp
          obtain ⟨raw', rfl⟩ := bracketBody_head _ _ _ hbb d r2 rfl hd
          have hds : isPySpace d = false := by
            have := List.head?_dropWhile_not isPySpace r0
            rw [hdrop] at this
            simpa using this
          obtain ⟨c, u, hcu, hc⟩ := unescape_head ']' d raw' hds (by decide)
          rw [← hp.1, hcu]
          cases u <;> simp [bracketImg, hc]
    · cases h
  · cases h

theorem numOk_scan {t r : List Char} {q : Rat} (hun : scanUnaryOp t = none) (h : scanNumber t = some (q, r)) :
    numOk q = true := by
  obtain ⟨ws, body, _, _, hsp⟩ := scanNumber_spec hun h
  cases hsp with
  | num body q hn hhead =>
    obtain ⟨sg, neg, ip, frac, fp, exp, ex, rfl, hsg, _, _, _, _, rfl⟩ := hn
    cases hsg with
    | none => exact numOk_decVal ip fp ex
    | plus => exact numOk_decVal ip fp ex
    | minus => simp at hhead

theorem parseAtom_img (t : List Char) (e : Expr) (r : List Char) (hun : scanUnaryOp t = none)
    (h : parseAtom t = .ok (e, r)) : ImgU e := by
  unfold parseAtom at h
  split at h
  · rename_i q r' hs
    simp only [Except.ok.injEq, Prod.mk.injEq] at h
    obtain ⟨rfl, rfl⟩ := h
    exact ⟨rfl, numOk_scan hun hs⟩
  · split at h
    · simp only [Except.ok.injEq, Prod.mk.injEq] at h
      obtain ⟨rfl, rfl⟩ := h
      exact ⟨rfl, trivial⟩
    · split at h
      · simp only [Except.ok.injEq, Prod.mk.injEq] at h
        obtain ⟨rfl, rfl⟩ := h
        exact ⟨rfl, trivial⟩
      · split at h
        · rename_i n r' hs
          simp only [Except.ok.injEq, Prod.mk.injEq] at h
          obtain ⟨rfl, rfl⟩ := h
          obtain ⟨ws, _, _, hid⟩ := scanVariable_spec hs
          exact ⟨rfl, varImg_ident hid⟩
        · split at h
          · rename_i n r' hs
            simp only [Except.ok.injEq, Prod.mk.injEq] at h
            obtain ⟨rfl, rfl⟩ := h
            refine ⟨rfl, ?_⟩
            show varImg _ = true
            simp [varImg, nameOk_ofString, render_ofString, bracketImg_scan hs]
          · cases h

/-- every successful unary-level parse returns a chain operand whose leaves, hereditarily, are in the image classes -/
theorem parseUnary_img : ∀ (fuel : Nat) (t : List Char) (e : Expr) (r : List Char),
    parseUnary fuel t = .ok (e, r) → ImgU e := by
  intro fuel
  induction fuel with
  | zero =>
    intro t e r h
    simp only [parseUnary] at h
    split at h
    · cases h
    · rename_i hcond
      have hun : scanUnaryOp t = none := by
        cases hu : scanUnaryOp t with
        | none => rfl
        | some x => simp [hu] at hcond
      exact parseAtom_img t e r hun h
  | succ fuel ih =>
    intro t e r h
    simp only [parseUnary] at h
    split at h
    · split at h
      · cases h
      · rename_i e' nt hb
        split at h
        · cases h
        · simp only [Except.ok.injEq, Prod.mk.injEq] at h
          obtain ⟨rfl, rfl⟩ := h
          have := binaryWith_img ih _ _ _ _ hb
          exact ⟨rfl, this.1, this.2⟩
    · split at h
      · split at h
        · cases h
        · rename_i e' nt hu
          simp only [Except.ok.injEq, Prod.mk.injEq] at h
          obtain ⟨rfl, rfl⟩ := h
          have := ih _ _ _ hu
          exact ⟨rfl, this.1, this.2⟩
      · split at h
        · rename_i name argText hfn
          split at h
          · cases h
          · rename_i args r' ha
            simp only [Except.ok.injEq, Prod.mk.injEq] at h
            obtain ⟨rfl, rfl⟩ := h
            have hargs := argsLoop_img (fun t e r h => binaryWith_img ih fuel t e r h) _ _ _ _ _ ha trivial
            obtain ⟨ws, ws2, _, _, _, hid, _⟩ := scanFuncOpen_spec hfn
            exact ⟨rfl, fnOk_ident hid, hargs⟩
        · exact parseAtom_img t e r (by assumption) h

/-- **parse_in_image**: every tree `parse_expression` (the model) returns, on any text whatsoever, is in `InImage`:
precedence-respecting at every binary node, unary operands are chain operands, every number is a non-negative finite
decimal, every call name an identifier, every variable name an identifier or a possible bracketed name, every name
`Name.ofString`-canonical. -/
theorem parse_in_image (s : String) (e : Expr) (h : parseExpr s = .ok e) : InImage e := by
  obtain ⟨rest, hb, _⟩ := (parseExpr_ok_iff s e).mp h
  exact binaryWith_img (parseUnary_img _) _ _ _ _ hb

/-! ### `Printable` versus `InImage` -/

mutual
/-- every variable name of the tree satisfies `Q` -/
def AllVars (Q : Name → Prop) : Expr → Prop
  | .number _ => True
  | .string _ => True
  | .variable n => Q n
  | .function _ args => AllVarsArgs Q args
  | .binary _ l r => AllVars Q l ∧ AllVars Q r
  | .unary _ e => AllVars Q e
  | .group e => AllVars Q e
def AllVarsArgs (Q : Name → Prop) : List Expr → Prop
  | [] => True
  | a :: rest => AllVars Q a ∧ AllVarsArgs Q rest
end

/-- the name does not end in a backslash -/
def NoBackslashEnd (n : Name) : Prop := n.render.toList.getLast? ≠ some '\\'

theorem printableArgs_iff {V : Name → Prop} :
    ∀ args : List Expr, (∀ a ∈ args, (Printable a ↔ WFPrec a ∧ PInner V a)) →
      (printableArgs args = true ↔ PInnerArgs V args)
  | [], _ => by simp [printableArgs, PInnerArgs]
  | a :: rest, h => by
    simp only [printableArgs, Bool.and_eq_true, PInnerArgs]
    rw [printableArgs_iff rest (fun b hb => h b (List.mem_cons_of_mem _ hb))]
    have := h a (List.mem_cons_self ..)
    simp only [Printable] at this
    rw [this]

theorem precOk_iff (op : BinOp) (l r : Expr) :
    (precOkL op l = true ∧ precOkR op r = true) ↔
      ((∀ q, rootOp l = some q → prec op ≤ prec q) ∧ (∀ q, rootOp r = some q → prec op < prec q)) := by
  constructor
  · rintro ⟨h1, h2⟩
    constructor
    · intro q hq; cases l <;> simp_all [rootOp, precOkL]
    · intro q hq; cases r <;> simp_all [rootOp, precOkR]
  · rintro ⟨h1, h2⟩
    constructor
    · cases l <;> simp_all [rootOp, precOkL]
    · cases r <;> simp_all [rootOp, precOkR]

theorem isOperandB_iff (e : Expr) : isOperandB e = true ↔ IsOperand e := by
  cases e <;> simp [isOperandB, IsOperand, rootOp]

/-- `Printable` unfolded: precedence at the binary skeleton + the hereditary leaf conditions with `varOk` -/
theorem printable_iff : ∀ e : Expr, Printable e ↔ WFPrec e ∧ PInner (fun n => varOk n = true) e
  | .number q => by simp [Printable, printable, WFPrec, PInner]
  | .string s => by simp [Printable, printable, WFPrec, PInner]
  | .variable n => by simp [Printable, printable, WFPrec, PInner]
  | .function n args => by
    have := printableArgs_iff (V := fun n => varOk n = true) args (fun a _ => printable_iff a)
    simp only [Printable, printable, Bool.and_eq_true, WFPrec, PInner, true_and]
    rw [this]
  | .binary op l r => by
    have hl := printable_iff l
    have hr := printable_iff r
    simp only [Printable] at hl hr
    simp only [Printable, printable, Bool.and_eq_true, WFPrec, PInner, hl, hr, and_assoc]
    have hp := precOk_iff op l r
    constructor
    · rintro ⟨h1, h2, h3, h4, h5, h6⟩
      obtain ⟨h7, h8⟩ := hp.mp ⟨h5, h6⟩
      exact ⟨h1, h3, h7, h8, h2, h4⟩
    · rintro ⟨h1, h3, h7, h8, h2, h4⟩
      obtain ⟨h5, h6⟩ := hp.mpr ⟨h7, h8⟩
      exact ⟨h1, h2, h3, h4, h5, h6⟩
  | .unary op e => by
    have he := printable_iff e
    simp only [Printable] at he
    simp only [Printable, printable, Bool.and_eq_true, WFPrec, PInner, true_and, isOperandB_iff, he]
    constructor
    · rintro ⟨h1, _, h3⟩; exact ⟨h1, h3⟩
    · rintro ⟨h1, h3⟩; exact ⟨h1, WF_operand h1, h3⟩
  | .group e => by
    have he := printable_iff e
    simp only [Printable] at he
    simp only [Printable, printable, WFPrec, PInner, true_and, he]

theorem varOk_of_img {n : Name} (h : varImg n = true) (hb : NoBackslashEnd n) : varOk n = true := by
  simp only [varImg, varOk, Bool.and_eq_true, Bool.or_eq_true] at h ⊢
  refine ⟨h.1, ?_⟩
  rcases h.2 with h2 | h2
  · exact Or.inl h2
  · right
    unfold NoBackslashEnd at hb
    generalize n.render.toList = cs at h2 hb
    match cs, h2, hb with
    | [c], _, hb => simpa [bracketOk] using hb
    | c :: x :: xs, h2, hb =>
      simp only [bracketImg] at h2
      simp only [bracketOk, Bool.and_eq_true, h2, true_and, bne_iff_ne, ne_eq]
      simpa [List.getLast?_cons_cons] using hb

theorem varImg_of_ok {n : Name} (h : varOk n = true) : varImg n = true := by
  simp only [varImg, varOk, Bool.and_eq_true, Bool.or_eq_true] at h ⊢
  refine ⟨h.1, ?_⟩
  rcases h.2 with h2 | h2
  · exact Or.inl h2
  · right
    generalize n.render.toList = cs at h2
    match cs, h2 with
    | [c], _ => rfl
    | c :: x :: xs, h2 =>
      simp only [bracketOk, Bool.and_eq_true] at h2
      simpa [bracketImg] using h2.1

mutual
theorem PInner_mono {V W : Name → Prop} (Q : Name → Prop) (hvw : ∀ n, V n → Q n → W n) :
    ∀ e : Expr, PInner V e → AllVars Q e → PInner W e
  | .number _, h, _ => h
  | .string _, _, _ => trivial
  | .variable n, h, hq => hvw n h hq
  | .function n args, h, hq => by
    simp only [PInner, AllVars] at h hq ⊢
    exact ⟨h.1, PInnerArgs_mono Q hvw args h.2 hq⟩
  | .binary _ l r, h, hq => by
    simp only [PInner, AllVars] at h hq ⊢
    exact ⟨PInner_mono Q hvw l h.1 hq.1, PInner_mono Q hvw r h.2 hq.2⟩
  | .unary _ e, h, hq => by
    simp only [PInner, AllVars] at h hq ⊢
    exact ⟨h.1, PInner_mono Q hvw e h.2 hq⟩
  | .group e, h, hq => by
    simp only [PInner, AllVars] at h hq ⊢
    exact ⟨h.1, PInner_mono Q hvw e h.2 hq⟩
theorem PInnerArgs_mono {V W : Name → Prop} (Q : Name → Prop) (hvw : ∀ n, V n → Q n → W n) :
    ∀ args : List Expr, PInnerArgs V args → AllVarsArgs Q args → PInnerArgs W args
  | [], _, _ => trivial
  | a :: rest, h, hq => by
    simp only [PInnerArgs, AllVarsArgs] at h hq ⊢
    exact ⟨⟨h.1.1, PInner_mono Q hvw a h.1.2 hq.1⟩, PInnerArgs_mono Q hvw rest h.2 hq.2⟩
end

mutual
theorem allVars_true : ∀ e : Expr, AllVars (fun _ => True) e
  | .number _ | .string _ | .variable _ => trivial
  | .function _ args => by simp only [AllVars]; exact allVarsArgs_true args
  | .binary _ l r => by simp only [AllVars]; exact ⟨allVars_true l, allVars_true r⟩
  | .unary _ e => by simp only [AllVars]; exact allVars_true e
  | .group e => by simp only [AllVars]; exact allVars_true e
theorem allVarsArgs_true : ∀ args : List Expr, AllVarsArgs (fun _ => True) args
  | [] => trivial
  | a :: rest => by simp only [AllVarsArgs]; exact ⟨allVars_true a, allVarsArgs_true rest⟩
end

/-- the printable class lies inside `InImage` … -/
theorem image_of_printable (e : Expr) (h : Printable e) : InImage e := by
  obtain ⟨hw, hi⟩ := (printable_iff e).mp h
  exact ⟨hw, PInner_mono (fun _ => True) (fun _ hv _ => varImg_of_ok hv) e hi (allVars_true e)⟩

/-- … and differs from it only by the variable names that end in a backslash -/
theorem printable_of_image (e : Expr) (h : InImage e) (hb : AllVars NoBackslashEnd e) : Printable e :=
  (printable_iff e).mpr ⟨h.1, PInner_mono NoBackslashEnd (fun _ hv hq => varOk_of_img hv hq) e h.2 hb⟩

/-- **printable_of_parse_partial**: every tree the parser returns on any text is `Printable`, *provided no variable name in
it ends in a backslash*.

The full statement `parseExpr s = .ok e → Printable e` is FALSE, not merely unproved: `parseExpr "[a\\]" = .ok (variable
"a\")`, but that name cannot be written in a context-independent way (`bracketOk`, see `BareModel/Print.lean`: in front of
a later `]` the text `[a\\]` is read differently), so it is excluded from `Printable`.  Everything else is exact:
`parse_in_image` (no side condition) + `printable_of_image` + `image_of_printable` + `parse_print` give
`Printable ⊆ image of parseExpr ⊆ InImage`, and `InImage \ Printable` = trees with a backslash-ended variable name. -/
theorem printable_of_parse_partial (s : String) (e : Expr) (h : parseExpr s = .ok e) (hb : AllVars NoBackslashEnd e) :
    Printable e :=
  printable_of_image e (parse_in_image s e h) hb

/-- **print_parse_fixpoint**: parsing any text and printing the result gives a text that parses to the same tree
(`printExpr ∘ parseExpr` normalises the text without changing its meaning), whenever no variable name ends in a backslash. -/
theorem parse_print_parse (s : String) (e : Expr) (h : parseExpr s = .ok e) (hb : AllVars NoBackslashEnd e) :
    parseExpr (printExpr e) = .ok e :=
  parse_print e (printable_of_parse_partial s e h hb)


/-! ### non-vacuity of the image theorems -/

/-- a text with everything the printer never writes: double quotes, an exponent, a `+` sign, blanks inside brackets and
between a call name and its parenthesis, a bracketed spelling of an identifier -/
private def messy : Expr :=
  .binary .sub (.binary .mul (.function (.user "ff") [.number 1500, .string "it's", vv "x y] "]) (.unary .neg (.number 5))) (vv "abc")

private theorem messy_parses : parseExpr " ff ( 1.5e+3 ,\"it's\", [  x y\\] ] )* -+5-[abc]" = .ok messy := by kernel_rfl

example : InImage messy := parse_in_image _ _ messy_parses
example : Printable messy :=
  printable_of_parse_partial _ _ messy_parses (by simp only [messy, vv, AllVars, AllVarsArgs, NoBackslashEnd]; decide +kernel)
example : printExpr messy = "ff(1500, 'it\\'s', [x y\\] ]) * -5 - abc" := by kernel_rfl
example : parseExpr (printExpr messy) = .ok messy :=
  parse_print_parse _ _ messy_parses (by simp only [messy, vv, AllVars, AllVarsArgs, NoBackslashEnd]; decide +kernel)
/-- the side condition of `printable_of_parse_partial` cannot be dropped: this tree is returned by the parser, is in
`InImage`, and is not `Printable` -/
example : parseExpr "[a\\]" = .ok (vv "a\\") ∧ InImage (vv "a\\") ∧ ¬ Printable (vv "a\\") :=
  ⟨by kernel_rfl, parse_in_image "[a\\]" _ (by kernel_rfl), by decide +kernel⟩

end C02
