import BareProofs.C14BridgeLemmas
import BareProofs.C14BridgeEquiv

/-!
# C14Bridge — the text the machine prints: `HostImpl.valueJson?` / `valueString?` against the C14 and C13 models

`HostImpl.valueJson? w fuel path v` (heap references, a path of cells being encoded for the circular-reference check, `String`
output) and `HostImpl.valueString? w v` — used by the `+` string concatenation, by `systemLog`, … — are a separate
implementation from `Json.lean` (C14) and `NumText.lean` (C13).  With `C11Bridge.reify` (heap value ↦ closed value) and
`toJson` (closed value ↦ JSON value, as `value_json` sees it):

* `valueJson_bridge`      for **every** reifiable value, `valueJson? w fuel [] v = some (String.ofList (Json.specEncode (toJson p) 0))`
                          for every `fuel > heap.length` (no class restriction: see `numJ` for non-integral numbers)
* `JClass`                decidable class "all numbers integral, object keys pairwise different"; on it `toJson p` is `Json.WF` and
                          the text is also `Json.mirrorEncode (toJson p) 0`, the two-stage mirror of the real `value_json`
                          (`valueJson_mirror`)
* `strOf`, `valueString_bridge`   `value_string`: strings bare, numbers through the number text (= `NumText.valueStringNum (.int n)`
                          of C13 for integral ones: `strOf_integral`), containers through JSON
* cycles                  `valueJson_none_of_cycle`, `valueString_none_of_cycle`: a container that reaches itself prints as `none`
                          (and does not reify: `C11Bridge.reify_none_of_reaches_self`)
* machine corollaries     `machine_add_str`, `machine_str_add`, `machine_systemLog`, `machine_text_cycle`; `machine_json_roundtrip`,
                          `machine_json_injective`, `machine_same_text_iff_equal`, `machine_equal_same_text`,
                          `machine_keys_sorted`, `machine_integral_no_fraction`
* `BareProofs/C14BridgeEquiv.lean`   `Json.Equiv` on `toJson` values against `Compare.valueCompare = 0` (`equiv_of_cmp_zero`,
                          `enc_eq_of_cmp_zero`, `cmp_zero_of_equiv` on `Plain` values)
* `BareProofs/C14BridgeHostLib.lean` the same for `HostLib.hostLib`, and `Lib.valueString`

What the two text implementations do, kind by kind (checked with `#eval` and against `/repo/src/bare_script/value.py`):
null/booleans/strings (bare at top level, `ensure_ascii` escapes inside JSON)/functions (`<function>`, inside JSON the string
`"<function>"`)/regexes (`<regex>`, inside JSON `null`)/containers (compact, keys sorted by code point, circular → failure)
agree with Python.  Integral numbers agree (`str(int)`).  **Outside the class:** a non-integral rational is printed by HostImpl
as its decimal expansion cut after 40 fraction digits (`1/3` ↦ 40 threes, `1/10^7` ↦ `0.0000001`, `1/10^45` ↦ `0.` and 40 zeros),
Python prints `repr(float)` (`0.3333333333333333`, `1e-07`); they coincide only on terminating decimals that `repr` writes
positionally.  An integral *float* ≥ 1e16 is `1e+16` in Python; the rational model cannot tell it from the `int` and prints
the digits.  `-0.0` does not exist in `Rat`.  Datetimes print as the placeholder `<dt N>` (ISO text: C16).
-/

namespace C14Bridge
open Machine HostImpl C11Bridge

/-! ## the bridge for `valueJson?` -/

/-- **Bridge.**  For every value that denotes a closed value `p`, the JSON text of the machine host is the compact spec
encoding of `toJson p`; any fuel above the heap size suffices and the circular-reference check never fires. -/
theorem valueJson_bridge (w : World) (v : Value) (p : Compare.PValue) (h : reify w v = some p) (fuel : Nat)
    (hf : w.heap.length < fuel) : valueJson? w fuel [] v = some (String.ofList (Json.specEncode (toJson p) 0)) :=
  valueJson_bridgeF w _ v p h fuel [] 0 hf (fun r hr => by simp at hr)

/-! ## the class on which the text is the real `value_json` -/

mutual
/-- every number in the value is integral -/
def IntNums : Compare.PValue → Bool
  | .num q => q.den == 1
  | .arr xs => IntNumsList xs
  | .obj kvs => IntNumsItems kvs
  | _ => true
def IntNumsList : List Compare.PValue → Bool
  | [] => true
  | x :: xs => IntNums x && IntNumsList xs
def IntNumsItems : List (String × Compare.PValue) → Bool
  | [] => true
  | (_, v) :: rest => IntNums v && IntNumsItems rest
end

/-- all numbers integral, object keys pairwise different (decidable) -/
def JClass (p : Compare.PValue) : Bool := IntNums p && Compare.WFValue p

theorem toJsonItems_keys (kvs : List (String × Compare.PValue)) : (toJsonItems kvs).map Prod.fst = (kvs.map (·.1)).map String.toList := by
  rw [toJsonItems_eq, List.map_map, List.map_map]; rfl

mutual
theorem wf_toJson : ∀ p : Compare.PValue, IntNums p = true → Compare.WFValue p = true → Json.WF (toJson p)
  | .null, _, _ => by simp [toJson, Json.WF]
  | .bool _, _, _ => by simp [toJson, Json.WF]
  | .num q, hi, _ => by
    have : q.den = 1 := by simpa [IntNums] using hi
    simp [toJson, numJ, this, Json.WF]
  | .str _, _, _ => by simp [toJson, Json.WF]
  | .dt _, _, _ => by simp [toJson, Json.WF]
  | .fn _, _, _ => by simp [toJson, Json.WF]
  | .regex _, _, _ => by simp [toJson, Json.WF]
  | .arr xs, hi, hw => by
    simp only [toJson, Json.WF]
    exact wf_toJsonList xs (by simpa [IntNums] using hi) (by simpa [Compare.WFValue] using hw)
  | .obj kvs, hi, hw => by
    simp only [Compare.WFValue, Bool.and_eq_true, decide_eq_true_eq] at hw
    simp only [toJson, Json.WF]
    refine ⟨?_, wf_toJsonItems kvs (by simpa [IntNums] using hi) hw.2⟩
    rw [toJsonItems_keys]
    exact List.Pairwise.map String.toList (fun a b hab h => hab (String.toList_inj.mp h)) hw.1
theorem wf_toJsonList : ∀ xs : List Compare.PValue, IntNumsList xs = true → Compare.WFList xs = true → Json.WFList (toJsonList xs)
  | [], _, _ => by simp [toJsonList, Json.WFList]
  | x :: xs, hi, hw => by
    simp only [IntNumsList, Compare.WFList, Bool.and_eq_true] at hi hw
    simp only [toJsonList, Json.WFList]
    exact ⟨wf_toJson x hi.1 hw.1, wf_toJsonList xs hi.2 hw.2⟩
theorem wf_toJsonItems : ∀ kvs : List (String × Compare.PValue), IntNumsItems kvs = true → Compare.WFItems kvs = true →
    Json.WFMembers (toJsonItems kvs)
  | [], _, _ => by simp [toJsonItems, Json.WFMembers]
  | (k, v) :: rest, hi, hw => by
    simp only [IntNumsItems, Compare.WFItems, Bool.and_eq_true] at hi hw
    simp only [toJsonItems, Json.WFMembers]
    exact ⟨wf_toJson v hi.1 hw.1, wf_toJsonItems rest hi.2 hw.2⟩
end

theorem wf_of_class (p : Compare.PValue) (h : JClass p = true) : Json.WF (toJson p) := by
  simp only [JClass, Bool.and_eq_true] at h
  exact wf_toJson p h.1 h.2

/-- on the class, the machine's JSON text is the two-stage mirror of the real `value_json` (`json.dumps` + clean-up regex) -/
theorem valueJson_mirror (w : World) (v : Value) (p : Compare.PValue) (h : reify w v = some p) (hc : JClass p = true)
    (fuel : Nat) (hf : w.heap.length < fuel) :
    valueJson? w fuel [] v = some (String.ofList (Json.mirrorEncode (toJson p) 0)) := by
  rw [C14.cleanup_eq_spec _ (wf_of_class p hc)]
  exact valueJson_bridge w v p h fuel hf

/-! ## `value_string` -/

/-- `value_string` of a closed value: strings bare, numbers through the number text, containers through (compact) JSON,
`<function>` / `<regex>`, datetimes as HostImpl's placeholder -/
def strOf : Compare.PValue → String
  | .null => "null"
  | .bool b => if b then "true" else "false"
  | .num q => ratText q
  | .str s => s
  | .dt t => dtText t
  | .fn _ => "<function>"
  | .regex _ => "<regex>"
  | p => String.ofList (Json.specEncode (toJson p) 0)

/-- **Bridge for `value_string`** (the text `+` concatenates and `systemLog` logs) -/
theorem valueString_bridge (w : World) (v : Value) (p : Compare.PValue) (h : reify w v = some p) :
    valueString? w v = some (strOf p) := by
  cases v with
  | arr r =>
    obtain ⟨xs, pxs, _, _, rfl⟩ := (reify_arr w r p).mp h
    exact valueJson_bridge w _ _ h _ (by omega)
  | obj r =>
    obtain ⟨xs, pxs, _, _, rfl⟩ := (reify_obj w r p).mp h
    exact valueJson_bridge w _ _ h _ (by omega)
  | bool b => simp only [reify, reifyF, Option.some.injEq] at h; subst h; rfl
  | _ => simp only [reify, reifyF, Option.some.injEq] at h; subst h; rfl

theorem valueString_total (w : World) (v : Value) (p : Compare.PValue) (h : reify w v = some p) :
    valueString w v = strOf p := by simp [valueString, valueString_bridge w v p h]

/-- the number text of an integral number is `str(n)` of the C13 model: an optional `-` and ASCII digits, no point, no
exponent (`C13.int_prints_digits_only`), and it reads back as the number (`C13.int_text_roundtrip`) -/
theorem strOf_integral (q : Rat) (h : q.den = 1) :
    strOf (.num q) = NumText.valueStringNum (.int q.num) ∧ (strOf (.num q)).toList = Json.intText q.num ∧
    '.' ∉ (strOf (.num q)).toList ∧ NumText.decVal (strOf (.num q)) = some (q.num : Rat) := by
  have e : strOf (.num q) = NumText.valueStringNum (.int q.num) := by
    simp only [strOf, ratText_integral q h, toString_int_eq_intStr, NumText.valueStringNum]
  refine ⟨e, ?_, ?_, ?_⟩
  · simp only [strOf, ratText_integral q h, toString_int_toList]
  · rw [e]; obtain ⟨_, _, _, _, hd⟩ := C13.int_prints_digits_only q.num; exact hd
  · rw [e]; exact C13.int_text_roundtrip q.num

/-- on containers `value_string` is `value_json`; on the class it is the real two-stage text -/
theorem strOf_container (p : Compare.PValue) (hc : (∃ xs, p = .arr xs) ∨ (∃ kvs, p = .obj kvs)) :
    strOf p = String.ofList (Json.specEncode (toJson p) 0) ∧
    (JClass p = true → strOf p = String.ofList (Json.mirrorEncode (toJson p) 0)) := by
  have e : strOf p = String.ofList (Json.specEncode (toJson p) 0) := by
    rcases hc with ⟨xs, rfl⟩ | ⟨kvs, rfl⟩ <;> rfl
  exact ⟨e, fun h => by rw [e, C14.cleanup_eq_spec _ (wf_of_class p h)]⟩

/-! ## cycles: `none` on both sides -/

theorem mapOpt_none_of_mem {α β : Type} (f : α → Option β) : ∀ (xs : List α) (x : α), x ∈ xs → f x = none → mapOpt f xs = none
  | [], _, h, _ => by simp at h
  | y :: ys, x, h, hx => by
    simp only [mapOpt]
    rcases List.mem_cons.mp h with rfl | h
    · rw [hx]
    · rw [mapOpt_none_of_mem f ys x h hx]; cases f y <;> rfl

theorem insertSorted_mem (kv : String × Value) : ∀ (l : List (String × Value)) (z : String × Value),
    z ∈ insertSorted kv l ↔ z = kv ∨ z ∈ l
  | [], z => by simp [insertSorted]
  | x :: xs, z => by
    unfold insertSorted
    split
    · simp
    · simp only [List.mem_cons, insertSorted_mem kv xs z]
      constructor
      · rintro (h | h | h) <;> simp [h]
      · rintro (h | h | h) <;> simp [h]

theorem sortKeys_mem (kvs : List (String × Value)) (z : String × Value) : z ∈ sortKeys kvs ↔ z ∈ kvs := by
  have : ∀ (l acc : List (String × Value)), z ∈ l.foldl (fun acc kv => insertSorted kv acc) acc ↔ z ∈ l ∨ z ∈ acc := by
    intro l
    induction l with
    | nil => simp
    | cons x xs ih =>
      intro acc
      simp only [List.foldl_cons, ih, insertSorted_mem, List.mem_cons]
      constructor
      · rintro (h | h | h) <;> simp [h]
      · rintro ((h | h) | h) <;> simp [h]
  simpa [sortKeys] using this kvs []

/-- a value from which a self-reaching container is reached has a container cell and an element of the same kind -/
theorem cyc_step (w : World) (v : Value) (h : ∃ c, ReachesEq w v c ∧ Reaches w c c) :
    ∃ x, Child w v x ∧ ∃ c, ReachesEq w x c ∧ Reaches w c c := by
  obtain ⟨c, hvc, hcc⟩ := h
  have inv : ∀ {a b : Value}, Reaches w a b → ∃ x, Child w a x ∧ ReachesEq w x b := by
    intro a b hab
    cases hab with
    | step hc => exact ⟨_, hc, Or.inl rfl⟩
    | trans hc hr => exact ⟨_, hc, Or.inr hr⟩
  rcases hvc with rfl | hvc
  · obtain ⟨x, hc, hx⟩ := inv hcc
    exact ⟨x, hc, c, hx, hcc⟩
  · obtain ⟨x, hc, hx⟩ := inv hvc
    exact ⟨x, hc, c, hx, hcc⟩

/-- **a cycle gives `none`**: whatever the fuel and the path, a value that is or reaches a self-containing container has no
JSON text (Python: `ValueError: Circular reference detected`) … -/
theorem valueJson_none_of_cycle (w : World) : ∀ (fuel : Nat) (path : List Nat) (v : Value),
    (∃ c, ReachesEq w v c ∧ Reaches w c c) → valueJson? w fuel path v = none
  | 0, _, _, _ => rfl
  | f+1, path, v, h => by
    obtain ⟨x, hc, hx⟩ := cyc_step w v h
    have ih := valueJson_none_of_cycle w f
    cases hc with
    | @arr r xs x hxs hmem =>
      simp only [valueJson?, hxs, Option.getD_some, mapM_eq_mapOpt]
      split
      · rfl
      · rw [mapOpt_none_of_mem _ xs x hmem (ih _ x hx)]; rfl
    | @obj r kvs kv hxs hmem =>
      simp only [valueJson?, hxs, Option.getD_some, mapM_eq_mapOpt]
      split
      · rfl
      · rw [mapOpt_none_of_mem _ (sortKeys kvs) kv ((sortKeys_mem kvs kv).mpr hmem) (by simp [ih _ kv.2 hx])]; rfl

/-- … hence no `value_string`, and it does not denote a closed value either: `none` on both sides -/
theorem valueString_none_of_cycle (w : World) (v : Value) (h : ∃ c, ReachesEq w v c ∧ Reaches w c c) :
    valueString? w v = none ∧ reify w v = none := by
  refine ⟨?_, (reify_none_iff w v).mpr (Or.inr h)⟩
  obtain ⟨x, hc, _⟩ := cyc_step w v h
  cases hc with
  | arr _ _ => exact valueJson_none_of_cycle w _ _ _ h
  | obj _ _ => exact valueJson_none_of_cycle w _ _ _ h

/-- contrapositive of the bridge: a value without text does not denote a closed value -/
theorem not_reifiable_of_valueString_none (w : World) (v : Value) (h : valueString? w v = none) : reify w v = none := by
  cases hp : reify w v with
  | none => rfl
  | some p => rw [valueString_bridge w v p hp] at h; cases h

/-! ## what the machine concatenates and logs -/

/-- `"s" + v` -/
theorem machine_add_str (w : World) (s : String) (v : Value) (p : Compare.PValue) (h : reify w v = some p) :
    HostImpl.host.binop .add (.str s) v w = .str (s ++ strOf p) := by
  have hs := valueString_bridge w v p h
  cases v <;> simp only [HostImpl.host, HostImpl.binop, hs]
  · simp only [reify, reifyF, Option.some.injEq] at h; subst h; rfl

/-- `v + "s"` -/
theorem machine_str_add (w : World) (s : String) (v : Value) (p : Compare.PValue) (h : reify w v = some p) :
    HostImpl.host.binop .add v (.str s) w = .str (strOf p ++ s) := by
  have hs := valueString_bridge w v p h
  cases v <;> simp only [HostImpl.host, HostImpl.binop, hs]
  · simp only [reify, reifyF, Option.some.injEq] at h; subst h; rfl

/-- `systemLog(v)` appends `value_string(v)` to the log and returns null -/
theorem machine_systemLog (w : World) (v : Value) (p : Compare.PValue) (h : reify w v = some p) :
    HostImpl.host.lib "systemLog" [v] w = .ret (.ok .null) { w with log := w.log ++ [strOf p] } := by
  have h1 : HostImpl.host.lib "systemLog" [v] w =
      (match valueString? w v with | some s => ok .null { w with log := w.log ++ [s] } | none => fail .null w) := rfl
  rw [h1, valueString_bridge w v p h]; rfl

/-- on a self-containing container: `+` yields null and `systemLog` fails (the swallowed `ValueError`), world unchanged -/
theorem machine_text_cycle (w : World) (s : String) (v : Value) (h : ∃ c, ReachesEq w v c ∧ Reaches w c c) :
    HostImpl.host.binop .add (.str s) v w = .null ∧ HostImpl.host.lib "systemLog" [v] w = .ret (.fail .null) w := by
  have hn := (valueString_none_of_cycle w v h).1
  have h1 : HostImpl.host.lib "systemLog" [v] w =
      (match valueString? w v with | some s => ok .null { w with log := w.log ++ [s] } | none => fail .null w) := rfl
  refine ⟨?_, by rw [h1, hn]; rfl⟩
  obtain ⟨x, hc, _⟩ := cyc_step w v h
  cases hc <;> simp only [HostImpl.host, HostImpl.binop, hn]

/-! ## the C14 theorems on what the machine concatenates and logs -/

def IsContainer : Compare.PValue → Bool
  | .arr _ => true
  | .obj _ => true
  | _ => false

theorem isContainer_iff (p : Compare.PValue) : IsContainer p = true ↔ (∃ xs, p = .arr xs) ∨ (∃ kvs, p = .obj kvs) := by
  cases p <;> simp [IsContainer]

/-- **Round trip.**  The text the machine concatenates (`"s" + v`) and logs (`systemLog(v)`) for a container of the class is
the real two-stage `value_json` text of its closed value, and the C14 decoder reads it back as the canonical form of that
value (same shape, strings and keys identical, numbers equal, members sorted). -/
theorem machine_json_roundtrip (w : World) (s : String) (v : Value) (p : Compare.PValue) (h : reify w v = some p)
    (hcont : IsContainer p = true) (hc : JClass p = true) :
    ∃ t : String,
      HostImpl.host.binop .add (.str s) v w = .str (s ++ t) ∧
      HostImpl.host.lib "systemLog" [v] w = .ret (.ok .null) { w with log := w.log ++ [t] } ∧
      t.toList = Json.mirrorEncode (toJson p) 0 ∧
      ∃ j, Json.decode t.toList = some j ∧ Json.Equiv j (toJson p) ∧ j = Json.norm (toJson p) := by
  have hm := (strOf_container p ((isContainer_iff p).mp hcont)).2 hc
  refine ⟨strOf p, machine_add_str w s v p h, machine_systemLog w v p h, by rw [hm, String.toList_ofList], ?_⟩
  rw [hm, String.toList_ofList]
  exact C14.json_roundtrip (toJson p) (wf_of_class p hc) 0

/-- the JSON text determines the value: same text ⇒ `Json.Equiv`; on plain values ⇒ equal under the C11 comparison -/
theorem strOf_injective (p₁ p₂ : Compare.PValue) (hk₁ : IsContainer p₁ = true) (hk₂ : IsContainer p₂ = true)
    (hc₁ : JClass p₁ = true) (hc₂ : JClass p₂ = true) (heq : strOf p₁ = strOf p₂) :
    Json.Equiv (toJson p₁) (toJson p₂) ∧ (Plain p₁ = true → Plain p₂ = true → Compare.valueCompare p₁ p₂ = 0) := by
  have h1 := (strOf_container p₁ ((isContainer_iff p₁).mp hk₁)).2 hc₁
  have h2 := (strOf_container p₂ ((isContainer_iff p₂).mp hk₂)).2 hc₂
  rw [h1, h2] at heq
  have heq' : Json.mirrorEncode (toJson p₁) 0 = Json.mirrorEncode (toJson p₂) 0 := by
    have := congrArg String.toList heq
    simpa [String.toList_ofList] using this
  have he := C14.json_injective _ _ (wf_of_class p₁ hc₁) (wf_of_class p₂ hc₂) 0 0 heq'
  exact ⟨he, fun hp₁ hp₂ => cmp_zero_of_equiv p₁ p₂ hp₁ hp₂ he⟩

theorem str_append_cancel (s t₁ t₂ : String) (h : s ++ t₁ = s ++ t₂) : t₁ = t₂ := by
  have := congrArg String.toList h
  simp only [String.toList_append] at this
  exact String.toList_inj.mp (List.append_cancel_left this)

/-- **Injective up to value equality.**  If the machine builds the same text from two containers of the class (in whatever
worlds), their JSON values are `Json.Equiv`; if they are plain (no function / regex / datetime inside) they are equal under
the one value order of C11. -/
theorem machine_json_injective (w₁ w₂ : World) (s : String) (v₁ v₂ : Value) (p₁ p₂ : Compare.PValue)
    (h₁ : reify w₁ v₁ = some p₁) (h₂ : reify w₂ v₂ = some p₂) (hk₁ : IsContainer p₁ = true) (hk₂ : IsContainer p₂ = true)
    (hc₁ : JClass p₁ = true) (hc₂ : JClass p₂ = true)
    (heq : HostImpl.host.binop .add (.str s) v₁ w₁ = HostImpl.host.binop .add (.str s) v₂ w₂) :
    Json.Equiv (toJson p₁) (toJson p₂) ∧ (Plain p₁ = true → Plain p₂ = true → Compare.valueCompare p₁ p₂ = 0) := by
  rw [machine_add_str w₁ s v₁ p₁ h₁, machine_add_str w₂ s v₂ p₂ h₂] at heq
  exact strOf_injective p₁ p₂ hk₁ hk₂ hc₁ hc₂ (str_append_cancel s _ _ (Value.str.inj heq))

/-- … in one world, with the machine's own `==`: two plain containers of the class print the same text **iff** the machine
finds them equal.  (`→` needs the class; `←` holds for all reifiable values: `machine_equal_same_text`.) -/
theorem machine_same_text_iff_equal (w : World) (s : String) (v₁ v₂ : Value) (p₁ p₂ : Compare.PValue)
    (h₁ : reify w v₁ = some p₁) (h₂ : reify w v₂ = some p₂) (hk₁ : IsContainer p₁ = true) (hk₂ : IsContainer p₂ = true)
    (hc₁ : JClass p₁ = true) (hc₂ : JClass p₂ = true) (hp₁ : Plain p₁ = true) (hp₂ : Plain p₂ = true) :
    HostImpl.host.binop .add (.str s) v₁ w = HostImpl.host.binop .add (.str s) v₂ w ↔
      HostImpl.host.binop .eq v₁ v₂ w = .bool true := by
  have hb := (machine_relops_sign w v₁ v₂ p₁ p₂ h₁ h₂).1
  constructor
  · intro heq
    have := (machine_json_injective w w s v₁ v₂ p₁ p₂ h₁ h₂ hk₁ hk₂ hc₁ hc₂ heq).2 hp₁ hp₂
    show HostImpl.binop .eq v₁ v₂ w = _
    rw [hb, this]; rfl
  · intro he
    have he' : HostImpl.binop .eq v₁ v₂ w = .bool true := he
    rw [hb] at he'
    have h0 : Compare.valueCompare p₁ p₂ = 0 := by simpa using he'
    rw [machine_add_str w s v₁ p₁ h₁, machine_add_str w s v₂ p₂ h₂]
    have e1 := (strOf_container p₁ ((isContainer_iff p₁).mp hk₁)).1
    have e2 := (strOf_container p₂ ((isContainer_iff p₂).mp hk₂)).1
    rw [e1, e2]
    simp only [Json.specEncode]
    rw [show Json.encWith Json.numSpec 0 0 (toJson p₁) = enc 0 p₁ from rfl, enc_eq_of_cmp_zero p₁ p₂ h0 0]

/-- values the machine finds `==` are printed identically (all reifiable values, no class): aliases, copies with another key
order, any two functions … -/
theorem machine_equal_same_text (w : World) (v₁ v₂ : Value) (p₁ p₂ : Compare.PValue) (h₁ : reify w v₁ = some p₁)
    (h₂ : reify w v₂ = some p₂) (he : compare? w v₁ v₂ = some 0) :
    valueJson? w (w.heap.length + 2) [] v₁ = valueJson? w (w.heap.length + 2) [] v₂ := by
  rw [compare_bridge w v₁ v₂ p₁ p₂ h₁ h₂] at he
  have h0 := Option.some.inj he
  rw [valueJson_bridge w v₁ p₁ h₁ _ (by omega), valueJson_bridge w v₂ p₂ h₂ _ (by omega)]
  simp only [Json.specEncode]
  rw [show Json.encWith Json.numSpec 0 0 (toJson p₁) = enc 0 p₁ from rfl, enc_eq_of_cmp_zero p₁ p₂ h0 0]

/-- **Sorted keys.**  In the text the machine builds for a container of the class, the members of every object appear in
ascending key order and no key occurs twice (the decoder keeps text order). -/
theorem machine_keys_sorted (w : World) (s : String) (v : Value) (p : Compare.PValue) (h : reify w v = some p)
    (hcont : IsContainer p = true) (hc : JClass p = true) :
    ∃ t : String, HostImpl.host.binop .add (.str s) v w = .str (s ++ t) ∧
      HostImpl.host.lib "systemLog" [v] w = .ret (.ok .null) { w with log := w.log ++ [t] } ∧
      ∃ j, Json.decode t.toList = some j ∧ Json.KeysSorted j ∧ Json.WF j := by
  have hm := (strOf_container p ((isContainer_iff p).mp hcont)).2 hc
  refine ⟨strOf p, machine_add_str w s v p h, machine_systemLog w v p h, ?_⟩
  rw [hm, String.toList_ofList]
  exact C14.keys_sorted (toJson p) (wf_of_class p hc) 0

mutual
theorem allNums_toJson : ∀ p : Compare.PValue, IntNums p = true → C14.AllNums C14.IsIntegral (toJson p)
  | .null, _ => by simp [toJson, C14.AllNums]
  | .bool _, _ => by simp [toJson, C14.AllNums]
  | .num q, hi => by
    have : q.den = 1 := by simpa [IntNums] using hi
    simp [toJson, numJ, this, C14.AllNums, C14.IsIntegral]
  | .str _, _ => by simp [toJson, C14.AllNums]
  | .dt _, _ => by simp [toJson, C14.AllNums]
  | .fn _, _ => by simp [toJson, C14.AllNums]
  | .regex _, _ => by simp [toJson, C14.AllNums]
  | .arr xs, hi => by
    simp only [toJson, C14.AllNums]; exact allNums_toJsonList xs (by simpa [IntNums] using hi)
  | .obj kvs, hi => by
    simp only [toJson, C14.AllNums]; exact allNums_toJsonItems kvs (by simpa [IntNums] using hi)
theorem allNums_toJsonList : ∀ xs : List Compare.PValue, IntNumsList xs = true → C14.AllNumsList C14.IsIntegral (toJsonList xs)
  | [], _ => by simp [toJsonList, C14.AllNumsList]
  | x :: xs, hi => by
    simp only [IntNumsList, Bool.and_eq_true] at hi
    simp only [toJsonList, C14.AllNumsList]
    exact ⟨allNums_toJson x hi.1, allNums_toJsonList xs hi.2⟩
theorem allNums_toJsonItems : ∀ kvs : List (String × Compare.PValue), IntNumsItems kvs = true →
    C14.AllNumsMembers C14.IsIntegral (toJsonItems kvs)
  | [], _ => by simp [toJsonItems, C14.AllNumsMembers]
  | (k, v) :: rest, hi => by
    simp only [IntNumsItems, Bool.and_eq_true] at hi
    simp only [toJsonItems, C14.AllNumsMembers]
    exact ⟨allNums_toJson v hi.1, allNums_toJsonItems rest hi.2⟩
end

/-- **Integral numbers print without a fraction.**  (1) `"s" + n` and `systemLog(n)` for an integral number `n` give `str(n)` of
the C13 model: an optional `-` and digits, no `.`, and the text reads back as `n`.  (2) In the text of a container of the class
every number token is read back by the C14 decoder as an integer (a token that consists of an optional `-` and digits only:
`C14.integral_no_fraction`). -/
theorem machine_integral_no_fraction (w : World) (s : String) :
    (∀ q : Rat, q.den = 1 →
      HostImpl.host.binop .add (.str s) (.num q) w = .str (s ++ NumText.valueStringNum (.int q.num)) ∧
      HostImpl.host.lib "systemLog" [.num q] w = .ret (.ok .null) { w with log := w.log ++ [NumText.valueStringNum (.int q.num)] } ∧
      '.' ∉ (NumText.valueStringNum (.int q.num)).toList ∧
      NumText.decVal (NumText.valueStringNum (.int q.num)) = some (q.num : Rat)) ∧
    (∀ (v : Value) (p : Compare.PValue), reify w v = some p → IsContainer p = true → JClass p = true →
      ∃ t : String, HostImpl.host.binop .add (.str s) v w = .str (s ++ t) ∧
        ∃ j, Json.decode t.toList = some j ∧ C14.AllNums C14.IsInt j) := by
  constructor
  · intro q hq
    obtain ⟨e, _, hd, hv⟩ := strOf_integral q hq
    have h1 := machine_add_str w s (.num q) (.num q) rfl
    have h2 := machine_systemLog w (.num q) (.num q) rfl
    rw [e] at h1 h2 hd hv
    exact ⟨h1, h2, hd, hv⟩
  · intro v p h hcont hc
    have hm := (strOf_container p ((isContainer_iff p).mp hcont)).2 hc
    refine ⟨strOf p, machine_add_str w s v p h, ?_⟩
    rw [hm, String.toList_ofList]
    have hi : IntNums p = true := by
      simp only [JClass, Bool.and_eq_true] at hc; exact hc.1
    exact C14.integral_no_fraction.2.1 (toJson p) (wf_of_class p hc) (allNums_toJson p hi) 0

/-! ## non-vacuity: the worlds of `C11Bridge` (nested array-of-objects heap, aliases, a self-containing cell) -/

theorem exP_class : JClass exP0 = true ∧ JClass exP1 = true ∧ JClass (.arr [exP0, exP0, exP1]) = true ∧
    Plain exP0 = true ∧ Plain exP1 = true ∧ IsContainer exP0 = true ∧ IsContainer exP1 = true := by decide +kernel

theorem exP_text : strOf exP0 = "[{\"a\":\"x\",\"b\":1},2]" ∧ strOf exP1 = "[{\"a\":\"x\",\"b\":1},2]" ∧
    strOf (.arr [exP0, exP0, exP1]) = "[[{\"a\":\"x\",\"b\":1},2],[{\"a\":\"x\",\"b\":1},2],[{\"a\":\"x\",\"b\":1},2]]" := by
  decide +kernel

/-- the nested heap: cell 2 (`[{b:1, a:"x"}, 2]`, keys inserted as b, a) prints with sorted keys; its copy with the other
insertion order prints identically; cell 4 = `[a, a, copy]` prints the aliased cell twice … -/
example : valueString? exW (.arr 2) = some "[{\"a\":\"x\",\"b\":1},2]" ∧
    valueString? exW (.arr 3) = some "[{\"a\":\"x\",\"b\":1},2]" ∧
    valueJson? exW 8 [] (.arr 4) = some "[[{\"a\":\"x\",\"b\":1},2],[{\"a\":\"x\",\"b\":1},2],[{\"a\":\"x\",\"b\":1},2]]" := by
  refine ⟨?_, ?_, ?_⟩
  · rw [valueString_bridge exW _ _ exW_reify.1, exP_text.1]
  · rw [valueString_bridge exW _ _ exW_reify.2.1, exP_text.2.1]
  · have := valueJson_bridge exW _ _ exW_reify.2.2.1 8 (by decide)
    rw [this]; exact congrArg some exP_text.2.2

/-- … `+` and `systemLog` … -/
example : HostImpl.host.binop .add (.str "v=") (.arr 2) exW = .str "v=[{\"a\":\"x\",\"b\":1},2]" ∧
    HostImpl.host.binop .add (.arr 2) (.str "!") exW = .str "[{\"a\":\"x\",\"b\":1},2]!" ∧
    HostImpl.host.lib "systemLog" [.arr 2] exW = .ret (.ok .null) { exW with log := ["[{\"a\":\"x\",\"b\":1},2]"] } := by
  refine ⟨?_, ?_, ?_⟩
  · rw [machine_add_str exW _ _ _ exW_reify.1, exP_text.1]; rfl
  · rw [machine_str_add exW _ _ _ exW_reify.1, exP_text.1]; rfl
  · rw [machine_systemLog exW _ _ exW_reify.1, exP_text.1]; rfl

/-- … the text round-trips, the copy prints the same text as the original exactly because the machine finds them `==` … -/
example : (∃ j, Json.decode "[{\"a\":\"x\",\"b\":1},2]".toList = some j ∧ Json.Equiv j (toJson exP0)) ∧
    (HostImpl.host.binop .add (.str "") (.arr 2) exW = HostImpl.host.binop .add (.str "") (.arr 3) exW ↔
      HostImpl.host.binop .eq (.arr 2) (.arr 3) exW = .bool true) := by
  constructor
  · obtain ⟨t, h1, _, _, j, hj, he, _⟩ := machine_json_roundtrip exW "" (.arr 2) exP0 exW_reify.1 exP_class.2.2.2.2.2.1 exP_class.1
    rw [machine_add_str exW _ _ _ exW_reify.1, exP_text.1] at h1
    have : t = "[{\"a\":\"x\",\"b\":1},2]" := (str_append_cancel "" _ _ (Value.str.inj h1)).symm
    subst this
    exact ⟨j, hj, he⟩
  · exact machine_same_text_iff_equal exW "" _ _ _ _ exW_reify.1 exW_reify.2.1 exP_class.2.2.2.2.2.1 exP_class.2.2.2.2.2.2
      exP_class.1 exP_class.2.1 exP_class.2.2.2.1 exP_class.2.2.2.2.1

/-- … and the self-containing cell 5 (and cell 4' = anything that reaches it) has no text on either side -/
example : valueString? exW (.arr 5) = none ∧ reify exW (.arr 5) = none ∧ valueJson? exW 100 [] (.arr 5) = none ∧
    HostImpl.host.binop .add (.str "v=") (.arr 5) exW = .null ∧
    HostImpl.host.lib "systemLog" [.arr 5] exW = .ret (.fail .null) exW := by
  have hc : ∃ c, ReachesEq exW (.arr 5) c ∧ Reaches exW c c :=
    ⟨.arr 5, Or.inl rfl, .step (.arr (xs := [.arr 5]) rfl (by simp))⟩
  exact ⟨(valueString_none_of_cycle exW _ hc).1, (valueString_none_of_cycle exW _ hc).2, valueJson_none_of_cycle exW _ _ _ hc,
    (machine_text_cycle exW "v=" _ hc).1, (machine_text_cycle exW "v=" _ hc).2⟩

/-- scalars and the other kinds: strings bare at top level and escaped inside containers; functions, regexes, datetimes -/
example : valueString? {} (.str "a\"b\n") = some "a\"b\n" ∧ valueJson? {} 1 [] (.str "a\"b\né😀") = some "\"a\\\"b\\n\\u00e9\\ud83d\\ude00\"" ∧
    strOf (.num (-12)) = "-12" ∧ strOf (.arr [.fn 1, .regex 2, .dt 5, .num (5/2)]) = "[\"<function>\",null,\"<dt 5>\",2.5]" := by
  refine ⟨rfl, ?_, by decide +kernel, by decide +kernel⟩
  rw [valueJson_bridge {} _ _ rfl 1 (by decide)]
  decide +kernel

end C14Bridge
