import BareModel.HostLib
import BareModel.MachineSpec
import BareProofs.C15
import BareProofs.C08
import BareProofs.C04
import BareProofs.C01EraseLemmas
import Std.Data.String.ToNat

/-!
# HostLibBridge — the theorems of C15 for library calls issued by scripts through the Machine

`BareModel/HostLib.lean` makes the verified library model `Lib` the library of the jump machine (`hostLib`).  This file proves
that the construction is exact and transports C15 to machine level.

* `decFn_encFn`, `encFn_decFn`, `ofLib_toLib`, `toLib_ofLib`   `Machine.Value ≃ Lib.Value` (function values are coded by a
  bijection `FnVal ≃ Nat`), `cellToLib_cellOfLib`, `ofImpl_toImpl`, `toImpl_ofImpl`: cells and worlds likewise — so no heap
  well-formedness side condition appears anywhere below
* `lib_modelled`, `lib_call_is_lib`, `lib_call_is_step`, `callValue_lib`   a modelled library call of the machine **is**
  `Lib.lib` / one `Lib.step`: result value and heap, nothing else moves, independent of the call-back runner and of `debug`
* `machine_lib_frame`, `machine_lib_fresh`, `machine_lib_fail_unchanged`   C15's frame / freshness / failure theorems for
  `Machine.callValue … (fn (lib name))`, now also covering globals, log, partials and the statement counter
* `machine_lib_unmodelled`, `machine_lib_heap`   what the fallback does for calls `Lib` does not model
* `machine_history_refines`, `machine_history_refines_execute`   any straight-line script of library-call statements
  `v_k = f(args…)` run by `execM₀` (resp. `Machine.execute`, the mirror with the label cache) refines `Lib.runHistory`
  (resp. the fold of the reference operations `Lib.Spec.specLib`); `rel_initState`: every `Lib` state has a machine
  representative; `namesOK_vName`, `namesOK_gen`: the variable namings `v<k>` / `__bareScriptValues<k>` satisfy the hypotheses
* `hostLib_truthyBool`, `hostLib_noGlobalSet_except_system`, `hostLib_other_noGlobalSet`   the host laws C01 / C04 assume

**Side conditions** (all decidable): `Modelled name args heap` / `AllModelled cs s` — `Lib` answers `ok` or `fail`, not
`unmodelled` (see the module comment of `Lib.lean` for what is unmodelled); `ArgOK` — an argument of a history call is a
variable or a `null`/boolean/number/string literal (other values have no literal syntax); `NamesOK` — the variable names are
distinct, are not `null`/`true`/`false`, do not collide with the called function names, and no called function is named `if`;
fuel ≥ number of statements + 1 and statement budget 0 (= unlimited) or ≥ number of statements.
-/

namespace HostLib
open Machine

/-! ## `encFn`/`decFn` is a bijection, `toLib`/`ofLib` an isomorphism -/

theorem toNat_ofNat_valid (n : Nat) (h : n.isValidChar) : (Char.ofNat n).toNat = n := by
  simp [Char.ofNat, h, Char.ofNatAux, Char.toNat]

theorem charIdx_lt (c : Char) : charIdx c < nScalars := by
  have := c.valid
  simp only [UInt32.isValidChar, Nat.isValidChar] at this
  unfold charIdx nScalars
  have : c.val.toNat = c.toNat := rfl
  split <;> omega

theorem idxChar_charIdx (c : Char) : idxChar (charIdx c) = c := by
  have hv := c.valid
  simp only [UInt32.isValidChar, Nat.isValidChar] at hv
  have : c.val.toNat = c.toNat := rfl
  unfold idxChar charIdx
  have : (if (if c.toNat < 0xD800 then c.toNat else c.toNat - 0x800) < 0xD800 then (if c.toNat < 0xD800 then c.toNat else c.toNat - 0x800)
      else (if c.toNat < 0xD800 then c.toNat else c.toNat - 0x800) + 0x800) = c.toNat := by
    repeat' split
    all_goals omega
  rw [this, Char.ofNat_toNat]

theorem charIdx_idxChar (d : Nat) (h : d < nScalars) : charIdx (idxChar d) = d := by
  unfold nScalars at h
  unfold idxChar charIdx
  have hv : (if d < 0xD800 then d else d + 0x800).isValidChar := by
    simp only [Nat.isValidChar]; split <;> omega
  rw [toNat_ofNat_valid _ hv]
  repeat' split
  all_goals omega

theorem nScalars_pos : 0 < nScalars := by decide

theorem decChars_encChars (cs : List Char) : ∀ f, encChars cs ≤ f → decChars f (encChars cs) = cs := by
  induction cs with
  | nil => intro f _; cases f <;> simp [encChars, decChars]
  | cons c cs ih =>
    intro f hf
    have hc := charIdx_lt c
    cases f with
    | zero => simp [encChars] at hf
    | succ f =>
      simp only [encChars] at hf ⊢
      have h1 : charIdx c + 1 + nScalars * encChars cs - 1 = charIdx c + nScalars * encChars cs := by omega
      have hm : (charIdx c + nScalars * encChars cs) % nScalars = charIdx c := by
        rw [Nat.add_mul_mod_self_left]; exact Nat.mod_eq_of_lt hc
      have hd : (charIdx c + nScalars * encChars cs) / nScalars = encChars cs := by
        rw [Nat.add_mul_div_left _ _ nScalars_pos, Nat.div_eq_of_lt hc]; omega
      have hle : encChars cs ≤ f := by
        have : encChars cs ≤ nScalars * encChars cs := Nat.le_mul_of_pos_left _ nScalars_pos
        omega
      simp only [decChars, h1, hm, hd, idxChar_charIdx, ih f hle]
      simp

theorem encChars_decChars : ∀ f n, n ≤ f → encChars (decChars f n) = n := by
  intro f
  induction f with
  | zero =>
    intro n hn
    have : n = 0 := by omega
    subst this; simp [decChars, encChars]
  | succ f ih =>
    intro n hn
    unfold decChars
    split
    · subst_vars; simp [encChars]
    · rename_i hne
      have hlt : (n - 1) % nScalars < nScalars := Nat.mod_lt _ nScalars_pos
      have hdiv : (n - 1) / nScalars ≤ f := by
        have : (n - 1) / nScalars ≤ n - 1 := Nat.div_le_self _ _
        omega
      simp only [encChars, charIdx_idxChar _ hlt, ih _ hdiv]
      have := Nat.mod_add_div (n - 1) nScalars
      omega

theorem decStr_encStr (s : String) : decStr (encStr s) = s := by
  unfold decStr encStr
  rw [decChars_encChars _ _ (Nat.le_refl _), String.ofList_toList]

theorem encStr_decStr (n : Nat) : encStr (decStr n) = n := by
  unfold decStr encStr
  rw [String.toList_ofList, encChars_decChars _ _ (Nat.le_refl _)]

/-- `decFn ∘ encFn = id` -/
theorem decFn_encFn (f : FnVal) : decFn (encFn f) = f := by
  cases f with
  | script i =>
    have h1 : 3 * i % 3 = 0 := Nat.mul_mod_right 3 i
    have h2 : 3 * i / 3 = i := Nat.mul_div_cancel_left i (by decide)
    simp [encFn, decFn, h1, h2]
  | other k =>
    have h1 : (3 * k + 1) % 3 = 1 := by omega
    have h2 : (3 * k + 1) / 3 = k := by omega
    simp [encFn, decFn, h1, h2]
  | lib name =>
    have h1 : (3 * encStr name + 2) % 3 = 2 := by omega
    have h2 : (3 * encStr name + 2) / 3 = encStr name := by omega
    simp [encFn, decFn, h1, h2, decStr_encStr]

/-- `encFn ∘ decFn = id`: every natural number is the code of exactly one function value -/
theorem encFn_decFn (n : Nat) : encFn (decFn n) = n := by
  unfold decFn
  split
  · simp only [encFn]; omega
  · split
    · simp only [encFn]; omega
    · simp only [encFn, encStr_decStr]; omega

/-- **The two `Value` types are isomorphic**: `ofLib ∘ toLib = id` … -/
theorem ofLib_toLib (v : Value) : ofLib (toLib v) = v := by
  cases v <;> simp [toLib, ofLib, decFn_encFn]

/-- … and `toLib ∘ ofLib = id` (no side condition: `encFn` is onto). -/
theorem toLib_ofLib (v : Lib.Value) : toLib (ofLib v) = v := by
  cases v <;> simp [toLib, ofLib, encFn_decFn]

theorem toLib_injective {a b : Value} (h : toLib a = toLib b) : a = b := by
  rw [← ofLib_toLib a, ← ofLib_toLib b, h]

theorem map_ofLib_toLib (vs : List Value) : (vs.map toLib).map ofLib = vs := by
  induction vs with
  | nil => rfl
  | cons v vs ih => simp only [List.map_cons, ofLib_toLib, ih]

theorem map_toLib_ofLib (vs : List Lib.Value) : (vs.map ofLib).map toLib = vs := by
  induction vs with
  | nil => rfl
  | cons v vs ih => simp only [List.map_cons, toLib_ofLib, ih]

/-- cells: the HostImpl view of a cell determines it -/
theorem cellToLib_cellOfLib (c : Lib.Cell) : cellToLib (cellOfLib c) = c := by
  cases c with
  | arr xs => simp only [cellToLib, cellOfLib, map_toLib_ofLib]
  | obj kvs =>
    simp only [cellToLib, cellOfLib, List.map_map]
    congr 1
    induction kvs with
    | nil => rfl
    | cons kv kvs ih => simp only [List.map_cons, Function.comp, toLib_ofLib, ih]

theorem cellOfLib_cellToLib (c : HostImpl.Cell) : cellOfLib (cellToLib c) = c := by
  cases c with
  | arr xs => simp only [cellToLib, cellOfLib, map_ofLib_toLib]
  | obj kvs =>
    simp only [cellToLib, cellOfLib, List.map_map]
    congr 1
    induction kvs with
    | nil => rfl
    | cons kv kvs ih => simp only [List.map_cons, Function.comp, ofLib_toLib, ih]

/-- worlds: `LWorld ≃ HostImpl.World` -/
theorem ofImpl_toImpl (w : LWorld) : LWorld.ofImpl w.toImpl = w := by
  cases w with
  | mk heap log partials =>
    simp only [LWorld.ofImpl, LWorld.toImpl, List.map_map]
    congr 1
    induction heap with
    | nil => rfl
    | cons c cs ih => simp only [List.map_cons, Function.comp, cellToLib_cellOfLib, ih]

theorem toImpl_ofImpl (w : HostImpl.World) : (LWorld.ofImpl w).toImpl = w := by
  cases w with
  | mk heap log partials =>
    simp only [LWorld.ofImpl, LWorld.toImpl, List.map_map]
    congr 1
    induction heap with
    | nil => rfl
    | cons c cs ih => simp only [List.map_cons, Function.comp, cellOfLib_cellToLib, ih]

/-! ## one library call of the machine is one `Lib.step` -/

/-- `Lib` models this call (decidable: `Lib.Res` has decidable equality) -/
def Modelled (name : String) (args : List Lib.Value) (h : Lib.Heap) : Prop := (Lib.lib name args h).1 ≠ .unmodelled

instance (name : String) (args : List Lib.Value) (h : Lib.Heap) : Decidable (Modelled name args h) :=
  inferInstanceAs (Decidable (_ ≠ _))

/-- the `Lib` state a machine state with script variables `env` (as `Lib` values) corresponds to -/
def libSt (env : List Lib.Value) (st : State LWorld) : Lib.St := ⟨env, st.world.heap⟩

/-- the machine state after a library call that left `Lib` state `s'`: only the heap component of the world moves -/
def withHeap (st : State LWorld) (h : Lib.Heap) : State LWorld := { st with world := { st.world with heap := h } }

theorem withHeap_self (st : State LWorld) : withHeap st st.world.heap = st := by
  cases st with
  | mk g w c => cases w; rfl

/-- the tree of a modelled call is a single `ret` node: the `Lib` outcome, values converted back -/
theorem lib_modelled (name : String) (args : List Value) (w : LWorld) (hm : Modelled name (args.map toLib) w.heap) :
    hostLib.lib name args w =
      .ret (match (Lib.lib name (args.map toLib) w.heap).1 with
            | .ok v => .ok (ofLib v) | .fail v => .fail (ofLib v) | .unmodelled => .fail .null)
        { w with heap := (Lib.lib name (args.map toLib) w.heap).2 } := by
  show lib name args w = _
  unfold lib
  unfold Modelled at hm
  generalize Lib.lib name (args.map toLib) w.heap = r at hm ⊢
  obtain ⟨r1, h⟩ := r
  cases r1 with
  | ok v => rfl
  | fail v => rfl
  | unmodelled => exact absurd rfl hm

/-- **lib_call_is_step (value form).** For every name, argument list and machine state such that `Lib` models the call:
running the interaction tree of `hostLib` yields exactly the `Lib` outcome — result value (`Res.val`, converted back) and heap —
and nothing else of the state moves (globals, log, partials, statement counter); it does not depend on the call-back runner
`call` (no call-back is ever issued) nor on `cfg.debug`. -/
theorem lib_call_is_lib (cfg : Config LWorld) (hh : cfg.host = hostLib) (call : CallFn LWorld) (name : String)
    (args : List Value) (st : State LWorld) (hm : Modelled name (args.map toLib) st.world.heap) :
    runTree cfg call (hostLib.lib name args st.world) st =
      .ok (ofLib (Lib.lib name (args.map toLib) st.world.heap).1.val)
        (withHeap st (Lib.lib name (args.map toLib) st.world.heap).2) := by
  rw [lib_modelled name args st.world hm]
  unfold Modelled at hm
  generalize Lib.lib name (args.map toLib) st.world.heap = r at hm ⊢
  obtain ⟨r1, h⟩ := r
  cases r1 with
  | ok v => simp [runTree, withHeap, Lib.Res.val]
  | fail v => simp [runTree, withHeap, Lib.Res.val, hh, hostLib]
  | unmodelled => exact absurd rfl hm

/-- **lib_call_is_step.** The same, phrased with `Lib.step`: if the machine state carries the heap of the `Lib` state `s` and
the arguments the machine evaluated are (as `Lib` values) the arguments `c.args` evaluate to in `s.env`, then the library call
`c.fn(args…)` made by the machine returns the value `Lib.step` binds to the new variable and leaves exactly the heap of
`Lib.step Lib.lib s c`; independent of `call`. -/
theorem lib_call_is_step (cfg : Config LWorld) (hh : cfg.host = hostLib) (call : CallFn LWorld) (s : Lib.St) (c : Lib.Call)
    (args : List Value) (st : State LWorld) (hheap : st.world.heap = s.heap)
    (hargs : args.map toLib = c.args.map (Lib.evalArg s.env))
    (hm : Modelled c.fn (c.args.map (Lib.evalArg s.env)) s.heap) :
    ∃ v, (Lib.step Lib.lib s c).env = s.env ++ [v] ∧
      runTree cfg call (hostLib.lib c.fn args st.world) st = .ok (ofLib v) (withHeap st (Lib.step Lib.lib s c).heap) := by
  refine ⟨(Lib.lib c.fn (c.args.map (Lib.evalArg s.env)) s.heap).1.val, rfl, ?_⟩
  rw [← hargs, ← hheap] at hm
  rw [lib_call_is_lib cfg hh call c.fn args st hm, hargs, hheap]
  rfl

/-- the same for the call as the machine issues it: `callValue` on the function value `fn (lib name)` (any positive fuel) -/
theorem callValue_lib (cfg : Config LWorld) (hh : cfg.host = hostLib) (fuel : Nat) (name : String)
    (args : List Value) (st : State LWorld) (hm : Modelled name (args.map toLib) st.world.heap) :
    callValue cfg (fuel+1) (.fn (.lib name)) args st =
      .ok (ofLib (Lib.lib name (args.map toLib) st.world.heap).1.val)
        (withHeap st (Lib.lib name (args.map toLib) st.world.heap).2) := by
  rw [callValue, hh]
  exact lib_call_is_lib cfg hh _ name args st hm

theorem callValue₀_lib (cfg : Config LWorld) (hh : cfg.host = hostLib) (fuel : Nat) (name : String)
    (args : List Value) (st : State LWorld) (hm : Modelled name (args.map toLib) st.world.heap) :
    callValue₀ cfg (fuel+1) (.fn (.lib name)) args st =
      .ok (ofLib (Lib.lib name (args.map toLib) st.world.heap).1.val)
        (withHeap st (Lib.lib name (args.map toLib) st.world.heap).2) := by
  rw [← C08.callValue_eq]
  exact callValue_lib cfg hh fuel name args st hm

/-! ## C15 at machine level: frame, freshness, failure -/

theorem head_toLib_arr {args : List Value} {r : Nat} (h : (args.map toLib).head? = some (.arr r)) :
    args.head? = some (.arr r) := by
  cases args with
  | nil => simp at h
  | cons a as =>
    simp only [List.map_cons, List.head?_cons, Option.some.injEq] at h ⊢
    cases a <;> simp_all [toLib]

theorem head_toLib_obj {args : List Value} {r : Nat} (h : (args.map toLib).head? = some (.obj r)) :
    args.head? = some (.obj r) := by
  cases args with
  | nil => simp at h
  | cons a as =>
    simp only [List.map_cons, List.head?_cons, Option.some.injEq] at h ⊢
    cases a <;> simp_all [toLib]

/-- **machine_lib_frame.** A (modelled) library call made by the machine changes no existing heap cell except — for the nine
mutators — the cell of the container passed as first argument; and it changes nothing else of the machine state: globals, log,
partial applications and statement counter are those before the call. -/
theorem machine_lib_frame (cfg : Config LWorld) (hh : cfg.host = hostLib) (fuel : Nat) (name : String)
    (args : List Value) (st : State LWorld) (hm : Modelled name (args.map toLib) st.world.heap)
    (r : Nat) (hr : r < st.world.heap.length)
    (hnot : ¬ (name ∈ C15.mutators ∧ (args.head? = some (.arr r) ∨ args.head? = some (.obj r)))) :
    ∃ v st', callValue cfg (fuel+1) (.fn (.lib name)) args st = .ok v st' ∧
      st'.world.heap[r]? = st.world.heap[r]? ∧ st.world.heap.length ≤ st'.world.heap.length ∧
      st'.globals = st.globals ∧ st'.world.log = st.world.log ∧ st'.world.partials = st.world.partials ∧
      st'.count = st.count := by
  refine ⟨_, _, callValue_lib cfg hh fuel name args st hm, ?_, ?_, rfl, rfl, rfl, rfl⟩
  · show (Lib.lib name (args.map toLib) st.world.heap).2[r]? = _
    apply C15.lib_frame name _ _ r hr
    rintro ⟨hmut, h | h⟩
    · exact hnot ⟨hmut, Or.inl (head_toLib_arr h)⟩
    · exact hnot ⟨hmut, Or.inr (head_toLib_obj h)⟩
  · exact (C15.lib_length name _ _).1

/-- the kind of a fresh reference -/
theorem ofLib_refOf (c : Lib.Cell) (n : Nat) : ofLib (Lib.refOf c n) = .arr n ∨ ofLib (Lib.refOf c n) = .obj n := by
  cases c <;> simp [Lib.refOf, ofLib]

/-- **machine_lib_fresh.** A successful call of one of the eight allocators (`arrayCopy`, `arrayNew`, `arrayNewSize`,
`arraySlice`, `objectCopy`, `objectKeys`, `objectNew`, `stringSplit`) made by the machine evaluates to a reference that is not
allocated before the call (`heap.length`), and the state after the call is the old state with exactly that one cell appended:
no existing cell, no global, no log line changes, so the result shares no cell with any argument. -/
theorem machine_lib_fresh (cfg : Config LWorld) (hh : cfg.host = hostLib) (fuel : Nat) (name : String)
    (hf : name ∈ C15.allocators) (args : List Value) (st : State LWorld) (lv : Lib.Value)
    (hok : (Lib.lib name (args.map toLib) st.world.heap).1 = .ok lv) :
    ∃ c, callValue cfg (fuel+1) (.fn (.lib name)) args st =
        .ok (ofLib (Lib.refOf c st.world.heap.length)) (withHeap st (st.world.heap ++ [c])) ∧
      (ofLib (Lib.refOf c st.world.heap.length) = .arr st.world.heap.length ∨
       ofLib (Lib.refOf c st.world.heap.length) = .obj st.world.heap.length) := by
  have hm : Modelled name (args.map toLib) st.world.heap := by unfold Modelled; rw [hok]; simp
  obtain ⟨c, hh', hv, -, -⟩ := C15.lib_fresh name hf (args.map toLib) st.world.heap
    (Lib.lib name (args.map toLib) st.world.heap).2 lv (by rw [← hok])
  refine ⟨c, ?_, ofLib_refOf c _⟩
  rw [callValue_lib cfg hh fuel name args st hm, hok, hh', hv]
  rfl

/-- the documented failure value, as a machine value -/
def docFailM (f : String) (args : List Value) : Value :=
  if f == "arrayIndexOf" || f == "arrayLastIndexOf" || f == "stringIndexOf" || f == "stringLastIndexOf" then .num (Rat.ofInt (-1))
  else if f == "arrayLength" || f == "stringLength" then .num (Rat.ofInt 0)
  else if f == "objectHas" then .bool false
  else if f == "objectGet" then args[2]?.getD .null
  else .null

theorem ofLib_docFail (f : String) (args : List Value) : ofLib (Lib.Spec.docFail f (args.map toLib)) = docFailM f args := by
  unfold Lib.Spec.docFail docFailM
  split
  · rfl
  · split
    · rfl
    · split
      · rfl
      · split
        · cases h : args[2]? with
          | none => simp [h, ofLib]
          | some a => simp [h, ofLib_toLib]
        · rfl

/-- **machine_lib_fail_unchanged.** A failing library call made by the machine — wrong-typed, missing or surplus argument, index
out of range, empty array to pop/shift, empty separator, … — leaves the *whole machine state* as it was (globals, heap, log,
partials, counter; with `cfg.debug` too: `hostLib.logFailure` is the identity) and evaluates to the documented failure value:
`-1` for the four index searches, `0` for the two lengths, `false` for `objectHas`, the caller's default for `objectGet`, `null`
otherwise. -/
theorem machine_lib_fail_unchanged (cfg : Config LWorld) (hh : cfg.host = hostLib) (fuel : Nat) (name : String)
    (args : List Value) (st : State LWorld) (lv : Lib.Value)
    (hfail : (Lib.lib name (args.map toLib) st.world.heap).1 = .fail lv) :
    callValue cfg (fuel+1) (.fn (.lib name)) args st = .ok (docFailM name args) st := by
  have hm : Modelled name (args.map toLib) st.world.heap := by unfold Modelled; rw [hfail]; simp
  obtain ⟨hheap, hv⟩ := C15.lib_fail_unchanged name (args.map toLib) st.world.heap lv hfail
  rw [callValue_lib cfg hh fuel name args st hm, hheap, hfail, withHeap_self]
  simp only [Lib.Res.val, hv, ofLib_docFail]

/-! ## calls `Lib` does not model: what the fallback does to the heap -/

/-- a call `Lib` does not model, of a function outside `hostKeeps`: the wrapper's `null`, state unchanged -/
theorem machine_lib_unmodelled (cfg : Config LWorld) (hh : cfg.host = hostLib) (fuel : Nat) (name : String)
    (args : List Value) (st : State LWorld) (hu : ¬ Modelled name (args.map toLib) st.world.heap)
    (hk : hostKeeps.contains name = false) :
    callValue cfg (fuel+1) (.fn (.lib name)) args st = .ok .null st := by
  rw [callValue, hh]
  show runTree cfg _ (lib name args st.world) st = _
  unfold lib
  unfold Modelled at hu
  generalize Lib.lib name (args.map toLib) st.world.heap = r at hu
  obtain ⟨r1, h⟩ := r
  cases r1 with
  | ok v => exact absurd (by simp) hu
  | fail v => exact absurd (by simp) hu
  | unmodelled =>
    simp only [fallback, hk, Bool.false_eq_true, if_false, runTree, hh, hostLib]
    cases st; simp

/-- the tree issues no call-back -/
inductive NoCall {W : Type} : LibTree W → Prop
  | ret (o : LibOut) (w : W) : NoCall (.ret o w)
  | globalGet (n : Name) (w : W) (k : Option Value → W → LibTree W) : (∀ v w', NoCall (k v w')) → NoCall (.globalGet n w k)
  | globalSet (n : Name) (v : Value) (w : W) (k : W → LibTree W) : (∀ w', NoCall (k w')) → NoCall (.globalSet n v w k)

def Out.heap? : Out LWorld → Option Lib.Heap
  | .ok _ st => some st.world.heap
  | .err _ st => some st.world.heap
  | .oof => none

/-- a lifted HostImpl tree without call-backs ends with the `Lib` heap it was started with -/
theorem lift_keeps_heap (cfg : Config LWorld) (hh : cfg.host = hostLib) (call : CallFn LWorld)
    {t : LibTree HostImpl.World} (ht : NoCall t) : ∀ (h : Lib.Heap) (st : State LWorld),
    Out.heap? (runTree cfg call (lift t h) st) = some h := by
  induction ht with
  | ret o w =>
    intro h st
    cases o <;> simp [lift, runTree, Out.heap?, putBack, hh, hostLib]
  | globalGet n w k _ ih => intro h st; simp only [lift, runTree]; exact ih _ _ _ _
  | globalSet n v w k _ ih => intro h st; simp only [lift, runTree]; exact ih _ _ _

theorem hostImpl_noCall (name : String) (hne : name ≠ "arrayIndexOf") (args : List Value) (w : HostImpl.World) :
    NoCall (HostImpl.lib name args w) := by
  unfold HostImpl.lib
  simp -failIfUnchanged only []
  repeat' split
  all_goals first
    | exact NoCall.ret _ _
    | exact NoCall.globalGet _ _ _ (fun _ _ => NoCall.ret _ _)
    | exact NoCall.globalSet _ _ _ _ (fun _ => NoCall.ret _ _)
    | exact absurd rfl hne

/-- **the fallback never changes the heap** unless a script call-back does (`arrayIndexOf` with a predicate): for every
library call other than `arrayIndexOf`, modelled or not, the heap after the call is the `Lib` heap `(Lib.lib …).2` —
in particular `systemLog`, `systemGlobalGet/Set`, `systemPartial`, `systemCompare`, `systemType`, `systemBoolean` leave it as it
was (`Lib` answers `unmodelled` with the heap unchanged) -/
theorem machine_lib_heap (cfg : Config LWorld) (hh : cfg.host = hostLib) (fuel : Nat) (name : String)
    (hne : name ≠ "arrayIndexOf") (args : List Value) (st : State LWorld) :
    Out.heap? (callValue cfg (fuel+1) (.fn (.lib name)) args st) = some (Lib.lib name (args.map toLib) st.world.heap).2 := by
  by_cases hm : Modelled name (args.map toLib) st.world.heap
  · rw [callValue_lib cfg hh fuel name args st hm]; rfl
  · have hheap : (Lib.lib name (args.map toLib) st.world.heap).2 = st.world.heap := by
      unfold Modelled at hm
      have : (Lib.lib name (args.map toLib) st.world.heap).1 = .unmodelled := by simpa using hm
      unfold Lib.lib at this ⊢
      cases he : Lib.eff name (args.map toLib) st.world.heap <;> rw [he] at this <;> simp_all [Lib.Eff.run]
    rw [hheap]
    by_cases hk : hostKeeps.contains name = true
    · rw [callValue, hh]
      show Out.heap? (runTree cfg _ (lib name args st.world) st) = _
      unfold lib
      unfold Modelled at hm
      generalize Lib.lib name (args.map toLib) st.world.heap = r at hm
      obtain ⟨r1, h⟩ := r
      cases r1 with
      | ok v => exact absurd (by simp) hm
      | fail v => exact absurd (by simp) hm
      | unmodelled =>
        simp only [fallback, hk, if_true]
        exact lift_keeps_heap cfg hh _ (hostImpl_noCall name hne args _) _ _
    · rw [machine_lib_unmodelled cfg hh fuel name args st hm (by simpa using hk)]; rfl

/-! ## host laws other theorems assume -/

/-- the law `C01.ticked_erasure` / `parse_exec_structured` need: the host's truth value of a boolean is that boolean -/
theorem hostLib_truthyBool : C01.TruthyBool hostLib := fun _ _ => rfl

/-- transporting a HostImpl tree along the projection adds no `globalSet` request (nor removes one) -/
theorem lift_writes {S : Name → Prop} {t : LibTree HostImpl.World} (ht : C04.TreeWrites S t) :
    ∀ h, C04.TreeWrites S (lift t h) := by
  induction ht with
  | ret o w => intro h; exact C04.TreeWrites.ret _ _
  | call f args w k _ ih => intro h; exact C04.TreeWrites.call _ _ _ _ fun v w' => ih v w'.toImpl w'.heap
  | globalGet n w k _ ih => intro h; exact C04.TreeWrites.globalGet _ _ _ fun v w' => ih v w'.toImpl w'.heap
  | globalSet n v w k hn _ ih => intro h; exact C04.TreeWrites.globalSet _ _ _ _ hn fun w' => ih w'.toImpl w'.heap

/-- **hostLib_noGlobalSet_except_system.** Only `systemGlobalSet` issues `globalSet` requests: the tree of every other library
function — all of `Lib`'s, the lifted HostImpl ones, the `fail null` fallback — satisfies C04's `NoGlobalSet` (on every path,
whatever the call-backs return), so `C04.assign_local_only` / `globals_frame` apply to scripts over `hostLib` that do not call it. -/
theorem hostLib_noGlobalSet_except_system (name : String) (hne : name ≠ "systemGlobalSet") (args : List Value) (w : LWorld) :
    C04.NoGlobalSet (hostLib.lib name args w) := by
  show C04.NoGlobalSet (lib name args w)
  unfold lib
  split
  · exact C04.TreeWrites.ret _ _
  · exact C04.TreeWrites.ret _ _
  · unfold fallback
    split
    · apply lift_writes
      have := C04.hostNoSet_lib name args w.toImpl
      simp only [C04.hostNoSet, hne, if_false] at this
      exact this
    · exact C04.TreeWrites.ret _ _

/-- partial applications (`other`) issue no `globalSet` request of their own either -/
theorem hostLib_other_noGlobalSet (k : Nat) (args : List Value) (w : LWorld) : C04.NoGlobalSet (hostLib.other k args w) :=
  lift_writes (C04.hostNoSet_other k args w.toImpl) _

/-! ## histories: straight-line scripts `v_k = f(args…)` executed by the machine refine `Lib.runHistory` -/

/-- a `Lib` value that can be written as a literal expression: null, true/false, a number, a string -/
def IsLit : Lib.Value → Bool
  | .null | .bool _ | .num _ | .str _ => true
  | _ => false

def litExpr : Lib.Value → Expr
  | .bool true => .variable kwTrue
  | .bool false => .variable kwFalse
  | .num q => .number q
  | .str s => .string s
  | _ => .variable kwNull

/-- an argument of a history call as an expression: a literal, or the script variable `nm i` -/
def argExpr (nm : Nat → Name) : Lib.Arg → Expr
  | .lit v => litExpr v
  | .var i => .variable (nm i)

def ArgOK : Lib.Arg → Bool
  | .lit v => IsLit v
  | .var _ => true

/-- the statement `v_k = f(args…)` -/
def callStmt (nm : Nat → Name) (k : Nat) (c : Lib.Call) : Stmt :=
  .expr (some (nm k)) (.function (.user c.fn) (c.args.map (argExpr nm)))

/-- the straight-line script of a history whose first result is bound to variable number `n` (as `script_of` in
`harness/props/C15.py` renders it, with `nm k = v<k>`) -/
def progOf (nm : Nat → Name) : Nat → List Lib.Call → List Stmt
  | _, [] => []
  | n, c :: cs => callStmt nm n c :: progOf nm (n+1) cs

/-- the variable naming is usable for the function names `fs`: injective, no keyword, no called function, and no function is
the built-in `if` -/
structure NamesOK (nm : Nat → Name) (fs : List String) : Prop where
  inj : ∀ i j, nm i = nm j → i = j
  notKw : ∀ i, nm i ≠ kwNull ∧ nm i ≠ kwTrue ∧ nm i ≠ kwFalse
  notFn : ∀ i, ∀ f ∈ fs, nm i ≠ .user f
  notIf : ∀ f ∈ fs, Name.user f ≠ kwIf

/-- **the refinement relation** between a `Lib` history state and a machine state: same heap; script variable `nm i` holds
(the machine form of) `env[i]` — unbound beyond the environment, as both sides read an unbound variable as null —; every
function name of `fs` is bound to its library function -/
structure Rel (nm : Nat → Name) (fs : List String) (s : Lib.St) (st : State LWorld) : Prop where
  heap : st.world.heap = s.heap
  vars : ∀ i, (st.globals.get? (nm i)).getD .null = ofLib (s.env[i]?.getD .null)
  fns : ∀ f ∈ fs, st.globals.get? (.user f) = some (.fn (.lib f))

/-- every call of the history is one `Lib` models, in the state the history has reached (decidable, call by call) -/
def AllModelled : List Lib.Call → Lib.St → Prop
  | [], _ => True
  | c :: cs, s => Modelled c.fn (c.args.map (Lib.evalArg s.env)) s.heap ∧ AllModelled cs (Lib.step Lib.lib s c)

instance decAllModelled : ∀ (cs : List Lib.Call) (s : Lib.St), Decidable (AllModelled cs s)
  | [], _ => isTrue trivial
  | c :: cs, s =>
    have := decAllModelled cs (Lib.step Lib.lib s c)
    inferInstanceAs (Decidable (_ ∧ _))

theorem evalExpr_lit (cfg : Config LWorld) (call : CallFn LWorld) (v : Lib.Value) (hv : IsLit v = true) (st : State LWorld) :
    evalExpr cfg call none (litExpr v) st = .ok (ofLib v) st := by
  cases v with
  | null => simp [litExpr, evalExpr, ofLib]
  | bool b => cases b <;> simp [litExpr, evalExpr, ofLib, kwNull, kwTrue, kwFalse]
  | num q => simp [litExpr, evalExpr, ofLib]
  | str s => simp [litExpr, evalExpr, ofLib]
  | _ => simp [IsLit] at hv

theorem evalArgs_hist (cfg : Config LWorld) (call : CallFn LWorld) (nm : Nat → Name) (fs : List String)
    (hn : NamesOK nm fs) (s : Lib.St) (st : State LWorld) (hrel : Rel nm fs s st) :
    ∀ (args : List Lib.Arg), (∀ a ∈ args, ArgOK a = true) →
      evalArgs cfg call none (args.map (argExpr nm)) st = .ok (args.map fun a => ofLib (Lib.evalArg s.env a)) st := by
  intro args
  induction args with
  | nil => intro _; simp [evalArgs]
  | cons a as ih =>
    intro hok
    have ha := hok a (List.mem_cons_self ..)
    have has := ih (fun b hb => hok b (List.mem_cons_of_mem _ hb))
    have he : evalExpr cfg call none (argExpr nm a) st = .ok (ofLib (Lib.evalArg s.env a)) st := by
      cases a with
      | lit v => exact evalExpr_lit cfg call v ha st
      | var i =>
        obtain ⟨h1, h2, h3⟩ := hn.notKw i
        simp only [argExpr, evalExpr, h1, h2, h3, if_false, lookupVar, Lib.evalArg]
        rw [hrel.vars i]
    simp only [List.map_cons, evalArgs, he, has]

theorem progOf_length (nm : Nat → Name) (n : Nat) (cs : List Lib.Call) : (progOf nm n cs).length = cs.length := by
  induction cs generalizing n with
  | nil => rfl
  | cons c cs ih => simp [progOf, ih]

/-- one statement `v_k = f(args…)` of the history, executed by the machine -/
theorem evalExpr_call (cfg : Config LWorld) (hh : cfg.host = hostLib) (fuel : Nat) (nm : Nat → Name) (fs : List String)
    (hn : NamesOK nm fs) (s : Lib.St) (st : State LWorld) (hrel : Rel nm fs s st) (c : Lib.Call) (hf : c.fn ∈ fs)
    (hargs : ∀ a ∈ c.args, ArgOK a = true) (hm : Modelled c.fn (c.args.map (Lib.evalArg s.env)) s.heap) :
    evalExpr cfg (callValue₀ cfg (fuel+1)) none (.function (.user c.fn) (c.args.map (argExpr nm))) st =
      .ok (ofLib (Lib.lib c.fn (c.args.map (Lib.evalArg s.env)) s.heap).1.val)
        (withHeap st (Lib.step Lib.lib s c).heap) := by
  have hfn := hrel.fns c.fn hf
  have hcont : st.globals.contains (.user c.fn) = true := (C04.contains_true_iff _ _).mpr ⟨_, hfn⟩
  have hmap : (c.args.map fun a => ofLib (Lib.evalArg s.env a)).map toLib = c.args.map (Lib.evalArg s.env) := by
    rw [List.map_map]; apply List.map_congr_left; intro a _; exact toLib_ofLib _
  have hm' : Modelled c.fn ((c.args.map fun a => ofLib (Lib.evalArg s.env a)).map toLib) st.world.heap := by
    rw [hmap, hrel.heap]; exact hm
  rw [evalExpr]
  simp only [hn.notIf c.fn hf, if_false, evalArgs_hist cfg _ nm fs hn s st hrel c.args hargs, lookupFunc, hcont, if_true, hfn]
  rw [callValue₀_lib cfg hh fuel c.fn _ st hm', hmap, hrel.heap]
  rfl

/-- **machine_history_refines.** Let `cs` be any history of library calls (any length, any function names of `fs`, arguments
= literals or earlier variables, well-typed or not), rendered as the straight-line script `v_n = f₀(…); v_(n+1) = f₁(…); …`
(`progOf`), and let the machine state `st` represent the `Lib` state `s` (`Rel`: same heap, variables `v_i` hold `env[i]`,
function names bound to the library).  If every call along the history is one `Lib` models, then the documented jump machine
`execM₀` over `hostLib` — started anywhere in a statement list that continues with that script, at top level, with enough
fuel and statement budget — runs the whole script to its end and reaches a state that represents `Lib.runHistory Lib.lib cs s`:
all variables (hence every alias) and the whole heap.  Nothing else moves: the log and the partials are unchanged, the
statement counter advanced by one per call, and every global other than the assigned variables keeps its binding. -/
theorem machine_history_refines (cfg : Config LWorld) (hh : cfg.host = hostLib) (nm : Nat → Name) (fs : List String)
    (hn : NamesOK nm fs) (base : Option String) (extra : Nat) :
    ∀ (cs : List Lib.Call) (A : List Stmt) (s : Lib.St) (st : State LWorld),
      (∀ c ∈ cs, c.fn ∈ fs ∧ ∀ a ∈ c.args, ArgOK a = true) → AllModelled cs s → Rel nm fs s st →
      (cfg.maxStatements = 0 ∨ st.count + cs.length ≤ cfg.maxStatements) →
      ∃ st', execM₀ cfg (cs.length + 1 + extra) (A ++ progOf nm s.env.length cs) none base A.length st = .done st' ∧
        Rel nm fs (Lib.runHistory Lib.lib cs s) st' ∧
        st'.count = st.count + cs.length ∧ st'.world.log = st.world.log ∧ st'.world.partials = st.world.partials ∧
        ∀ n, (∀ k, s.env.length ≤ k → k < s.env.length + cs.length → n ≠ nm k) → st'.globals.get? n = st.globals.get? n := by
  intro cs
  induction cs with
  | nil =>
    intro A s st _ _ hrel _
    refine ⟨st, ?_, hrel, rfl, rfl, rfl, fun _ _ => rfl⟩
    rw [execM₀]
    simp [progOf]
  | cons c cs ih =>
    intro A s st hcs hmod hrel hbud
    obtain ⟨hm, hmod'⟩ := hmod
    obtain ⟨hf, hargs⟩ := hcs c (List.mem_cons_self ..)
    have hP : (A ++ progOf nm s.env.length (c :: cs))[A.length]? = some (.expr (some (nm s.env.length))
        (.function (.user c.fn) (c.args.map (argExpr nm)))) := by
      simp [progOf, callStmt]
    have hb : C08.BudgetOk cfg st := by
      simp only [C08.BudgetOk, List.length_cons] at hbud ⊢
      rcases hbud with h0 | hle
      · simp [h0]
      · have : ¬ (st.count + 1 > cfg.maxStatements) := by omega
        simp [this]
    have hfuel : (c :: cs).length + 1 + extra = (cs.length + extra + 1) + 1 := by simp only [List.length_cons]; omega
    rw [hfuel, C08.step_assign_global cfg _ _ base _ st _ _ hP hb]
    have hrelT : Rel nm fs s (C08.tick st) := ⟨hrel.heap, hrel.vars, hrel.fns⟩
    rw [evalExpr_call cfg hh (cs.length + extra) nm fs hn s (C08.tick st) hrelT c hf hargs hm]
    simp only
    -- the state after the assignment
    generalize hv : (Lib.lib c.fn (c.args.map (Lib.evalArg s.env)) s.heap).1.val = v
    have hstep : Lib.step Lib.lib s c = ⟨s.env ++ [v], (Lib.step Lib.lib s c).heap⟩ := by
      rw [← hv]; rfl
    let st1 : State LWorld :=
      { (withHeap (C08.tick st) (Lib.step Lib.lib s c).heap) with
        globals := (withHeap (C08.tick st) (Lib.step Lib.lib s c).heap).globals.set (nm s.env.length) (ofLib v) }
    have hrel1 : Rel nm fs (Lib.step Lib.lib s c) st1 := by
      refine ⟨rfl, ?_, ?_⟩
      · intro i
        show ((st.globals.set (nm s.env.length) (ofLib v)).get? (nm i)).getD .null = _
        rw [C04.get?_set, hstep]
        by_cases hi : i = s.env.length
        · subst hi; simp
        · have hne : nm i ≠ nm s.env.length := fun h => hi (hn.inj _ _ h)
          simp only [hne, if_false, hrel.vars i]
          congr 2
          by_cases hlt : i < s.env.length
          · rw [List.getElem?_append_left hlt]
          · have hgt : s.env.length < i := by omega
            rw [List.getElem?_eq_none (by omega), List.getElem?_eq_none (by simp; omega)]
      · intro f hf'
        show (st.globals.set (nm s.env.length) (ofLib v)).get? (.user f) = _
        rw [C04.get?_set_other _ _ _ _ (fun h => hn.notFn _ f hf' h.symm)]
        exact hrel.fns f hf'
    have hlen : (Lib.step Lib.lib s c).env.length = s.env.length + 1 := by rw [hstep]; simp
    have hbud1 : cfg.maxStatements = 0 ∨ st1.count + cs.length ≤ cfg.maxStatements := by
      rcases hbud with h0 | hle
      · exact Or.inl h0
      · right; show st.count + 1 + cs.length ≤ _; simp only [List.length_cons] at hle; omega
    obtain ⟨st', hrun, hrel', hcount, hlog, hpart, hglob⟩ :=
      ih (A ++ [callStmt nm s.env.length c]) (Lib.step Lib.lib s c) st1
        (fun c' hc' => hcs c' (List.mem_cons_of_mem _ hc')) hmod' hrel1 hbud1
    refine ⟨st', ?_, ?_, ?_, hlog, hpart, ?_⟩
    · have hPeq : A ++ progOf nm s.env.length (c :: cs) =
          (A ++ [callStmt nm s.env.length c]) ++ progOf nm (Lib.step Lib.lib s c).env.length cs := by
        rw [hlen]; simp [progOf]
      have hAl : (A ++ [callStmt nm s.env.length c]).length = A.length + 1 := by simp
      have hfu : cs.length + 1 + extra = cs.length + extra + 1 := by omega
      rw [hPeq, ← hAl, ← hfu]
      exact hrun
    · simpa [Lib.runHistory] using hrel'
    · rw [hcount]; show st.count + 1 + cs.length = _; simp only [List.length_cons]; omega
    · intro n hne
      rw [hglob n (fun k hk1 hk2 => hne k (by omega) (by simp only [List.length_cons]; omega))]
      show (st.globals.set (nm s.env.length) (ofLib v)).get? n = _
      exact C04.get?_set_other _ _ _ _ (hne s.env.length (Nat.le_refl _) (by simp))

/-- the same for `Machine.execute` (`execute_script`: the mirror machine with its label cache, counter reset to 0) on the
whole script, and with the **reference operations** of the documented contracts (`Lib.Spec.specLib`, through
`C15.history_refines`) on the `Lib` side: the state a script of library calls reaches is the fold of the reference operations. -/
theorem machine_history_refines_execute (cfg : Config LWorld) (hh : cfg.host = hostLib) (nm : Nat → Name) (fs : List String)
    (hn : NamesOK nm fs) (base : Option String) (extra : Nat) (cs : List Lib.Call) (s : Lib.St) (st : State LWorld)
    (hcs : ∀ c ∈ cs, c.fn ∈ fs ∧ ∀ a ∈ c.args, ArgOK a = true) (hmod : AllModelled cs s) (hrel : Rel nm fs s st)
    (hbud : cfg.maxStatements = 0 ∨ cs.length ≤ cfg.maxStatements) :
    ∃ st', execute cfg (cs.length + 1 + extra) (progOf nm s.env.length cs) base st = .done st' ∧
      Rel nm fs (Lib.runHistory Lib.Spec.specLib cs s) st' ∧
      st'.count = cs.length ∧ st'.world.log = st.world.log ∧ st'.world.partials = st.world.partials := by
  have hrel0 : Rel nm fs s { st with count := 0 } := ⟨hrel.heap, hrel.vars, hrel.fns⟩
  obtain ⟨st', hrun, hrel', hcount, hlog, hpart, -⟩ :=
    machine_history_refines cfg hh nm fs hn base extra cs [] s { st with count := 0 } hcs hmod hrel0
      (by rcases hbud with h | h
          · exact Or.inl h
          · right; show 0 + cs.length ≤ _; omega)
  refine ⟨st', ?_, ?_, ?_, hlog, hpart⟩
  · rw [C08.execute_eq]
    simpa [execute₀] using hrun
  · rw [← C15.history_refines]; exact hrel'
  · rw [hcount]; show 0 + cs.length = _; omega

/-! ### namings -/

/-- the parser-generated names `__bareScriptValues<k>` are a usable naming for any function names -/
theorem namesOK_gen (fs : List String) (hif : ∀ f ∈ fs, f ≠ "if") : NamesOK (Name.gen .values) fs where
  inj := fun _ _ h => by cases h; rfl
  notKw := fun _ => ⟨by simp [kwNull], by simp [kwTrue], by simp [kwFalse]⟩
  notFn := fun _ _ _ => by simp
  notIf := fun f hf h => hif f hf (by simpa [kwIf] using h)

/-- the naming of the harness (`script_of` in props/C15.py): `v0`, `v1`, … -/
def vName (k : Nat) : Name := .user ("v" ++ toString k)

theorem vName_head (k : Nat) : ("v" ++ toString k).toList.head? = some 'v' := by
  rw [String.toList_append]; rfl

/-- `v<k>` is a usable naming for function names that do not start with `v` (no library function does) and are not `if` -/
theorem namesOK_vName (fs : List String) (hfs : ∀ f ∈ fs, f ≠ "if" ∧ f.toList.head? ≠ some 'v') : NamesOK vName fs where
  inj := fun i j h => by
    simp only [vName, Name.user.injEq] at h
    exact Nat.repr_injective ((String.append_right_inj "v").mp h)
  notKw := fun i => by
    have h := vName_head i
    refine ⟨?_, ?_, ?_⟩ <;> intro hk <;> simp only [vName, kwNull, kwTrue, kwFalse, Name.user.injEq] at hk <;>
      rw [hk] at h <;> revert h <;> decide
  notFn := fun i f hf h => by
    simp only [vName, Name.user.injEq] at h
    exact (hfs f hf).2 (h ▸ vName_head i)
  notIf := fun f hf h => (hfs f hf).1 (by simpa [kwIf] using h)

/-! ### every `Lib` state has a machine representative -/

def bindFns (fs : List String) (g : Env) : Env := fs.foldl (fun g f => g.set (.user f) (.fn (.lib f))) g

def bindVars (nm : Nat → Name) : Env → Nat → List Lib.Value → Env
  | g, _, [] => g
  | g, n, v :: vs => bindVars nm (g.set (nm n) (ofLib v)) (n+1) vs

/-- globals = the library bindings, then `v_i = env[i]`; world = the heap, empty log -/
def initState (nm : Nat → Name) (fs : List String) (s : Lib.St) : State LWorld :=
  { globals := bindVars nm (bindFns fs []) 0 s.env, world := { heap := s.heap }, count := 0 }

theorem bindFns_get (fs : List String) (f : String) : ∀ g : Env,
    (f ∈ fs ∨ g.get? (.user f) = some (.fn (.lib f))) → (bindFns fs g).get? (.user f) = some (.fn (.lib f)) := by
  induction fs with
  | nil => intro g h; rcases h with h | h; · cases h
           exact h
  | cons x xs ih =>
    intro g h
    show (bindFns xs (g.set (.user x) (.fn (.lib x)))).get? _ = _
    apply ih
    by_cases hx : f = x
    · subst hx; exact Or.inr (C04.get?_set_same _ _ _)
    · rcases h with h | h
      · rcases List.mem_cons.mp h with h | h
        · exact absurd h hx
        · exact Or.inl h
      · right; rw [C04.get?_set_other _ _ _ _ (by simpa using hx)]; exact h

theorem bindFns_other (fs : List String) (n : Name) (hn : ∀ f ∈ fs, n ≠ .user f) : ∀ g : Env,
    (bindFns fs g).get? n = g.get? n := by
  induction fs with
  | nil => intro g; rfl
  | cons x xs ih =>
    intro g
    show (bindFns xs (g.set (.user x) (.fn (.lib x)))).get? n = _
    rw [ih (fun f hf => hn f (List.mem_cons_of_mem _ hf)), C04.get?_set_other _ _ _ _ (hn x (List.mem_cons_self ..))]

theorem bindVars_other (nm : Nat → Name) (m : Name) (hm : ∀ i, m ≠ nm i) : ∀ (vs : List Lib.Value) (g : Env) (n : Nat),
    (bindVars nm g n vs).get? m = g.get? m := by
  intro vs
  induction vs with
  | nil => intro g n; rfl
  | cons v vs ih => intro g n; rw [bindVars, ih, C04.get?_set_other _ _ _ _ (hm n)]

theorem bindVars_get (nm : Nat → Name) (hinj : ∀ i j, nm i = nm j → i = j) : ∀ (vs : List Lib.Value) (g : Env) (n i : Nat),
    (bindVars nm g n vs).get? (nm i) = if n ≤ i ∧ i < n + vs.length then some (ofLib (vs[i - n]?.getD .null)) else g.get? (nm i) := by
  intro vs
  induction vs with
  | nil => intro g n i; simp [bindVars]; omega
  | cons v vs ih =>
    intro g n i
    rw [bindVars, ih, C04.get?_set]
    by_cases hi : i = n
    · subst hi
      have h1 : ¬ (i + 1 ≤ i ∧ i < i + 1 + vs.length) := by omega
      simp [h1]
    · have hne : nm i ≠ nm n := fun h => hi (hinj _ _ h)
      simp only [hne, if_false, List.length_cons]
      by_cases h1 : n + 1 ≤ i ∧ i < n + 1 + vs.length
      · have h2 : n ≤ i ∧ i < n + (vs.length + 1) := by omega
        have h3 : i - n = (i - (n + 1)) + 1 := by omega
        simp [h1, h2, h3]
      · have h2 : ¬ (n ≤ i ∧ i < n + (vs.length + 1)) := by omega
        simp [h1, h2]

/-- non-vacuity of `Rel`: **every** `Lib` state (any pool of aliased containers, any environment) is represented by a
machine state -/
theorem rel_initState (nm : Nat → Name) (fs : List String) (hn : NamesOK nm fs) (s : Lib.St) : Rel nm fs s (initState nm fs s) := by
  refine ⟨rfl, ?_, ?_⟩
  · intro i
    show ((bindVars nm (bindFns fs []) 0 s.env).get? (nm i)).getD .null = _
    rw [bindVars_get nm hn.inj]
    by_cases hi : i < s.env.length
    · simp [hi]
    · have : ¬ (0 ≤ i ∧ i < 0 + s.env.length) := by omega
      simp only [this, if_false]
      rw [bindFns_other fs _ (fun f hf => hn.notFn i f hf), List.getElem?_eq_none (by omega)]
      rfl
  · intro f hf
    show (bindVars nm (bindFns fs []) 0 s.env).get? (.user f) = _
    rw [bindVars_other nm _ (fun i h => hn.notFn i f hf h.symm)]
    exact bindFns_get fs f [] (Or.inl hf)

/-! ### non-vacuity: the aliasing history of `C15.demo`, run by the machine -/

def demoFs : List String := ["arrayCopy", "arrayPush", "arrayGet", "arrayLength"]

theorem demo_names : NamesOK vName demoFs := namesOK_vName demoFs (by decide)

/-- the hypotheses of `machine_history_refines_execute` hold for `C15.demo` from `C15.demo0` (two aliases of `[1,2,3]`): every call
is modelled, every argument is a variable or a number literal -/
example : AllModelled C15.demo C15.demo0 := by decide
example : ∀ c ∈ C15.demo, c.fn ∈ demoFs ∧ ∀ a ∈ c.args, ArgOK a = true := by decide

/-- the script `v2 = arrayCopy(v0)`, `v3 = arrayPush(v1, 9)`, `v4 = arrayGet(v0, 3)`, `v5 = arrayLength(v2)` -/
example : progOf vName 2 C15.demo =
    [.expr (some (vName 2)) (.function (.user "arrayCopy") [.variable (vName 0)]),
     .expr (some (vName 3)) (.function (.user "arrayPush") [.variable (vName 1), .number 9]),
     .expr (some (vName 4)) (.function (.user "arrayGet") [.variable (vName 0), .number 3]),
     .expr (some (vName 5)) (.function (.user "arrayLength") [.variable (vName 2)])] := rfl

/-- … so `Machine.execute` over `hostLib` runs that script to the end and the push through one alias is seen through the
other (`v4 = 9`), the copy is cell 1 and keeps its three elements (`v5 = 3`): the final machine state represents the `Lib` state
that `C15` computes by `decide` -/
example (cfg : Config LWorld) (hh : cfg.host = hostLib) (hmax : cfg.maxStatements = 0) :
    ∃ st', execute cfg 5 (progOf vName 2 C15.demo) none (initState vName demoFs C15.demo0) = .done st' ∧
      st'.world.heap = [.arr [Lib.numN 1, Lib.numN 2, Lib.numN 3, Lib.numN 9], .arr [Lib.numN 1, Lib.numN 2, Lib.numN 3]] ∧
      (st'.globals.get? (vName 4)).getD .null = .num 9 ∧ (st'.globals.get? (vName 5)).getD .null = .num 3 ∧
      (st'.globals.get? (vName 2)).getD .null = .arr 1 ∧ st'.count = 4 := by
  obtain ⟨st', hrun, hrel, hcount, -, -⟩ :=
    machine_history_refines_execute cfg hh vName demoFs demo_names none 0 C15.demo C15.demo0 _
      (by decide) (by decide) (rel_initState vName demoFs demo_names C15.demo0) (Or.inl hmax)
  have hfin : Lib.runHistory Lib.Spec.specLib C15.demo C15.demo0 =
      ⟨[.arr 0, .arr 0, .arr 1, .arr 0, Lib.numN 9, Lib.numN 3],
       [.arr [Lib.numN 1, Lib.numN 2, Lib.numN 3, Lib.numN 9], .arr [Lib.numN 1, Lib.numN 2, Lib.numN 3]]⟩ := by
    rw [← C15.history_refines]; decide
  rw [hfin] at hrel
  refine ⟨st', hrun, hrel.heap, ?_, ?_, ?_, hcount⟩
  · rw [hrel.vars 4]; rfl
  · rw [hrel.vars 5]; rfl
  · rw [hrel.vars 2]; rfl

/-- a failing call through the machine: `arraySet(a, 1.5, null)` on `[1,2,3]` — state untouched, value null -/
example (cfg : Config LWorld) (hh : cfg.host = hostLib) (st : State LWorld) (hheap : st.world.heap = C15.demo0.heap) :
    callValue cfg 1 (.fn (.lib "arraySet")) [.arr 0, .num (mkRat 3 2), .null] st = .ok .null st := by
  have := machine_lib_fail_unchanged cfg hh 0 "arraySet" [.arr 0, .num (mkRat 3 2), .null] st .null
    (by rw [hheap]; decide)
  simpa [docFailM] using this

/-- the isomorphism on function values: a library function stored in a `Lib` heap comes back as itself -/
example : ofLib (toLib (.fn (.lib "arrayPush"))) = .fn (.lib "arrayPush") := ofLib_toLib _
example : decFn 0 = .script 0 ∧ decFn 1 = .other 0 ∧ decFn 5 = .lib (decStr 1) := by decide

end HostLib
