import BareProofs.C07SchemaInv

/-!
# C07Schema — reading inverts writing (`scriptOf (scriptW P) = zeroFids P`), and `renumber` changes nothing but the function ids
-/

set_option linter.unusedSimpArgs false

namespace C07Schema
open Schema PJson Gen

/-! ## function ids -/

mutual
/-- all function ids set to 0 (what `scriptOf` produces: the schema has no such member) -/
def zeroS : Stmt → Stmt
  | .function _ n args laa isAsync body => .function 0 n args laa isAsync (zeroL body)
  | s => s
def zeroL : List Stmt → List Stmt
  | [] => []
  | s :: r => zeroS s :: zeroL r
end

mutual
/-- the function ids of a statement list in source (pre-)order -/
def fidsS : Stmt → List Nat
  | .function f _ _ _ _ body => f :: fidsL body
  | _ => []
def fidsL : List Stmt → List Nat
  | [] => []
  | s :: r => fidsS s ++ fidsL r
end

mutual
theorem zeroS_renumS : ∀ (s : Stmt) (i : Nat), zeroS (renumS s i).1 = zeroS s
  | .function _ n args laa isAsync body, i => by simp [renumS, zeroS, zeroL_renumL body (i + 1)]
  | .expr _ _, _ => rfl
  | .jump _ _, _ => rfl
  | .ret _, _ => rfl
  | .label _, _ => rfl
  | .include _, _ => rfl
theorem zeroL_renumL : ∀ (ss : List Stmt) (i : Nat), zeroL (renumL ss i).1 = zeroL ss
  | [], _ => rfl
  | s :: r, i => by simp [renumL, zeroL, zeroS_renumS s i, zeroL_renumL r]
end

mutual
theorem stmtJ_zeroS : ∀ s : Stmt, stmtJ (zeroS s) = stmtJ s
  | .function _ n args laa isAsync body => by simp [zeroS, stmtJ, stmtsJ_zeroL body]
  | .expr n e => by cases n <;> rfl
  | .jump _ c => by cases c <;> rfl
  | .ret e => by cases e <;> rfl
  | .label _ => rfl
  | .include _ => rfl
theorem stmtsJ_zeroL : ∀ ss : List Stmt, stmtsJ (zeroL ss) = stmtsJ ss
  | [] => rfl
  | s :: r => by simp [zeroL, stmtsJ, stmtJ_zeroS s, stmtsJ_zeroL r]
end

mutual
theorem stmtW_zeroS : ∀ s : Stmt, stmtW (zeroS s) = stmtW s
  | .function _ n args laa isAsync body => by simp [zeroS, stmtW, stmtsW_zeroL body]
  | .expr n e => by cases n <;> rfl
  | .jump _ c => by cases c <;> rfl
  | .ret e => by cases e <;> rfl
  | .label _ => rfl
  | .include _ => rfl
theorem stmtsW_zeroL : ∀ ss : List Stmt, stmtsW (zeroL ss) = stmtsW ss
  | [] => rfl
  | s :: r => by simp [zeroL, stmtsW, stmtW_zeroS s, stmtsW_zeroL r]
end

mutual
theorem wfS_zeroS : ∀ s : Stmt, wfS (zeroS s) = wfS s
  | .function _ n args laa isAsync body => by simp [zeroS, wfS, wfL_zeroL body]
  | .expr _ _ => rfl
  | .jump _ _ => rfl
  | .ret _ => rfl
  | .label _ => rfl
  | .include _ => rfl
theorem wfL_zeroL : ∀ ss : List Stmt, wfL (zeroL ss) = wfL ss
  | [] => rfl
  | s :: r => by simp [zeroL, wfL, wfS_zeroS s, wfL_zeroL r]
end

mutual
theorem namesS_zeroS : ∀ s : Stmt, namesS (zeroS s) = namesS s
  | .function _ n args laa isAsync body => by simp [zeroS, namesS, namesL_zeroL body]
  | .expr _ _ => rfl
  | .jump _ _ => rfl
  | .ret _ => rfl
  | .label _ => rfl
  | .include _ => rfl
theorem namesL_zeroL : ∀ ss : List Stmt, namesL (zeroL ss) = namesL ss
  | [] => rfl
  | s :: r => by simp [zeroL, namesL, namesS_zeroS s, namesL_zeroL r]
end

mutual
theorem renumS_zeroS : ∀ (s : Stmt) (i : Nat), renumS (zeroS s) i = renumS s i
  | .function _ n args laa isAsync body, i => by simp [renumS, zeroS, renumL_zeroL body (i + 1)]
  | .expr _ _, _ => rfl
  | .jump _ _, _ => rfl
  | .ret _, _ => rfl
  | .label _, _ => rfl
  | .include _, _ => rfl
theorem renumL_zeroL : ∀ (ss : List Stmt) (i : Nat), renumL (zeroL ss) i = renumL ss i
  | [], _ => rfl
  | s :: r, i => by simp [renumL, zeroL, renumS_zeroS s i, renumL_zeroL r]
end

theorem renumber_zeroL (P : List Stmt) : renumber (zeroL P) = renumber P := by simp [renumber, renumL_zeroL]

theorem zeroL_renumber (P : List Stmt) : zeroL (renumber P) = zeroL P := zeroL_renumL P 0

theorem scriptJ_renumber (P : List Stmt) : scriptJ (renumber P) = scriptJ P := by
  simp only [scriptJ]
  rw [← stmtsJ_zeroL (renumber P), zeroL_renumber, stmtsJ_zeroL]

theorem scriptW_renumber (P : List Stmt) : scriptW (renumber P) = scriptW P := by
  simp only [scriptW]
  rw [← stmtsW_zeroL (renumber P), zeroL_renumber, stmtsW_zeroL]

theorem wfL_renumber (P : List Stmt) : wfL (renumber P) = wfL P := by
  rw [← wfL_zeroL (renumber P), zeroL_renumber, wfL_zeroL]

theorem namesL_renumber (P : List Stmt) : namesL (renumber P) = namesL P := by
  rw [← namesL_zeroL (renumber P), zeroL_renumber, namesL_zeroL]

mutual
theorem fidsS_renumS : ∀ (s : Stmt) (i : Nat),
    fidsS (renumS s i).1 = List.range' i (fidsS s).length ∧ (renumS s i).2 = i + (fidsS s).length
  | .function _ n args laa isAsync body, i => by
      obtain ⟨h1, h2⟩ := fidsL_renumL body (i + 1)
      refine ⟨?_, ?_⟩
      · simp [renumS, fidsS, h1, List.range'_succ]
      · simp [renumS, fidsS, h2]; omega
  | .expr _ _, _ => by simp [renumS, fidsS]
  | .jump _ _, _ => by simp [renumS, fidsS]
  | .ret _, _ => by simp [renumS, fidsS]
  | .label _, _ => by simp [renumS, fidsS]
  | .include _, _ => by simp [renumS, fidsS]
theorem fidsL_renumL : ∀ (ss : List Stmt) (i : Nat),
    fidsL (renumL ss i).1 = List.range' i (fidsL ss).length ∧ (renumL ss i).2 = i + (fidsL ss).length
  | [], _ => by simp [renumL, fidsL]
  | s :: r, i => by
      obtain ⟨h1, h2⟩ := fidsS_renumS s i
      obtain ⟨h3, h4⟩ := fidsL_renumL r (renumS s i).2
      rw [h2] at h3 h4
      refine ⟨?_, ?_⟩
      · simp only [renumL, fidsL, h1, h3, h2, List.length_append]
        rw [List.range'_append_1]
      · simp only [renumL, fidsL, h4, h2, List.length_append]; omega
end

/-- `renumber` assigns `0, 1, …, n-1` in source order (so the ids are pairwise distinct) -/
theorem fids_renumber (P : List Stmt) : fidsL (renumber P) = List.range (fidsL P).length := by
  rw [renumber, (fidsL_renumL P 0).1, List.range_eq_range']

/-! ## reading the validated copy of `exprJ e` / `stmtJ s` gives `e` / `s` back -/

theorem binop_ofText (op : BinOp) : BinOp.ofText op.text = some op := by cases op <;> rfl

theorem unop_ofText (op : UnOp) : unOpOf op.text = some op := by cases op <;> rfl

theorem nameOk_eq {n : Name} (h : nameOk n = true) : Name.ofString n.render = n := by simpa [nameOk] using h

mutual
theorem exprOf_exprW : ∀ e : Expr, namesE e = true → exprOf (exprW e) = some e
  | .number q, _ => by simp [exprW, mk, exprOf, ratOf_ratToJson]
  | .string s, _ => by simp [exprW, mk, exprOf]
  | .variable n, h => by
      have hn : nameOk n = true := by simpa [namesE] using h
      simp [exprW, mk, exprOf, nameOk_eq hn]
  | .group e, h => by
      have he : namesE e = true := by simpa [namesE] using h
      simp [exprW, mk, exprOf, exprOf_exprW e he]
  | .unary op e, h => by
      have he : namesE e = true := by simpa [namesE] using h
      simp [exprW, mk, exprOf, unOf, unop_ofText, exprOf_exprW e he]
  | .binary op l r, h => by
      have hlr : namesE l = true ∧ namesE r = true := by simpa [namesE] using h
      simp [exprW, mk, exprOf, binOf, binop_ofText, exprOf_exprW l hlr.1, exprOf_exprW r hlr.2]
  | .function n args, h => by
      have hna : nameOk n = true ∧ namesEs args = true := by simpa [namesE] using h
      simp [exprW, mk, exprOf, fnExprOf, exprsOf_exprsW args hna.2, nameOk_eq hna.1]
theorem exprsOf_exprsW : ∀ es : List Expr, namesEs es = true → exprsOf (exprsW es) = some es
  | [], _ => rfl
  | e :: r, h => by
      have her : namesE e = true ∧ namesEs r = true := by simpa [namesEs] using h
      simp [exprsW, exprsOf, exprOf_exprW e her.1, exprsOf_exprsW r her.2]
end

theorem strsOf_names : ∀ args : List Name, strsOf (args.map fun a => PJson.str a.render) = some (args.map Name.render)
  | [] => rfl
  | a :: r => by simp [strsOf, strsOf_names r]

theorem ofString_renders : ∀ args : List Name, args.all nameOk = true → (args.map Name.render).map Name.ofString = args
  | [], _ => rfl
  | a :: r, h => by
      have har : nameOk a = true ∧ r.all nameOk = true := by simpa using h
      simp [nameOk_eq har.1, ofString_renders r har.2]

theorem incOf_incW (i : IncludeScript) : incOf (incW i) = some i := by
  cases i with
  | mk url system => cases system <;> simp [incW, mk, incOf, incFieldsOf]

theorem incsOf_incW : ∀ incs : List IncludeScript, incsOf (incs.map incW) = some incs
  | [] => rfl
  | i :: r => by simp [incsOf, incOf_incW i, incsOf_incW r]

mutual
theorem stmtOf_stmtW : ∀ s : Stmt, namesS s = true → stmtOf (stmtW s) = some (zeroS s)
  | .expr none e, h => by
      have he : namesE e = true := by simpa [namesS] using h
      simp [stmtW, mk, stmtOf, exprStmtOf, exprOf_exprW e he, zeroS]
  | .expr (some n) e, h => by
      have hne : nameOk n = true ∧ namesE e = true := by simpa [namesS] using h
      simp [stmtW, mk, stmtOf, exprStmtOf, exprOf_exprW e hne.2, nameOk_eq hne.1, zeroS]
  | .jump l none, h => by
      have hl : nameOk l = true := by simpa [namesS, namesO] using h
      simp [stmtW, mk, stmtOf, jumpOf, nameOk_eq hl, zeroS]
  | .jump l (some c), h => by
      have hlc : nameOk l = true ∧ namesE c = true := by simpa [namesS, namesO] using h
      simp [stmtW, mk, stmtOf, jumpOf, exprOf_exprW c hlc.2, nameOk_eq hlc.1, zeroS]
  | .ret none, _ => by simp [stmtW, mk, stmtOf, retOf, zeroS]
  | .ret (some e), h => by
      have he : namesE e = true := by simpa [namesS, namesO] using h
      simp [stmtW, mk, stmtOf, retOf, exprOf_exprW e he, zeroS]
  | .label l, h => by
      have hl : nameOk l = true := by simpa [namesS] using h
      simp [stmtW, mk, stmtOf, nameOk_eq hl, zeroS]
  | .include incs, _ => by simp [stmtW, mk, stmtOf, incsOf_incW, zeroS]
  | .function fid n args laa isAsync body, h => by
      have hh : (nameOk n = true ∧ args.all nameOk = true) ∧ namesL body = true := by simpa [namesS] using h
      have hb := stmtsOf_stmtsW body hh.2
      cases args with
      | nil =>
        cases laa <;> cases isAsync <;> simp [stmtW, mk, stmtOf, fnStmtOf, hb, nameOk_eq hh.1.1, zeroS]
      | cons a as =>
        have h1 := strsOf_names (a :: as)
        have h2 := ofString_renders (a :: as) hh.1.2
        simp only [List.map_cons] at h1 h2
        have h2' : Name.ofString a.render = a ∧ List.map (Name.ofString ∘ Name.render) as = as := by simpa using h2
        cases laa <;> cases isAsync <;> simp [stmtW, mk, stmtOf, fnStmtOf, hb, h1, h2', nameOk_eq hh.1.1, zeroS]
theorem stmtsOf_stmtsW : ∀ ss : List Stmt, namesL ss = true → stmtsOf (stmtsW ss) = some (zeroL ss)
  | [], _ => rfl
  | s :: r, h => by
      have hsr : namesS s = true ∧ namesL r = true := by simpa [namesL] using h
      simp [stmtsW, stmtsOf, stmtOf_stmtW s hsr.1, stmtsOf_stmtsW r hsr.2, zeroL]
end

theorem scriptOf_scriptW (P : List Stmt) (h : namesL P = true) : scriptOf (scriptW P) = some (zeroL P) := by
  simp [scriptW, mk, scriptOf, stmtsOf_stmtsW P h]

end C07Schema
