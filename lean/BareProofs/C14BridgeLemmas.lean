import BareProofs.C11Bridge
import BareProofs.C14
import BareProofs.C13

/-!
# C14Bridge — helper lemmas

The text functions of the machine host (`HostImpl.valueJson?`, `HostImpl.valueString?`: heap references, `String`s, a
path of container cells being encoded) against the C14 model (`Json.specEncode`/`mirrorEncode`/`decode` over closed
`Json.JValue`s, `List Char`) and the C13 number text (`NumText.valueStringNum`).

* `toJson`                     closed values of C11 (`Compare.PValue`) as JSON values: what `value_json` makes of each kind
* text lemmas                  `jsonStr_toList`, `hex4_toList`, `intercalate_toList`, `toString_int_toList`, `toString_int_eq_intStr`,
                               `ratText_integral`
* `List.mapM` in `Option`      is `C11Bridge.mapOpt`
* `sortKeys_map`               `Json.sortKeys` (insertion from the right, ties before) and `Compare.sortItems` (insertion from the
                               left, ties after) are the same stable sort: `stableR_eq_sortBy`
* `valueJson_bridgeF`          the fuelled bridge with the path invariant
-/

namespace C14Bridge
open Machine HostImpl C11Bridge

/-! ## closed values as JSON values -/

/-- the placeholder text HostImpl prints for a datetime (the real ISO text is the subject of C16) -/
def dtText (t : Int) : String := "<dt " ++ toString t ++ ">"

/-- a rational number as a JSON number: an integral one is an integer; any other is represented by the text HostImpl
prints for it (`ratText`: the decimal expansion, cut after 40 fraction digits) -/
def numJ (q : Rat) : Json.JNum := if q.den = 1 then .int q.num else .dec (ratText q).toList

mutual
/-- what `value_json` makes of a closed value: functions become the string `<function>`, regexes `null`, datetimes their
`value_string` (here: HostImpl's placeholder) -/
def toJson : Compare.PValue → Json.JValue
  | .null => .null
  | .bool b => .bool b
  | .num q => .num (numJ q)
  | .str s => .str s.toList
  | .dt t => .str (dtText t).toList
  | .arr xs => .arr (toJsonList xs)
  | .obj kvs => .obj (toJsonItems kvs)
  | .fn _ => .str "<function>".toList
  | .regex _ => .null
def toJsonList : List Compare.PValue → List Json.JValue
  | [] => []
  | x :: xs => toJson x :: toJsonList xs
def toJsonItems : List (String × Compare.PValue) → List (Json.Str × Json.JValue)
  | [] => []
  | (k, v) :: rest => (k.toList, toJson v) :: toJsonItems rest
end

theorem toJsonList_eq (xs : List Compare.PValue) : toJsonList xs = xs.map toJson := by
  induction xs with
  | nil => rfl
  | cons x xs ih => simp [toJsonList, ih]

theorem toJsonItems_eq (kvs : List (String × Compare.PValue)) : toJsonItems kvs = kvs.map fun kv => (kv.1.toList, toJson kv.2) := by
  induction kvs with
  | nil => rfl
  | cons kv kvs ih => obtain ⟨k, v⟩ := kv; simp [toJsonItems, ih]

/-! ## text lemmas -/

theorem digitChar_lt10 : ∀ d, d < 10 → Nat.digitChar d = Char.ofNat (48 + d) := by decide

theorem toDigitsCore_natStrAux : ∀ (fuel n : Nat) (acc : List Char),
    Nat.toDigitsCore 10 fuel n acc = NumText.natStrAux fuel n acc
  | 0, _, _ => rfl
  | fuel+1, n, acc => by
    have hd := digitChar_lt10 (n % 10) (Nat.mod_lt _ (by decide))
    simp only [Nat.toDigitsCore, NumText.natStrAux, hd]
    by_cases h : n < 10
    · have : n / 10 = 0 := Nat.div_eq_of_lt h
      simp [h, this]
    · have : n / 10 ≠ 0 := by omega
      simp only [h, this, if_false]
      exact toDigitsCore_natStrAux fuel (n / 10) _

theorem toDigits_natStr (n : Nat) : Nat.toDigits 10 n = NumText.natStr n := toDigitsCore_natStrAux _ _ _

theorem toString_nat_toList (n : Nat) : (toString n).toList = Nat.toDigits 10 n := Nat.toList_repr

/-- `toString` of an `Int` is the integer text of the JSON model … -/
theorem toString_int_toList (z : Int) : (toString z).toList = Json.intText z := by
  cases z with
  | ofNat n => exact Nat.toList_repr
  | negSucc n =>
    show ("-" ++ (n + 1).repr).toList = _
    rw [String.toList_append, Nat.toList_repr]; rfl

/-- … and `str(n)` of the C13 model -/
theorem toString_int_eq_intStr (z : Int) : toString z = NumText.intStr z := by
  apply String.toList_inj.mp
  rw [toString_int_toList, NumText.intStr, String.toList_ofList]
  cases z with
  | ofNat n =>
    have : ¬ (Int.ofNat n < 0) := Int.not_lt.mpr (Int.natCast_nonneg n)
    simp only [NumText.intStrL, this, if_false, Json.intText, Json.natText, toDigits_natStr]
    rfl
  | negSucc n =>
    have : Int.negSucc n < 0 := Int.negSucc_lt_zero n
    simp only [NumText.intStrL, this, if_true, Json.intText, Json.natText, toDigits_natStr]
    rfl

theorem ratText_integral (q : Rat) (h : q.den = 1) : ratText q = toString q.num := by simp [ratText, h]

/-- the number token of the machine host is the spec token of the JSON model -/
theorem ratText_toList (q : Rat) : (ratText q).toList = Json.numSpec (numJ q) := by
  unfold numJ
  by_cases h : q.den = 1
  · simp only [h, if_true, Json.numSpec, ratText_integral q h, toString_int_toList]
  · simp only [h, if_false, Json.numSpec]

theorem hex4_toList (n : Nat) : (HostImpl.hex4 n).toList = Json.hex4 n := by
  simp only [HostImpl.hex4, String.toList_ofList, Json.hex4, Json.hexDigit]

theorem jsonEscChar_toList (c : Char) : (jsonEscChar c).toList = Json.escChar c := by
  unfold jsonEscChar Json.escChar
  have h8 : (c.toNat == 8) = decide (c = Char.ofNat 8) := by
    rw [Bool.eq_iff_iff]; simp only [beq_iff_eq, decide_eq_true_eq]
    exact ⟨fun h => Char.toNat_inj.mp (by rw [h]; decide), fun h => by rw [h]; decide⟩
  have h12 : (c.toNat == 12) = decide (c = Char.ofNat 12) := by
    rw [Bool.eq_iff_iff]; simp only [beq_iff_eq, decide_eq_true_eq]
    exact ⟨fun h => Char.toNat_inj.mp (by rw [h]; decide), fun h => by rw [h]; decide⟩
  simp only [h8, h12, beq_iff_eq, decide_eq_true_eq, Bool.and_eq_true]
  repeat' split
  all_goals simp [String.toList_append, hex4_toList, String.toList_singleton]

theorem join_esc_toList : ∀ cs : List Char, (String.join (cs.map jsonEscChar)).toList = Json.escBody cs
  | [] => by simp [Json.escBody]
  | c :: cs => by
    have ih := join_esc_toList cs
    simp only [String.toList_join] at ih ⊢
    simp only [List.map_cons, List.flatMap_cons, Json.escBody, jsonEscChar_toList, ih]

theorem jsonStr_toList (s : String) : (jsonStr s).toList = Json.encStr s.toList := by
  simp only [jsonStr, String.toList_append, join_esc_toList, Json.encStr]
  rfl

theorem jsonStr_eq (s : String) : jsonStr s = String.ofList (Json.encStr s.toList) := by
  rw [← jsonStr_toList, String.ofList_toList]

theorem joinItems_eq_intercalate (sep : Json.Str) : ∀ xs : List Json.Str, Json.joinItems sep xs = sep.intercalate xs
  | [] => rfl
  | [x] => by simp [Json.joinItems, List.intercalate]
  | x :: y :: xs => by
    have ih := joinItems_eq_intercalate sep (y :: xs)
    simp only [Json.joinItems, ih, List.intercalate, List.intersperse, List.flatten_cons, List.append_assoc]

theorem intercalate_toList (xs : List Json.Str) :
    (",".intercalate (xs.map String.ofList)).toList = Json.joinItems [','] xs := by
  rw [String.toList_intercalate, joinItems_eq_intercalate, List.map_map]
  congr 1
  induction xs with
  | nil => rfl
  | cons x xs ih => simp

/-! ## `List.mapM` in `Option` -/

theorem mapM_eq_mapOpt {α β : Type} (f : α → Option β) : ∀ xs : List α, xs.mapM f = mapOpt f xs
  | [] => by simp [mapOpt]
  | x :: xs => by
    rw [List.mapM_cons, mapM_eq_mapOpt f xs]
    simp only [mapOpt]
    cases f x <;> cases mapOpt f xs <;> rfl

/-- if `f` reifies the list and `F` maps every element to `G` of its reification, then `F` maps the list to the `G`-image -/
theorem mapOpt_image {α β γ : Type} (f : α → Option β) (F : α → Option γ) (G : β → γ) : ∀ (xs : List α) (ys : List β),
    mapOpt f xs = some ys → (∀ x ∈ xs, ∀ y ∈ ys, f x = some y → F x = some (G y)) → mapOpt F xs = some (ys.map G)
  | [], ys, h, _ => by rw [(mapOpt_nil_iff f ys).mp h]; rfl
  | x :: xs, ys, h, H => by
    obtain ⟨y, ys', h1, h2, rfl⟩ := (mapOpt_cons_iff f x xs ys).mp h
    exact (mapOpt_cons_iff F x xs _).mpr ⟨G y, ys'.map G, H x (by simp) y (by simp) h1,
      mapOpt_image f F G xs ys' h2 (fun x' hx' y' hy' => H x' (by simp [hx']) y' (by simp [hy'])), rfl⟩

/-! ## the two insertion sorts are the same stable sort -/

section StableR
variable {α : Type} (c : α → α → Int)

/-- insertion as `Json.insertKey` does it: the new element goes before the first element that is not smaller -/
def insR (p : α) : List α → List α
  | [] => [p]
  | q :: qs => if c q p < 0 then q :: insR p qs else p :: q :: qs

/-- `Json.sortKeys`: insertion from the right -/
def sortR (l : List α) : List α := l.foldr (insR c) []

variable {c}

theorem insR_mem (p : α) : ∀ (qs : List α) (z : α), z ∈ insR c p qs ↔ z = p ∨ z ∈ qs
  | [], z => by simp [insR]
  | q :: qs, z => by
    unfold insR
    split
    · simp only [List.mem_cons, insR_mem p qs z]
      constructor
      · rintro (h | h | h) <;> simp [h]
      · rintro (h | h | h) <;> simp [h]
    · simp

theorem insR_sorted (h : C11.IsPre c) (p : α) : ∀ qs, C11.Sorted c qs → C11.Sorted c (insR c p qs)
  | [], _ => by simp [insR]
  | q :: qs, hs => by
    have ⟨hq, hqs⟩ := List.pairwise_cons.mp hs
    unfold insR
    by_cases hqp : c q p < 0
    · simp only [hqp, if_true]
      refine List.pairwise_cons.mpr ⟨fun z hz => ?_, insR_sorted h p qs hqs⟩
      rcases (insR_mem p qs z).mp hz with rfl | hz
      · omega
      · exact hq z hz
    · simp only [hqp, if_false]
      have hpq : c p q ≤ 0 := by have := h.antisymm p q; omega
      refine List.pairwise_cons.mpr ⟨fun z hz => ?_, hs⟩
      rcases List.mem_cons.mp hz with rfl | hz
      · exact hpq
      · exact h.trans p q z hpq (hq z hz)

theorem insR_filter (h : C11.IsPre c) (a p : α) : ∀ qs,
    (insR c p qs).filter (C11.eqv c a) = [p].filter (C11.eqv c a) ++ qs.filter (C11.eqv c a)
  | [] => by simp [insR]
  | q :: qs => by
    unfold insR
    by_cases hqp : c q p < 0
    · simp only [hqp, if_true, List.filter_cons, List.filter_nil, insR_filter h a p qs]
      by_cases hq : c q a = 0
      · by_cases hp : c p a = 0
        · -- both in the class of `a`: then `c q p = 0`
          have hap : c a p = 0 := by have := h.antisymm a p; omega
          have := h.eq_eq hq hap
          omega
        · simp [C11.eqv, hq, hp]
      · simp [C11.eqv, hq]
    · simp only [hqp, if_false, List.filter_cons, List.filter_nil]
      split <;> simp

theorem sortR_sorted (h : C11.IsPre c) : ∀ l, C11.Sorted c (sortR c l)
  | [] => List.Pairwise.nil
  | p :: ps => insR_sorted h p _ (sortR_sorted h ps)

theorem sortR_stable (h : C11.IsPre c) (a : α) : ∀ l, (sortR c l).filter (C11.eqv c a) = l.filter (C11.eqv c a)
  | [] => rfl
  | p :: ps => by
    show (insR c p (sortR c ps)).filter _ = _
    rw [insR_filter h a p, sortR_stable h a ps]
    simp only [List.filter_cons, List.filter_nil]
    split <;> simp

/-- a stable sort is unique: insertion from the right (ties before) = insertion from the left (ties after) -/
theorem stableR_eq_sortBy (h : C11.IsPre c) (l : List α) : sortR c l = Compare.sortBy (C11.ltOf c) l :=
  C11.sorted_stable_unique h _ _ (sortR_sorted h l) (C11.sortBy_sorted h l)
    (fun a => (sortR_stable h a l).trans (C11.sortBy_stable h l a).symm)

end StableR

/-- `Json.sortKeys` after a key-preserving map = the map after `Compare.sortItems` -/
theorem insertKey_map {γ : Type} (g : String × Compare.PValue → Json.Str × γ) (hg : ∀ p, (g p).1 = p.1.toList)
    (p : String × Compare.PValue) : ∀ qs : List (String × Compare.PValue),
    Json.insertKey (g p) (qs.map g) = (insR C11.keyCmp p qs).map g
  | [] => rfl
  | q :: qs => by
    have hlt : ((g q).1 < (g p).1) ↔ C11.keyCmp q p < 0 := by
      rw [hg, hg, ← String.lt_iff]; exact str_lt_iff' q.1 p.1
    simp only [List.map_cons, Json.insertKey, insR]
    by_cases h : C11.keyCmp q p < 0
    · simp only [hlt.mpr h, h, if_true, List.map_cons, insertKey_map g hg p qs]
    · have h' : ¬ ((g q).1 < (g p).1) := fun hh => h (hlt.mp hh)
      simp only [h', h, if_false, List.map_cons]

theorem sortKeys_map {γ : Type} (g : String × Compare.PValue → Json.Str × γ) (hg : ∀ p, (g p).1 = p.1.toList) :
    ∀ l : List (String × Compare.PValue), Json.sortKeys (l.map g) = (Compare.sortItems l).map g := by
  intro l
  have hR : ∀ l : List (String × Compare.PValue), Json.sortKeys (l.map g) = (sortR C11.keyCmp l).map g := by
    intro l
    induction l with
    | nil => rfl
    | cons p ps ih =>
      show Json.insertKey (g p) (Json.sortKeys (ps.map g)) = (insR C11.keyCmp p (sortR C11.keyCmp ps)).map g
      rw [ih, insertKey_map g hg]
  rw [hR, stableR_eq_sortBy C11.keyCmp_isPre]
  rfl

/-! ## the compact encoder (`indent = None`) -/

theorem encList_eq (f : Json.JNum → Json.Str) (ind lvl : Nat) (xs : List Json.JValue) :
    Json.encList f ind lvl xs = xs.map (Json.encWith f ind lvl) := by
  induction xs with
  | nil => simp [Json.encList]
  | cons x xs ih => simp [Json.encList, ih]

theorem encMembers_eq (f : Json.JNum → Json.Str) (ind lvl : Nat) (kvs : List (Json.Str × Json.JValue)) :
    Json.encMembers f ind lvl kvs = kvs.map fun kv => (kv.1, Json.encWith f ind lvl kv.2) := by
  induction kvs with
  | nil => simp [Json.encMembers]
  | cons kv kvs ih => obtain ⟨k, v⟩ := kv; simp [Json.encMembers, ih]

/-- the text HostImpl builds for an array from the texts of its elements is the compact JSON text of the array -/
theorem arr_text (f : Json.JNum → Json.Str) (lvl : Nat) (js : List Json.JValue) :
    "[" ++ ",".intercalate (js.map fun j => String.ofList (Json.encWith f 0 (lvl+1) j)) ++ "]" =
      String.ofList (Json.encWith f 0 lvl (.arr js)) := by
  apply String.toList_inj.mp
  cases js with
  | nil => simp [Json.encWith]
  | cons x xs =>
    have hm : ((x :: xs).map fun j => String.ofList (Json.encWith f 0 (lvl+1) j)) =
        ((x :: xs).map (Json.encWith f 0 (lvl+1))).map String.ofList := by rw [List.map_map]; rfl
    rw [hm]
    simp only [String.toList_append, intercalate_toList, String.toList_ofList, Json.encWith, Json.nl, if_true, encList_eq,
      List.append_nil]
    rfl

/-- … and for an object from its (already key-sorted) member texts -/
theorem obj_text (ms : List (Json.Str × Json.Str)) :
    "{" ++ ",".intercalate (ms.map fun m => String.ofList (Json.member 0 m)) ++ "}" =
      String.ofList ('{' :: Json.joinItems [','] (ms.map (Json.member 0)) ++ ['}']) := by
  apply String.toList_inj.mp
  have hm : (ms.map fun m => String.ofList (Json.member 0 m)) = (ms.map (Json.member 0)).map String.ofList := by
    rw [List.map_map]; rfl
  rw [hm]
  simp only [String.toList_append, intercalate_toList, String.toList_ofList]
  rfl

/-- the compact text of a closed value -/
abbrev enc (lvl : Nat) (p : Compare.PValue) : Json.Str := Json.encWith Json.numSpec 0 lvl (toJson p)

/-- the compact text of an object in terms of `Compare.sortItems` -/
theorem enc_obj (lvl : Nat) (kvs : List (String × Compare.PValue)) :
    enc lvl (.obj kvs) = '{' :: Json.joinItems [',']
      ((Compare.sortItems kvs).map fun kv => Json.member 0 (kv.1.toList, enc (lvl+1) kv.2)) ++ ['}'] := by
  cases kvs with
  | nil => simp [enc, toJson, toJsonItems, Json.encWith, Compare.sortItems, Compare.sortBy, Json.joinItems]
  | cons kv kvs =>
    obtain ⟨k, v⟩ := kv
    have hs := sortKeys_map (fun kv : String × Compare.PValue => (kv.1.toList, enc (lvl+1) kv.2)) (fun _ => rfl) ((k, v) :: kvs)
    have he : Json.encMembers Json.numSpec 0 (lvl+1) (toJsonItems ((k, v) :: kvs)) =
        ((k, v) :: kvs).map (fun kv : String × Compare.PValue => (kv.1.toList, enc (lvl+1) kv.2)) := by
      rw [encMembers_eq, toJsonItems_eq, List.map_map]; rfl
    have hh : toJsonItems ((k, v) :: kvs) = (k.toList, toJson v) :: toJsonItems kvs := by simp [toJsonItems]
    simp only [enc, toJson]
    rw [hh, Json.encWith, ← hh, he, hs, List.map_map]
    simp only [Json.nl, if_true, List.append_nil]
    rfl

/-! ## the fuelled bridge for `valueJson?` -/

/-- Every cell on the path (the containers being encoded) reifies — if at all — to something strictly deeper than `p`: so
the container `p` stands for is not on the path. -/
def PathAbove (w : World) (path : List Nat) (p : Compare.PValue) : Prop :=
  ∀ r ∈ path, ∀ m q, reifyF w m (cellVal w r) = some q → depth p < depth q

theorem valueJson_bridgeF (w : World) : ∀ (n : Nat) (v : Value) (p : Compare.PValue), reifyF w n v = some p →
    ∀ (fuel : Nat) (path : List Nat) (lvl : Nat), n ≤ fuel → PathAbove w path p →
    valueJson? w fuel path v = some (String.ofList (enc lvl p))
  | 0, _, _, h, _, _, _, _, _ => by simp [reifyF] at h
  | n+1, _, _, _, 0, _, _, hf, _ => by omega
  | n+1, v, p, h, f+1, path, lvl, hf, hp => by
    cases v with
    | null => simp only [reifyF, Option.some.injEq] at h; subst h; rfl
    | bool b => simp only [reifyF, Option.some.injEq] at h; subst h; cases b <;> rfl
    | num q =>
      simp only [reifyF, Option.some.injEq] at h; subst h
      simp only [valueJson?, enc, toJson, Json.encWith, ← ratText_toList, String.ofList_toList]
    | str s =>
      simp only [reifyF, Option.some.injEq] at h; subst h
      simp only [valueJson?, enc, toJson, Json.encWith, jsonStr_eq]
    | dt t =>
      simp only [reifyF, Option.some.injEq] at h; subst h
      simp only [valueJson?, enc, toJson, Json.encWith, jsonStr_eq, dtText]
    | fn g => simp only [reifyF, Option.some.injEq] at h; subst h; rfl
    | regex r => simp only [reifyF, Option.some.injEq] at h; subst h; rfl
    | arr r =>
      obtain ⟨xs, pxs, hxs, hm, rfl⟩ := (reifyF_arr w n r p).mp h
      have hnot : path.contains r = false := by
        cases hc : path.contains r with
        | false => rfl
        | true =>
          have hmem : r ∈ path := by simpa using hc
          have := hp r hmem (n+1) _ (by rw [(cellVal_arr w r xs hxs).1]; exact h)
          omega
      have hel : mapOpt (valueJson? w f (r :: path)) xs = some (pxs.map fun px => String.ofList (enc (lvl+1) px)) := by
        refine mapOpt_image _ _ _ xs pxs hm (fun x _ px hpx hx => ?_)
        refine valueJson_bridgeF w n x px hx f (r :: path) (lvl+1) (by omega) (fun r' hr' m q hq => ?_)
        have hd := depth_le_depthList pxs px hpx
        rcases List.mem_cons.mp hr' with rfl | hr'
        · have := reifyF_det w _ _ _ hq (by rw [(cellVal_arr w r' xs hxs).1]; exact h)
          subst this; simp only [depth]; omega
        · have := hp r' hr' m q hq
          simp only [depth] at this; omega
      simp only [valueJson?, hnot, hxs, Option.getD_some, mapM_eq_mapOpt, hel, Option.map_some, Bool.false_eq_true, if_false]
      have := arr_text Json.numSpec lvl (pxs.map toJson)
      rw [List.map_map] at this
      simp only [enc, toJson, toJsonList_eq]
      rw [← this]; rfl
    | obj r =>
      obtain ⟨kvs, pkvs, hxs, hm, rfl⟩ := (reifyF_obj w n r p).mp h
      have hnot : path.contains r = false := by
        cases hc : path.contains r with
        | false => rfl
        | true =>
          have hmem : r ∈ path := by simpa using hc
          have := hp r hmem (n+1) _ (by rw [(cellVal_obj w r kvs hxs).1]; exact h)
          omega
      have hsorted := sortKeys_reify (reifyF w n) kvs pkvs hm
      have hel : mapOpt (fun kv : String × Value => (valueJson? w f (r :: path) kv.2).map fun s => jsonStr kv.1 ++ ":" ++ s)
          (sortKeys kvs) = some ((Compare.sortItems pkvs).map fun kv =>
            String.ofList (Json.member 0 (kv.1.toList, enc (lvl+1) kv.2))) := by
        refine mapOpt_image _ _ _ _ _ hsorted (fun kv _ pkv hpkv hkv => ?_)
        obtain ⟨hk, hv⟩ := (reifyItem_iff _ _ _).mp hkv
        have hmem : pkv ∈ pkvs := (Compare.sortItems_perm pkvs).mem_iff.mp hpkv
        have hd := depth_le_depthItems pkvs pkv hmem
        have := valueJson_bridgeF w n kv.2 pkv.2 hv f (r :: path) (lvl+1) (by omega) (fun r' hr' m q hq => by
          rcases List.mem_cons.mp hr' with rfl | hr'
          · have := reifyF_det w _ _ _ hq (by rw [(cellVal_obj w r' kvs hxs).1]; exact h)
            subst this; simp only [depth]; omega
          · have := hp r' hr' m q hq
            simp only [depth] at this; omega)
        simp only [this, Option.map_some, Option.some.injEq]
        apply String.toList_inj.mp
        simp only [String.toList_append, jsonStr_toList, String.toList_ofList, Json.member, Json.colon, if_true, hk]
        rfl
      simp only [valueJson?, hnot, hxs, Option.getD_some, mapM_eq_mapOpt, hel, Option.map_some, Bool.false_eq_true, if_false]
      rw [enc_obj]
      have := obj_text ((Compare.sortItems pkvs).map fun kv => (kv.1.toList, enc (lvl+1) kv.2))
      simp only [List.map_map] at this
      exact congrArg some this

end C14Bridge
