import BareProofs.C15More
import BareProofs.C15MoreShape

/-!
# C15More — the remaining unmodelled class is exactly `LibMore.StillUnmodelled`

* `unmodelled_iff`   `effMore T f args h = .unmodelled ↔ StillUnmodelled T f args h = true` (all oracles, names, arguments, heaps)
* `lib_spec_more`    outside `StillUnmodelled`: the extended model is the specification layer and is not `unmodelled`
* `still_smaller`    `StillUnmodelled` implies that `Lib` was `unmodelled` too; `still_strictly_smaller`: not conversely
* `fail_not_still`   a call whose arguments fail validation is never in the class
-/

namespace C15More
open Lib LibMore Lib.Spec

/-! ## per body: unmodelled exactly on the stated class (on arguments of the validated shape) -/

theorem pats1 {p : Pat} {va : List VArg} (hp : patsOK [p] va = true) : ∃ x, va = [x] ∧ p.ok x = true := by
  obtain ⟨x, _, rfl, h1, hp⟩ := inv_cons hp
  obtain rfl := inv_nil hp
  exact ⟨x, rfl, h1⟩

theorem pats2 {p q : Pat} {va : List VArg} (hp : patsOK [p, q] va = true) :
    ∃ x y, va = [x, y] ∧ p.ok x = true ∧ q.ok y = true := by
  obtain ⟨x, _, rfl, h1, hp⟩ := inv_cons hp
  obtain ⟨y, rfl, h2⟩ := pats1 hp
  exact ⟨x, y, rfl, h1, h2⟩

theorem pats3 {p q r : Pat} {va : List VArg} (hp : patsOK [p, q, r] va = true) :
    ∃ x y z, va = [x, y, z] ∧ p.ok x = true ∧ q.ok y = true ∧ r.ok z = true := by
  obtain ⟨x, _, rfl, h1, hp⟩ := inv_cons hp
  obtain ⟨y, z, rfl, h2, h3⟩ := pats2 hp
  exact ⟨x, y, z, rfl, h1, h2, h3⟩

theorem still_arrayCopy (va h) (hp : patsOK [.A] va = true) : arrayCopyB va h = .unmodelled ↔ uA va h = true := by
  obtain ⟨_, rfl, h1⟩ := pats1 hp; obtain ⟨r, rfl⟩ := inv_A h1
  simp only [arrayCopyB, uA, dangA]; cases getArr h r <;> simp

theorem still_arrayLength (va h) (hp : patsOK [.A] va = true) : arrayLengthB va h = .unmodelled ↔ uA va h = true := by
  obtain ⟨_, rfl, h1⟩ := pats1 hp; obtain ⟨r, rfl⟩ := inv_A h1
  simp only [arrayLengthB, uA, dangA]; cases getArr h r <;> simp

theorem still_arrayPop (va h) (hp : patsOK [.A] va = true) : arrayPopB va h = .unmodelled ↔ uA va h = true := by
  obtain ⟨_, rfl, h1⟩ := pats1 hp; obtain ⟨r, rfl⟩ := inv_A h1
  simp only [arrayPopB, uA, dangA]
  cases getArr h r with
  | none => simp
  | some xs => simp only; split <;> simp

theorem still_arrayShift (va h) (hp : patsOK [.A] va = true) : arrayShiftB va h = .unmodelled ↔ uA va h = true := by
  obtain ⟨_, rfl, h1⟩ := pats1 hp; obtain ⟨r, rfl⟩ := inv_A h1
  simp only [arrayShiftB, uA, dangA]
  cases getArr h r with
  | none => simp
  | some xs => cases xs <;> simp

theorem still_arrayDelete (va h) (hp : patsOK [.A, .N] va = true) : arrayDeleteS va h = .unmodelled ↔ uA va h = true := by
  obtain ⟨_, _, rfl, h1, h2⟩ := pats2 hp; obtain ⟨r, rfl⟩ := inv_A h1; obtain ⟨q, rfl⟩ := inv_N h2
  simp only [arrayDeleteS, uA, dangA]
  cases getArr h r with
  | none => simp
  | some xs => simp only; split <;> simp

theorem still_arrayGet (va h) (hp : patsOK [.A, .N] va = true) : arrayGetS va h = .unmodelled ↔ uA va h = true := by
  obtain ⟨_, _, rfl, h1, h2⟩ := pats2 hp; obtain ⟨r, rfl⟩ := inv_A h1; obtain ⟨q, rfl⟩ := inv_N h2
  simp only [arrayGetS, uA, dangA]
  cases getArr h r with
  | none => simp
  | some xs => simp only; split <;> simp

theorem still_arrayExtend (va h) (hp : patsOK [.A, .A] va = true) : arrayExtendB va h = .unmodelled ↔ uAA va h = true := by
  obtain ⟨_, _, rfl, h1, h2⟩ := pats2 hp; obtain ⟨r, rfl⟩ := inv_A h1; obtain ⟨r2, rfl⟩ := inv_A h2
  simp only [arrayExtendB, uAA, dangA]
  cases getArr h r <;> cases getArr h r2 <;> simp

theorem searchResN_unmodelled (x : Option (Option Nat)) : searchResN x = .unmodelled ↔ x.isNone = true := by
  rcases x with _ | _ | _ <;> simp [searchResN]

theorem still_arrayIndexOf (va h) (hp : patsOK [.A, .V, .N] va = true) :
    arrayIndexOfS va h = .unmodelled ↔ uIndexOf va h = true := by
  obtain ⟨_, _, _, rfl, h1, h2, h3⟩ := pats3 hp; obtain ⟨r, rfl⟩ := inv_A h1; obtain ⟨v, rfl⟩ := inv_V h2; obtain ⟨q, rfl⟩ := inv_N h3
  simp only [arrayIndexOfS, uIndexOf]
  cases getArr h r with
  | none => simp
  | some xs =>
    simp only
    by_cases hlt : nat q < xs.length
    · simp only [hlt, if_true, decide_true, Bool.true_and]
      cases v <;> simp [isFn, searchResN_unmodelled]
    · simp [hlt]

theorem still_arrayLastIndexOf (va h) (hp : patsOK [.A, .V, .NN] va = true) :
    arrayLastIndexOfS va h = .unmodelled ↔ uLastIndexOf va h = true := by
  obtain ⟨_, _, _, rfl, h1, h2, h3⟩ := pats3 hp; obtain ⟨r, rfl⟩ := inv_A h1; obtain ⟨v, rfl⟩ := inv_V h2
  rcases inv_NN h3 with rfl | ⟨q, rfl⟩
  · simp only [arrayLastIndexOfS, uLastIndexOf]
    cases getArr h r with
    | none => simp
    | some xs =>
      simp only [lastStart]
      by_cases hl : xs.length = 0
      · simp only [hl, if_true]
        cases v <;> simp [isFn]
      · simp only [hl, if_false]
        have hlt : xs.length - 1 < xs.length := by omega
        simp only [hlt, if_true, decide_true, Bool.true_and]
        cases v <;> simp [isFn, searchResN_unmodelled]
  · simp only [arrayLastIndexOfS, uLastIndexOf]
    cases getArr h r with
    | none => simp
    | some xs =>
      simp only [lastStart]
      by_cases hlt : nat q < xs.length
      · simp only [hlt, if_true, decide_true, Bool.true_and]
        cases v <;> simp [isFn, searchResN_unmodelled]
      · simp [hlt]

theorem still_arrayNewSize (va h) (hp : patsOK [.N, .V] va = true) : arrayNewSizeS va h = .unmodelled ↔ uNever va h = true := by
  obtain ⟨_, _, rfl, h1, h2⟩ := pats2 hp; obtain ⟨q, rfl⟩ := inv_N h1; obtain ⟨v, rfl⟩ := inv_V h2
  simp [arrayNewSizeS, uNever]

theorem still_arrayPush (va h) (hp : patsOK [.A, .M] va = true) : arrayPushB va h = .unmodelled ↔ uA va h = true := by
  obtain ⟨_, _, rfl, h1, h2⟩ := pats2 hp; obtain ⟨r, rfl⟩ := inv_A h1; obtain ⟨vs, rfl⟩ := inv_M h2
  simp only [arrayPushB, uA, dangA]; cases getArr h r <;> simp

theorem still_arraySet (va h) (hp : patsOK [.A, .N, .V] va = true) : arraySetS va h = .unmodelled ↔ uA va h = true := by
  obtain ⟨_, _, _, rfl, h1, h2, h3⟩ := pats3 hp; obtain ⟨r, rfl⟩ := inv_A h1; obtain ⟨q, rfl⟩ := inv_N h2; obtain ⟨v, rfl⟩ := inv_V h3
  simp only [arraySetS, uA, dangA]
  cases getArr h r with
  | none => simp
  | some xs => simp only; split <;> simp

theorem still_arraySlice (va h) (hp : patsOK [.A, .N, .NN] va = true) : arraySliceS va h = .unmodelled ↔ uA va h = true := by
  obtain ⟨_, _, _, rfl, h1, h2, h3⟩ := pats3 hp; obtain ⟨r, rfl⟩ := inv_A h1; obtain ⟨q, rfl⟩ := inv_N h2
  rcases inv_NN h3 with rfl | ⟨e, rfl⟩
  · simp only [arraySliceS, uA, dangA]
    cases getArr h r with
    | none => simp
    | some xs => simp only [endN]; split <;> simp
  · simp only [arraySliceS, uA, dangA]
    cases getArr h r with
    | none => simp
    | some xs => simp only [endN]; split <;> simp

theorem still_objectAssign (va h) (hp : patsOK [.O, .O] va = true) : objectAssignB va h = .unmodelled ↔ uOO va h = true := by
  obtain ⟨_, _, rfl, h1, h2⟩ := pats2 hp; obtain ⟨r, rfl⟩ := inv_O h1; obtain ⟨r2, rfl⟩ := inv_O h2
  simp only [objectAssignB, uOO, dangO]
  cases getObj h r <;> cases getObj h r2 <;> simp

theorem still_objectCopy (va h) (hp : patsOK [.O] va = true) : objectCopyB va h = .unmodelled ↔ uO va h = true := by
  obtain ⟨_, rfl, h1⟩ := pats1 hp; obtain ⟨r, rfl⟩ := inv_O h1
  simp only [objectCopyB, uO, dangO]; cases getObj h r <;> simp

theorem still_objectKeys (va h) (hp : patsOK [.O] va = true) : objectKeysB va h = .unmodelled ↔ uO va h = true := by
  obtain ⟨_, rfl, h1⟩ := pats1 hp; obtain ⟨r, rfl⟩ := inv_O h1
  simp only [objectKeysB, uO, dangO]; cases getObj h r <;> simp

theorem still_objectDelete (va h) (hp : patsOK [.O, .S] va = true) : objectDeleteB va h = .unmodelled ↔ uO va h = true := by
  obtain ⟨_, _, rfl, h1, h2⟩ := pats2 hp; obtain ⟨r, rfl⟩ := inv_O h1; obtain ⟨k, rfl⟩ := inv_S h2
  simp only [objectDeleteB, uO, dangO]
  cases getObj h r with
  | none => simp
  | some kvs => simp only; split <;> simp

theorem still_objectHas (va h) (hp : patsOK [.O, .S] va = true) : objectHasB va h = .unmodelled ↔ uO va h = true := by
  obtain ⟨_, _, rfl, h1, h2⟩ := pats2 hp; obtain ⟨r, rfl⟩ := inv_O h1; obtain ⟨k, rfl⟩ := inv_S h2
  simp only [objectHasB, uO, dangO]; cases getObj h r <;> simp

theorem still_objectGet (va h) (hp : patsOK [.O, .S, .V] va = true) : objectGetB va h = .unmodelled ↔ uO va h = true := by
  obtain ⟨_, _, _, rfl, h1, h2, h3⟩ := pats3 hp; obtain ⟨r, rfl⟩ := inv_O h1; obtain ⟨k, rfl⟩ := inv_S h2; obtain ⟨v, rfl⟩ := inv_V h3
  simp only [objectGetB, uO, dangO]; cases getObj h r <;> simp

theorem still_objectSet (va h) (hp : patsOK [.O, .S, .V] va = true) : objectSetB va h = .unmodelled ↔ uO va h = true := by
  obtain ⟨_, _, _, rfl, h1, h2, h3⟩ := pats3 hp; obtain ⟨r, rfl⟩ := inv_O h1; obtain ⟨k, rfl⟩ := inv_S h2; obtain ⟨v, rfl⟩ := inv_V h3
  simp only [objectSetB, uO, dangO]; cases getObj h r <;> simp

theorem still_stringCharCodeAt (va h) (hp : patsOK [.S, .N] va = true) :
    stringCharCodeAtS va h = .unmodelled ↔ uNever va h = true := by
  obtain ⟨_, _, rfl, h1, h2⟩ := pats2 hp; obtain ⟨s, rfl⟩ := inv_S h1; obtain ⟨q, rfl⟩ := inv_N h2
  simp only [stringCharCodeAtS, uNever]; split <;> simp

theorem still_stringRepeat (va h) (hp : patsOK [.S, .N] va = true) : stringRepeatS va h = .unmodelled ↔ uNever va h = true := by
  obtain ⟨_, _, rfl, h1, h2⟩ := pats2 hp; obtain ⟨s, rfl⟩ := inv_S h1; obtain ⟨q, rfl⟩ := inv_N h2
  simp [stringRepeatS, uNever]

theorem still_stringEndsWith (va h) (hp : patsOK [.S, .S] va = true) : stringEndsWithB va h = .unmodelled ↔ uNever va h = true := by
  obtain ⟨_, _, rfl, h1, h2⟩ := pats2 hp; obtain ⟨s, rfl⟩ := inv_S h1; obtain ⟨t, rfl⟩ := inv_S h2
  simp [stringEndsWithB, uNever]

theorem still_stringStartsWith (va h) (hp : patsOK [.S, .S] va = true) :
    stringStartsWithB va h = .unmodelled ↔ uNever va h = true := by
  obtain ⟨_, _, rfl, h1, h2⟩ := pats2 hp; obtain ⟨s, rfl⟩ := inv_S h1; obtain ⟨t, rfl⟩ := inv_S h2
  simp [stringStartsWithB, uNever]

theorem still_stringSplit (va h) (hp : patsOK [.S, .S] va = true) : stringSplitB va h = .unmodelled ↔ uNever va h = true := by
  obtain ⟨_, _, rfl, h1, h2⟩ := pats2 hp; obtain ⟨s, rfl⟩ := inv_S h1; obtain ⟨t, rfl⟩ := inv_S h2
  simp only [stringSplitB, uNever]; split <;> simp

theorem still_stringIndexOf (va h) (hp : patsOK [.S, .S, .N] va = true) : stringIndexOfS va h = .unmodelled ↔ uNever va h = true := by
  obtain ⟨_, _, _, rfl, h1, h2, h3⟩ := pats3 hp; obtain ⟨s, rfl⟩ := inv_S h1; obtain ⟨t, rfl⟩ := inv_S h2; obtain ⟨q, rfl⟩ := inv_N h3
  simp only [stringIndexOfS, uNever]; split <;> simp

theorem still_stringLastIndexOf (va h) (hp : patsOK [.S, .S, .NN] va = true) :
    stringLastIndexOfS va h = .unmodelled ↔ uNever va h = true := by
  obtain ⟨_, _, _, rfl, h1, h2, h3⟩ := pats3 hp; obtain ⟨s, rfl⟩ := inv_S h1; obtain ⟨t, rfl⟩ := inv_S h2
  rcases inv_NN h3 with rfl | ⟨q, rfl⟩
  · simp only [stringLastIndexOfS, uNever, lastStart]
    by_cases hl : (chars s).length = 0
    · simp [hl]
    · simp only [hl, if_false]; split <;> simp
  · simp only [stringLastIndexOfS, uNever, lastStart]
    split <;> simp

theorem still_stringSlice (va h) (hp : patsOK [.S, .N, .NN] va = true) : stringSliceS va h = .unmodelled ↔ uNever va h = true := by
  obtain ⟨_, _, _, rfl, h1, h2, h3⟩ := pats3 hp; obtain ⟨s, rfl⟩ := inv_S h1; obtain ⟨b, rfl⟩ := inv_N h2
  rcases inv_NN h3 with rfl | ⟨q, rfl⟩ <;> (simp only [stringSliceS, uNever, endN]; split <;> simp)

theorem still_stringReplace (va h) (hp : patsOK [.S, .S, .S] va = true) : stringReplaceB va h = .unmodelled ↔ uNever va h = true := by
  obtain ⟨_, _, _, rfl, h1, h2, h3⟩ := pats3 hp; obtain ⟨s, rfl⟩ := inv_S h1; obtain ⟨t, rfl⟩ := inv_S h2; obtain ⟨u, rfl⟩ := inv_S h3
  simp [stringReplaceB, uNever]

theorem still_stringLength (va h) (hp : patsOK [.S] va = true) : stringLengthB va h = .unmodelled ↔ uNever va h = true := by
  obtain ⟨_, rfl, h1⟩ := pats1 hp; obtain ⟨s, rfl⟩ := inv_S h1; simp [stringLengthB, uNever]

theorem still_stringTrim (va h) (hp : patsOK [.S] va = true) : stringTrimB va h = .unmodelled ↔ uNever va h = true := by
  obtain ⟨_, rfl, h1⟩ := pats1 hp; obtain ⟨s, rfl⟩ := inv_S h1; simp [stringTrimB, uNever]

theorem still_regexEscape (va h) (hp : patsOK [.S] va = true) : regexEscapeB va h = .unmodelled ↔ uNever va h = true := by
  obtain ⟨_, rfl, h1⟩ := pats1 hp; obtain ⟨s, rfl⟩ := inv_S h1; simp [regexEscapeB, uNever]

theorem still_urlEncode (safe va h) (hp : patsOK [.S] va = true) : urlEncodeB safe va h = .unmodelled ↔ uNever va h = true := by
  obtain ⟨_, rfl, h1⟩ := pats1 hp; obtain ⟨s, rfl⟩ := inv_S h1; simp [urlEncodeB, uNever]

theorem still_stringLower (va h) (hp : patsOK [.S] va = true) : stringLowerB va h = .unmodelled ↔ uCase va h = true := by
  obtain ⟨_, rfl, h1⟩ := pats1 hp; obtain ⟨s, rfl⟩ := inv_S h1
  simp only [stringLowerB, uCase]; split <;> simp_all

theorem still_stringUpper (va h) (hp : patsOK [.S] va = true) : stringUpperB va h = .unmodelled ↔ uCase va h = true := by
  obtain ⟨_, rfl, h1⟩ := pats1 hp; obtain ⟨s, rfl⟩ := inv_S h1
  simp only [stringUpperB, uCase]; split <;> simp_all

theorem textEff_unmodelled (t : TRes String) : textEff t = .unmodelled ↔ isUnk t = true := by
  cases t <;> simp [textEff, isUnk]

theorem isUnk_map {α β} (f : α → β) (t : TRes α) : isUnk (t.map f) = isUnk t := by
  cases t <;> rfl

theorem still_arrayJoin (T : TextFns) (va h) (hp : patsOK [.A, .S] va = true) :
    arrayJoinM T va h = .unmodelled ↔ uJoin T va h = true := by
  obtain ⟨_, _, rfl, h1, h2⟩ := pats2 hp; obtain ⟨r, rfl⟩ := inv_A h1; obtain ⟨sep, rfl⟩ := inv_S h2
  simp only [arrayJoinM, uJoin]
  cases getArr h r with
  | none => simp
  | some xs =>
    simp only
    cases joinStrs sep xs with
    | none => simp [textEff_unmodelled, isUnk_map]
    | some s => simp

theorem still_stringNew (T : TextFns) (va h) (hp : patsOK [.V] va = true) :
    stringNewM T va h = .unmodelled ↔ uNew T va h = true := by
  obtain ⟨_, rfl, h1⟩ := pats1 hp; obtain ⟨v, rfl⟩ := inv_V h1
  simp only [stringNewM, uNew, textEff_unmodelled]

theorem still_arraySort (va h) (hp : patsOK [.A, .FN] va = true) : arraySortM va h = .unmodelled ↔ uSort va h = true := by
  obtain ⟨_, _, rfl, h1, h2⟩ := pats2 hp; obtain ⟨r, rfl⟩ := inv_A h1
  rcases inv_FN h2 with rfl | ⟨i, rfl⟩
  · simp only [arraySortM, uSort]
    cases getArr h r with
    | none => simp
    | some xs => simp only; split <;> simp_all
  · simp [arraySortM, uSort]

/-! ## assembling -/

/-- one table function: the specification side is `unmodelled` exactly when the still-predicate says so -/
theorem iff_of_body {ms : List Gen.ArgModel} {B : List VArg → Heap → Eff} {U : List VArg → Heap → Bool} {fv : Value}
    (hreg : ms.all Regular = true)
    (hB : ∀ va h, patsOK (ms.map patOf) va = true → (B va h = .unmodelled ↔ U va h = true)) (args : List Value) (h : Heap) :
    (match validate h ms args with
      | none => Eff.fail fv
      | some va => B va h) = .unmodelled ↔
    (match validate h ms args with
      | none => false
      | some va => U va h) = true := by
  cases hv : validate h ms args with
  | none => simp
  | some va => exact hB va h (validate_pats h ms args va hreg hv)

theorem fromCodes_unmodelled (vs : List Value) (acc : List Char) :
    fromCodes vs acc = .unmodelled ↔ surrogateOnly vs = true := by
  induction vs generalizing acc with
  | nil => simp [fromCodes, surrogateOnly]
  | cons v vs ih =>
    unfold fromCodes
    cases hc : charOfCode v with
    | none =>
      simp only [surrogateOnly, List.all_cons, List.any_cons, hc]
      by_cases hall : vs.all (fun w => charOfCode w != some none) = true
      · simp [hall]
      · simp [hall]
    | some oc =>
      cases oc with
      | none => simp [surrogateOnly, hc]
      | some c =>
        simp only [ih, surrogateOnly, List.all_cons, List.any_cons, hc]
        simp

/-- the 39 functions that validate their arguments -/
def tableNames : List String := (stillBodies TextFns.none).map (·.1)

theorem stillBodies_names (T : TextFns) : (stillBodies T).map (·.1) = tableNames := rfl

theorem docSigAll_none {f : String} (hf : f ∉ tableNames) : docSigAll.lookup f = none := by
  apply C15.lookup_none_of_not_mem
  intro hm
  apply hf
  revert hm
  simp only [docSigAll, docSigMore, docSig, tableNames, stillBodies, List.map_cons, List.map_nil, List.cons_append, List.nil_append,
    List.mem_cons, List.not_mem_nil, or_false]
  intro hm
  rcases hm with rfl | rfl | rfl | rfl | rfl | rfl | rfl | rfl | rfl | rfl | rfl | rfl | rfl | rfl | rfl | rfl | rfl | rfl | rfl | rfl |
    rfl | rfl | rfl | rfl | rfl | rfl | rfl | rfl | rfl | rfl | rfl | rfl | rfl | rfl | rfl | rfl | rfl | rfl | rfl | rfl <;> simp

/-- **The remaining unmodelled class, specification side.** -/
theorem specMore_unmodelled_iff (T : TextFns) (f : String) (args : List Value) (h : Heap) :
    specMore T f args h = .unmodelled ↔ StillUnmodelled T f args h = true := by
  by_cases hm : f ∈ tableNames
  · simp only [tableNames, stillBodies, List.map_cons, List.map_nil, List.mem_cons, List.not_mem_nil, or_false] at hm
    rcases hm with rfl | rfl | rfl | rfl | rfl | rfl | rfl | rfl | rfl | rfl | rfl | rfl | rfl | rfl | rfl | rfl | rfl | rfl | rfl | rfl |
      rfl | rfl | rfl | rfl | rfl | rfl | rfl | rfl | rfl | rfl | rfl | rfl | rfl | rfl | rfl | rfl | rfl | rfl | rfl
    · exact iff_of_body (ms := [arrP "array"]) (by decide) still_arrayCopy args h
    · exact iff_of_body (ms := [arrP "array", idxP "index"]) (by decide) still_arrayDelete args h
    · exact iff_of_body (ms := [arrP "array", arrP "array2"]) (by decide) still_arrayExtend args h
    · exact iff_of_body (ms := [arrP "array", idxP "index"]) (by decide) still_arrayGet args h
    · exact iff_of_body (ms := [arrP "array", anyP "value", idx0P "index"]) (by decide) still_arrayIndexOf args h
    · exact iff_of_body (ms := [arrP "array", strP "separator"]) (by decide) (still_arrayJoin T) args h
    · exact iff_of_body (ms := [arrP "array", anyP "value", idxEndP "index"]) (by decide) still_arrayLastIndexOf args h
    · exact iff_of_body (ms := [arrP "array"]) (by decide) still_arrayLength args h
    · exact iff_of_body (ms := [idx0P "size", { anyP "value" with default := some "0" }]) (by decide) still_arrayNewSize args h
    · exact iff_of_body (ms := [arrP "array"]) (by decide) still_arrayPop args h
    · exact iff_of_body (ms := [arrP "array", { anyP "values" with lastArgArray := true }]) (by decide) still_arrayPush args h
    · exact iff_of_body (ms := [arrP "array", idxP "index", anyP "value"]) (by decide) still_arraySet args h
    · exact iff_of_body (ms := [arrP "array"]) (by decide) still_arrayShift args h
    · exact iff_of_body (ms := [arrP "array", idx0P "start", idxEndP "end"]) (by decide) still_arraySlice args h
    · exact iff_of_body (ms := [arrP "array", { P "compareFn" (some "function") with nullable := true }]) (by decide)
        still_arraySort args h
    · exact iff_of_body (ms := [objP "object", objP "object2"]) (by decide) still_objectAssign args h
    · exact iff_of_body (ms := [objP "object"]) (by decide) still_objectCopy args h
    · exact iff_of_body (ms := [objP "object", strP "key"]) (by decide) still_objectDelete args h
    · exact iff_of_body (ms := [objP "object", strP "key", anyP "defaultValue"]) (by decide) still_objectGet args h
    · exact iff_of_body (ms := [objP "object", strP "key"]) (by decide) still_objectHas args h
    · exact iff_of_body (ms := [objP "object"]) (by decide) still_objectKeys args h
    · exact iff_of_body (ms := [objP "object", strP "key", anyP "value"]) (by decide) still_objectSet args h
    · exact iff_of_body (ms := [strP "string", idxP "index"]) (by decide) still_stringCharCodeAt args h
    · exact iff_of_body (ms := [strP "string", strP "search"]) (by decide) still_stringEndsWith args h
    · exact iff_of_body (ms := [strP "string", strP "search", idx0P "index"]) (by decide) still_stringIndexOf args h
    · exact iff_of_body (ms := [strP "string", strP "search", idxEndP "index"]) (by decide) still_stringLastIndexOf args h
    · exact iff_of_body (ms := [strP "string"]) (by decide) still_stringLength args h
    · exact iff_of_body (ms := [strP "string"]) (by decide) still_stringLower args h
    · exact iff_of_body (ms := [anyP "value"]) (by decide) (still_stringNew T) args h
    · exact iff_of_body (ms := [strP "string", idxP "count"]) (by decide) still_stringRepeat args h
    · exact iff_of_body (ms := [strP "string", strP "substr", strP "newSubstr"]) (by decide) still_stringReplace args h
    · exact iff_of_body (ms := [strP "string", idxP "start", idxEndP "end"]) (by decide) still_stringSlice args h
    · exact iff_of_body (ms := [strP "string", strP "separator"]) (by decide) still_stringSplit args h
    · exact iff_of_body (ms := [strP "string", strP "search"]) (by decide) still_stringStartsWith args h
    · exact iff_of_body (ms := [strP "string"]) (by decide) still_stringTrim args h
    · exact iff_of_body (ms := [strP "string"]) (by decide) still_stringUpper args h
    · exact iff_of_body (ms := [strP "string"]) (by decide) still_regexEscape args h
    · exact iff_of_body (ms := [strP "url"]) (by decide) (still_urlEncode _) args h
    · exact iff_of_body (ms := [strP "url"]) (by decide) (still_urlEncode _) args h
  · by_cases hr : f ∈ rawFns
    · simp only [rawFns, List.mem_cons, List.not_mem_nil, or_false] at hr
      rcases hr with rfl | rfl | rfl
      · show arrayNewR args h = .unmodelled ↔ false = true
        simp [arrayNewR]
      · show objectNewR args h = .unmodelled ↔ false = true
        unfold objectNewR; split <;> simp
      · show fromCodes args [] = .unmodelled ↔ surrogateOnly args = true
        exact fromCodes_unmodelled args []
    · -- not one of the 42 names
      have hsig : docSigAll.lookup f = none := docSigAll_none hm
      have hmb : (moreBodies T).lookup f = none := by
        rcases moreBodies_lookup T f with ⟨hb, _⟩ | ⟨rfl, _⟩ | ⟨rfl, _⟩ | ⟨rfl, _⟩
        · exact hb
        all_goals exact absurd (by decide) hm
      have hds : docSig.lookup f = none := by
        apply C15.lookup_none_of_not_mem
        intro hmem
        have : docSigAll.lookup f = none := hsig
        have hmem' : f ∈ docSigAll.map (·.1) := by
          simp only [docSigAll, List.map_append, List.mem_append]; exact Or.inr hmem
        have hne : ∃ b, docSigAll.lookup f = some b := by
          clear this hsig
          generalize docSigAll = l at hmem'
          induction l with
          | nil => simp at hmem'
          | cons p l ih =>
            obtain ⟨k, b⟩ := p
            rw [List.lookup_cons]
            by_cases hk : f == k
            · simp [hk]
            · simp only [hk]
              simp only [List.map_cons, List.mem_cons] at hmem'
              rcases hmem' with rfl | hmem'
              · simp at hk
              · exact ih hmem'
        obtain ⟨b, hb⟩ := hne
        rw [hb] at this; cases this
      have h1 : f ≠ "arrayNew" := fun e => hr (by subst e; decide)
      have h2 : f ≠ "objectNew" := fun e => hr (by subst e; decide)
      have h3 : f ≠ "stringFromCharCode" := fun e => hr (by subst e; decide)
      rw [specMore_old T hmb]
      unfold specEff StillUnmodelled
      simp [hds, hsig, h1, h2, h3, hr]

/-- **unmodelled_iff.** For every oracle `T`, function name, argument list and heap: the extended model answers `unmodelled`
exactly on the explicit class `StillUnmodelled T f args h` — a name outside the 42 functions; a dangling / wrong-kind container
argument; a function-valued search value (with the start index in range) or compare function; a comparison that cannot be evaluated
(cyclic or ill-formed heap); non-ASCII text to `stringLower`/`stringUpper`; a surrogate code point (all codes valid otherwise); a
number / datetime text the oracle does not know (or a dangling reference) met while stringifying. -/
theorem unmodelled_iff (T : TextFns) (f : String) (args : List Value) (h : Heap) :
    effMore T f args h = .unmodelled ↔ StillUnmodelled T f args h = true := by
  rw [lib_spec_more_eq]
  exact specMore_unmodelled_iff T f args h

/-- through the wrapper -/
theorem libMore_unmodelled_iff (T : TextFns) (f : String) (args : List Value) (h : Heap) :
    (libMore T f args h).1 = .unmodelled ↔ StillUnmodelled T f args h = true := by
  rw [← unmodelled_iff]
  unfold libMore
  cases effMore T f args h <;> simp [Eff.run]

/-- **lib_spec_more.** Outside the explicit class `StillUnmodelled` the extended model makes a claim (it is not `unmodelled`) and the
claim is the specification layer: documented signature, documented failure value, reference operation. -/
theorem lib_spec_more (T : TextFns) (f : String) (args : List Value) (h : Heap) (hs : StillUnmodelled T f args h = false) :
    effMore T f args h = specMore T f args h ∧ effMore T f args h ≠ .unmodelled ∧ (libMore T f args h).1 ≠ .unmodelled := by
  refine ⟨lib_spec_more_eq T f args h, ?_, ?_⟩
  · intro he
    rw [(unmodelled_iff T f args h).mp he] at hs
    cases hs
  · intro he
    rw [(libMore_unmodelled_iff T f args h).mp he] at hs
    cases hs

/-- **still_smaller.** The remaining class is contained in the old one: whatever is still unmodelled was unmodelled in `Lib`. -/
theorem still_smaller (T : TextFns) (f : String) (args : List Value) (h : Heap) (hs : StillUnmodelled T f args h = true) :
    eff f args h = .unmodelled := by
  refine Classical.byContradiction fun hne => ?_
  have := effMore_conservative T f args h hne
  rw [(unmodelled_iff T f args h).mpr hs] at this
  exact hne this.symm

/-- … and strictly so (for every oracle): a nested array, a sort, a `stringNew` -/
theorem still_strictly_smaller (T : TextFns) :
    (eff "arrayJoin" [.arr 0, .str ","] [.arr [.arr 1], .arr []] = .unmodelled ∧
      StillUnmodelled T "arrayJoin" [.arr 0, .str ","] [.arr [.arr 1], .arr []] = false) ∧
    (eff "arraySort" [.arr 0] [.arr [numN 2, numN 1]] = .unmodelled ∧ StillUnmodelled T "arraySort" [.arr 0] [.arr [numN 2, numN 1]] = false) ∧
    (eff "stringNew" [.bool true] [] = .unmodelled ∧ StillUnmodelled T "stringNew" [.bool true] [] = false) := by
  refine ⟨⟨by rw [eff_arrayJoin]; rfl, ?_⟩, ⟨eff_arraySort _ _, ?_⟩, ⟨eff_stringNew _ _, ?_⟩⟩
  · rfl
  · rfl
  · rfl

theorem tableNames_not_raw : ∀ f ∈ tableNames,
    (f == "arrayNew" || f == "objectNew") = false ∧ (f == "stringFromCharCode") = false := by decide

theorem stillBodies_some (T : TextFns) {f : String} (hf : f ∈ tableNames) : ∃ u, (stillBodies T).lookup f = some u := by
  simp only [tableNames, stillBodies, List.map_cons, List.map_nil, List.mem_cons, List.not_mem_nil, or_false] at hf
  rcases hf with rfl | rfl | rfl | rfl | rfl | rfl | rfl | rfl | rfl | rfl | rfl | rfl | rfl | rfl | rfl | rfl | rfl | rfl | rfl |
    rfl | rfl | rfl | rfl | rfl | rfl | rfl | rfl | rfl | rfl | rfl | rfl | rfl | rfl | rfl | rfl | rfl | rfl | rfl | rfl <;>
    exact ⟨_, rfl⟩

/-- a call whose arguments fail validation against the documented signature is never in the class -/
theorem fail_not_still (T : TextFns) (f : String) (ms : List Gen.ArgModel) (hms : docSigAll.lookup f = some ms)
    (args : List Value) (h : Heap) (hbad : validate h ms args = none) : StillUnmodelled T f args h = false := by
  have hf : f ∈ tableNames := by
    refine Classical.byContradiction fun hn => ?_
    rw [docSigAll_none hn] at hms; cases hms
  obtain ⟨h1, h2⟩ := tableNames_not_raw f hf
  obtain ⟨u, hu⟩ := stillBodies_some T hf
  unfold StillUnmodelled
  simp only [h1, h2, Bool.false_eq_true, if_false, hms, hu, hbad]

/-- non-vacuity of `fail_not_still` and of the class itself -/
example : docSigAll.lookup "arraySort" = some [arrP "array", { P "compareFn" (some "function") with nullable := true }] ∧
    validate [] [arrP "array", { P "compareFn" (some "function") with nullable := true }] [.str "x"] = none := by decide
example : StillUnmodelled TextFns.none "arraySort" [.arr 0, .fn 3] [.arr []] = true := by decide
example : StillUnmodelled TextFns.none "stringNew" [.num (mkRat 1 2)] [] = true := by decide
example : StillUnmodelled ⟨fun _ => some "0.5", fun _ => none⟩ "stringNew" [.num (mkRat 1 2)] [] = false := by decide
example : StillUnmodelled TextFns.none "mathAbs" [numN 1] [] = true := by decide

end C15More
