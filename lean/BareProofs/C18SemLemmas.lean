import BareModel.LintEdit
import BareProofs.C01EraseLemmas
import BareProofs.C09Fuel
import BareProofs.C08

/-!
# Helper lemmas for C18 — acting on a lint warning preserves every run

One generic *binary* frame lemma (two runs side by side), used three times (`C18Sem.lean`):

* states are related by `SR C` (same globals, same world, statement counters related by `C`): `C = (· = ·)` for the renamings
  (nothing changes, not even the counter), `C = ⊤` for the deletions (the deleted statement costs one tick);
* results by `OutSim / ArgsSim / ResSim esc C`: the same kind of result with the same value / error and related states; an
  out-of-fuel left-hand side is matched by anything when `esc` holds, by out-of-fuel otherwise;
* locals by `LocAgree U` (they agree on every name satisfying `U`; `U = ⊤` for the deletions, `U = (· ∉ {v, v'})` for a
  renaming), statements by `StmtRen U` (equal, or assignments of the same expression to two names outside `U`);
* `evalExpr_sim`, `runTree_sim`: expressions whose names are in `U` and library trees, with related call runners;
* `stepStmt`: one statement of `execM₀` as a function (`execM₀_succ`), `stepStmt_sim` its simulation, and the three
  "one more unit of fuel" lemmas `exec_step_sim`, `call_step_sim`, `incl_step_sim` that the inductions on the fuel are made of.
-/

set_option linter.unusedSimpArgs false
set_option linter.unusedSectionVars false
set_option linter.unusedVariables false

namespace C18
open Machine Lint LintEdit

variable {W : Type}

/-! ## relations -/

/-- same globals, same world, counters related by `C` -/
def SR (C : Nat → Nat → Prop) (s s' : State W) : Prop :=
  s.globals = s'.globals ∧ s.world = s'.world ∧ C s.count s'.count

def OutSim (esc : Prop) (C : Nat → Nat → Prop) (o o' : Out W) : Prop :=
  match o with
  | .ok v s => ∃ s', o' = .ok v s' ∧ SR C s s'
  | .err e s => ∃ s', o' = .err e s' ∧ SR C s s'
  | .oof => esc ∨ o' = .oof

def ArgsSim (esc : Prop) (C : Nat → Nat → Prop) (o o' : ArgsOut W) : Prop :=
  match o with
  | .ok v s => ∃ s', o' = .ok v s' ∧ SR C s s'
  | .err e s => ∃ s', o' = .err e s' ∧ SR C s s'
  | .oof => esc ∨ o' = .oof

def ResSim (esc : Prop) (C : Nat → Nat → Prop) (r r' : Res W) : Prop :=
  match r with
  | .done s => ∃ s', r' = .done s' ∧ SR C s s'
  | .ret v s => ∃ s', r' = .ret v s' ∧ SR C s s'
  | .err e s => ∃ s', r' = .err e s' ∧ SR C s s'
  | .oof => esc ∨ r' = .oof

/-- the two call runners agree on related states -/
def CallSim (esc : Prop) (C : Nat → Nat → Prop) (call call' : CallFn W) : Prop :=
  ∀ f args s s', SR C s s' → OutSim esc C (call f args s) (call' f args s')

/-- the two include runners agree on related states -/
def InclSim (esc : Prop) (C : Nat → Nat → Prop) (incl incl' : Option String → List IncludeScript → State W → Res W) : Prop :=
  ∀ base incs s s', SR C s s' → ResSim esc C (incl base incs s) (incl' base incs s')

section
variable {esc : Prop} {C : Nat → Nat → Prop}

theorem OutSim.bind {o o' : Out W} (h : OutSim esc C o o') {F F' : Value → State W → Out W}
    (hF : ∀ v s s', SR C s s' → OutSim esc C (F v s) (F' v s')) : OutSim esc C (o.bind F) (o'.bind F') := by
  cases o with
  | ok v s => obtain ⟨s', rfl, hs⟩ := h; exact hF v s s' hs
  | err e s => obtain ⟨s', rfl, hs⟩ := h; exact ⟨s', rfl, hs⟩
  | oof =>
    rcases h with h | rfl
    · exact Or.inl h
    · exact Or.inr rfl

theorem OutSim.bindA {o o' : Out W} (h : OutSim esc C o o') {F F' : Value → State W → ArgsOut W}
    (hF : ∀ v s s', SR C s s' → ArgsSim esc C (F v s) (F' v s')) : ArgsSim esc C (o.bindA F) (o'.bindA F') := by
  cases o with
  | ok v s => obtain ⟨s', rfl, hs⟩ := h; exact hF v s s' hs
  | err e s => obtain ⟨s', rfl, hs⟩ := h; exact ⟨s', rfl, hs⟩
  | oof =>
    rcases h with h | rfl
    · exact Or.inl h
    · exact Or.inr rfl

theorem ArgsSim.bindO {o o' : ArgsOut W} (h : ArgsSim esc C o o') {F F' : List Value → State W → Out W}
    (hF : ∀ v s s', SR C s s' → OutSim esc C (F v s) (F' v s')) : OutSim esc C (o.bindO F) (o'.bindO F') := by
  cases o with
  | ok v s => obtain ⟨s', rfl, hs⟩ := h; exact hF v s s' hs
  | err e s => obtain ⟨s', rfl, hs⟩ := h; exact ⟨s', rfl, hs⟩
  | oof =>
    rcases h with h | rfl
    · exact Or.inl h
    · exact Or.inr rfl

theorem OutSim.ok {s s' : State W} (v : Value) (h : SR C s s') : OutSim esc C (.ok v s) (.ok v s') := ⟨s', rfl, h⟩
theorem OutSim.err {s s' : State W} (e : RtErr) (h : SR C s s') : OutSim esc C (.err e s) (.err e s') := ⟨s', rfl, h⟩

end

/-! ## locals that agree on the names in `U` -/

def LocAgree (U : Name → Prop) : Option Env → Option Env → Prop
  | some a, some b => ∀ n, U n → a.get? n = b.get? n
  | none, none => True
  | _, _ => False

theorem LocAgree.refl (U : Name → Prop) : ∀ l : Option Env, LocAgree U l l
  | none => trivial
  | some _ => fun _ _ => rfl

theorem LocAgree.isSome {U : Name → Prop} : ∀ {l l' : Option Env}, LocAgree U l l' → l'.isSome = l.isSome
  | none, none, _ => rfl
  | some _, some _, _ => rfl
  | none, some _, h => h.elim
  | some _, none, h => h.elim

theorem lookupVar_agree {U : Name → Prop} {l l' : Option Env} (hl : LocAgree U l l') (g : Env) {n : Name} (hn : U n) :
    lookupVar l g n = lookupVar l' g n := by
  cases l <;> cases l' <;> simp only [LocAgree] at hl
  · rfl
  · simp only [lookupVar, C01.contains_eq, hl n hn]

theorem lookupFunc_agree (cfg : Config W) {U : Name → Prop} {l l' : Option Env} (hl : LocAgree U l l') (g : Env) {n : Name}
    (hn : U n) : lookupFunc cfg l g n = lookupFunc cfg l' g n := by
  cases l <;> cases l' <;> simp only [LocAgree] at hl
  · rfl
  · simp only [lookupFunc, C01.contains_eq, hl n hn]

theorem LocAgree.set {U : Name → Prop} {a b : Env} (h : LocAgree U (some a) (some b)) (n : Name) (v : Value) :
    LocAgree U (some (a.set n v)) (some (b.set n v)) := by
  intro m hm
  simp only [C01.get?_set, h m hm]

theorem LocAgree.set_off {U : Name → Prop} {a b : Env} (h : LocAgree U (some a) (some b)) {x x' : Name}
    (hx : ¬ U x) (hx' : ¬ U x') (v v' : Value) : LocAgree U (some (a.set x v)) (some (b.set x' v')) := by
  intro m hm
  have h1 : m ≠ x := fun e => hx (e ▸ hm)
  have h2 : m ≠ x' := fun e => hx' (e ▸ hm)
  simp only [C01.get?_set, h1, h2, if_false, h m hm]

/-! ## the frame lemma for expressions -/

theorem callLooked_sim {esc : Prop} {C : Nat → Nat → Prop} {call call' : CallFn W} (hc : CallSim esc C call call') (n : Name)
    (r : Option Value) (vs : List Value) {s s' : State W} (hs : SR C s s') :
    OutSim esc C (C01.callLooked call n r vs s) (C01.callLooked call' n r vs s') := by
  cases r with
  | none => exact OutSim.err _ hs
  | some fv =>
    cases fv with
    | null => exact OutSim.err _ hs
    | _ => exact hc _ vs s s' hs

section
variable (cfg : Config W) {esc : Prop} {C : Nat → Nat → Prop} {call call' : CallFn W} (hc : CallSim esc C call call')
  {U : Name → Prop} {l l' : Option Env} (hl : LocAgree U l l')
include hc hl

mutual
/-- **frame lemma**: an expression all of whose names are in `U` evaluates, on locals that agree on `U`, related states and
with related call runners, to related results -/
theorem evalExpr_sim : ∀ (e : Expr) (st st' : State W), (∀ n ∈ exprUses e, U n) → SR C st st' →
    OutSim esc C (evalExpr cfg call l e st) (evalExpr cfg call' l' e st')
  | .number q, st, st', _, hs => by simp only [evalExpr]; exact OutSim.ok _ hs
  | .string q, st, st', _, hs => by simp only [evalExpr]; exact OutSim.ok _ hs
  | .variable n, st, st', hn, hs => by
      have hU : U n := hn n (by simp [exprUses])
      simp only [evalExpr, lookupVar_agree hl _ hU, ← hs.1]
      by_cases h1 : n = kwNull
      · simp only [h1, if_true]; exact OutSim.ok _ hs
      · by_cases h2 : n = kwFalse
        · simp only [h1, h2, if_true, if_false]; exact OutSim.ok _ hs
        · by_cases h3 : n = kwTrue
          · simp only [h1, h2, h3, if_true, if_false]; exact OutSim.ok _ hs
          · simp only [h1, h2, h3, if_false]; exact OutSim.ok _ hs
  | .function n args, st, st', hn, hs => by
      have hU : U n := hn n (by simp [exprUses])
      have hA : ∀ m ∈ argsUses args, U m := fun m hm => hn m (by simp [exprUses, hm])
      by_cases h : n = kwIf
      · simp only [evalExpr, h, if_true]
        exact evalIf_sim args st st' hA hs
      · simp only [C01.evalExpr_function cfg _ _ n args _ h]
        refine ArgsSim.bindO (evalArgs_sim args st st' hA hs) ?_
        intro vs s s' hs1
        rw [lookupFunc_agree cfg hl _ hU, ← hs1.1]
        exact callLooked_sim hc n _ vs hs1
  | .binary op a b, st, st', hn, hs => by
      have hA : ∀ m ∈ exprUses a, U m := fun m hm => hn m (by simp [exprUses, hm])
      have hB : ∀ m ∈ exprUses b, U m := fun m hm => hn m (by simp [exprUses, hm])
      by_cases h1 : op = .and
      · subst h1
        simp only [C01.evalExpr_and]
        refine OutSim.bind (evalExpr_sim a st st' hA hs) ?_
        intro v s s' hs1
        simp only [← hs1.2.1]
        split
        · exact evalExpr_sim b s s' hB hs1
        · exact OutSim.ok _ hs1
      · by_cases h2 : op = .or
        · subst h2
          simp only [C01.evalExpr_or]
          refine OutSim.bind (evalExpr_sim a st st' hA hs) ?_
          intro v s s' hs1
          simp only [← hs1.2.1]
          split
          · exact OutSim.ok _ hs1
          · exact evalExpr_sim b s s' hB hs1
        · simp only [C01.evalExpr_binary cfg _ _ op a b _ h1 h2]
          refine OutSim.bind (evalExpr_sim a st st' hA hs) ?_
          intro v s s' hs1
          refine OutSim.bind (evalExpr_sim b s s' hB hs1) ?_
          intro v2 s2 s2' hs2
          simp only [← hs2.2.1]
          exact OutSim.ok _ hs2
  | .unary .not a, st, st', hn, hs => by
      have hA : ∀ m ∈ exprUses a, U m := fun m hm => hn m (by simp [exprUses, hm])
      simp only [C01.evalExpr_not]
      refine OutSim.bind (evalExpr_sim a st st' hA hs) ?_
      intro v s s' hs1
      simp only [← hs1.2.1]
      exact OutSim.ok _ hs1
  | .unary .neg a, st, st', hn, hs => by
      have hA : ∀ m ∈ exprUses a, U m := fun m hm => hn m (by simp [exprUses, hm])
      simp only [C01.evalExpr_neg]
      refine OutSim.bind (evalExpr_sim a st st' hA hs) ?_
      intro v s s' hs1
      exact OutSim.ok _ hs1
  | .group a, st, st', hn, hs => by
      have hA : ∀ m ∈ exprUses a, U m := fun m hm => hn m (by simp [exprUses, hm])
      simp only [evalExpr]
      exact evalExpr_sim a st st' hA hs

theorem evalArgs_sim : ∀ (as : List Expr) (st st' : State W), (∀ n ∈ argsUses as, U n) → SR C st st' →
    ArgsSim esc C (evalArgs cfg call l as st) (evalArgs cfg call' l' as st')
  | [], st, st', _, hs => by simp only [evalArgs]; exact ⟨st', rfl, hs⟩
  | a :: as, st, st', hn, hs => by
      have hA : ∀ m ∈ exprUses a, U m := fun m hm => hn m (by simp [argsUses, hm])
      have hB : ∀ m ∈ argsUses as, U m := fun m hm => hn m (by simp [argsUses, hm])
      simp only [C01.evalArgs_cons]
      refine OutSim.bindA (evalExpr_sim a st st' hA hs) ?_
      intro v s s' hs1
      have ih := evalArgs_sim as s s' hB hs1
      cases hX : evalArgs cfg call l as s with
      | oof =>
        rw [hX] at ih
        rcases ih with h | h
        · exact Or.inl h
        · rw [h]; exact Or.inr rfl
      | err e s2 =>
        rw [hX] at ih
        obtain ⟨s2', h, hs2⟩ := ih
        rw [h]; exact ⟨s2', rfl, hs2⟩
      | ok vs s2 =>
        rw [hX] at ih
        obtain ⟨s2', h, hs2⟩ := ih
        rw [h]; exact ⟨s2', rfl, hs2⟩

theorem evalIf_sim : ∀ (as : List Expr) (st st' : State W), (∀ n ∈ argsUses as, U n) → SR C st st' →
    OutSim esc C (evalIf cfg call l as st) (evalIf cfg call' l' as st')
  | [], st, st', _, hs => by simp only [evalIf]; exact OutSim.ok _ hs
  | [c], st, st', hn, hs => by
      have hA : ∀ m ∈ exprUses c, U m := fun m hm => hn m (by simp [argsUses, hm])
      simp only [C01.evalIf_1]
      refine OutSim.bind (evalExpr_sim c st st' hA hs) ?_
      intro v s s' hs1
      exact OutSim.ok _ hs1
  | [c, t], st, st', hn, hs => by
      have hA : ∀ m ∈ exprUses c, U m := fun m hm => hn m (by simp [argsUses, hm])
      have hB : ∀ m ∈ exprUses t, U m := fun m hm => hn m (by simp [argsUses, hm])
      simp only [C01.evalIf_2]
      refine OutSim.bind (evalExpr_sim c st st' hA hs) ?_
      intro v s s' hs1
      simp only [← hs1.2.1]
      split
      · exact evalExpr_sim t s s' hB hs1
      · exact OutSim.ok _ hs1
  | c :: t :: f :: r, st, st', hn, hs => by
      have hA : ∀ m ∈ exprUses c, U m := fun m hm => hn m (by simp [argsUses, hm])
      have hB : ∀ m ∈ exprUses t, U m := fun m hm => hn m (by simp [argsUses, hm])
      have hC : ∀ m ∈ exprUses f, U m := fun m hm => hn m (by simp [argsUses, hm])
      simp only [C01.evalIf_3]
      refine OutSim.bind (evalExpr_sim c st st' hA hs) ?_
      intro v s s' hs1
      simp only [← hs1.2.1]
      split
      · exact evalExpr_sim t s s' hB hs1
      · exact evalExpr_sim f s s' hC hs1
end
end

/-! ## library trees -/

theorem runTree_sim (cfg : Config W) {esc : Prop} {C : Nat → Nat → Prop} {call call' : CallFn W}
    (hc : CallSim esc C call call') : ∀ (t : LibTree W) (s s' : State W), SR C s s' →
    OutSim esc C (runTree cfg call t s) (runTree cfg call' t s') := by
  intro t
  induction t with
  | ret out w =>
    intro s s' hs
    cases out <;> simp only [runTree]
    · exact OutSim.ok _ ⟨hs.1, rfl, hs.2.2⟩
    · exact OutSim.ok _ ⟨hs.1, rfl, hs.2.2⟩
    · exact OutSim.err _ ⟨hs.1, rfl, hs.2.2⟩
  | call f args w k ih =>
    intro s s' hs
    simp only [runTree]
    have h := hc f args { s with world := w } { s' with world := w } ⟨hs.1, rfl, hs.2.2⟩
    cases hX : call f args { s with world := w } with
    | ok v s1 =>
      rw [hX] at h
      obtain ⟨s1', h', hs1⟩ := h
      rw [h']
      simp only [hs1.2.1]
      exact ih v s1'.world s1 s1' hs1
    | err e s1 =>
      rw [hX] at h
      obtain ⟨s1', h', hs1⟩ := h
      rw [h']; exact ⟨s1', rfl, hs1⟩
    | oof =>
      rw [hX] at h
      rcases h with h | h
      · exact Or.inl h
      · rw [h]; exact Or.inr rfl
  | globalGet n w k ih =>
    intro s s' hs
    simp only [runTree, ← hs.1]
    exact ih _ _ _ _ ⟨rfl, rfl, hs.2.2⟩
  | globalSet n v w k ih =>
    intro s s' hs
    simp only [runTree]
    exact ih _ _ _ ⟨by simp only [hs.1], rfl, hs.2.2⟩

/-! ## one statement of `execM₀` as a function -/

/-- what one statement does: continue with the next statement, take a jump, or end the run of the list -/
inductive Step (W : Type) where
  | next (locals : Option Env) (st : State W)
  | goto (l : Name) (st : State W)
  | halt (r : Res W)

/-- the statement cases of `execM₀` (after the tick), parametric in the call and include runners -/
def stepStmt (cfg : Config W) (call : CallFn W) (incl : List IncludeScript → State W → Res W) (locals : Option Env) :
    Stmt → State W → Step W
  | .expr name e, st1 =>
      match evalExpr cfg call locals e st1 with
      | .ok v st2 =>
          match name, locals with
          | none, _ => .next locals st2
          | some n, some l => .next (some (l.set n v)) st2
          | some n, none => .next none { st2 with globals := st2.globals.set n v }
      | .err e st2 => .halt (.err e st2)
      | .oof => .halt .oof
  | .jump l none, st1 => .goto l st1
  | .jump l (some c), st1 =>
      match evalExpr cfg call locals c st1 with
      | .ok v st2 => if cfg.host.truthy v st2.world then .goto l st2 else .next locals st2
      | .err e st2 => .halt (.err e st2)
      | .oof => .halt .oof
  | .ret none, st1 => .halt (.ret .null st1)
  | .ret (some e), st1 =>
      match evalExpr cfg call locals e st1 with
      | .ok v st2 => .halt (.ret v st2)
      | .err e st2 => .halt (.err e st2)
      | .oof => .halt .oof
  | .label _, st1 => .next locals st1
  | .function fid name _ _ _ _, st1 => .next locals { st1 with globals := st1.globals.set name (.fn (.script fid)) }
  | .include incs, st1 =>
      match incl incs st1 with
      | .done st2 => .next locals st2
      | o => .halt o

/-- how the machine goes on after a statement -/
def Step.run (P : List Stmt) (k : Option Env → Nat → State W → Res W) (locals : Option Env) (pc : Nat) : Step W → Res W
  | .next l st => k l (pc + 1) st
  | .goto lab st =>
      match findLabel P lab with
      | some i => k locals (i + 1) st
      | none => .err (.unknownLabel lab) st
  | .halt r => r

theorem execM₀_none (cfg : Config W) (f : Nat) (P : List Stmt) (l : Option Env) (base : Option String) (pc : Nat) (st : State W)
    (h : P[pc]? = none) : execM₀ cfg f P l base pc st = .done st := by
  rw [execM₀.eq_1]; simp only [h]

theorem execM₀_zero (cfg : Config W) (P : List Stmt) (l : Option Env) (base : Option String) (pc : Nat) (st : State W) (s : Stmt)
    (h : P[pc]? = some s) : execM₀ cfg 0 P l base pc st = .oof := by
  rw [execM₀.eq_1]; simp only [h]

/-- **one step of `execM₀`**: tick, budget test, `stepStmt`, continuation -/
theorem execM₀_succ (cfg : Config W) (f : Nat) (P : List Stmt) (l : Option Env) (base : Option String) (pc : Nat) (st : State W)
    (s : Stmt) (hs : P[pc]? = some s) :
    execM₀ cfg (f+1) P l base pc st =
      if cfg.maxStatements > 0 && st.count + 1 > cfg.maxStatements then
        .err (.exceeded cfg.maxStatements) { st with count := st.count + 1 }
      else
        (stepStmt cfg (callValue₀ cfg f) (execIncludes₀ cfg f base) l s { st with count := st.count + 1 }).run P
          (fun l' pc' st' => execM₀ cfg f P l' base pc' st') l pc := by
  rw [execM₀.eq_1]
  simp only [hs]
  split
  · rfl
  · cases s with
    | expr name e =>
      simp only [stepStmt]
      cases evalExpr cfg (callValue₀ cfg f) l e { st with count := st.count + 1 } with
      | ok v st2 => cases name <;> cases l <;> rfl
      | err e st2 => rfl
      | oof => rfl
    | jump lab c =>
      cases c with
      | none => simp only [stepStmt, Step.run]; cases findLabel P lab <;> rfl
      | some c =>
        simp only [stepStmt]
        cases evalExpr cfg (callValue₀ cfg f) l c { st with count := st.count + 1 } with
        | ok v st2 =>
          simp only
          split
          · simp only [Step.run]; cases findLabel P lab <;> rfl
          · simp only [Step.run]
        | err e st2 => rfl
        | oof => rfl
    | ret e =>
      cases e with
      | none => rfl
      | some e =>
        simp only [stepStmt]
        cases evalExpr cfg (callValue₀ cfg f) l e { st with count := st.count + 1 } <;> rfl
    | label lab => rfl
    | function fid name args laa isAsync body => rfl
    | «include» incs =>
      simp only [stepStmt]
      cases execIncludes₀ cfg f base incs { st with count := st.count + 1 } <;> rfl

theorem stepStmt_goto {cfg : Config W} {call : CallFn W} {incl : List IncludeScript → State W → Res W} {l : Option Env}
    {s : Stmt} {st st2 : State W} {lab : Name} (h : stepStmt cfg call incl l s st = .goto lab st2) : ∃ c, s = .jump lab c := by
  cases s with
  | expr name e =>
    simp only [stepStmt] at h
    cases hX : evalExpr cfg call l e st with
    | ok v st2 => rw [hX] at h; cases name <;> cases l <;> cases h
    | err e st2 => rw [hX] at h; cases h
    | oof => rw [hX] at h; cases h
  | jump lab' c =>
    cases c with
    | none => simp only [stepStmt] at h; cases h; exact ⟨_, rfl⟩
    | some c =>
      simp only [stepStmt] at h
      cases hX : evalExpr cfg call l c st with
      | ok v st2 =>
        rw [hX] at h
        simp only at h
        split at h
        · cases h; exact ⟨_, rfl⟩
        · cases h
      | err e st2 => rw [hX] at h; cases h
      | oof => rw [hX] at h; cases h
  | ret e =>
    cases e with
    | none => cases h
    | some e =>
      simp only [stepStmt] at h
      cases hX : evalExpr cfg call l e st <;> rw [hX] at h <;> cases h
  | label lab => cases h
  | function fid name args laa isAsync body => cases h
  | «include» incs =>
    simp only [stepStmt] at h
    cases hX : incl incs st <;> rw [hX] at h <;> cases h

theorem stepStmt_next_isSome {cfg : Config W} {call : CallFn W} {incl : List IncludeScript → State W → Res W} {l l1 : Option Env}
    {s : Stmt} {st st2 : State W} (h : stepStmt cfg call incl l s st = .next l1 st2) : l1.isSome = l.isSome := by
  cases s with
  | expr name e =>
    simp only [stepStmt] at h
    cases hX : evalExpr cfg call l e st with
    | ok v st2 =>
      rw [hX] at h
      cases name <;> cases l <;> simp only [Step.next.injEq] at h <;> rw [← h.1] <;> rfl
    | err e st2 => rw [hX] at h; cases h
    | oof => rw [hX] at h; cases h
  | jump lab' c =>
    cases c with
    | none => simp only [stepStmt] at h; cases h
    | some c =>
      simp only [stepStmt] at h
      cases hX : evalExpr cfg call l c st with
      | ok v st2 =>
        rw [hX] at h
        simp only at h
        split at h
        · cases h
        · cases h; rfl
      | err e st2 => rw [hX] at h; cases h
      | oof => rw [hX] at h; cases h
  | ret e =>
    cases e with
    | none => cases h
    | some e =>
      simp only [stepStmt] at h
      cases hX : evalExpr cfg call l e st <;> rw [hX] at h <;> cases h
  | label lab => cases h; rfl
  | function fid name args laa isAsync body => cases h; rfl
  | «include» incs =>
    simp only [stepStmt] at h
    cases hX : incl incs st <;> rw [hX] at h <;> cases h
    rfl

theorem stepStmt_cfg {c c' : Config W} (hh : c'.host = c.host) (hb : c'.builtins = c.builtins) (call : CallFn W)
    (incl : List IncludeScript → State W → Res W) (l : Option Env) (s : Stmt) (st : State W) :
    stepStmt c' call incl l s st = stepStmt c call incl l s st := by
  cases s with
  | jump lab c => cases c <;> simp only [stepStmt, C01.evalExpr_cfg hh hb, hh]
  | ret e => cases e <;> simp only [stepStmt, C01.evalExpr_cfg hh hb, hh]
  | _ => simp only [stepStmt, C01.evalExpr_cfg hh hb, hh]

/-! ## simulation of one statement -/

/-- the two statements are the same, or (inside a function) assign the same expression to two names outside `U` -/
def StmtRen (U : Name → Prop) (l : Option Env) (s s' : Stmt) : Prop :=
  s' = s ∨ ∃ x x' e, s = .expr (some x) e ∧ s' = .expr (some x') e ∧ ¬ U x ∧ ¬ U x' ∧ l.isSome = true

def StepSim (esc : Prop) (C : Nat → Nat → Prop) (U : Name → Prop) (x x' : Step W) : Prop :=
  match x with
  | .next l s => ∃ l' s', x' = .next l' s' ∧ LocAgree U l l' ∧ SR C s s'
  | .goto lab s => ∃ s', x' = .goto lab s' ∧ SR C s s'
  | .halt r => (r = .oof ∧ esc) ∨ ∃ r', x' = .halt r' ∧ ResSim esc C r r'

theorem stepStmt_sim (cfg : Config W) {esc : Prop} {C : Nat → Nat → Prop} {call call' : CallFn W}
    (hc : CallSim esc C call call') {incl incl' : List IncludeScript → State W → Res W}
    (hi : ∀ incs s s', SR C s s' → ResSim esc C (incl incs s) (incl' incs s'))
    {U : Name → Prop} {l l' : Option Env} (hl : LocAgree U l l') {s s' : Stmt} (hs : StmtRen U l s s')
    (hU : ∀ n ∈ stmtUses s, U n) {st st' : State W} (hst : SR C st st') :
    StepSim esc C U (stepStmt cfg call incl l s st) (stepStmt cfg call' incl' l' s' st') := by
  have hexpr : ∀ (name name' : Option Name) (e : Expr), (∀ n ∈ exprUses e, U n) →
      (name' = name ∨ ∃ x x', name = some x ∧ name' = some x' ∧ ¬ U x ∧ ¬ U x' ∧ l.isSome = true) →
      StepSim esc C U (stepStmt cfg call incl l (.expr name e) st) (stepStmt cfg call' incl' l' (.expr name' e) st') := by
    intro name name' e hUe hn
    have he := evalExpr_sim cfg hc hl e st st' hUe hst
    simp only [stepStmt]
    cases hX : evalExpr cfg call l e st with
    | ok v st2 =>
      rw [hX] at he
      obtain ⟨st2', h', hs2⟩ := he
      rw [h']
      rcases hn with rfl | ⟨x, x', rfl, rfl, hx, hx', hsome⟩
      · cases name' with
        | none => exact ⟨l', st2', rfl, hl, hs2⟩
        | some n =>
          cases l with
          | none =>
            cases l' with
            | none => exact ⟨none, _, rfl, trivial, by simp only [hs2.1], hs2.2.1, hs2.2.2⟩
            | some b => exact hl.elim
          | some a =>
            cases l' with
            | none => exact hl.elim
            | some b => exact ⟨_, st2', rfl, LocAgree.set hl n v, hs2⟩
      · cases l with
        | none => cases hsome
        | some a =>
          cases l' with
          | none => exact hl.elim
          | some b => exact ⟨_, st2', rfl, LocAgree.set_off hl hx hx' v v, hs2⟩
    | err e2 st2 =>
      rw [hX] at he
      obtain ⟨st2', h', hs2⟩ := he
      rw [h']
      exact Or.inr ⟨_, rfl, st2', rfl, hs2⟩
    | oof =>
      rw [hX] at he
      rcases he with h | h
      · exact Or.inl ⟨rfl, h⟩
      · rw [h]; exact Or.inr ⟨_, rfl, Or.inr rfl⟩
  rcases hs with rfl | ⟨x, x', e, rfl, rfl, hx, hx', hsome⟩
  · cases s' with
    | expr name e => exact hexpr name name e hU (Or.inl rfl)
    | jump lab c =>
      cases c with
      | none => exact ⟨st', rfl, hst⟩
      | some c =>
        have he := evalExpr_sim cfg hc hl c st st' hU hst
        simp only [stepStmt]
        cases hX : evalExpr cfg call l c st with
        | ok v st2 =>
          rw [hX] at he
          obtain ⟨st2', h', hs2⟩ := he
          rw [h']
          simp only [← hs2.2.1]
          split
          · exact ⟨st2', rfl, hs2⟩
          · exact ⟨l', st2', rfl, hl, hs2⟩
        | err e2 st2 =>
          rw [hX] at he
          obtain ⟨st2', h', hs2⟩ := he
          rw [h']
          exact Or.inr ⟨_, rfl, st2', rfl, hs2⟩
        | oof =>
          rw [hX] at he
          rcases he with h | h
          · exact Or.inl ⟨rfl, h⟩
          · rw [h]; exact Or.inr ⟨_, rfl, Or.inr rfl⟩
    | ret e =>
      cases e with
      | none => exact Or.inr ⟨_, rfl, st', rfl, hst⟩
      | some e =>
        have he := evalExpr_sim cfg hc hl e st st' hU hst
        simp only [stepStmt]
        cases hX : evalExpr cfg call l e st with
        | ok v st2 =>
          rw [hX] at he
          obtain ⟨st2', h', hs2⟩ := he
          rw [h']
          exact Or.inr ⟨_, rfl, st2', rfl, hs2⟩
        | err e2 st2 =>
          rw [hX] at he
          obtain ⟨st2', h', hs2⟩ := he
          rw [h']
          exact Or.inr ⟨_, rfl, st2', rfl, hs2⟩
        | oof =>
          rw [hX] at he
          rcases he with h | h
          · exact Or.inl ⟨rfl, h⟩
          · rw [h]; exact Or.inr ⟨_, rfl, Or.inr rfl⟩
    | label lab => exact ⟨l', st', rfl, hl, hst⟩
    | function fid name args laa isAsync body =>
      exact ⟨l', _, rfl, hl, by simp only [hst.1], hst.2.1, hst.2.2⟩
    | «include» incs =>
      have h := hi incs st st' hst
      simp only [stepStmt]
      cases hX : incl incs st with
      | done st2 =>
        rw [hX] at h
        obtain ⟨st2', h', hs2⟩ := h
        rw [h']
        exact ⟨l', st2', rfl, hl, hs2⟩
      | ret v st2 =>
        rw [hX] at h
        obtain ⟨st2', h', hs2⟩ := h
        rw [h']
        exact Or.inr ⟨_, rfl, st2', rfl, hs2⟩
      | err e st2 =>
        rw [hX] at h
        obtain ⟨st2', h', hs2⟩ := h
        rw [h']
        exact Or.inr ⟨_, rfl, st2', rfl, hs2⟩
      | oof =>
        rw [hX] at h
        rcases h with h | h
        · exact Or.inl ⟨rfl, h⟩
        · rw [h]; exact Or.inr ⟨_, rfl, Or.inr rfl⟩
  · exact hexpr (some x) (some x') e hU (Or.inr ⟨x, x', rfl, rfl, hx, hx', hsome⟩)

/-! ## unfolding the call wrapper and the include runner -/

/-- the body of `_script_function`: bind the parameters, run the body, the result of the list is the value -/
def callBody (cfg : Config W) (f : Nat) (fd : FuncDef) (args : List Value) (st : State W) : Out W :=
  match execM₀ cfg f fd.body (some (bindArgs cfg.host fd.lastArgArray fd.args args [] st.world).1) none 0
      { st with world := (bindArgs cfg.host fd.lastArgArray fd.args args [] st.world).2 } with
  | .done st' => .ok .null st'
  | .ret v st' => .ok v st'
  | .err e st' => .err e st'
  | .oof => .oof

theorem callValue₀_script_some (cfg : Config W) (f : Nat) (id : FnId) (fd : FuncDef) (args : List Value) (st : State W)
    (h : cfg.funs id = some fd) : callValue₀ cfg (f+1) (.fn (.script id)) args st = callBody cfg f fd args st := by
  rw [callValue₀.eq_def]
  simp only [h, callBody]
  cases execM₀ cfg f fd.body (some (bindArgs cfg.host fd.lastArgArray fd.args args [] st.world).fst) none 0
      { globals := st.globals, world := (bindArgs cfg.host fd.lastArgArray fd.args args [] st.world).snd,
        count := st.count } <;> rfl

theorem callValue₀_script_none (cfg : Config W) (f : Nat) (id : FnId) (args : List Value) (st : State W)
    (h : cfg.funs id = none) : callValue₀ cfg (f+1) (.fn (.script id)) args st =
      .ok .null { st with world := cfg.host.notCallable (.fn (.script id)) st.world } := by
  rw [callValue₀.eq_def]
  simp only [h]

theorem callValue₀_lib (cfg : Config W) (f : Nat) (name : String) (args : List Value) (st : State W) :
    callValue₀ cfg (f+1) (.fn (.lib name)) args st =
      runTree cfg (callValue₀ cfg f) (cfg.host.lib name args st.world) st := by
  rw [callValue₀.eq_def]

theorem callValue₀_other (cfg : Config W) (f : Nat) (k : Nat) (args : List Value) (st : State W) :
    callValue₀ cfg (f+1) (.fn (.other k)) args st =
      runTree cfg (callValue₀ cfg f) (cfg.host.other k args st.world) st := by
  rw [callValue₀.eq_def]

theorem callValue₀_nonfn (cfg : Config W) (f : Nat) (v : Value) (args : List Value) (st : State W) (h : ∀ fv, v ≠ .fn fv) :
    callValue₀ cfg (f+1) v args st = .ok .null { st with world := cfg.host.notCallable v st.world } := by
  rw [callValue₀.eq_def]
  cases v with
  | fn fv => exact absurd rfl (h fv)
  | _ => rfl

theorem execIncludes₀_nil (cfg : Config W) (f : Nat) (base : Option String) (st : State W) :
    execIncludes₀ cfg f base [] st = .done st := by
  rw [execIncludes₀.eq_1]

/-- the continuation of an include entry -/
def inclK (cfg : Config W) (f : Nat) (base : Option String) (rest : List IncludeScript) : Res W → Res W
  | .done st' => execIncludes₀ cfg f base rest st'
  | .ret _ st' => execIncludes₀ cfg f base rest st'
  | o => o

theorem execIncludes₀_cons_succ (cfg : Config W) (f : Nat) (base : Option String) (inc : IncludeScript)
    (rest : List IncludeScript) (st : State W) :
    execIncludes₀ cfg (f+1) base (inc :: rest) st =
      match cfg.fetch (cfg.resolve base inc) with
      | .missing => .err (.includeFailed (cfg.resolve base inc)) st
      | .broken => .err (.includeParse (cfg.resolve base inc)) st
      | .script stmts => inclK cfg f base rest (execM₀ cfg f stmts none (some (cfg.resolve base inc)) 0 st) := by
  rw [execIncludes₀.eq_2]
  cases cfg.fetch (cfg.resolve base inc) with
  | missing => rfl
  | broken => rfl
  | script stmts =>
    simp only [inclK]
    cases execM₀ cfg f stmts none (some (cfg.resolve base inc)) 0 st <;> rfl

theorem execIncludes₀_cons_zero (cfg : Config W) (base : Option String) (inc : IncludeScript)
    (rest : List IncludeScript) (st : State W) :
    execIncludes₀ cfg 0 base (inc :: rest) st =
      match cfg.fetch (cfg.resolve base inc) with
      | .missing => .err (.includeFailed (cfg.resolve base inc)) st
      | .broken => .err (.includeParse (cfg.resolve base inc)) st
      | .script _ => .oof := by
  rw [execIncludes₀.eq_2]
  cases cfg.fetch (cfg.resolve base inc) <;> rfl

/-! ## configurations that differ in the function table only -/

structure CfgSame (c c' : Config W) : Prop where
  host : c'.host = c.host
  builtins : c'.builtins = c.builtins
  debug : c'.debug = c.debug
  resolve : c'.resolve = c.resolve
  fetch : c'.fetch = c.fetch
  max : c'.maxStatements = c.maxStatements

theorem CfgSame.symm {c c' : Config W} (h : CfgSame c c') : CfgSame c' c :=
  ⟨h.host.symm, h.builtins.symm, h.debug.symm, h.resolve.symm, h.fetch.symm, h.max.symm⟩

theorem CfgSame.withFuns (c : Config W) (funs : FnId → Option FuncDef) : CfgSame c { c with funs := funs } :=
  ⟨rfl, rfl, rfl, rfl, rfl, rfl⟩

theorem CfgSame.setFun (c : Config W) (id : FnId) (fd : FuncDef) : CfgSame c (setFun c id fd) :=
  ⟨rfl, rfl, rfl, rfl, rfl, rfl⟩

/-! ## one more unit of fuel: statements, calls, includes -/

section
variable {esc : Prop} {C : Nat → Nat → Prop}

/-- **the statement step.**  Both lists are at a statement (`sA` / `sB`, related by `StmtRen`), the positions after it and the
targets of its jump are related by `PR`, and runs from `PR`-related positions are related at the smaller fuels: then the runs
from here are related with one more unit of fuel. -/
theorem exec_step_sim {U : Name → Prop} (hCs : ∀ a b, C a b → C (a+1) (b+1))
    {cA cB : Config W} (hcfg : CfgSame cA cB) (hbud : cA.maxStatements = 0 ∨ ∀ a b, C a b → a = b)
    {fA fB : Nat} (hcall : CallSim esc C (callValue₀ cA fA) (callValue₀ cB fB))
    (hincl : InclSim esc C (execIncludes₀ cA fA) (execIncludes₀ cB fB))
    {PA PB : List Stmt} {PR : Nat → Nat → Prop}
    {l l' : Option Env}
    (hcont : ∀ a b, PR a b → ∀ l1 l1' base s s', LocAgree U l1 l1' → l1.isSome = l.isSome → SR C s s' →
        ResSim esc C (execM₀ cA fA PA l1 base a s) (execM₀ cB fB PB l1' base b s'))
    {pcA pcB : Nat} {sA sB : Stmt} (hA : PA[pcA]? = some sA) (hB : PB[pcB]? = some sB)
    (hnext : PR (pcA+1) (pcB+1))
    (hjN : ∀ lab c, sA = .jump lab c → findLabel PA lab = none → findLabel PB lab = none)
    (hjS : ∀ lab c i, sA = .jump lab c → findLabel PA lab = some i → ∃ j, findLabel PB lab = some j ∧ PR (i+1) (j+1))
    (hl : LocAgree U l l') (hs : StmtRen U l sA sB) (hU : ∀ n ∈ stmtUses sA, U n)
    (base : Option String) {s s' : State W} (hst : SR C s s') :
    ResSim esc C (execM₀ cA (fA+1) PA l base pcA s) (execM₀ cB (fB+1) PB l' base pcB s') := by
  rw [execM₀_succ cA fA PA l base pcA s sA hA, execM₀_succ cB fB PB l' base pcB s' sB hB]
  have hst1 : SR C { s with count := s.count + 1 } { s' with count := s'.count + 1 } := ⟨hst.1, hst.2.1, hCs _ _ hst.2.2⟩
  have hcond : (decide (cB.maxStatements > 0) && decide (s'.count + 1 > cB.maxStatements)) =
      (decide (cA.maxStatements > 0) && decide (s.count + 1 > cA.maxStatements)) := by
    rw [hcfg.max]
    rcases hbud with h0 | hEq
    · simp [h0]
    · rw [hEq _ _ hst.2.2]
  rw [hcond]
  split
  · exact ⟨_, by rw [hcfg.max], hst1⟩
  · have hstep := stepStmt_sim cA hcall (hincl base) hl hs hU hst1
    rw [stepStmt_cfg hcfg.host hcfg.builtins]
    cases hX : stepStmt cA (callValue₀ cA fA) (execIncludes₀ cA fA base) l sA { s with count := s.count + 1 } with
    | next l1 s1 =>
      rw [hX] at hstep
      obtain ⟨l1', s1', h', hl1, hs1⟩ := hstep
      rw [h']
      exact hcont _ _ hnext l1 l1' base s1 s1' hl1 (stepStmt_next_isSome hX) hs1
    | goto lab s1 =>
      rw [hX] at hstep
      obtain ⟨s1', h', hs1⟩ := hstep
      rw [h']
      obtain ⟨c, rfl⟩ := stepStmt_goto hX
      simp only [Step.run]
      cases hF : findLabel PA lab with
      | none => rw [hjN lab c rfl hF]; exact ⟨s1', rfl, hs1⟩
      | some i =>
        obtain ⟨j, hj, hpr⟩ := hjS lab c i rfl hF
        rw [hj]
        exact hcont _ _ hpr l l' base s1 s1' hl rfl hs1
    | halt r =>
      rw [hX] at hstep
      rcases hstep with ⟨rfl, he⟩ | ⟨r', h', hr⟩
      · exact Or.inl he
      · rw [h']; exact hr

/-- **the call step** -/
theorem call_step_sim {cA cB : Config W} (hcfg : CfgSame cA cB) {fA fB : Nat}
    (hcall : CallSim esc C (callValue₀ cA fA) (callValue₀ cB fB))
    (hnone : ∀ id, cA.funs id = none → cB.funs id = none)
    (hsome : ∀ id fdA, cA.funs id = some fdA → ∃ fdB, cB.funs id = some fdB ∧
      ∀ args s s', SR C s s' → OutSim esc C (callBody cA fA fdA args s) (callBody cB fB fdB args s')) :
    CallSim esc C (callValue₀ cA (fA+1)) (callValue₀ cB (fB+1)) := by
  intro f args s s' hs
  have hnc : ∀ v : Value, OutSim esc C (.ok .null { s with world := cA.host.notCallable v s.world })
      (.ok .null { s' with world := cB.host.notCallable v s'.world }) := by
    intro v
    exact OutSim.ok _ ⟨hs.1, by simp only [hcfg.host, hs.2.1], hs.2.2⟩
  by_cases hf : ∀ fv, f ≠ .fn fv
  · rw [callValue₀_nonfn cA fA f args s hf, callValue₀_nonfn cB fB f args s' hf]
    exact hnc f
  · have : ∃ fv, f = .fn fv := by
      cases f with
      | fn fv => exact ⟨fv, rfl⟩
      | _ => exact absurd (fun fv h => by cases h) hf
    obtain ⟨fv, rfl⟩ := this
    cases fv with
    | script id =>
      cases hA : cA.funs id with
      | none =>
        rw [callValue₀_script_none cA fA id args s hA, callValue₀_script_none cB fB id args s' (hnone id hA)]
        exact hnc _
      | some fdA =>
        obtain ⟨fdB, hB, hsim⟩ := hsome id fdA hA
        rw [callValue₀_script_some cA fA id fdA args s hA, callValue₀_script_some cB fB id fdB args s' hB]
        exact hsim args s s' hs
    | lib name =>
      rw [callValue₀_lib, callValue₀_lib, C01.runTree_cfg hcfg.host hcfg.debug, hcfg.host, ← hs.2.1]
      exact runTree_sim cA hcall _ s s' hs
    | other k =>
      rw [callValue₀_other, callValue₀_other, C01.runTree_cfg hcfg.host hcfg.debug, hcfg.host, ← hs.2.1]
      exact runTree_sim cA hcall _ s s' hs

/-- the body of a call from the run of its statement list -/
theorem callBody_sim {cA cB : Config W} (hcfg : CfgSame cA cB) {fA fB : Nat} {fdA fdB : FuncDef} {U : Name → Prop}
    (hbind : ∀ args w, LocAgree U (some (bindArgs cA.host fdA.lastArgArray fdA.args args [] w).1)
        (some (bindArgs cA.host fdB.lastArgArray fdB.args args [] w).1) ∧
      (bindArgs cA.host fdB.lastArgArray fdB.args args [] w).2 = (bindArgs cA.host fdA.lastArgArray fdA.args args [] w).2)
    (hexec : ∀ la lb s s', LocAgree U (some la) (some lb) → SR C s s' →
      ResSim esc C (execM₀ cA fA fdA.body (some la) none 0 s) (execM₀ cB fB fdB.body (some lb) none 0 s'))
    (args : List Value) {s s' : State W} (hs : SR C s s') :
    OutSim esc C (callBody cA fA fdA args s) (callBody cB fB fdB args s') := by
  unfold callBody
  rw [hcfg.host, ← hs.2.1]
  obtain ⟨hb1, hb2⟩ := hbind args s.world
  rw [hb2]
  have h := hexec _ _ { s with world := (bindArgs cA.host fdA.lastArgArray fdA.args args [] s.world).2 }
    { s' with world := (bindArgs cA.host fdA.lastArgArray fdA.args args [] s.world).2 } hb1 ⟨hs.1, rfl, hs.2.2⟩
  cases hX : execM₀ cA fA fdA.body (some (bindArgs cA.host fdA.lastArgArray fdA.args args [] s.world).1) none 0
      { s with world := (bindArgs cA.host fdA.lastArgArray fdA.args args [] s.world).2 } with
  | done s2 => rw [hX] at h; obtain ⟨s2', h', hs2⟩ := h; rw [h']; exact ⟨s2', rfl, hs2⟩
  | ret v s2 => rw [hX] at h; obtain ⟨s2', h', hs2⟩ := h; rw [h']; exact ⟨s2', rfl, hs2⟩
  | err e s2 => rw [hX] at h; obtain ⟨s2', h', hs2⟩ := h; rw [h']; exact ⟨s2', rfl, hs2⟩
  | oof =>
    rw [hX] at h
    rcases h with h | h
    · exact Or.inl h
    · rw [h]; exact Or.inr rfl

/-- **the include step** -/
theorem incl_step_sim {cA cB : Config W} (hcfg : CfgSame cA cB) {fA fB : Nat}
    (hexec : ∀ P base s s', SR C s s' → ResSim esc C (execM₀ cA fA P none base 0 s) (execM₀ cB fB P none base 0 s'))
    (hincl : InclSim esc C (execIncludes₀ cA fA) (execIncludes₀ cB fB)) :
    InclSim esc C (execIncludes₀ cA (fA+1)) (execIncludes₀ cB (fB+1)) := by
  intro base incs s s' hs
  cases incs with
  | nil => rw [execIncludes₀_nil, execIncludes₀_nil]; exact ⟨s', rfl, hs⟩
  | cons inc rest =>
    rw [execIncludes₀_cons_succ, execIncludes₀_cons_succ, hcfg.resolve, hcfg.fetch]
    cases cA.fetch (cA.resolve base inc) with
    | missing => exact ⟨s', rfl, hs⟩
    | broken => exact ⟨s', rfl, hs⟩
    | script stmts =>
      simp only
      have h := hexec stmts (some (cA.resolve base inc)) s s' hs
      cases hX : execM₀ cA fA stmts none (some (cA.resolve base inc)) 0 s with
      | done s2 => rw [hX] at h; obtain ⟨s2', h', hs2⟩ := h; rw [h']; exact hincl base rest s2 s2' hs2
      | ret v s2 => rw [hX] at h; obtain ⟨s2', h', hs2⟩ := h; rw [h']; exact hincl base rest s2 s2' hs2
      | err e s2 => rw [hX] at h; obtain ⟨s2', h', hs2⟩ := h; rw [h']; exact ⟨s2', rfl, hs2⟩
      | oof =>
        rw [hX] at h
        rcases h with h | h
        · exact Or.inl h
        · rw [h]; exact Or.inr rfl

/-- no fuel on the left: includes -/
theorem incl_zero_sim {cA cB : Config W} (hcfg : CfgSame cA cB) {fB : Nat} (h0 : esc ∨ fB = 0) :
    InclSim esc C (execIncludes₀ cA 0) (execIncludes₀ cB fB) := by
  intro base incs s s' hs
  cases incs with
  | nil => rw [execIncludes₀_nil, execIncludes₀_nil]; exact ⟨s', rfl, hs⟩
  | cons inc rest =>
    rw [execIncludes₀_cons_zero]
    cases hF : cA.fetch (cA.resolve base inc) with
    | missing =>
      cases fB with
      | zero => rw [execIncludes₀_cons_zero, hcfg.resolve, hcfg.fetch, hF]; exact ⟨s', rfl, hs⟩
      | succ g => rw [execIncludes₀_cons_succ, hcfg.resolve, hcfg.fetch, hF]; exact ⟨s', rfl, hs⟩
    | broken =>
      cases fB with
      | zero => rw [execIncludes₀_cons_zero, hcfg.resolve, hcfg.fetch, hF]; exact ⟨s', rfl, hs⟩
      | succ g => rw [execIncludes₀_cons_succ, hcfg.resolve, hcfg.fetch, hF]; exact ⟨s', rfl, hs⟩
    | script stmts =>
      rcases h0 with h | rfl
      · exact Or.inl h
      · rw [execIncludes₀_cons_zero, hcfg.resolve, hcfg.fetch, hF]; exact Or.inr rfl

/-- no fuel on the left: calls -/
theorem call_zero_sim (cA cB : Config W) {fB : Nat} (h0 : esc ∨ fB = 0) :
    CallSim esc C (callValue₀ cA 0) (callValue₀ cB fB) := by
  intro f args s s' _
  rw [callValue₀.eq_1]
  rcases h0 with h | rfl
  · exact Or.inl h
  · rw [callValue₀.eq_1]; exact Or.inr rfl

end

/-! ## more fuel on the right-hand side (`esc`) -/

section
variable {C : Nat → Nat → Prop}

theorem ResSim.mono_right {r r1 r2 : Res W} (h : ResSim True C r r1) (hm : r1 = .oof ∨ r2 = r1) : ResSim True C r r2 := by
  rcases hm with rfl | rfl
  · cases r with
    | oof => exact Or.inl trivial
    | done s => obtain ⟨_, h', _⟩ := h; cases h'
    | ret v s => obtain ⟨_, h', _⟩ := h; cases h'
    | err e s => obtain ⟨_, h', _⟩ := h; cases h'
  · exact h

theorem OutSim.mono_right {r r1 r2 : Out W} (h : OutSim True C r r1) (hm : r1 = .oof ∨ r2 = r1) : OutSim True C r r2 := by
  rcases hm with rfl | rfl
  · cases r with
    | oof => exact Or.inl trivial
    | ok v s => obtain ⟨_, h', _⟩ := h; cases h'
    | err e s => obtain ⟨_, h', _⟩ := h; cases h'
  · exact h

theorem ResSim.fuel_right {cfg : Config W} {r : Res W} {f f' : Nat} {P : List Stmt} {l : Option Env} {base : Option String}
    {pc : Nat} {st : State W} (h : ResSim True C r (execM₀ cfg f P l base pc st)) (hle : f ≤ f') :
    ResSim True C r (execM₀ cfg f' P l base pc st) :=
  h.mono_right ((C09.fuelMono cfg f f' hle).2.1 P l base pc st)

theorem CallSim.fuel_right {cfg : Config W} {call : CallFn W} {f f' : Nat} (h : CallSim True C call (callValue₀ cfg f))
    (hle : f ≤ f') : CallSim True C call (callValue₀ cfg f') :=
  fun fv args s s' hs => (h fv args s s' hs).mono_right ((C09.fuelMono cfg f f' hle).1 fv args s')

theorem InclSim.fuel_right {cfg : Config W} {incl : Option String → List IncludeScript → State W → Res W} {f f' : Nat}
    (h : InclSim True C incl (execIncludes₀ cfg f)) (hle : f ≤ f') : InclSim True C incl (execIncludes₀ cfg f') :=
  fun base incs s s' hs => (h base incs s s' hs).mono_right ((C09.fuelMono cfg f f' hle).2.2 base incs s')

end

/-! ## a call-free expression has no effect and cannot fail -/

/-- **a pointless expression is pointless**: evaluating an expression without a function call returns normally and leaves the
state (globals, world, statement counter) exactly as it was — whatever the call runner, the locals, the host -/
theorem evalExpr_pointless (cfg : Config W) (call : CallFn W) (l : Option Env) :
    ∀ (e : Expr) (st : State W), isPointless e = true → ∃ v, evalExpr cfg call l e st = .ok v st
  | .number q, st, _ => ⟨.num q, by simp only [evalExpr]⟩
  | .string q, st, _ => ⟨.str q, by simp only [evalExpr]⟩
  | .variable n, st, _ => by
      simp only [evalExpr]
      split
      · exact ⟨_, rfl⟩
      · split
        · exact ⟨_, rfl⟩
        · split <;> exact ⟨_, rfl⟩
  | .function n args, st, h => by simp [isPointless] at h
  | .binary op a b, st, h => by
      simp only [isPointless, Bool.and_eq_true] at h
      obtain ⟨va, ha⟩ := evalExpr_pointless cfg call l a st h.1
      obtain ⟨vb, hb⟩ := evalExpr_pointless cfg call l b st h.2
      by_cases h1 : op = .and
      · subst h1
        simp only [C01.evalExpr_and, ha, Out.bind]
        split
        · exact ⟨vb, hb⟩
        · exact ⟨va, rfl⟩
      · by_cases h2 : op = .or
        · subst h2
          simp only [C01.evalExpr_or, ha, Out.bind]
          split
          · exact ⟨va, rfl⟩
          · exact ⟨vb, hb⟩
        · simp only [C01.evalExpr_binary cfg _ _ op a b _ h1 h2, ha, hb, Out.bind]
          exact ⟨_, rfl⟩
  | .unary .not a, st, h => by
      simp only [isPointless] at h
      obtain ⟨va, ha⟩ := evalExpr_pointless cfg call l a st h
      simp only [C01.evalExpr_not, ha, Out.bind]
      exact ⟨_, rfl⟩
  | .unary .neg a, st, h => by
      simp only [isPointless] at h
      obtain ⟨va, ha⟩ := evalExpr_pointless cfg call l a st h
      simp only [C01.evalExpr_neg, ha, Out.bind]
      exact ⟨_, rfl⟩
  | .group a, st, h => by
      simp only [isPointless] at h
      simp only [evalExpr]
      exact evalExpr_pointless cfg call l a st h

/-- a skippable statement only advances -/
theorem stepStmt_skip (cfg : Config W) (call : CallFn W) (incl : List IncludeScript → State W → Res W) (l : Option Env)
    {s : Stmt} (hs : Skippable s) (st : State W) : stepStmt cfg call incl l s st = .next l st := by
  rcases hs with ⟨lab, rfl⟩ | ⟨e, rfl, he⟩
  · rfl
  · obtain ⟨v, hv⟩ := evalExpr_pointless cfg call l e st he
    simp only [stepStmt, hv]

/-- the run over a skippable statement, with unlimited budget -/
theorem execM₀_skip (cfg : Config W) (h0 : cfg.maxStatements = 0) (f : Nat) (P : List Stmt) (l : Option Env)
    (base : Option String) (pc : Nat) (st : State W) {s : Stmt} (hP : P[pc]? = some s) (hs : Skippable s) :
    execM₀ cfg (f+1) P l base pc st = execM₀ cfg f P l base (pc+1) { st with count := st.count + 1 } := by
  rw [execM₀_succ cfg f P l base pc st s hP, stepStmt_skip cfg _ _ l hs]
  simp [h0, Step.run]

/-! ## deleting one statement: positions and labels -/

/-- `P'` is `P` without some skippable statements (no two adjacent), `sh` maps the positions of `P` to those of `P'`
(a deleted position to its successor's), and every label that a jump of `P` targets is found at corresponding positions -/
structure Shift (P P' : List Stmt) (sh : Nat → Nat) : Prop where
  step : ∀ pc, (P[pc]? = none ∧ P'[sh pc]? = none) ∨
      (∃ s, P[pc]? = some s ∧ P'[sh pc]? = some s ∧ sh (pc+1) = sh pc + 1) ∨
      (∃ s, P[pc]? = some s ∧ Skippable s ∧ sh (pc+1) = sh pc ∧
          ((P[pc+1]? = none ∧ P'[sh pc]? = none) ∨
           (∃ s2, P[pc+1]? = some s2 ∧ P'[sh pc]? = some s2 ∧ sh (pc+1+1) = sh pc + 1)))
  jumpN : ∀ lab c, Stmt.jump lab c ∈ P → findLabel P lab = none → findLabel P' lab = none
  jumpS : ∀ lab c i, Stmt.jump lab c ∈ P → findLabel P lab = some i → ∃ j, findLabel P' lab = some j ∧ sh (i+1) = j + 1

theorem Shift.id (P : List Stmt) : Shift P P (fun pc => pc) where
  step := by
    intro pc
    cases h : P[pc]? with
    | none => exact Or.inl ⟨rfl, rfl⟩
    | some s => exact Or.inr (Or.inl ⟨s, rfl, rfl, rfl⟩)
  jumpN := fun _ _ _ h => h
  jumpS := fun _ _ i _ h => ⟨i, h, rfl⟩

/-- the converse label facts -/
theorem Shift.jumpN' {P P' : List Stmt} {sh : Nat → Nat} (h : Shift P P' sh) {lab : Name} {c : Option Expr}
    (hj : Stmt.jump lab c ∈ P) (hn : findLabel P' lab = none) : findLabel P lab = none := by
  cases hF : findLabel P lab with
  | none => rfl
  | some i =>
    obtain ⟨j, hj', _⟩ := h.jumpS lab c i hj hF
    rw [hn] at hj'; cases hj'

theorem Shift.jumpS' {P P' : List Stmt} {sh : Nat → Nat} (h : Shift P P' sh) {lab : Name} {c : Option Expr} {j : Nat}
    (hj : Stmt.jump lab c ∈ P) (hs : findLabel P' lab = some j) : ∃ i, findLabel P lab = some i ∧ sh (i+1) = j + 1 := by
  cases hF : findLabel P lab with
  | none => rw [h.jumpN lab c hj hF] at hs; cases hs
  | some i =>
    obtain ⟨j', hj', hsh⟩ := h.jumpS lab c i hj hF
    rw [hs] at hj'; cases hj'
    exact ⟨i, rfl, hsh⟩

theorem findLabel_eraseIdx_none {P : List Stmt} (k : Nat) {lab : Name} (h : findLabel P lab = none) :
    findLabel (P.eraseIdx k) lab = none := by
  rw [C08.unknown_label_iff] at h ⊢
  intro s hs
  exact h s (List.mem_of_mem_eraseIdx hs)

theorem findLabel_eraseIdx_some {P : List Stmt} {k : Nat} {s : Stmt} (hk : P[k]? = some s) {lab : Name}
    (hs : Machine.isLabel lab s = false) {i : Nat} (h : findLabel P lab = some i) :
    findLabel (P.eraseIdx k) lab = some (if i < k then i else i - 1) ∧ i ≠ k := by
  rw [C08.findLabel_some_iff] at h
  obtain ⟨hi, hlt⟩ := h
  have hik : i ≠ k := by
    rintro rfl
    rw [hk] at hi
    cases hi
    simp [Machine.isLabel] at hs
  refine ⟨?_, hik⟩
  rw [C08.findLabel_some_iff]
  by_cases hlk : i < k
  · simp only [hlk, if_true]
    refine ⟨by rw [List.getElem?_eraseIdx]; simp only [hlk, if_true]; exact hi, ?_⟩
    intro j hj
    rw [List.getElem?_eraseIdx]
    have : j < k := by omega
    simp only [this, if_true]
    exact hlt j hj
  · simp only [hlk, if_false]
    have hgt : k < i := by omega
    refine ⟨?_, ?_⟩
    · rw [List.getElem?_eraseIdx]
      have h1 : ¬ (i - 1 < k) := by omega
      have h2 : i - 1 + 1 = i := by omega
      simp only [h1, if_false, h2]
      exact hi
    · intro j hj
      rw [List.getElem?_eraseIdx]
      by_cases hjk : j < k
      · simp only [hjk, if_true]; exact hlt j (by omega)
      · simp only [hjk, if_false]; exact hlt (j+1) (by omega)

/-- **deleting statement `k`**, skippable and not a label that a jump of the list targets -/
theorem Shift.erase {P : List Stmt} {k : Nat} {s : Stmt} (hk : P[k]? = some s) (hskip : Skippable s)
    (hlab : ∀ lab c, Stmt.jump lab c ∈ P → Machine.isLabel lab s = false) : Shift P (deleteAt P k) (shiftPc k) where
  step := by
    intro pc
    unfold deleteAt shiftPc
    by_cases h1 : pc < k
    · have e1 : pc ≤ k := by omega
      have e2 : pc + 1 ≤ k := by omega
      simp only [e1, e2, if_true, List.getElem?_eraseIdx, h1]
      cases h : P[pc]? with
      | none => exact Or.inl ⟨rfl, rfl⟩
      | some s1 => exact Or.inr (Or.inl ⟨s1, rfl, rfl, trivial⟩)
    · by_cases h2 : pc = k
      · subst h2
        refine Or.inr (Or.inr ⟨s, hk, hskip, ?_, ?_⟩)
        · have e2 : ¬ (pc + 1 ≤ pc) := by omega
          simp only [Nat.le_refl, e2, if_true, if_false]
          omega
        · have e2 : ¬ (pc + 1 + 1 ≤ pc) := by omega
          simp only [Nat.le_refl, e2, if_true, if_false, List.getElem?_eraseIdx, Nat.lt_irrefl]
          cases h : P[pc+1]? with
          | none => exact Or.inl ⟨rfl, rfl⟩
          | some s2 => exact Or.inr ⟨s2, rfl, rfl, by omega⟩
      · have e1 : ¬ (pc ≤ k) := by omega
        have e2 : ¬ (pc + 1 ≤ k) := by omega
        have e3 : ¬ (pc - 1 < k) := by omega
        have e4 : pc - 1 + 1 = pc := by omega
        simp only [e1, e2, if_false, List.getElem?_eraseIdx, e3, e4]
        cases h : P[pc]? with
        | none => exact Or.inl ⟨rfl, rfl⟩
        | some s1 => exact Or.inr (Or.inl ⟨s1, rfl, rfl, by omega⟩)
  jumpN := fun lab c _ h => findLabel_eraseIdx_none k h
  jumpS := by
    intro lab c i hj h
    obtain ⟨h1, h2⟩ := findLabel_eraseIdx_some hk (hlab lab c hj) h
    refine ⟨_, h1, ?_⟩
    unfold shiftPc
    by_cases hlk : i < k
    · have : i + 1 ≤ k := by omega
      simp only [hlk, this, if_true]
    · have : ¬ (i + 1 ≤ k) := by omega
      simp only [hlk, this, if_false]
      omega

theorem shiftPc_zero (k : Nat) : shiftPc k 0 = 0 := by simp [shiftPc]

/-! ## renaming assignment targets and parameters outside `U` -/

/-- the two statements are the same, or assign the same expression to two names outside `U` -/
def StmtRen' (U : Name → Prop) (s s' : Stmt) : Prop :=
  s' = s ∨ ∃ x x' e, s = .expr (some x) e ∧ s' = .expr (some x') e ∧ ¬ U x ∧ ¬ U x'

/-- position by position, the statements of the two lists are related by `StmtRen'` -/
def RenBody (U : Name → Prop) (P P' : List Stmt) : Prop :=
  ∀ i : Nat, (P[i]? = none ∧ P'[i]? = none) ∨ ∃ s s', P[i]? = some s ∧ P'[i]? = some s' ∧ StmtRen' U s s'

theorem RenBody.refl (U : Name → Prop) (P : List Stmt) : RenBody U P P := by
  intro i
  cases h : P[i]? with
  | none => exact Or.inl ⟨rfl, rfl⟩
  | some s => exact Or.inr ⟨s, s, rfl, rfl, Or.inl rfl⟩

theorem RenBody.label_iff {U : Name → Prop} {P P' : List Stmt} (h : RenBody U P P') (lab : Name) (i : Nat) :
    P'[i]? = some (.label lab) ↔ P[i]? = some (.label lab) := by
  rcases h i with ⟨h1, h2⟩ | ⟨s, s', h1, h2, hr⟩
  · rw [h1, h2]
  · rw [h1, h2]
    rcases hr with rfl | ⟨x, x', e, rfl, rfl, _, _⟩
    · exact Iff.rfl
    · constructor <;> intro hc <;> cases hc

theorem RenBody.findLabel {U : Name → Prop} {P P' : List Stmt} (h : RenBody U P P') (lab : Name) :
    Machine.findLabel P' lab = Machine.findLabel P lab := by
  cases hF : Machine.findLabel P lab with
  | none =>
    rw [C08.unknown_label_iff] at hF ⊢
    intro s' hs'
    cases hb : Machine.isLabel lab s' with
    | false => rfl
    | true =>
      obtain ⟨i, hi⟩ := List.mem_iff_getElem?.1 hs'
      rw [(C08.isLabel_iff lab s').1 hb] at hi
      have := hF _ (List.mem_of_getElem? ((h.label_iff lab i).1 hi))
      rw [(C08.isLabel_iff lab _).2 rfl] at this
      cases this
  | some i =>
    rw [C08.findLabel_some_iff] at hF ⊢
    exact ⟨(h.label_iff lab i).2 hF.1, fun j hj hc => hF.2 j hj ((h.label_iff lab j).1 hc)⟩

theorem RenBody.renameStmts (U : Name → Prop) {v v' : Name} (hv : ¬ U v) (hv' : ¬ U v') (P : List Stmt) :
    RenBody U P (LintEdit.renameStmts v v' P) := by
  intro i
  unfold LintEdit.renameStmts
  rw [List.getElem?_map]
  cases h : P[i]? with
  | none => exact Or.inl ⟨rfl, rfl⟩
  | some s =>
    refine Or.inr ⟨s, renameStmt v v' s, rfl, rfl, ?_⟩
    cases s with
    | expr name e =>
      cases name with
      | none => exact Or.inl rfl
      | some n =>
        by_cases hn : n = v
        · subst hn
          exact Or.inr ⟨n, v', e, rfl, by simp [renameStmt], hv, hv'⟩
        · exact Or.inl (by simp [renameStmt, hn])
    | _ => exact Or.inl rfl

/-- parameter lists that differ only in names outside `U` -/
inductive ArgsRen (U : Name → Prop) : List Name → List Name → Prop
  | nil : ArgsRen U [] []
  | cons {a a' : Name} {as as' : List Name} : (a' = a ∨ (¬ U a ∧ ¬ U a')) → ArgsRen U as as' → ArgsRen U (a :: as) (a' :: as')

theorem ArgsRen.refl (U : Name → Prop) : ∀ as : List Name, ArgsRen U as as
  | [] => .nil
  | _ :: as => .cons (Or.inl rfl) (ArgsRen.refl U as)

theorem ArgsRen.renameArgs (U : Name → Prop) {a a' : Name} (ha : ¬ U a) (ha' : ¬ U a') :
    ∀ as : List Name, ArgsRen U as (LintEdit.renameArgs a a' as)
  | [] => .nil
  | x :: as => by
    unfold LintEdit.renameArgs
    rw [List.map_cons]
    refine .cons ?_ (ArgsRen.renameArgs U ha ha' as)
    by_cases hx : x = a
    · subst hx; simp only [if_true]; exact Or.inr ⟨ha, ha'⟩
    · simp only [hx, if_false]; exact Or.inl trivial

theorem LocAgree.set_ren {U : Name → Prop} {a b : Env} (h : LocAgree U (some a) (some b)) {x x' : Name}
    (hx : x' = x ∨ (¬ U x ∧ ¬ U x')) (v : Value) : LocAgree U (some (a.set x v)) (some (b.set x' v)) := by
  rcases hx with rfl | ⟨h1, h2⟩
  · exact h.set _ v
  · exact h.set_off h1 h2 v v

/-- binding the arguments to two such parameter lists gives locals that agree on `U`, and the same world -/
theorem bindArgs_ren (host : Host W) (laa : Bool) {U : Name → Prop} {ps ps' : List Name} (h : ArgsRen U ps ps') :
    ∀ (as : List Value) (env env' : Env) (w : W), LocAgree U (some env) (some env') →
      LocAgree U (some (bindArgs host laa ps as env w).1) (some (bindArgs host laa ps' as env' w).1) ∧
      (bindArgs host laa ps' as env' w).2 = (bindArgs host laa ps as env w).2 := by
  induction h with
  | nil => intro as env env' w he; exact ⟨he, rfl⟩
  | @cons a a' t t' ha ht ih =>
    intro as env env' w he
    cases ht with
    | nil =>
      simp only [bindArgs]
      cases laa with
      | true => exact ⟨he.set_ren ha _, rfl⟩
      | false => exact ⟨he.set_ren ha _, rfl⟩
    | @cons q q' r r' hq hr =>
      simp only [bindArgs]
      exact ih as.tail _ _ w (he.set_ren ha _)

end C18
