import BareProofs.C06Regex7Lemmas

/-!
# C06Regex8Lemmas — the escape substitutions, the string body `(?:\\\\|\\q|[^q])*q`, the bracketed name, the number literal
-/

namespace C06Regex
open Rx Text RxPatterns

/-! ## `re.sub(r'\\([\\q])', r'\1', raw)` = `ExprScan.unescape q` -/

/-- `\\([\\q])` (the spelling of `q` in the class: escaped or not) -/
def escQ (e : Bool) (q : Char) : Rx := elit '\\' ⬝ .cap 1 none (.one (.cls false [.ch true '\\', .ch e q]))

theorem escQ_cls_test (e : Bool) (q x : Char) : (Atom.cls false [.ch true '\\', .ch e q]).test x = (x == '\\' || x == q) := by
  simp only [Atom.test, Item.test, List.any_cons, List.any_nil, Bool.or_false]
  cases (x == '\\' || x == q) <;> rfl

theorem escQ_match (e : Bool) (q c : Char) (t : Chars) :
    matchFrom (escQ e q) 0 (c :: t) =
      if c = '\\' then
        match t with
        | x :: t' => if x = '\\' ∨ x = q then some ⟨2, t', [(1, 1, 2)]⟩ else none
        | [] => none
      else none := by
  unfold matchFrom escQ elit
  rw [seq_m, one_m', step_lit]
  by_cases hc : c = '\\'
  · simp only [hc, if_true, cap_m, one_m']
    unfold step
    cases t with
    | nil => rfl
    | cons x t' =>
      simp only [escQ_cls_test]
      by_cases h1 : x = '\\'
      · simp [h1]
      · by_cases h2 : x = q
        · simp [h2]
        · simp [h1, h2]
  · simp [hc]

theorem sub1Aux_escQ (e : Bool) (q : Char) : ∀ (fuel : Nat) (s : Chars), s.length ≤ fuel →
    sub1Aux (escQ e q) fuel s = ExprScan.unescape q s
  | 0, s, h => by
    have : s = [] := List.length_eq_zero_iff.mp (by omega)
    subst this; simp [sub1Aux, ExprScan.unescape]
  | n + 1, [], _ => by simp [sub1Aux, ExprScan.unescape]
  | n + 1, c :: t, h => by
    have iht := sub1Aux_escQ e q n t (by simpa using h)
    rw [sub1Aux, escQ_match, ExprScan.unescape.eq_def]
    by_cases hc : c = '\\'
    · subst hc
      simp only [if_true]
      cases t with
      | nil => simp [sub1Aux, iht, ExprScan.unescape]
      | cons x t' =>
        have iht' := sub1Aux_escQ e q n t' (by simp at h; omega)
        by_cases h1 : x = '\\'
        · subst h1
          simp [St.group, St.span, List.lookup, slice, iht']
        · by_cases h2 : x = q
          · subst h2
            simp [St.group, St.span, List.lookup, slice, iht']
          · simp [h1, h2, iht]
    · simp [hc, iht]

theorem sub1_escQ (e : Bool) (q : Char) (s : Chars) : sub1 (escQ e q) s = ExprScan.unescape q s :=
  sub1Aux_escQ e q _ s (Nat.le_refl _)

/-! ## the string body -/

theorem lit_test (e : Bool) (c x : Char) : (Atom.lit e c).test x = (x == c) := rfl

/-- `(?:\\\\|\\q|[^q])` -/
def strB (q : Char) : Rx := .ncg (.alt (elit '\\' ⬝ elit '\\') (.alt (elit '\\' ⬝ lit q) (.one (.cls true [.ch false q]))))

/-- after the group: close it, the closing quote -/
def strK (q : Char) (p : Nat) : K := fun st' => (lit q).m ⟨st'.pos, st'.rest, (1, p, st'.pos) :: st'.caps⟩ some

theorem strK_eval (q : Char) (p : Nat) (st' : St) :
    strK q p st' = match st'.rest with
      | x :: tl => if x = q then some ⟨st'.pos + 1, tl, (1, p, st'.pos) :: st'.caps⟩ else none
      | [] => none := by
  unfold strK lit
  rw [one_m', step_lit]
  rfl

theorem strB_m (q : Char) (hq : ¬ q = '\\') (st : St) (K'' : K) :
    (strB q).m st K'' = match st.rest with
      | c :: t =>
        if c = '\\' then
          ((match t with
            | d :: t' => if d = '\\' then K'' ⟨st.pos + 2, t', st.caps⟩ else none
            | [] => none) <|>
           ((match t with
            | d :: t' => if d = q then K'' ⟨st.pos + 2, t', st.caps⟩ else none
            | [] => none) <|> K'' ⟨st.pos + 1, t, st.caps⟩))
        else if c = q then none
        else K'' ⟨st.pos + 1, t, st.caps⟩
      | [] => none := by
  cases hr : st.rest with
  | nil => simp [strB, elit, lit, ncg_m, alt_m, seq_m, one_m', step, hr]
  | cons c t =>
    simp only [strB, elit, lit, ncg_m, alt_m, seq_m, one_m', step, hr, cls_neg1_test, lit_test, beq_iff_eq]
    by_cases hc : c = '\\'
    · subst hc
      have hne : ('\\' != q) = true := by simpa using fun e => hq e.symm
      simp only [if_true, hne]
      cases t with
      | nil => simp
      | cons d t' =>
        by_cases h1 : d = '\\' <;> by_cases h2 : d = q <;> simp [h1, h2, Nat.add_assoc]
    · by_cases hcq : c = q
      · subst hcq; simp [hc]
      · have : (c != q) = true := by simpa using hcq
        simp [hc, hcq, this]

theorem strBody_cons (q c : Char) (t : Chars) :
    ExprScan.strBody q (c :: t) =
      if c = q then some ([], t)
      else if c = '\\' then
        match t with
        | d :: t' =>
          if (d = '\\' || d = q) && t'.contains q then (ExprScan.strBody q t').map (fun p => (c :: d :: p.1, p.2))
          else (ExprScan.strBody q (d :: t')).map (fun p => (c :: p.1, p.2))
        | [] => none
      else (ExprScan.strBody q t).map (fun p => (c :: p.1, p.2)) := by
  rw [ExprScan.strBody.eq_def]
  rfl

/-- the body can be closed iff a quote is still ahead -/
theorem strBody_isSome (q : Char) (hq : ¬ q = '\\') : ∀ u : Chars, (ExprScan.strBody q u).isSome = true ↔ q ∈ u
  | [] => by simp [ExprScan.strBody]
  | [c] => by
    rw [strBody_cons]
    by_cases hc : c = q
    · simp [hc]
    · have hqc : ¬ q = c := fun e => hc e.symm
      by_cases hb : c = '\\'
      · subst hb; simp [hc, hqc]
      · simp [hc, hb, ExprScan.strBody, hqc]
  | c :: d :: t' => by
    have ih1 := strBody_isSome q hq (d :: t')
    have ih2 := strBody_isSome q hq t'
    rw [strBody_cons]
    by_cases hc : c = q
    · simp [hc]
    · have hqc : ¬ q = c := fun e => hc e.symm
      by_cases hb : c = '\\'
      · subst hb
        simp only [hc, if_false, if_true]
        by_cases hcond : ((d = '\\' || d = q) && t'.contains q) = true
        · have hm : q ∈ t' := by
            simp only [Bool.and_eq_true] at hcond
            simpa using hcond.2
          simp only [hcond, if_true, Option.isSome_map, ih2]
          simp [hm]
        · simp only [hcond, Bool.false_eq_true, if_false, Option.isSome_map, ih1]
          simp [hqc]
      · simp only [hc, hb, if_false, Option.isSome_map, ih1]
        simp [hqc]

theorem contains_of_strBody (q : Char) (hq : ¬ q = '\\') (u : Chars) :
    u.contains q = (ExprScan.strBody q u).isSome := by
  have h := strBody_isSome q hq u
  cases hs : (ExprScan.strBody q u).isSome with
  | true => simpa using h.mp hs
  | false =>
    have : ¬ q ∈ u := fun hm => by rw [h.mpr hm] at hs; cases hs
    simpa using this

/-- **the star over `\\\\|\\q|[^q]` in front of the closing quote = `ExprScan.strBody`** -/
theorem str_loop (q : Char) (hq : ¬ q = '\\') (p : Nat) : ∀ (fuel pos : Nat) (u : Chars) (caps : List (Nat × Nat × Nat)),
    u.length ≤ fuel →
    loop (strB q).m fuel ⟨pos, u, caps⟩ (strK q p) =
      (ExprScan.strBody q u).map (fun pr => ⟨pos + pr.1.length + 1, pr.2, (1, p, pos + pr.1.length) :: caps⟩)
  | 0, pos, u, caps, hl => by
    have : u = [] := List.length_eq_zero_iff.mp (by omega)
    subst this
    simp [loop, strK_eval, ExprScan.strBody]
  | n + 1, pos, [], caps, hl => by
    simp [loop, strB_m q hq, strK_eval, ExprScan.strBody]
  | n + 1, pos, c :: t, caps, hl => by
    have iht := str_loop q hq p n (pos + 1) t caps (by simpa using hl)
    have hbq : ¬ '\\' = q := fun e => hq e.symm
    rw [loop, strB_m q hq, strK_eval, strBody_cons]
    simp only []
    by_cases hcq : c = q
    · subst hcq
      simp [hq]
    · by_cases hc : c = '\\'
      · subst hc
        simp only [if_true, hcq, if_false, hbq, orElse_none']
        cases t with
        | nil =>
          have : loop (strB q).m n ⟨pos + 1, [], caps⟩ (strK q p) = none := by
            rw [str_loop q hq p n (pos + 1) [] caps (by simp)]; simp [ExprScan.strBody]
          simp [this]
        | cons d t' =>
          have iht' := str_loop q hq p n (pos + 2) t' caps (by simp at hl; omega)
          simp only [List.length_cons, show t'.length < t'.length + 1 + 1 from by omega, Nat.lt_add_one, if_true, iht, iht']
          rw [contains_of_strBody q hq t']
          cases h1 : ExprScan.strBody q t' with
          | none =>
            simp only [Option.isSome_none, Bool.and_false, Bool.false_eq_true, if_false, Option.map_none, Option.map_map]
            cases ExprScan.strBody q (d :: t') with
            | none => by_cases e1 : d = '\\' <;> by_cases e2 : d = q <;> simp [e1, e2]
            | some v => by_cases e1 : d = '\\' <;> by_cases e2 : d = q <;> simp [e1, e2] <;> omega
          | some v =>
            simp only [Option.isSome_some, Bool.and_true, Option.map_some, Option.map_map]
            by_cases e1 : d = '\\'
            · simp [e1]; omega
            · by_cases e2 : d = q
              · subst e2
                simp [e1]
                try omega
              · simp only [e1, e2, if_false, decide_false, Bool.or_false, Bool.false_eq_true]
                cases ExprScan.strBody q (d :: t') with
                | none => simp
                | some w => simp; omega
      · simp only [hc, hcq, if_false, List.length_cons, Nat.lt_add_one, if_true, iht, orElse_none', Option.map_map]
        cases ExprScan.strBody q t with
        | none => simp
        | some v => simp; omega

theorem strBody_spec (q : Char) : ∀ (u raw rest : Chars), ExprScan.strBody q u = some (raw, rest) → u = raw ++ q :: rest
  | [], raw, rest, h => by simp [ExprScan.strBody] at h
  | [c], raw, rest, h => by
    rw [strBody_cons] at h
    by_cases hc : c = q
    · simp only [hc, if_true, Option.some.injEq, Prod.mk.injEq] at h
      obtain ⟨rfl, rfl⟩ := h; simp [hc]
    · by_cases hb : c = '\\'
      · subst hb; simp [hc] at h
      · simp [hc, hb, ExprScan.strBody] at h
  | c :: d :: t', raw, rest, h => by
    rw [strBody_cons] at h
    by_cases hc : c = q
    · simp only [hc, if_true, Option.some.injEq, Prod.mk.injEq] at h
      obtain ⟨rfl, rfl⟩ := h; simp [hc]
    · simp only [hc, if_false] at h
      by_cases hb : c = '\\'
      · simp only [hb, if_true] at h
        split at h
        · cases h1 : ExprScan.strBody q t' with
          | none => rw [h1] at h; cases h
          | some v =>
            rw [h1] at h
            simp only [Option.map_some, Option.some.injEq, Prod.mk.injEq] at h
            obtain ⟨rfl, rfl⟩ := h
            rw [hb, strBody_spec q t' v.1 v.2 (by rw [h1])]; simp
        · cases h1 : ExprScan.strBody q (d :: t') with
          | none => rw [h1] at h; cases h
          | some v =>
            rw [h1] at h
            simp only [Option.map_some, Option.some.injEq, Prod.mk.injEq] at h
            obtain ⟨rfl, rfl⟩ := h
            rw [hb, strBody_spec q (d :: t') v.1 v.2 (by rw [h1])]; simp
      · simp only [hb, if_false] at h
        cases h1 : ExprScan.strBody q (d :: t') with
        | none => rw [h1] at h; cases h
        | some v =>
          rw [h1] at h
          simp only [Option.map_some, Option.some.injEq, Prod.mk.injEq] at h
          obtain ⟨rfl, rfl⟩ := h
          rw [strBody_spec q (d :: t') v.1 v.2 (by rw [h1])]; simp

/-! ## the bracketed name `\[\s*((?:\\\]|[^\]])+)\s*\]` -/

/-- `(?:\\\]|[^\]])` -/
def brC : Rx := .ncg (.alt (elit '\\' ⬝ elit ']') (.one (.cls true [.ch true ']'])))

/-- after the group: close it, `\s*\]` -/
def brK (p : Nat) : K := fun st' => (ws ⬝ elit ']').m ⟨st'.pos, st'.rest, (1, p, st'.pos) :: st'.caps⟩ some

theorem brK_eval (p : Nat) (st' : St) :
    brK p st' = match lstripL st'.rest with
      | x :: r => if x = ']' then some ⟨st'.pos + (st'.rest.takeWhile isSpace).length + 1, r, (1, p, st'.pos) :: st'.caps⟩ else none
      | [] => none := by
  unfold brK elit
  rw [ws_lit_end true ']' (by decide)]
  rfl

theorem brK_none (p : Nat) (st' : St) (h : ']' ∉ st'.rest) : brK p st' = none := by
  rw [brK_eval]
  cases hl : lstripL st'.rest with
  | nil => rfl
  | cons x r =>
    have hx : x ∈ st'.rest := (List.dropWhile_sublist isSpace).subset (by rw [show st'.rest.dropWhile isSpace = x :: r from hl]; simp)
    have : ¬ x = ']' := fun e => h (e ▸ hx)
    simp [this]

theorem brC_m (st : St) (K'' : K) :
    brC.m st K'' = match st.rest with
      | c :: t =>
        if c = '\\' then
          ((match t with
            | d :: t' => if d = ']' then K'' ⟨st.pos + 2, t', st.caps⟩ else none
            | [] => none) <|> K'' ⟨st.pos + 1, t, st.caps⟩)
        else if c = ']' then none
        else K'' ⟨st.pos + 1, t, st.caps⟩
      | [] => none := by
  cases hr : st.rest with
  | nil => simp [brC, elit, ncg_m, alt_m, seq_m, one_m', step, hr]
  | cons c t =>
    simp only [brC, elit, ncg_m, alt_m, seq_m, one_m', step, hr, cls_neg1_test, lit_test, beq_iff_eq]
    by_cases hc : c = '\\'
    · subst hc
      simp only [if_true, show ('\\' != ']') = true from by decide]
      cases t with
      | nil => simp
      | cons d t' => by_cases h1 : d = ']' <;> simp [h1, Nat.add_assoc]
    · by_cases hcq : c = ']'
      · subst hcq; simp
      · have : (c != ']') = true := by simpa using hcq
        simp [hc, hcq, this]

theorem bracketBody_cons (c : Char) (t : Chars) :
    ExprScan.bracketBody (c :: t) =
      if c = ']' then some ([], t)
      else if c = '\\' then
        match t with
        | d :: t' =>
          if d = ']' && t'.contains ']' then (ExprScan.bracketBody t').map (fun p => (c :: d :: p.1, p.2))
          else (ExprScan.bracketBody (d :: t')).map (fun p => (c :: p.1, p.2))
        | [] => none
      else (ExprScan.bracketBody t).map (fun p => (c :: p.1, p.2)) := by
  rw [ExprScan.bracketBody.eq_def]
  rfl

theorem bracketBody_isSome : ∀ u : Chars, (ExprScan.bracketBody u).isSome = true ↔ ']' ∈ u
  | [] => by simp [ExprScan.bracketBody]
  | [c] => by
    rw [bracketBody_cons]
    by_cases hc : c = ']'
    · simp [hc]
    · have hqc : ¬ ']' = c := fun e => hc e.symm
      by_cases hb : c = '\\'
      · subst hb; simp
      · simp [hc, hb, ExprScan.bracketBody, hqc]
  | c :: d :: t' => by
    have ih1 := bracketBody_isSome (d :: t')
    have ih2 := bracketBody_isSome t'
    rw [bracketBody_cons]
    by_cases hc : c = ']'
    · simp [hc]
    · have hqc : ¬ ']' = c := fun e => hc e.symm
      by_cases hb : c = '\\'
      · subst hb
        simp only [hc, if_false, if_true]
        by_cases hcond : (d = ']' && t'.contains ']') = true
        · have hm : ']' ∈ t' := by
            simp only [Bool.and_eq_true] at hcond
            simpa using hcond.2
          simp only [hcond, if_true, Option.isSome_map, ih2]
          simp [hm]
        · simp only [hcond, Bool.false_eq_true, if_false, Option.isSome_map, ih1]
          simp
      · simp only [hc, hb, if_false, Option.isSome_map, ih1]
        simp [hqc]

theorem contains_of_bracketBody (u : Chars) : u.contains ']' = (ExprScan.bracketBody u).isSome := by
  have h := bracketBody_isSome u
  cases hs : (ExprScan.bracketBody u).isSome with
  | true => simpa using h.mp hs
  | false =>
    have : ¬ ']' ∈ u := fun hm => by rw [h.mpr hm] at hs; cases hs
    simpa using this

theorem bracketBody_none_of {u : Chars} (h : ExprScan.bracketBody u = none) : ']' ∉ u := by
  intro hm
  have := (bracketBody_isSome u).mpr hm
  rw [h] at this; cases this

/-- the value of a successful body at a state -/
def brVal (p pos : Nat) (caps : List (Nat × Nat × Nat)) (pr : Chars × Chars) : St :=
  ⟨pos + pr.1.length + 1, pr.2, (1, p, pos + pr.1.length) :: caps⟩

/-- **the loop over `\\\]|[^\]]` in front of `\s*\]` = `ExprScan.bracketBody`** -/
theorem br_loop (p : Nat) : ∀ (fuel pos : Nat) (u : Chars) (caps : List (Nat × Nat × Nat)), u.length ≤ fuel →
    loop brC.m fuel ⟨pos, u, caps⟩ (brK p) = (ExprScan.bracketBody u).map (brVal p pos caps)
  | 0, pos, u, caps, hl => by
    have : u = [] := List.length_eq_zero_iff.mp (by omega)
    subst this
    simp [loop, brK_eval, ExprScan.bracketBody, lstripL]
  | n + 1, pos, [], caps, hl => by
    simp [loop, brC_m, brK_eval, ExprScan.bracketBody, lstripL]
  | n + 1, pos, c :: t, caps, hl => by
    have iht := br_loop p n (pos + 1) t caps (by simpa using hl)
    rw [loop, brC_m, bracketBody_cons]
    simp only []
    by_cases hcq : c = ']'
    · subst hcq
      rw [brK_eval]
      simp [lstripL, List.dropWhile_cons, show isSpace ']' = false from by decide, List.takeWhile_cons, brVal]
    · by_cases hc : c = '\\'
      · subst hc
        have hk : brK p ⟨pos, '\\' :: t, caps⟩ = none := by
          rw [brK_eval]; simp [lstripL, List.dropWhile_cons, show isSpace '\\' = false from by decide]
        simp only [if_true, hcq, if_false, hk, orElse_none']
        cases t with
        | nil =>
          have : loop brC.m n ⟨pos + 1, [], caps⟩ (brK p) = none := by
            rw [br_loop p n (pos + 1) [] caps (by simp)]; simp [ExprScan.bracketBody]
          simp [this]
        | cons d t' =>
          have iht' := br_loop p n (pos + 2) t' caps (by simp at hl; omega)
          simp only [List.length_cons, show t'.length < t'.length + 1 + 1 from by omega, Nat.lt_add_one, if_true, iht, iht']
          rw [contains_of_bracketBody t']
          cases h1 : ExprScan.bracketBody t' with
          | none =>
            simp only [Option.isSome_none, Bool.and_false, Bool.false_eq_true, if_false, Option.map_none, Option.map_map]
            cases ExprScan.bracketBody (d :: t') with
            | none => by_cases e1 : d = ']' <;> simp [e1]
            | some v => by_cases e1 : d = ']' <;> simp [e1, brVal] <;> omega
          | some v =>
            simp only [Option.isSome_some, Bool.and_true, Option.map_some]
            by_cases e1 : d = ']'
            · simp [e1, brVal]; omega
            · simp only [e1, if_false, decide_false, Bool.false_eq_true]
              cases ExprScan.bracketBody (d :: t') with
              | none => simp
              | some w => simp [brVal]; omega
      · simp only [hc, hcq, if_false, List.length_cons, Nat.lt_add_one, if_true, iht]
        cases h1 : ExprScan.bracketBody t with
        | none =>
          have hno : ']' ∉ c :: t := by
            intro hm
            rcases List.mem_cons.mp hm with e | e
            · exact hcq e.symm
            · exact bracketBody_none_of h1 e
          rw [brK_none p _ (by exact hno)]; rfl
        | some v => simp [brVal]; omega

/-- `((?:\\\]|[^\]])+)\s*\]` from a state -/
theorem br_group (pos : Nat) (u : Chars) (caps : List (Nat × Nat × Nat)) :
    (Rx.cap 1 none (.plus brC) ⬝ ws ⬝ elit ']').m ⟨pos, u, caps⟩ some =
      match u with
      | [] => none
      | c :: _ => if c = ']' then none else (ExprScan.bracketBody u).map (brVal pos pos caps) := by
  rw [seq_m, cap_m, plus_m, brC_m]
  have hK : ∀ (q : Nat) (v : Chars), v.length ≤ u.length →
      (Rx.star brC).m ⟨q, v, caps⟩ (fun st' => (ws ⬝ elit ']').m ⟨st'.pos, st'.rest, (1, pos, st'.pos) :: st'.caps⟩ some) =
        (ExprScan.bracketBody v).map (brVal pos q caps) := by
    intro q v _
    rw [star_m]
    exact br_loop pos v.length q v caps (Nat.le_refl _)
  cases u with
  | nil => rfl
  | cons c t =>
    simp only []
    rw [bracketBody_cons]
    by_cases hcq : c = ']'
    · simp [hcq]
    · by_cases hc : c = '\\'
      · subst hc
        simp only [if_true, hcq, if_false]
        cases t with
        | nil => simp [hK _ [] (by simp), ExprScan.bracketBody]
        | cons d t' =>
          simp only [hK _ t' (by simp; omega), hK _ (d :: t') (by simp)]
          rw [contains_of_bracketBody t']
          cases h1 : ExprScan.bracketBody t' with
          | none =>
            simp only [Option.isSome_none, Bool.and_false, Bool.false_eq_true, if_false, Option.map_none, Option.map_map]
            cases ExprScan.bracketBody (d :: t') with
            | none => by_cases e1 : d = ']' <;> simp [e1]
            | some v => by_cases e1 : d = ']' <;> simp [e1, brVal] <;> omega
          | some v =>
            simp only [Option.isSome_some, Bool.and_true, Option.map_some]
            by_cases e1 : d = ']'
            · simp [e1, brVal]; omega
            · simp only [e1, if_false, decide_false, Bool.false_eq_true]
              cases ExprScan.bracketBody (d :: t') with
              | none => simp
              | some w => simp [brVal]; omega
      · simp only [hc, hcq, if_false, hK _ t (by simp)]
        cases ExprScan.bracketBody t with
        | none => simp
        | some v => simp [brVal]; omega

theorem bracketBody_spec : ∀ (u raw rest : Chars), ExprScan.bracketBody u = some (raw, rest) → u = raw ++ ']' :: rest
  | [], raw, rest, h => by simp [ExprScan.bracketBody] at h
  | [c], raw, rest, h => by
    rw [bracketBody_cons] at h
    by_cases hc : c = ']'
    · simp only [hc, if_true, Option.some.injEq, Prod.mk.injEq] at h
      obtain ⟨rfl, rfl⟩ := h; simp [hc]
    · by_cases hb : c = '\\'
      · subst hb; simp at h
      · simp [hc, hb, ExprScan.bracketBody] at h
  | c :: d :: t', raw, rest, h => by
    rw [bracketBody_cons] at h
    by_cases hc : c = ']'
    · simp only [hc, if_true, Option.some.injEq, Prod.mk.injEq] at h
      obtain ⟨rfl, rfl⟩ := h; simp [hc]
    · simp only [hc, if_false] at h
      by_cases hb : c = '\\'
      · simp only [hb, if_true] at h
        split at h
        · cases h1 : ExprScan.bracketBody t' with
          | none => rw [h1] at h; cases h
          | some v =>
            rw [h1] at h
            simp only [Option.map_some, Option.some.injEq, Prod.mk.injEq] at h
            obtain ⟨rfl, rfl⟩ := h
            rw [hb, bracketBody_spec t' v.1 v.2 (by rw [h1])]; simp
        · cases h1 : ExprScan.bracketBody (d :: t') with
          | none => rw [h1] at h; cases h
          | some v =>
            rw [h1] at h
            simp only [Option.map_some, Option.some.injEq, Prod.mk.injEq] at h
            obtain ⟨rfl, rfl⟩ := h
            rw [hb, bracketBody_spec (d :: t') v.1 v.2 (by rw [h1])]; simp
      · simp only [hb, if_false] at h
        cases h1 : ExprScan.bracketBody (d :: t') with
        | none => rw [h1] at h; cases h
        | some v =>
          rw [h1] at h
          simp only [Option.map_some, Option.some.injEq, Prod.mk.injEq] at h
          obtain ⟨rfl, rfl⟩ := h
          rw [bracketBody_spec (d :: t') v.1 v.2 (by rw [h1])]; simp

theorem br_group_none (pos : Nat) (u : Chars) (caps : List (Nat × Nat × Nat)) (h : ']' ∉ u) :
    (Rx.cap 1 none (.plus brC) ⬝ ws ⬝ elit ']').m ⟨pos, u, caps⟩ some = none := by
  rw [br_group]
  cases u with
  | nil => rfl
  | cons c t =>
    have : ExprScan.bracketBody (c :: t) = none := by
      cases hb : ExprScan.bracketBody (c :: t) with
      | none => rfl
      | some v => exact absurd ((bracketBody_isSome (c :: t)).mp (by rw [hb]; rfl)) h
    simp only [this, Option.map_none]
    split <;> rfl

/-- `\[` is behind us: `\s*((?:\\\]|[^\]])+)\s*\]` — the blanks are skipped, but when `]` follows them immediately the last
blank becomes the name -/
theorem br_outer (p0 : Nat) (r : Chars) :
    (ws ⬝ Rx.cap 1 none (.plus brC) ⬝ ws ⬝ elit ']').m ⟨p0, r, []⟩ some =
      match r.dropWhile isSpace with
      | [] => none
      | d :: r2 =>
        if d = ']' then
          match (r.takeWhile isSpace).getLast? with
          | some _ =>
            some ⟨p0 + (r.takeWhile isSpace).length + 1, r2,
              [(1, p0 + (r.takeWhile isSpace).length - 1, p0 + (r.takeWhile isSpace).length)]⟩
          | none => none
        else (ExprScan.bracketBody (d :: r2)).map
          (brVal (p0 + (r.takeWhile isSpace).length) (p0 + (r.takeWhile isSpace).length) []) := by
  rw [seq_m]
  simp only [ws, sp]
  rw [star_atom_backoff, space_test]
  have hsplit := List.takeWhile_append_dropWhile (p := isSpace) (l := r)
  have hfull : adv ⟨p0, r, []⟩ (r.takeWhile isSpace).length = ⟨p0 + (r.takeWhile isSpace).length, r.dropWhile isSpace, []⟩ := by
    simp [adv, drop_length_takeWhile]
  have hadv : ∀ j, (Rx.cap 1 none (.plus brC) ⬝ (Rx.star (.one .space)) ⬝ elit ']').m (adv ⟨p0, r, []⟩ j) some =
      (Rx.cap 1 none (.plus brC) ⬝ ws ⬝ elit ']').m ⟨p0 + j, r.drop j, []⟩ some := fun j => rfl
  cases hrf : r.dropWhile isSpace with
  | nil =>
    simp only []
    apply backoff_none
    intro j _
    rw [hadv]
    apply br_group_none
    intro hm
    have hall := (dropWhile_nil_iff_all isSpace r).mp hrf
    rw [List.all_eq_true] at hall
    have := hall ']' ((List.drop_sublist j r).subset hm)
    exact absurd this (by decide)
  | cons d r2 =>
    simp only []
    by_cases hd : d = ']'
    · subst hd
      simp only [if_true]
      cases hn : (r.takeWhile isSpace).length with
      | zero =>
        have htw : r.takeWhile isSpace = [] := List.length_eq_zero_iff.mp hn
        rw [htw]
        simp only [List.getLast?_nil, backoff, List.length_nil]
        show (Rx.cap 1 none (.plus brC) ⬝ ws ⬝ elit ']').m ⟨p0, r, []⟩ some = none
        rw [br_group]
        have : r = ']' :: r2 := by rw [← hsplit, htw, hrf]; rfl
        rw [this]; simp
      | succ n' =>
        have hne : r.takeWhile isSpace ≠ [] := fun e => by rw [e] at hn; cases hn
        obtain ⟨w, hw⟩ : ∃ w, (r.takeWhile isSpace).getLast? = some w := by
          cases hgl : (r.takeWhile isSpace).getLast? with
          | none => exact absurd (List.getLast?_eq_none_iff.mp hgl) hne
          | some w => exact ⟨w, rfl⟩
        have hws : isSpace w = true := mem_takeWhile_p _ _ _ (List.mem_of_getLast? hw)
        have hdl := drop_last _ w hw
        rw [hn] at hdl
        simp only [Nat.add_sub_cancel] at hdl
        have hdrop : r.drop n' = w :: ']' :: r2 := by
          conv => lhs; rw [← hsplit]
          rw [List.drop_append_of_le_length (by omega), hdl, hrf]; rfl
        have h1 : (Rx.cap 1 none (.plus brC) ⬝ (Rx.star (.one .space)) ⬝ elit ']').m (adv ⟨p0, r, []⟩ (n' + 1)) some = none := by
          rw [← hn, hfull, hrf]
          show (Rx.cap 1 none (.plus brC) ⬝ ws ⬝ elit ']').m _ some = none
          rw [br_group]; simp
        have hw1 : ¬ w = ']' := fun e => by rw [e] at hws; exact absurd hws (by decide)
        have hw2 : ¬ w = '\\' := fun e => by rw [e] at hws; exact absurd hws (by decide)
        have h2 : (Rx.cap 1 none (.plus brC) ⬝ (Rx.star (.one .space)) ⬝ elit ']').m (adv ⟨p0, r, []⟩ n') some =
            some ⟨p0 + n' + 1 + 1, r2, [(1, p0 + n', p0 + n' + 1)]⟩ := by
          rw [hadv, hdrop, br_group]
          simp only [hw1, if_false]
          rw [bracketBody_cons, bracketBody_cons]
          simp [hw1, hw2, brVal]
        rw [backoff, h1, backoff_some _ _ _ _ h2, hw]
        simp
        omega
    · simp only [hd, if_false]
      cases hb : ExprScan.bracketBody (d :: r2) with
      | some v =>
        apply backoff_some
        rw [hfull, hrf]
        show (Rx.cap 1 none (.plus brC) ⬝ ws ⬝ elit ']').m _ some = _
        rw [br_group]; simp [hd, hb]
      | none =>
        simp only [Option.map_none]
        apply backoff_none
        intro j _
        rw [hadv]
        apply br_group_none
        intro hm
        have hm' : ']' ∈ r := (List.drop_sublist j r).subset hm
        rw [← hsplit] at hm'
        rcases List.mem_append.mp hm' with h1 | h1
        · exact absurd (mem_takeWhile_p _ _ _ h1) (by decide)
        · rw [hrf] at h1; exact bracketBody_none_of hb h1

end C06Regex
