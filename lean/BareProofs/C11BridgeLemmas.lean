import BareModel.HostImpl
import BareModel.HostLib
import BareProofs.C11

/-!
# C11Bridge — helper lemmas

`reify` turns a heap value of the machine host (`HostImpl.World`, references into `World.heap`) into the closed by-value
`Compare.PValue` of the C11 model; the fuelled comparison `HostImpl.valueCompare` of the execution model computes
`Compare.valueCompare` of the reified operands whenever both reify (`valueCompare_bridge`).

* `mapOpt`                       `Option`-traversal of a list (all elements must succeed)
* `reifyF`, `reify`              fuelled reification; standard fuel `heap.length + 1`
* `cmpOrd_str`                   Lean's `String` order (used by HostImpl) is the code-point order of `Compare.strCompare`
* `sortKeys_reify`               key sorting commutes with reification of the values
* `valueCompare_bridge`          the fuelled bridge, any fuel ≥ the reification fuel of the *left* operand
* `reifyF_mono`, `reifyF_depth`, `reifyF_complete`   more fuel never changes the answer; the fuel needed is the container
                                 depth of the result + 1; an acyclic value has depth ≤ `heap.length` (pigeonhole), so the
                                 standard fuel is enough whenever *any* fuel is.
-/

namespace C11Bridge
open Machine HostImpl

/-! ## traversal -/

/-- `mapM` in `Option`, written out (all elements must succeed) -/
def mapOpt {α β : Type} (f : α → Option β) : List α → Option (List β)
  | [] => some []
  | x :: xs =>
    match f x, mapOpt f xs with
    | some y, some ys => some (y :: ys)
    | _, _ => none

theorem mapOpt_nil_iff {α β : Type} (f : α → Option β) (l : List β) : mapOpt f [] = some l ↔ l = [] := by
  simp [mapOpt, eq_comm]

theorem mapOpt_cons_iff {α β : Type} (f : α → Option β) (x : α) (xs : List α) (l : List β) :
    mapOpt f (x :: xs) = some l ↔ ∃ y ys, f x = some y ∧ mapOpt f xs = some ys ∧ l = y :: ys := by
  simp only [mapOpt]
  cases hx : f x <;> cases hxs : mapOpt f xs <;> simp [eq_comm]

theorem mapOpt_length {α β : Type} (f : α → Option β) : ∀ (xs : List α) (l : List β), mapOpt f xs = some l → l.length = xs.length
  | [], l, h => by simp [(mapOpt_nil_iff f l).mp h]
  | x :: xs, l, h => by
    obtain ⟨y, ys, _, h2, rfl⟩ := (mapOpt_cons_iff f x xs l).mp h
    simp [mapOpt_length f xs ys h2]

theorem mapOpt_getElem {α β : Type} (f : α → Option β) : ∀ (xs : List α) (l : List β), mapOpt f xs = some l →
    ∀ (i : Nat) x, xs[i]? = some x → ∃ y, l[i]? = some y ∧ f x = some y
  | [], _, _, i, x, hx => by simp at hx
  | x0 :: xs, l, h, i, x, hx => by
    obtain ⟨y, ys, h1, h2, rfl⟩ := (mapOpt_cons_iff f x0 xs l).mp h
    cases i with
    | zero => simp at hx; subst hx; exact ⟨y, rfl, h1⟩
    | succ i => simpa using mapOpt_getElem f xs ys h2 i x (by simpa using hx)

theorem mapOpt_getElem' {α β : Type} (f : α → Option β) : ∀ (xs : List α) (l : List β), mapOpt f xs = some l →
    ∀ (i : Nat) y, l[i]? = some y → ∃ x, xs[i]? = some x ∧ f x = some y
  | [], l, h, i, y, hy => by rw [(mapOpt_nil_iff f l).mp h] at hy; simp at hy
  | x0 :: xs, l, h, i, y, hy => by
    obtain ⟨y0, ys, h1, h2, rfl⟩ := (mapOpt_cons_iff f x0 xs l).mp h
    cases i with
    | zero => simp at hy; subst hy; exact ⟨x0, rfl, h1⟩
    | succ i => simpa using mapOpt_getElem' f xs ys h2 i y (by simpa using hy)

theorem mapOpt_congr {α β : Type} (f g : α → Option β) : ∀ (xs : List α) (l : List β),
    (∀ x ∈ xs, ∀ y, f x = some y → g x = some y) → mapOpt f xs = some l → mapOpt g xs = some l
  | [], l, _, h => by simpa [mapOpt] using h
  | x :: xs, l, hfg, h => by
    obtain ⟨y, ys, h1, h2, rfl⟩ := (mapOpt_cons_iff f x xs l).mp h
    exact (mapOpt_cons_iff g x xs _).mpr ⟨y, ys, hfg x (by simp) y h1,
      mapOpt_congr f g xs ys (fun z hz => hfg z (by simp [hz])) h2, rfl⟩

/-! ## reification -/

/-- the item of an object cell, value reified by `f` -/
def reifyItem (f : Value → Option Compare.PValue) (kv : String × Value) : Option (String × Compare.PValue) :=
  (f kv.2).map fun p => (kv.1, p)

/-- Reification with recursion depth `fuel` through the heap: `none` when a reference dangles (or points to a cell of the
other kind) or when the fuel runs out (for fuel > heap size: exactly when a container reaches itself).  Functions are
numbered by the bijection `HostLib.encFn` (the comparison never looks at the number). -/
def reifyF (w : World) : Nat → Value → Option Compare.PValue
  | 0, _ => none
  | fuel+1, v =>
    match v with
    | .null => some .null
    | .bool b => some (.bool b)
    | .num q => some (.num q)
    | .str s => some (.str s)
    | .dt t => some (.dt t)
    | .fn f => some (.fn (HostLib.encFn f))
    | .regex r => some (.regex r)
    | .arr r =>
      match w.arr? r with
      | some xs => (mapOpt (reifyF w fuel) xs).map .arr
      | none => none
    | .obj r =>
      match w.obj? r with
      | some kvs => (mapOpt (reifyItem (reifyF w fuel)) kvs).map .obj
      | none => none

/-- the closed value a heap value denotes (`none`: self-containing container or dangling reference) -/
def reify (w : World) (v : Value) : Option Compare.PValue := reifyF w (w.heap.length + 1) v

theorem reifyItem_iff (f : Value → Option Compare.PValue) (kv : String × Value) (q : String × Compare.PValue) :
    reifyItem f kv = some q ↔ q.1 = kv.1 ∧ f kv.2 = some q.2 := by
  obtain ⟨k, p⟩ := q
  simp only [reifyItem]
  cases f kv.2 <;> simp [eq_comm]

theorem reifyF_arr (w : World) (n : Nat) (r : Nat) (p : Compare.PValue) :
    reifyF w (n+1) (.arr r) = some p ↔ ∃ xs pxs, w.arr? r = some xs ∧ mapOpt (reifyF w n) xs = some pxs ∧ p = .arr pxs := by
  simp only [reifyF]
  cases w.arr? r with
  | none => simp
  | some xs => cases mapOpt (reifyF w n) xs <;> simp [eq_comm]

theorem reifyF_obj (w : World) (n : Nat) (r : Nat) (p : Compare.PValue) :
    reifyF w (n+1) (.obj r) = some p ↔
      ∃ kvs pkvs, w.obj? r = some kvs ∧ mapOpt (reifyItem (reifyF w n)) kvs = some pkvs ∧ p = .obj pkvs := by
  simp only [reifyF]
  cases w.obj? r with
  | none => simp
  | some kvs => cases mapOpt (reifyItem (reifyF w n)) kvs <;> simp [eq_comm]

theorem reifyF_typeName (w : World) (n : Nat) (a : Value) (p : Compare.PValue) (h : reifyF w n a = some p) :
    Compare.typeName p = HostImpl.typeName a := by
  cases n with
  | zero => simp [reifyF] at h
  | succ n =>
    cases a with
    | arr r => obtain ⟨_, _, _, _, rfl⟩ := (reifyF_arr w n r p).mp h; rfl
    | obj r => obtain ⟨_, _, _, _, rfl⟩ := (reifyF_obj w n r p).mp h; rfl
    | _ => simp only [reifyF, Option.some.injEq] at h; subst h; rfl

/-! ## primitive comparisons agree -/

theorem char_lt_iff (a b : Char) : a < b ↔ a.toNat < b.toNat := by
  rw [Char.lt_def, UInt32.lt_iff_toNat_lt]; rfl

theorem chars_lt_iff : ∀ a b : List Char, a < b ↔ Compare.codeCmp (a.map Char.toNat) (b.map Char.toNat) = -1
  | [], [] => by simp [Compare.codeCmp]
  | [], _ :: _ => by simp [Compare.codeCmp]
  | _ :: _, [] => by simp [Compare.codeCmp]
  | x :: xs, y :: ys => by
    have ih := chars_lt_iff xs ys
    have r := C11.codeCmp_range (xs.map Char.toNat) (ys.map Char.toNat)
    rw [List.cons_lt_cons_iff, char_lt_iff, ← Char.toNat_inj, ih]
    simp only [List.map_cons, Compare.codeCmp]
    split
    · simp [*]
    · split
      · simp [*]
      · constructor
        · rintro (h | ⟨h, _⟩) <;> contradiction
        · intro h; omega

theorem str_lt_iff (x y : String) : x < y ↔ Compare.strCompare x y = -1 := by
  rw [String.lt_iff]; exact chars_lt_iff _ _

theorem str_lt_iff' (x y : String) : x < y ↔ Compare.strCompare x y < 0 := by
  have := (C11.strCompare_laws x).range y
  rw [str_lt_iff]; omega

/-- Lean's `String` order is CPython's `str` order (code points) -/
theorem cmpOrd_str (x y : String) : cmpOrd x y = Compare.strCompare x y := by
  unfold cmpOrd
  by_cases h1 : x < y
  · simp only [h1, if_true]; exact ((str_lt_iff x y).mp h1).symm
  · by_cases h2 : x = y
    · subst h2; simp only [h1, if_false, if_true]; exact (C11.strCompare_laws x).refl.symm
    · simp only [h1, h2, if_false]
      have r := (C11.strCompare_laws x).range y
      have n1 : Compare.strCompare x y ≠ -1 := fun h => h1 ((str_lt_iff x y).mpr h)
      have n0 : Compare.strCompare x y ≠ 0 := fun h => h2 ((C11.str_cmp_zero_iff x y).mp h)
      omega

theorem cmpOrd_bool (x y : Bool) : cmpOrd (boolNat x) (boolNat y) = Compare.tri (!x && y) (x == y) := by
  cases x <;> cases y <;> decide

theorem cmpOrd_int (x y : Int) : cmpOrd x y = Compare.tri (x < y) (x = y) := by
  simp [cmpOrd, Compare.tri]

theorem cmp_rat (x y : Rat) : (if x < y then (-1 : Int) else if x = y then 0 else 1) = Compare.tri (x < y) (x = y) := by
  simp [Compare.tri]

/-! ## key sorting commutes with reification -/

/-- the `<` of `Compare.sortItems` -/
abbrev keyLt : String × Compare.PValue → String × Compare.PValue → Bool := fun p q => Compare.strCompare p.1 q.1 < 0

theorem insertSorted_reify (f : Value → Option Compare.PValue) (kv : String × Value) (q : String × Compare.PValue)
    (hq : reifyItem f kv = some q) : ∀ (kvs : List (String × Value)) (qs : List (String × Compare.PValue)),
    mapOpt (reifyItem f) kvs = some qs → mapOpt (reifyItem f) (insertSorted kv kvs) = some (Compare.insertBy keyLt q qs)
  | [], qs, h => by
    rw [(mapOpt_nil_iff _ qs).mp h]
    exact (mapOpt_cons_iff _ _ _ _).mpr ⟨q, [], hq, rfl, rfl⟩
  | x :: xs, qs, h => by
    obtain ⟨y, ys, h1, h2, rfl⟩ := (mapOpt_cons_iff _ x xs qs).mp h
    have k1 := ((reifyItem_iff f kv q).mp hq).1
    have k2 := ((reifyItem_iff f x y).mp h1).1
    simp only [insertSorted, Compare.insertBy, keyLt, k1, k2]
    by_cases hlt : kv.1 < x.1
    · have hlt' := (str_lt_iff' _ _).mp hlt
      simp only [hlt, hlt', if_true, decide_true]
      exact (mapOpt_cons_iff _ _ _ _).mpr ⟨q, y :: ys, hq, h, rfl⟩
    · have hlt' : ¬ Compare.strCompare kv.1 x.1 < 0 := fun h => hlt ((str_lt_iff' _ _).mpr h)
      simp only [hlt, hlt', if_false, decide_false, Bool.false_eq_true]
      exact (mapOpt_cons_iff _ _ _ _).mpr ⟨y, _, h1, insertSorted_reify f kv q hq xs ys h2, rfl⟩

theorem foldl_insertSorted_reify (f : Value → Option Compare.PValue) : ∀ (kvs acc : List (String × Value))
    (qs qacc : List (String × Compare.PValue)),
    mapOpt (reifyItem f) kvs = some qs → mapOpt (reifyItem f) acc = some qacc →
    mapOpt (reifyItem f) (kvs.foldl (fun acc kv => insertSorted kv acc) acc) =
      some (qs.foldl (fun acc x => Compare.insertBy keyLt x acc) qacc)
  | [], acc, qs, qacc, h, ha => by rw [(mapOpt_nil_iff _ qs).mp h]; simpa using ha
  | x :: xs, acc, qs, qacc, h, ha => by
    obtain ⟨y, ys, h1, h2, rfl⟩ := (mapOpt_cons_iff _ x xs qs).mp h
    simp only [List.foldl_cons]
    exact foldl_insertSorted_reify f xs _ ys _ h2 (insertSorted_reify f x y h1 acc qacc ha)

/-- sorting the items of an object cell by key and reifying the values = reifying and sorting with `Compare.sortItems` -/
theorem sortKeys_reify (f : Value → Option Compare.PValue) (kvs : List (String × Value)) (qs : List (String × Compare.PValue))
    (h : mapOpt (reifyItem f) kvs = some qs) : mapOpt (reifyItem f) (sortKeys kvs) = some (Compare.sortItems qs) :=
  foldl_insertSorted_reify f kvs [] qs [] h rfl

/-! ## the two lexicographic loops -/

theorem compareLists_bridge (w : World) (fuel : Nat) (f g : Value → Option Compare.PValue)
    (H : ∀ x px y py, f x = some px → g y = some py → HostImpl.valueCompare w fuel x y = some (Compare.valueCompare px py)) :
    ∀ (xs : List Value) (pxs : List Compare.PValue) (ys : List Value) (pys : List Compare.PValue),
    mapOpt f xs = some pxs → mapOpt g ys = some pys →
    compareLists w fuel xs ys = some (Compare.cmpList pxs pys)
  | [], pxs, [], pys, hx, hy => by
    rw [(mapOpt_nil_iff _ _).mp hx, (mapOpt_nil_iff _ _).mp hy]; simp [compareLists, Compare.cmpList]
  | [], pxs, y :: ys, pys, hx, hy => by
    obtain ⟨_, _, _, _, rfl⟩ := (mapOpt_cons_iff _ _ _ _).mp hy
    rw [(mapOpt_nil_iff _ _).mp hx]; simp [compareLists, Compare.cmpList]
  | x :: xs, pxs, [], pys, hx, hy => by
    obtain ⟨_, _, _, _, rfl⟩ := (mapOpt_cons_iff _ _ _ _).mp hx
    rw [(mapOpt_nil_iff _ _).mp hy]; simp [compareLists, Compare.cmpList]
  | x :: xs, pxs, y :: ys, pys, hx, hy => by
    obtain ⟨px, pxs', hx1, hx2, rfl⟩ := (mapOpt_cons_iff _ _ _ _).mp hx
    obtain ⟨py, pys', hy1, hy2, rfl⟩ := (mapOpt_cons_iff _ _ _ _).mp hy
    have ih := compareLists_bridge w fuel f g H xs pxs' ys pys' hx2 hy2
    simp only [compareLists, Compare.cmpList, H x px y py hx1 hy1, ih]
    split <;> rfl

theorem compareItems_bridge (w : World) (fuel : Nat) (f g : Value → Option Compare.PValue)
    (H : ∀ x px y py, f x = some px → g y = some py → HostImpl.valueCompare w fuel x y = some (Compare.valueCompare px py)) :
    ∀ (xs : List (String × Value)) (pxs : List (String × Compare.PValue)) (ys : List (String × Value))
      (pys : List (String × Compare.PValue)),
    mapOpt (reifyItem f) xs = some pxs → mapOpt (reifyItem g) ys = some pys →
    compareItems w fuel xs ys = some (Compare.cmpItems pxs pys)
  | [], pxs, [], pys, hx, hy => by
    rw [(mapOpt_nil_iff _ _).mp hx, (mapOpt_nil_iff _ _).mp hy]; simp [compareItems, Compare.cmpItems]
  | [], pxs, y :: ys, pys, hx, hy => by
    obtain ⟨_, _, _, _, rfl⟩ := (mapOpt_cons_iff _ _ _ _).mp hy
    rw [(mapOpt_nil_iff _ _).mp hx]; simp [compareItems, Compare.cmpItems]
  | x :: xs, pxs, [], pys, hx, hy => by
    obtain ⟨_, _, _, _, rfl⟩ := (mapOpt_cons_iff _ _ _ _).mp hx
    rw [(mapOpt_nil_iff _ _).mp hy]; simp [compareItems, Compare.cmpItems]
  | x :: xs, pxs, y :: ys, pys, hx, hy => by
    obtain ⟨⟨k1, px⟩, pxs', hx1, hx2, rfl⟩ := (mapOpt_cons_iff _ _ _ _).mp hx
    obtain ⟨⟨k2, py⟩, pys', hy1, hy2, rfl⟩ := (mapOpt_cons_iff _ _ _ _).mp hy
    have ih := compareItems_bridge w fuel f g H xs pxs' ys pys' hx2 hy2
    obtain ⟨e1, v1⟩ := (reifyItem_iff _ _ _).mp hx1
    obtain ⟨e2, v2⟩ := (reifyItem_iff _ _ _).mp hy1
    simp only at e1 e2 v1 v2
    simp only [compareItems, Compare.cmpItems, cmpOrd_str, ← e1, ← e2, H _ _ _ _ v1 v2, ih]
    split
    · rfl
    · split <;> rfl

/-! ## the fuelled bridge -/

/-- The comparison of the execution model, run with any fuel ≥ the fuel that reifies its *left* operand, returns the
comparison of the closed model on the reified operands. -/
theorem valueCompare_bridge (w : World) : ∀ (n : Nat) (a : Value) (pa : Compare.PValue), reifyF w n a = some pa →
    ∀ (m : Nat) (b : Value) (pb : Compare.PValue), reifyF w m b = some pb → ∀ fuel, n ≤ fuel →
    HostImpl.valueCompare w fuel a b = some (Compare.valueCompare pa pb)
  | 0, _, _, ha, _, _, _, _, _, _ => by simp [reifyF] at ha
  | _, _, _, _, 0, _, _, hb, _, _ => by simp [reifyF] at hb
  | n+1, _, _, _, _, _, _, _, 0, hf => by omega
  | n+1, a, pa, ha, m+1, b, pb, hb, f+1, hf => by
    have IH : ∀ x px y py, reifyF w n x = some px → reifyF w m y = some py →
        HostImpl.valueCompare w f x y = some (Compare.valueCompare px py) :=
      fun x px y py hx hy => valueCompare_bridge w n x px hx m y py hy f (by omega)
    cases a with
    | arr r =>
      obtain ⟨xs, pxs, hxs, hmx, rfl⟩ := (reifyF_arr w n r pa).mp ha
      cases b with
      | arr s =>
        obtain ⟨ys, pys, hys, hmy, rfl⟩ := (reifyF_arr w m s pb).mp hb
        simp only [HostImpl.valueCompare, hxs, hys, Option.getD_some, Compare.valueCompare]
        exact compareLists_bridge w f _ _ IH xs pxs ys pys hmx hmy
      | obj s =>
        obtain ⟨ys, pys, hys, hmy, rfl⟩ := (reifyF_obj w m s pb).mp hb
        simp [HostImpl.valueCompare, Compare.valueCompare, cmpOrd_str, HostImpl.typeName, Compare.typeName]
      | _ =>
        simp only [reifyF, Option.some.injEq] at hb; subst hb
        simp [HostImpl.valueCompare, Compare.valueCompare, cmpOrd_str, HostImpl.typeName, Compare.typeName]
    | obj r =>
      obtain ⟨xs, pxs, hxs, hmx, rfl⟩ := (reifyF_obj w n r pa).mp ha
      cases b with
      | arr s =>
        obtain ⟨ys, pys, hys, hmy, rfl⟩ := (reifyF_arr w m s pb).mp hb
        simp [HostImpl.valueCompare, Compare.valueCompare, cmpOrd_str, HostImpl.typeName, Compare.typeName]
      | obj s =>
        obtain ⟨ys, pys, hys, hmy, rfl⟩ := (reifyF_obj w m s pb).mp hb
        simp only [HostImpl.valueCompare, hxs, hys, Option.getD_some, Compare.valueCompare]
        exact compareItems_bridge w f _ _ IH _ _ _ _ (sortKeys_reify _ xs pxs hmx) (sortKeys_reify _ ys pys hmy)
      | _ =>
        simp only [reifyF, Option.some.injEq] at hb; subst hb
        simp [HostImpl.valueCompare, Compare.valueCompare, cmpOrd_str, HostImpl.typeName, Compare.typeName]
    | _ =>
      simp only [reifyF, Option.some.injEq] at ha; subst ha
      cases b with
      | arr s =>
        obtain ⟨ys, pys, hys, hmy, rfl⟩ := (reifyF_arr w m s pb).mp hb
        simp [HostImpl.valueCompare, Compare.valueCompare, cmpOrd_str, HostImpl.typeName, Compare.typeName]
      | obj s =>
        obtain ⟨ys, pys, hys, hmy, rfl⟩ := (reifyF_obj w m s pb).mp hb
        simp [HostImpl.valueCompare, Compare.valueCompare, cmpOrd_str, HostImpl.typeName, Compare.typeName]
      | _ =>
        simp only [reifyF, Option.some.injEq] at hb; subst hb
        simp [HostImpl.valueCompare, Compare.valueCompare, cmpOrd_str, cmpOrd_bool, cmpOrd_int, Compare.tri,
          HostImpl.typeName, Compare.typeName]

/-! ## fuel: monotone, bounded by the container depth, and the standard fuel is enough -/

theorem mapOpt_congr' {α β : Type} (f g : α → Option β) : ∀ (xs : List α) (l : List β),
    (∀ x ∈ xs, ∀ y ∈ l, f x = some y → g x = some y) → mapOpt f xs = some l → mapOpt g xs = some l
  | [], l, _, h => by simpa [mapOpt] using h
  | x :: xs, l, hfg, h => by
    obtain ⟨y, ys, h1, h2, rfl⟩ := (mapOpt_cons_iff f x xs l).mp h
    exact (mapOpt_cons_iff g x xs _).mpr ⟨y, ys, hfg x (by simp) y (by simp) h1,
      mapOpt_congr' f g xs ys (fun z hz y' hy' => hfg z (by simp [hz]) y' (by simp [hy'])) h2, rfl⟩

theorem mapOpt_mem' {α β : Type} (f : α → Option β) : ∀ (xs : List α) (l : List β), mapOpt f xs = some l →
    ∀ y ∈ l, ∃ x ∈ xs, f x = some y
  | [], l, h, y, hy => by rw [(mapOpt_nil_iff f l).mp h] at hy; simp at hy
  | x0 :: xs, l, h, y, hy => by
    obtain ⟨y0, ys, h1, h2, rfl⟩ := (mapOpt_cons_iff f x0 xs l).mp h
    rcases List.mem_cons.mp hy with rfl | hy
    · exact ⟨x0, by simp, h1⟩
    · obtain ⟨x, hx, hfx⟩ := mapOpt_mem' f xs ys h2 y hy
      exact ⟨x, by simp [hx], hfx⟩

theorem reifyF_succ (w : World) : ∀ (n : Nat) (a : Value) (p : Compare.PValue), reifyF w n a = some p → reifyF w (n+1) a = some p
  | 0, _, _, h => by simp [reifyF] at h
  | n+1, a, p, h => by
    cases a with
    | arr r =>
      obtain ⟨xs, pxs, hxs, hm, rfl⟩ := (reifyF_arr w n r p).mp h
      exact (reifyF_arr w (n+1) r _).mpr ⟨xs, pxs, hxs, mapOpt_congr _ _ xs pxs (fun x _ y hy => reifyF_succ w n x y hy) hm, rfl⟩
    | obj r =>
      obtain ⟨xs, pxs, hxs, hm, rfl⟩ := (reifyF_obj w n r p).mp h
      refine (reifyF_obj w (n+1) r _).mpr ⟨xs, pxs, hxs, mapOpt_congr _ _ xs pxs (fun x _ y hy => ?_) hm, rfl⟩
      obtain ⟨e, hv⟩ := (reifyItem_iff _ _ _).mp hy
      exact (reifyItem_iff _ _ _).mpr ⟨e, reifyF_succ w n x.2 y.2 hv⟩
    | _ => simpa [reifyF] using h

/-- more fuel never changes the answer -/
theorem reifyF_mono (w : World) {n m : Nat} (hnm : n ≤ m) (a : Value) (p : Compare.PValue) (h : reifyF w n a = some p) :
    reifyF w m a = some p := by
  induction hnm with
  | refl => exact h
  | step _ ih => exact reifyF_succ w _ a p ih

/-- reification is single-valued: the result, where there is one, depends on the value alone -/
theorem reifyF_det (w : World) {n m : Nat} (a : Value) (p q : Compare.PValue) (hp : reifyF w n a = some p)
    (hq : reifyF w m a = some q) : p = q := by
  have h1 := reifyF_mono w (Nat.le_max_left n m) a p hp
  have h2 := reifyF_mono w (Nat.le_max_right n m) a q hq
  rw [h1] at h2; exact Option.some.inj h2

mutual
/-- container nesting depth of a closed value -/
def depth : Compare.PValue → Nat
  | .arr xs => depthList xs + 1
  | .obj kvs => depthItems kvs + 1
  | _ => 0
def depthList : List Compare.PValue → Nat
  | [] => 0
  | x :: xs => max (depth x) (depthList xs)
def depthItems : List (String × Compare.PValue) → Nat
  | [] => 0
  | (_, v) :: rest => max (depth v) (depthItems rest)
end

theorem depth_le_depthList : ∀ (xs : List Compare.PValue) (x : Compare.PValue), x ∈ xs → depth x ≤ depthList xs
  | [], _, h => by simp at h
  | y :: ys, x, h => by
    simp only [depthList]
    rcases List.mem_cons.mp h with rfl | h
    · omega
    · have := depth_le_depthList ys x h; omega

theorem depth_le_depthItems : ∀ (xs : List (String × Compare.PValue)) (x : String × Compare.PValue), x ∈ xs →
    depth x.2 ≤ depthItems xs
  | [], _, h => by simp at h
  | (k, y) :: ys, x, h => by
    simp only [depthItems]
    rcases List.mem_cons.mp h with rfl | h
    · simp only; omega
    · have := depth_le_depthItems ys x h; omega

theorem depthList_attained : ∀ (xs : List Compare.PValue), 0 < depthList xs → ∃ x ∈ xs, depth x = depthList xs
  | [], h => by simp [depthList] at h
  | y :: ys, h => by
    simp only [depthList] at h ⊢
    by_cases hc : depthList ys ≤ depth y
    · exact ⟨y, by simp, by omega⟩
    · obtain ⟨x, hx, hd⟩ := depthList_attained ys (by omega)
      exact ⟨x, by simp [hx], by omega⟩

theorem depthItems_attained : ∀ (xs : List (String × Compare.PValue)), 0 < depthItems xs →
    ∃ x ∈ xs, depth x.2 = depthItems xs
  | [], h => by simp [depthItems] at h
  | (k, y) :: ys, h => by
    simp only [depthItems] at h ⊢
    by_cases hc : depthItems ys ≤ depth y
    · exact ⟨(k, y), by simp, by simp only; omega⟩
    · obtain ⟨x, hx, hd⟩ := depthItems_attained ys (by omega)
      exact ⟨x, by simp [hx], by omega⟩

/-- the fuel a value needs is the container depth of its reification, plus one -/
theorem reifyF_depth (w : World) : ∀ (n : Nat) (a : Value) (p : Compare.PValue), reifyF w n a = some p →
    reifyF w (depth p + 1) a = some p
  | 0, _, _, h => by simp [reifyF] at h
  | n+1, a, p, h => by
    cases a with
    | arr r =>
      obtain ⟨xs, pxs, hxs, hm, rfl⟩ := (reifyF_arr w n r p).mp h
      refine (reifyF_arr w _ r _).mpr ⟨xs, pxs, hxs, mapOpt_congr' _ _ xs pxs (fun x _ y hy hxy => ?_) hm, rfl⟩
      exact reifyF_mono w (by have := depth_le_depthList pxs y hy; simp only [depth]; omega) x y (reifyF_depth w n x y hxy)
    | obj r =>
      obtain ⟨xs, pxs, hxs, hm, rfl⟩ := (reifyF_obj w n r p).mp h
      refine (reifyF_obj w _ r _).mpr ⟨xs, pxs, hxs, mapOpt_congr' _ _ xs pxs (fun x _ y hy hxy => ?_) hm, rfl⟩
      obtain ⟨e, hv⟩ := (reifyItem_iff _ _ _).mp hxy
      exact (reifyItem_iff _ _ _).mpr ⟨e,
        reifyF_mono w (by have := depth_le_depthItems pxs y hy; simp only [depth]; omega) x.2 y.2 (reifyF_depth w n x.2 y.2 hv)⟩
    | _ =>
      simp only [reifyF, Option.some.injEq] at h; subst h; simp [reifyF]

/-- the value that names cell `r` -/
def cellVal (w : World) (r : Nat) : Value :=
  match w.heap[r]? with
  | some (.arr _) => .arr r
  | some (.obj _) => .obj r
  | none => .null

theorem cellVal_arr (w : World) (r : Nat) (xs : List Value) (h : w.arr? r = some xs) : cellVal w r = .arr r ∧ r < w.heap.length := by
  unfold World.arr? at h; unfold cellVal
  cases hc : w.heap[r]? with
  | none => simp [hc] at h
  | some c =>
    have := (List.getElem?_eq_some_iff.mp hc).1
    cases c <;> simp_all

theorem cellVal_obj (w : World) (r : Nat) (xs : List (String × Value)) (h : w.obj? r = some xs) :
    cellVal w r = .obj r ∧ r < w.heap.length := by
  unfold World.obj? at h; unfold cellVal
  cases hc : w.heap[r]? with
  | none => simp [hc] at h
  | some c =>
    have := (List.getElem?_eq_some_iff.mp hc).1
    cases c <;> simp_all

/-- cell `r` reifies to a closed value of container depth `k` -/
def CellDepth (w : World) (r k : Nat) : Prop := ∃ n p, reifyF w n (cellVal w r) = some p ∧ depth p = k

/-- below a reified value of depth `d` there is a cell of every depth `1 … d` -/
theorem cells_of_every_depth (w : World) : ∀ (n : Nat) (a : Value) (p : Compare.PValue), reifyF w n a = some p →
    ∀ k, 1 ≤ k → k ≤ depth p → ∃ r, r < w.heap.length ∧ CellDepth w r k
  | 0, _, _, h, _, _, _ => by simp [reifyF] at h
  | n+1, a, p, h, k, hk1, hk => by
    cases a with
    | arr r =>
      obtain ⟨xs, pxs, hxs, hm, rfl⟩ := (reifyF_arr w n r p).mp h
      obtain ⟨hc, hr⟩ := cellVal_arr w r xs hxs
      by_cases hkd : k = depth (.arr pxs)
      · exact ⟨r, hr, n+1, _, by rw [hc]; exact h, hkd.symm⟩
      · simp only [depth] at hk hkd
        obtain ⟨y, hy, hyd⟩ := depthList_attained pxs (by omega)
        obtain ⟨x, _, hxy⟩ := mapOpt_mem' _ xs pxs hm y hy
        exact cells_of_every_depth w n x y hxy k hk1 (by omega)
    | obj r =>
      obtain ⟨xs, pxs, hxs, hm, rfl⟩ := (reifyF_obj w n r p).mp h
      obtain ⟨hc, hr⟩ := cellVal_obj w r xs hxs
      by_cases hkd : k = depth (.obj pxs)
      · exact ⟨r, hr, n+1, _, by rw [hc]; exact h, hkd.symm⟩
      · simp only [depth] at hk hkd
        obtain ⟨y, hy, hyd⟩ := depthItems_attained pxs (by omega)
        obtain ⟨x, _, hxy⟩ := mapOpt_mem' _ xs pxs hm y hy
        obtain ⟨_, hv⟩ := (reifyItem_iff _ _ _).mp hxy
        exact cells_of_every_depth w n x.2 y.2 hv k hk1 (by omega)
    | _ =>
      simp only [reifyF, Option.some.injEq] at h; subst h; simp only [depth] at hk; omega

/-- pigeonhole: `d` pairwise different labels carried by numbers below `L`, each number carrying at most one label -/
theorem pigeon (L : Nat) (R : Nat → Nat → Prop) (hfun : ∀ r k k', R r k → R r k' → k = k') :
    ∀ d, (∀ k, 1 ≤ k → k ≤ d → ∃ r, r < L ∧ R r k) →
      ∃ l : List Nat, l.length = d ∧ l.Nodup ∧ ∀ r ∈ l, r < L ∧ ∃ k, 1 ≤ k ∧ k ≤ d ∧ R r k
  | 0, _ => ⟨[], rfl, List.nodup_nil, fun r hr => by simp at hr⟩
  | d+1, hs => by
    obtain ⟨l, hl, hnd, hmem⟩ := pigeon L R hfun d (fun k h1 h2 => hs k h1 (by omega))
    obtain ⟨r, hr, hR⟩ := hs (d+1) (by omega) (by omega)
    refine ⟨r :: l, by simp [hl], List.nodup_cons.mpr ⟨fun hin => ?_, hnd⟩, fun r' hr' => ?_⟩
    · obtain ⟨_, k, _, hk, hRk⟩ := hmem r hin
      have := hfun r _ _ hR hRk; omega
    · rcases List.mem_cons.mp hr' with rfl | hr'
      · exact ⟨hr, d+1, by omega, by omega, hR⟩
      · obtain ⟨h1, k, h2, h3, h4⟩ := hmem r' hr'
        exact ⟨h1, k, h2, by omega, h4⟩

/-- a reified value nests at most `heap.length` containers -/
theorem depth_le_heap (w : World) (n : Nat) (a : Value) (p : Compare.PValue) (h : reifyF w n a = some p) :
    depth p ≤ w.heap.length := by
  obtain ⟨l, hl, hnd, hmem⟩ := pigeon w.heap.length (CellDepth w)
    (fun r k k' ⟨_, p1, h1, d1⟩ ⟨_, p2, h2, d2⟩ => by rw [← d1, ← d2, reifyF_det w _ p1 p2 h1 h2])
    (depth p) (cells_of_every_depth w n a p h)
  have hsub : l ⊆ List.range w.heap.length := fun r hr => List.mem_range.mpr (hmem r hr).1
  have := hnd.length_le_of_subset hsub
  simpa [hl] using this

/-- **the standard fuel is enough whenever any fuel is**: `reify` fails only on self-containing containers and dangling
references, never for lack of fuel -/
theorem reifyF_complete (w : World) (n : Nat) (a : Value) (p : Compare.PValue) (h : reifyF w n a = some p) :
    reify w a = some p :=
  reifyF_mono w (by have := depth_le_heap w n a p h; omega) a p (reifyF_depth w n a p h)

end C11Bridge
