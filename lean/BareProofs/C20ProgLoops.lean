import BareProofs.C20ProgLemmas
import BareProofs.C20ProgCode
import BareProofs.C20

/-!
# C20Prog — the loops of `diffLines`, run on the jump machine

Program-specific lemmas: scopes (`GOK`, `Clean`, `SameExcept`), the expression shapes diff.bare uses (`ev_*`), the representation
invariant of the result array (`BlockAt`, `Blocks`, `Ext`), and one lemma per loop of the lowered body `B`:
`split_input` (the `if systemType(x) == 'array'` block with its `for` loop, used for `left` and for `right`),
`ident_loop`, `scan_right`, `scan_left`.  The main `while` loop and the theorems are in `BareProofs/C20Prog.lean`.
-/

set_option linter.unusedSimpArgs false
set_option linter.unusedSectionVars false
set_option linter.unusedVariables false

namespace C20Prog
open Machine HostLib HostDiff Lib Diff

/-! ## scopes -/

/-- the names diffLines reads from the globals: the library functions, the (undefined) variable `False`, the line-split regex -/
def globNames : List Name := usedLib.map Name.user ++ [.user "False", .user "diffRegexLineSplit"]

/-- the local scope shadows none of them -/
def Clean (l : Env) : Prop := ∀ x ∈ globNames, l.get? x = none

/-- what diffLines needs of the globals it is called with: every library function it uses is bound to that library function,
`diffRegexLineSplit` holds the regex `\r?\n` (bound by the last statement of diff.bare), and `False` (diff.bare:107 spells the
literal `false` with a capital: an ordinary, undefined variable) is unbound -/
structure GOK (g : Env) : Prop where
  lib : ∀ f ∈ usedLib, g.get? (.user f) = some (.fn (.lib f))
  re : g.get? (.user "diffRegexLineSplit") = some (.regex (encStr lineSplitPattern))
  noFalse : g.get? (.user "False") = none

theorem Clean.set {l : Env} (hc : Clean l) {x : Name} (hx : x ∉ globNames) (v : MValue) : Clean (l.set x v) := by
  intro y hy
  rw [C04.get?_set_other _ _ _ _ (fun e : y = x => hx (e ▸ hy))]
  exact hc y hy

theorem mem_globNames {f : String} (hf : f ∈ usedLib) : Name.user f ∈ globNames := by
  simp only [globNames, List.mem_append, List.mem_map]
  exact Or.inl ⟨f, hf, rfl⟩

theorem usedLib_notIf : ∀ f ∈ usedLib, Name.user f ≠ kwIf := by decide

/-- `l'` agrees with `l` on every variable outside `S` -/
def SameExcept (S : List Name) (l l' : Env) : Prop := ∀ x, x ∉ S → l'.get? x = l.get? x

theorem SameExcept.refl (S : List Name) (l : Env) : SameExcept S l l := fun _ _ => rfl

theorem SameExcept.trans {S : List Name} {l l' l'' : Env} (a : SameExcept S l l') (b : SameExcept S l' l'') :
    SameExcept S l l'' := fun x hx => (b x hx).trans (a x hx)

theorem SameExcept.set {S : List Name} {l l' : Env} (a : SameExcept S l l') {x : Name} (hx : x ∈ S) (v : MValue) :
    SameExcept S l (l'.set x v) := by
  intro y hy
  rw [C04.get?_set_other _ _ _ _ (fun e : y = x => hy (e ▸ hx))]
  exact a y hy

theorem SameExcept.mono {S T : List Name} {l l' : Env} (a : SameExcept S l l') (hST : ∀ x ∈ S, x ∈ T) :
    SameExcept T l l' := fun x hx => a x (fun h => hx (hST x h))

theorem SameExcept.clean {S : List Name} {l l' : Env} (a : SameExcept S l l') (hc : Clean l)
    (hS : ∀ x ∈ S, x ∉ globNames) : Clean l' := by
  intro x hx
  rw [a x (fun h => hS x h hx)]
  exact hc x hx

/-! ## heaps: prefix preservation -/

/-- `h'` extends `h`: every cell of `h` is still there, unchanged -/
def Pres (h h' : Heap) : Prop := h.length ≤ h'.length ∧ ∀ r, r < h.length → h'[r]? = h[r]?

theorem Pres.refl (h : Heap) : Pres h h := ⟨Nat.le_refl _, fun _ _ => rfl⟩

theorem Pres.trans {h h' h'' : Heap} (a : Pres h h') (b : Pres h' h'') : Pres h h'' :=
  ⟨Nat.le_trans a.1 b.1, fun r hr => (b.2 r (Nat.lt_of_lt_of_le hr a.1)).trans (a.2 r hr)⟩

theorem Pres.append (h : Heap) (c : Cell) : Pres h (h ++ [c]) :=
  ⟨by simp, fun r hr => List.getElem?_append_left hr⟩

/-- a store into a cell allocated after `h` -/
theorem Pres.set_ge {h h' : Heap} (a : Pres h h') {r : Nat} (hr : h.length ≤ r) (c : Cell) : Pres h (h'.set r c) :=
  ⟨by simpa using a.1, fun r' hr' => by rw [List.getElem?_set_ne (by omega)]; exact a.2 r' hr'⟩

theorem Pres.getArr {h h' : Heap} (a : Pres h h') {r : Nat} {xs : List Lib.Value} (hx : getArr h r = some xs) :
    getArr h' r = some xs := by
  have hr := getArr_lt hx
  unfold Lib.getArr at hx ⊢
  rw [a.2 r hr]; exact hx

theorem Pres.getObj {h h' : Heap} (a : Pres h h') {r : Nat} {kvs} (hx : getObj h r = some kvs) :
    getObj h' r = some kvs := by
  have hr := getObj_lt hx
  unfold Lib.getObj at hx ⊢
  rw [a.2 r hr]; exact hx

/-! ## the expression shapes of diff.bare -/

section Shapes
variable {cfg : Config LWorld} (hh : cfg.host = hostDiff) {g : Env} (hg : GOK g) {l : Env} (hc : Clean l)
include hh hg hc

omit hh in
/-- a call of one of the library functions diff.bare uses -/
theorem Ev.callU {f : String} {args : List Expr} {vs : List MValue} {v : MValue} {h h1 h2 : Heap}
    (hf : f ∈ usedLib) (hargs : EvArgs cfg g l h args vs h1) (hcall : LibCall cfg f vs h1 v h2) :
    Ev cfg g l h (.function (.user f) args) v h2 :=
  Ev.call (usedLib_notIf f hf) hargs (hc _ (mem_globNames hf)) (hg.lib f hf) hcall

theorem ev_arrayNew (h : Heap) : Ev cfg g l h (.function (.user "arrayNew") []) (.arr h.length) (h ++ [.arr []]) :=
  Ev.callU hg hc (by decide) EvArgs.nil (libcall_arrayNew hh h)

theorem ev_len {h : Heap} {x : Name} {r : Nat} {xs : List Lib.Value} (kx : NotKw x) (hx : l.get? x = some (.arr r))
    (hr : getArr h r = some xs) :
    Ev cfg g l h (.function (.user "arrayLength") [.variable x]) (nv xs.length) h :=
  Ev.callU hg hc (by decide) (EvArgs.cons (Ev.varL kx hx) EvArgs.nil) (libcall_arrayLength hh hr)

theorem ev_get {h : Heap} {a ix : Name} {r i : Nat} {xs : List String} {s : String} (ka : NotKw a) (ki : NotKw ix)
    (ha : l.get? a = some (.arr r)) (hi : l.get? ix = some (nv i)) (hr : getArr h r = some (strs xs))
    (hs : xs[i]? = some s) :
    Ev cfg g l h (.function (.user "arrayGet") [.variable a, .variable ix]) (.str s) h := by
  have hv : (strs xs)[i]? = some (Lib.Value.str s) := by rw [strs_getElem?, hs]; rfl
  exact Ev.callU hg hc (by decide) (EvArgs.cons (Ev.varL ka ha) (EvArgs.cons (Ev.varL ki hi) EvArgs.nil))
    (libcall_arrayGet hh hr hv)

/-- `regexSplit(diffRegexLineSplit, x)` for a string `x` -/
theorem ev_split {h : Heap} {x : Name} {s : String} (kx : NotKw x) (hx : l.get? x = some (.str s)) :
    Ev cfg g l h (.function (.user "regexSplit") [.variable (.user "diffRegexLineSplit"), .variable x])
      (.arr h.length) (h ++ [.arr (strs (splitLines s))]) :=
  Ev.callU hg hc (by decide)
    (EvArgs.cons (Ev.varG (by decide) (hc _ (by decide)) hg.re) (EvArgs.cons (Ev.varL kx hx) EvArgs.nil))
    (libcall_regexSplit hh h s)

omit hg hc in
theorem ev_lt {h : Heap} {x y : Name} {i n : Nat} (kx : NotKw x) (ky : NotKw y) (hx : l.get? x = some (nv i))
    (hy : l.get? y = some (nv n)) : EvB cfg g l h (.binary .lt (.variable x) (.variable y)) (decide (i < n)) :=
  EvB.lt hh (Ev.varL kx hx) (Ev.varL ky hy)

omit hg hc in
theorem ev_ge {h : Heap} {x y : Name} {i n : Nat} (kx : NotKw x) (ky : NotKw y) (hx : l.get? x = some (nv i))
    (hy : l.get? y = some (nv n)) : EvB cfg g l h (.binary .ge (.variable x) (.variable y)) (decide (i ≥ n)) :=
  EvB.ge hh (Ev.varL kx hx) (Ev.varL ky hy)

omit hg hc in
theorem ev_gt {h : Heap} {x y : Name} {i n : Nat} (kx : NotKw x) (ky : NotKw y) (hx : l.get? x = some (nv i))
    (hy : l.get? y = some (nv n)) : EvB cfg g l h (.binary .gt (.variable x) (.variable y)) (decide (i > n)) :=
  EvB.gt hh (Ev.varL kx hx) (Ev.varL ky hy)

omit hg hc in
theorem ev_succ {h : Heap} {x : Name} {i : Nat} (kx : NotKw x) (hx : l.get? x = some (nv i)) :
    Ev cfg g l h (.binary .add (.variable x) (.number (1 : Rat))) (nv (i + 1)) h :=
  Ev.succ hh (Ev.varL kx hx)

/-- `arrayGet(a, i) == arrayGet(b, j)` on two string arrays, both indices in range -/
theorem ev_getEq {h : Heap} {a ia b ib : Name} {ra rb i j : Nat} {xs ys : List String} {s t : String}
    (ka : NotKw a) (kia : NotKw ia) (kb : NotKw b) (kib : NotKw ib)
    (ha : l.get? a = some (.arr ra)) (hia : l.get? ia = some (nv i)) (hra : getArr h ra = some (strs xs)) (hs : xs[i]? = some s)
    (hb : l.get? b = some (.arr rb)) (hib : l.get? ib = some (nv j)) (hrb : getArr h rb = some (strs ys)) (ht : ys[j]? = some t) :
    EvB cfg g l h (.binary .eq (.function (.user "arrayGet") [.variable a, .variable ia])
      (.function (.user "arrayGet") [.variable b, .variable ib])) (decide (s = t)) :=
  EvB.eqStr hh (ev_get hh hg hc ka kia ha hia hra hs) (ev_get hh hg hc kb kib hb hib hrb ht)

/-- `arrayPush(diffs, objectNew('type', kind, 'lines', <lines>))` where `<lines>` evaluates to an array reference -/
theorem ev_pushBlock {h h1 : Heap} {linesE : Expr} {k : String} {a rD : Nat} {vs : List Lib.Value}
    (hlines : Ev cfg g l h linesE (.arr a) h1) (hd : l.get? (.user "diffs") = some (.arr rD))
    (hrD : getArr h1 rD = some vs) :
    Ev cfg g l h (.function (.user "arrayPush") [.variable (.user "diffs"),
        .function (.user "objectNew") [.string "type", .string k, .string "lines", linesE]])
      (.arr rD)
      ((h1 ++ [Cell.obj [("type", .str k), ("lines", .arr a)]]).set rD (.arr (vs ++ [.obj h1.length]))) := by
  have hlt := getArr_lt hrD
  have e1 : Ev cfg g l h (.function (.user "objectNew") [.string "type", .string k, .string "lines", linesE])
      (.obj h1.length) (h1 ++ [.obj [("type", .str k), ("lines", .arr a)]]) :=
    Ev.callU hg hc (by decide)
      (EvArgs.cons (Ev.str _) (EvArgs.cons (Ev.str _) (EvArgs.cons (Ev.str _) (EvArgs.cons hlines EvArgs.nil))))
      (libcall_objectNew hh h1 k (.arr a))
  have hrD' : getArr (h1 ++ [.obj [("type", .str k), ("lines", .arr a)]]) rD = some vs := by
    rw [getArr_append_lt _ hlt]; exact hrD
  exact Ev.callU hg hc (by decide) (EvArgs.cons (Ev.varL (by decide) hd) (EvArgs.cons e1 EvArgs.nil))
    (libcall_arrayPush hh (.obj h1.length) hrD')

end Shapes

/-! ## splitting one input into lines (diff.bare:54-72) -/

/-- the code of one `if systemType(X) == 'array': LINES = arrayNew(); for PART in X: arrayExtend(LINES, regexSplit(re, PART))
else: LINES = regexSplit(re, X)` block, lowered, at offset `pc0` of `B` -/
structure SplitCode where
  pc0 : Nat
  X : Name
  LINES : Name
  PART : Name
  VALS : Name
  LEN : Name
  IDX : Name
  labIf : Name
  labDoneA : Name
  labLoop : Name
  labDoneN : Name
  s0 : B[pc0]? = some (.jump labIf (some (.unary .not
        (.binary .eq (.function (.user "systemType") [.variable X]) (.string "array")))))
  s1 : B[pc0+1]? = some (.expr (some LINES) (.function (.user "arrayNew") []))
  s2 : B[pc0+2]? = some (.expr (some VALS) (.variable X))
  s3 : B[pc0+3]? = some (.expr (some LEN) (.function (.user "arrayLength") [.variable VALS]))
  s4 : B[pc0+4]? = some (.jump labDoneN (some (.unary .not (.variable LEN))))
  s5 : B[pc0+5]? = some (.expr (some IDX) (.number (0 : Rat)))
  s6 : B[pc0+6]? = some (.label labLoop)
  s7 : B[pc0+7]? = some (.expr (some PART) (.function (.user "arrayGet") [.variable VALS, .variable IDX]))
  s8 : B[pc0+8]? = some (.expr none (.function (.user "arrayExtend") [.variable LINES,
        .function (.user "regexSplit") [.variable (.user "diffRegexLineSplit"), .variable PART]]))
  s9 : B[pc0+9]? = some (.expr (some IDX) (.binary .add (.variable IDX) (.number (1 : Rat))))
  s10 : B[pc0+10]? = some (.jump labLoop (some (.binary .lt (.variable IDX) (.variable LEN))))
  s11 : B[pc0+11]? = some (.label labDoneN)
  s12 : B[pc0+12]? = some (.jump labDoneA none)
  s13 : B[pc0+13]? = some (.label labIf)
  s14 : B[pc0+14]? = some (.expr (some LINES)
        (.function (.user "regexSplit") [.variable (.user "diffRegexLineSplit"), .variable X]))
  s15 : B[pc0+15]? = some (.label labDoneA)
  lIf : findLabel B labIf = some (pc0+13)
  lDoneA : findLabel B labDoneA = some (pc0+15)
  lLoop : findLabel B labLoop = some (pc0+6)
  lDoneN : findLabel B labDoneN = some (pc0+11)
  kw : ∀ x ∈ [X, LINES, PART, VALS, LEN, IDX], NotKw x
  ng : ∀ x ∈ [LINES, PART, VALS, LEN, IDX], x ∉ globNames
  dist : [X, LINES, PART, VALS, LEN, IDX].Pairwise (· ≠ ·)

/-- the variables the block assigns -/
def SplitCode.S (sc : SplitCode) : List Name := [sc.LINES, sc.PART, sc.VALS, sc.LEN, sc.IDX]

/-- a script-level argument of `diffLines` as a machine value: a string, or an array of strings -/
def InputVal (h : Heap) : MValue → Input → Prop
  | .str s, .text t => s = t
  | .arr r, .parts ps => getArr h r = some (strs ps)
  | _, _ => False

theorem take_succ_flatMap (ps : List String) (k : Nat) (p : String) (hk : ps[k]? = some p) :
    (ps.take (k+1)).flatMap splitLines = (ps.take k).flatMap splitLines ++ splitLines p := by
  rw [List.take_add_one, hk]; simp

section Split
variable {cfg : Config LWorld} (hh : cfg.host = hostDiff) (hmax : cfg.maxStatements = 0) {g : Env} (hg : GOK g)
  (sc : SplitCode)
include hh hmax hg

/-- the facts the `for` loop over the parts maintains, at index `k` -/
structure SplitInv (ps : List String) (rin rl : Nat) (h0 : Heap) (k : Nat) (l : Env) (h : Heap) : Prop where
  clean : Clean l
  vals : l.get? sc.VALS = some (.arr rin)
  len : l.get? sc.LEN = some (nv ps.length)
  idx : l.get? sc.IDX = some (nv k)
  lines : l.get? sc.LINES = some (.arr rl)
  pres : Pres h0 h
  acc : getArr h rl = some (strs ((ps.take k).flatMap splitLines))

omit hh hmax hg in
theorem SplitCode.ne (sc : SplitCode) :
    sc.X ≠ sc.LINES ∧ sc.X ≠ sc.PART ∧ sc.X ≠ sc.VALS ∧ sc.X ≠ sc.LEN ∧ sc.X ≠ sc.IDX ∧ sc.LINES ≠ sc.PART ∧
    sc.LINES ≠ sc.VALS ∧ sc.LINES ≠ sc.LEN ∧ sc.LINES ≠ sc.IDX ∧ sc.PART ≠ sc.VALS ∧ sc.PART ≠ sc.LEN ∧
    sc.PART ≠ sc.IDX ∧ sc.VALS ≠ sc.LEN ∧ sc.VALS ≠ sc.IDX ∧ sc.LEN ≠ sc.IDX := by
  have hd := sc.dist
  simp [List.pairwise_cons] at hd
  obtain ⟨⟨a1, a2, a3, a4, a5⟩, ⟨b1, b2, b3, b4⟩, ⟨c1, c2, c3⟩, ⟨d1, d2⟩, e1⟩ := hd
  exact ⟨a1, a2, a3, a4, a5, b1, b2, b3, b4, c1, c2, c3, d1, d2, e1⟩

/-- one pass through the body of the `for` loop: statements `pc0+7 … pc0+9` -/
theorem split_body {ps : List String} {rin rl : Nat} {h0 : Heap} (hin : getArr h0 rin = some (strs ps))
    (hrl : h0.length ≤ rl) {k : Nat} {l : Env} {h : Heap} (hk : k < ps.length)
    (inv : SplitInv sc ps rin rl h0 k l h) :
    ∃ l' h', Steps cfg B g (sc.pc0+7) l h (sc.pc0+10) l' h' ∧ SameExcept sc.S l l' ∧
      SplitInv sc ps rin rl h0 (k+1) l' h' := by
  obtain ⟨dXL, dXP, dXV, dXN, dXI, dLP, dLV, dLN, dLI, dPV, dPN, dPI, dVN, dVI, dNI⟩ := sc.ne
  have kV := sc.kw sc.VALS (by simp)
  have kI := sc.kw sc.IDX (by simp)
  have kL := sc.kw sc.LINES (by simp)
  have kP := sc.kw sc.PART (by simp)
  have gP := sc.ng sc.PART (by simp)
  have gI := sc.ng sc.IDX (by simp)
  obtain ⟨hc, hV, hN, hI, hL, hpres, hacc⟩ := inv
  obtain ⟨p, hp⟩ : ∃ p, ps[k]? = some p := ⟨ps[k], List.getElem?_eq_getElem hk⟩
  have hc1 : Clean (l.set sc.PART (.str p)) := hc.set gP _
  have hL1 : (l.set sc.PART (.str p)).get? sc.LINES = some (.arr rl) := by
    rw [C04.get?_set_other _ _ _ _ dLP]; exact hL
  have hP1 : (l.set sc.PART (.str p)).get? sc.PART = some (.str p) := C04.get?_set_same _ _ _
  have hI1 : (l.set sc.PART (.str p)).get? sc.IDX = some (nv k) := by
    rw [C04.get?_set_other _ _ _ _ (Ne.symm dPI)]; exact hI
  have hrlh : rl < h.length := getArr_lt hacc
  have hacc2 : getArr (h ++ [Cell.arr (strs (splitLines p))]) rl = some (strs ((ps.take k).flatMap splitLines)) := by
    rw [getArr_append_lt _ hrlh]; exact hacc
  refine ⟨(l.set sc.PART (.str p)).set sc.IDX (nv (k+1)),
    (h ++ [Cell.arr (strs (splitLines p))]).set rl (.arr (strs ((ps.take k).flatMap splitLines) ++ strs (splitLines p))),
    ?_, ?_, ?_⟩
  · refine Steps.trans (Steps.assign hmax sc.s7 (ev_get hh hg hc kV kI hV hI (hpres.getArr hin) hp)) ?_
    refine Steps.trans (Steps.exprStmt hmax sc.s8
      (Ev.callU hg hc1 (f := "arrayExtend") (by decide)
        (EvArgs.cons (Ev.varL kL hL1) (EvArgs.cons (ev_split hh hg hc1 kP hP1) EvArgs.nil))
        (libcall_arrayExtend hh hacc2 (getArr_append_new h _)))) ?_
    exact Steps.assign hmax sc.s9 (ev_succ hh kI hI1)
  · exact ((SameExcept.refl _ _).set (by simp [SplitCode.S]) _).set (by simp [SplitCode.S]) _
  · refine ⟨hc1.set gI _, ?_, ?_, C04.get?_set_same _ _ _, ?_, ?_, ?_⟩
    · rw [C04.get?_set_other _ _ _ _ dVI, C04.get?_set_other _ _ _ _ (Ne.symm dPV)]; exact hV
    · rw [C04.get?_set_other _ _ _ _ dNI, C04.get?_set_other _ _ _ _ (Ne.symm dPN)]; exact hN
    · rw [C04.get?_set_other _ _ _ _ dLI]; exact hL1
    · exact (hpres.trans (Pres.append _ _)).set_ge hrl _
    · rw [getArr_set_same _ (by simp; omega), take_succ_flatMap ps k p hp, strs_append]

theorem split_loop {ps : List String} {rin rl : Nat} {h0 : Heap} (hin : getArr h0 rin = some (strs ps))
    (hrl : h0.length ≤ rl) :
    ∀ (m k : Nat) (l : Env) (h : Heap), k + (m+1) = ps.length → SplitInv sc ps rin rl h0 k l h →
      ∃ l' h', Steps cfg B g (sc.pc0+7) l h (sc.pc0+12) l' h' ∧ SameExcept sc.S l l' ∧
        l'.get? sc.LINES = some (.arr rl) ∧ Clean l' ∧ Pres h0 h' ∧ getArr h' rl = some (strs (ps.flatMap splitLines)) := by
  have kI := sc.kw sc.IDX (by simp)
  have kN := sc.kw sc.LEN (by simp)
  intro m
  induction m with
  | zero =>
    intro k l h hkm inv
    obtain ⟨l1, h1, st, hsame, inv1⟩ := split_body hh hmax hg sc hin hrl (by omega) inv
    refine ⟨l1, h1, ?_, hsame, inv1.lines, inv1.clean, inv1.pres, ?_⟩
    · refine st.trans (Steps.trans (Steps.jumpifBF hmax hh sc.s10 sc.lLoop (ev_lt hh kI kN inv1.idx inv1.len)
        (by simp; omega)) (Steps.label hmax sc.s11))
    · have : k + 1 = ps.length := by omega
      have hacc := inv1.acc
      rwa [this, List.take_length] at hacc
  | succ m ih =>
    intro k l h hkm inv
    obtain ⟨l1, h1, st, hsame, inv1⟩ := split_body hh hmax hg sc hin hrl (by omega) inv
    obtain ⟨l', h', st', hsame', r⟩ := ih (k+1) l1 h1 (by omega) inv1
    refine ⟨l', h', ?_, hsame.trans hsame', r⟩
    exact st.trans (Steps.trans (Steps.jumpifBT hmax hh sc.s10 sc.lLoop (ev_lt hh kI kN inv1.idx inv1.len)
      (by simp; omega)) st')

/-- **the whole block**: whatever the argument is — a string, or an array of strings — afterwards `LINES` holds a fresh array
with exactly the lines of the argument (`Input.lines`); no existing cell is touched -/
theorem split_input {l : Env} {h : Heap} {v : MValue} {inp : Input} (hc : Clean l) (hx : l.get? sc.X = some v)
    (hv : InputVal h v inp) :
    ∃ l' h' rl, Steps cfg B g sc.pc0 l h (sc.pc0+16) l' h' ∧ SameExcept sc.S l l' ∧ Clean l' ∧
      l'.get? sc.LINES = some (.arr rl) ∧ h.length ≤ rl ∧ Pres h h' ∧ getArr h' rl = some (strs inp.lines) := by
  obtain ⟨dXL, dXP, dXV, dXN, dXI, dLP, dLV, dLN, dLI, dPV, dPN, dPI, dVN, dVI, dNI⟩ := sc.ne
  have kX := sc.kw sc.X (by simp)
  have kV := sc.kw sc.VALS (by simp)
  have kN := sc.kw sc.LEN (by simp)
  have gL := sc.ng sc.LINES (by simp)
  have gV := sc.ng sc.VALS (by simp)
  have gN := sc.ng sc.LEN (by simp)
  have gI := sc.ng sc.IDX (by simp)
  cases v with
  | str s =>
    cases inp with
    | parts ps => exact absurd hv (by simp [InputVal])
    | text t =>
      have : s = t := hv
      subst this
      have c0 : EvB cfg g l h (.binary .eq (.function (.user "systemType") [.variable sc.X]) (.string "array"))
          (decide (("string" : String) = "array")) :=
        EvB.eqStr hh (Ev.callU hg hc (f := "systemType") (by decide) (EvArgs.cons (Ev.varL kX hx) EvArgs.nil)
          (libcall_systemType hh h (.str s))) (Ev.str _)
      refine ⟨l.set sc.LINES (.arr h.length), h ++ [Cell.arr (strs (splitLines s))], h.length, ?_, ?_, hc.set gL _,
        C04.get?_set_same _ _ _, Nat.le_refl _, Pres.append _ _, getArr_append_new _ _⟩
      · refine Steps.trans (Steps.jumpifBT hmax hh sc.s0 sc.lIf (EvB.not hh c0) (by decide)) ?_
        refine Steps.trans (Steps.assign hmax sc.s14 (ev_split hh hg hc kX hx)) ?_
        exact Steps.label hmax sc.s15
      · exact (SameExcept.refl _ _).set (by simp [SplitCode.S]) _
  | arr r =>
    cases inp with
    | text t => exact absurd hv (by simp [InputVal])
    | parts ps =>
      have hin : getArr h r = some (strs ps) := hv
      have c0 : EvB cfg g l h (.binary .eq (.function (.user "systemType") [.variable sc.X]) (.string "array"))
          (decide (("array" : String) = "array")) :=
        EvB.eqStr hh (Ev.callU hg hc (f := "systemType") (by decide) (EvArgs.cons (Ev.varL kX hx) EvArgs.nil)
          (libcall_systemType hh h (.arr r))) (Ev.str _)
      -- the three assignments before the loop
      have hc1 : Clean (l.set sc.LINES (.arr h.length)) := hc.set gL _
      have hX1 : (l.set sc.LINES (.arr h.length)).get? sc.X = some (.arr r) := by
        rw [C04.get?_set_other _ _ _ _ dXL]; exact hx
      have hc2 : Clean ((l.set sc.LINES (.arr h.length)).set sc.VALS (.arr r)) := hc1.set gV _
      have hin1 : getArr (h ++ [Cell.arr []]) r = some (strs ps) := by
        rw [getArr_append_lt _ (getArr_lt hin)]; exact hin
      have hlen : Ev cfg g ((l.set sc.LINES (.arr h.length)).set sc.VALS (.arr r)) (h ++ [Cell.arr []])
          (.function (.user "arrayLength") [.variable sc.VALS]) (nv ps.length) (h ++ [Cell.arr []]) := by
        have := ev_len hh hg hc2 kV (C04.get?_set_same _ _ _) hin1
        rwa [strs_length] at this
      have pre : Steps cfg B g sc.pc0 l h (sc.pc0+4)
          (((l.set sc.LINES (.arr h.length)).set sc.VALS (.arr r)).set sc.LEN (nv ps.length)) (h ++ [Cell.arr []]) := by
        refine Steps.trans (Steps.jumpifBF hmax hh sc.s0 sc.lIf (EvB.not hh c0) (by decide)) ?_
        refine Steps.trans (Steps.assign hmax sc.s1 (ev_arrayNew hh hg hc h)) ?_
        refine Steps.trans (Steps.assign hmax sc.s2 (Ev.varL kX hX1)) ?_
        exact Steps.assign hmax sc.s3 hlen
      have hc3 : Clean (((l.set sc.LINES (.arr h.length)).set sc.VALS (.arr r)).set sc.LEN (nv ps.length)) := hc2.set gN _
      have hN3 : (((l.set sc.LINES (.arr h.length)).set sc.VALS (.arr r)).set sc.LEN (nv ps.length)).get? sc.LEN
          = some (nv ps.length) := C04.get?_set_same _ _ _
      have hL3 : (((l.set sc.LINES (.arr h.length)).set sc.VALS (.arr r)).set sc.LEN (nv ps.length)).get? sc.LINES
          = some (.arr h.length) := by
        rw [C04.get?_set_other _ _ _ _ dLN, C04.get?_set_other _ _ _ _ dLV]; exact C04.get?_set_same _ _ _
      have hV3 : (((l.set sc.LINES (.arr h.length)).set sc.VALS (.arr r)).set sc.LEN (nv ps.length)).get? sc.VALS
          = some (.arr r) := by
        rw [C04.get?_set_other _ _ _ _ dVN]; exact C04.get?_set_same _ _ _
      have same3 : SameExcept sc.S l (((l.set sc.LINES (.arr h.length)).set sc.VALS (.arr r)).set sc.LEN (nv ps.length)) :=
        (((SameExcept.refl _ _).set (by simp [SplitCode.S]) _).set (by simp [SplitCode.S]) _).set (by simp [SplitCode.S]) _
      have cnd := Ev.not hh (Ev.varL (cfg := cfg) (g := g) (h := h ++ [Cell.arr []]) kN hN3) (Tr.nv ps.length _)
      by_cases hps : ps.length = 0
      · -- an empty array: the loop is skipped
        have hnil : ps = [] := List.length_eq_zero_iff.mp hps
        refine ⟨_, h ++ [Cell.arr []], h.length, ?_, same3, hc3, hL3, Nat.le_refl _, Pres.append _ _, ?_⟩
        · refine pre.trans ?_
          refine Steps.trans (Steps.jumpifT hmax hh sc.s4 sc.lDoneN cnd (by rw [hps]; exact Tr.bool _ _)) ?_
          exact Steps.jump hmax sc.s12 sc.lDoneA
        · rw [getArr_append_new, hnil]; rfl
      · obtain ⟨m, hm⟩ : ∃ m, ps.length = m + 1 := ⟨ps.length - 1, by omega⟩
        have inv : SplitInv sc ps r h.length h 0
            ((((l.set sc.LINES (.arr h.length)).set sc.VALS (.arr r)).set sc.LEN (nv ps.length)).set sc.IDX (nv 0))
            (h ++ [Cell.arr []]) := by
          refine ⟨hc3.set gI _, ?_, ?_, C04.get?_set_same _ _ _, ?_, Pres.append _ _, ?_⟩
          · rw [C04.get?_set_other _ _ _ _ dVI]; exact hV3
          · rw [C04.get?_set_other _ _ _ _ dNI]; exact hN3
          · rw [C04.get?_set_other _ _ _ _ dLI]; exact hL3
          · rw [getArr_append_new]; rfl
        obtain ⟨l', h', st, hsame, hL', hc', hpres', hfin⟩ :=
          split_loop hh hmax hg sc hin (Nat.le_refl _) m 0 _ _ (by omega) inv
        refine ⟨l', h', h.length, ?_, (same3.set (by simp [SplitCode.S]) _).trans hsame, hc', hL', Nat.le_refl _, hpres', hfin⟩
        refine pre.trans ?_
        have hb : (!(ps.length != 0)) = false := by simp [hps]
        refine Steps.trans (Steps.jumpifF hmax hh sc.s4 sc.lDoneN cnd (by rw [hb]; exact Tr.bool _ _)) ?_
        refine Steps.trans (Steps.assign hmax sc.s5 (nv_zero ▸ Ev.num 0)) ?_
        refine Steps.trans (Steps.label hmax sc.s6) ?_
        exact st.trans (Steps.jump hmax sc.s12 sc.lDoneA)
  | _ => cases inp <;> exact absurd hv (by simp [InputVal])

end Split

/-! ## the result array: representation invariant and decoding -/

/-- `h'` extends `h` except possibly in cell `rD` (the result array, which grows by `arrayPush`) -/
def Ext (rD : Nat) (h h' : Heap) : Prop := h.length ≤ h'.length ∧ ∀ r, r < h.length → r ≠ rD → h'[r]? = h[r]?

theorem Pres.ext {h h' : Heap} (a : Pres h h') (rD : Nat) : Ext rD h h' := ⟨a.1, fun r hr _ => a.2 r hr⟩

theorem Ext.trans {rD : Nat} {h h' h'' : Heap} (a : Ext rD h h') (b : Ext rD h' h'') : Ext rD h h'' :=
  ⟨Nat.le_trans a.1 b.1, fun r hr hne => (b.2 r (Nat.lt_of_lt_of_le hr a.1) hne).trans (a.2 r hr hne)⟩

theorem Ext.set (rD : Nat) (h : Heap) (c : Cell) : Ext rD h (h.set rD c) :=
  ⟨by simp, fun r _ hne => List.getElem?_set_ne (Ne.symm hne)⟩

theorem Ext.getArr {rD : Nat} {h h' : Heap} (a : Ext rD h h') {r : Nat} {xs : List Lib.Value} (hne : r ≠ rD)
    (hx : getArr h r = some xs) : getArr h' r = some xs := by
  have hr := getArr_lt hx
  unfold Lib.getArr at hx ⊢
  rw [a.2 r hr hne]; exact hx

theorem Ext.getObj {rD : Nat} {h h' : Heap} (a : Ext rD h h') {r : Nat} {kvs} (hne : r ≠ rD)
    (hx : getObj h r = some kvs) : getObj h' r = some kvs := by
  have hr := getObj_lt hx
  unfold Lib.getObj at hx ⊢
  rw [a.2 r hr hne]; exact hx

/-- two lists are related element by element -/
inductive All2 {α β : Type} (R : α → β → Prop) : List α → List β → Prop
  | nil : All2 R [] []
  | cons {a : α} {b : β} {as : List α} {bs : List β} : R a b → All2 R as bs → All2 R (a :: as) (b :: bs)

/-- the array element `v` is an object `{type: <kind>, lines: <array of the strings of b>}`, none of whose cells is `rD` -/
def BlockAt (h : Heap) (rD : Nat) (v : Lib.Value) (b : Block String) : Prop :=
  ∃ o a, v = .obj o ∧ o ≠ rD ∧ a ≠ rD ∧
    getObj h o = some [("type", .str b.kind.text), ("lines", .arr a)] ∧ getArr h a = some (strs b.lines)

/-- cell `rD` is an array whose elements represent the blocks `bs`, in order -/
def Blocks (h : Heap) (rD : Nat) (bs : List (Block String)) : Prop :=
  ∃ vs, getArr h rD = some vs ∧ All2 (BlockAt h rD) vs bs

theorem BlockAt.ext {h h' : Heap} {rD : Nat} {v : Lib.Value} {b : Block String} (hb : BlockAt h rD v b)
    (e : Ext rD h h') : BlockAt h' rD v b := by
  obtain ⟨o, a, hv, ho, ha, hobj, harr⟩ := hb
  exact ⟨o, a, hv, ho, ha, e.getObj ho hobj, e.getArr ha harr⟩

theorem forall₂_blockAt_ext {h h' : Heap} {rD : Nat} {vs : List Lib.Value} {bs : List (Block String)}
    (hb : All2 (BlockAt h rD) vs bs) (e : Ext rD h h') : All2 (BlockAt h' rD) vs bs := by
  induction hb with
  | nil => exact .nil
  | cons h1 _ ih => exact .cons (h1.ext e) ih

theorem forall₂_append_one {α β : Type} {R : α → β → Prop} {xs : List α} {ys : List β} {x : α} {y : β}
    (h : All2 R xs ys) (hxy : R x y) : All2 R (xs ++ [x]) (ys ++ [y]) := by
  induction h with
  | nil => exact .cons hxy .nil
  | cons h1 _ ih => exact .cons h1 ih

/-- the heap part of the main loop's invariant: the two line arrays, the result array -/
structure MHeap (h : Heap) (rD rL rR : Nat) (L R : List String) (bs : List (Block String)) : Prop where
  hL : getArr h rL = some (strs L)
  hR : getArr h rR = some (strs R)
  neL : rL ≠ rD
  neR : rR ≠ rD
  hD : Blocks h rD bs

theorem MHeap.pres {h h' : Heap} {rD rL rR : Nat} {L R : List String} {bs : List (Block String)}
    (m : MHeap h rD rL rR L R bs) (p : Pres h h') : MHeap h' rD rL rR L R bs := by
  obtain ⟨vs, hvs, hf⟩ := m.hD
  exact ⟨p.getArr m.hL, p.getArr m.hR, m.neL, m.neR, vs, p.getArr hvs, forall₂_blockAt_ext hf (p.ext rD)⟩

/-- the effect of `arrayPush(diffs, objectNew('type', k, 'lines', <array a>))` on the invariant -/
theorem MHeap.push {h : Heap} {rD rL rR : Nat} {L R : List String} {bs : List (Block String)}
    (m : MHeap h rD rL rR L R bs) {vs : List Lib.Value} (hvs : getArr h rD = some vs) {a : Nat} {k : Kind}
    {lines : List String} (ha : getArr h a = some (strs lines)) (hne : a ≠ rD) :
    MHeap ((h ++ [Cell.obj [("type", .str k.text), ("lines", .arr a)]]).set rD (.arr (vs ++ [.obj h.length])))
      rD rL rR L R (bs ++ [⟨k, lines⟩]) := by
  have hrD := getArr_lt hvs
  have e : Ext rD h ((h ++ [Cell.obj [("type", .str k.text), ("lines", .arr a)]]).set rD (.arr (vs ++ [.obj h.length]))) :=
    ((Pres.append h _).ext rD).trans (Ext.set rD _ _)
  obtain ⟨vs', hvs', hf⟩ := m.hD
  have : vs' = vs := by rw [hvs] at hvs'; exact (Option.some.inj hvs').symm
  subst this
  refine ⟨e.getArr m.neL m.hL, e.getArr m.neR m.hR, m.neL, m.neR, vs' ++ [.obj h.length], ?_, ?_⟩
  · exact getArr_set_same _ (by simp; omega)
  · refine forall₂_append_one (forall₂_blockAt_ext hf e) ⟨h.length, a, rfl, by omega, hne, ?_, e.getArr hne ha⟩
    rw [getObj_set_ne _ (by omega)]
    exact getObj_append_new _ _

/-! ### decoding a result from the heap (computable: what a caller reads) -/

def decodeStrs : List Lib.Value → Option (List String)
  | [] => some []
  | .str s :: vs => (decodeStrs vs).map (s :: ·)
  | _ :: _ => none

def decodeKind (s : String) : Option Kind :=
  if s = "Identical" then some .identical else if s = "Add" then some .add else if s = "Remove" then some .remove else none

/-- an element of the result array: an object with exactly the members `type` (a `DifferenceType` name) and `lines` (an array of
strings), in that order -/
def decodeBlock (h : Heap) : Lib.Value → Option (Block String)
  | .obj o =>
    match getObj h o with
    | some [("type", .str k), ("lines", .arr a)] =>
      match decodeKind k, (getArr h a).bind decodeStrs with
      | some kind, some ls => some ⟨kind, ls⟩
      | _, _ => none
    | _ => none
  | _ => none

def decodeList (h : Heap) : List Lib.Value → Option (List (Block String))
  | [] => some []
  | v :: vs =>
    match decodeBlock h v, decodeList h vs with
    | some b, some bs => some (b :: bs)
    | _, _ => none

/-- the `Differences` value a call of `diffLines` returned, read off the heap -/
def decodeDiffs (h : Heap) : MValue → Option (List (Block String))
  | .arr r => (getArr h r).bind (decodeList h)
  | _ => none

theorem decodeStrs_strs (xs : List String) : decodeStrs (strs xs) = some xs := by
  induction xs with
  | nil => rfl
  | cons x xs ih => simp [strs] at ih ⊢; simp [decodeStrs, ih]

theorem decodeKind_text (k : Kind) : decodeKind k.text = some k := by cases k <;> decide

theorem BlockAt.decode {h : Heap} {rD : Nat} {v : Lib.Value} {b : Block String} (hb : BlockAt h rD v b) :
    decodeBlock h v = some b := by
  obtain ⟨o, a, rfl, _, _, hobj, harr⟩ := hb
  simp [decodeBlock, hobj, harr, decodeKind_text, decodeStrs_strs]

theorem Blocks.decode {h : Heap} {rD : Nat} {bs : List (Block String)} (hb : Blocks h rD bs) :
    decodeDiffs h (.arr rD) = some bs := by
  obtain ⟨vs, hvs, hf⟩ := hb
  simp only [decodeDiffs, hvs, Option.bind_some]
  clear hvs
  induction hf with
  | nil => rfl
  | cons h1 _ ih => simp [decodeList, h1.decode, ih]

/-! ## the variables of the main loop -/

abbrev vDiffs : Name := .user "diffs"
abbrev vLL : Name := .user "leftLines"
abbrev vRL : Name := .user "rightLines"
abbrev vNL : Name := .user "leftLength"
abbrev vNR : Name := .user "rightLength"
abbrev vIL : Name := .user "ixLeft"
abbrev vIR : Name := .user "ixRight"
abbrev vId : Name := .user "identicalLines"
abbrev vFM : Name := .user "foundMatch"
abbrev vILT : Name := .user "ixLeftTmp"
abbrev vIRT : Name := .user "ixRightTmp"

def mainNames : List Name := [vDiffs, vLL, vRL, vNL, vNR, vIL, vIR]

/-- the local scope during the main loop: the result array, the two line arrays, their lengths, the two indices -/
structure MVars (l : Env) (rD rL rR nL nR i j : Nat) : Prop where
  clean : Clean l
  diffs : l.get? vDiffs = some (.arr rD)
  ll : l.get? vLL = some (.arr rL)
  rl : l.get? vRL = some (.arr rR)
  nl : l.get? vNL = some (nv nL)
  nr : l.get? vNR = some (nv nR)
  il : l.get? vIL = some (nv i)
  ir : l.get? vIR = some (nv j)

theorem MVars.same {l l' : Env} {rD rL rR nL nR i j : Nat} (m : MVars l rD rL rR nL nR i j) {S : List Name}
    (hs : SameExcept S l l') (hS : ∀ x ∈ S, x ∉ mainNames ∧ x ∉ globNames) : MVars l' rD rL rR nL nR i j := by
  have key : ∀ x ∈ mainNames, l'.get? x = l.get? x := fun x hx => hs x (fun h => (hS x h).1 hx)
  refine ⟨hs.clean m.clean (fun x hx => (hS x hx).2), ?_, ?_, ?_, ?_, ?_, ?_, ?_⟩
  · rw [key _ (by simp [mainNames])]; exact m.diffs
  · rw [key _ (by simp [mainNames])]; exact m.ll
  · rw [key _ (by simp [mainNames])]; exact m.rl
  · rw [key _ (by simp [mainNames])]; exact m.nl
  · rw [key _ (by simp [mainNames])]; exact m.nr
  · rw [key _ (by simp [mainNames])]; exact m.il
  · rw [key _ (by simp [mainNames])]; exact m.ir

theorem MVars.set {l : Env} {rD rL rR nL nR i j : Nat} (m : MVars l rD rL rR nL nR i j) {x : Name}
    (hx : x ∉ mainNames ∧ x ∉ globNames) (v : MValue) : MVars (l.set x v) rD rL rR nL nR i j :=
  m.same ((SameExcept.refl [x] l).set (by simp) v) (by simpa using hx)

theorem MVars.setIL {l : Env} {rD rL rR nL nR i j : Nat} (m : MVars l rD rL rR nL nR i j) (i' : Nat) :
    MVars (l.set vIL (nv i')) rD rL rR nL nR i' j := by
  refine ⟨m.clean.set (by decide) _, ?_, ?_, ?_, ?_, ?_, C04.get?_set_same _ _ _, ?_⟩
  · rw [C04.get?_set_other _ _ _ _ (by decide)]; exact m.diffs
  · rw [C04.get?_set_other _ _ _ _ (by decide)]; exact m.ll
  · rw [C04.get?_set_other _ _ _ _ (by decide)]; exact m.rl
  · rw [C04.get?_set_other _ _ _ _ (by decide)]; exact m.nl
  · rw [C04.get?_set_other _ _ _ _ (by decide)]; exact m.nr
  · rw [C04.get?_set_other _ _ _ _ (by decide)]; exact m.ir

theorem MVars.setIR {l : Env} {rD rL rR nL nR i j : Nat} (m : MVars l rD rL rR nL nR i j) (j' : Nat) :
    MVars (l.set vIR (nv j')) rD rL rR nL nR i j' := by
  refine ⟨m.clean.set (by decide) _, ?_, ?_, ?_, ?_, ?_, ?_, C04.get?_set_same _ _ _⟩
  · rw [C04.get?_set_other _ _ _ _ (by decide)]; exact m.diffs
  · rw [C04.get?_set_other _ _ _ _ (by decide)]; exact m.ll
  · rw [C04.get?_set_other _ _ _ _ (by decide)]; exact m.rl
  · rw [C04.get?_set_other _ _ _ _ (by decide)]; exact m.nl
  · rw [C04.get?_set_other _ _ _ _ (by decide)]; exact m.nr
  · rw [C04.get?_set_other _ _ _ _ (by decide)]; exact m.il

/-! ## the identical-lines loop (diff.bare:95-100, statements 51-58) -/

/-- the loop condition `ixLeft < leftLength && ixRight < rightLength && leftLines[ixLeft] == rightLines[ixRight]` -/
def identC (L R : List String) (i j : Nat) : Bool :=
  (decide (i < L.length) && decide (j < R.length)) && decide (L[i]? = R[j]?)

theorem commonLen_drop (L R : List String) (i j : Nat) :
    C20.commonLen (L.drop i) (R.drop j) =
      if identC L R i j then C20.commonLen (L.drop (i+1)) (R.drop (j+1)) + 1 else 0 := by
  unfold identC
  by_cases hi : i < L.length
  · by_cases hj : j < R.length
    · rw [List.drop_eq_getElem_cons hi, List.drop_eq_getElem_cons hj]
      simp only [C20.commonLen, hi, hj, decide_true, Bool.and_self, Bool.true_and, List.getElem?_eq_getElem,
        Option.some.injEq]
      by_cases he : L[i] = R[j] <;> simp [he]
    · have : R.drop j = [] := List.drop_eq_nil_of_le (by omega)
      rw [this]
      cases L.drop i <;> simp [C20.commonLen, hj]
  · have : L.drop i = [] := List.drop_eq_nil_of_le (by omega)
    rw [this]
    simp [C20.commonLen, hi]

theorem take_drop_succ (L : List String) (i n : Nat) (s : String) (hs : L[i]? = some s) :
    (L.drop i).take (n+1) = s :: (L.drop (i+1)).take n := by
  have hi : i < L.length := by
    rcases Nat.lt_or_ge i L.length with h | h
    · exact h
    · rw [List.getElem?_eq_none h] at hs; cases hs
  rw [List.drop_eq_getElem_cons hi, List.take_succ_cons]
  rw [List.getElem?_eq_getElem hi] at hs
  simp at hs
  rw [hs]

section Main
variable {cfg : Config LWorld} (hh : cfg.host = hostDiff) (hmax : cfg.maxStatements = 0) {g : Env} (hg : GOK g)
  {L R : List String} {rD rL rR : Nat}
include hh hmax hg

omit hmax in
/-- the condition of the identical-lines loop evaluates to `identC` -/
theorem ev_identC {l : Env} {h : Heap} {i j : Nat} (mv : MVars l rD rL rR L.length R.length i j)
    (hL : getArr h rL = some (strs L)) (hR : getArr h rR = some (strs R)) :
    EvB cfg g l h
      (.binary .and (.binary .and (.binary .lt (.variable vIL) (.variable vNL)) (.binary .lt (.variable vIR) (.variable vNR)))
        (.binary .eq (.function (.user "arrayGet") [.variable vLL, .variable vIL])
          (.function (.user "arrayGet") [.variable vRL, .variable vIR])))
      (identC L R i j) := by
  refine EvB.and hh (EvB.and hh (ev_lt hh (by decide) (by decide) mv.il mv.nl) (fun _ => ev_lt hh (by decide) (by decide) mv.ir mv.nr)) ?_
  intro hb
  simp only [Bool.and_eq_true, decide_eq_true_eq] at hb
  obtain ⟨hi, hj⟩ := hb
  have e1 : L[i]? = some L[i] := List.getElem?_eq_getElem hi
  have e2 : R[j]? = some R[j] := List.getElem?_eq_getElem hj
  have := ev_getEq hh hg mv.clean (a := vLL) (ia := vIL) (b := vRL) (ib := vIR) (by decide) (by decide) (by decide) (by decide)
    mv.ll mv.il hL e1 mv.rl mv.ir hR e2
  have e : decide (L[i] = R[j]) = decide (L[i]? = R[j]?) := by rw [e1, e2]; simp
  rwa [e] at this

/-- the loop from inside its body (statement 54), the condition holding at `(i, j)`: it runs `m+1` times -/
theorem ident_loop {h0 : Heap} {rI : Nat} (hL0 : getArr h0 rL = some (strs L)) (hR0 : getArr h0 rR = some (strs R))
    (hrI : h0.length ≤ rI) :
    ∀ (m i j : Nat) (l : Env) (h : Heap) (acc : List String),
      C20.commonLen (L.drop i) (R.drop j) = m + 1 → MVars l rD rL rR L.length R.length i j →
      l.get? vId = some (.arr rI) → Pres h0 h → getArr h rI = some (strs acc) →
      ∃ l' h', Steps cfg B g 54 l h 59 l' h' ∧ MVars l' rD rL rR L.length R.length (i+(m+1)) (j+(m+1)) ∧
        l'.get? vId = some (.arr rI) ∧ Pres h0 h' ∧ getArr h' rI = some (strs (acc ++ (L.drop i).take (m+1))) := by
  intro m
  induction m with
  | zero =>
    intro i j l h acc hcl mv hid hpres hacc
    have hc := commonLen_drop L R i j
    rw [hcl] at hc
    have hcond : identC L R i j = true := by
      cases hx : identC L R i j
      · rw [hx] at hc; simp at hc
      · rfl
    have hnext : C20.commonLen (L.drop (i+1)) (R.drop (j+1)) = 0 := by rw [hcond] at hc; simp at hc; omega
    have hi : i < L.length := by
      simp only [identC, Bool.and_eq_true, decide_eq_true_eq] at hcond; exact hcond.1.1
    have e1 : L[i]? = some L[i] := List.getElem?_eq_getElem hi
    have hrIh := getArr_lt hacc
    have mv1 := (mv.setIL (i+1)).setIR (j+1)
    have hL1 : getArr (h.set rI (.arr (strs acc ++ [.str L[i]]))) rL = some (strs L) := by
      refine (hpres.set_ge hrI _).getArr hL0
    have hR1 : getArr (h.set rI (.arr (strs acc ++ [.str L[i]]))) rR = some (strs R) := by
      refine (hpres.set_ge hrI _).getArr hR0
    have hcond1 : identC L R (i+1) (j+1) = false := by
      have := commonLen_drop L R (i+1) (j+1)
      rw [hnext] at this
      cases hx : identC L R (i+1) (j+1)
      · rfl
      · rw [hx] at this; simp at this
    refine ⟨_, h.set rI (.arr (strs acc ++ [.str L[i]])), ?_, mv1, ?_, hpres.set_ge hrI _, ?_⟩
    · refine Steps.trans (Steps.exprStmt hmax B54 (Ev.callU hg mv.clean (f := "arrayPush") (by decide)
        (EvArgs.cons (Ev.varL (by decide) hid) (EvArgs.cons
          (ev_get hh hg mv.clean (by decide) (by decide) mv.ll mv.il (hpres.getArr hL0) e1) EvArgs.nil))
        (libcall_arrayPush hh (.str L[i]) hacc))) ?_
      refine Steps.trans (Steps.assign hmax B55 (ev_succ hh (by decide) mv.il)) ?_
      refine Steps.trans (Steps.assign hmax B56 (ev_succ hh (by decide) (mv.setIL (i+1)).ir)) ?_
      refine Steps.trans (Steps.jumpifBF hmax hh B57 labLoop10 (ev_identC hh hg mv1 hL1 hR1) hcond1) ?_
      exact Steps.label hmax B58
    · rw [C04.get?_set_other _ _ _ _ (by decide), C04.get?_set_other _ _ _ _ (by decide)]; exact hid
    · rw [getArr_set_same _ hrIh, take_drop_succ L i 0 L[i] e1]
      simp [strs]
  | succ m ih =>
    intro i j l h acc hcl mv hid hpres hacc
    have hc := commonLen_drop L R i j
    rw [hcl] at hc
    have hcond : identC L R i j = true := by
      cases hx : identC L R i j
      · rw [hx] at hc; simp at hc
      · rfl
    have hnext : C20.commonLen (L.drop (i+1)) (R.drop (j+1)) = m + 1 := by rw [hcond] at hc; simp at hc; omega
    have hi : i < L.length := by
      simp only [identC, Bool.and_eq_true, decide_eq_true_eq] at hcond; exact hcond.1.1
    have e1 : L[i]? = some L[i] := List.getElem?_eq_getElem hi
    have hrIh := getArr_lt hacc
    have mv1 := (mv.setIL (i+1)).setIR (j+1)
    have hL1 : getArr (h.set rI (.arr (strs acc ++ [.str L[i]]))) rL = some (strs L) := by
      refine (hpres.set_ge hrI _).getArr hL0
    have hR1 : getArr (h.set rI (.arr (strs acc ++ [.str L[i]]))) rR = some (strs R) := by
      refine (hpres.set_ge hrI _).getArr hR0
    have hcond1 : identC L R (i+1) (j+1) = true := by
      have := commonLen_drop L R (i+1) (j+1)
      rw [hnext] at this
      cases hx : identC L R (i+1) (j+1)
      · rw [hx] at this; simp at this
      · rfl
    have hid1 : ((l.set vIL (nv (i+1))).set vIR (nv (j+1))).get? vId = some (.arr rI) := by
      rw [C04.get?_set_other _ _ _ _ (by decide), C04.get?_set_other _ _ _ _ (by decide)]; exact hid
    obtain ⟨l', h', st, mv', hid', hpres', hacc'⟩ := ih (i+1) (j+1) _ (h.set rI (.arr (strs acc ++ [.str L[i]])))
      (acc ++ [L[i]]) hnext mv1 hid1 (hpres.set_ge hrI _) (by rw [getArr_set_same _ hrIh]; simp [strs])
    refine ⟨l', h', ?_, ?_, hid', hpres', ?_⟩
    · refine Steps.trans (Steps.exprStmt hmax B54 (Ev.callU hg mv.clean (f := "arrayPush") (by decide)
        (EvArgs.cons (Ev.varL (by decide) hid) (EvArgs.cons
          (ev_get hh hg mv.clean (by decide) (by decide) mv.ll mv.il (hpres.getArr hL0) e1) EvArgs.nil))
        (libcall_arrayPush hh (.str L[i]) hacc))) ?_
      refine Steps.trans (Steps.assign hmax B55 (ev_succ hh (by decide) mv.il)) ?_
      refine Steps.trans (Steps.assign hmax B56 (ev_succ hh (by decide) (mv.setIL (i+1)).ir)) ?_
      refine Steps.trans (Steps.jumpifBT hmax hh B57 labLoop10 (ev_identC hh hg mv1 hL1 hR1) hcond1) ?_
      exact st
    · have e : i + 1 + (m + 1) = i + (m + 1 + 1) := by omega
      have e' : j + 1 + (m + 1) = j + (m + 1 + 1) := by omega
      rw [← e, ← e']; exact mv'
    · rw [hacc', take_drop_succ L i (m+1) L[i] e1]
      simp

/-- statements 51-58: `identicalLines = arrayNew()` and the whole loop; `n` lines are collected into the fresh array -/
theorem ident_block {l : Env} {h : Heap} {i j : Nat} (mv : MVars l rD rL rR L.length R.length i j)
    (hL : getArr h rL = some (strs L)) (hR : getArr h rR = some (strs R)) :
    ∃ l' h', Steps cfg B g 51 l h 59 l' h' ∧
      MVars l' rD rL rR L.length R.length (i + C20.commonLen (L.drop i) (R.drop j)) (j + C20.commonLen (L.drop i) (R.drop j)) ∧
      l'.get? vId = some (.arr h.length) ∧ Pres h h' ∧
      getArr h' h.length = some (strs ((L.drop i).take (C20.commonLen (L.drop i) (R.drop j)))) := by
  have mv1 : MVars (l.set vId (.arr h.length)) rD rL rR L.length R.length i j := mv.set (by decide) _
  have hid1 : (l.set vId (.arr h.length)).get? vId = some (.arr h.length) := C04.get?_set_same _ _ _
  have hL1 : getArr (h ++ [Cell.arr []]) rL = some (strs L) := (Pres.append h _).getArr hL
  have hR1 : getArr (h ++ [Cell.arr []]) rR = some (strs R) := (Pres.append h _).getArr hR
  have st51 := Steps.assign (g := g) hmax B51 (ev_arrayNew hh hg mv.clean h)
  have cnd := ev_identC hh hg mv1 hL1 hR1
  have hc := commonLen_drop L R i j
  cases hx : identC L R i j with
  | false =>
    rw [hx] at hc
    simp only [Bool.false_eq_true, if_false] at hc
    rw [hc]
    refine ⟨_, _, st51.trans (Steps.jumpifBT hmax hh B52 labDone10 (EvB.not hh cnd) (by rw [hx]; rfl)), mv1, hid1,
      Pres.append _ _, ?_⟩
    rw [getArr_append_new]; rfl
  | true =>
    rw [hx] at hc
    simp only [if_true] at hc
    obtain ⟨l', h', st, mv', hid', hpres', hacc'⟩ := ident_loop hh hmax hg (rD := rD) hL hR (Nat.le_refl _)
      (C20.commonLen (L.drop (i+1)) (R.drop (j+1))) i j _ _ [] hc mv1 hid1 (Pres.append _ _)
      (by rw [getArr_append_new])
    rw [hc]
    refine ⟨l', h', ?_, mv', hid', hpres', by simpa using hacc'⟩
    refine st51.trans (Steps.trans (Steps.jumpifBF hmax hh B52 labDone10 (EvB.not hh cnd) (by rw [hx]; rfl)) ?_)
    exact Steps.trans (Steps.label hmax B53) st

/-! ## the look-ahead loops (diff.bare:107-122, statements 63-82) -/

omit hh hmax hg in
theorem scanRight_drop (x : String) (R : List String) (jt : Nat) (hjt : jt < R.length) :
    scanRight x (R.drop jt) jt = if x = R[jt] then some jt else scanRight x (R.drop (jt+1)) (jt+1) := by
  rw [List.drop_eq_getElem_cons hjt]; rfl

/-- the inner loop from its body (statement 70) at `ixRightTmp = jt < rightLength` -/
theorem scan_right_loop {h : Heap} {it : Nat} {x : String} {i j : Nat} (hx : L[it]? = some x)
    (hL : getArr h rL = some (strs L)) (hR : getArr h rR = some (strs R)) :
    ∀ (m jt : Nat) (l : Env), jt + (m+1) = R.length → MVars l rD rL rR L.length R.length i j →
      l.get? vILT = some (nv it) → l.get? vIRT = some (nv jt) →
      ∃ l', Steps cfg B g 70 l h 77 l' h ∧ SameExcept [vFM, vIRT] l l' ∧
        match scanRight x (R.drop jt) jt with
        | some jt' => l'.get? vFM = some (.bool true) ∧ l'.get? vIRT = some (nv jt')
        | none => l'.get? vFM = l.get? vFM := by
  intro m
  induction m with
  | zero =>
    intro jt l hm mv hit hjt
    have hlt : jt < R.length := by omega
    have e2 : R[jt]? = some R[jt] := List.getElem?_eq_getElem hlt
    have cnd := ev_getEq hh hg mv.clean (a := vLL) (ia := vILT) (b := vRL) (ib := vIRT) (by decide) (by decide) (by decide)
      (by decide) mv.ll hit hL hx mv.rl hjt hR e2
    rw [scanRight_drop x R jt hlt]
    by_cases he : x = R[jt]
    · simp only [he, if_true]
      refine ⟨l.set vFM (.bool true), ?_, (SameExcept.refl _ _).set (by simp) _, C04.get?_set_same _ _ _, ?_⟩
      · refine Steps.trans (Steps.jumpifBF hmax hh B70 labDone14 (EvB.not hh cnd) (by simp [he])) ?_
        refine Steps.trans (Steps.assign hmax B71 Ev.tt) ?_
        exact Steps.jump hmax B72 labDone13
      · rw [C04.get?_set_other _ _ _ _ (by decide)]; exact hjt
    · have hnil : R.drop (jt+1) = [] := List.drop_eq_nil_of_le (by omega)
      simp only [he, if_false, hnil, scanRight]
      have hjt1 : (l.set vIRT (nv (jt+1))).get? vIRT = some (nv (jt+1)) := C04.get?_set_same _ _ _
      have mv1 : MVars (l.set vIRT (nv (jt+1))) rD rL rR L.length R.length i j := mv.set (by decide) _
      refine ⟨l.set vIRT (nv (jt+1)), ?_, (SameExcept.refl _ _).set (by simp) _, ?_⟩
      · refine Steps.trans (Steps.jumpifBT hmax hh B70 labDone14 (EvB.not hh cnd) (by simp [he])) ?_
        refine Steps.trans (Steps.assign hmax B74 (ev_succ hh (by decide) hjt)) ?_
        refine Steps.trans (Steps.jumpifBF hmax hh B75 labLoop13 (ev_lt hh (by decide) (by decide) hjt1 mv1.nr)
          (by simp; omega)) ?_
        exact Steps.label hmax B76
      · rw [C04.get?_set_other _ _ _ _ (by decide)]
  | succ m ih =>
    intro jt l hm mv hit hjt
    have hlt : jt < R.length := by omega
    have e2 : R[jt]? = some R[jt] := List.getElem?_eq_getElem hlt
    have cnd := ev_getEq hh hg mv.clean (a := vLL) (ia := vILT) (b := vRL) (ib := vIRT) (by decide) (by decide) (by decide)
      (by decide) mv.ll hit hL hx mv.rl hjt hR e2
    rw [scanRight_drop x R jt hlt]
    by_cases he : x = R[jt]
    · simp only [he, if_true]
      refine ⟨l.set vFM (.bool true), ?_, (SameExcept.refl _ _).set (by simp) _, C04.get?_set_same _ _ _, ?_⟩
      · refine Steps.trans (Steps.jumpifBF hmax hh B70 labDone14 (EvB.not hh cnd) (by simp [he])) ?_
        refine Steps.trans (Steps.assign hmax B71 Ev.tt) ?_
        exact Steps.jump hmax B72 labDone13
      · rw [C04.get?_set_other _ _ _ _ (by decide)]; exact hjt
    · simp only [he, if_false]
      have hjt1 : (l.set vIRT (nv (jt+1))).get? vIRT = some (nv (jt+1)) := C04.get?_set_same _ _ _
      have mv1 : MVars (l.set vIRT (nv (jt+1))) rD rL rR L.length R.length i j := mv.set (by decide) _
      have hit1 : (l.set vIRT (nv (jt+1))).get? vILT = some (nv it) := by
        rw [C04.get?_set_other _ _ _ _ (by decide)]; exact hit
      obtain ⟨l', st, hsame, hres⟩ := ih (jt+1) _ (by omega) mv1 hit1 hjt1
      refine ⟨l', ?_, ((SameExcept.refl _ _).set (by simp) _).trans hsame, ?_⟩
      · refine Steps.trans (Steps.jumpifBT hmax hh B70 labDone14 (EvB.not hh cnd) (by simp [he])) ?_
        refine Steps.trans (Steps.assign hmax B74 (ev_succ hh (by decide) hjt)) ?_
        refine Steps.trans (Steps.jumpifBT hmax hh B75 labLoop13 (ev_lt hh (by decide) (by decide) hjt1 mv1.nr)
          (by simp; omega)) ?_
        exact st
      · cases hs : scanRight x (R.drop (jt+1)) (jt+1) with
        | none =>
          rw [hs] at hres
          simp only at hres ⊢
          rw [hres, C04.get?_set_other _ _ _ _ (by decide)]
        | some jt' => rw [hs] at hres; exact hres

/-- statements 67-76: `ixRightTmp = ixRight` and the inner loop, for the left line `x = leftLines[ixLeftTmp]` -/
theorem scan_right {h : Heap} {it : Nat} {x : String} {i j : Nat} {l : Env} (hx : L[it]? = some x)
    (hL : getArr h rL = some (strs L)) (hR : getArr h rR = some (strs R))
    (mv : MVars l rD rL rR L.length R.length i j) (hit : l.get? vILT = some (nv it)) :
    ∃ l', Steps cfg B g 67 l h 77 l' h ∧ SameExcept [vFM, vIRT] l l' ∧
      match scanRight x (R.drop j) j with
      | some jt' => l'.get? vFM = some (.bool true) ∧ l'.get? vIRT = some (nv jt')
      | none => l'.get? vFM = l.get? vFM := by
  have hj1 : (l.set vIRT (nv j)).get? vIRT = some (nv j) := C04.get?_set_same _ _ _
  have mv1 : MVars (l.set vIRT (nv j)) rD rL rR L.length R.length i j := mv.set (by decide) _
  have hit1 : (l.set vIRT (nv j)).get? vILT = some (nv it) := by
    rw [C04.get?_set_other _ _ _ _ (by decide)]; exact hit
  have st67 := Steps.assign (g := g) (h := h) hmax B67 (Ev.varL (by decide) mv.ir)
  have cnd := ev_lt (cfg := cfg) (g := g) (h := h) hh (by decide) (by decide) hj1 mv1.nr
  by_cases hj : j < R.length
  · obtain ⟨l', st, hsame, hres⟩ := scan_right_loop hh hmax hg hx hL hR (R.length - j - 1) j _ (by omega) mv1 hit1 hj1
    refine ⟨l', ?_, ((SameExcept.refl _ _).set (by simp) _).trans hsame, ?_⟩
    · refine st67.trans (Steps.trans (Steps.jumpifBF hmax hh B68 labDone13 (EvB.not hh cnd) (by simp [hj])) ?_)
      exact Steps.trans (Steps.label hmax B69) st
    · cases hs : scanRight x (R.drop j) j with
      | none =>
        rw [hs] at hres
        simp only at hres ⊢
        rw [hres, C04.get?_set_other _ _ _ _ (by decide)]
      | some jt' => rw [hs] at hres; exact hres
  · have hnil : R.drop j = [] := List.drop_eq_nil_of_le (by omega)
    rw [hnil]
    simp only [scanRight]
    refine ⟨_, st67.trans (Steps.jumpifBT hmax hh B68 labDone13 (EvB.not hh cnd) (by simp [hj])),
      (SameExcept.refl _ _).set (by simp) _, ?_⟩
    rw [C04.get?_set_other _ _ _ _ (by decide)]

omit hh hmax hg in
theorem scanLeft_drop (rj : List String) (j : Nat) (L : List String) (it : Nat) (hit : it < L.length) :
    scanLeft rj j (L.drop it) it =
      match scanRight L[it] rj j with
      | some jt => some (it, jt)
      | none => scanLeft rj j (L.drop (it+1)) (it+1) := by
  rw [List.drop_eq_getElem_cons hit]; rfl

/-- the outer look-ahead loop from its body (statement 67) at `ixLeftTmp = it < leftLength`, nothing found so far -/
theorem scan_left_loop {h : Heap} {i j : Nat} (hL : getArr h rL = some (strs L)) (hR : getArr h rR = some (strs R)) :
    ∀ (m it : Nat) (l : Env), it + (m+1) = L.length → MVars l rD rL rR L.length R.length i j →
      l.get? vILT = some (nv it) → l.get? vFM = some .null →
      ∃ l', Steps cfg B g 67 l h 83 l' h ∧ SameExcept [vFM, vILT, vIRT] l l' ∧
        match scanLeft (R.drop j) j (L.drop it) it with
        | some (it', jt') => l'.get? vFM = some (.bool true) ∧ l'.get? vILT = some (nv it') ∧ l'.get? vIRT = some (nv jt')
        | none => l'.get? vFM = some .null := by
  intro m
  induction m with
  | zero =>
    intro it l hm mv hit hfm
    have hlt : it < L.length := by omega
    have hx : L[it]? = some L[it] := List.getElem?_eq_getElem hlt
    obtain ⟨l1, st1, hsame1, hres1⟩ := scan_right hh hmax hg (i := i) (j := j) hx hL hR mv hit
    have mv1 : MVars l1 rD rL rR L.length R.length i j := mv.same hsame1 (by decide)
    have hit1 : l1.get? vILT = some (nv it) := by rw [hsame1 _ (by decide)]; exact hit
    rw [scanLeft_drop _ _ _ _ hlt]
    cases hs : scanRight L[it] (R.drop j) j with
    | some jt =>
      rw [hs] at hres1
      simp only at hres1 ⊢
      refine ⟨l1, ?_, hsame1.mono (by simp), hres1.1, hit1, hres1.2⟩
      refine st1.trans (Steps.trans (Steps.jumpifF hmax hh B77 labDone15 (Ev.not hh (Ev.varL (by decide) hres1.1) (Tr.bool _ _))
        (Tr.bool _ _)) ?_)
      exact Steps.jump hmax B78 labDone12
    | none =>
      rw [hs] at hres1
      simp only at hres1 ⊢
      have hnil : L.drop (it+1) = [] := List.drop_eq_nil_of_le (by omega)
      rw [hnil]
      simp only [scanLeft]
      have hfm1 : l1.get? vFM = some .null := by rw [hres1]; exact hfm
      have hit2 : (l1.set vILT (nv (it+1))).get? vILT = some (nv (it+1)) := C04.get?_set_same _ _ _
      have mv2 : MVars (l1.set vILT (nv (it+1))) rD rL rR L.length R.length i j := mv1.set (by decide) _
      refine ⟨l1.set vILT (nv (it+1)), ?_, (hsame1.mono (by simp)).set (by simp) _, ?_⟩
      · refine st1.trans (Steps.trans (Steps.jumpifT hmax hh B77 labDone15 (Ev.not hh (Ev.varL (by decide) hfm1) (Tr.null _))
          (Tr.bool _ _)) ?_)
        refine Steps.trans (Steps.assign hmax B80 (ev_succ hh (by decide) hit1)) ?_
        refine Steps.trans (Steps.jumpifBF hmax hh B81 labLoop12 (ev_lt hh (by decide) (by decide) hit2 mv2.nl)
          (by simp; omega)) ?_
        exact Steps.label hmax B82
      · rw [C04.get?_set_other _ _ _ _ (by decide)]; exact hfm1
  | succ m ih =>
    intro it l hm mv hit hfm
    have hlt : it < L.length := by omega
    have hx : L[it]? = some L[it] := List.getElem?_eq_getElem hlt
    obtain ⟨l1, st1, hsame1, hres1⟩ := scan_right hh hmax hg (i := i) (j := j) hx hL hR mv hit
    have mv1 : MVars l1 rD rL rR L.length R.length i j := mv.same hsame1 (by decide)
    have hit1 : l1.get? vILT = some (nv it) := by rw [hsame1 _ (by decide)]; exact hit
    rw [scanLeft_drop _ _ _ _ hlt]
    cases hs : scanRight L[it] (R.drop j) j with
    | some jt =>
      rw [hs] at hres1
      simp only at hres1 ⊢
      refine ⟨l1, ?_, hsame1.mono (by simp), hres1.1, hit1, hres1.2⟩
      refine st1.trans (Steps.trans (Steps.jumpifF hmax hh B77 labDone15 (Ev.not hh (Ev.varL (by decide) hres1.1) (Tr.bool _ _))
        (Tr.bool _ _)) ?_)
      exact Steps.jump hmax B78 labDone12
    | none =>
      rw [hs] at hres1
      simp only at hres1 ⊢
      have hfm1 : l1.get? vFM = some .null := by rw [hres1]; exact hfm
      have hit2 : (l1.set vILT (nv (it+1))).get? vILT = some (nv (it+1)) := C04.get?_set_same _ _ _
      have mv2 : MVars (l1.set vILT (nv (it+1))) rD rL rR L.length R.length i j := mv1.set (by decide) _
      have hfm2 : (l1.set vILT (nv (it+1))).get? vFM = some .null := by
        rw [C04.get?_set_other _ _ _ _ (by decide)]; exact hfm1
      obtain ⟨l', st, hsame, hres⟩ := ih (it+1) _ (by omega) mv2 hit2 hfm2
      refine ⟨l', ?_, ((hsame1.mono (by simp)).set (by simp) _).trans hsame, hres⟩
      refine st1.trans (Steps.trans (Steps.jumpifT hmax hh B77 labDone15 (Ev.not hh (Ev.varL (by decide) hfm1) (Tr.null _))
        (Tr.bool _ _)) ?_)
      refine Steps.trans (Steps.assign hmax B80 (ev_succ hh (by decide) hit1)) ?_
      refine Steps.trans (Steps.jumpifBT hmax hh B81 labLoop12 (ev_lt hh (by decide) (by decide) hit2 mv2.nl)
        (by simp; omega)) ?_
      exact st

/-- statements 63-82: `foundMatch = False`, `ixLeftTmp = ixLeft` and the two nested look-ahead loops (`ixLeft < leftLength`) -/
theorem scan_left {h : Heap} {i j : Nat} {l : Env} (hL : getArr h rL = some (strs L)) (hR : getArr h rR = some (strs R))
    (mv : MVars l rD rL rR L.length R.length i j) (hi : i < L.length) :
    ∃ l', Steps cfg B g 63 l h 83 l' h ∧ SameExcept [vFM, vILT, vIRT] l l' ∧
      match scanLeft (R.drop j) j (L.drop i) i with
      | some (it', jt') => l'.get? vFM = some (.bool true) ∧ l'.get? vILT = some (nv it') ∧ l'.get? vIRT = some (nv jt')
      | none => l'.get? vFM = some .null := by
  have mv1 : MVars (l.set vFM .null) rD rL rR L.length R.length i j := mv.set (by decide) _
  have mv2 : MVars ((l.set vFM .null).set vILT (nv i)) rD rL rR L.length R.length i j := mv1.set (by decide) _
  have hit2 : ((l.set vFM .null).set vILT (nv i)).get? vILT = some (nv i) := C04.get?_set_same _ _ _
  have hfm2 : ((l.set vFM .null).set vILT (nv i)).get? vFM = some .null := by
    rw [C04.get?_set_other _ _ _ _ (by decide)]; exact C04.get?_set_same _ _ _
  obtain ⟨l', st, hsame, hres⟩ := scan_left_loop hh hmax hg hL hR (L.length - i - 1) i _ (by omega) mv2 hit2 hfm2
  refine ⟨l', ?_, (((SameExcept.refl _ _).set (by simp) _).set (by simp) _).trans hsame, hres⟩
  refine Steps.trans (Steps.assign hmax B63 (Ev.varNull (by decide) (mv.clean _ (by decide)) hg.noFalse)) ?_
  refine Steps.trans (Steps.assign hmax B64 (Ev.varL (by decide) mv1.il)) ?_
  refine Steps.trans (Steps.jumpifBF hmax hh B65 labDone12 (EvB.not hh (ev_lt hh (by decide) (by decide) hit2 mv2.nl))
    (by simp [hi])) ?_
  exact Steps.trans (Steps.label hmax B66) st

end Main

end C20Prog
