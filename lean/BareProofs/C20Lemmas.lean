import BareModel.Diff

/-!
# C20 — helper lemmas about the loops of `BareModel.Diff`

* `commonLen` — specification of the identical-lines loop: `identLoop_eq`
* `scanRight_some`, `scanLeft_some` — where a look-ahead match can lie
* `slice_*`, `pushIf_*` — `arraySlice` inside its argument range
* `leftOf_*`, `rightOf_*` — reading the two sides off a block list
* `bodyStep`, `outer_body`, `outer_left_done`, `outer_right_done` — one pass through the body of the main loop, cleaned up
* `outer_spec` (invariant: what is still emitted from `(ixLeft, ixRight)` reconstructs `L[ixLeft:]` / `R[ixRight:]`),
  `outer_isSome` (fuel sufficiency), `outer_mono` (fuel monotonicity)
-/

namespace C20
open Diff

set_option linter.unusedSectionVars false

variable {α : Type} [DecidableEq α]

/-! ## reading the sides -/

@[simp] theorem leftOf_nil : leftOf ([] : List (Block α)) = [] := rfl
@[simp] theorem rightOf_nil : rightOf ([] : List (Block α)) = [] := rfl

theorem leftOf_append (a b : List (Block α)) : leftOf (a ++ b) = leftOf a ++ leftOf b := by
  simp [leftOf]

theorem rightOf_append (a b : List (Block α)) : rightOf (a ++ b) = rightOf a ++ rightOf b := by
  simp [rightOf]

theorem leftOf_cons (b : Block α) (bs : List (Block α)) :
    leftOf (b :: bs) = (if b.kind = .add then [] else b.lines) ++ leftOf bs := by
  cases b with | mk k ls => cases k <;> simp [leftOf]

theorem rightOf_cons (b : Block α) (bs : List (Block α)) :
    rightOf (b :: bs) = (if b.kind = .remove then [] else b.lines) ++ rightOf bs := by
  cases b with | mk k ls => cases k <;> simp [rightOf]

/-! ## the identical-lines loop -/

/-- length of the longest common prefix -/
def commonLen : List α → List α → Nat
  | x :: xs, y :: ys => if x = y then commonLen xs ys + 1 else 0
  | _, _ => 0

theorem identLoop_eq (xs ys : List α) (i j : Nat) (acc : List α) :
    identLoop xs ys i j acc
      = (acc ++ xs.take (commonLen xs ys), i + commonLen xs ys, j + commonLen xs ys) := by
  induction xs generalizing ys i j acc with
  | nil => simp [identLoop, commonLen]
  | cons x xs ih =>
    cases ys with
    | nil => simp [identLoop, commonLen]
    | cons y ys =>
      by_cases h : x = y
      · subst h
        simp only [identLoop, commonLen, if_true, ih]
        simp [List.take_succ_cons, Nat.add_assoc, Nat.add_comm 1]
      · simp [identLoop, commonLen, h]

theorem commonLen_le_left (xs ys : List α) : commonLen xs ys ≤ xs.length := by
  induction xs generalizing ys with
  | nil => simp [commonLen]
  | cons x xs ih =>
    cases ys with
    | nil => simp [commonLen]
    | cons y ys =>
      simp only [commonLen]; split
      · have := ih ys; simp; omega
      · simp

theorem commonLen_le_right (xs ys : List α) : commonLen xs ys ≤ ys.length := by
  induction xs generalizing ys with
  | nil => simp [commonLen]
  | cons x xs ih =>
    cases ys with
    | nil => simp [commonLen]
    | cons y ys =>
      simp only [commonLen]; split
      · have := ih ys; simp; omega
      · simp

theorem take_commonLen (xs ys : List α) : xs.take (commonLen xs ys) = ys.take (commonLen xs ys) := by
  induction xs generalizing ys with
  | nil => simp [commonLen]
  | cons x xs ih =>
    cases ys with
    | nil => simp [commonLen]
    | cons y ys =>
      simp only [commonLen]; split
      · rename_i h; subst h; simp [ih ys]
      · simp

theorem commonLen_self (xs : List α) : commonLen xs xs = xs.length := by
  induction xs with
  | nil => rfl
  | cons x xs ih => simp [commonLen, ih]

/-- the loop stops at two lines that differ -/
theorem commonLen_zero_head {x y : α} {xs ys : List α} (h : commonLen (x :: xs) (y :: ys) = 0) : x ≠ y := by
  intro e; simp [commonLen, e] at h

/-! ## the look-ahead loops -/

theorem scanRight_some {x : α} {ys : List α} {j jt : Nat} (h : scanRight x ys j = some jt) :
    j ≤ jt ∧ jt < j + ys.length ∧ ys[jt - j]? = some x := by
  induction ys generalizing j with
  | nil => simp [scanRight] at h
  | cons y ys ih =>
    simp only [scanRight] at h
    split at h
    · rename_i e; subst e; cases h; simp
    · have ⟨h1, h2, h3⟩ := ih h
      refine ⟨by omega, by simp; omega, ?_⟩
      have : jt - j = (jt - (j + 1)) + 1 := by omega
      rw [this]; simpa using h3

theorem scanLeft_some {rj xs : List α} {j i it jt : Nat} (h : scanLeft rj j xs i = some (it, jt)) :
    i ≤ it ∧ it < i + xs.length ∧ j ≤ jt ∧ jt < j + rj.length ∧ xs[it - i]? = rj[jt - j]? := by
  induction xs generalizing i with
  | nil => simp [scanLeft] at h
  | cons x xs ih =>
    simp only [scanLeft] at h
    split at h
    · rename_i jt' hr
      cases h
      have ⟨h1, h2, h3⟩ := scanRight_some hr
      exact ⟨Nat.le_refl _, by simp, h1, h2, by simp [h3]⟩
    · have ⟨h1, h2, h3, h4, h5⟩ := ih h
      refine ⟨by omega, by simp; omega, h3, h4, ?_⟩
      have : it - i = (it - (i + 1)) + 1 := by omega
      rw [this]; simpa using h5

/-! ## `arraySlice` inside its range, `pushIf` -/

theorem slice_to_end {a : List α} {s : Nat} (h : s ≤ a.length) : slice a s none = some (a.drop s) := by
  simp [slice, Nat.not_lt.mpr h]

theorem slice_between {a : List α} {s e : Nat} (he : e ≤ a.length) (hs : s ≤ e) :
    slice a s (some e) = some ((a.take e).drop s) := by
  have : ¬ (s > a.length ∨ e > a.length) := by omega
  simp [slice, this]

/-- a piece cut out of the middle: `a[s:] = a[s:e] ++ a[e:]` -/
theorem drop_eq_slice_append {a : List α} {s e : Nat} (hs : s ≤ e) :
    a.drop s = (a.take e).drop s ++ a.drop e := by
  rw [List.drop_take]
  have h : a.drop e = (a.drop s).drop (e - s) := by
    rw [List.drop_drop]; congr 1; omega
  rw [h, List.take_append_drop]

theorem slice_between_ne_nil {a : List α} {s e : Nat} (he : e ≤ a.length) (hs : s < e) :
    (a.take e).drop s ≠ [] := by
  intro h
  have := congrArg List.length h
  simp [List.length_take] at this
  omega

theorem drop_ne_nil {a : List α} {s : Nat} (h : s < a.length) : a.drop s ≠ [] := by
  intro e
  have := congrArg List.length e
  simp at this; omega

@[simp] theorem pushIf_false (k : Kind) (s : Option (List α)) : pushIf false k s = some [] := rfl
@[simp] theorem pushIf_true (k : Kind) (ls : List α) : pushIf true k (some ls) = some [⟨k, ls⟩] := rfl

/-! ## the main loop -/

/-- the cleaned-up pass through the loop body when both sides still have lines -/
def bodyStep (L R : List α) (f i j : Nat) : Option (List (Block α)) :=
  let n := commonLen (L.drop i) (R.drop j)
  if 0 < n then
    (outer L R f false (i + n) (j + n)).map (fun rest => ⟨.identical, (L.drop i).take n⟩ :: rest)
  else
    match scanLeft (R.drop j) j (L.drop i) i with
    | none => (outer L R f false L.length R.length).map
        (fun rest => [⟨.remove, L.drop i⟩, ⟨.add, R.drop j⟩] ++ rest)
    | some (it, jt) => (outer L R f true it jt).map (fun rest =>
        (if i < it then [⟨.remove, (L.take it).drop i⟩] else [])
          ++ (if j < jt then [⟨.add, (R.take jt).drop j⟩] else []) ++ rest)

theorem outer_body (L R : List α) (f : Nat) (test : Bool) (i j : Nat) (hi : i < L.length) (hj : j < R.length) :
    outer L R (f + 1) test i j = bodyStep L R f i j := by
  have h1 : ¬ (L.length ≤ i) := by omega
  have h2 : ¬ (R.length ≤ j) := by omega
  simp only [outer, identLoop_eq, List.nil_append, bodyStep, hi, hj, decide_true, Bool.or_self, Bool.not_true,
    Bool.and_false, ge_iff_le, h1, h2, if_false, Bool.false_eq_true]
  by_cases hn : commonLen (L.drop i) (R.drop j) = 0
  · simp only [hn, List.take_zero, Nat.add_zero, ne_eq, not_true_eq_false, if_false, Nat.lt_irrefl]
    cases hs : scanLeft (R.drop j) j (L.drop i) i with
    | none =>
      simp [hi, hj, slice_to_end (Nat.le_of_lt hi), slice_to_end (Nat.le_of_lt hj)]
    | some p =>
      obtain ⟨it, jt⟩ := p
      have ⟨a1, a2, a3, a4, _⟩ := scanLeft_some hs
      simp only [List.length_drop] at a2 a4
      have e1 : it ≤ L.length := by omega
      have e2 : jt ≤ R.length := by omega
      have k1 : (if i < it then it else i) = it := by split <;> omega
      have k2 : (if j < jt then jt else j) = jt := by split <;> omega
      simp only [gt_iff_lt, slice_between e1 a1, slice_between e2 a3, k1, k2]
      by_cases c1 : i < it <;> by_cases c2 : j < jt <;> simp [c1, c2]
  · have hle := commonLen_le_left (L.drop i) (R.drop j)
    have hne : (L.drop i).take (commonLen (L.drop i) (R.drop j)) ≠ [] := by
      intro e
      have := congrArg List.length e
      simp only [List.length_take, List.length_nil] at this
      omega
    simp [hne, Nat.pos_of_ne_zero hn]

theorem outer_left_done (L R : List α) (f : Nat) (test : Bool) (i j : Nat) (hi : L.length ≤ i) (hj : j ≤ R.length) :
    outer L R (f + 1) test i j = some (if j < R.length then [⟨.add, R.drop j⟩] else []) := by
  have h1 : ¬ (i < L.length) := by omega
  by_cases c : j < R.length
  · simp [outer, h1, c, hi, slice_to_end hj]
  · cases test <;> simp [outer, h1, c, hi]

theorem outer_right_done (L R : List α) (f : Nat) (test : Bool) (i j : Nat) (hi : i < L.length) (hj : R.length ≤ j) :
    outer L R (f + 1) test i j = some [⟨.remove, L.drop i⟩] := by
  have h1 : ¬ (L.length ≤ i) := by omega
  have h2 : ¬ (j < R.length) := by omega
  simp [outer, h1, h2, hi, hj, slice_to_end (Nat.le_of_lt hi)]

/-- a look-ahead match found right after the identical-lines loop stopped is not at the current position -/
theorem scan_progress {xs ys : List α} {i j it jt : Nat} (hn : commonLen xs ys = 0)
    (hs : scanLeft ys j xs i = some (it, jt)) : i < it ∨ j < jt := by
  have ⟨a1, a2, a3, a4, a5⟩ := scanLeft_some hs
  by_cases c : i < it
  · exact Or.inl c
  · by_cases d : j < jt
    · exact Or.inr d
    · exfalso
      have e1 : it - i = 0 := by omega
      have e2 : jt - j = 0 := by omega
      rw [e1, e2] at a5
      cases xs with
      | nil => simp at a2; omega
      | cons x xs =>
        cases ys with
        | nil => simp at a4; omega
        | cons y ys =>
          simp at a5
          exact commonLen_zero_head hn a5

theorem leftOf_ite_remove (c : Prop) [Decidable c] (x : List α) :
    leftOf (if c then [(⟨.remove, x⟩ : Block α)] else []) = if c then x else [] := by
  split <;> simp [leftOf_cons]

theorem leftOf_ite_add (c : Prop) [Decidable c] (x : List α) :
    leftOf (if c then [(⟨.add, x⟩ : Block α)] else []) = [] := by
  split <;> simp [leftOf_cons]

theorem rightOf_ite_remove (c : Prop) [Decidable c] (x : List α) :
    rightOf (if c then [(⟨.remove, x⟩ : Block α)] else []) = [] := by
  split <;> simp [rightOf_cons]

theorem rightOf_ite_add (c : Prop) [Decidable c] (x : List α) :
    rightOf (if c then [(⟨.add, x⟩ : Block α)] else []) = if c then x else [] := by
  split <;> simp [rightOf_cons]

theorem outer_spec (L R : List α) : ∀ (f : Nat) (test : Bool) (i j : Nat) (bs : List (Block α)),
    i ≤ L.length → j ≤ R.length → outer L R f test i j = some bs →
    leftOf bs = L.drop i ∧ rightOf bs = R.drop j ∧ ∀ b ∈ bs, b.lines ≠ [] := by
  intro f
  induction f with
  | zero => intro _ _ _ _ _ _ h; simp [outer] at h
  | succ f ih =>
    intro test i j bs hi hj h
    by_cases ci : i < L.length
    · by_cases cj : j < R.length
      · rw [outer_body L R f test i j ci cj] at h
        simp only [bodyStep] at h
        have hl := commonLen_le_left (L.drop i) (R.drop j)
        have hr := commonLen_le_right (L.drop i) (R.drop j)
        simp only [List.length_drop] at hl hr
        split at h
        · rename_i hn
          simp only [Option.map_eq_some_iff] at h
          obtain ⟨rest, hrest, rfl⟩ := h
          have ⟨r1, r2, r3⟩ := ih _ _ _ _ (by omega) (by omega) hrest
          refine ⟨?_, ?_, ?_⟩
          · simp [leftOf_cons, r1, ← List.drop_drop]
          · rw [take_commonLen]
            simp [rightOf_cons, r2, ← List.drop_drop]
          · intro b hb
            simp only [List.mem_cons] at hb
            rcases hb with rfl | hb
            · intro e
              have := congrArg List.length e
              simp only [List.length_take, List.length_drop, List.length_nil] at this
              omega
            · exact r3 b hb
        · split at h
          · simp only [Option.map_eq_some_iff] at h
            obtain ⟨rest, hrest, rfl⟩ := h
            have ⟨r1, r2, r3⟩ := ih _ _ _ _ (Nat.le_refl _) (Nat.le_refl _) hrest
            refine ⟨?_, ?_, ?_⟩
            · simp [leftOf_cons, r1]
            · simp [rightOf_cons, r2]
            · intro b hb
              simp only [List.cons_append, List.nil_append, List.mem_cons] at hb
              rcases hb with rfl | rfl | hb
              · exact drop_ne_nil ci
              · exact drop_ne_nil cj
              · exact r3 b hb
          · rename_i it jt hs
            have ⟨a1, a2, a3, a4, _⟩ := scanLeft_some hs
            simp only [List.length_drop] at a2 a4
            simp only [Option.map_eq_some_iff] at h
            obtain ⟨rest, hrest, rfl⟩ := h
            have ⟨r1, r2, r3⟩ := ih _ _ _ _ (by omega) (by omega) hrest
            refine ⟨?_, ?_, ?_⟩
            · rw [leftOf_append, leftOf_append, leftOf_ite_remove, leftOf_ite_add, r1, List.append_nil]
              split
              · exact (drop_eq_slice_append a1).symm
              · have : it = i := by omega
                subst this; rfl
            · rw [rightOf_append, rightOf_append, rightOf_ite_remove, rightOf_ite_add, r2, List.nil_append]
              split
              · exact (drop_eq_slice_append a3).symm
              · have : jt = j := by omega
                subst this; rfl
            · intro b hb
              simp only [List.mem_append] at hb
              rcases hb with (hb | hb) | hb
              · split at hb
                · simp only [List.mem_singleton] at hb; subst hb
                  exact slice_between_ne_nil (by omega) (by assumption)
                · simp at hb
              · split at hb
                · simp only [List.mem_singleton] at hb; subst hb
                  exact slice_between_ne_nil (by omega) (by assumption)
                · simp at hb
              · exact r3 b hb
      · rw [outer_right_done L R f test i j ci (by omega)] at h
        cases h
        have : j = R.length := by omega
        subst this
        refine ⟨by simp [leftOf_cons], by simp [rightOf_cons], ?_⟩
        intro b hb; simp only [List.mem_singleton] at hb; subst hb; exact drop_ne_nil ci
    · rw [outer_left_done L R f test i j (by omega) hj] at h
      cases h
      have : i = L.length := by omega
      subst this
      split
      · rename_i cj
        refine ⟨by simp [leftOf_cons], by simp [rightOf_cons], ?_⟩
        intro b hb; simp only [List.mem_singleton] at hb; subst hb; exact drop_ne_nil cj
      · have : j = R.length := by omega
        subst this
        simp

/-- enough fuel: one unit per line still to be consumed, plus one for the pass that ends the loop -/
theorem outer_isSome (L R : List α) : ∀ (f : Nat) (test : Bool) (i j : Nat),
    i ≤ L.length → j ≤ R.length → (L.length - i) + (R.length - j) + 1 ≤ f →
    (outer L R f test i j).isSome := by
  intro f
  induction f with
  | zero => intro _ _ _ _ _ h; omega
  | succ f ih =>
    intro test i j hi hj hf
    by_cases ci : i < L.length
    · by_cases cj : j < R.length
      · rw [outer_body L R f test i j ci cj]
        simp only [bodyStep]
        have hl := commonLen_le_left (L.drop i) (R.drop j)
        have hr := commonLen_le_right (L.drop i) (R.drop j)
        simp only [List.length_drop] at hl hr
        split
        · rw [Option.isSome_map]
          exact ih _ _ _ (by omega) (by omega) (by omega)
        · rename_i hn
          have hn0 : commonLen (L.drop i) (R.drop j) = 0 := by omega
          split
          · rw [Option.isSome_map]
            exact ih _ _ _ (Nat.le_refl _) (Nat.le_refl _) (by omega)
          · rename_i it jt hs
            have ⟨a1, a2, a3, a4, _⟩ := scanLeft_some hs
            simp only [List.length_drop] at a2 a4
            have hp := scan_progress hn0 hs
            rw [Option.isSome_map]
            exact ih _ _ _ (by omega) (by omega) (by omega)
      · rw [outer_right_done L R f test i j ci (by omega)]; rfl
    · rw [outer_left_done L R f test i j (by omega) hj]; rfl

/-- more fuel never changes a result -/
theorem outer_mono (L R : List α) : ∀ (f : Nat) (test : Bool) (i j : Nat) (bs : List (Block α)),
    i ≤ L.length → j ≤ R.length → outer L R f test i j = some bs → outer L R (f + 1) test i j = some bs := by
  intro f
  induction f with
  | zero => intro _ _ _ _ _ _ h; simp [outer] at h
  | succ f ih =>
    intro test i j bs hi hj h
    by_cases ci : i < L.length
    · by_cases cj : j < R.length
      · rw [outer_body L R f test i j ci cj] at h
        rw [outer_body L R (f + 1) test i j ci cj]
        simp only [bodyStep] at h ⊢
        have hl := commonLen_le_left (L.drop i) (R.drop j)
        have hr := commonLen_le_right (L.drop i) (R.drop j)
        simp only [List.length_drop] at hl hr
        split
        · rename_i hn
          simp only [hn, if_true, Option.map_eq_some_iff] at h ⊢
          obtain ⟨rest, hrest, rfl⟩ := h
          exact ⟨rest, ih _ _ _ _ (by omega) (by omega) hrest, rfl⟩
        · rename_i hn
          simp only [hn, if_false] at h
          split at h
          · rename_i hs
            simp only [Option.map_eq_some_iff] at h ⊢
            obtain ⟨rest, hrest, rfl⟩ := h
            exact ⟨rest, ih _ _ _ _ (Nat.le_refl _) (Nat.le_refl _) hrest, rfl⟩
          · rename_i it jt hs
            have ⟨a1, a2, a3, a4, _⟩ := scanLeft_some hs
            simp only [List.length_drop] at a2 a4
            simp only [Option.map_eq_some_iff] at h ⊢
            obtain ⟨rest, hrest, rfl⟩ := h
            exact ⟨rest, ih _ _ _ _ (by omega) (by omega) hrest, rfl⟩
      · rw [outer_right_done L R f test i j ci (by omega)] at h
        rw [outer_right_done L R (f + 1) test i j ci (by omega)]; exact h
    · rw [outer_left_done L R f test i j (by omega) hj] at h
      rw [outer_left_done L R (f + 1) test i j (by omega) hj]; exact h

theorem outer_mono_le (L R : List α) {f g : Nat} (hfg : f ≤ g) (test : Bool) (i j : Nat) (bs : List (Block α))
    (hi : i ≤ L.length) (hj : j ≤ R.length) (h : outer L R f test i j = some bs) : outer L R g test i j = some bs := by
  induction hfg with
  | refl => exact h
  | step _ ih => exact outer_mono L R _ test i j bs hi hj ih

end C20
