import BareModel.Diff

/-!
# C20 — helper lemmas about the loops of `BareModel.Diff`

* `commonLen` — specification of the identical-lines loop: `identLoop_eq`
* `scanRight_some`, `scanLeft_some` — where a look-ahead match can lie
* `slice_*`, `pushIf_*` — `arraySlice` inside its argument range
* `leftOf_*`, `rightOf_*` — reading the two sides off a block list
-/

namespace C20
open Diff

set_option linter.unusedSectionVars false

variable {α : Type} [DecidableEq α]

/-! ## reading the sides -/

@[simp] theorem leftOf_nil : leftOf ([] : List (Block α)) = [] := rfl
@[simp] theorem rightOf_nil : rightOf ([] : List (Block α)) = [] := rfl

theorem leftOf_append (a b : List (Block α)) : leftOf (a ++ b) = leftOf a ++ leftOf b := by
  simp [leftOf]

theorem rightOf_append (a b : List (Block α)) : rightOf (a ++ b) = rightOf a ++ rightOf b := by
  simp [rightOf]

theorem leftOf_cons (b : Block α) (bs : List (Block α)) :
    leftOf (b :: bs) = (if b.kind = .add then [] else b.lines) ++ leftOf bs := by
  cases b with | mk k ls => cases k <;> simp [leftOf]

theorem rightOf_cons (b : Block α) (bs : List (Block α)) :
    rightOf (b :: bs) = (if b.kind = .remove then [] else b.lines) ++ rightOf bs := by
  cases b with | mk k ls => cases k <;> simp [rightOf]

/-! ## the identical-lines loop -/

/-- length of the longest common prefix -/
def commonLen : List α → List α → Nat
  | x :: xs, y :: ys => if x = y then commonLen xs ys + 1 else 0
  | _, _ => 0

theorem identLoop_eq (xs ys : List α) (i j : Nat) (acc : List α) :
    identLoop xs ys i j acc
      = (acc ++ xs.take (commonLen xs ys), i + commonLen xs ys, j + commonLen xs ys) := by
  induction xs generalizing ys i j acc with
  | nil => simp [identLoop, commonLen]
  | cons x xs ih =>
    cases ys with
    | nil => simp [identLoop, commonLen]
    | cons y ys =>
      by_cases h : x = y
      · subst h
        simp only [identLoop, commonLen, if_true, ih]
        simp [List.take_succ_cons, Nat.add_assoc, Nat.add_comm 1]
      · simp [identLoop, commonLen, h]

theorem commonLen_le_left (xs ys : List α) : commonLen xs ys ≤ xs.length := by
  induction xs generalizing ys with
  | nil => simp [commonLen]
  | cons x xs ih =>
    cases ys with
    | nil => simp [commonLen]
    | cons y ys =>
      simp only [commonLen]; split
      · have := ih ys; simp; omega
      · simp

theorem commonLen_le_right (xs ys : List α) : commonLen xs ys ≤ ys.length := by
  induction xs generalizing ys with
  | nil => simp [commonLen]
  | cons x xs ih =>
    cases ys with
    | nil => simp [commonLen]
    | cons y ys =>
      simp only [commonLen]; split
      · have := ih ys; simp; omega
      · simp

theorem take_commonLen (xs ys : List α) : xs.take (commonLen xs ys) = ys.take (commonLen xs ys) := by
  induction xs generalizing ys with
  | nil => simp [commonLen]
  | cons x xs ih =>
    cases ys with
    | nil => simp [commonLen]
    | cons y ys =>
      simp only [commonLen]; split
      · rename_i h; subst h; simp [ih ys]
      · simp

theorem commonLen_self (xs : List α) : commonLen xs xs = xs.length := by
  induction xs with
  | nil => rfl
  | cons x xs ih => simp [commonLen, ih]

/-- the loop stops at two lines that differ -/
theorem commonLen_zero_head {x y : α} {xs ys : List α} (h : commonLen (x :: xs) (y :: ys) = 0) : x ≠ y := by
  intro e; simp [commonLen, e] at h

/-! ## the look-ahead loops -/

theorem scanRight_some {x : α} {ys : List α} {j jt : Nat} (h : scanRight x ys j = some jt) :
    j ≤ jt ∧ jt < j + ys.length ∧ ys[jt - j]? = some x := by
  induction ys generalizing j with
  | nil => simp [scanRight] at h
  | cons y ys ih =>
    simp only [scanRight] at h
    split at h
    · rename_i e; subst e; cases h; simp
    · have ⟨h1, h2, h3⟩ := ih h
      refine ⟨by omega, by simp; omega, ?_⟩
      have : jt - j = (jt - (j + 1)) + 1 := by omega
      rw [this]; simpa using h3

theorem scanLeft_some {rj xs : List α} {j i it jt : Nat} (h : scanLeft rj j xs i = some (it, jt)) :
    i ≤ it ∧ it < i + xs.length ∧ j ≤ jt ∧ jt < j + rj.length ∧ xs[it - i]? = rj[jt - j]? := by
  induction xs generalizing i with
  | nil => simp [scanLeft] at h
  | cons x xs ih =>
    simp only [scanLeft] at h
    split at h
    · rename_i jt' hr
      cases h
      have ⟨h1, h2, h3⟩ := scanRight_some hr
      exact ⟨Nat.le_refl _, by simp, h1, h2, by simp [h3]⟩
    · have ⟨h1, h2, h3, h4, h5⟩ := ih h
      refine ⟨by omega, by simp; omega, h3, h4, ?_⟩
      have : it - i = (it - (i + 1)) + 1 := by omega
      rw [this]; simpa using h5

/-! ## `arraySlice` inside its range, `pushIf` -/

theorem slice_to_end {a : List α} {s : Nat} (h : s ≤ a.length) : slice a s none = some (a.drop s) := by
  simp [slice, Nat.not_lt.mpr h]

theorem slice_between {a : List α} {s e : Nat} (he : e ≤ a.length) (hs : s ≤ e) :
    slice a s (some e) = some ((a.take e).drop s) := by
  have : ¬ (s > a.length ∨ e > a.length) := by omega
  simp [slice, this]

/-- a piece cut out of the middle: `a[s:] = a[s:e] ++ a[e:]` -/
theorem drop_eq_slice_append {a : List α} {s e : Nat} (hs : s ≤ e) :
    a.drop s = (a.take e).drop s ++ a.drop e := by
  rw [List.drop_take]
  have h : a.drop e = (a.drop s).drop (e - s) := by
    rw [List.drop_drop]; congr 1; omega
  rw [h, List.take_append_drop]

theorem slice_between_ne_nil {a : List α} {s e : Nat} (he : e ≤ a.length) (hs : s < e) :
    (a.take e).drop s ≠ [] := by
  intro h
  have := congrArg List.length h
  simp [List.length_take] at this
  omega

theorem drop_ne_nil {a : List α} {s : Nat} (h : s < a.length) : a.drop s ≠ [] := by
  intro e
  have := congrArg List.length e
  simp at this; omega

@[simp] theorem pushIf_false (k : Kind) (s : Option (List α)) : pushIf false k s = some [] := rfl
@[simp] theorem pushIf_true (k : Kind) (ls : List α) : pushIf true k (some ls) = some [⟨k, ls⟩] := rfl

end C20
