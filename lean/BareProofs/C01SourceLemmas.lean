import BareModel.PrintScript
import BareProofs.C06Lemmas
import BareProofs.C10Lemmas
import BareProofs.C01Parse

/-!
# C01 from source text — helper lemmas

What `BareProofs/C01Source.lean` is assembled from:

* character facts and the identifier recogniser on a printed identifier (`ident?_append`);
* the recognisers of the regex cascade (`Scan`) on lines that start with *identifier, blank, non-blank*
  (`assign?_kw`, `label?_kw`) and on lines that start with *word characters, then a character that is neither a word
  character nor a blank* (labels `name:` and call statements `f(…)`: every keyword recogniser fails, section
  "no blank after the first word");
* success of each recogniser on its printed line;
* the text layer on `joinNl` (`splitLinesL_joinNl`).
-/

set_option linter.unusedSimpArgs false

namespace C01
open Text Scan PrintScript

/-! ## characters -/

theorem idStart_not_space {c : Char} (h : isIdStart c = true) : isSpace c = false := by
  cases hs : isSpace c with
  | false => rfl
  | true => have := C10.space_not_word hs; simp [C10.idStart_isWord h] at this

theorem word_not_space {c : Char} (h : isWord c = true) : isSpace c = false := by
  cases hs : isSpace c with
  | false => rfl
  | true => have := C10.space_not_word hs; simp [h] at this

theorem takeWhile_all {α} (p : α → Bool) : ∀ (l r : List α), (∀ x ∈ l, p x = true) → r.head?.all (fun x => !p x) = true →
    (l ++ r).takeWhile p = l ∧ (l ++ r).dropWhile p = r
  | [], [], _, _ => by simp
  | [], x :: r, _, h => by
      have : p x = false := by simpa using h
      simp [List.takeWhile, List.dropWhile, this]
  | a :: l, r, h, hr => by
      have ha : p a = true := h a (by simp)
      obtain ⟨h1, h2⟩ := takeWhile_all p l r (fun x hx => h x (List.mem_cons_of_mem _ hx)) hr
      simp [List.takeWhile, List.dropWhile, ha, h1, h2]

/-- an identifier: first character, the other characters -/
theorem isIdent_cases {n : Chars} (h : isIdent n = true) :
    ∃ c r, n = c :: r ∧ isIdStart c = true ∧ ∀ x ∈ r, isWord x = true := by
  cases n with
  | nil => simp [isIdent] at h
  | cons c r =>
    simp only [isIdent, Bool.and_eq_true, List.all_eq_true] at h
    exact ⟨c, r, rfl, h.1, h.2⟩

theorem isIdent_word {n : Chars} (h : isIdent n = true) : ∀ x ∈ n, isWord x = true := by
  obtain ⟨c, r, rfl, hc, hr⟩ := isIdent_cases h
  intro x hx
  rcases List.mem_cons.mp hx with rfl | hx
  · exact C10.idStart_isWord hc
  · exact hr x hx

/-- `[A-Za-z_]\w*` on a printed identifier followed by something that does not start with a word character -/
theorem ident?_append {n rest : Chars} (hn : isIdent n = true) (hr : rest.head?.all (fun x => !isWord x) = true) :
    ident? (n ++ rest) = some (n, rest) := by
  obtain ⟨c, r, rfl, hc, hw⟩ := isIdent_cases hn
  obtain ⟨h1, h2⟩ := takeWhile_all isWord r rest hw hr
  simp [ident?, hc, h1, h2]

theorem lstripL_cons_ns {c : Char} (r : Chars) (h : isSpace c = false) : lstripL (c :: r) = c :: r := by
  simp [lstripL, List.dropWhile, h]

theorem lstripL_sp (r : Chars) : lstripL (' ' :: r) = lstripL r := by
  simp [lstripL, List.dropWhile, show isSpace ' ' = true from by decide]

theorem ws1?_sp_ns {c : Char} (r : Chars) (h : isSpace c = false) : ws1? (' ' :: c :: r) = some (c :: r) := by
  simp [ws1?, show isSpace ' ' = true from by decide, lstripL_cons_ns r h]

theorem ws1?_ns {c : Char} (r : Chars) (h : isSpace c = false) : ws1? (c :: r) = none := by
  simp [ws1?, h]

/-- reading a printed identifier back -/
theorem nameOf_nameL {n : Name} (h : NameOK n = true) : nameOf (nameL n) = n := by
  simp only [NameOK, Bool.and_eq_true, decide_eq_true_eq] at h
  simp [nameOf, nameL, h.2]

theorem nameOK_ident {n : Name} (h : NameOK n = true) : isIdent (nameL n) = true := by
  simp only [NameOK, Bool.and_eq_true] at h; exact h.1

/-! ## lines of the form *identifier, blank, non-blank …* -/

/-- the assignment pattern needs `=` after the first word -/
theorem assign?_kw {k : Chars} {c : Char} (rest : Chars) (hk : isIdent k = true) (hs : isSpace c = false) (hc : c ≠ '=') :
    assign? (k ++ ' ' :: c :: rest) = none := by
  unfold assign?
  rw [ident?_append hk (by simp; decide)]
  simp only [lstripL_sp, lstripL_cons_ns rest hs]
  split
  · rename_i r3 h; simp only [List.cons.injEq] at h; exact absurd h.1 hc
  · rfl

/-- the label pattern needs `:` after the first word -/
theorem label?_kw {k : Chars} {c : Char} (rest : Chars) (hk : isIdent k = true) (hs : isSpace c = false) (hc : c ≠ ':') :
    label? (k ++ ' ' :: c :: rest) = none := by
  unfold label?
  rw [ident?_append hk (by simp; decide)]
  simp only [lstripL_sp, lstripL_cons_ns rest hs]
  split
  · rename_i r3 h; simp only [List.cons.injEq] at h; exact absurd h.1 hc
  · rfl

/-! ## `expr :` at the end of a block-opening line -/

theorem reverse_dropWhile_snoc_ns {c : Char} (l : Chars) (h : isSpace c = false) :
    (l ++ [c]).reverse.dropWhile isSpace = c :: l.reverse := by
  simp [List.dropWhile, h]

/-- `\s+(?P<expr>.+)\s*:\s*$` on ` E:` -/
theorem exprColon?_print {c : Char} (e : Chars) (hs : isSpace c = false) :
    exprColon? (' ' :: ((c :: e) ++ [':'])) = some (1, c :: e) := by
  unfold exprColon?
  have h1 : (' ' :: ((c :: e) ++ [':'])).reverse.dropWhile isSpace = ':' :: (' ' :: c :: e).reverse := by
    have := reverse_dropWhile_snoc_ns (' ' :: c :: e) (show isSpace ':' = false from by decide)
    simpa using this
  rw [h1]
  simp [List.takeWhile, List.dropWhile, show isSpace ' ' = true from by decide, hs]

/-! ## no blank after the first word: `w ++ c :: rest`, `w` word characters, `c` neither a word character nor a blank

(labels `name:` and call statements `f(…)`).  Every keyword pattern of the cascade needs, after its keyword, a blank
or the end of the line (or, for `else`, the colon; for `jumpif`, the parenthesis). -/

/-- starts with a non-blank -/
def NS (r : Chars) : Prop := ∃ x xs, r = x :: xs ∧ isSpace x = false

theorem prefix_word : ∀ (k w : Chars) (c : Char) (rest : Chars), (∀ x ∈ k, isWord x = true) → isWord c = false →
    k.isPrefixOf (w ++ c :: rest) = true → ∃ w', w = k ++ w'
  | [], w, _, _, _, _, _ => ⟨w, rfl⟩
  | a :: k, [], c, rest, hk, hc, h => by
      simp only [List.nil_append, List.isPrefixOf, Bool.and_eq_true, beq_iff_eq] at h
      have := hk a (by simp); rw [h.1, hc] at this; cases this
  | a :: k, b :: w, c, rest, hk, hc, h => by
      simp only [List.cons_append, List.isPrefixOf, Bool.and_eq_true, beq_iff_eq] at h
      obtain ⟨w', hw'⟩ := prefix_word k w c rest (fun x hx => hk x (List.mem_cons_of_mem _ hx)) hc h.2
      exact ⟨w', by rw [h.1, hw']; rfl⟩

/-- after a keyword (made of word characters) the line goes on with word characters, then `c` -/
theorem keyword?_wordc {kw : String} (hkw : ∀ x ∈ kw.toList, isWord x = true) {w : Chars} {c : Char} {rest r : Chars}
    (hw : ∀ x ∈ w, isWord x = true) (hc : isWord c = false)
    (h : keyword? kw (w ++ c :: rest) = some r) :
    ∃ w', w = kw.toList ++ w' ∧ r = w' ++ c :: rest ∧ ∀ x ∈ w', isWord x = true := by
  unfold keyword? at h
  split at h
  · rename_i hp
    obtain ⟨w', rfl⟩ := prefix_word _ w c rest hkw hc hp
    simp only [Option.some.injEq] at h
    refine ⟨w', rfl, ?_, fun x hx => hw x (by simp [hx])⟩
    rw [← h, ← String.length_toList, List.append_assoc, List.drop_left]
  · cases h

theorem NS_wordc {w : Chars} {c : Char} (rest : Chars) (hw : ∀ x ∈ w, isWord x = true) (hs : isSpace c = false) :
    NS (w ++ c :: rest) := by
  cases w with
  | nil => exact ⟨c, rest, rfl, hs⟩
  | cons a w => exact ⟨a, w ++ c :: rest, rfl, word_not_space (hw a (by simp))⟩

theorem NS.allSpace {r : Chars} (h : NS r) : allSpace r = false := by
  obtain ⟨x, xs, rfl, hx⟩ := h; simp [Text.allSpace, hx]

theorem NS.ws1? {r : Chars} (h : NS r) : ws1? r = none := by
  obtain ⟨x, xs, rfl, hx⟩ := h; exact ws1?_ns xs hx

theorem NS.lstrip {r : Chars} (h : NS r) : lstripL r = r := by
  obtain ⟨x, xs, rfl, hx⟩ := h; exact lstripL_cons_ns xs hx

theorem reverse_dropWhile_eq {α} (p : α → Bool) (l : List α) {a : α} {t : List α}
    (h : l.reverse.dropWhile p = a :: t) : ∃ ws, l = t.reverse ++ a :: ws := by
  have := List.takeWhile_append_dropWhile (p := p) (l := l.reverse)
  rw [h] at this
  refine ⟨(l.reverse.takeWhile p).reverse, ?_⟩
  have h2 := congrArg List.reverse this
  simp only [List.reverse_append, List.reverse_cons, List.reverse_reverse, List.append_assoc, List.singleton_append] at h2
  exact h2.symm

theorem NS.exprColon? {r : Chars} (h : NS r) : exprColon? r = none := by
  obtain ⟨x, xs, rfl, hx⟩ := h
  unfold Scan.exprColon?
  split
  · rename_i revBefore hd
    obtain ⟨ws, hws⟩ := reverse_dropWhile_eq isSpace (x :: xs) hd
    have hw : revBefore.reverse.takeWhile isSpace = [] := by
      cases hb : revBefore.reverse with
      | nil => rfl
      | cons y b =>
        rw [hb] at hws
        simp only [List.cons_append, List.cons.injEq] at hws
        simp [List.takeWhile, ← hws.1, hx]
    simp only [hw, List.getLast?_nil]
  · rfl

section wordc
variable {w : Chars} {c : Char} {rest : Chars} (hw : ∀ x ∈ w, isWord x = true) (hcw : isWord c = false)
  (hcs : isSpace c = false)
include hw hcw hcs

theorem kwOnly?_wordc {kw : String} (hkw : ∀ x ∈ kw.toList, isWord x = true) (sh : Shape) :
    kwOnly? kw sh (w ++ c :: rest) = none := by
  unfold kwOnly?
  cases h : keyword? kw (w ++ c :: rest) with
  | none => rfl
  | some r =>
    obtain ⟨w', _, rfl, hw'⟩ := keyword?_wordc hkw hw hcw h
    simp [(NS_wordc rest hw' hcs).allSpace]

theorem kwExprColon?_wordc {kw : String} (hkw : ∀ x ∈ kw.toList, isWord x = true) (mk : Nat → Chars → Shape) :
    kwExprColon? kw mk (w ++ c :: rest) = none := by
  unfold kwExprColon?
  cases h : keyword? kw (w ++ c :: rest) with
  | none => rfl
  | some r =>
    obtain ⟨w', _, rfl, hw'⟩ := keyword?_wordc hkw hw hcw h
    simp [(NS_wordc rest hw' hcs).exprColon?]

theorem for?_wordc : for? (w ++ c :: rest) = none := by
  unfold for?
  cases h : keyword? "for" (w ++ c :: rest) with
  | none => rfl
  | some r =>
    obtain ⟨w', _, rfl, hw'⟩ := keyword?_wordc (by decide) hw hcw h
    simp [(NS_wordc rest hw' hcs).ws1?]

theorem include?_wordc : include? (w ++ c :: rest) = none := by
  unfold include?
  cases h : keyword? "include" (w ++ c :: rest) with
  | none => rfl
  | some r =>
    obtain ⟨w', _, rfl, hw'⟩ := keyword?_wordc (by decide) hw hcw h
    simp [(NS_wordc rest hw' hcs).ws1?]

theorem return?_wordc : return? (w ++ c :: rest) = none := by
  unfold return?
  cases h : keyword? "return" (w ++ c :: rest) with
  | none => rfl
  | some r =>
    obtain ⟨w', _, rfl, hw'⟩ := keyword?_wordc (by decide) hw hcw h
    obtain ⟨x, xs, hr, hx⟩ := NS_wordc rest hw' hcs
    simp only [(NS_wordc rest hw' hcs).allSpace]
    rw [hr]
    simp [hx]

theorem funcBegin?_wordc : funcBegin? (w ++ c :: rest) = none := by
  unfold funcBegin?
  -- whatever the optional `async` does, what follows is again word characters then `c`
  have key : ∀ w1 : Chars, (∀ x ∈ w1, isWord x = true) →
      (match keyword? "function" (w1 ++ c :: rest) with
       | none => (none : Option Shape)
       | some r => match ws1? r with
         | none => none
         | some r => match ident? r with
           | none => none
           | some (name, r) => match lstripL r with
             | '(' :: r =>
               let r := lstripL r
               let (args, r) := match ident? r with
                 | some (a, r') => let (as, r'') := argsLoop r'.length r'; (a :: as, r'')
                 | none => ([], r)
               let (laa, r) := match keyword? "..." (lstripL r) with
                 | some r' => (true, r')
                 | none => (false, r)
               match lstripL r with
               | ')' :: r =>
                 match lstripL r with
                 | ':' :: r => if allSpace r then some (.funcBegin name args laa false) else none
                 | _ => none
               | _ => none
             | _ => none) = none := by
    intro w1 hw1
    cases h : keyword? "function" (w1 ++ c :: rest) with
    | none => rfl
    | some r =>
      obtain ⟨w', _, rfl, hw'⟩ := keyword?_wordc (by decide) hw1 hcw h
      simp [(NS_wordc rest hw' hcs).ws1?]
  cases h : keyword? "async" (w ++ c :: rest) with
  | none =>
    simp only
    cases h2 : keyword? "function" (w ++ c :: rest) with
    | none => rfl
    | some r =>
      obtain ⟨w', _, rfl, hw'⟩ := keyword?_wordc (by decide) hw hcw h2
      simp [(NS_wordc rest hw' hcs).ws1?]
  | some r =>
    obtain ⟨w', _, rfl, hw'⟩ := keyword?_wordc (by decide) hw hcw h
    simp only [(NS_wordc rest hw' hcs).lstrip]
    cases h2 : keyword? "function" (w' ++ c :: rest) with
    | none => rfl
    | some r =>
      obtain ⟨w'', _, rfl, hw''⟩ := keyword?_wordc (by decide) hw' hcw h2
      simp [(NS_wordc rest hw'' hcs).ws1?]

/-- `else:` is the only line of this form the `else` pattern matches -/
theorem else?_wordc (hel : c = ':' → w ≠ "else".toList) : else? (w ++ c :: rest) = none := by
  unfold else?
  cases h : keyword? "else" (w ++ c :: rest) with
  | none => rfl
  | some r =>
    obtain ⟨w', hw0, rfl, hw'⟩ := keyword?_wordc (by decide) hw hcw h
    simp only [(NS_wordc rest hw' hcs).lstrip]
    cases w' with
    | nil =>
      simp only [List.nil_append]
      split
      · rename_i r' he
        simp only [List.cons.injEq] at he
        exact absurd (by simpa using hw0) (hel he.1)
      · rfl
    | cons a w' =>
      simp only [List.cons_append]
      split
      · rename_i r' he
        simp only [List.cons.injEq] at he
        have := hw' a (by simp); rw [he.1] at this; exact absurd this (by decide)
      · rfl

/-- `jump name` needs a blank after `jump`; `jumpif (…) name` needs a name after the last parenthesis -/
theorem jump?_wordc (hj : c = '(' → rest.getLast? = some ')') : jump? (w ++ c :: rest) = none := by
  unfold jump?
  cases h : keyword? "jump" (w ++ c :: rest) with
  | none => rfl
  | some r =>
    obtain ⟨w', _, rfl, hw'⟩ := keyword?_wordc (by decide) hw hcw h
    have h1 : wsNameEnd? (w' ++ c :: rest) = none := by simp [wsNameEnd?, (NS_wordc rest hw' hcs).ws1?]
    simp only [h1]
    cases h2 : keyword? "if" (w' ++ c :: rest) with
    | none => rfl
    | some r =>
      obtain ⟨w'', _, rfl, hw''⟩ := keyword?_wordc (by decide) hw' hcw h2
      simp only [(NS_wordc rest hw'' hcs).lstrip]
      cases w'' with
      | cons a w'' =>
        simp only [List.cons_append]
        split
        · rename_i r2 he
          simp only [List.cons.injEq] at he
          have := hw'' a (by simp); rw [he.1] at this; exact absurd this (by decide)
        · rfl
      | nil =>
        simp only [List.nil_append]
        split
        · rename_i r2 he
          simp only [List.cons.injEq] at he
          obtain ⟨hc, rfl⟩ := he
          have hl := hj hc
          obtain ⟨r0, rfl⟩ := List.getLast?_eq_some_iff.mp hl
          have : splitLastParen (r0 ++ [')']) = some (r0, []) := by
            simp [splitLastParen, List.dropWhile, List.takeWhile]
          rw [this]
          simp [wsNameEnd?, ws1?]
        · rfl

omit hw in
theorem assign?_wordc (hi : isIdent w = true) (hc : c ≠ '=') : assign? (w ++ c :: rest) = none := by
  unfold assign?
  rw [ident?_append hi (by simp [hcw])]
  simp only [lstripL_cons_ns rest hcs]
  split
  · rename_i r3 h; simp only [List.cons.injEq] at h; exact absurd h.1 hc
  · rfl

omit hw in
theorem label?_wordc (hi : isIdent w = true) (hc : c ≠ ':') : label? (w ++ c :: rest) = none := by
  unfold label?
  rw [ident?_append hi (by simp [hcw])]
  simp only [lstripL_cons_ns rest hcs]
  split
  · rename_i r3 h; simp only [List.cons.injEq] at h; exact absurd h.1 hc
  · rfl

end wordc

/-! ## the function-definition pattern on its printed line -/

theorem moreArgsL_length (as : List Name) : as.length ≤ (moreArgsL as).length := by
  induction as with
  | nil => simp [moreArgsL]
  | cons a as ih => simp [moreArgsL]; omega

/-- what can follow the argument list: `...` or `)` -/
def ArgsEnd (tail : Chars) : Prop := ∃ x xs, tail = x :: xs ∧ (x = '.' ∨ x = ')')

theorem ArgsEnd.facts {tail : Chars} (h : ArgsEnd tail) :
    lstripL tail = tail ∧ ident? tail = none ∧ tail.head?.all (fun x => !isWord x) = true ∧
    (∀ r, lstripL tail ≠ ',' :: r) := by
  obtain ⟨x, xs, rfl, hx | hx⟩ := h <;> subst hx <;>
    simp [lstripL, List.dropWhile, ident?, show isSpace '.' = false from by decide, show isSpace ')' = false from by decide,
      show isIdStart '.' = false from by decide, show isIdStart ')' = false from by decide,
      show isWord '.' = false from by decide, show isWord ')' = false from by decide]

theorem moreArgs_head (as : List Name) {tail : Chars} (h : ArgsEnd tail) :
    (moreArgsL as ++ tail).head?.all (fun x => !isWord x) = true := by
  cases as with
  | nil => simpa [moreArgsL] using h.facts.2.2.1
  | cons a as => simp [moreArgsL]; decide

theorem argsLoop_print : ∀ (as : List Name) (fuel : Nat) (tail : Chars), as.length ≤ fuel →
    (∀ a ∈ as, isIdent (nameL a) = true) → ArgsEnd tail →
    argsLoop fuel (moreArgsL as ++ tail) = (as.map nameL, tail)
  | [], 0, tail, _, _, _ => rfl
  | [], fuel + 1, tail, _, _, ht => by
      simp only [moreArgsL, List.nil_append, argsLoop, List.map_nil]
      split
      · rename_i r1 h; exact absurd h (ht.facts.2.2.2 r1)
      · rfl
  | a :: as, 0, _, h, _, _ => by simp at h
  | a :: as, fuel + 1, tail, h, ha, ht => by
      have hi := ha a (by simp)
      obtain ⟨c, r, hn, hc, hw⟩ := isIdent_cases hi
      have ih := argsLoop_print as fuel tail (by simpa using h) (fun x hx => ha x (List.mem_cons_of_mem _ hx)) ht
      have e1 : lstripL (',' :: ' ' :: (nameL a ++ moreArgsL as) ++ tail) = ',' :: ' ' :: (nameL a ++ (moreArgsL as ++ tail)) := by
        simp [lstripL, List.dropWhile, show isSpace ',' = false from by decide]
      have e2 : lstripL (' ' :: (nameL a ++ (moreArgsL as ++ tail))) = nameL a ++ (moreArgsL as ++ tail) := by
        rw [lstripL_sp, hn]; exact lstripL_cons_ns _ (idStart_not_space hc)
      simp only [moreArgsL, argsLoop, e1, e2, ident?_append hi (moreArgs_head as ht), ih, List.map_cons]

theorem argsEnd_tail (laa : Bool) : ArgsEnd (laaL laa ++ [')', ':']) := by
  cases laa
  · exact ⟨')', [':'], rfl, .inr rfl⟩
  · exact ⟨'.', ['.', '.', ')', ':'], rfl, .inl rfl⟩

/-- the part of the function pattern after the function name -/
def funcTail (name : Chars) (isAsync : Bool) (r : Chars) : Option Shape :=
  match lstripL r with
  | '(' :: r =>
    let r := lstripL r
    let (args, r) := match ident? r with
      | some (a, r') => let (as, r'') := argsLoop r'.length r'; (a :: as, r'')
      | none => ([], r)
    let (laa, r) := match keyword? "..." (lstripL r) with
      | some r' => (true, r')
      | none => (false, r)
    match lstripL r with
    | ')' :: r =>
      match lstripL r with
      | ':' :: r => if allSpace r then some (.funcBegin name args laa isAsync) else none
      | _ => none
    | _ => none
  | _ => none

theorem funcBegin?_eq (s : Chars) : funcBegin? s =
    (match keyword? "function" (match keyword? "async" s with | some r => lstripL r | none => s) with
     | none => none
     | some r =>
       match ws1? r with
       | none => none
       | some r =>
         match ident? r with
         | none => none
         | some (name, r) => funcTail name (keyword? "async" s).isSome r) := by
  unfold funcBegin? funcTail
  cases keyword? "async" s <;> rfl

theorem funcTail_print (n : Chars) (b : Bool) (args : List Name) (laa : Bool) (ha : ∀ a ∈ args, isIdent (nameL a) = true) :
    funcTail n b ('(' :: (argsL args ++ (laaL laa ++ [')', ':']))) = some (.funcBegin n (args.map nameL) laa b) := by
  have ht := argsEnd_tail laa
  have hlaa : keyword? "..." (lstripL (laaL laa ++ [')', ':'])) = if laa then some [')', ':'] else none := by
    cases laa <;> rfl
  have hl1 : lstripL [')', ':'] = [')', ':'] := rfl
  have hl2 : lstripL [':'] = [':'] := rfl
  have hl3 : allSpace [] = true := rfl
  unfold funcTail
  simp only [lstripL_cons_ns _ (show isSpace '(' = false from by decide)]
  cases args with
  | nil =>
    simp only [argsL, List.nil_append, ht.facts.1, ht.facts.2.1, List.map_nil, hlaa]
    cases laa <;> rfl
  | cons a as =>
    have hi := ha a (by simp)
    obtain ⟨c, r, hn, hc, hw⟩ := isIdent_cases hi
    have e1 : lstripL (argsL (a :: as) ++ (laaL laa ++ [')', ':'])) = nameL a ++ (moreArgsL as ++ (laaL laa ++ [')', ':'])) := by
      simp only [argsL, List.append_assoc]; rw [hn]; exact lstripL_cons_ns _ (idStart_not_space hc)
    have h2 := argsLoop_print as (moreArgsL as ++ (laaL laa ++ [')', ':'])).length (laaL laa ++ [')', ':'])
      (by have := moreArgsL_length as; simp; omega) (fun x hx => ha x (List.mem_cons_of_mem _ hx)) ht
    simp only [e1, ident?_append hi (moreArgs_head as ht), h2, List.map_cons, hlaa]
    cases laa <;> rfl

theorem funcBegin?_print (n : Chars) (args : List Name) (laa isAsync : Bool) (hn : isIdent n = true)
    (ha : ∀ a ∈ args, isIdent (nameL a) = true) :
    funcBegin? (asyncL isAsync ++ ("function ".toList ++ (n ++ ('(' :: (argsL args ++
        (laaL laa ++ [')', ':'])))))) = some (.funcBegin n (args.map nameL) laa isAsync) := by
  obtain ⟨c, r, rfl, hc, hw⟩ := isIdent_cases hn
  have hcs := idStart_not_space hc
  have hid : ident? (c :: (r ++ '(' :: (argsL args ++ (laaL laa ++ [')', ':'])))) = some (c :: r, '(' :: (argsL args ++ (laaL laa ++ [')', ':']))) :=
    ident?_append hn (by simp; decide)
  have hX := fun b => funcTail_print (c :: r) b args laa ha
  generalize '(' :: (argsL args ++ (laaL laa ++ [')', ':'])) = X at *
  cases isAsync with
  | false =>
    show funcBegin? ('f' :: 'u' :: 'n' :: 'c' :: 't' :: 'i' :: 'o' :: 'n' :: ' ' :: c :: (r ++ X)) = _
    have k1 : keyword? "async" ('f' :: 'u' :: 'n' :: 'c' :: 't' :: 'i' :: 'o' :: 'n' :: ' ' :: c :: (r ++ X)) = none := rfl
    have k2 : keyword? "function" ('f' :: 'u' :: 'n' :: 'c' :: 't' :: 'i' :: 'o' :: 'n' :: ' ' :: c :: (r ++ X)) = some (' ' :: c :: (r ++ X)) := rfl
    rw [funcBegin?_eq]
    simp only [k1, k2, ws1?_sp_ns _ hcs, hid, hX, Option.isSome_none]
  | true =>
    show funcBegin? ('a' :: 's' :: 'y' :: 'n' :: 'c' :: ' ' :: 'f' :: 'u' :: 'n' :: 'c' :: 't' :: 'i' :: 'o' :: 'n' :: ' ' :: c :: (r ++ X)) = _
    have k1 : keyword? "async" ('a' :: 's' :: 'y' :: 'n' :: 'c' :: ' ' :: 'f' :: 'u' :: 'n' :: 'c' :: 't' :: 'i' :: 'o' :: 'n' :: ' ' :: c :: (r ++ X)) = some (' ' :: 'f' :: 'u' :: 'n' :: 'c' :: 't' :: 'i' :: 'o' :: 'n' :: ' ' :: c :: (r ++ X)) := rfl
    have k0 : lstripL (' ' :: 'f' :: 'u' :: 'n' :: 'c' :: 't' :: 'i' :: 'o' :: 'n' :: ' ' :: c :: (r ++ X)) = 'f' :: 'u' :: 'n' :: 'c' :: 't' :: 'i' :: 'o' :: 'n' :: ' ' :: c :: (r ++ X) := by
      rw [lstripL_sp]; exact lstripL_cons_ns _ (by decide)
    have k2 : keyword? "function" ('f' :: 'u' :: 'n' :: 'c' :: 't' :: 'i' :: 'o' :: 'n' :: ' ' :: c :: (r ++ X)) = some (' ' :: c :: (r ++ X)) := rfl
    rw [funcBegin?_eq]
    simp only [k1, k0, k2, ws1?_sp_ns _ hcs, hid, hX, Option.isSome_some]

/-! ## each pattern on its printed line -/

theorem assign?_print {n : Chars} {c : Char} (e : Chars) (hn : isIdent n = true) (hs : isSpace c = false) :
    ∃ off, assign? (n ++ ' ' :: '=' :: ' ' :: c :: e) = some (.assign n off (c :: e)) := by
  unfold assign?
  rw [ident?_append hn (by simp; decide)]
  have e1 : lstripL (' ' :: '=' :: ' ' :: c :: e) = '=' :: ' ' :: c :: e := by
    rw [lstripL_sp]; exact lstripL_cons_ns _ (by decide)
  have e2 : lstripL (' ' :: c :: e) = c :: e := by rw [lstripL_sp]; exact lstripL_cons_ns _ hs
  simp only [e1, e2]
  exact ⟨_, rfl⟩

theorem label?_print {n : Chars} (hn : isIdent n = true) : label? (n ++ [':']) = some (.label n) := by
  unfold label?
  rw [ident?_append hn (by simp; decide)]
  rfl

theorem wsNameEnd?_print {n : Chars} (hn : isIdent n = true) : wsNameEnd? (' ' :: n) = some n := by
  obtain ⟨c, r, rfl, hc, hw⟩ := isIdent_cases hn
  have := ident?_append (rest := []) hn (by simp)
  simp only [List.append_nil] at this
  simp [wsNameEnd?, ws1?_sp_ns r (idStart_not_space hc), this, allSpace]

theorem splitLastParen_print (e : Chars) {n : Chars} (hn : isIdent n = true) :
    splitLastParen (e ++ ')' :: ' ' :: n) = some (e, ' ' :: n) := by
  have hw : ∀ x ∈ (' ' :: n).reverse, (x != ')') = true := by
    intro x hx
    simp only [List.mem_reverse, List.mem_cons] at hx
    rcases hx with rfl | hx
    · decide
    · have := isIdent_word hn x hx
      cases h : x != ')' with
      | true => rfl
      | false => simp at h; subst h; exact absurd this (by decide)
  have hrev : (e ++ ')' :: ' ' :: n).reverse = (' ' :: n).reverse ++ ')' :: e.reverse := by simp
  obtain ⟨h1, h2⟩ := takeWhile_all (fun x => x != ')') (' ' :: n).reverse (')' :: e.reverse) hw (by simp)
  unfold splitLastParen
  simp only [hrev, h1, h2, List.reverse_reverse]

theorem escapeUrl_spec : ∀ u : Chars, quotesEscaped (escapeUrl u) = true ∧ quotesEscaped ('\\' :: escapeUrl u) = true ∧
    unescapeQuote (escapeUrl u) = u
  | [] => by simp [escapeUrl, quotesEscaped, unescapeQuote]
  | c :: r => by
      obtain ⟨h1, h2, h3⟩ := escapeUrl_spec r
      by_cases hb : c = '\\'
      · subst hb
        simp only [escapeUrl, true_or, if_true]
        refine ⟨?_, ?_, ?_⟩
        · rw [quotesEscaped]; exact h2
          all_goals simp
        · rw [quotesEscaped]
          · rw [quotesEscaped]; exact h2
            all_goals simp
          all_goals simp
        · simp [unescapeQuote, h3]
      · by_cases hq : c = '\''
        · subst hq
          simp only [escapeUrl, or_true, if_true]
          refine ⟨?_, ?_, ?_⟩
          · simp [quotesEscaped, h1]
          · rw [quotesEscaped]
            · simp [quotesEscaped, h1]
            all_goals simp
          · simp [unescapeQuote, h3]
        · simp only [escapeUrl, hb, hq, or_self, if_false]
          refine ⟨?_, ?_, ?_⟩
          · rw [quotesEscaped]; exact h1
            all_goals simp [hb, hq]
          · rw [quotesEscaped]
            · rw [quotesEscaped]; exact h1
              all_goals simp [hb, hq]
            all_goals simp [hq]
          · rw [unescapeQuote]; rw [h3]
            all_goals simp [hb, hq]

/-! ## the cascade on each printed line -/

theorem shapeS_assign {n : Chars} {c : Char} (e : Chars) (hn : isIdent n = true) (hs : isSpace c = false) :
    ∃ off, shapeS (n ++ ' ' :: '=' :: ' ' :: c :: e) = .assign n off (c :: e) := by
  obtain ⟨off, h⟩ := assign?_print e hn hs
  refine ⟨off, ?_⟩
  unfold shapeS
  rw [h]; rfl

theorem shapeS_func (n : Chars) (args : List Name) (laa isAsync : Bool) (hn : isIdent n = true)
    (ha : ∀ a ∈ args, isIdent (nameL a) = true) :
    shapeS (asyncL isAsync ++ ("function ".toList ++ (n ++ ('(' :: (argsL args ++
        (laaL laa ++ [')', ':'])))))) = .funcBegin n (args.map nameL) laa isAsync := by
  have h2 := funcBegin?_print n args laa isAsync hn ha
  obtain ⟨c, r, rfl, hc, hw⟩ := isIdent_cases hn
  have h1 : assign? (asyncL isAsync ++ ("function ".toList ++ ((c :: r) ++ ('(' :: (argsL args ++
        (laaL laa ++ [')', ':'])))))) = none := by
    cases isAsync
    · exact assign?_kw (k := "function".toList) _ (by decide) (idStart_not_space hc) (by rintro rfl; exact absurd hc (by decide))
    · exact assign?_kw (k := "async".toList) (c := 'f') _ (by decide) (by decide) (by decide)
  unfold shapeS
  rw [h1, h2]; rfl

theorem shapeS_if {c : Char} (e : Chars) (hs : isSpace c = false) (hc : c ≠ '=') :
    shapeS ("if ".toList ++ ((c :: e) ++ [':'])) = .ifBegin 3 (c :: e) := by
  have h1 : assign? ('i' :: 'f' :: ' ' :: c :: (e ++ [':'])) = none :=
    assign?_kw (k := "if".toList) (e ++ [':']) (by decide) hs hc
  have h4 : kwExprColon? "if" .ifBegin ('i' :: 'f' :: ' ' :: c :: (e ++ [':'])) = some (.ifBegin 3 (c :: e)) := by
    have : keyword? "if" ('i' :: 'f' :: ' ' :: c :: (e ++ [':'])) = some (' ' :: ((c :: e) ++ [':'])) := rfl
    simp only [kwExprColon?, this, exprColon?_print e hs]; rfl
  show shapeS ('i' :: 'f' :: ' ' :: c :: (e ++ [':'])) = _
  unfold shapeS
  rw [h1, h4]; rfl

theorem shapeS_elif {c : Char} (e : Chars) (hs : isSpace c = false) (hc : c ≠ '=') :
    shapeS ("elif ".toList ++ ((c :: e) ++ [':'])) = .elif 5 (c :: e) := by
  have h1 : assign? ('e' :: 'l' :: 'i' :: 'f' :: ' ' :: c :: (e ++ [':'])) = none :=
    assign?_kw (k := "elif".toList) (e ++ [':']) (by decide) hs hc
  have h4 : kwExprColon? "elif" .elif ('e' :: 'l' :: 'i' :: 'f' :: ' ' :: c :: (e ++ [':'])) = some (.elif 5 (c :: e)) := by
    have : keyword? "elif" ('e' :: 'l' :: 'i' :: 'f' :: ' ' :: c :: (e ++ [':'])) = some (' ' :: ((c :: e) ++ [':'])) := rfl
    simp only [kwExprColon?, this, exprColon?_print e hs]; rfl
  show shapeS ('e' :: 'l' :: 'i' :: 'f' :: ' ' :: c :: (e ++ [':'])) = _
  unfold shapeS
  rw [h1, h4]; rfl

theorem shapeS_while {c : Char} (e : Chars) (hs : isSpace c = false) (hc : c ≠ '=') :
    shapeS ("while ".toList ++ ((c :: e) ++ [':'])) = .whileBegin 6 (c :: e) := by
  have h1 : assign? ('w' :: 'h' :: 'i' :: 'l' :: 'e' :: ' ' :: c :: (e ++ [':'])) = none :=
    assign?_kw (k := "while".toList) (e ++ [':']) (by decide) hs hc
  have h4 : kwExprColon? "while" .whileBegin ('w' :: 'h' :: 'i' :: 'l' :: 'e' :: ' ' :: c :: (e ++ [':'])) = some (.whileBegin 6 (c :: e)) := by
    have : keyword? "while" ('w' :: 'h' :: 'i' :: 'l' :: 'e' :: ' ' :: c :: (e ++ [':'])) = some (' ' :: ((c :: e) ++ [':'])) := rfl
    simp only [kwExprColon?, this, exprColon?_print e hs]; rfl
  show shapeS ('w' :: 'h' :: 'i' :: 'l' :: 'e' :: ' ' :: c :: (e ++ [':'])) = _
  unfold shapeS
  rw [h1, h4]; rfl

/-- ` in E:` after the loop variable(s) -/
theorem forTail_print {c : Char} (e : Chars) (_hs : isSpace c = false) :
    ws1? (" in ".toList ++ ((c :: e) ++ [':'])) = some ('i' :: 'n' :: ' ' :: ((c :: e) ++ [':'])) ∧
    keyword? "in" ('i' :: 'n' :: ' ' :: ((c :: e) ++ [':'])) = some (' ' :: ((c :: e) ++ [':'])) :=
  ⟨ws1?_sp_ns _ (by decide), rfl⟩

theorem forIndex_print (i : Option Name) (T : Chars) (hi : ∀ x ∈ i, isIdent (nameL x) = true)
    (hT : ∃ T', T = ' ' :: 'i' :: T') :
    C06.forIndex (ixL i ++ T) = (i.map nameL, T) := by
  obtain ⟨T', rfl⟩ := hT
  unfold C06.forIndex
  cases i with
  | none =>
    have e1 : lstripL (ixL none ++ ' ' :: 'i' :: T') = 'i' :: T' := by
      show lstripL (' ' :: 'i' :: T') = _
      rw [lstripL_sp]; exact lstripL_cons_ns _ (by decide)
    rw [e1]
    rfl
  | some x =>
    have hx := hi x (by simp)
    obtain ⟨cx, rx, hnx, hcx, hwx⟩ := isIdent_cases hx
    have e1 : lstripL (ixL (some x) ++ ' ' :: 'i' :: T') = ',' :: ' ' :: (nameL x ++ ' ' :: 'i' :: T') :=
      lstripL_cons_ns _ (by decide)
    have e2 : lstripL (' ' :: (nameL x ++ ' ' :: 'i' :: T')) = nameL x ++ ' ' :: 'i' :: T' := by
      rw [lstripL_sp, hnx]; exact lstripL_cons_ns _ (idStart_not_space hcx)
    have hidx : ident? (nameL x ++ ' ' :: 'i' :: T') = some (nameL x, ' ' :: 'i' :: T') :=
      ident?_append hx (by simp; decide)
    simp only [e1, e2, hidx, Option.map_some]

theorem shapeS_for {v : Chars} (i : Option Name) {c : Char} (e : Chars) (hv : isIdent v = true)
    (hi : ∀ x ∈ i, isIdent (nameL x) = true) (hs : isSpace c = false) :
    ∃ off, shapeS ("for ".toList ++ (v ++ (ixL i ++ (" in ".toList ++ ((c :: e) ++ [':']))))) =
      .forBegin v (i.map nameL) off (c :: e) := by
  obtain ⟨c0, r0, rfl, hc0, hw0⟩ := isIdent_cases hv
  have hc0s := idStart_not_space hc0
  have hfi := forIndex_print i (" in ".toList ++ ((c :: e) ++ [':'])) hi ⟨_, rfl⟩
  have hTh : (ixL i ++ (" in ".toList ++ ((c :: e) ++ [':']))).head?.all (fun x => !isWord x) = true := by
    cases i <;> simp [ixL] <;> decide
  obtain ⟨t1, t2⟩ := forTail_print e hs
  generalize ixL i ++ (" in ".toList ++ ((c :: e) ++ [':'])) = T at *
  have h1 : assign? ('f' :: 'o' :: 'r' :: ' ' :: c0 :: (r0 ++ T)) = none :=
    assign?_kw (k := "for".toList) (r0 ++ T) (by decide) hc0s (by rintro rfl; exact absurd hc0 (by decide))
  have hid : ident? (c0 :: (r0 ++ T)) = some (c0 :: r0, T) := ident?_append hv hTh
  have k1 : keyword? "for" ('f' :: 'o' :: 'r' :: ' ' :: c0 :: (r0 ++ T)) = some (' ' :: c0 :: (r0 ++ T)) := rfl
  have h10 : ∃ off, for? ('f' :: 'o' :: 'r' :: ' ' :: c0 :: (r0 ++ T)) = some (.forBegin (c0 :: r0) (i.map nameL) off (c :: e)) := by
    rw [C06.for?_eq]
    simp only [k1, ws1?_sp_ns _ hc0s, hid, hfi, t1, t2, exprColon?_print e hs]
    exact ⟨_, rfl⟩
  obtain ⟨off, h10⟩ := h10
  refine ⟨off, ?_⟩
  show shapeS ('f' :: 'o' :: 'r' :: ' ' :: c0 :: (r0 ++ T)) = _
  unfold shapeS
  rw [h1, h10]; rfl

theorem shapeS_label {n : Chars} (hn : isIdent n = true) (hel : n ≠ "else".toList) :
    shapeS (n ++ [':']) = .label n := by
  have hw := isIdent_word hn
  have hcw : isWord ':' = false := by decide
  have hcs : isSpace ':' = false := by decide
  have hkw : ∀ kw ∈ ["endfunction", "if", "elif", "endif", "while", "endwhile", "endfor", "break", "continue"],
      ∀ x ∈ String.toList kw, isWord x = true := by decide
  unfold shapeS
  rw [assign?_wordc (rest := []) hcw hcs hn (by decide), funcBegin?_wordc hw hcw hcs,
    kwOnly?_wordc hw hcw hcs (hkw "endfunction" (by simp)), kwExprColon?_wordc hw hcw hcs (hkw "if" (by simp)),
    kwExprColon?_wordc hw hcw hcs (hkw "elif" (by simp)), else?_wordc hw hcw hcs (fun _ => hel),
    kwOnly?_wordc hw hcw hcs (hkw "endif" (by simp)), kwExprColon?_wordc hw hcw hcs (hkw "while" (by simp)),
    kwOnly?_wordc hw hcw hcs (hkw "endwhile" (by simp)), for?_wordc hw hcw hcs,
    kwOnly?_wordc hw hcw hcs (hkw "endfor" (by simp)), kwOnly?_wordc hw hcw hcs (hkw "break" (by simp)),
    kwOnly?_wordc hw hcw hcs (hkw "continue" (by simp)), label?_print hn]
  rfl

/-- a call statement `f(…)` is what is left when every pattern failed -/
theorem shapeS_call {t : Chars} (h : CallTextOK t = true) : shapeS t = .exprStmt := by
  simp only [CallTextOK, Bool.and_eq_true, beq_iff_eq] at h
  obtain ⟨⟨hn, hp⟩, hl⟩ := h
  have hsplit : t = t.takeWhile isWord ++ t.dropWhile isWord := (List.takeWhile_append_dropWhile).symm
  generalize t.takeWhile isWord = w at hn hsplit
  cases hd : t.dropWhile isWord with
  | nil => rw [hd] at hp; simp at hp
  | cons c rest =>
    rw [hd] at hp hsplit
    simp only [List.head?_cons, Option.some.injEq] at hp
    subst hp
    have hj : rest.getLast? = some ')' := by
      rw [hsplit] at hl
      cases rest with
      | nil => simp at hl
      | cons a r => simpa [List.getLast?_append, List.getLast?_cons_cons] using hl
    rw [hsplit]
    have hw := isIdent_word hn
    have hcw : isWord '(' = false := by decide
    have hcs : isSpace '(' = false := by decide
    have hkw : ∀ kw ∈ ["endfunction", "if", "elif", "endif", "while", "endwhile", "endfor", "break", "continue"],
        ∀ x ∈ String.toList kw, isWord x = true := by decide
    unfold shapeS
    rw [assign?_wordc hcw hcs hn (by decide), funcBegin?_wordc hw hcw hcs,
      kwOnly?_wordc hw hcw hcs (hkw "endfunction" (by simp)), kwExprColon?_wordc hw hcw hcs (hkw "if" (by simp)),
      kwExprColon?_wordc hw hcw hcs (hkw "elif" (by simp)), else?_wordc hw hcw hcs (fun h => absurd h (by decide)),
      kwOnly?_wordc hw hcw hcs (hkw "endif" (by simp)), kwExprColon?_wordc hw hcw hcs (hkw "while" (by simp)),
      kwOnly?_wordc hw hcw hcs (hkw "endwhile" (by simp)), for?_wordc hw hcw hcs,
      kwOnly?_wordc hw hcw hcs (hkw "endfor" (by simp)), kwOnly?_wordc hw hcw hcs (hkw "break" (by simp)),
      kwOnly?_wordc hw hcw hcs (hkw "continue" (by simp)), label?_wordc hcw hcs hn (by decide),
      jump?_wordc hw hcw hcs (fun _ => hj), return?_wordc hw hcw hcs, include?_wordc hw hcw hcs]
    rfl

theorem shapeS_jump {n : Chars} (hn : isIdent n = true) : shapeS ("jump ".toList ++ n) = .jump n none := by
  obtain ⟨c, r, rfl, hc, hw⟩ := isIdent_cases hn
  have hcs := idStart_not_space hc
  have h1 : assign? ('j' :: 'u' :: 'm' :: 'p' :: ' ' :: c :: r) = none :=
    assign?_kw (k := "jump".toList) r (by decide) hcs (by rintro rfl; exact absurd hc (by decide))
  have h14 : label? ('j' :: 'u' :: 'm' :: 'p' :: ' ' :: c :: r) = none :=
    label?_kw (k := "jump".toList) r (by decide) hcs (by rintro rfl; exact absurd hc (by decide))
  have h15 : jump? ('j' :: 'u' :: 'm' :: 'p' :: ' ' :: c :: r) = some (.jump (c :: r) none) := by
    have k : keyword? "jump" ('j' :: 'u' :: 'm' :: 'p' :: ' ' :: c :: r) = some (' ' :: c :: r) := rfl
    simp only [jump?, k, wsNameEnd?_print hn]
  show shapeS ('j' :: 'u' :: 'm' :: 'p' :: ' ' :: c :: r) = _
  unfold shapeS
  rw [h1, h14, h15]; rfl

theorem shapeS_jumpif {n : Chars} (e : Chars) (hn : isIdent n = true) (he : e ≠ []) :
    ∃ off, shapeS ("jumpif (".toList ++ (e ++ (')' :: ' ' :: n))) = .jump n (some (off, e)) := by
  have h1 : assign? ('j' :: 'u' :: 'm' :: 'p' :: 'i' :: 'f' :: ' ' :: '(' :: (e ++ (')' :: ' ' :: n))) = none :=
    assign?_kw (k := "jumpif".toList) _ (by decide) (by decide) (by decide)
  have h14 : label? ('j' :: 'u' :: 'm' :: 'p' :: 'i' :: 'f' :: ' ' :: '(' :: (e ++ (')' :: ' ' :: n))) = none :=
    label?_kw (k := "jumpif".toList) _ (by decide) (by decide) (by decide)
  have h15 : ∃ off, jump? ('j' :: 'u' :: 'm' :: 'p' :: 'i' :: 'f' :: ' ' :: '(' :: (e ++ (')' :: ' ' :: n))) = some (.jump n (some (off, e))) := by
    have k : keyword? "jump" ('j' :: 'u' :: 'm' :: 'p' :: 'i' :: 'f' :: ' ' :: '(' :: (e ++ (')' :: ' ' :: n))) = some ('i' :: 'f' :: ' ' :: '(' :: (e ++ (')' :: ' ' :: n))) := rfl
    have k2 : keyword? "if" ('i' :: 'f' :: ' ' :: '(' :: (e ++ (')' :: ' ' :: n))) = some (' ' :: '(' :: (e ++ (')' :: ' ' :: n))) := rfl
    have w1 : wsNameEnd? ('i' :: 'f' :: ' ' :: '(' :: (e ++ (')' :: ' ' :: n))) = none := rfl
    have l1 : lstripL (' ' :: '(' :: (e ++ (')' :: ' ' :: n))) = '(' :: (e ++ (')' :: ' ' :: n)) := by
      rw [lstripL_sp]; exact lstripL_cons_ns _ (by decide)
    have he' : e.isEmpty = false := by cases e <;> simp_all
    simp only [jump?, k, k2, w1, l1, splitLastParen_print e hn, he', wsNameEnd?_print hn]
    exact ⟨_, rfl⟩
  obtain ⟨off, h15⟩ := h15
  refine ⟨off, ?_⟩
  show shapeS ('j' :: 'u' :: 'm' :: 'p' :: 'i' :: 'f' :: ' ' :: '(' :: (e ++ (')' :: ' ' :: n))) = _
  unfold shapeS
  rw [h1, h14, h15]; rfl

theorem shapeS_return {c : Char} (e : Chars) (hs : isSpace c = false) (h1c : c ≠ '=') (h2c : c ≠ ':') :
    ∃ off, shapeS ("return ".toList ++ (c :: e)) = .ret (some (off, c :: e)) := by
  have h1 : assign? ('r' :: 'e' :: 't' :: 'u' :: 'r' :: 'n' :: ' ' :: c :: e) = none :=
    assign?_kw (k := "return".toList) _ (by decide) hs h1c
  have h14 : label? ('r' :: 'e' :: 't' :: 'u' :: 'r' :: 'n' :: ' ' :: c :: e) = none :=
    label?_kw (k := "return".toList) _ (by decide) hs h2c
  have h16 : ∃ off, return? ('r' :: 'e' :: 't' :: 'u' :: 'r' :: 'n' :: ' ' :: c :: e) = some (.ret (some (off, c :: e))) := by
    have k : keyword? "return" ('r' :: 'e' :: 't' :: 'u' :: 'r' :: 'n' :: ' ' :: c :: e) = some (' ' :: c :: e) := rfl
    have l1 : lstripL (' ' :: c :: e) = c :: e := by rw [lstripL_sp]; exact lstripL_cons_ns _ hs
    have a1 : allSpace (' ' :: c :: e) = false := by simp [allSpace, hs]
    simp only [return?, k, a1, l1, show isSpace ' ' = true from by decide]
    exact ⟨_, rfl⟩
  obtain ⟨off, h16⟩ := h16
  refine ⟨off, ?_⟩
  show shapeS ('r' :: 'e' :: 't' :: 'u' :: 'r' :: 'n' :: ' ' :: c :: e) = _
  unfold shapeS
  rw [h1, h14, h16]; rfl

theorem shapeS_include_quote (u : Chars) :
    shapeS ("include '".toList ++ (escapeUrl u ++ ['\''])) = .include u false := by
  have h1 : assign? ('i' :: 'n' :: 'c' :: 'l' :: 'u' :: 'd' :: 'e' :: ' ' :: '\'' :: (escapeUrl u ++ ['\''])) = none :=
    assign?_kw (k := "include".toList) _ (by decide) (by decide) (by decide)
  have h14 : label? ('i' :: 'n' :: 'c' :: 'l' :: 'u' :: 'd' :: 'e' :: ' ' :: '\'' :: (escapeUrl u ++ ['\''])) = none :=
    label?_kw (k := "include".toList) _ (by decide) (by decide) (by decide)
  have h17 : include? ('i' :: 'n' :: 'c' :: 'l' :: 'u' :: 'd' :: 'e' :: ' ' :: '\'' :: (escapeUrl u ++ ['\''])) = some (.include u false) := by
    have k : keyword? "include" ('i' :: 'n' :: 'c' :: 'l' :: 'u' :: 'd' :: 'e' :: ' ' :: '\'' :: (escapeUrl u ++ ['\''])) = some (' ' :: '\'' :: (escapeUrl u ++ ['\''])) := rfl
    have r1 := reverse_dropWhile_snoc_ns (escapeUrl u) (show isSpace '\'' = false from by decide)
    obtain ⟨q1, _, q3⟩ := escapeUrl_spec u
    simp only [include?, k, ws1?_sp_ns _ (show isSpace '\'' = false from by decide), r1, List.reverse_reverse, q1, q3, if_true]
  show shapeS ('i' :: 'n' :: 'c' :: 'l' :: 'u' :: 'd' :: 'e' :: ' ' :: '\'' :: (escapeUrl u ++ ['\''])) = _
  unfold shapeS
  rw [h1, h14, h17]; rfl

theorem shapeS_include_system (u : Chars) (hu : u.contains '>' = false) :
    shapeS ("include <".toList ++ (u ++ ['>'])) = .include u true := by
  have h1 : assign? ('i' :: 'n' :: 'c' :: 'l' :: 'u' :: 'd' :: 'e' :: ' ' :: '<' :: (u ++ ['>'])) = none :=
    assign?_kw (k := "include".toList) _ (by decide) (by decide) (by decide)
  have h14 : label? ('i' :: 'n' :: 'c' :: 'l' :: 'u' :: 'd' :: 'e' :: ' ' :: '<' :: (u ++ ['>'])) = none :=
    label?_kw (k := "include".toList) _ (by decide) (by decide) (by decide)
  have h17 : include? ('i' :: 'n' :: 'c' :: 'l' :: 'u' :: 'd' :: 'e' :: ' ' :: '<' :: (u ++ ['>'])) = some (.include u true) := by
    have k : keyword? "include" ('i' :: 'n' :: 'c' :: 'l' :: 'u' :: 'd' :: 'e' :: ' ' :: '<' :: (u ++ ['>'])) = some (' ' :: '<' :: (u ++ ['>'])) := rfl
    have hw : ∀ x ∈ u, (x != '>') = true := by
      intro x hx
      cases h : x != '>' with
      | true => rfl
      | false => simp at h; subst h; simp at hu; exact absurd hx hu
    obtain ⟨t1, t2⟩ := takeWhile_all (fun x => x != '>') u ['>'] hw (by simp)
    simp only [include?, k, ws1?_sp_ns _ (show isSpace '<' = false from by decide), t1, t2]
    rfl
  show shapeS ('i' :: 'n' :: 'c' :: 'l' :: 'u' :: 'd' :: 'e' :: ' ' :: '<' :: (u ++ ['>'])) = _
  unfold shapeS
  rw [h1, h14, h17]; rfl

/-- the one-word lines -/
theorem shapeS_keywords :
    shapeS "endfunction".toList = .funcEnd ∧ shapeS "else:".toList = .else_ ∧ shapeS "endif".toList = .endif ∧
    shapeS "endwhile".toList = .endwhile ∧ shapeS "endfor".toList = .endfor ∧ shapeS "break".toList = .break_ ∧
    shapeS "continue".toList = .continue_ ∧ shapeS "return".toList = .ret none := by decide

/-! ## the whole cascade on a printed line -/

/-- the raw match of the cascade on the printed line (`off` = start of the expression group, where there is one) -/
def expShape (pe : Expr → Chars) : Line → Nat → Shape
  | .assign n e, off => .assign (nameL n) off (pe e)
  | .funcBegin n args laa a, _ => .funcBegin (nameL n) (args.map nameL) laa a
  | .funcEnd, _ => .funcEnd
  | .ifBegin c, off => .ifBegin off (pe c)
  | .elif c, off => .elif off (pe c)
  | .else_, _ => .else_
  | .endif, _ => .endif
  | .whileBegin c, off => .whileBegin off (pe c)
  | .endwhile, _ => .endwhile
  | .forBegin v i e, off => .forBegin (nameL v) (i.map nameL) off (pe e)
  | .endfor, _ => .endfor
  | .break_, _ => .break_
  | .continue_, _ => .continue_
  | .label n, _ => .label (nameL n)
  | .jump n none, _ => .jump (nameL n) none
  | .jump n (some c), off => .jump (nameL n) (some (off, pe c))
  | .ret none, _ => .ret none
  | .ret (some e), off => .ret (some (off, pe e))
  | .include url sys, _ => .include url.toList sys
  | .exprStmt _, _ => .exprStmt

theorem expShape_shift (pe : Expr → Chars) (l : Line) (off k : Nat) :
    (expShape pe l off).shift k = expShape pe l (off + k) := by
  cases l with
  | jump n c => cases c <;> rfl
  | ret e => cases e <;> rfl
  | _ => rfl

/-- what `ExprTextOK` says -/
theorem exprTextOK_facts {t : Chars} (h : ExprTextOK t = true) :
    '\n' ∉ t ∧ (∃ c e, t = c :: e ∧ isSpace c = false ∧ c ≠ '=' ∧ c ≠ ':' ∧ c ≠ '#') ∧
    (∃ d, t.getLast? = some d ∧ isSpace d = false ∧ d ≠ '\\') := by
  simp only [ExprTextOK, Bool.and_eq_true, Bool.not_eq_true', List.contains_eq_mem, decide_eq_false_iff_not] at h
  obtain ⟨⟨h1, h2⟩, h3⟩ := h
  refine ⟨h1, ?_, ?_⟩
  · cases t with
    | nil => simp at h2
    | cons c e =>
      simp only [List.head?_cons, headOK, Bool.and_eq_true, Bool.not_eq_true', bne_iff_ne, ne_eq] at h2
      exact ⟨c, e, rfl, h2.1.1.1, h2.1.1.2, h2.1.2, h2.2⟩
  · cases hl : t.getLast? with
    | none => rw [hl] at h3; simp at h3
    | some d =>
      rw [hl] at h3
      simp only [lastOK, Bool.and_eq_true, Bool.not_eq_true', bne_iff_ne, ne_eq] at h3
      exact ⟨d, rfl, h3.1, h3.2⟩

/-- what `LineOK` says about the parts of a line -/
theorem lineOK_names {pe : Expr → Chars} {l : Line} (h : LineOK pe l = true) : ∀ n ∈ names l, NameOK n = true := by
  simp only [LineOK, Bool.and_eq_true, List.all_eq_true] at h; exact h.1.1

theorem lineOK_exprs {pe : Expr → Chars} {l : Line} (h : LineOK pe l = true) : ∀ e ∈ exprs l, ExprTextOK (pe e) = true := by
  simp only [LineOK, Bool.and_eq_true, List.all_eq_true] at h; exact h.1.2

theorem lineOK_special {pe : Expr → Chars} {l : Line} (h : LineOK pe l = true) :
    (match l with
     | .exprStmt e => CallTextOK (pe e)
     | .label n => nameL n != "else".toList
     | .include url sys => !url.toList.contains '\n' && (!sys || !url.toList.contains '>')
     | _ => true) = true := by
  simp only [LineOK, Bool.and_eq_true] at h
  cases l <;> first | exact h.2 | rfl

/-- **the cascade on a printed line** -/
theorem shapeS_printLine (pe : Expr → Chars) (l : Line) (h : LineOK pe l = true) :
    ∃ off, shapeS (printLineL pe l) = expShape pe l off := by
  have hn := lineOK_names h
  have he := lineOK_exprs h
  have hsp := lineOK_special h
  obtain ⟨k1, k2, k3, k4, k5, k6, k7, k8⟩ := shapeS_keywords
  cases l with
  | assign n e =>
    obtain ⟨_, ⟨c, r, hcr, hs, -, -, -⟩, -⟩ := exprTextOK_facts (he e (by simp [PrintScript.exprs]))
    obtain ⟨off, this⟩ := shapeS_assign r (nameOK_ident (hn n (by simp [PrintScript.names]))) hs
    refine ⟨off, ?_⟩
    show shapeS (nameL n ++ (' ' :: '=' :: ' ' :: pe e)) = .assign (nameL n) off (pe e)
    rw [hcr]; exact this
  | funcBegin n args laa a =>
    exact ⟨0, shapeS_func (nameL n) args laa a (nameOK_ident (hn n (by simp [PrintScript.names])))
      (fun x hx => nameOK_ident (hn x (by simp [PrintScript.names, hx])))⟩
  | funcEnd => exact ⟨0, k1⟩
  | ifBegin c =>
    obtain ⟨_, ⟨c0, r, hcr, hs, h1, -, -⟩, -⟩ := exprTextOK_facts (he c (by simp [PrintScript.exprs]))
    refine ⟨3, ?_⟩
    show shapeS ("if ".toList ++ (pe c ++ [':'])) = .ifBegin 3 (pe c)
    rw [hcr]; exact shapeS_if r hs h1
  | elif c =>
    obtain ⟨_, ⟨c0, r, hcr, hs, h1, -, -⟩, -⟩ := exprTextOK_facts (he c (by simp [PrintScript.exprs]))
    refine ⟨5, ?_⟩
    show shapeS ("elif ".toList ++ (pe c ++ [':'])) = .elif 5 (pe c)
    rw [hcr]; exact shapeS_elif r hs h1
  | else_ => exact ⟨0, k2⟩
  | endif => exact ⟨0, k3⟩
  | whileBegin c =>
    obtain ⟨_, ⟨c0, r, hcr, hs, h1, -, -⟩, -⟩ := exprTextOK_facts (he c (by simp [PrintScript.exprs]))
    refine ⟨6, ?_⟩
    show shapeS ("while ".toList ++ (pe c ++ [':'])) = .whileBegin 6 (pe c)
    rw [hcr]; exact shapeS_while r hs h1
  | endwhile => exact ⟨0, k4⟩
  | forBegin v i e =>
    obtain ⟨_, ⟨c0, r, hcr, hs, -, -, -⟩, -⟩ := exprTextOK_facts (he e (by simp [PrintScript.exprs]))
    obtain ⟨off, this⟩ := shapeS_for i r (nameOK_ident (hn v (by simp [PrintScript.names])))
      (fun x hx => nameOK_ident (hn x (by simp [PrintScript.names]; exact .inr hx))) hs
    refine ⟨off, ?_⟩
    show shapeS ("for ".toList ++ (nameL v ++ (ixL i ++ (" in ".toList ++ (pe e ++ [':']))))) =
      .forBegin (nameL v) (i.map nameL) off (pe e)
    rw [hcr]; exact this
  | endfor => exact ⟨0, k5⟩
  | break_ => exact ⟨0, k6⟩
  | continue_ => exact ⟨0, k7⟩
  | label n =>
    refine ⟨0, shapeS_label (nameOK_ident (hn n (by simp [PrintScript.names]))) ?_⟩
    simpa using hsp
  | jump n c =>
    have hi := nameOK_ident (hn n (by simp [PrintScript.names]))
    cases c with
    | none => exact ⟨0, shapeS_jump hi⟩
    | some c =>
      obtain ⟨_, ⟨c0, r, hcr, -⟩, -⟩ := exprTextOK_facts (he c (by simp [PrintScript.exprs]))
      exact shapeS_jumpif (pe c) hi (by rw [hcr]; simp)
  | ret e =>
    cases e with
    | none => exact ⟨0, k8⟩
    | some e =>
      obtain ⟨_, ⟨c0, r, hcr, hs, h1, h2, -⟩, -⟩ := exprTextOK_facts (he e (by simp [PrintScript.exprs]))
      obtain ⟨off, this⟩ := shapeS_return r hs h1 h2
      refine ⟨off, ?_⟩
      show shapeS ("return ".toList ++ pe e) = .ret (some (off, pe e))
      rw [hcr]; exact this
  | «include» url sys =>
    cases sys with
    | false => exact ⟨0, shapeS_include_quote url.toList⟩
    | true =>
      refine ⟨0, shapeS_include_system url.toList ?_⟩
      have : ¬'\n' ∈ url.toList ∧ ¬'>' ∈ url.toList := by simpa using hsp
      simpa using this.2
  | exprStmt e => exact ⟨0, shapeS_call hsp⟩

/-! ## the text of a printed line: first and last character, no line feed -/

/-- a good first character of a line: not a blank, not `#` -/
def HeadGood (t : Chars) : Prop := ∃ c r, t = c :: r ∧ isSpace c = false ∧ c ≠ '#'
/-- a good last character of a line: not a blank (`'\r'` is one), not a backslash -/
def LastGood (t : Chars) : Prop := ∃ d, t.getLast? = some d ∧ isSpace d = false ∧ d ≠ '\\'

theorem HeadGood.append {a : Chars} (b : Chars) (h : HeadGood a) : HeadGood (a ++ b) := by
  obtain ⟨c, r, rfl, h1, h2⟩ := h; exact ⟨c, r ++ b, rfl, h1, h2⟩

theorem LastGood.append (a : Chars) {b : Chars} (h : LastGood b) : LastGood (a ++ b) := by
  obtain ⟨d, h0, h1, h2⟩ := h
  refine ⟨d, ?_, h1, h2⟩
  obtain ⟨b0, rfl⟩ := List.getLast?_eq_some_iff.mp h0
  rw [← List.append_assoc]; simp

theorem LastGood.cons (a : Char) {b : Chars} (h : LastGood b) : LastGood (a :: b) := LastGood.append [a] h

theorem headGood_ident {n : Chars} (h : isIdent n = true) : HeadGood n := by
  obtain ⟨c, r, rfl, hc, -⟩ := isIdent_cases h
  exact ⟨c, r, rfl, idStart_not_space hc, by rintro rfl; exact absurd hc (by decide)⟩

theorem lastGood_ident {n : Chars} (h : isIdent n = true) : LastGood n := by
  have hw := isIdent_word h
  obtain ⟨c, r, rfl, -, -⟩ := isIdent_cases h
  cases hl : (c :: r).getLast? with
  | none => simp at hl
  | some d =>
    have hd := hw d (List.mem_of_getLast? hl)
    exact ⟨d, hl, word_not_space hd, by rintro rfl; exact absurd hd (by decide)⟩

theorem noNl_ident {n : Chars} (h : isIdent n = true) : '\n' ∉ n := fun hm =>
  absurd (isIdent_word h _ hm) (by decide)

theorem noNl_moreArgs : ∀ (as : List Name), (∀ a ∈ as, isIdent (nameL a) = true) → '\n' ∉ moreArgsL as
  | [], _ => by simp [moreArgsL]
  | a :: as, h => by
      have h1 := noNl_ident (h a (by simp))
      have h2 := noNl_moreArgs as (fun x hx => h x (List.mem_cons_of_mem _ hx))
      simp [moreArgsL, h1, h2]

theorem noNl_args (as : List Name) (h : ∀ a ∈ as, isIdent (nameL a) = true) : '\n' ∉ argsL as := by
  cases as with
  | nil => simp [argsL]
  | cons a as =>
    have h1 := noNl_ident (h a (by simp))
    have h2 := noNl_moreArgs as (fun x hx => h x (List.mem_cons_of_mem _ hx))
    simp [argsL, h1, h2]

theorem noNl_escapeUrl : ∀ u : Chars, '\n' ∉ u → '\n' ∉ escapeUrl u
  | [], _ => by simp [escapeUrl]
  | c :: r, h => by
      have hc : '\n' ≠ c := by intro e; apply h; rw [e]; simp
      have ih := noNl_escapeUrl r (fun hm => h (List.mem_cons_of_mem _ hm))
      simp only [escapeUrl]
      split <;> simp [hc, ih]

theorem headGood_exprText {t : Chars} (h : ExprTextOK t = true) : HeadGood t := by
  obtain ⟨-, ⟨c, r, rfl, hs, -, -, hh⟩, -⟩ := exprTextOK_facts h; exact ⟨c, r, rfl, hs, hh⟩

theorem lastGood_exprText {t : Chars} (h : ExprTextOK t = true) : LastGood t := (exprTextOK_facts h).2.2

theorem noNl_append {a b : Chars} (ha : '\n' ∉ a) (hb : '\n' ∉ b) : '\n' ∉ a ++ b := by simp [ha, hb]
theorem noNl_cons {c : Char} {b : Chars} (hc : '\n' ≠ c) (hb : '\n' ∉ b) : '\n' ∉ c :: b := by simp [hc, hb]

/-- **shape of a printed line**: it starts with a character that is neither a blank nor `#`, ends with one that is
neither a blank nor a backslash, and contains no line feed -/
theorem printLineL_text (pe : Expr → Chars) (l : Line) (h : LineOK pe l = true) :
    HeadGood (printLineL pe l) ∧ LastGood (printLineL pe l) ∧ '\n' ∉ printLineL pe l := by
  have hn := lineOK_names h
  have he := lineOK_exprs h
  have hsp := lineOK_special h
  have colon : ∀ x : Chars, LastGood (x ++ [':']) := fun x => LastGood.append x ⟨':', rfl, by decide, by decide⟩
  cases l with
  | assign n e =>
    have hi := nameOK_ident (hn n (by simp [PrintScript.names]))
    have hx := he e (by simp [PrintScript.exprs])
    show HeadGood (nameL n ++ (' ' :: '=' :: ' ' :: pe e)) ∧ LastGood (nameL n ++ (' ' :: '=' :: ' ' :: pe e)) ∧
      '\n' ∉ nameL n ++ (' ' :: '=' :: ' ' :: pe e)
    refine ⟨(headGood_ident hi).append _, LastGood.append _ (LastGood.cons _ (LastGood.cons _ (LastGood.cons _ (lastGood_exprText hx)))), ?_⟩
    simp [noNl_ident hi, (exprTextOK_facts hx).1]
  | funcBegin n args laa a =>
    have hi := nameOK_ident (hn n (by simp [PrintScript.names]))
    have ha : ∀ x ∈ args, isIdent (nameL x) = true := fun x hx => nameOK_ident (hn x (by simp [PrintScript.names, hx]))
    refine ⟨?_, ?_, ?_⟩
    · cases a
      · exact ⟨'f', _, rfl, by decide, by decide⟩
      · exact ⟨'a', _, rfl, by decide, by decide⟩
    · show LastGood (asyncL a ++ ("function ".toList ++ (nameL n ++ ('(' :: (argsL args ++ (laaL laa ++ [')', ':']))))))
      exact LastGood.append _ (LastGood.append _ (LastGood.append _ (LastGood.cons _ (LastGood.append _
        (LastGood.append _ ⟨':', rfl, by decide, by decide⟩)))))
    · have h1 : '\n' ∉ asyncL a := by cases a <;> decide
      have h2 : '\n' ∉ laaL laa := by cases laa <;> decide
      show '\n' ∉ asyncL a ++ ("function ".toList ++ (nameL n ++ ('(' :: (argsL args ++ (laaL laa ++ [')', ':'])))))
      have h3 : '\n' ∉ "function ".toList := by decide
      simp [noNl_ident hi, noNl_args args ha, h1, h2, h3]
  | funcEnd => exact ⟨⟨'e', _, rfl, by decide, by decide⟩, ⟨'n', rfl, by decide, by decide⟩, by show '\n' ∉ String.toList _; decide⟩
  | ifBegin c =>
    have hx := he c (by simp [PrintScript.exprs])
    refine ⟨⟨'i', _, rfl, by decide, by decide⟩, ?_, ?_⟩
    · show LastGood ("if ".toList ++ (pe c ++ [':'])); exact LastGood.append _ (colon _)
    · show '\n' ∉ "if ".toList ++ (pe c ++ [':'])
      exact noNl_append (by decide) (noNl_append (exprTextOK_facts hx).1 (by decide))
  | elif c =>
    have hx := he c (by simp [PrintScript.exprs])
    refine ⟨⟨'e', _, rfl, by decide, by decide⟩, ?_, ?_⟩
    · show LastGood ("elif ".toList ++ (pe c ++ [':'])); exact LastGood.append _ (colon _)
    · show '\n' ∉ "elif ".toList ++ (pe c ++ [':'])
      exact noNl_append (by decide) (noNl_append (exprTextOK_facts hx).1 (by decide))
  | else_ => exact ⟨⟨'e', _, rfl, by decide, by decide⟩, ⟨':', rfl, by decide, by decide⟩, by show '\n' ∉ String.toList _; decide⟩
  | endif => exact ⟨⟨'e', _, rfl, by decide, by decide⟩, ⟨'f', rfl, by decide, by decide⟩, by show '\n' ∉ String.toList _; decide⟩
  | whileBegin c =>
    have hx := he c (by simp [PrintScript.exprs])
    refine ⟨⟨'w', _, rfl, by decide, by decide⟩, ?_, ?_⟩
    · show LastGood ("while ".toList ++ (pe c ++ [':'])); exact LastGood.append _ (colon _)
    · show '\n' ∉ "while ".toList ++ (pe c ++ [':'])
      exact noNl_append (by decide) (noNl_append (exprTextOK_facts hx).1 (by decide))
  | endwhile => exact ⟨⟨'e', _, rfl, by decide, by decide⟩, ⟨'e', rfl, by decide, by decide⟩, by show '\n' ∉ String.toList _; decide⟩
  | forBegin v i e =>
    have hi := nameOK_ident (hn v (by simp [PrintScript.names]))
    have hx := he e (by simp [PrintScript.exprs])
    refine ⟨⟨'f', _, rfl, by decide, by decide⟩, ?_, ?_⟩
    · show LastGood ("for ".toList ++ (nameL v ++ (ixL i ++ (" in ".toList ++ (pe e ++ [':'])))))
      exact LastGood.append _ (LastGood.append _ (LastGood.append _ (LastGood.append _ (colon _))))
    · have h1 : '\n' ∉ ixL i := by
        cases i with
        | none => simp [ixL]
        | some x =>
          have := noNl_ident (nameOK_ident (hn x (by simp [PrintScript.names])))
          simp [ixL, this]
      show '\n' ∉ "for ".toList ++ (nameL v ++ (ixL i ++ (" in ".toList ++ (pe e ++ [':']))))
      exact noNl_append (by decide) (noNl_append (noNl_ident hi) (noNl_append h1 (noNl_append (by decide)
        (noNl_append (exprTextOK_facts hx).1 (by decide)))))
  | endfor => exact ⟨⟨'e', _, rfl, by decide, by decide⟩, ⟨'r', rfl, by decide, by decide⟩, by show '\n' ∉ String.toList _; decide⟩
  | break_ => exact ⟨⟨'b', _, rfl, by decide, by decide⟩, ⟨'k', rfl, by decide, by decide⟩, by show '\n' ∉ String.toList _; decide⟩
  | continue_ => exact ⟨⟨'c', _, rfl, by decide, by decide⟩, ⟨'e', rfl, by decide, by decide⟩, by show '\n' ∉ String.toList _; decide⟩
  | label n =>
    have hi := nameOK_ident (hn n (by simp [PrintScript.names]))
    exact ⟨(headGood_ident hi).append _, colon _, noNl_append (noNl_ident hi) (by decide)⟩
  | jump n c =>
    have hi := nameOK_ident (hn n (by simp [PrintScript.names]))
    cases c with
    | none =>
      exact ⟨⟨'j', _, rfl, by decide, by decide⟩, LastGood.append _ (lastGood_ident hi),
        noNl_append (by decide) (noNl_ident hi)⟩
    | some c =>
      have hx := he c (by simp [PrintScript.exprs])
      refine ⟨⟨'j', _, rfl, by decide, by decide⟩, ?_, ?_⟩
      · exact LastGood.append _ (LastGood.append _ (LastGood.cons _ (LastGood.cons _ (lastGood_ident hi))))
      · show '\n' ∉ "jumpif (".toList ++ (pe c ++ (')' :: ' ' :: nameL n))
        exact noNl_append (by decide) (noNl_append (exprTextOK_facts hx).1 (noNl_cons (by decide) (noNl_cons (by decide)
          (noNl_ident hi))))
  | ret e =>
    cases e with
    | none => exact ⟨⟨'r', _, rfl, by decide, by decide⟩, ⟨'n', rfl, by decide, by decide⟩, by show '\n' ∉ String.toList _; decide⟩
    | some e =>
      have hx := he e (by simp [PrintScript.exprs])
      exact ⟨⟨'r', _, rfl, by decide, by decide⟩, LastGood.append _ (lastGood_exprText hx),
        noNl_append (by decide) (exprTextOK_facts hx).1⟩
  | «include» url sys =>
    have hu : ¬'\n' ∈ url.toList := by
      have h0 : (!url.toList.contains '\n' && (!sys || !url.toList.contains '>')) = true := hsp
      simp only [Bool.and_eq_true, Bool.not_eq_true', List.contains_eq_mem, decide_eq_false_iff_not] at h0
      exact h0.1
    cases sys with
    | false =>
      refine ⟨⟨'i', _, rfl, by decide, by decide⟩, ?_, ?_⟩
      · exact LastGood.append _ (LastGood.append _ ⟨'\'', rfl, by decide, by decide⟩)
      · exact noNl_append (by decide) (noNl_append (noNl_escapeUrl _ hu) (by decide))
    | true =>
      refine ⟨⟨'i', _, rfl, by decide, by decide⟩, ?_, ?_⟩
      · exact LastGood.append _ (LastGood.append _ ⟨'>', rfl, by decide, by decide⟩)
      · exact noNl_append (by decide) (noNl_append hu (by decide))
  | exprStmt e =>
    have hx := he e (by simp [PrintScript.exprs])
    exact ⟨headGood_exprText hx, lastGood_exprText hx, (exprTextOK_facts hx).1⟩

end C01
