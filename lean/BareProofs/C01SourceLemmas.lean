import BareModel.PrintScript
import BareProofs.C06Lemmas
import BareProofs.C10Lemmas
import BareProofs.C01Parse

/-!
# C01 from source text — helper lemmas

What `BareProofs/C01Source.lean` is assembled from:

* character facts and the identifier recogniser on a printed identifier (`ident?_append`);
* the recognisers of the regex cascade (`Scan`) on lines that start with *identifier, blank, non-blank*
  (`assign?_kw`, `label?_kw`) and on lines that start with *word characters, then a character that is neither a word
  character nor a blank* (labels `name:` and call statements `f(…)`: every keyword recogniser fails, section
  "no blank after the first word");
* success of each recogniser on its printed line;
* the text layer on `joinNl` (`splitLinesL_joinNl`).
-/

set_option linter.unusedSimpArgs false

namespace C01
open Text Scan PrintScript

/-! ## characters -/

theorem idStart_not_space {c : Char} (h : isIdStart c = true) : isSpace c = false := by
  cases hs : isSpace c with
  | false => rfl
  | true => have := C10.space_not_word hs; simp [C10.idStart_isWord h] at this

theorem word_not_space {c : Char} (h : isWord c = true) : isSpace c = false := by
  cases hs : isSpace c with
  | false => rfl
  | true => have := C10.space_not_word hs; simp [h] at this

theorem takeWhile_all {α} (p : α → Bool) : ∀ (l r : List α), (∀ x ∈ l, p x = true) → r.head?.all (fun x => !p x) = true →
    (l ++ r).takeWhile p = l ∧ (l ++ r).dropWhile p = r
  | [], [], _, _ => by simp
  | [], x :: r, _, h => by
      have : p x = false := by simpa using h
      simp [List.takeWhile, List.dropWhile, this]
  | a :: l, r, h, hr => by
      have ha : p a = true := h a (by simp)
      obtain ⟨h1, h2⟩ := takeWhile_all p l r (fun x hx => h x (List.mem_cons_of_mem _ hx)) hr
      simp [List.takeWhile, List.dropWhile, ha, h1, h2]

/-- an identifier: first character, the other characters -/
theorem isIdent_cases {n : Chars} (h : isIdent n = true) :
    ∃ c r, n = c :: r ∧ isIdStart c = true ∧ ∀ x ∈ r, isWord x = true := by
  cases n with
  | nil => simp [isIdent] at h
  | cons c r =>
    simp only [isIdent, Bool.and_eq_true, List.all_eq_true] at h
    exact ⟨c, r, rfl, h.1, h.2⟩

theorem isIdent_word {n : Chars} (h : isIdent n = true) : ∀ x ∈ n, isWord x = true := by
  obtain ⟨c, r, rfl, hc, hr⟩ := isIdent_cases h
  intro x hx
  rcases List.mem_cons.mp hx with rfl | hx
  · exact C10.idStart_isWord hc
  · exact hr x hx

/-- `[A-Za-z_]\w*` on a printed identifier followed by something that does not start with a word character -/
theorem ident?_append {n rest : Chars} (hn : isIdent n = true) (hr : rest.head?.all (fun x => !isWord x) = true) :
    ident? (n ++ rest) = some (n, rest) := by
  obtain ⟨c, r, rfl, hc, hw⟩ := isIdent_cases hn
  obtain ⟨h1, h2⟩ := takeWhile_all isWord r rest hw hr
  simp [ident?, hc, h1, h2]

theorem lstripL_cons_ns {c : Char} (r : Chars) (h : isSpace c = false) : lstripL (c :: r) = c :: r := by
  simp [lstripL, List.dropWhile, h]

theorem lstripL_sp (r : Chars) : lstripL (' ' :: r) = lstripL r := by
  simp [lstripL, List.dropWhile, show isSpace ' ' = true from by decide]

theorem ws1?_sp_ns {c : Char} (r : Chars) (h : isSpace c = false) : ws1? (' ' :: c :: r) = some (c :: r) := by
  simp [ws1?, show isSpace ' ' = true from by decide, lstripL_cons_ns r h]

theorem ws1?_ns {c : Char} (r : Chars) (h : isSpace c = false) : ws1? (c :: r) = none := by
  simp [ws1?, h]

/-- reading a printed identifier back -/
theorem nameOf_nameL {n : Name} (h : NameOK n = true) : nameOf (nameL n) = n := by
  simp only [NameOK, Bool.and_eq_true, decide_eq_true_eq] at h
  simp [nameOf, nameL, h.2]

theorem NameOK.ident {n : Name} (h : NameOK n = true) : isIdent (nameL n) = true := by
  simp only [NameOK, Bool.and_eq_true] at h; exact h.1

/-! ## lines of the form *identifier, blank, non-blank …* -/

/-- the assignment pattern needs `=` after the first word -/
theorem assign?_kw {k : Chars} {c : Char} (rest : Chars) (hk : isIdent k = true) (hs : isSpace c = false) (hc : c ≠ '=') :
    assign? (k ++ ' ' :: c :: rest) = none := by
  unfold assign?
  rw [ident?_append hk (by simp; decide)]
  simp only [lstripL_sp, lstripL_cons_ns rest hs]
  split
  · rename_i r3 h; simp only [List.cons.injEq] at h; exact absurd h.1 hc
  · rfl

/-- the label pattern needs `:` after the first word -/
theorem label?_kw {k : Chars} {c : Char} (rest : Chars) (hk : isIdent k = true) (hs : isSpace c = false) (hc : c ≠ ':') :
    label? (k ++ ' ' :: c :: rest) = none := by
  unfold label?
  rw [ident?_append hk (by simp; decide)]
  simp only [lstripL_sp, lstripL_cons_ns rest hs]
  split
  · rename_i r3 h; simp only [List.cons.injEq] at h; exact absurd h.1 hc
  · rfl

/-! ## `expr :` at the end of a block-opening line -/

theorem reverse_dropWhile_snoc_ns {c : Char} (l : Chars) (h : isSpace c = false) :
    (l ++ [c]).reverse.dropWhile isSpace = c :: l.reverse := by
  simp [List.dropWhile, h]

/-- `\s+(?P<expr>.+)\s*:\s*$` on ` E:` -/
theorem exprColon?_print {c : Char} (e : Chars) (hs : isSpace c = false) :
    exprColon? (' ' :: ((c :: e) ++ [':'])) = some (1, c :: e) := by
  unfold exprColon?
  have h1 : (' ' :: ((c :: e) ++ [':'])).reverse.dropWhile isSpace = ':' :: (' ' :: c :: e).reverse := by
    have := reverse_dropWhile_snoc_ns (' ' :: c :: e) (show isSpace ':' = false from by decide)
    simpa using this
  rw [h1]
  simp [List.takeWhile, List.dropWhile, show isSpace ' ' = true from by decide, hs]

/-! ## no blank after the first word: `w ++ c :: rest`, `w` word characters, `c` neither a word character nor a blank

(labels `name:` and call statements `f(…)`).  Every keyword pattern of the cascade needs, after its keyword, a blank
or the end of the line (or, for `else`, the colon; for `jumpif`, the parenthesis). -/

/-- starts with a non-blank -/
def NS (r : Chars) : Prop := ∃ x xs, r = x :: xs ∧ isSpace x = false

theorem prefix_word : ∀ (k w : Chars) (c : Char) (rest : Chars), (∀ x ∈ k, isWord x = true) → isWord c = false →
    k.isPrefixOf (w ++ c :: rest) = true → ∃ w', w = k ++ w'
  | [], w, _, _, _, _, _ => ⟨w, rfl⟩
  | a :: k, [], c, rest, hk, hc, h => by
      simp only [List.nil_append, List.isPrefixOf, Bool.and_eq_true, beq_iff_eq] at h
      have := hk a (by simp); rw [h.1, hc] at this; cases this
  | a :: k, b :: w, c, rest, hk, hc, h => by
      simp only [List.cons_append, List.isPrefixOf, Bool.and_eq_true, beq_iff_eq] at h
      obtain ⟨w', hw'⟩ := prefix_word k w c rest (fun x hx => hk x (List.mem_cons_of_mem _ hx)) hc h.2
      exact ⟨w', by rw [h.1, hw']; rfl⟩

/-- after a keyword (made of word characters) the line goes on with word characters, then `c` -/
theorem keyword?_wordc {kw : String} (hkw : ∀ x ∈ kw.toList, isWord x = true) {w : Chars} {c : Char} {rest r : Chars}
    (hw : ∀ x ∈ w, isWord x = true) (hc : isWord c = false)
    (h : keyword? kw (w ++ c :: rest) = some r) :
    ∃ w', w = kw.toList ++ w' ∧ r = w' ++ c :: rest ∧ ∀ x ∈ w', isWord x = true := by
  unfold keyword? at h
  split at h
  · rename_i hp
    obtain ⟨w', rfl⟩ := prefix_word _ w c rest hkw hc hp
    simp only [Option.some.injEq] at h
    refine ⟨w', rfl, ?_, fun x hx => hw x (by simp [hx])⟩
    rw [← h, ← String.length_toList, List.append_assoc, List.drop_left]
  · cases h

theorem NS_wordc {w : Chars} {c : Char} (rest : Chars) (hw : ∀ x ∈ w, isWord x = true) (hs : isSpace c = false) :
    NS (w ++ c :: rest) := by
  cases w with
  | nil => exact ⟨c, rest, rfl, hs⟩
  | cons a w => exact ⟨a, w ++ c :: rest, rfl, word_not_space (hw a (by simp))⟩

theorem NS.allSpace {r : Chars} (h : NS r) : allSpace r = false := by
  obtain ⟨x, xs, rfl, hx⟩ := h; simp [Text.allSpace, hx]

theorem NS.ws1? {r : Chars} (h : NS r) : ws1? r = none := by
  obtain ⟨x, xs, rfl, hx⟩ := h; exact ws1?_ns xs hx

theorem NS.lstrip {r : Chars} (h : NS r) : lstripL r = r := by
  obtain ⟨x, xs, rfl, hx⟩ := h; exact lstripL_cons_ns xs hx

theorem reverse_dropWhile_eq {α} (p : α → Bool) (l : List α) {a : α} {t : List α}
    (h : l.reverse.dropWhile p = a :: t) : ∃ ws, l = t.reverse ++ a :: ws := by
  have := List.takeWhile_append_dropWhile (p := p) (l := l.reverse)
  rw [h] at this
  refine ⟨(l.reverse.takeWhile p).reverse, ?_⟩
  have h2 := congrArg List.reverse this
  simp only [List.reverse_append, List.reverse_cons, List.reverse_reverse, List.append_assoc, List.singleton_append] at h2
  exact h2.symm

theorem NS.exprColon? {r : Chars} (h : NS r) : exprColon? r = none := by
  obtain ⟨x, xs, rfl, hx⟩ := h
  unfold Scan.exprColon?
  split
  · rename_i revBefore hd
    obtain ⟨ws, hws⟩ := reverse_dropWhile_eq isSpace (x :: xs) hd
    have hw : revBefore.reverse.takeWhile isSpace = [] := by
      cases hb : revBefore.reverse with
      | nil => rfl
      | cons y b =>
        rw [hb] at hws
        simp only [List.cons_append, List.cons.injEq] at hws
        simp [List.takeWhile, ← hws.1, hx]
    simp only [hw, List.getLast?_nil]
  · rfl

section wordc
variable {w : Chars} {c : Char} {rest : Chars} (hw : ∀ x ∈ w, isWord x = true) (hcw : isWord c = false)
  (hcs : isSpace c = false)
include hw hcw hcs

theorem kwOnly?_wordc {kw : String} (hkw : ∀ x ∈ kw.toList, isWord x = true) (sh : Shape) :
    kwOnly? kw sh (w ++ c :: rest) = none := by
  unfold kwOnly?
  cases h : keyword? kw (w ++ c :: rest) with
  | none => rfl
  | some r =>
    obtain ⟨w', _, rfl, hw'⟩ := keyword?_wordc hkw hw hcw h
    simp [(NS_wordc rest hw' hcs).allSpace]

theorem kwExprColon?_wordc {kw : String} (hkw : ∀ x ∈ kw.toList, isWord x = true) (mk : Nat → Chars → Shape) :
    kwExprColon? kw mk (w ++ c :: rest) = none := by
  unfold kwExprColon?
  cases h : keyword? kw (w ++ c :: rest) with
  | none => rfl
  | some r =>
    obtain ⟨w', _, rfl, hw'⟩ := keyword?_wordc hkw hw hcw h
    simp [(NS_wordc rest hw' hcs).exprColon?]

theorem for?_wordc : for? (w ++ c :: rest) = none := by
  unfold for?
  cases h : keyword? "for" (w ++ c :: rest) with
  | none => rfl
  | some r =>
    obtain ⟨w', _, rfl, hw'⟩ := keyword?_wordc (by decide) hw hcw h
    simp [(NS_wordc rest hw' hcs).ws1?]

theorem include?_wordc : include? (w ++ c :: rest) = none := by
  unfold include?
  cases h : keyword? "include" (w ++ c :: rest) with
  | none => rfl
  | some r =>
    obtain ⟨w', _, rfl, hw'⟩ := keyword?_wordc (by decide) hw hcw h
    simp [(NS_wordc rest hw' hcs).ws1?]

theorem return?_wordc : return? (w ++ c :: rest) = none := by
  unfold return?
  cases h : keyword? "return" (w ++ c :: rest) with
  | none => rfl
  | some r =>
    obtain ⟨w', _, rfl, hw'⟩ := keyword?_wordc (by decide) hw hcw h
    obtain ⟨x, xs, hr, hx⟩ := NS_wordc rest hw' hcs
    simp only [(NS_wordc rest hw' hcs).allSpace]
    rw [hr]
    simp [hx]

theorem funcBegin?_wordc : funcBegin? (w ++ c :: rest) = none := by
  unfold funcBegin?
  -- whatever the optional `async` does, what follows is again word characters then `c`
  have key : ∀ w1 : Chars, (∀ x ∈ w1, isWord x = true) →
      (match keyword? "function" (w1 ++ c :: rest) with
       | none => (none : Option Shape)
       | some r => match ws1? r with
         | none => none
         | some r => match ident? r with
           | none => none
           | some (name, r) => match lstripL r with
             | '(' :: r =>
               let r := lstripL r
               let (args, r) := match ident? r with
                 | some (a, r') => let (as, r'') := argsLoop r'.length r'; (a :: as, r'')
                 | none => ([], r)
               let (laa, r) := match keyword? "..." (lstripL r) with
                 | some r' => (true, r')
                 | none => (false, r)
               match lstripL r with
               | ')' :: r =>
                 match lstripL r with
                 | ':' :: r => if allSpace r then some (.funcBegin name args laa false) else none
                 | _ => none
               | _ => none
             | _ => none) = none := by
    intro w1 hw1
    cases h : keyword? "function" (w1 ++ c :: rest) with
    | none => rfl
    | some r =>
      obtain ⟨w', _, rfl, hw'⟩ := keyword?_wordc (by decide) hw1 hcw h
      simp [(NS_wordc rest hw' hcs).ws1?]
  cases h : keyword? "async" (w ++ c :: rest) with
  | none =>
    simp only
    cases h2 : keyword? "function" (w ++ c :: rest) with
    | none => rfl
    | some r =>
      obtain ⟨w', _, rfl, hw'⟩ := keyword?_wordc (by decide) hw hcw h2
      simp [(NS_wordc rest hw' hcs).ws1?]
  | some r =>
    obtain ⟨w', _, rfl, hw'⟩ := keyword?_wordc (by decide) hw hcw h
    simp only [(NS_wordc rest hw' hcs).lstrip]
    cases h2 : keyword? "function" (w' ++ c :: rest) with
    | none => rfl
    | some r =>
      obtain ⟨w'', _, rfl, hw''⟩ := keyword?_wordc (by decide) hw' hcw h2
      simp [(NS_wordc rest hw'' hcs).ws1?]

/-- `else:` is the only line of this form the `else` pattern matches -/
theorem else?_wordc (hel : c = ':' → w ≠ "else".toList) : else? (w ++ c :: rest) = none := by
  unfold else?
  cases h : keyword? "else" (w ++ c :: rest) with
  | none => rfl
  | some r =>
    obtain ⟨w', hw0, rfl, hw'⟩ := keyword?_wordc (by decide) hw hcw h
    simp only [(NS_wordc rest hw' hcs).lstrip]
    cases w' with
    | nil =>
      simp only [List.nil_append]
      split
      · rename_i r' he
        simp only [List.cons.injEq] at he
        exact absurd (by simpa using hw0) (hel he.1)
      · rfl
    | cons a w' =>
      simp only [List.cons_append]
      split
      · rename_i r' he
        simp only [List.cons.injEq] at he
        have := hw' a (by simp); rw [he.1] at this; exact absurd this (by decide)
      · rfl

/-- `jump name` needs a blank after `jump`; `jumpif (…) name` needs a name after the last parenthesis -/
theorem jump?_wordc (hj : c = '(' → rest.getLast? = some ')') : jump? (w ++ c :: rest) = none := by
  unfold jump?
  cases h : keyword? "jump" (w ++ c :: rest) with
  | none => rfl
  | some r =>
    obtain ⟨w', _, rfl, hw'⟩ := keyword?_wordc (by decide) hw hcw h
    have h1 : wsNameEnd? (w' ++ c :: rest) = none := by simp [wsNameEnd?, (NS_wordc rest hw' hcs).ws1?]
    simp only [h1]
    cases h2 : keyword? "if" (w' ++ c :: rest) with
    | none => rfl
    | some r =>
      obtain ⟨w'', _, rfl, hw''⟩ := keyword?_wordc (by decide) hw' hcw h2
      simp only [(NS_wordc rest hw'' hcs).lstrip]
      cases w'' with
      | cons a w'' =>
        simp only [List.cons_append]
        split
        · rename_i r2 he
          simp only [List.cons.injEq] at he
          have := hw'' a (by simp); rw [he.1] at this; exact absurd this (by decide)
        · rfl
      | nil =>
        simp only [List.nil_append]
        split
        · rename_i r2 he
          simp only [List.cons.injEq] at he
          obtain ⟨hc, rfl⟩ := he
          have hl := hj hc
          obtain ⟨r0, rfl⟩ := List.getLast?_eq_some_iff.mp hl
          have : splitLastParen (r0 ++ [')']) = some (r0, []) := by
            simp [splitLastParen, List.dropWhile, List.takeWhile]
          rw [this]
          simp [wsNameEnd?, ws1?]
        · rfl

omit hw in
theorem assign?_wordc (hi : isIdent w = true) (hc : c ≠ '=') : assign? (w ++ c :: rest) = none := by
  unfold assign?
  rw [ident?_append hi (by simp [hcw])]
  simp only [lstripL_cons_ns rest hcs]
  split
  · rename_i r3 h; simp only [List.cons.injEq] at h; exact absurd h.1 hc
  · rfl

omit hw in
theorem label?_wordc (hi : isIdent w = true) (hc : c ≠ ':') : label? (w ++ c :: rest) = none := by
  unfold label?
  rw [ident?_append hi (by simp [hcw])]
  simp only [lstripL_cons_ns rest hcs]
  split
  · rename_i r3 h; simp only [List.cons.injEq] at h; exact absurd h.1 hc
  · rfl

end wordc

end C01
