import BareModel.ErrorMsg

/-!
# C06 — the caret of a parser error message stands under the offending character

`BareScriptParserError.__init__` (parser.py:669-701) shows the error line — elided to a window of 120 characters with
`'... '` / `' ...'` markers when it is longer — and under it a row of `line_column - 1` blanks and a `^`.
`caret_under_same_char`: for every line and every column `1 ≤ column ≤ len + 1` the character of the *displayed* line
above the caret is the character `line[column - 1]` of the *original* line; for `column = len + 1` (error at the end of
the text) the caret stands just past the end of the displayed text.  All three elision cases, any line length.
-/

namespace C06
open ErrorMsg

theorem getElem?_prefix4 (l : List Char) (k : Nat) : (linePrefix ++ l)[4 + k]? = l[k]? := by
  have : linePrefix.length = 4 := by decide
  rw [List.getElem?_append_right (by omega)]
  congr 1; omega

/-- **The caret points at the same character.** -/
theorem caret_under_same_char (line : List Char) (column : Nat) (h1 : 1 ≤ column) (h2 : column ≤ line.length + 1) :
    1 ≤ (displayL line column).2 ∧
    (displayL line column).1[((displayL line column).2 - 1).toNat]? = line[column - 1]? := by
  unfold displayL
  have hp : linePrefix.length = 4 := by decide
  have hs : lineSuffix.length = 4 := by decide
  simp only [lineLengthMax, hp]
  by_cases hlen : line.length > 120
  · simp only [hlen, if_true]
    by_cases hleft : ((column : Int) - 1 - ((120 / 2 : Nat) : Int)) < 0
    · -- the error is in the first 60 characters: the head of the line is shown
      simp only [hleft, if_true]
      refine ⟨by omega, ?_⟩
      have e : ((column : Int) - 1).toNat = column - 1 := by omega
      have hk : column - 1 < 120 := by omega
      rw [e, List.getElem?_append_left (by simp; omega), List.getElem?_take_of_lt hk]
    · simp only [hleft, if_false]
      by_cases hright : ((column : Int) - 1 - ((120 / 2 : Nat) : Int)) + (120 : Nat) > (line.length : Int)
      · -- the error is in the last 60 characters (or at the end): the tail of the line is shown
        simp only [hright, if_true]
        refine ⟨by omega, ?_⟩
        have e : ((column : Int) - ((column : Int) - 1 - ((120 / 2 : Nat) : Int) - ((4 : Nat) : Int) -
            ((column : Int) - 1 - ((120 / 2 : Nat) : Int) + ((120 : Nat) : Int) - (line.length : Int))) - 1).toNat
            = 4 + (column - 1 - (line.length - 120)) := by omega
        have e3 : line.length - 120 + (column - 1 - (line.length - 120)) = column - 1 := by omega
        rw [e, getElem?_prefix4, List.getElem?_drop, e3]
      · -- in between: a window of 120 characters around the error
        simp only [hright, if_false]
        refine ⟨by omega, ?_⟩
        have e : ((column : Int) - ((column : Int) - 1 - ((120 / 2 : Nat) : Int) - ((4 : Nat) : Int)) - 1).toNat = 4 + 60 := by
          omega
        have e2 : ((column : Int) - 1 - ((120 / 2 : Nat) : Int)).toNat = column - 61 := by omega
        have hk : 60 < ((line.drop (column - 61)).take 120).length := by simp; omega
        have h60 : 60 < 120 := by omega
        rw [e, e2, List.append_assoc, getElem?_prefix4, List.getElem?_append_left hk, List.getElem?_take_of_lt h60,
          List.getElem?_drop]
        have e3 : column - 61 + 60 = column - 1 := by omega
        rw [e3]
  · simp only [hlen, if_false]
    refine ⟨by omega, ?_⟩
    congr 1; omega

/-- the caret row: `line_column - 1` blanks, then `^` — the caret is the character number `line_column` of its row -/
theorem caret_row (c : Int) (h : 1 ≤ c) : (caretLineL c)[(c - 1).toNat]? = some '^' ∧ (caretLineL c).length = c.toNat := by
  unfold caretLineL
  constructor
  · rw [List.getElem?_append_right (by simp)]; simp
  · simp; omega

/-- the caret never leaves the displayed text by more than one position -/
theorem caret_in_range (line : List Char) (column : Nat) (h1 : 1 ≤ column) (h2 : column ≤ line.length + 1) :
    1 ≤ (displayL line column).2 ∧ (displayL line column).2 ≤ (displayL line column).1.length + 1 := by
  unfold displayL
  have hp : linePrefix.length = 4 := by decide
  have hs : lineSuffix.length = 4 := by decide
  simp only [lineLengthMax, hp]
  by_cases hlen : line.length > 120
  · simp only [hlen, if_true]
    split
    · simp [hs]; omega
    · split
      · simp [hp]; omega
      · simp [hp, hs]; omega
  · simp only [hlen, if_false]; omega

/-- non-vacuity: a 300-character line, error in the middle / at the very end -/
example :
    let line := (List.range 300).map (fun i => Char.ofNat (48 + i % 75))
    (displayL line 150).1.length = 128 ∧ (displayL line 150).2 = 65 ∧ (displayL line 150).1[64]? = line[149]? ∧
    (displayL line 301).1.length = 124 ∧ (displayL line 301).2 = 125 ∧ (displayL line 301).1[124]? = none ∧
    (displayL line 7).1.length = 124 ∧ (displayL line 7).2 = 7 := by decide +kernel

end C06
