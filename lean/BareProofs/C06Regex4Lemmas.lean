import BareProofs.C06Regex3Lemmas

/-!
# C06Regex4Lemmas — `quoteEnd` = the scanner's reading of a quoted url; `re.sub` of the escape pattern; pieces for `function`
-/

namespace C06Regex
open Rx Text Scan RxPatterns

/-! ## equations of `quotesEscaped` / `unescapeQuote` on variable heads -/

theorem qe_quote (b : Chars) : quotesEscaped ('\'' :: b) = false := by simp [quotesEscaped]
theorem qe_bs_quote (b : Chars) : quotesEscaped ('\\' :: '\'' :: b) = quotesEscaped b := by simp [quotesEscaped]
theorem qe_bs_nil : quotesEscaped ['\\'] = true := by simp [quotesEscaped]
theorem qe_bs_other (d : Char) (b : Chars) (hd : ¬ d = '\'') : quotesEscaped ('\\' :: d :: b) = quotesEscaped (d :: b) := by
  rw [quotesEscaped.eq_def]
  have hne : ∀ r, '\\' :: d :: b = '\\' :: '\'' :: r → False := fun r h => hd (List.cons.inj (List.cons.inj h).2).1
  simp [hne, hd]
theorem qe_other (c : Char) (b : Chars) (hq : ¬ c = '\'') (hc : ¬ c = '\\') : quotesEscaped (c :: b) = quotesEscaped b := by
  rw [quotesEscaped.eq_def]
  simp [hq, hc]

theorem uq_bs_bs (r : Chars) : unescapeQuote ('\\' :: '\\' :: r) = '\\' :: unescapeQuote r := by simp [unescapeQuote]
theorem uq_bs_quote (r : Chars) : unescapeQuote ('\\' :: '\'' :: r) = '\'' :: unescapeQuote r := by simp [unescapeQuote]
theorem uq_bs_nil : unescapeQuote ['\\'] = ['\\'] := by simp [unescapeQuote]
theorem uq_bs_other (d : Char) (r : Chars) (h1 : ¬ d = '\\') (h2 : ¬ d = '\'') :
    unescapeQuote ('\\' :: d :: r) = '\\' :: unescapeQuote (d :: r) := by
  rw [unescapeQuote.eq_def]
  simp [h1, h2]
theorem uq_other (c : Char) (r : Chars) (hc : ¬ c = '\\') : unescapeQuote (c :: r) = c :: unescapeQuote r := by
  rw [unescapeQuote.eq_def]
  simp [hc]

/-! ## `quoteEnd` = "the closing quote is the last non-blank and every quote of the body is escaped" -/

theorem quoteEnd_allSpace : ∀ u : Chars, allSpace u = true → quoteEnd u = none
  | [], _ => by simp [quoteEnd]
  | c :: t, h => by
    simp only [allSpace, List.all_cons, Bool.and_eq_true] at h
    have hq : ¬ c = '\'' := fun e => by rw [e] at h; exact absurd h.1 (by decide)
    have hc : ¬ c = '\\' := fun e => by rw [e] at h; exact absurd h.1 (by decide)
    rw [quoteEnd_other c t hq hc, quoteEnd_allSpace t h.2]; rfl

theorem not_allSpace_quote (b tr : Chars) : allSpace (b ++ '\'' :: tr) = false := by
  simp [allSpace, show isSpace '\'' = false from by decide]

theorem quoteEnd_decomp (tr : Chars) (htr : allSpace tr = true) :
    ∀ body : Chars, quoteEnd (body ++ '\'' :: tr) = if quotesEscaped body then some body.length else none
  | [] => by simp [quoteEnd_quote, htr, quotesEscaped]
  | [c] => by
    by_cases hq : c = '\''
    · subst hq
      rw [List.cons_append, quoteEnd_quote, List.nil_append]
      simp [show allSpace ('\'' :: tr) = false from not_allSpace_quote [] tr, qe_quote]
    · by_cases hc : c = '\\'
      · subst hc
        rw [show ['\\'] ++ '\'' :: tr = '\\' :: '\'' :: tr from rfl, quoteEnd_bs_quote, quoteEnd_allSpace tr htr, quoteEnd_quote]
        simp [htr, qe_bs_nil]
      · rw [List.cons_append, quoteEnd_other c _ hq hc, List.nil_append, quoteEnd_quote, qe_other c [] hq hc]
        simp [htr, quotesEscaped]
  | c :: d :: b => by
    have ih1 := quoteEnd_decomp tr htr (d :: b)
    have ih2 := quoteEnd_decomp tr htr b
    by_cases hq : c = '\''
    · subst hq
      rw [List.cons_append, quoteEnd_quote]
      have : allSpace (d :: (b ++ '\'' :: tr)) = false := not_allSpace_quote (d :: b) tr
      simp [this, qe_quote]
    · by_cases hc : c = '\\'
      · subst hc
        by_cases hd : d = '\''
        · subst hd
          rw [show '\\' :: '\'' :: b ++ '\'' :: tr = '\\' :: '\'' :: (b ++ '\'' :: tr) from rfl, quoteEnd_bs_quote, ih2,
            quoteEnd_quote, not_allSpace_quote, qe_bs_quote]
          by_cases hb : quotesEscaped b = true <;> simp [hb]
        · rw [show '\\' :: d :: b ++ '\'' :: tr = '\\' :: d :: (b ++ '\'' :: tr) from rfl, quoteEnd_bs_other d _ hd,
            show d :: (b ++ '\'' :: tr) = (d :: b) ++ '\'' :: tr from rfl, ih1, qe_bs_other d b hd]
          by_cases hb : quotesEscaped (d :: b) = true <;> simp [hb]
      · rw [List.cons_append, quoteEnd_other c _ hq hc, ih1, qe_other c (d :: b) hq hc]
        by_cases hb : quotesEscaped (d :: b) = true <;> simp [hb]

theorem quoteEnd_sound : ∀ (u : Chars) (n : Nat), quoteEnd u = some n → ∃ tr, allSpace tr = true ∧ u = u.take n ++ '\'' :: tr
  | [], n, h => by simp [quoteEnd] at h
  | [c], n, h => by
    by_cases hq : c = '\''
    · subst hq
      rw [quoteEnd_quote] at h
      simp [allSpace] at h
      subst h; exact ⟨[], rfl, rfl⟩
    · by_cases hc : c = '\\'
      · subst hc; rw [quoteEnd_bs_nil] at h; cases h
      · rw [quoteEnd_other c _ hq hc] at h; simp [quoteEnd] at h
  | c :: d :: t, n, h => by
    by_cases hq : c = '\''
    · subst hq
      rw [quoteEnd_quote] at h
      split at h
      · rename_i ha; cases h; exact ⟨d :: t, ha, rfl⟩
      · cases h
    · by_cases hc : c = '\\'
      · subst hc
        by_cases hd : d = '\''
        · subst hd
          rw [quoteEnd_bs_quote] at h
          cases ha : quoteEnd t with
          | some a =>
            rw [ha] at h
            simp at h
            subst h
            obtain ⟨tr, h1, h2⟩ := quoteEnd_sound t a ha
            refine ⟨tr, h1, ?_⟩
            simp only [List.take_succ_cons, List.cons_append, List.cons.injEq, true_and]
            exact h2
          | none =>
            rw [ha, quoteEnd_quote] at h
            by_cases hs : allSpace t = true
            · simp [hs] at h
              subst h
              exact ⟨t, hs, rfl⟩
            · simp [hs] at h
        · rw [quoteEnd_bs_other d t hd] at h
          cases ha : quoteEnd (d :: t) with
          | none => rw [ha] at h; cases h
          | some a =>
            rw [ha] at h
            simp at h
            subst h
            obtain ⟨tr, h1, h2⟩ := quoteEnd_sound (d :: t) a ha
            refine ⟨tr, h1, ?_⟩
            rw [List.take_succ_cons, List.cons_append]
            exact congrArg _ h2
      · rw [quoteEnd_other c _ hq hc] at h
        cases ha : quoteEnd (d :: t) with
        | none => rw [ha] at h; cases h
        | some a =>
          rw [ha] at h
          simp at h
          subst h
          obtain ⟨tr, h1, h2⟩ := quoteEnd_sound (d :: t) a ha
          refine ⟨tr, h1, ?_⟩
          rw [List.take_succ_cons, List.cons_append]
          exact congrArg _ h2

theorem rev_dropWhile_of_decomp_q (a t : Chars) (ht : allSpace t = true) :
    (a ++ '\'' :: t).reverse.dropWhile isSpace = '\'' :: a.reverse := by
  rw [show a ++ '\'' :: t = (a ++ ['\'']) ++ t from by simp, C10.rev_dropWhile_append_ws _ _ ht]
  simp [List.dropWhile, show isSpace '\'' = false from by decide]

theorem decomp_of_rev_q {r rb : Chars} (h : r.reverse.dropWhile isSpace = '\'' :: rb) :
    ∃ t, allSpace t = true ∧ r = rb.reverse ++ '\'' :: t := by
  refine ⟨(r.reverse.takeWhile isSpace).reverse, ?_, ?_⟩
  · simp only [allSpace, List.all_reverse]; exact all_takeWhile _ _
  · have h1 := List.takeWhile_append_dropWhile (p := isSpace) (l := r.reverse)
    rw [h] at h1
    have h2 := congrArg List.reverse h1
    simp only [List.reverse_append, List.reverse_cons, List.reverse_reverse, List.append_assoc, List.singleton_append] at h2
    exact h2.symm

/-- no closing quote as last non-blank: the star cannot succeed -/
theorem quoteEnd_none_of_rev {t : Chars} (h : ∀ br, t.reverse.dropWhile isSpace ≠ '\'' :: br) : quoteEnd t = none := by
  cases hq : quoteEnd t with
  | none => rfl
  | some n =>
    exfalso
    obtain ⟨tr, h1, h2⟩ := quoteEnd_sound t n hq
    exact h _ (by rw [h2]; exact rev_dropWhile_of_decomp_q _ _ h1)

/-! ## `_R_EXPR_STRING_ESCAPE.sub('\\1', url)` = `Scan.unescapeQuote` -/

theorem esc_cls_test (x : Char) : (Atom.cls false [.ch true '\\', .ch true '\'']).test x = (x == '\\' || x == '\'') := by
  simp only [Atom.test, Item.test, List.any_cons, List.any_nil, Bool.or_false]
  cases (x == '\\' || x == '\'') <;> rfl

theorem esc_match (c : Char) (t : Chars) :
    matchFrom exprStringEscape 0 (c :: t) =
      if c = '\\' then
        match t with
        | x :: t' => if x = '\\' ∨ x = '\'' then some ⟨2, t', [(1, 1, 2)]⟩ else none
        | [] => none
      else none := by
  unfold matchFrom exprStringEscape elit
  rw [seq_m, one_m', step_lit]
  by_cases hc : c = '\\'
  · simp only [hc, if_true, cap_m, one_m']
    unfold step
    cases t with
    | nil => rfl
    | cons x t' =>
      simp only [esc_cls_test]
      by_cases h1 : x = '\\'
      · simp [h1]
      · by_cases h2 : x = '\''
        · simp [h2]
        · simp [h1, h2]
  · simp [hc]

theorem sub1Aux_esc : ∀ (fuel : Nat) (s : Chars), s.length ≤ fuel → sub1Aux exprStringEscape fuel s = unescapeQuote s
  | 0, s, h => by
    have : s = [] := List.length_eq_zero_iff.mp (by omega)
    subst this; simp [sub1Aux, unescapeQuote]
  | n + 1, [], _ => by simp [sub1Aux, unescapeQuote]
  | n + 1, c :: t, h => by
    have iht := sub1Aux_esc n t (by simpa using h)
    rw [sub1Aux, esc_match]
    by_cases hc : c = '\\'
    · subst hc
      simp only [if_true]
      cases t with
      | nil => simp [sub1Aux, uq_bs_nil, iht, unescapeQuote]
      | cons x t' =>
        have iht' := sub1Aux_esc n t' (by simp at h; omega)
        by_cases h1 : x = '\\'
        · subst h1
          simp [St.group, St.span, List.lookup, slice, iht', uq_bs_bs]
        · by_cases h2 : x = '\''
          · subst h2
            simp [St.group, St.span, List.lookup, slice, iht', uq_bs_quote]
          · simp [h1, h2, iht, uq_bs_other x t' h1 h2]
    · simp [hc, iht, uq_other c t hc]

theorem sub1_esc (s : Chars) : sub1 exprStringEscape s = unescapeQuote s := sub1Aux_esc _ s (Nat.le_refl _)

/-! ## the quoted url -/

theorem star_m (a : Rx) (st : St) (k : K) : (Rx.star a).m st k = loop a.m st.rest.length st k := by simp [Rx.m]

/-- `(?P<url>(?:\\'|[^'])*)'\s*$` -/
theorem quoted_tail (q : Nat) (t : Chars) (caps : List (Nat × Nat × Nat)) (h : '\n' ∉ t) :
    (Rx.cap 2 (some "url") (.star quoteB) ⬝ elit '\'' ⬝ ws ⬝ Rx.eol).m ⟨q, t, caps⟩ some =
      (quoteEnd t).map (fun n => ⟨q + t.length, [], (2, q, q + n) :: caps⟩) := by
  rw [seq_m, cap_m, star_m]
  exact quote_loop q _ q t caps (Nat.le_refl _) h

theorem ws1?_drop {r r' : Chars} (h : ws1? r = some r') : r.drop (nameOff r) = r' := by
  cases r with
  | nil => simp [ws1?] at h
  | cons c r0 =>
    by_cases hc : isSpace c = true
    · simp only [ws1?, hc, if_true, Option.some.injEq] at h
      simp only [nameOff, List.tail_cons, Nat.add_comm 1, List.drop_succ_cons, drop_length_takeWhile]
      exact h
    · simp [ws1?, hc] at h

/-! ## `function`: the starred `(?:\s*,\s*ident)*` = `Scan.argsLoop` -/

theorem rejects_ident0 (p : Char → Bool) (hp : ∀ x, p x = true → isIdStart x = false) (k : K) :
    RejectsHead p (fun st => ident.m st k) := by
  intro st ⟨c, r, hr, hc⟩
  simp only [seq_m, ident, one_m', step, hr, idStart_test, hp c hc]
  simp

/-- `(?:\s*,\s*[A-Za-z_]\w*)` -/
def argIter : Rx := .ncg (ws ⬝ lit ',' ⬝ ws ⬝ ident)

theorem argIter_m (st : St) (K'' : K) (hw : RejectsHead isWord K'') :
    argIter.m st K'' = match lstripL st.rest with
      | x :: r1 =>
        if x = ',' then
          match ident? (lstripL r1) with
          | some (a, r2) =>
            K'' ⟨st.pos + (st.rest.takeWhile isSpace).length + 1 + (r1.takeWhile isSpace).length + a.length, r2, st.caps⟩
          | none => none
        else none
      | [] => none := by
  unfold argIter
  rw [ncg_m]
  unfold lit
  rw [ws_lit_det false ',' (by decide)]
  cases lstripL st.rest with
  | nil => rfl
  | cons x r1 =>
    by_cases hx : x = ','
    · simp only [hx, if_true]
      rw [seq_m]
      simp only [ws, sp]
      rw [star_atom_det _ _ _ (by simpa [space_test] using rejects_ident0 isSpace (fun x => space_not_idStart) K''),
        ident_det _ _ hw]
      simp only [skip, space_test, lstripL]
      rfl
    · simp [hx]

theorem argsLoop_suffix : ∀ (n : Nat) (r : Chars), ∃ pre, r = pre ++ (argsLoop n r).2
  | 0, r => ⟨[], rfl⟩
  | n + 1, r => by
    rw [argsLoop]
    split
    · rename_i r1 h1
      split
      · rename_i a r2 h2
        obtain ⟨pre, e⟩ := argsLoop_suffix n r2
        have e1 := (List.takeWhile_append_dropWhile (p := isSpace) (l := r)).symm
        rw [show r.dropWhile isSpace = ',' :: r1 from h1] at e1
        have e2 := (List.takeWhile_append_dropWhile (p := isSpace) (l := r1)).symm
        rw [show r1.dropWhile isSpace = a ++ r2 from ident?_eq_append h2] at e2
        have key : r = r.takeWhile isSpace ++ ',' :: (r1.takeWhile isSpace ++ (a ++ (pre ++ (argsLoop n r2).2))) := by
          rw [← e, ← e2, ← e1]
        refine ⟨r.takeWhile isSpace ++ ',' :: (r1.takeWhile isSpace ++ a ++ pre), ?_⟩
        show r = _ ++ (argsLoop n r2).2
        exact key.trans (by simp [List.append_assoc])
      · exact ⟨[], rfl⟩
    · exact ⟨[], rfl⟩

theorem argsLoop_zero (r : Chars) : argsLoop 0 r = ([], r) := rfl

theorem argsLoop_succ_some (n : Nat) (r r1 a r2 : Chars) (h1 : lstripL r = ',' :: r1) (h2 : ident? (lstripL r1) = some (a, r2)) :
    argsLoop (n + 1) r = (a :: (argsLoop n r2).1, (argsLoop n r2).2) := by
  simp [argsLoop, h1, h2]

theorem argsLoop_succ_noident (n : Nat) (r r1 : Chars) (h1 : lstripL r = ',' :: r1) (h2 : ident? (lstripL r1) = none) :
    argsLoop (n + 1) r = ([], r) := by
  simp [argsLoop, h1, h2]

theorem argsLoop_succ_nocomma (n : Nat) (r : Chars) (h1 : ∀ r1, lstripL r ≠ ',' :: r1) : argsLoop (n + 1) r = ([], r) := by
  rw [argsLoop]
  split
  · rename_i r1 heq; exact absurd heq (h1 r1)
  · rfl

theorem loop_rejects_word (ma : St → K → Option St) (k : K) (hk : RejectsHead isWord k)
    (hma : ∀ K' : K, RejectsHead isWord (fun st => ma st K')) : ∀ n, RejectsHead isWord (fun st => loop ma n st k)
  | 0 => by intro st h; simpa [loop] using hk st h
  | n + 1 => by
    intro st h
    show loop ma (n + 1) st k = none
    have a : ma st (fun st' => if st'.rest.length < st.rest.length then loop ma n st' k else none) = none := hma _ st h
    have b : k st = none := hk st h
    rw [loop, a, b]; rfl

theorem argIter_rejects_word (K' : K) : RejectsHead isWord (fun st => argIter.m st K') := by
  intro st ⟨c, r, hr, hc⟩
  show argIter.m st K' = none
  unfold argIter
  rw [ncg_m]
  exact rejects_ws_lit isWord false ',' (fun x hx => ⟨word_not_space hx, fun e => by rw [e] at hx; exact absurd hx (by decide)⟩) _ K' st
    ⟨c, r, hr, hc⟩

/-- **the starred argument group = `Scan.argsLoop`** (for a continuation that can start neither with a word character nor,
after blanks, with a comma) -/
theorem args_loop (k : K) (hw : RejectsHead isWord k) (hcomma : ∀ st : St, (∃ r1, lstripL st.rest = ',' :: r1) → k st = none) :
    ∀ (n : Nat) (st : St), st.rest.length ≤ n →
      loop argIter.m n st k = k ⟨st.pos + st.rest.length - (argsLoop n st.rest).2.length, (argsLoop n st.rest).2, st.caps⟩
  | 0, st, h => by
    have : st.rest = [] := List.length_eq_zero_iff.mp (by omega)
    simp [loop, argsLoop_zero, this]
    rw [show (⟨st.pos, [], st.caps⟩ : St) = st from by rw [← this]]
  | n + 1, st, h => by
    have hst : (⟨st.pos + st.rest.length - st.rest.length, st.rest, st.caps⟩ : St) = st := by
      cases st; simp
    rw [loop, argIter_m]
    · have hl := lstrip_split_length st.rest
      cases hls : lstripL st.rest with
      | nil =>
        rw [argsLoop_succ_nocomma n st.rest (fun r1 e => by rw [hls] at e; cases e)]
        simp [hst]
      | cons x r1 =>
        by_cases hx : x = ','
        · subst hx
          simp only [if_true]
          rw [hcomma st ⟨r1, hls⟩]
          cases hi : ident? (lstripL r1) with
          | none =>
            rw [argsLoop_succ_noident n st.rest r1 hls hi]
            simp only []
            rw [hst, hcomma st ⟨r1, hls⟩]; rfl
          | some ar =>
            obtain ⟨a, r2⟩ := ar
            have hl1 := lstrip_split_length r1
            have hl2 := congrArg List.length (ident?_eq_append hi)
            rw [hls] at hl
            simp only [List.length_append, List.length_cons] at hl hl2
            have hshort : r2.length < st.rest.length := by omega
            rw [argsLoop_succ_some n st.rest r1 a r2 hls hi]
            simp only [hshort, if_true]
            rw [args_loop k hw hcomma n _ (by simp only []; omega)]
            simp only [orElse_none']
            have hsuf : (argsLoop n r2).2.length ≤ r2.length := by
              obtain ⟨pre, e⟩ := argsLoop_suffix n r2
              have := congrArg List.length e
              simp only [List.length_append] at this; omega
            congr 1
            simp only [St.mk.injEq, and_true]
            omega
        · rw [argsLoop_succ_nocomma n st.rest (fun r1' e => by rw [hls] at e; exact hx (List.cons.inj e).1)]
          simp [hx, hst]
    · intro st' hst'
      by_cases hs : st'.rest.length < st.rest.length
      · simp only [hs, if_true]; exact loop_rejects_word _ k hw argIter_rejects_word n st' hst'
      · simp [hs]

theorem none_orElse_st (x : Option St) : (none <|> x) = x := by simp

/-! ## `function`: the closing part `(?P<lastArgArray>\s*\.\.\.)?\s*\)\s*:\s*$` -/

/-- `\s*\)\s*:\s*$` accepts the rest of the line -/
def closeOK (rest : Chars) : Bool :=
  match lstripL rest with
  | x :: r9 => x == ')' && (match lstripL r9 with
    | y :: r10 => y == ':' && allSpace r10
    | [] => false)
  | [] => false

theorem lstripL_idem (r : Chars) : lstripL (lstripL r) = lstripL r := by
  cases h : lstripL r with
  | nil => rfl
  | cons x e => rw [← h]; simp only [lstripL]; rw [show List.dropWhile isSpace r = x :: e from h]; simp [List.dropWhile_cons, head_lstrip_ns h]

theorem closeOK_lstrip (r : Chars) : closeOK (lstripL r) = closeOK r := by
  unfold closeOK; rw [lstripL_idem]

theorem T_close (p : Nat) (rest : Chars) (caps : List (Nat × Nat × Nat)) (h : '\n' ∉ rest) :
    (ws ⬝ elit ')' ⬝ ws ⬝ lit ':' ⬝ ws ⬝ Rx.eol).m ⟨p, rest, caps⟩ some =
      if closeOK rest then some ⟨p + rest.length, [], caps⟩ else none := by
  unfold elit
  rw [ws_lit_det true ')' (by decide)]
  unfold closeOK
  have hl := lstrip_split_length rest
  cases hls : lstripL rest with
  | nil => rfl
  | cons x r9 =>
    rw [hls] at hl
    simp only [List.length_cons] at hl
    by_cases hx : x = ')'
    · subst hx
      have h9 : '\n' ∉ r9 := noNL_lstrip_tail h hls
      simp only [if_true, beq_self_eq_true, Bool.true_and]
      rw [colon_tail _ _ (by exact h9)]
      simp only []
      cases hl9 : lstripL r9 with
      | nil => rfl
      | cons y r10 =>
        by_cases hy : y = ':'
        · subst hy
          simp only [beq_self_eq_true, Bool.true_and]
          by_cases ha : allSpace r10 = true
          · simp only [ha, if_true, Option.some.injEq, St.mk.injEq, and_true]; omega
          · simp [ha]
        · have hne : ∀ r, y :: r10 = ':' :: r → False := fun r e => hy (List.cons.inj e).1
          simp [hne, hy]
    · simp [hx]

theorem dots_m (st : St) (k : K) :
    (elit '.' ⬝ elit '.' ⬝ elit '.').m st k = match keyword? "..." st.rest with
      | some r8 => k ⟨st.pos + 3, r8, st.caps⟩
      | none => none := by
  unfold elit
  simp only [seq_m, one_m', step_lit, keyword?, show "...".toList = ['.', '.', '.'] from rfl, show "...".length = 3 from rfl]
  cases h0 : st.rest with
  | nil => simp
  | cons a r1 =>
    by_cases ha : a = '.'
    · subst ha
      cases r1 with
      | nil => simp [List.isPrefixOf]
      | cons b r2 =>
        by_cases hb : b = '.'
        · subst hb
          cases r2 with
          | nil => simp [List.isPrefixOf]
          | cons c r3 =>
            by_cases hc : c = '.'
            · subst hc; simp [List.isPrefixOf]
            · have : ¬ '.' = c := fun e => hc e.symm
              simp [List.isPrefixOf, hc, this]
        · have : ¬ '.' = b := fun e => hb e.symm
          simp [List.isPrefixOf, hb, this]
    · have : ¬ '.' = a := fun e => ha e.symm
      simp [List.isPrefixOf, ha, this]

theorem closeOK_false_of_head {rest : Chars} {x : Char} {e : Chars} (h : lstripL rest = x :: e) (hx : ¬ x = ')') :
    closeOK rest = false := by
  unfold closeOK; rw [h]; simp [hx]

/-- `(?P<lastArgArray>\s*\.\.\.)?\s*\)\s*:\s*$` -/
theorem K5_eval (p : Nat) (rest : Chars) (caps : List (Nat × Nat × Nat)) (h : '\n' ∉ rest) :
    (Rx.opt (.cap 4 (some "lastArgArray") (ws ⬝ elit '.' ⬝ elit '.' ⬝ elit '.')) ⬝ ws ⬝ elit ')' ⬝ ws ⬝ lit ':' ⬝ ws ⬝ Rx.eol).m
        ⟨p, rest, caps⟩ some =
      match keyword? "..." (lstripL rest) with
      | some r8 =>
        if closeOK r8 then some ⟨p + rest.length, [], (4, p, p + (rest.length - r8.length)) :: caps⟩ else none
      | none => if closeOK rest then some ⟨p + rest.length, [], caps⟩ else none := by
  rw [seq_m, opt_m, cap_m, seq_m]
  simp only [ws, sp]
  rw [star_atom_det]
  · simp only [skip, space_test]
    rw [dots_m]
    simp only []
    have hl := lstrip_split_length rest
    cases hk : keyword? "..." (lstripL rest) with
    | none =>
      simp only [show List.dropWhile isSpace rest = lstripL rest from rfl, hk]
      rw [none_orElse_st]
      exact T_close p rest caps h
    | some r8 =>
      have hk8 := keyword?_length hk
      have h8 : '\n' ∉ r8 := noNL_keyword' (not_mem_dropWhile h) hk
      simp only [show List.dropWhile isSpace rest = lstripL rest from rfl, hk]
      have hT := T_close (p + (rest.takeWhile isSpace).length + 3) r8
        ((4, p, p + (rest.takeWhile isSpace).length + 3) :: caps) h8
      simp only [ws, sp] at hT
      have hT2 := T_close p rest caps h
      simp only [ws, sp] at hT2
      rw [hT, hT2]
      have hcf : closeOK rest = false := by
        obtain ⟨pre, e⟩ := keyword?_suffix hk
        have : (lstripL rest).isEmpty = false ∨ True := Or.inr trivial
        cases hls : lstripL rest with
        | nil => rw [hls] at hk; simp [keyword?, show "...".toList = ['.', '.', '.'] from rfl, List.isPrefixOf] at hk
        | cons x e' =>
          apply closeOK_false_of_head hls
          intro hx; subst hx
          rw [hls] at hk
          simp [keyword?, show "...".toList = ['.', '.', '.'] from rfl, List.isPrefixOf] at hk
      rw [show "...".length = 3 from rfl] at hk8
      by_cases hc : closeOK r8 = true
      · simp only [hc, if_true, hcf, Bool.false_eq_true, if_false, orElse_none', Option.some.injEq, St.mk.injEq, true_and,
          List.cons.injEq, Prod.mk.injEq, and_true]
        omega
      · simp [hc, hcf]
  · intro st' ⟨x, r, hr, hx⟩
    rw [space_test] at hx
    have : ¬ x = '.' := fun e => by rw [e] at hx; exact absurd hx (by decide)
    simp [seq_m, elit, one_m', step_lit, hr, this]

/-! ## `function`: the argument group -/

/-- `(?P<lastArgArray>\s*\.\.\.)?\s*\)\s*:\s*$` -/
def K5rx : Rx :=
  Rx.opt (.cap 4 (some "lastArgArray") (ws ⬝ elit '.' ⬝ elit '.' ⬝ elit '.')) ⬝ ws ⬝ elit ')' ⬝ ws ⬝ lit ':' ⬝ ws ⬝ Rx.eol

theorem K5_none_of_head (st : St) (x : Char) (e : Chars) (h : lstripL st.rest = x :: e) (h1 : ¬ x = '.') (h2 : ¬ x = ')') :
    K5rx.m st some = none := by
  unfold K5rx elit
  rw [seq_m, opt_m, cap_m, ws_lit_det true '.' (by decide), ws_lit_det true ')' (by decide), h]
  simp [h1, h2]

theorem K5_rejects_word (f : St → List (Nat × Nat × Nat)) :
    RejectsHead isWord (fun st => K5rx.m ⟨st.pos, st.rest, f st⟩ some) := by
  intro st ⟨c, r, hr, hc⟩
  exact K5_none_of_head _ c r (by simp [hr, lstripL, List.dropWhile_cons, word_not_space hc])
    (fun e => by rw [e] at hc; exact absurd hc (by decide)) (fun e => by rw [e] at hc; exact absurd hc (by decide))

theorem K5_comma (f : St → List (Nat × Nat × Nat)) (st : St) (h : ∃ r1, lstripL st.rest = ',' :: r1) :
    K5rx.m ⟨st.pos, st.rest, f st⟩ some = none := by
  obtain ⟨r1, h⟩ := h
  exact K5_none_of_head _ ',' r1 h (by decide) (by decide)

/-- `(?P<args>ident(?:\s*,\s*ident)*)?` in front of the closing part -/
theorem K4_eval (p : Nat) (r5 : Chars) (caps : List (Nat × Nat × Nat)) :
    (Rx.opt (.cap 3 (some "args") (ident ⬝ .star argIter)) ⬝ K5rx).m ⟨p, r5, caps⟩ some =
      match ident? r5 with
      | some (_, r6) =>
        K5rx.m ⟨p + r5.length - (argsLoop r6.length r6).2.length, (argsLoop r6.length r6).2,
          (3, p, p + r5.length - (argsLoop r6.length r6).2.length) :: caps⟩ some
      | none => K5rx.m ⟨p, r5, caps⟩ some := by
  rw [seq_m, opt_m, cap_m, seq_m, ident_det]
  · cases hi : ident? r5 with
    | none => simp
    | some ar =>
      obtain ⟨a, r6⟩ := ar
      have hsp := ident?_eq_append hi
      have hl := congrArg List.length hsp
      simp only [List.length_append] at hl
      simp only []
      rw [star_m]
      have hal := args_loop (fun st' => K5rx.m ⟨st'.pos, st'.rest, (3, p, st'.pos) :: st'.caps⟩ some)
        (K5_rejects_word (fun st' => (3, p, st'.pos) :: st'.caps))
        (fun st h => K5_comma (fun st' => (3, p, st'.pos) :: st'.caps) st h) r6.length ⟨p + a.length, r6, caps⟩ (Nat.le_refl _)
      simp only [] at hal ⊢
      rw [hal]
      have hsuf : (argsLoop r6.length r6).2.length ≤ r6.length := by
        obtain ⟨pre, e⟩ := argsLoop_suffix r6.length r6
        have := congrArg List.length e
        simp only [List.length_append] at this; omega
      have hnone : K5rx.m ⟨p, r5, caps⟩ some = none := by
        cases r5 with
        | nil => simp [ident?] at hi
        | cons c cs =>
          have hc : isIdStart c = true := by
            by_cases hc : isIdStart c = true
            · exact hc
            · simp [ident?, hc] at hi
          have hw := C10.idStart_isWord hc
          exact K5_none_of_head _ c cs (by simp [lstripL, List.dropWhile_cons, word_not_space hw])
            (fun e => by rw [e] at hw; exact absurd hw (by decide)) (fun e => by rw [e] at hw; exact absurd hw (by decide))
      rw [hnone, orElse_none']
      rw [show p + a.length + r6.length - (argsLoop r6.length r6).2.length = p + r5.length - (argsLoop r6.length r6).2.length
        from by omega]
  · intro st' hst'
    show (Rx.star argIter).m st' _ = none
    rw [star_m]
    exact loop_rejects_word _ _ (K5_rejects_word _) argIter_rejects_word _ st' hst'

theorem K5_none_transfer (p p' : Nat) (r r' : Chars) (c c' : List (Nat × Nat × Nat)) (h : '\n' ∉ r) (h' : '\n' ∉ r')
    (hl : lstripL r' = lstripL r) (hn : K5rx.m ⟨p, r, c⟩ some = none) : K5rx.m ⟨p', r', c'⟩ some = none := by
  unfold K5rx at hn ⊢
  rw [K5_eval _ _ _ h] at hn
  rw [K5_eval _ _ _ h', hl]
  have hc : closeOK r' = closeOK r := by rw [← closeOK_lstrip r', hl, closeOK_lstrip]
  cases hk : keyword? "..." (lstripL r) with
  | none =>
    rw [hk] at hn
    simp only [] at hn ⊢
    rw [hc]
    by_cases hcr : closeOK r = true
    · simp [hcr] at hn
    · simp [hcr]
  | some r8 =>
    rw [hk] at hn
    simp only [] at hn ⊢
    by_cases hc8 : closeOK r8 = true
    · simp [hc8] at hn
    · simp [hc8]

/-- `\(\s*` then the argument group: the blanks are skipped (giving some back never helps) -/
theorem ws_K4 (p4 : Nat) (r4 : Chars) (caps : List (Nat × Nat × Nat)) (h : '\n' ∉ r4) :
    (ws ⬝ Rx.opt (.cap 3 (some "args") (ident ⬝ .star argIter)) ⬝ K5rx).m ⟨p4, r4, caps⟩ some =
      (Rx.opt (.cap 3 (some "args") (ident ⬝ .star argIter)) ⬝ K5rx).m ⟨p4 + (r4.takeWhile isSpace).length, lstripL r4, caps⟩ some := by
  rw [seq_m]
  simp only [ws, sp]
  rw [star_atom_backoff, space_test]
  have hfull : adv ⟨p4, r4, caps⟩ (r4.takeWhile isSpace).length = ⟨p4 + (r4.takeWhile isSpace).length, lstripL r4, caps⟩ := by
    simp [adv, drop_length_takeWhile, lstripL]
  cases hv : (Rx.opt (.cap 3 (some "args") (ident ⬝ .star argIter)) ⬝ K5rx).m
      ⟨p4 + (r4.takeWhile isSpace).length, lstripL r4, caps⟩ some with
  | some v => exact backoff_some _ _ v _ (by rw [hfull]; exact hv)
  | none =>
    apply backoff_none
    intro j hj
    rcases Nat.lt_or_ge j (r4.takeWhile isSpace).length with hlt | hge
    · obtain ⟨c, r, hr, hc⟩ := drop_takeWhile_head isSpace r4 j hlt
      have hlj : lstripL (r4.drop j) = lstripL r4 := by
        have e := List.takeWhile_append_dropWhile (p := isSpace) (l := r4)
        have : r4.drop j = (r4.takeWhile isSpace).drop j ++ r4.dropWhile isSpace := by
          conv => lhs; rw [← e]
          rw [List.drop_append_of_le_length (by omega)]
        rw [this]; simp only [lstripL]
        rw [List.dropWhile_append_of_pos]
        · exact (lstripL_idem r4)
        · intro a ha; exact mem_takeWhile_p _ _ _ ((List.drop_sublist j _).subset ha)
      have hid : ident? (r4.drop j) = none := by rw [hr]; simp [ident?, space_not_idStart hc]
      rw [K4_eval] at hv ⊢
      simp only [adv, hid]
      have hnj : '\n' ∉ r4.drop j := not_mem_drop h
      have hnl : '\n' ∉ lstripL r4 := not_mem_dropWhile h
      cases hi : ident? (lstripL r4) with
      | none =>
        rw [hi] at hv
        exact K5_none_transfer _ _ _ _ _ _ hnl hnj (hlj.trans (lstripL_idem r4).symm) hv
      | some ar =>
        cases hl4 : lstripL r4 with
        | nil => rw [hl4] at hi; simp [ident?] at hi
        | cons x e =>
          have hx : isIdStart x = true := by
            by_cases hx : isIdStart x = true
            · exact hx
            · rw [hl4] at hi; simp [ident?, hx] at hi
          have hw := C10.idStart_isWord hx
          exact K5_none_of_head _ x e (by simp only []; rw [hlj, hl4])
            (fun e => by rw [e] at hw; exact absurd hw (by decide)) (fun e => by rw [e] at hw; exact absurd hw (by decide))
    · simp only [] at hj
      have : j = (r4.takeWhile isSpace).length := by omega
      rw [this, hfull]; exact hv

end C06Regex
