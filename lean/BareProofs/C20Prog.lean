import BareProofs.C20ProgLoops

/-!
# C20Prog — `diffLines` of the shipped `include/diff.bare`, as a theorem about the program the parser produces

**What is proved.**  `Gen.diffBare` (`BareModel/Gen/DiffBare.lean`) is the statement list the real `parse_script` returns for the
working-tree `src/bare_script/include/diff.bare`; `harness/extract.py` regenerates it on every check run.  For the jump machine of
`BareModel/Machine.lean` (the mirror of `runtime.py`, with its label cache and its statement counter) over the host `hostDiff`:

* `include_binds`  running that statement list with `Machine.execute` from any state whose globals bind the library functions
  diff.bare uses (and neither `diffSentinel` nor `False`) ends normally and binds the global `diffLines` to the script function
  it defines and `diffRegexLineSplit` to the regex `\r?\n`; the resulting globals satisfy `GOK`.
* `diffLines_exact` for ALL inputs — a string or an array of strings on either side, any number of lines, any heap — calling
  `diffLines(left, right)` through `Machine.callValue` with enough fuel and no statement limit returns an array whose heap contents
  decode (`decodeDiffs`) to exactly `Diff.diffInputs l r`: a list of objects `{type: 'Identical'|'Add'|'Remove', lines: [strings]}`.
  No existing heap cell is changed (the arguments are not mutated), globals, log and partial table are unchanged.
* `prog_left`, `prog_right`, `prog_blocks_nonempty`, `prog_identical`   the property, for the PROGRAM: by composition with
  `C20.diffInputs_left/right/nonempty/identical` (proved for the functional model `Diff`).

`continue` inside `while` (finding F7) needs no special treatment here: the proof runs the lowered jumps (`jump __bareScriptLoop5`
lands *after* the header test), which is what the real interpreter does; `Diff.outer`'s `test` flag is its model-side counterpart.

**What is assumed** (stated in `BareModel/HostDiff.lean`): `regexNew`/`regexSplit` are not functions of the verified library model
`Lib` (no regex engine).  `hostDiff` = `hostLib` + `regexNew(p)` = a regex value remembering `p` + `regexSplit(re, s)` = a fresh
array holding `Diff.splitLines s` when `re`'s pattern is `\r?\n` (every other pattern: the wrapper's `null`).  "CPython's
`re.split('\r?\n', s)` = `Diff.splitLines s`" is a modelled assumption, correspondence-checked by the `diff-inputs` stream.
`schemaParse` (the documentation model `diffTypes`, not used by `diffLines`) is not modelled: `diffTypes` is bound to null.
The globals a caller runs `diffLines` with must satisfy `GOK`: library names bound to the library, `diffRegexLineSplit` as
diff.bare set it, and the variable `False` (diff.bare:107 spells `false` with a capital) unbound.

Every other library call (`arrayNew/Length/Get/Push/Extend/Slice`, `objectNew`, `systemType`, `stringFromCharCode`) goes through
the verified `Lib` model (`C15.lib_eq_specLib`) resp. `hostLib`'s lifted HostImpl tree.
-/

set_option linter.unusedSimpArgs false
set_option linter.unusedSectionVars false
set_option linter.unusedVariables false

namespace C20Prog
open Machine HostLib HostDiff Lib Diff

section Main
variable {cfg : Config LWorld} (hh : cfg.host = hostDiff) (hmax : cfg.maxStatements = 0) {g : Env} (hg : GOK g)
  {L R : List String} {rD rL rR : Nat}
include hh hmax hg

/-! ## `arrayPush(diffs, objectNew('type', kind, 'lines', …))` -/

omit hh hmax hg in
theorem Ext.refl (rD : Nat) (h : Heap) : Ext rD h h := ⟨Nat.le_refl _, fun _ _ _ => rfl⟩

omit hh hmax hg in
theorem strs_drop (xs : List String) (s : Nat) : (strs xs).drop s = strs (xs.drop s) := by simp [strs, List.map_drop]

omit hh hmax hg in
theorem strs_take (xs : List String) (s : Nat) : (strs xs).take s = strs (xs.take s) := by simp [strs, List.map_take]

/-- a block whose lines are `arraySlice(arr, ix)` -/
theorem push_slice2 {pc : Nat} {arrV ixV : Name} {kind : Kind} {r s i j : Nat} {xs : List String} {l : Env} {h : Heap}
    {bs : List (Block String)}
    (hP : B[pc]? = some (.expr none (.function (.user "arrayPush") [.variable vDiffs, .function (.user "objectNew")
      [.string "type", .string kind.text, .string "lines", .function (.user "arraySlice") [.variable arrV, .variable ixV]]])))
    (mv : MVars l rD rL rR L.length R.length i j) (mh : MHeap h rD rL rR L R bs) (karr : NotKw arrV) (kix : NotKw ixV)
    (harr : l.get? arrV = some (.arr r)) (hix : l.get? ixV = some (nv s)) (hr : getArr h r = some (strs xs))
    (hs : s ≤ xs.length) :
    ∃ h', Steps cfg B g pc l h (pc+1) l h' ∧ MHeap h' rD rL rR L R (bs ++ [⟨kind, xs.drop s⟩]) ∧ Ext rD h h' := by
  obtain ⟨vs, hvs, _⟩ := mh.hD
  have hrD := getArr_lt hvs
  have hslice : Ev cfg g l h (.function (.user "arraySlice") [.variable arrV, .variable ixV]) (.arr h.length)
      (h ++ [Cell.arr (strs (xs.drop s))]) := by
    have := Ev.callU hg mv.clean (f := "arraySlice") (by decide)
      (EvArgs.cons (Ev.varL karr harr) (EvArgs.cons (Ev.varL kix hix) EvArgs.nil))
      (libcall_arraySlice2 hh hr (by rw [strs_length]; exact hs))
    rwa [strs_drop] at this
  have hvs1 : getArr (h ++ [Cell.arr (strs (xs.drop s))]) rD = some vs := (Pres.append h _).getArr hvs
  refine ⟨_, Steps.exprStmt hmax hP (ev_pushBlock hh hg mv.clean hslice mv.diffs hvs1), ?_,
    (((Pres.append h _).trans (Pres.append _ _)).ext rD).trans (Ext.set rD _ _)⟩
  have := (mh.pres (Pres.append h (Cell.arr (strs (xs.drop s))))).push hvs1 (k := kind) (getArr_append_new h _)
    (by omega)
  simpa using this

/-- a block whose lines are `arraySlice(arr, ix, ixEnd)` -/
theorem push_slice3 {pc : Nat} {arrV ixV ixE : Name} {kind : Kind} {r s e i j : Nat} {xs : List String} {l : Env} {h : Heap}
    {bs : List (Block String)}
    (hP : B[pc]? = some (.expr none (.function (.user "arrayPush") [.variable vDiffs, .function (.user "objectNew")
      [.string "type", .string kind.text, .string "lines",
        .function (.user "arraySlice") [.variable arrV, .variable ixV, .variable ixE]]])))
    (mv : MVars l rD rL rR L.length R.length i j) (mh : MHeap h rD rL rR L R bs) (karr : NotKw arrV) (kix : NotKw ixV)
    (kie : NotKw ixE) (harr : l.get? arrV = some (.arr r)) (hix : l.get? ixV = some (nv s)) (hie : l.get? ixE = some (nv e))
    (hr : getArr h r = some (strs xs)) (hs : s ≤ xs.length) (he : e ≤ xs.length) :
    ∃ h', Steps cfg B g pc l h (pc+1) l h' ∧ MHeap h' rD rL rR L R (bs ++ [⟨kind, (xs.take e).drop s⟩]) ∧
      Ext rD h h' := by
  obtain ⟨vs, hvs, _⟩ := mh.hD
  have hrD := getArr_lt hvs
  have hslice : Ev cfg g l h (.function (.user "arraySlice") [.variable arrV, .variable ixV, .variable ixE]) (.arr h.length)
      (h ++ [Cell.arr (strs ((xs.take e).drop s))]) := by
    have := Ev.callU hg mv.clean (f := "arraySlice") (by decide)
      (EvArgs.cons (Ev.varL karr harr) (EvArgs.cons (Ev.varL kix hix) (EvArgs.cons (Ev.varL kie hie) EvArgs.nil)))
      (libcall_arraySlice3 hh hr (by rw [strs_length]; exact hs) (by rw [strs_length]; exact he))
    rwa [strs_drop, strs_take, ← List.drop_take] at this
  have hvs1 : getArr (h ++ [Cell.arr (strs ((xs.take e).drop s))]) rD = some vs := (Pres.append h _).getArr hvs
  refine ⟨_, Steps.exprStmt hmax hP (ev_pushBlock hh hg mv.clean hslice mv.diffs hvs1), ?_,
    (((Pres.append h _).trans (Pres.append _ _)).ext rD).trans (Ext.set rD _ _)⟩
  have := (mh.pres (Pres.append h (Cell.arr (strs ((xs.take e).drop s))))).push hvs1 (k := kind) (getArr_append_new h _)
    (by omega)
  simpa using this

/-- the `Identical` block: its lines are the array `identicalLines` itself -/
theorem push_ident {rI i j : Nat} {xs : List String} {l : Env} {h : Heap} {bs : List (Block String)}
    (mv : MVars l rD rL rR L.length R.length i j) (mh : MHeap h rD rL rR L R bs)
    (hid : l.get? vId = some (.arr rI)) (hr : getArr h rI = some (strs xs)) (hne : rI ≠ rD) :
    ∃ h', Steps cfg B g 60 l h 61 l h' ∧ MHeap h' rD rL rR L R (bs ++ [⟨.identical, xs⟩]) ∧ Ext rD h h' := by
  obtain ⟨vs, hvs, _⟩ := mh.hD
  exact ⟨_, Steps.exprStmt hmax B60 (ev_pushBlock hh hg mv.clean (Ev.varL (by decide) hid) mv.diffs hvs),
    mh.push hvs (k := .identical) hr hne, ((Pres.append h _).ext rD).trans (Ext.set rD _ _)⟩

/-! ## the main `while` loop (diff.bare:79-148, statements 37-103) -/

/-- from the top of the loop body (statement 39: after the header test, or after a `continue`) the run reaches `return diffs`
having appended exactly what the model's `outer … false` produces -/
def Main39 (cfg : Config LWorld) (g : Env) (L R : List String) (rD rL rR f : Nat) : Prop :=
  ∀ (i j : Nat) (l : Env) (h : Heap) (bs res : List (Block String)),
    outer L R f false i j = some res → i ≤ L.length → j ≤ R.length →
    MVars l rD rL rR L.length R.length i j → MHeap h rD rL rR L R bs →
    ∃ l' h', Steps cfg B g 39 l h 104 l' h' ∧ l'.get? vDiffs = some (.arr rD) ∧ MHeap h' rD rL rR L R (bs ++ res) ∧
      Ext rD h h'

omit hh hmax hg in
/-- the header test in the model: when it holds the flag is irrelevant, when it fails the loop ends -/
theorem outer_true (L R : List String) (f i j : Nat) :
    outer L R (f+1) true i j =
      if (decide (i < L.length) || decide (j < R.length)) then outer L R (f+1) false i j else some [] := by
  by_cases c : (decide (i < L.length) || decide (j < R.length)) = true
  · simp only [outer, c, Bool.not_true, Bool.and_false, Bool.false_eq_true, if_false, if_true, Bool.false_and]
  · simp only [Bool.not_eq_true] at c
    simp only [outer, c, Bool.not_false, Bool.and_self, if_true, Bool.false_eq_true, if_false]

/-- the `while` condition `ixLeft < leftLength || ixRight < rightLength` -/
theorem ev_whileC {l : Env} {h : Heap} {i j : Nat} (mv : MVars l rD rL rR L.length R.length i j) :
    EvB cfg g l h (.binary .or (.binary .lt (.variable vIL) (.variable vNL)) (.binary .lt (.variable vIR) (.variable vNR)))
      (decide (i < L.length) || decide (j < R.length)) :=
  EvB.or hh (ev_lt hh (by decide) (by decide) mv.il mv.nl) (fun _ => ev_lt hh (by decide) (by decide) mv.ir mv.nr)

/-- falling off the end of the body (statement 102): the header test is made again -/
theorem tail102 {f : Nat} (ih : Main39 cfg g L R rD rL rR f) {i j : Nat} {l : Env} {h : Heap}
    {bs res : List (Block String)} (ho : outer L R f true i j = some res) (hi : i ≤ L.length) (hj : j ≤ R.length)
    (mv : MVars l rD rL rR L.length R.length i j) (mh : MHeap h rD rL rR L R bs) :
    ∃ l' h', Steps cfg B g 102 l h 104 l' h' ∧ l'.get? vDiffs = some (.arr rD) ∧ MHeap h' rD rL rR L R (bs ++ res) ∧
      Ext rD h h' := by
  cases f with
  | zero => simp [outer] at ho
  | succ f =>
    rw [outer_true] at ho
    cases hc : (decide (i < L.length) || decide (j < R.length)) with
    | true =>
      rw [hc] at ho
      simp only [if_true] at ho
      obtain ⟨l', h', st, r⟩ := ih i j l h bs res ho hi hj mv mh
      exact ⟨l', h', Steps.trans (Steps.jumpifBT hmax hh B102 labLoop5 (ev_whileC hh hmax hg mv) hc) st, r⟩
    | false =>
      rw [hc] at ho
      simp only [Bool.false_eq_true, if_false, Option.some.injEq] at ho
      subst ho
      refine ⟨l, h, ?_, mv.diffs, by simpa using mh, Ext.refl _ _⟩
      exact Steps.trans (Steps.jumpifBF hmax hh B102 labLoop5 (ev_whileC hh hmax hg mv) hc) (Steps.label hmax B103)

/-- entering the loop (statement 37) -/
theorem entry37 {f : Nat} (ih : Main39 cfg g L R rD rL rR f) {i j : Nat} {l : Env} {h : Heap}
    {bs res : List (Block String)} (ho : outer L R f true i j = some res) (hi : i ≤ L.length) (hj : j ≤ R.length)
    (mv : MVars l rD rL rR L.length R.length i j) (mh : MHeap h rD rL rR L R bs) :
    ∃ l' h', Steps cfg B g 37 l h 104 l' h' ∧ l'.get? vDiffs = some (.arr rD) ∧ MHeap h' rD rL rR L R (bs ++ res) ∧
      Ext rD h h' := by
  cases f with
  | zero => simp [outer] at ho
  | succ f =>
    rw [outer_true] at ho
    cases hc : (decide (i < L.length) || decide (j < R.length)) with
    | true =>
      rw [hc] at ho
      simp only [if_true] at ho
      obtain ⟨l', h', st, r⟩ := ih i j l h bs res ho hi hj mv mh
      refine ⟨l', h', ?_, r⟩
      refine Steps.trans (Steps.jumpifBF hmax hh B37 labDone5 (EvB.not hh (ev_whileC hh hmax hg mv)) (by rw [hc]; rfl)) ?_
      exact Steps.trans (Steps.label hmax B38) st
    | false =>
      rw [hc] at ho
      simp only [Bool.false_eq_true, if_false, Option.some.injEq] at ho
      subst ho
      refine ⟨l, h, ?_, mv.diffs, by simpa using mh, Ext.refl _ _⟩
      exact Steps.jumpifBT hmax hh B37 labDone5 (EvB.not hh (ev_whileC hh hmax hg mv)) (by rw [hc]; rfl)

/-- statements 94-97: `if ixLeftTmp > ixLeft: push Remove leftLines[ixLeft:ixLeftTmp]; ixLeft = ixLeftTmp` -/
theorem opt_remove {l : Env} {h : Heap} {i j it : Nat} {bs : List (Block String)}
    (mv : MVars l rD rL rR L.length R.length i j) (mh : MHeap h rD rL rR L R bs) (hit : l.get? vILT = some (nv it))
    (hle : i ≤ it) (hitL : it ≤ L.length) :
    ∃ l' h', Steps cfg B g 94 l h 98 l' h' ∧ MVars l' rD rL rR L.length R.length it j ∧ SameExcept [vIL] l l' ∧
      MHeap h' rD rL rR L R (bs ++ (if i < it then [⟨.remove, (L.take it).drop i⟩] else [])) ∧ Ext rD h h' := by
  have cnd := ev_gt (cfg := cfg) (g := g) (h := h) hh (by decide) (by decide) hit mv.il
  by_cases c : i < it
  · obtain ⟨h', st95, mh', ex'⟩ := push_slice3 hh hmax hg (kind := .remove) B95 mv mh (by decide) (by decide) (by decide)
      mv.ll mv.il hit mh.hL (by omega) hitL
    refine ⟨l.set vIL (nv it), h', ?_, mv.setIL it, (SameExcept.refl _ _).set (by simp) _, by simpa [c] using mh', ex'⟩
    refine Steps.trans (Steps.jumpifBF hmax hh B94 labDone19 (EvB.not hh cnd) (by simp; omega)) ?_
    refine Steps.trans st95 ?_
    refine Steps.trans (Steps.assign hmax B96 (Ev.varL (by decide) hit)) ?_
    exact Steps.label hmax B97
  · have e : it = i := by omega
    subst e
    refine ⟨l, h, ?_, mv, SameExcept.refl _ _, by simpa [c] using mh, Ext.refl _ _⟩
    exact Steps.jumpifBT hmax hh B94 labDone19 (EvB.not hh cnd) (by simp)

/-- statements 98-101: `if ixRightTmp > ixRight: push Add rightLines[ixRight:ixRightTmp]; ixRight = ixRightTmp` -/
theorem opt_add {l : Env} {h : Heap} {i j jt : Nat} {bs : List (Block String)}
    (mv : MVars l rD rL rR L.length R.length i j) (mh : MHeap h rD rL rR L R bs) (hjt : l.get? vIRT = some (nv jt))
    (hle : j ≤ jt) (hjtR : jt ≤ R.length) :
    ∃ l' h', Steps cfg B g 98 l h 102 l' h' ∧ MVars l' rD rL rR L.length R.length i jt ∧
      MHeap h' rD rL rR L R (bs ++ (if j < jt then [⟨.add, (R.take jt).drop j⟩] else [])) ∧ Ext rD h h' := by
  have cnd := ev_gt (cfg := cfg) (g := g) (h := h) hh (by decide) (by decide) hjt mv.ir
  by_cases c : j < jt
  · obtain ⟨h', st99, mh', ex'⟩ := push_slice3 hh hmax hg (kind := .add) B99 mv mh (by decide) (by decide) (by decide)
      mv.rl mv.ir hjt mh.hR (by omega) hjtR
    refine ⟨l.set vIR (nv jt), h', ?_, mv.setIR jt, by simpa [c] using mh', ex'⟩
    refine Steps.trans (Steps.jumpifBF hmax hh B98 labDone20 (EvB.not hh cnd) (by simp; omega)) ?_
    refine Steps.trans st99 ?_
    refine Steps.trans (Steps.assign hmax B100 (Ev.varL (by decide) hjt)) ?_
    exact Steps.label hmax B101
  · have e : jt = j := by omega
    subst e
    refine ⟨l, h, ?_, mv, by simpa [c] using mh, Ext.refl _ _⟩
    exact Steps.jumpifBT hmax hh B98 labDone20 (EvB.not hh cnd) (by simp)

/-- **the main loop**, by induction on the model's fuel -/
theorem main39 : ∀ f, Main39 cfg g L R rD rL rR f := by
  intro f
  induction f with
  | zero => intro i j l h bs res ho; simp [outer] at ho
  | succ f ih =>
    intro i j l h bs res ho hi hj mv mh
    have hrDlt : rD < h.length := by obtain ⟨vs, hvs, _⟩ := mh.hD; exact getArr_lt hvs
    by_cases ci : i < L.length
    · have st39 := Steps.jumpifBT (g := g) (l := l) (h := h) hmax hh B39 labDone6
        (EvB.not hh (ev_ge hh (by decide) (by decide) mv.il mv.nl)) (by simp; omega)
      by_cases cj : j < R.length
      · -- both sides still have lines
        rw [C20.outer_body L R f false i j ci cj] at ho
        simp only [C20.bodyStep] at ho
        have st45 := Steps.jumpifBT (g := g) (l := l) (h := h) hmax hh B45 labDone8
          (EvB.not hh (ev_ge hh (by decide) (by decide) mv.ir mv.nr)) (by simp; omega)
        obtain ⟨l1, h1, st51, mv1, hid1, hpres1, hacc1⟩ := ident_block hh hmax hg mv mh.hL mh.hR
        have mh1 := mh.pres hpres1
        have hnle := C20.commonLen_le_left (L.drop i) (R.drop j)
        have hnle' := C20.commonLen_le_right (L.drop i) (R.drop j)
        simp only [List.length_drop] at hnle hnle'
        generalize C20.commonLen (L.drop i) (R.drop j) = n at *
        have cnd59 := Ev.not hh (Ev.varL (cfg := cfg) (g := g) (h := h1) (by decide) hid1) (Tr.arr hacc1)
        by_cases hn : 0 < n
        · simp only [hn, if_true] at ho
          obtain ⟨rest, hrest, rfl⟩ := Option.map_eq_some_iff.mp ho
          have hne : (strs ((L.drop i).take n)).isEmpty = false := by
            cases hx : strs ((L.drop i).take n) with
            | nil =>
              have := congrArg List.length hx
              simp [strs_length] at this
              omega
            | cons _ _ => rfl
          obtain ⟨h2, st60, mh2, ex2⟩ := push_ident hh hmax hg mv1 mh1 hid1 hacc1 (by omega)
          obtain ⟨l', h', st, hd', mh', ex'⟩ := ih (i+n) (j+n) l1 h2 _ rest hrest (by omega) (by omega) mv1 mh2
          refine ⟨l', h', ?_, hd', by simpa using mh', ((hpres1.ext rD).trans ex2).trans ex'⟩
          refine st39.trans (st45.trans (st51.trans ?_))
          refine Steps.trans (Steps.jumpifF hmax hh B59 labDone11 cnd59 (by rw [hne]; exact Tr.bool _ _)) ?_
          exact st60.trans (Steps.trans (Steps.jump hmax B61 labLoop5) st)
        · have hn0 : n = 0 := by omega
          subst hn0
          simp only [Nat.lt_irrefl, if_false, Nat.add_zero] at ho mv1
          have hem : (strs ((L.drop i).take 0)).isEmpty = true := rfl
          have st59 := Steps.jumpifT (g := g) hmax hh B59 labDone11 cnd59 (by rw [hem]; exact Tr.bool _ _)
          obtain ⟨l2, st63, hsame2, hres2⟩ := scan_left hh hmax hg mh1.hL mh1.hR mv1 ci
          have mv2 : MVars l2 rD rL rR L.length R.length i j := mv1.same hsame2 (by decide)
          cases hs : scanLeft (R.drop j) j (L.drop i) i with
          | none =>
            rw [hs] at ho hres2
            simp only at ho hres2
            obtain ⟨rest, hrest, rfl⟩ := Option.map_eq_some_iff.mp ho
            have st83 := Steps.jumpifF (g := g) (h := h1) hmax hh B83 labDone16
              (Ev.not hh (Ev.not hh (Ev.varL (by decide) hres2) (Tr.null _)) (Tr.bool _ _)) (Tr.bool _ _)
            have st84 := Steps.jumpifBF (g := g) (h := h1) hmax hh B84 labDone17
              (EvB.not hh (ev_lt hh (by decide) (by decide) mv2.il mv2.nl)) (by simp [ci])
            obtain ⟨h3, st85, mh3, ex3⟩ := push_slice2 hh hmax hg (kind := .remove) B85 mv2 mh1 (by decide) (by decide)
              mv2.ll mv2.il mh1.hL (by omega)
            have st86 := Steps.assign (g := g) (h := h3) hmax B86 (Ev.varL (by decide) mv2.nl)
            have mv3 := mv2.setIL L.length
            have st88 := Steps.jumpifBF (g := g) (h := h3) hmax hh B88 labDone18
              (EvB.not hh (ev_lt hh (by decide) (by decide) mv3.ir mv3.nr)) (by simp [cj])
            obtain ⟨h4, st89, mh4, ex4⟩ := push_slice2 hh hmax hg (kind := .add) B89 mv3 mh3 (by decide) (by decide)
              mv3.rl mv3.ir mh3.hR (by omega)
            have st90 := Steps.assign (g := g) (h := h4) hmax B90 (Ev.varL (by decide) mv3.nr)
            have mv4 := mv3.setIR R.length
            obtain ⟨l', h', st, hd', mh', ex'⟩ := ih L.length R.length _ h4 _ rest hrest (Nat.le_refl _) (Nat.le_refl _) mv4 mh4
            refine ⟨l', h', ?_, hd', by simpa using mh', (((hpres1.ext rD).trans ex3).trans ex4).trans ex'⟩
            refine st39.trans (st45.trans (st51.trans (st59.trans (st63.trans (st83.trans (st84.trans (st85.trans
              (st86.trans ?_))))))))
            refine Steps.trans (Steps.label hmax B87) (st88.trans (st89.trans (st90.trans ?_)))
            exact Steps.trans (Steps.label hmax B91) (Steps.trans (Steps.jump hmax B92 labLoop5) st)
          | some p =>
            obtain ⟨it, jt⟩ := p
            rw [hs] at ho hres2
            simp only at ho hres2
            obtain ⟨rest, hrest, rfl⟩ := Option.map_eq_some_iff.mp ho
            obtain ⟨a1, a2, a3, a4, _⟩ := C20.scanLeft_some hs
            simp only [List.length_drop] at a2 a4
            obtain ⟨hfm, hilt, hirt⟩ := hres2
            have st83 := Steps.jumpifT (g := g) (h := h1) hmax hh B83 labDone16
              (Ev.not hh (Ev.not hh (Ev.varL (by decide) hfm) (Tr.bool _ _)) (Tr.bool _ _)) (Tr.bool _ _)
            obtain ⟨l3, h3, st94, mv3, hsame3, mh3, ex3⟩ := opt_remove hh hmax hg mv2 mh1 hilt a1 (by omega)
            have hirt3 : l3.get? vIRT = some (nv jt) := by rw [hsame3 _ (by decide)]; exact hirt
            obtain ⟨l4, h4, st98, mv4, mh4, ex4⟩ := opt_add hh hmax hg mv3 mh3 hirt3 a3 (by omega)
            obtain ⟨l', h', st, hd', mh', ex'⟩ := tail102 hh hmax hg ih hrest (by omega) (by omega) mv4 mh4
            refine ⟨l', h', ?_, hd', by simpa [List.append_assoc] using mh', (((hpres1.ext rD).trans ex3).trans ex4).trans ex'⟩
            exact st39.trans (st45.trans (st51.trans (st59.trans (st63.trans (st83.trans (st94.trans (st98.trans st)))))))
      · -- the right side is exhausted
        rw [C20.outer_right_done L R f false i j ci (by omega)] at ho
        simp only [Option.some.injEq] at ho
        subst ho
        obtain ⟨h', st47, mh', ex'⟩ := push_slice2 hh hmax hg (kind := .remove) B47 mv mh (by decide) (by decide)
          mv.ll mv.il mh.hL (by omega)
        refine ⟨l, h', ?_, mv.diffs, mh', ex'⟩
        refine st39.trans ?_
        refine Steps.trans (Steps.jumpifBF hmax hh B45 labDone8
          (EvB.not hh (ev_ge hh (by decide) (by decide) mv.ir mv.nr)) (by simp; omega)) ?_
        refine Steps.trans (Steps.jumpifBF hmax hh B46 labDone9
          (EvB.not hh (ev_lt hh (by decide) (by decide) mv.il mv.nl)) (by simp [ci])) ?_
        exact st47.trans (Steps.trans (Steps.label hmax B48) (Steps.jump hmax B49 labDone5))
    · -- the left side is exhausted
      rw [C20.outer_left_done L R f false i j (by omega) hj] at ho
      simp only [Option.some.injEq] at ho
      subst ho
      have st39 := Steps.jumpifBF (g := g) (l := l) (h := h) hmax hh B39 labDone6
        (EvB.not hh (ev_ge hh (by decide) (by decide) mv.il mv.nl)) (by simp; omega)
      have cnd40 := EvB.not hh (ev_lt (cfg := cfg) (g := g) (h := h) hh (by decide) (by decide) mv.ir mv.nr)
      by_cases cj : j < R.length
      · obtain ⟨h', st41, mh', ex'⟩ := push_slice2 hh hmax hg (kind := .add) B41 mv mh (by decide) (by decide)
          mv.rl mv.ir mh.hR (by omega)
        refine ⟨l, h', ?_, mv.diffs, by simpa [cj] using mh', ex'⟩
        refine st39.trans (Steps.trans (Steps.jumpifBF hmax hh B40 labDone7 cnd40 (by simp [cj])) ?_)
        exact st41.trans (Steps.trans (Steps.label hmax B42) (Steps.jump hmax B43 labDone5))
      · refine ⟨l, h, ?_, mv.diffs, by simpa [cj] using mh, Ext.refl _ _⟩
        refine st39.trans (Steps.trans (Steps.jumpifBT hmax hh B40 labDone7 cnd40 (by simp [cj])) ?_)
        exact Steps.jump hmax B43 labDone5

end Main

/-! ## the whole body of `diffLines` -/

/-- the block that splits `left` (statements 1-16) -/
def splitL : SplitCode where
  pc0 := 1
  X := .user "left"
  LINES := vLL
  PART := .user "leftPart"
  VALS := .gen .values 2
  LEN := .gen .length 2
  IDX := .gen .index 2
  labIf := .gen .ifL 1
  labDoneA := .gen .done 1
  labLoop := .gen .loop 2
  labDoneN := .gen .done 2
  s0 := B1
  s1 := B2
  s2 := B3
  s3 := B4
  s4 := B5
  s5 := B6
  s6 := B7
  s7 := B8
  s8 := B9
  s9 := B10
  s10 := B11
  s11 := B12
  s12 := B13
  s13 := B14
  s14 := B15
  s15 := B16
  lIf := labIf1
  lDoneA := labDone1
  lLoop := labLoop2
  lDoneN := labDone2
  kw := by decide
  ng := by decide
  dist := by decide

/-- the block that splits `right` (statements 17-32) -/
def splitR : SplitCode where
  pc0 := 17
  X := .user "right"
  LINES := vRL
  PART := .user "rightPart"
  VALS := .gen .values 4
  LEN := .gen .length 4
  IDX := .gen .index 4
  labIf := .gen .ifL 3
  labDoneA := .gen .done 3
  labLoop := .gen .loop 4
  labDoneN := .gen .done 4
  s0 := B17
  s1 := B18
  s2 := B19
  s3 := B20
  s4 := B21
  s5 := B22
  s6 := B23
  s7 := B24
  s8 := B25
  s9 := B26
  s10 := B27
  s11 := B28
  s12 := B29
  s13 := B30
  s14 := B31
  s15 := B32
  lIf := labIf3
  lDoneA := labDone3
  lLoop := labLoop4
  lDoneN := labDone4
  kw := by decide
  ng := by decide
  dist := by decide

theorem InputVal.pres {h h' : Heap} {v : MValue} {inp : Input} (hv : InputVal h v inp) (p : Pres h h') :
    InputVal h' v inp := by
  cases v <;> cases inp <;> simp only [InputVal] at hv ⊢
  · exact hv
  · exact p.getArr hv

/-- the local scope `_script_function` builds for a call `diffLines(vl, vr)` -/
def args0 (vl vr : MValue) : Env := [(.user "left", vl), (.user "right", vr)]

theorem args0_clean (vl vr : MValue) : Clean (args0 vl vr) := by
  intro x hx
  simp only [globNames, usedLib, List.map, List.cons_append, List.nil_append, List.mem_cons, List.not_mem_nil, or_false] at hx
  rcases hx with rfl | rfl | rfl | rfl | rfl | rfl | rfl | rfl | rfl | rfl | rfl | rfl | rfl | rfl | rfl <;> rfl

section Body
variable {cfg : Config LWorld} (hh : cfg.host = hostDiff) (hmax : cfg.maxStatements = 0) {g : Env} (hg : GOK g)
include hh hmax hg

/-- **the body of `diffLines`**, from its first statement to `return diffs`: for all inputs and all heaps, it returns a fresh array
whose contents represent exactly `Diff.diffInputs inl inr` -/
theorem body_halts {vl vr : MValue} {inl inr : Input} {h : Heap} (hl : InputVal h vl inl) (hr : InputVal h vr inr) :
    ∃ h', Halts cfg B g 0 (args0 vl vr) h (.arr h.length) h' ∧ Blocks h' h.length (diffInputs inl inr) ∧ Pres h h' := by
  -- statement 0
  have hc0 := args0_clean vl vr
  have st0 := Steps.assign (g := g) hmax B0 (ev_arrayNew hh hg hc0 h)
  have hc1 : Clean ((args0 vl vr).set vDiffs (.arr h.length)) := hc0.set (by decide) _
  have hX1 : ((args0 vl vr).set vDiffs (.arr h.length)).get? (.user "left") = some vl := by
    rw [C04.get?_set_other _ _ _ _ (by decide)]; rfl
  have hY1 : ((args0 vl vr).set vDiffs (.arr h.length)).get? (.user "right") = some vr := by
    rw [C04.get?_set_other _ _ _ _ (by decide)]; rfl
  have hD1 : ((args0 vl vr).set vDiffs (.arr h.length)).get? vDiffs = some (.arr h.length) := C04.get?_set_same _ _ _
  have p01 : Pres h (h ++ [Cell.arr []]) := Pres.append _ _
  -- the two inputs
  obtain ⟨l2, h2, rL, stL, sameL, hc2, hLL2, hrL, p12, hgL⟩ := split_input hh hmax hg splitL hc1 hX1 (hl.pres p01)
  have hY2 : l2.get? (.user "right") = some vr := by rw [sameL _ (by decide)]; exact hY1
  obtain ⟨l3, h3, rR, stR, sameR, hc3, hRL3, hrR, p23, hgR⟩ := split_input hh hmax hg splitR hc2 hY2 ((hr.pres p01).pres p12)
  have hLL3 : l3.get? vLL = some (.arr rL) := by rw [sameR _ (by decide)]; exact hLL2
  have hD3 : l3.get? vDiffs = some (.arr h.length) := by rw [sameR _ (by decide), sameL _ (by decide)]; exact hD1
  have hgL3 : getArr h3 rL = some (strs inl.lines) := p23.getArr hgL
  -- statements 33-36
  have st33 := Steps.assign (g := g) (l := l3) (h := h3) hmax B33 (nv_zero ▸ Ev.num 0)
  have st34 := Steps.assign (g := g) (l := l3.set vIL (nv 0)) (h := h3) hmax B34 (nv_zero ▸ Ev.num 0)
  have hc5 : Clean ((l3.set vIL (nv 0)).set vIR (nv 0)) := (hc3.set (by decide) _).set (by decide) _
  have hLL5 : ((l3.set vIL (nv 0)).set vIR (nv 0)).get? vLL = some (.arr rL) := by
    rw [C04.get?_set_other _ _ _ _ (by decide), C04.get?_set_other _ _ _ _ (by decide)]; exact hLL3
  have e35 : Ev cfg g ((l3.set vIL (nv 0)).set vIR (nv 0)) h3 (.function (.user "arrayLength") [.variable vLL])
      (nv inl.lines.length) h3 := by
    have := ev_len hh hg hc5 (by decide) hLL5 hgL3
    rwa [strs_length] at this
  have st35 := Steps.assign (g := g) hmax B35 e35
  have hc6 : Clean (((l3.set vIL (nv 0)).set vIR (nv 0)).set vNL (nv inl.lines.length)) := hc5.set (by decide) _
  have hRL6 : (((l3.set vIL (nv 0)).set vIR (nv 0)).set vNL (nv inl.lines.length)).get? vRL = some (.arr rR) := by
    rw [C04.get?_set_other _ _ _ _ (by decide), C04.get?_set_other _ _ _ _ (by decide),
      C04.get?_set_other _ _ _ _ (by decide)]; exact hRL3
  have e36 : Ev cfg g (((l3.set vIL (nv 0)).set vIR (nv 0)).set vNL (nv inl.lines.length)) h3
      (.function (.user "arrayLength") [.variable vRL]) (nv inr.lines.length) h3 := by
    have := ev_len hh hg hc6 (by decide) hRL6 hgR
    rwa [strs_length] at this
  have st36 := Steps.assign (g := g) hmax B36 e36
  -- the invariant at the loop entry
  have mv : MVars ((((l3.set vIL (nv 0)).set vIR (nv 0)).set vNL (nv inl.lines.length)).set vNR (nv inr.lines.length))
      h.length rL rR inl.lines.length inr.lines.length 0 0 := by
    refine ⟨hc6.set (by decide) _, ?_, ?_, ?_, ?_, C04.get?_set_same _ _ _, ?_, ?_⟩
    · rw [C04.get?_set_other _ _ _ _ (by decide), C04.get?_set_other _ _ _ _ (by decide),
        C04.get?_set_other _ _ _ _ (by decide), C04.get?_set_other _ _ _ _ (by decide)]; exact hD3
    · rw [C04.get?_set_other _ _ _ _ (by decide), C04.get?_set_other _ _ _ _ (by decide)]; exact hLL5
    · rw [C04.get?_set_other _ _ _ _ (by decide)]; exact hRL6
    · rw [C04.get?_set_other _ _ _ _ (by decide)]; exact C04.get?_set_same _ _ _
    · rw [C04.get?_set_other _ _ _ _ (by decide), C04.get?_set_other _ _ _ _ (by decide),
        C04.get?_set_other _ _ _ _ (by decide)]; exact C04.get?_set_same _ _ _
    · rw [C04.get?_set_other _ _ _ _ (by decide), C04.get?_set_other _ _ _ _ (by decide)]; exact C04.get?_set_same _ _ _
  have hlen1 : (h ++ [Cell.arr []]).length = h.length + 1 := by simp
  have mh : MHeap h3 h.length rL rR inl.lines inr.lines [] := by
    refine ⟨hgL3, hgR, by omega, ?_, [], (p12.trans p23).getArr (getArr_append_new h []), All2.nil⟩
    have := p12.1
    omega
  have ho : outer inl.lines inr.lines (fuelFor inl.lines inr.lines) true 0 0 = some (diffInputs inl inr) :=
    C20.diffLoop_some inl.lines inr.lines
  obtain ⟨l', h', st37, hd', mh', ex'⟩ := entry37 hh hmax hg (main39 hh hmax hg _) ho (Nat.zero_le _) (Nat.zero_le _) mv mh
  have p03 : Pres h h3 := (p01.trans p12).trans p23
  have pfin : Pres h h' :=
    ⟨Nat.le_trans p03.1 ex'.1, fun r hr => (ex'.2 r (Nat.lt_of_lt_of_le hr p03.1) (by omega)).trans (p03.2 r hr)⟩
  refine ⟨h', ?_, by simpa using mh'.hD, pfin⟩
  refine Steps.halts (st0.trans (stL.trans (stR.trans (st33.trans (st34.trans (st35.trans (st36.trans st37))))))) ?_
  exact Halts.ret hmax B104 (Ev.varL (by decide) hd')

end Body

/-! ## the call `diffLines(left, right)` through the machine's call wrapper -/

theorem mkS_eta (st : State LWorld) : mkS st.globals st.world.log st.world.partials st.world.heap st.count = st := by
  cases st with
  | mk g w c => cases w; rfl

/-- **diffLines_exact.**  Let `cfg` be any configuration over `hostDiff` without statement limit whose function table holds the
parsed `diffLines` under its `fid`, and `st` any machine state whose globals satisfy `GOK` (what running diff.bare establishes:
`include_binds`).  For ALL arguments `left`, `right` that are a string or an array of strings (`InputVal`: the heap cell of an
array argument holds strings; the two may even be the same array), there is a fuel bound such that with any larger fuel the call
`diffLines(left, right)` — `Machine.callValue` on the script function value, i.e. parameter binding by `_script_function`, the
lowered body run by `execM` with its label cache, the call wrapper — returns a **fresh** array (`arr heap.length`) in a state
whose heap decodes it (`decodeDiffs`) to exactly `Diff.diffInputs l r`; globals, log and partial table are unchanged, and so is
every heap cell that existed before the call (`Pres`: the arguments are not mutated, the new cells are appended). -/
theorem diffLines_exact (cfg : Config LWorld) (hh : cfg.host = hostDiff) (hmax : cfg.maxStatements = 0)
    (hfun : cfg.funs 0 = some diffFD) (st : State LWorld) (hg : GOK st.globals) {vl vr : MValue} {inl inr : Input}
    (hl : InputVal st.world.heap vl inl) (hr : InputVal st.world.heap vr inr) :
    ∃ k st', (∀ fuel, k ≤ fuel →
        callValue cfg fuel (.fn (.script 0)) [vl, vr] st = .ok (.arr st.world.heap.length) st') ∧
      decodeDiffs st'.world.heap (.arr st.world.heap.length) = some (diffInputs inl inr) ∧
      st'.globals = st.globals ∧ st'.world.log = st.world.log ∧ st'.world.partials = st.world.partials ∧
      Pres st.world.heap st'.world.heap := by
  obtain ⟨g, ⟨hp, lg, pt⟩, n⟩ := st
  simp only at hg hl hr ⊢
  obtain ⟨h', ⟨k, hk⟩, hb, hpres⟩ := body_halts hh hmax hg hl hr
  refine ⟨k + 2, mkS g lg pt h' (n + k), ?_, hb.decode, rfl, rfl, rfl, hpres⟩
  intro fuel hfuel
  obtain ⟨f, rfl⟩ : ∃ f, fuel = (f + 1 + k) + 1 := ⟨fuel - (k + 2), by omega⟩
  rw [C08.jumps_stay_in_scope cfg (f + 1 + k) 0 diffFD hfun]
  have hbind : bindArgs cfg.host diffFD.lastArgArray diffFD.args [vl, vr] []
      ({ heap := hp, log := lg, partials := pt } : LWorld) = (args0 vl vr, { heap := hp, log := lg, partials := pt }) := rfl
  rw [hbind]
  have hbody : diffFD.body = B := rfl
  have := hk lg pt n f
  simp only [mkS] at this
  simp only [hbody, this]
  rfl

/-! ## running diff.bare itself: the include binds `diffLines` and `diffRegexLineSplit` -/

/-- what running diff.bare needs of the globals it starts with: the library functions it uses are bound (as `execute_script`
binds them), the include sentinel is not yet set, and `False` is unbound -/
structure PreOK (g : Env) : Prop where
  lib : ∀ f ∈ usedLib, g.get? (.user f) = some (.fn (.lib f))
  noSentinel : g.get? (.user "diffSentinel") = none
  noFalse : g.get? (.user "False") = none

/-- the globals after diff.bare has run -/
def globalsAfter (g : Env) : Env :=
  (((g.set (.user "diffSentinel") (.bool true)).set (.user "diffTypes") .null).set (.user "diffLines") (.fn (.script 0))).set
    (.user "diffRegexLineSplit") (.regex (encStr lineSplitPattern))

theorem globalsAfter_ok {g : Env} (hp : PreOK g) : GOK (globalsAfter g) := by
  refine ⟨?_, C04.get?_set_same _ _ _, ?_⟩
  · intro f hf
    have h1 : Name.user f ≠ .user "diffSentinel" := by
      intro e; injection e with e; subst e; revert hf; decide
    have h2 : Name.user f ≠ .user "diffTypes" := by
      intro e; injection e with e; subst e; revert hf; decide
    have h3 : Name.user f ≠ .user "diffLines" := by
      intro e; injection e with e; subst e; revert hf; decide
    have h4 : Name.user f ≠ .user "diffRegexLineSplit" := by
      intro e; injection e with e; subst e; revert hf; decide
    simp only [globalsAfter]
    rw [C04.get?_set_other _ _ _ _ h4, C04.get?_set_other _ _ _ _ h3, C04.get?_set_other _ _ _ _ h2,
      C04.get?_set_other _ _ _ _ h1]
    exact hp.lib f hf
  · simp only [globalsAfter]
    rw [C04.get?_set_other _ _ _ _ (by decide), C04.get?_set_other _ _ _ _ (by decide),
      C04.get?_set_other _ _ _ _ (by decide), C04.get?_set_other _ _ _ _ (by decide)]
    exact hp.noFalse

theorem evalArgs_strings {cfg : Config LWorld} (call : CallFn LWorld) (st : State LWorld) :
    ∀ args, allStrings args = true → ∃ vs, evalArgs cfg call none args st = .ok vs st
  | [], _ => ⟨[], by simp [evalArgs]⟩
  | .string s :: r, h => by
    obtain ⟨vs, hvs⟩ := evalArgs_strings (cfg := cfg) call st r (by simpa [allStrings] using h)
    exact ⟨.str s :: vs, by simp [evalArgs, evalExpr, hvs]⟩
  | .number _ :: _, h => by simp [allStrings] at h
  | .variable _ :: _, h => by simp [allStrings] at h
  | .function _ _ :: _, h => by simp [allStrings] at h
  | .binary _ _ _ :: _, h => by simp [allStrings] at h
  | .unary _ _ :: _, h => by simp [allStrings] at h
  | .group _ :: _, h => by simp [allStrings] at h

/-- **include_binds.**  Running the statement list the real parser returns for the shipped diff.bare with `Machine.execute`
(statement counter reset, global scope, label cache) from any state whose globals satisfy `PreOK`, over any configuration on
`hostDiff` without statement limit and with any fuel `≥ 6`: the run ends normally (`done`), after 5 statements, with the world
unchanged and the globals of `globalsAfter` — in particular `diffLines` is bound to the script function it defines (`fid` 0),
`diffRegexLineSplit` to the regex `\r?\n`, and the globals are ready for `diffLines_exact` (`GOK`). -/
theorem include_binds (cfg : Config LWorld) (hh : cfg.host = hostDiff) (hmax : cfg.maxStatements = 0)
    (base : Option String) (st : State LWorld) (hp : PreOK st.globals) :
    (∀ fuel, 6 ≤ fuel → execute cfg fuel Gen.diffBare base st =
        .done { globals := globalsAfter st.globals, world := st.world, count := 5 }) ∧
      GOK (globalsAfter st.globals) ∧
      (globalsAfter st.globals).get? (.user "diffLines") = some (.fn (.script 0)) ∧
      (globalsAfter st.globals).get? (.user "diffRegexLineSplit") = some (.regex (encStr lineSplitPattern)) := by
  refine ⟨?_, globalsAfter_ok hp, ?_, C04.get?_set_same _ _ _⟩
  · obtain ⟨g, ⟨hp0, lg, pt⟩, n⟩ := st
    simp only at hp ⊢
    intro fuel hfuel
    obtain ⟨f, rfl⟩ : ∃ f, fuel = f + 6 := ⟨fuel - 6, by omega⟩
    rw [C08.execute_eq]
    show execM₀ cfg (f + 5 + 1) Gen.diffBare none base 0 (mkS g lg pt hp0 0) = _
    -- statement 0: `jumpif (!systemGlobalGet('diffSentinel')) __bareScriptDone0`
    have hname : Name.ofString "diffSentinel" = .user "diffSentinel" := by decide
    have hgg := hp.lib "systemGlobalGet" (by decide)
    have hgc : g.contains (.user "systemGlobalGet") = true := (C04.contains_true_iff _ _).mpr ⟨_, hgg⟩
    have hif : Name.user "systemGlobalGet" ≠ kwIf := by decide
    have e0 : evalExpr cfg (callValue₀ cfg (f + 4 + 1)) none
        (.unary .not (.function (.user "systemGlobalGet") [.string "diffSentinel"])) (mkS g lg pt hp0 1) =
        .ok (.bool true) (mkS g lg pt hp0 1) := by
      have e : (mkS g lg pt hp0 1).globals = g := rfl
      simp only [evalExpr, evalArgs, lookupFunc, e, hgc, if_true, hgg, hif, if_false, call_systemGlobalGet hh, hname,
        hp.noSentinel, Option.getD]
      simp [hh, hostDiff, hostLib, HostLib.truthy, HostImpl.truthy]
    rw [C08.jumpif_step cfg (f + 5) _ none base 0 _ _ _ T0 (budgetOk hmax _)]
    have ht : C08.tick (mkS g lg pt hp0 0) = mkS g lg pt hp0 1 := rfl
    rw [ht, e0]
    have htr : cfg.host.truthy (.bool true) (mkS g lg pt hp0 1).world = true := by rw [hh]; rfl
    simp only [htr, if_true, labDone0]
    -- statement 3: `diffSentinel = true`
    show execM₀ cfg (f + 4 + 1) Gen.diffBare none base 3 (mkS g lg pt hp0 1) = _
    rw [C08.step_assign_global cfg (f + 4) _ base 3 _ _ _ T3 (budgetOk hmax _)]
    have e3 : evalExpr cfg (callValue₀ cfg (f + 4)) none (.variable (.user "true")) (C08.tick (mkS g lg pt hp0 1)) =
        .ok (.bool true) (mkS g lg pt hp0 2) := by
      simp [evalExpr, kwNull, kwFalse, kwTrue]; rfl
    rw [e3]
    -- statement 4: `diffTypes = schemaParse(…)`
    obtain ⟨args, hT4, hargs⟩ := T4
    show execM₀ cfg (f + 3 + 1) Gen.diffBare none base 4 (mkS (g.set (.user "diffSentinel") (.bool true)) lg pt hp0 2) = _
    rw [C08.step_assign_global cfg (f + 3) _ base 4 _ _ _ hT4 (budgetOk hmax _)]
    have hgs : (g.set (.user "diffSentinel") (.bool true)).get? (.user "schemaParse") = some (.fn (.lib "schemaParse")) := by
      rw [C04.get?_set_other _ _ _ _ (by decide)]; exact hp.lib _ (by decide)
    have e4 : evalExpr cfg (callValue₀ cfg (f + 2 + 1)) none (.function (.user "schemaParse") args)
        (mkS (g.set (.user "diffSentinel") (.bool true)) lg pt hp0 3) =
        .ok .null (mkS (g.set (.user "diffSentinel") (.bool true)) lg pt hp0 3) := by
      obtain ⟨vs, hvs⟩ := evalArgs_strings (cfg := cfg) (callValue₀ cfg (f + 2 + 1))
        (mkS (g.set (.user "diffSentinel") (.bool true)) lg pt hp0 3) args hargs
      have hif4 : Name.user "schemaParse" ≠ kwIf := by decide
      have hgc4 := (C04.contains_true_iff _ _).mpr ⟨_, hgs⟩
      have e : (mkS (g.set (.user "diffSentinel") (.bool true)) lg pt hp0 3).globals =
        g.set (.user "diffSentinel") (.bool true) := rfl
      simp only [evalExpr, hif4, if_false, hvs, lookupFunc, e, hgc4, if_true, hgs]
      exact call_unmodelled hh (by decide) (by decide) (by decide) lib_schemaParse_unmodelled _ _ _ _ _ _ _
    have ht4 : C08.tick (mkS (g.set (.user "diffSentinel") (.bool true)) lg pt hp0 2) =
      mkS (g.set (.user "diffSentinel") (.bool true)) lg pt hp0 3 := rfl
    rw [ht4, e4]
    -- statement 5: `function diffLines(left, right)`
    show execM₀ cfg (f + 2 + 1) Gen.diffBare none base 5
      (mkS ((g.set (.user "diffSentinel") (.bool true)).set (.user "diffTypes") .null) lg pt hp0 3) = _
    rw [C08.function_stmt_binds_global cfg (f + 2) _ none base 5 _ _ _ _ _ _ _ T5 (budgetOk hmax _)]
    -- statement 6: `diffRegexLineSplit = regexNew(stringFromCharCode(13) + '?' + stringFromCharCode(10))`
    show execM₀ cfg (f + 1 + 1) Gen.diffBare none base 6
      (mkS (((g.set (.user "diffSentinel") (.bool true)).set (.user "diffTypes") .null).set (.user "diffLines")
        (.fn (.script 0))) lg pt hp0 4) = _
    rw [C08.step_assign_global cfg (f + 1) _ base 6 _ _ _ T6 (budgetOk hmax _)]
    generalize hg3 : ((g.set (.user "diffSentinel") (.bool true)).set (.user "diffTypes") .null).set (.user "diffLines")
        (.fn (.script 0)) = g3
    have hlib3 : ∀ f ∈ usedLib, g3.get? (.user f) = some (.fn (.lib f)) := by
      intro f hf
      have h1 : Name.user f ≠ .user "diffSentinel" := by
        intro e; injection e with e; subst e; revert hf; decide
      have h2 : Name.user f ≠ .user "diffTypes" := by
        intro e; injection e with e; subst e; revert hf; decide
      have h3 : Name.user f ≠ .user "diffLines" := by
        intro e; injection e with e; subst e; revert hf; decide
      rw [← hg3, C04.get?_set_other _ _ _ _ h3, C04.get?_set_other _ _ _ _ h2, C04.get?_set_other _ _ _ _ h1]
      exact hp.lib f hf
    have e6 : evalExpr cfg (callValue₀ cfg (f + 1)) none (.function (.user "regexNew")
        [(.binary .add (.binary .add (.function (.user "stringFromCharCode") [(.number (13 : Rat))]) (.string "?"))
          (.function (.user "stringFromCharCode") [(.number (10 : Rat))]))]) (mkS g3 lg pt hp0 5) =
        .ok (.regex (encStr lineSplitPattern)) (mkS g3 lg pt hp0 5) := by
      have hf1 := hlib3 "stringFromCharCode" (by decide)
      have hf2 := hlib3 "regexNew" (by decide)
      have hc1 := (C04.contains_true_iff _ _).mpr ⟨_, hf1⟩
      have hc2 := (C04.contains_true_iff _ _).mpr ⟨_, hf2⟩
      have hif1 : Name.user "stringFromCharCode" ≠ kwIf := by decide
      have hif2 : Name.user "regexNew" ≠ kwIf := by decide
      have e : (mkS g3 lg pt hp0 5).globals = g3 := rfl
      have c13 := libcall_fromCharCode hh hp0 13 (by decide) g3 lg pt 5 f
      have c10 := libcall_fromCharCode hh hp0 10 (by decide) g3 lg pt 5 f
      have n13 : (Machine.Value.num (13 : Rat)) = nv 13 := by simp [nv]
      have n10 : (Machine.Value.num (10 : Rat)) = nv 10 := by simp [nv]
      have hs : (String.ofList [Char.ofNat 13] ++ "?" ++ String.ofList [Char.ofNat 10]) = lineSplitPattern := by decide
      simp only [evalExpr, evalArgs, hif1, hif2, if_false, lookupFunc, e, hc1, hc2, if_true, hf1, hf2, n13, n10, c13, c10]
      simp only [hh, hostDiff, hostLib, HostLib.binop, HostImpl.binop, hs]
      exact libcall_regexNew hh hp0 _ g3 lg pt 5 f
    have ht6 : C08.tick (mkS g3 lg pt hp0 4) = mkS g3 lg pt hp0 5 := rfl
    rw [ht6, e6]
    -- the end of the list
    show execM₀ cfg (f + 1) Gen.diffBare none base 7 _ = _
    rw [C08.step_end cfg (f + 1) _ none base 7 _ (by decide +kernel)]
    subst hg3
    rfl
  · simp only [globalsAfter]
    rw [C04.get?_set_other _ _ _ _ (by decide)]
    exact C04.get?_set_same _ _ _

/-! ## the property, for the program -/

section Property
variable (cfg : Config LWorld) (hh : cfg.host = hostDiff) (hmax : cfg.maxStatements = 0) (hfun : cfg.funs 0 = some diffFD)
  (st : State LWorld) (hg : GOK st.globals) {vl vr : MValue} {inl inr : Input}
  (hl : InputVal st.world.heap vl inl) (hr : InputVal st.world.heap vr inr)
include hh hmax hfun hg hl hr

/-- the call returns (for every sufficiently large fuel) an array that decodes to a block list `bs` -/
def Returns (cfg : Config LWorld) (st : State LWorld) (vl vr : MValue) (bs : List (Block String)) : Prop :=
  ∃ k st' v, (∀ fuel, k ≤ fuel → callValue cfg fuel (.fn (.script 0)) [vl, vr] st = .ok v st') ∧
    decodeDiffs st'.world.heap v = some bs

omit hh hmax hfun hg hl hr in
/-- a call has at most one result: two fuels above both bounds give the same outcome -/
theorem Returns.unique {cfg : Config LWorld} {st : State LWorld} {vl vr : MValue} {bs bs' : List (Block String)}
    (a : Returns cfg st vl vr bs) (b : Returns cfg st vl vr bs') : bs = bs' := by
  obtain ⟨k, st1, v1, h1, d1⟩ := a
  obtain ⟨k', st2, v2, h2, d2⟩ := b
  have e1 := h1 (max k k') (Nat.le_max_left _ _)
  have e2 := h2 (max k k') (Nat.le_max_right _ _)
  rw [e1] at e2
  injection e2 with hv hs
  subst hv hs
  rw [d1] at d2
  exact Option.some.inj d2

theorem prog_returns : Returns cfg st vl vr (diffInputs inl inr) := by
  obtain ⟨k, st', hk, hd, _⟩ := diffLines_exact cfg hh hmax hfun st hg hl hr
  exact ⟨k, st', _, hk, hd⟩

/-- **Left reconstruction, for the program**: whatever block list the call of the shipped `diffLines` returns, concatenating its
`Identical` and `Remove` blocks in order gives exactly the left lines. -/
theorem prog_left {bs : List (Block String)} (hret : Returns cfg st vl vr bs) : leftOf bs = inl.lines := by
  rw [hret.unique (prog_returns cfg hh hmax hfun st hg hl hr)]
  exact C20.diffInputs_left inl inr

/-- **Right reconstruction, for the program**: the `Identical` and `Add` blocks give exactly the right lines. -/
theorem prog_right {bs : List (Block String)} (hret : Returns cfg st vl vr bs) : rightOf bs = inr.lines := by
  rw [hret.unique (prog_returns cfg hh hmax hfun st hg hl hr)]
  exact C20.diffInputs_right inl inr

/-- **No empty block, for the program.** -/
theorem prog_blocks_nonempty {bs : List (Block String)} (hret : Returns cfg st vl vr bs) : ∀ b ∈ bs, b.lines ≠ [] := by
  rw [hret.unique (prog_returns cfg hh hmax hfun st hg hl hr)]
  exact C20.diffInputs_nonempty inl inr

/-- **Identical inputs, for the program**: inputs with the same lines never yield an `Add` or `Remove` block. -/
theorem prog_identical {bs : List (Block String)} (hret : Returns cfg st vl vr bs) (hsame : inl.lines = inr.lines) :
    ∀ b ∈ bs, b.kind = .identical := by
  rw [hret.unique (prog_returns cfg hh hmax hfun st hg hl hr)]
  exact C20.diffInputs_identical inl inr hsame

end Property

/-- **End to end on `diffCfg`**: include the library from a state satisfying `PreOK`, then call `diffLines` on any two inputs
living in that state's heap — the call returns exactly `Diff.diffInputs`. -/
theorem include_then_call (base : Option String) (st : State LWorld) (hp : PreOK st.globals) {vl vr : MValue}
    {inl inr : Input} (hl : InputVal st.world.heap vl inl) (hr : InputVal st.world.heap vr inr) :
    ∃ st1, (∀ fuel, 6 ≤ fuel → execute diffCfg fuel Gen.diffBare base st = .done st1) ∧
      st1.globals.get? (.user "diffLines") = some (.fn (.script 0)) ∧
      Returns diffCfg st1 vl vr (diffInputs inl inr) := by
  obtain ⟨hrun, hgok, hdl, _⟩ := include_binds diffCfg rfl rfl base st hp
  exact ⟨_, hrun, hdl, prog_returns diffCfg rfl rfl diffCfg_funs _ hgok hl hr⟩

/-! ## non-vacuity: the hypotheses are inhabited; concrete instances -/

/-- the state `execute_script` starts from (library injected), with two line arrays in the heap -/
def demoState (a b : List String) : State LWorld :=
  { globals := libGlobals, world := { heap := [.arr (strs a), .arr (strs b)] }, count := 0 }

theorem libGlobals_pre : PreOK libGlobals := ⟨by decide, by decide, by decide⟩

/-- `PreOK` and `InputVal` are inhabited: the globals `execute_script` injects; an array of strings, a string -/
example : PreOK (demoState ["a", "b"] ["a", "c"]).globals := libGlobals_pre
example : InputVal (demoState ["a", "b"] ["a", "c"]).world.heap (.arr 0) (.parts ["a", "b"]) := rfl
example : InputVal (demoState ["a", "b"] ["a", "c"]).world.heap (.str "a\nb") (.text "a\nb") := rfl

/-- `include_binds`, evaluated by the kernel on the machine itself (no theorem involved): the run of the generated statement
list ends normally after 5 statements and binds `diffLines` to script function 0 and `diffRegexLineSplit` to a regex value -/
example :
    (match execute diffCfg 50 Gen.diffBare none (demoState ["a", "b"] ["a", "c"]) with
     | .done st1 => (st1.count, st1.globals.get? (.user "diffLines"), st1.globals.get? (.user "diffRegexLineSplit"),
                     st1.globals.get? (.user "diffTypes"))
     | _ => (0, none, none, none))
    = (5, some (.fn (.script 0)), some (.regex (encStr lineSplitPattern)), some .null) := by decide +kernel

/-- the regex value remembers its pattern -/
example : decStr (encStr lineSplitPattern) = "\r?\n" := by decide +kernel

/-- `GOK` is inhabited (by what the include leaves behind) -/
example : GOK (globalsAfter libGlobals) := globalsAfter_ok libGlobals_pre

/-- `diffLines_exact` / `include_then_call` on two arrays of lines: the hypotheses hold for a concrete state, and the block list
the theorem yields is the expected one (`Diff.diffInputs` is evaluated by the kernel) -/
example : ∃ st1, execute diffCfg 50 Gen.diffBare none (demoState ["a", "b"] ["a", "c"]) = .done st1 ∧
    Returns diffCfg st1 (.arr 0) (.arr 1) [⟨.identical, ["a"]⟩, ⟨.remove, ["b"]⟩, ⟨.add, ["c"]⟩] := by
  obtain ⟨st1, h1, _, h3⟩ := include_then_call none (demoState ["a", "b"] ["a", "c"]) libGlobals_pre
    (vl := .arr 0) (vr := .arr 1) (inl := .parts ["a", "b"]) (inr := .parts ["a", "c"]) rfl rfl
  have e : diffInputs (.parts ["a", "b"]) (.parts ["a", "c"]) =
      [⟨.identical, ["a"]⟩, ⟨.remove, ["b"]⟩, ⟨.add, ["c"]⟩] := by decide +kernel
  exact ⟨st1, h1 50 (by decide), e ▸ h3⟩

/-- two strings, LF against CRLF line ends; `continue` after the `Identical` block, a look-ahead match, a final `Add` -/
example : ∃ st1, execute diffCfg 50 Gen.diffBare none (demoState [] []) = .done st1 ∧
    Returns diffCfg st1 (.str "x\na\nb\nc") (.str "a\r\nb\r\nz\r\nc\r\nd")
      [⟨.remove, ["x"]⟩, ⟨.identical, ["a", "b"]⟩, ⟨.add, ["z"]⟩, ⟨.identical, ["c"]⟩, ⟨.add, ["d"]⟩] := by
  obtain ⟨st1, h1, _, h3⟩ := include_then_call none (demoState [] []) libGlobals_pre
    (vl := .str "x\na\nb\nc") (vr := .str "a\r\nb\r\nz\r\nc\r\nd") (inl := .text "x\na\nb\nc")
    (inr := .text "a\r\nb\r\nz\r\nc\r\nd") rfl rfl
  have e : diffInputs (.text "x\na\nb\nc") (.text "a\r\nb\r\nz\r\nc\r\nd") =
      [⟨.remove, ["x"]⟩, ⟨.identical, ["a", "b"]⟩, ⟨.add, ["z"]⟩, ⟨.identical, ["c"]⟩, ⟨.add, ["d"]⟩] := by
    decide +kernel
  exact ⟨st1, h1 50 (by decide), e ▸ h3⟩

/-- mixed arguments — an array whose parts hold several lines against a string — and the same array on both sides (aliased);
`prog_identical` applies: the lines are the same, so only `Identical` blocks -/
example : ∃ st1, execute diffCfg 50 Gen.diffBare none (demoState ["a\nb", "c"] []) = .done st1 ∧
    Returns diffCfg st1 (.arr 0) (.str "a\nb\nc") [⟨.identical, ["a", "b", "c"]⟩] ∧
    Returns diffCfg st1 (.arr 0) (.arr 0) [⟨.identical, ["a", "b", "c"]⟩] := by
  obtain ⟨st1, h1, _, h3⟩ := include_then_call none (demoState ["a\nb", "c"] []) libGlobals_pre
    (vl := .arr 0) (vr := .str "a\nb\nc") (inl := .parts ["a\nb", "c"]) (inr := .text "a\nb\nc") rfl rfl
  obtain ⟨st1', h1', _, h3'⟩ := include_then_call none (demoState ["a\nb", "c"] []) libGlobals_pre
    (vl := .arr 0) (vr := .arr 0) (inl := .parts ["a\nb", "c"]) (inr := .parts ["a\nb", "c"]) rfl rfl
  have hst : st1' = st1 := by
    have a := h1 50 (by decide)
    have b := h1' 50 (by decide)
    rw [a] at b; injection b with b; exact b.symm
  subst hst
  have e : diffInputs (.parts ["a\nb", "c"]) (.text "a\nb\nc") = [⟨.identical, ["a", "b", "c"]⟩] := by decide +kernel
  have e' : diffInputs (.parts ["a\nb", "c"]) (.parts ["a\nb", "c"]) = [⟨.identical, ["a", "b", "c"]⟩] := by
    decide +kernel
  exact ⟨st1', h1 50 (by decide), e ▸ h3, e' ▸ h3'⟩

/-- the property theorems apply to a concrete `Returns` fact -/
example (st1 : State LWorld) (hg : GOK st1.globals) (hin : InputVal st1.world.heap (.arr 0) (.parts ["a", "b"]))
    (bs : List (Block String)) (hret : Returns diffCfg st1 (.arr 0) (.str "a\nc") bs) :
    leftOf bs = ["a", "b"] ∧ rightOf bs = ["a", "c"] ∧ ∀ b ∈ bs, b.lines ≠ [] :=
  ⟨prog_left diffCfg rfl rfl diffCfg_funs st1 hg hin (vr := .str "a\nc") (inr := .text "a\nc") rfl hret,
   by
     have := prog_right diffCfg rfl rfl diffCfg_funs st1 hg hin (vr := .str "a\nc") (inr := .text "a\nc") rfl hret
     rw [this]; decide +kernel,
   prog_blocks_nonempty diffCfg rfl rfl diffCfg_funs st1 hg hin (vr := .str "a\nc") (inr := .text "a\nc") rfl hret⟩

end C20Prog
