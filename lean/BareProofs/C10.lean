import BareProofs.C10Lemmas

/-!
# C10 — source layout does not change the parsed program

Everything `parse_script` does before a statement reaches the lowering is modelled in `BareModel/Text.lean` (physical
lines, comment test, continuation, the line loop) and `BareModel/Scan.lean` (the statement regex cascade).  The theorems
below are for **all** texts / line lists (no bound on sizes):

* (`BareProofs/C10Pins.lean`: `patterns_pinned` — the regex sources the recognisers were written for are the ones in
  parser.py *now*; kept in a module of its own so that a changed pattern breaks that obligation only)
* `splitLines_no_newline`      physical lines never contain a line feed
* `split_join`, `crlf_eq_lf`, `crlf_eq_lf_text`   LF, CRLF or any mixture of terminators: same physical lines
* `split_chunks_exact`, `chunking_irrelevant`     cutting the text into chunks at line terminators (the terminator is
                               consumed by the cut): same physical lines, hence same logical lines *and indices*
* `chunking_keepends_irrelevant` readlines-style chunks (each keeps its `\n`): one extra empty line per chunk — a blank
                               line is a comment, so the logical line texts are the same (indices shift)
* `mirror_eq_spec_lines`       the line loop = "drop comment/blank lines, join maximal backslash runs"
* `comment_blank_insertion`    two line lists with the same non-comment lines have the same logical line texts
                               (insertion/removal anywhere, also between the parts of a continued line)
* `comment_insertion_shift`    inserting one comment/blank line at position `p` moves exactly the indices `≥ p` by one
* `continuation_join`          `A \` newline `B`  ≡  `rstrip(A) + " " + strip(B)` written on one line
* `logical_lines_compositional` the loop is compositional at every point where no continuation is pending
* `leading_ws_irrelevant_shape`, `leading_ws_irrelevant`   indentation does not change the statement kind / captured
                               groups (offsets move by the indentation); for `classify` under the stated hypothesis on
                               the expression parser (it is a parameter)
* `trailing_ws_irrelevant_partial`  trailing blanks: proved for the keyword-only statements, `else:`, `if/elif/while`
                               headers and `return` (F22), per recogniser; `keyword_line_layout` at the level of `shape`
-/

namespace C10
open Text Scan

/-! ## physical lines -/

/-- Physical lines never contain a line feed (so `.`/`$` of the statement patterns see no `\n`). -/
theorem splitLines_no_newline (t : Chars) : ∀ l ∈ splitLinesL t, '\n' ∉ l := by
  fun_induction splitLinesL t with
  | case1 => simp
  | case2 rest ih => intro l hl; simp at hl; rcases hl with rfl | hl; simp; exact ih l hl
  | case3 rest ih => intro l hl; simp at hl; rcases hl with rfl | hl; simp; exact ih l hl
  | case4 c rest hc _ ih =>
    intro l hl
    rcases mem_consHead hl with ⟨l', rfl, h | rfl⟩ | h
    · intro hm; simp at hm; rcases hm with e | hm
      · exact hc e.symm
      · exact ih l' h hm
    · intro hm; simp at hm; exact hc hm.symm
    · exact ih l h

example : splitLinesL "a\r\nb\n\rc\r\r\n".toList = ["a".toList, "b".toList, "\rc\r".toList, []] := by decide

/-- a text: lines with their terminators (`true` = CRLF, `false` = LF), then the unterminated last line -/
def joinEols : List (Chars × Bool) → Chars → Chars
  | [], last => last
  | (l, crlf) :: rest, last => l ++ (if crlf then ['\r', '\n'] else ['\n']) ++ joinEols rest last

/-- Splitting recovers the lines, whatever mixture of LF and CRLF terminates them.  (A line that ends with `\r` in front
of a bare LF would read as CRLF: excluded, as it must be.) -/
theorem split_join (ls : List (Chars × Bool)) (last : Chars)
    (h : ∀ p ∈ ls, '\n' ∉ p.1 ∧ (p.2 = false → p.1.getLast? ≠ some '\r')) (hl : '\n' ∉ last) :
    splitLinesL (joinEols ls last) = ls.map Prod.fst ++ [last] := by
  induction ls with
  | nil => simpa [joinEols] using split_no_nl hl
  | cons p ps ih =>
    obtain ⟨l, crlf⟩ := p
    have hp := h (l, crlf) (by simp)
    have ih' := ih (fun q hq => h q (List.mem_cons_of_mem _ hq))
    cases crlf with
    | true => simp [joinEols, split_append_crlf, split_no_nl hp.1, ih']
    | false => simp [joinEols, split_append_lf _ _ (hp.2 rfl), split_no_nl hp.1, ih']

/-- **LF versus CRLF**: the same lines terminated by CRLF or by LF give the same physical lines. -/
theorem crlf_eq_lf (ls : List Chars) (last : Chars) (h : ∀ l ∈ ls, '\n' ∉ l ∧ l.getLast? ≠ some '\r') (hl : '\n' ∉ last) :
    splitLinesL (joinEols (ls.map (·, true)) last) = splitLinesL (joinEols (ls.map (·, false)) last) := by
  rw [split_join _ _ (by simpa using fun l hl' => (h l hl').1) hl,
      split_join _ _ (by simpa using fun l hl' => h l hl') hl]
  simp [Function.comp_def]

example : splitLinesL (joinEols [("a = 1".toList, true), ("b = 2".toList, false)] "c".toList)
    = ["a = 1".toList, "b = 2".toList, "c".toList] := by decide

/-- replace every CRLF by LF -/
def crlfToLf : Chars → Chars
  | [] => []
  | '\r' :: '\n' :: rest => '\n' :: crlfToLf rest
  | c :: rest => c :: crlfToLf rest

/-- no `\r\r\n` in the text (a line ending in `\r` terminated by CRLF cannot be written with LF terminators) -/
def noCRCRLF : Chars → Bool
  | [] => true
  | '\r' :: '\r' :: '\n' :: _ => false
  | _ :: rest => noCRCRLF rest

theorem noCRCRLF_tail {c : Char} {rest : Chars} (h : noCRCRLF (c :: rest) = true) : noCRCRLF rest = true := by
  unfold noCRCRLF at h
  split at h
  · next heq => simp at heq
  · simp at h
  · next heq => simp at heq; obtain ⟨_, rfl⟩ := heq; exact h

theorem head_crlfToLf {rest : Chars} (h : (crlfToLf rest).head? = some '\n') :
    rest.head? = some '\n' ∨ ∃ r, rest = '\r' :: '\n' :: r := by
  unfold crlfToLf at h
  split at h
  · simp at h
  · exact .inr ⟨_, rfl⟩
  · simp at h; simp [h]

/-- **LF versus CRLF**, on the text: converting every CRLF of any text to LF keeps the physical lines. -/
theorem crlf_eq_lf_text (t : Chars) (h : noCRCRLF t = true) : splitLinesL (crlfToLf t) = splitLinesL t := by
  fun_induction crlfToLf t with
  | case1 => rfl
  | case2 rest ih =>
    have h1 := noCRCRLF_tail (noCRCRLF_tail h)
    simp [splitLinesL, ih h1]
  | case3 c rest hcr ih =>
    have h1 := noCRCRLF_tail h
    rw [splitLinesL_cons, splitLinesL_cons (rest := rest), ih h1]
    by_cases hc : c = '\n'
    · simp [hc]
    · have n1 : ¬ (c = '\r' ∧ rest.head? = some '\n') := by
        rintro ⟨e1, e2⟩
        cases rest with
        | nil => simp at e2
        | cons x xs => simp at e2; exact hcr xs e1 (by rw [e2])
      have n2 : ¬ (c = '\r' ∧ (crlfToLf rest).head? = some '\n') := by
        rintro ⟨e1, e2⟩
        rcases head_crlfToLf e2 with e3 | ⟨r, e3⟩
        · exact n1 ⟨e1, e3⟩
        · subst e1; subst e3; simp [noCRCRLF] at h
      simp [hc, n1, n2]

example : noCRCRLF "a\r\n\r\nb\rc\r\n".toList = true ∧
    crlfToLf "a\r\n\r\nb\rc\r\n".toList = "a\n\nb\rc\n".toList := by decide
/-- the side condition is needed -/
example : splitLinesL (crlfToLf "x\r\r\n".toList) ≠ splitLinesL "x\r\r\n".toList := by decide

/-! ## chunks -/

/-- a text cut at line terminators: first chunk, then (the terminator consumed by the cut was CRLF?, next chunk) … -/
def joinCuts : Chars → List (Bool × Chars) → Chars
  | c, [] => c
  | c, (crlf, d) :: rest => c ++ (if crlf then ['\r', '\n'] else ['\n']) ++ joinCuts d rest

/-- a chunk in front of an LF cut does not end with `\r` (otherwise the cut went through the middle of a CRLF) -/
def cutsOK : Chars → List (Bool × Chars) → Bool
  | _, [] => true
  | c, (crlf, d) :: rest => (crlf || c.getLast? != some '\r') && cutsOK d rest

/-- **Chunking**: splitting each chunk separately and concatenating (parser.py:31-32) gives exactly the physical lines of
the whole text (parser.py:29) — for any number of cuts, any chunk contents (chunks may hold many lines). -/
theorem split_chunks_exact (c : Chars) (cs : List (Bool × Chars)) (h : cutsOK c cs = true) :
    splitChunksL (c :: cs.map Prod.snd) = splitLinesL (joinCuts c cs) := by
  induction cs generalizing c with
  | nil => simp [splitChunksL, joinCuts]
  | cons x xs ih =>
    obtain ⟨crlf, d⟩ := x
    simp only [cutsOK, Bool.and_eq_true] at h
    have ih' := ih d h.2
    simp only [splitChunksL, List.map_cons, List.flatMap_cons] at ih' ⊢
    cases crlf with
    | true => simp [joinCuts, split_append_crlf, ih']
    | false =>
      have hcr : c.getLast? ≠ some '\r' := by simpa using h.1
      simp [joinCuts, split_append_lf _ _ hcr, ih']

/-- hence the same logical lines, indices included -/
theorem chunking_irrelevant (c : Chars) (cs : List (Bool × Chars)) (h : cutsOK c cs = true) :
    logicalLinesL (splitChunksL (c :: cs.map Prod.snd)) = logicalLinesL (splitLinesL (joinCuts c cs)) := by
  rw [split_chunks_exact c cs h]

example : cutsOK "a = 1 + \\\r\n  2".toList [(true, "# c\nb = 3".toList), (false, "c = 4".toList)] = true ∧
    logicalLinesL (splitChunksL ["a = 1 + \\\r\n  2".toList, "# c\nb = 3".toList, "c = 4".toList]) =
      ([(0, "a = 1 + 2".toList), (3, "b = 3".toList), (4, "c = 4".toList)], none) := by decide

/-- the non-comment physical lines, in order -/
def keptTexts (ls : List Chars) : List Chars := ls.filter (fun l => !isCommentL l)

theorem keptTexts_append (a b : List Chars) : keptTexts (a ++ b) = keptTexts a ++ keptTexts b := by
  simp [keptTexts]

/-- readlines-style chunks (each chunk keeps its final LF; `chunks` are given without it): the physical lines differ
from those of the concatenated text only by empty lines -/
theorem keepends_kept (chunks : List Chars) (last : Chars) :
    keptTexts (splitChunksL (chunks.map (· ++ ['\n']) ++ [last])) =
      keptTexts (splitLinesL ((chunks.map (· ++ ['\n'])).flatten ++ last)) := by
  induction chunks with
  | nil => simp [splitChunksL]
  | cons a rest ih =>
    obtain ⟨X, h1, h2⟩ := split_snoc_nl a
    have e : ((a :: rest).map (· ++ ['\n'])).flatten ++ last = a ++ '\n' :: ((rest.map (· ++ ['\n'])).flatten ++ last) := by
      simp
    rw [e, h2]
    simp only [splitChunksL, List.map_cons, List.cons_append, List.flatMap_cons] at ih ⊢
    rw [h1, keptTexts_append, keptTexts_append, keptTexts_append, ih]
    simp [keptTexts, isCommentL, lstripL]

/-! ## the line loop -/

/-- **Mirror = specification**: the loop of parser.py:42-67/402-405 (pending `line_continuation`, `ix_line` bookkeeping,
comment skip inside a continuation, `.rstrip()` for the first part and `.strip()` for the others, the dangling test)
computes: drop comment/blank physical lines, then join maximal backslash runs; index = first physical line. -/
theorem mirror_eq_spec_lines (lines : List Chars) : logicalLinesL lines = logicalLinesSpecL lines := by
  unfold logicalLinesL logicalLinesSpecL
  rw [loopL_eq_loopK]
  exact loopK_eq_spec (kept 0 lines) [] (by simp)

/-- the same, for the `String` interface -/
theorem mirror_eq_spec_lines_string (lines : List String) : logicalLines lines = logicalLinesSpec lines := by
  unfold logicalLines logicalLinesCore logicalLinesSpec
  rw [mirror_eq_spec_lines]
  generalize logicalLinesSpecL (lines.map String.toList) = r
  obtain ⟨a, b⟩ := r
  cases b <;> rfl

example : logicalLinesSpecL ["x = f(1, \\ ".toList, "".toList, "  # why".toList, "    2) ".toList, "y \\".toList] =
    ([(0, "x = f(1, 2)".toList)], some (4, "y".toList)) := by decide

/-- **Comment / blank insertion**: line lists with the same non-comment lines (so: comment and blank lines inserted or
removed anywhere, including between the parts of a continued line) have the same logical line texts and the same
dangling text. -/
theorem comment_blank_insertion (ls ls' : List Chars) (h : keptTexts ls' = keptTexts ls) :
    texts (logicalLinesL ls') = texts (logicalLinesL ls) := by
  unfold logicalLinesL
  rw [loopL_eq_loopK, loopL_eq_loopK]
  apply loopK_texts
  rw [kept_map_snd, kept_map_snd]; exact h

example : keptTexts ["# c".toList, "a = 1 + \\".toList, "".toList, "#\\".toList, " 2".toList, "  ".toList] =
    keptTexts ["a = 1 + \\".toList, " 2".toList] := by decide

/-- readlines-style chunks: same logical line texts as the concatenated text -/
theorem chunking_keepends_irrelevant (chunks : List Chars) (last : Chars) :
    texts (logicalLinesL (splitChunksL (chunks.map (· ++ ['\n']) ++ [last]))) =
      texts (logicalLinesL (splitLinesL ((chunks.map (· ++ ['\n'])).flatten ++ last))) :=
  comment_blank_insertion _ _ (keepends_kept chunks last)

example : splitChunksL (["a = 1".toList, "b = 2".toList].map (· ++ ['\n']) ++ ["c".toList]) =
    ["a = 1".toList, [], "b = 2".toList, [], "c".toList] := by decide

/-- insert one physical line at position `p` -/
def insertAt (p : Nat) (c : Chars) (ls : List Chars) : List Chars := ls.take p ++ c :: ls.drop p

/-- **… and shifts indices as expected**: a comment/blank line inserted at position `p` leaves every logical line in
place and adds one to exactly the indices `≥ p` (a continued line whose first part is before `p` keeps its index even
when the insertion is between its parts). -/
theorem comment_insertion_shift (p : Nat) (c : Chars) (ls : List Chars) (hc : isCommentL c = true) (hp : p ≤ ls.length) :
    logicalLinesL (insertAt p c ls) = reindex (fun i => if i < p then i else i + 1) (logicalLinesL ls) := by
  unfold logicalLinesL insertAt
  rw [loopL_eq_loopK, loopL_eq_loopK]
  have hk : kept 0 (ls.take p ++ c :: ls.drop p) =
      (kept 0 ls).map (fun x => ((fun i => if i < p then i else i + 1) x.1, x.2)) := by
    conv => rhs; rw [← List.take_append_drop p ls]
    rw [kept_append, kept_append, List.map_append]
    have hlen : (ls.take p).length = p := by simp [hp]
    congr 1
    · symm; rw [List.map_congr_left, List.map_id']
      intro x hx
      have := kept_bounds _ 0 x hx
      rw [hlen] at this
      have h2 : x.1 < p := by omega
      simp [h2]
    · simp only [kept, hc, if_true, hlen, Nat.zero_add]
      rw [kept_shift 1 _ p, List.map_congr_left]
      intro x hx
      have := kept_bounds _ p x hx
      have : ¬ x.1 < p := by omega
      simp [this]
  rw [hk]
  have := loopK_reindex (fun i => if i < p then i else i + 1) (kept 0 ls) [] 0
  rw [← this]
  exact loopK_nil_ix _ _ _

example : logicalLinesL (insertAt 1 "# note".toList ["a = 1 + \\".toList, "2".toList, "b".toList]) =
    ([(0, "a = 1 + 2".toList), (3, "b".toList)], none) ∧
    logicalLinesL ["a = 1 + \\".toList, "2".toList, "b".toList] =
    ([(0, "a = 1 + 2".toList), (2, "b".toList)], none) := by decide

/-- **Continuation**: at any point where no continuation is pending (loop state `cont = []`, any index `i`, any
following lines), the two physical lines `A \` and `B` yield the one logical line `rstrip(A) + " " + strip(B)` with the
index of the first, exactly as if that text had been written on one physical line; the following lines are processed
identically, one index further. -/
theorem continuation_join (i ix : Nat) (A' A B : Chars) (rest : List Chars)
    (hA : isCommentL A' = false) (hc : contBody? A' = some A) (hB : isCommentL B = false) (hBc : contBody? B = none) :
    loopL i (A' :: B :: rest) [] ix = emit (i, joined A B) (loopL (i + 2) rest [] i) ∧
    loopL i (joined A B :: rest) [] ix = emit (i, joined A B) (loopL (i + 1) rest [] i) ∧
    loopL (i + 2) rest [] i = reindex (· + 1) (loopL (i + 1) rest [] i) := by
  obtain ⟨hJ, hJc⟩ := joined_plain hA hc hB hBc
  refine ⟨?_, ?_, ?_⟩
  · simp [loopL, hA, hc, hB, hBc, joinSp, joined]
  · simp [loopL, hJ, hJc]
  · rw [loopL_eq_loopK, loopL_eq_loopK, kept_shift 1 rest (i + 1), loopK_nil_ix _ i (i + 1),
      ← loopK_reindex (· + 1) _ [] i, loopK_nil_ix _ (i + 1) ((· + 1) i)]

example : contBody? "  a = f(1, \\  ".toList = some "  a = f(1, ".toList ∧
    joined "  a = f(1, ".toList "\t 2)  ".toList = "  a = f(1, 2)".toList := by decide

/-- **Compositionality**: when the lines `pre` end with no continuation pending, the logical lines of `pre ++ post` are
those of `pre` followed by those of `post` (indices moved by `pre.length`). -/
theorem logical_lines_compositional (pre post : List Chars) (h : (logicalLinesL pre).2 = none) :
    logicalLinesL (pre ++ post) =
      ((logicalLinesL pre).1 ++ (reindex (· + pre.length) (logicalLinesL post)).1,
       (reindex (· + pre.length) (logicalLinesL post)).2) := by
  unfold logicalLinesL at h ⊢
  rw [loopL_eq_loopK] at h
  rw [loopL_eq_loopK, loopL_eq_loopK, loopL_eq_loopK, kept_append, loopK_append_clean _ _ _ _ h]
  have : loopK (kept (0 + pre.length) post) [] 0 = reindex (· + pre.length) (loopK (kept 0 post) [] 0) := by
    rw [kept_shift pre.length post 0, ← loopK_reindex (· + pre.length) _ [] 0]
    exact loopK_nil_ix _ _ _
  rw [this]

/-! ## the `String` interface -/

/-- the `String` interface is the `List Char` model, wrapped -/
theorem scriptLines_eq (chunks : List String) :
    scriptLines chunks =
      (let r := logicalLinesL (splitChunksL (chunks.map String.toList))
       (r.1.map (fun x => (x.1, String.ofList x.2)), r.2.map LineErr.ofDangling)) := by
  unfold scriptLines logicalLinesCore
  have : (chunks.flatMap splitLines).map String.toList = splitChunksL (chunks.map String.toList) := by
    unfold splitChunksL splitLines
    induction chunks with
    | nil => rfl
    | cons c cs ih => simp [List.flatMap_cons, ih, Function.comp_def]
  rw [this]

/-- chunking at the `String` interface: chunks `c₀, c₁, …` cut at terminators give the logical lines (texts, indices,
dangling error) of the whole text -/
theorem scriptLines_chunks (c : Chars) (cs : List (Bool × Chars)) (h : cutsOK c cs = true) :
    scriptLines ((c :: cs.map Prod.snd).map String.ofList) = scriptLines [String.ofList (joinCuts c cs)] := by
  rw [scriptLines_eq, scriptLines_eq]
  have e1 : ((c :: cs.map Prod.snd).map String.ofList).map String.toList = c :: cs.map Prod.snd := by
    simp [Function.comp_def]
  have e2 : ([String.ofList (joinCuts c cs)]).map String.toList = [joinCuts c cs] := by simp
  rw [e1, e2, split_chunks_exact c cs h]
  simp [splitChunksL]

/-! ## the statement cascade -/

/-- **Indentation** does not change which statement pattern matches nor its groups; `match.start(expr)` moves by the
number of blanks put in front. -/
theorem leading_ws_irrelevant_shape (ws l : Chars) (h : allSpace ws = true) : shape (ws ++ l) = (shape l).shift ws.length :=
  shape_leading_ws l h

/-- … lifted through `classify`: for every statement kind that is not an expression statement, with NO assumption about
the expression parser (it receives the same text): same classified line, an error column moves by the indentation. -/
theorem leading_ws_irrelevant_stmt (parseExpr : String → Except ParseErr Expr) (ws l : Chars) (h : allSpace ws = true)
    (hs : shape l ≠ .exprStmt) : classifyL parseExpr (ws ++ l) = shiftErr ws.length (classifyL parseExpr l) :=
  classifyL_leading_ws_stmt parseExpr l h hs

/-- … and for every line, up to the error column, for every expression parser that skips leading blanks
(`SkipsLeadingBlanks`; `classify` is parametric in the expression parser, the hypothesis is about that parameter). -/
theorem leading_ws_irrelevant (parseExpr : String → Except ParseErr Expr) (hpe : SkipsLeadingBlanks parseExpr)
    (ws l : Chars) (h : allSpace ws = true) :
    EqUpToColumn (classifyL parseExpr (ws ++ l)) (classifyL parseExpr l) :=
  classifyL_leading_ws parseExpr hpe l h

/-- the hypothesis is inhabited (a parser that strips blanks and accepts only the variable `x`) -/
example : SkipsLeadingBlanks (fun s => if lstripL s.toList = ['x'] then .ok (.variable (.user "x")) else .error ⟨"Syntax error", 1⟩) := by
  intro ws s h
  simp only [String.toList_ofList, lstrip_append_ws s h]
  split <;> simp [EqUpToColumn]

example : shape "\t  if x > 1 :  ".toList = .ifBegin 6 "x > 1 ".toList ∧ shape "if x > 1 :  ".toList = .ifBegin 3 "x > 1 ".toList := by
  decide
example : allSpace "\t 　".toList = true := by decide

/-- **Trailing blanks** (`_partial`).  Full statement: for every line `l` and blanks `ws`, `shape (l ++ ws)` is `shape l`
with `ws` appended to an expression text that runs to the end of the line (assignment, return).  That statement is
FALSE as it stands for `l = "a ="` (`a =` is an expression statement, `a = ` an assignment of the expression `' '`; both are
syntax errors, at different columns).  Proved here, per recogniser of the cascade, for all texts: the six keyword-only
statements, `else:`, the `if`/`elif`/`while` headers, and `return` (bare `return` stays bare whatever follows — F22).
Not proved: the same for `function`, `for`, label, `jump`/`jumpif` and `include` lines (true on every tested input). -/
theorem trailing_ws_irrelevant_partial (s ws : Chars) (h : allSpace ws = true) :
    (∀ kw ∈ ["endfunction", "endif", "endwhile", "endfor", "break", "continue"], ∀ sh,
        kwOnly? kw sh (s ++ ws) = kwOnly? kw sh s) ∧
    else? (s ++ ws) = else? s ∧
    (∀ kw ∈ ["if", "elif", "while"], ∀ mk, kwExprColon? kw mk (s ++ ws) = kwExprColon? kw mk s) ∧
    return? (s ++ ws) = (return? s).map (addTrail ws) := by
  refine ⟨?_, else?_append_ws s ws h, ?_, return?_append_ws s ws h⟩
  · intro kw hkw sh
    simp only [List.mem_cons, List.not_mem_nil, or_false] at hkw
    rcases hkw with rfl | rfl | rfl | rfl | rfl | rfl <;> exact kwOnly?_append_ws _ sh s ws (by decide) h
  · intro kw hkw mk
    simp only [List.mem_cons, List.not_mem_nil, or_false] at hkw
    rcases hkw with rfl | rfl | rfl <;> exact kwExprColon?_append_ws _ mk s ws (by decide) h

/-- the one-word statements: any indentation, any trailing blanks, same `shape` -/
def keywordLines : List (String × Shape) :=
  [("endfunction", .funcEnd), ("endif", .endif), ("endwhile", .endwhile), ("endfor", .endfor), ("break", .break_),
   ("continue", .continue_), ("return", .ret none)]

/-- **Layout of keyword lines** (includes the F22 regression: `return` followed by any number of blanks is a bare return). -/
theorem keyword_line_layout (ind ws : Chars) (hi : allSpace ind = true) (hw : allSpace ws = true) :
    ∀ p ∈ keywordLines, shape (ind ++ (p.1.toList ++ ws)) = p.2 := by
  intro p hp
  rw [shape_leading_ws _ hi]
  have key : ∀ (c : Char) (rest : Chars), isIdStart c = true → (∀ x ∈ rest, isWord x = true) → 'a' ≠ c → 'f' ≠ c →
      'j' ≠ c → 'i' ≠ c → shape (c :: rest ++ ws) = shape (c :: rest) := by
    intro c rest h1 h2 h3 h4 h5 h6
    have hns : isSpace c = false := by
      cases hs : isSpace c with
      | false => rfl
      | true => have := space_not_word hs; simp [idStart_isWord h1] at this
    have e1 : lstripL (c :: rest ++ ws) = c :: (rest ++ ws) := by simp [lstripL, hns]
    have e2 : lstripL (c :: rest) = c :: rest := by simp [lstripL, hns]
    unfold shape
    simp only [e1, e2, shapeS_word_ws h1 h2 hw h3 h4 h5 h6]
    simp
  have fin : ∀ (kw : String) (sh : Shape) (c : Char) (rest : Chars), kw.toList = c :: rest → isIdStart c = true →
      (∀ x ∈ rest, isWord x = true) → 'a' ≠ c → 'f' ≠ c → 'j' ≠ c → 'i' ≠ c → shape (c :: rest) = sh →
      sh.shift ind.length = sh → (shape (kw.toList ++ ws)).shift ind.length = sh := by
    intro kw sh c rest e h1 h2 h3 h4 h5 h6 h7 h8
    rw [e, key c rest h1 h2 h3 h4 h5 h6, h7, h8]
  simp only [keywordLines, List.mem_cons, List.not_mem_nil, or_false] at hp
  rcases hp with rfl | rfl | rfl | rfl | rfl | rfl | rfl
  · exact fin "endfunction" _ 'e' "ndfunction".toList rfl (by decide) (by decide) (by decide) (by decide) (by decide)
      (by decide) (by decide) rfl
  · exact fin "endif" _ 'e' "ndif".toList rfl (by decide) (by decide) (by decide) (by decide) (by decide) (by decide)
      (by decide) rfl
  · exact fin "endwhile" _ 'e' "ndwhile".toList rfl (by decide) (by decide) (by decide) (by decide) (by decide)
      (by decide) (by decide) rfl
  · exact fin "endfor" _ 'e' "ndfor".toList rfl (by decide) (by decide) (by decide) (by decide) (by decide) (by decide)
      (by decide) rfl
  · exact fin "break" _ 'b' "reak".toList rfl (by decide) (by decide) (by decide) (by decide) (by decide) (by decide)
      (by decide) rfl
  · exact fin "continue" _ 'c' "ontinue".toList rfl (by decide) (by decide) (by decide) (by decide) (by decide)
      (by decide) (by decide) rfl
  · exact fin "return" _ 'r' "eturn".toList rfl (by decide) (by decide) (by decide) (by decide) (by decide) (by decide)
      (by decide) rfl

example : shape "\t return \t  ".toList = .ret none ∧ shape "return  1 ".toList = .ret (some (8, "1 ".toList)) ∧
    shape "  endwhile ".toList = .endwhile ∧ return? "return 1".toList = some (.ret (some (7, "1".toList))) ∧
    return? ("return 1".toList ++ "  ".toList) = some (.ret (some (7, "1  ".toList))) := by decide

/-- the classifier on one line of every kind (the cascade order matters: `a == b` is an assignment of `= b`) -/
example :
    shape "a == b".toList = .assign "a".toList 3 "= b".toList ∧
    shape "async function f(a, b...) :".toList = .funcBegin "f".toList ["a".toList, "b".toList] true true ∧
    shape "for x , i in y :".toList = .forBegin "x".toList (some "i".toList) 13 "y ".toList ∧
    shape "jumpif (a) ) b".toList = .jump "b".toList (some (8, "a) ".toList)) ∧
    shape "include 'it\\'s'".toList = .include "it's".toList false ∧
    shape "if :".toList = .label "if".toList ∧ shape "if   :".toList = .ifBegin 4 " ".toList ∧
    shape "f(x)".toList = .exprStmt := by decide

end C10
