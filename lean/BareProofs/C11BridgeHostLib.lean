import BareProofs.C11Bridge

/-!
# C11Bridge, second host — `HostLib.hostLib` (world `LWorld` = `Lib.Heap` + log + partials)

`HostLib.hostLib` evaluates operators, `systemCompare` and the value-needle `arrayIndexOf` fallback with HostImpl's code on the
projection `LWorld.toImpl` (`Lib` cells converted by the isomorphism `ofLib`/`toLib`, `HostLibBridge.ofLib_toLib`).  A value of
an `LWorld` therefore denotes the closed value `reifyL w v = reify w.toImpl v`, and the theorems of `C11Bridge` transfer:

* `hostLib_compare_bridge`     `HostImpl.compare? w.toImpl a b = some (Compare.valueCompare pa pb)`
* `hostLib_relop`, `hostLib_relops_sign`, `hostLib_eval_relop`   the six relational operators of `hostLib`
* `hostLib_systemCompare`, `hostLib_call_systemCompare`           `Lib` does not model `systemCompare`: the fallback is HostImpl's
                                tree, lifted; the world is handed back unchanged
-/

namespace C11Bridge
open Machine HostImpl HostLib

/-- the closed value a value of an `LWorld` denotes -/
def reifyL (w : LWorld) (v : Value) : Option Compare.PValue := reify w.toImpl v

theorem hostLib_compare_bridge (w : LWorld) (a b : Value) (pa pb : Compare.PValue) (ha : reifyL w a = some pa)
    (hb : reifyL w b = some pb) : HostImpl.compare? w.toImpl a b = some (Compare.valueCompare pa pb) :=
  compare_bridge w.toImpl a b pa pb ha hb

/-- the relational operators of the second host are the sign tests of `Compare.valueCompare` on the denoted closed values -/
theorem hostLib_relop (w : LWorld) (op : BinOp) (rop : Compare.RelOp) (hop : relOf op = some rop) (a b : Value)
    (pa pb : Compare.PValue) (ha : reifyL w a = some pa) (hb : reifyL w b = some pb) :
    hostLib.binop op a b w = .bool (Compare.relop rop pa pb) :=
  machine_relop w.toImpl op rop hop a b pa pb ha hb

theorem hostLib_relops_sign (w : LWorld) (a b : Value) (pa pb : Compare.PValue) (ha : reifyL w a = some pa)
    (hb : reifyL w b = some pb) :
    hostLib.binop .eq a b w = .bool (Compare.valueCompare pa pb == 0) ∧
    hostLib.binop .ne a b w = .bool (Compare.valueCompare pa pb != 0) ∧
    hostLib.binop .le a b w = .bool (decide (Compare.valueCompare pa pb ≤ 0)) ∧
    hostLib.binop .lt a b w = .bool (decide (Compare.valueCompare pa pb < 0)) ∧
    hostLib.binop .ge a b w = .bool (decide (Compare.valueCompare pa pb ≥ 0)) ∧
    hostLib.binop .gt a b w = .bool (decide (Compare.valueCompare pa pb > 0)) :=
  machine_relops_sign w.toImpl a b pa pb ha hb

/-- … through the evaluator, on any configuration whose host is `hostLib` -/
theorem hostLib_eval_relop (cfg : Config LWorld) (hh : cfg.host = hostLib) (call : CallFn LWorld) (locals : Option Env)
    (op : BinOp) (rop : Compare.RelOp) (hop : relOf op = some rop) (l r : Expr) (st st1 st2 : State LWorld) (lv rv : Value)
    (hl : evalExpr cfg call locals l st = .ok lv st1) (hr : evalExpr cfg call locals r st1 = .ok rv st2)
    (pa pb : Compare.PValue) (ha : reifyL st2.world lv = some pa) (hb : reifyL st2.world rv = some pb) :
    evalExpr cfg call locals (.binary op l r) st = .ok (.bool (Compare.relop rop pa pb)) st2 := by
  have h := hostLib_relop st2.world op rop hop lv rv pa pb ha hb
  cases op <;> simp only [relOf, reduceCtorEq] at hop <;> rw [evalExpr, hl] <;>
    first | (intro hc; cases hc) | simp only [hr, hh, h]

theorem putBack_toImpl (w : LWorld) : putBack w.heap w.toImpl = w := by cases w; rfl

/-- `systemCompare(a, b)` on the second host: `Compare.valueCompare` of the denoted closed values, world unchanged -/
theorem hostLib_systemCompare (w : LWorld) (a b : Value) (pa pb : Compare.PValue) (ha : reifyL w a = some pa)
    (hb : reifyL w b = some pb) :
    hostLib.lib "systemCompare" [a, b] w = .ret (.ok (.num (Compare.valueCompare pa pb : Int))) w := by
  have hu : Lib.lib "systemCompare" ([a, b].map toLib) w.heap = (.unmodelled, w.heap) := rfl
  have hk : hostKeeps.contains "systemCompare" = true := by decide
  show HostLib.lib "systemCompare" [a, b] w = _
  unfold HostLib.lib
  rw [hu]
  simp only [fallback, hk, if_true]
  have := (machine_systemCompare w.toImpl a b pa pb ha hb).1
  rw [show HostImpl.lib "systemCompare" [a, b] w.toImpl = _ from this]
  simp only [lift, putBack_toImpl]

theorem hostLib_call_systemCompare (cfg : Config LWorld) (hh : cfg.host = hostLib) (fuel : Nat) (st : State LWorld)
    (a b : Value) (pa pb : Compare.PValue) (ha : reifyL st.world a = some pa) (hb : reifyL st.world b = some pb) :
    callValue cfg (fuel + 1) (.fn (.lib "systemCompare")) [a, b] st = .ok (.num (Compare.valueCompare pa pb : Int)) st := by
  rw [callValue, hh, hostLib_systemCompare st.world a b pa pb ha hb]
  rfl

/-- the world of the `C11Bridge` examples, as an `LWorld` -/
def exLW : LWorld := LWorld.ofImpl exW

theorem exLW_reify : reifyL exLW (.arr 2) = some exP0 ∧ reifyL exLW (.arr 3) = some exP1 ∧
    reifyL exLW (.arr 4) = some (.arr [exP0, exP0, exP1]) ∧ reifyL exLW (.arr 5) = none := by
  have : exLW.toImpl = exW := rfl
  simp only [reifyL, this]
  exact ⟨exW_reify.1, exW_reify.2.1, exW_reify.2.2.1, exW_reify.2.2.2.1⟩

example : hostLib.binop .eq (.arr 2) (.arr 3) exLW = .bool true ∧ hostLib.binop .gt (.arr 2) (.arr 4) exLW = .bool true ∧
    hostLib.lib "systemCompare" [.arr 2, .arr 4] exLW = .ret (.ok (.num 1)) exLW := by
  have h1 := hostLib_relops_sign exLW _ _ _ _ exLW_reify.1 exLW_reify.2.1
  have h2 := hostLib_relops_sign exLW _ _ _ _ exLW_reify.1 exLW_reify.2.2.1
  have h3 := hostLib_systemCompare exLW _ _ _ _ exLW_reify.1 exLW_reify.2.2.1
  rw [exP_cmp.1] at h1; rw [exP_cmp.2] at h2 h3
  exact ⟨h1.1, h2.2.2.2.2.2, by simpa using h3⟩

end C11Bridge
