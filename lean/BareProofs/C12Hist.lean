import BareProofs.C12HistLemmas

/-!
# C12Hist — one number type along a HISTORY of library calls and operator applications (extension of `C12` / `C12More`)

`LibH3` adds 21 host-level library functions (the number producers `jsonParse`, `numberParseFloat`, the datetime getters; the object
functions with numbers inside, `systemType` / `systemBoolean` / `systemIs`, `arraySort` on mixed int / float arrays) to the 15 of `LibH`
and the 21 of `LibH2`, assembles ONE dispatch `callAllH : Env → String → List HVal → Out PyNum` over the three libraries and defines
histories: a `Step` is a library call or an operator application whose operands are variables of a pool; the result is appended to the
pool and the post-call contents of the arguments are written back.  So the int produced by `arrayLength` flows into `arrayGet`, the
float produced by `+` into `stringRepeat`, the int / float chosen by `json.loads` for a number token into an index position …

**Main theorem `history_spelling_irrelevant`**: for ANY history (any length, any function names, any variable indices), any
environment of abstract host functions meeting `Sane` (rounding idempotent, small integers are doubles and print alike …), two initial
pools that are equal up to the int / float spelling of their numbers (at every depth) give pools equal up to spelling after EVERY
step - hence the same results, the same failure values (null / -1 / 0 / false / objectGet's default) and the same post-call argument
contents - provided the per-step hypothesis `histOkB` holds along both runs.

**Which form of the magnitude hypothesis**: it is stated PER STEP on the operands the step actually receives (`stepOkB`, a `Bool`): number
operands of `+ - * / %` are doubles and the exact `int ± int` / adjusted `int % int` result is a double; a host int whose text is taken
(`stringNew`, `arrayJoin`, `string + number`) is below 1e15; `mathRound` / `numberToFixed` get a double / small int and a digit count
0..22 (F15).  Every other step - all 15 functions of `LibH`, 17 of `LibH2`, all 21 of `LibH3`, the comparisons, `&&`, `||`, `!`, unary
`-` - needs nothing.  It is NOT a pool invariant, because "every integral number in the pool is below 1e15" is not preserved by `+`
(`history_bound_needed`: with the first step inside the bound and the second not, the two spellings part).
-/

namespace C12Hist
open LibH LibH2 LibH3 C12 C12More

set_option linter.unusedSimpArgs false

/-- forget the spelling of every number in a pool -/
abbrev absPool (p : Pool PyNum) : Pool Rat := p.map absV

/-- **T `callAll_refines`**: the single dispatch over `LibH`, `LibH2` and `LibH3`: for every function name and ALL argument lists the
    wrapped host-level call with spellings forgotten afterwards equals the one-number-type call on the abstracted arguments (value of
    the call expression incl. failure values, post-call contents of the arguments), under `callOkB` - which is `true` outright except for
    `stringNew`, `arrayJoin`, `mathRound`, `numberToFixed`. -/
theorem callAll_refines (E : Env) (hE : Sane E) (name : String) (args : List HVal) (h : callOkB E name args = true) :
    absOut (callAllH E name args) = callAllA E name (args.map absV) := by
  unfold callAllH callAllA
  unfold callOkB at h
  by_cases h1 : LibH.modelled.contains name = true
  · simp only [h1, if_true]
    exact libH_refines_lib name args
  · simp only [h1] at h ⊢
    by_cases h2 : modelled2.contains name = true
    · simp only [h2, if_true] at h ⊢
      refine libH2_refines_lib E hE name args (fun v hv => preBody_of_argsOkB E name v ?_)
      simpa [hv] using h
    · simp only [h2]
      exact libH3_refines_lib E.rnd name args

/-- **T `callAll_spelling_irrelevant`**: two argument lists equal up to spelling give the same result and post-call arguments up to
    spelling, for every function of the three libraries. -/
theorem callAll_spelling_irrelevant (E : Env) (hE : Sane E) (name : String) (args args' : List HVal)
    (h : args.map absV = args'.map absV) (hok : callOkB E name args = true) (hok' : callOkB E name args' = true) :
    absOut (callAllH E name args) = absOut (callAllH E name args') := by
  rw [callAll_refines E hE name args hok, callAll_refines E hE name args' hok', h]

/-- **T `spelling_irrelevant3`**: the `LibH3` functions alone, unconditionally: in particular a number KEY fails alike in both
    spellings, `systemType` says `number` for both, `systemBoolean` treats `0` and `0.0` alike, `arraySort` orders a mixed array by value. -/
theorem spelling_irrelevant3 (rnd : Rat → Rat) (name : String) (args args' : List HVal) (h : args.map absV = args'.map absV) :
    absOut (callH3 rnd name args) = absOut (callH3 rnd name args') := by
  rw [libH3_refines_lib, libH3_refines_lib, h]

/-- **T `step_refines`**: one step of a history. -/
theorem step_refines (E : Env) (hE : Sane E) (p : Pool PyNum) (s : Step) (h : stepOkB E p s = true) :
    absPool (stepH E p s) = stepA E (absPool p) s := by
  cases s with
  | call fn ixs =>
    have hargs : (ixs.map (getVar p)).map absV = ixs.map (getVar (absPool p)) := by
      simp [List.map_map, Function.comp_def, getVar_abs]
    have hc := callAll_refines E hE fn (ixs.map (getVar p)) h
    rw [hargs] at hc
    simp only [stepH, stepA, absPool, List.map_append, List.map_cons, List.map_nil, writeBack_abs, ← hc, absOut]
  | bin op a b =>
    simp only [stepH, stepA, absPool, List.map_append, List.map_cons, List.map_nil, ← getVar_abs]
    rw [opBin_refines E hE op _ _ h]
  | un op a =>
    simp only [stepH, stepA, absPool, List.map_append, List.map_cons, List.map_nil, ← getVar_abs, opUn_refines]

/-- **T `history_refines`**: the host-level run of ANY history, with the spellings forgotten after every step, is the one-number-type
    run from the abstracted pool. -/
theorem history_refines (E : Env) (hE : Sane E) : ∀ (h : List Step) (p : Pool PyNum), histOkB E h p = true →
    (runH E h p).map absPool = runA E h (absPool p)
  | [], _, _ => rfl
  | s :: r, p, hok => by
    simp only [histOkB, Bool.and_eq_true] at hok
    simp only [runH, runA, List.map_cons, step_refines E hE p s hok.1, history_refines E hE r (stepH E p s) hok.2]

/-- **T `history_spelling_irrelevant`** (main theorem): running a history at host level from two pools that are equal up to spelling
    yields pools equal up to spelling after every step - same results, same failure values, same post-call argument contents. -/
theorem history_spelling_irrelevant (E : Env) (hE : Sane E) (h : List Step) (p p' : Pool PyNum)
    (heq : absPool p = absPool p') (hok : histOkB E h p = true) (hok' : histOkB E h p' = true) :
    (runH E h p).map absPool = (runH E h p').map absPool := by
  rw [history_refines E hE h p hok, history_refines E hE h p' hok', heq]

/-- the value each step produced (the last slot of the pool after it) -/
def results {N : Type} (tr : List (Pool N)) : List (Option (Val N)) := tr.map List.getLast?

/-- **T `history_results_spelling_irrelevant`**: in particular the sequence of step results (failure values included) is the same up to
    spelling. -/
theorem history_results_spelling_irrelevant (E : Env) (hE : Sane E) (h : List Step) (p p' : Pool PyNum)
    (heq : absPool p = absPool p') (hok : histOkB E h p = true) (hok' : histOkB E h p' = true) :
    (results (runH E h p)).map (Option.map absV) = (results (runH E h p')).map (Option.map absV) := by
  have hh := congrArg results (history_spelling_irrelevant E hE h p p' heq hok hok')
  simpa [results, List.map_map, Function.comp_def, List.getLast?_map] using hh

/-! ### why a bound is needed -/

/-- an environment whose rounding moves 12 (standing for the first integer above 2^53 that is not a double) to 16 -/
def Ebad : Env where
  rnd := fun q => if q = 12 then 16 else q
  floatText := fun _ => ""
  jsonText := fun _ _ => ""
  fixedText := fun _ _ => ""
  opaqueText := fun _ _ => ""
  cleanup := id

/-- the number in the last slot of the last pool of a trace -/
def lastNum (tr : List (Pool Rat)) : Option Rat :=
  match tr.getLast? with
  | some p => (match p.getLast? with | some (.num q) => some q | _ => none)
  | none => none

/-- **T `history_bound_needed`**: repeated doubling `x = x + x`.  The rounding function is idempotent, the two initial pools are equal
    up to spelling, the hypothesis holds at the FIRST step (3 + 3 = 6 is exact in both spellings) but not at the second (6 + 6 = 12 is
    not representable): the int spelling keeps the exact 12, the float spelling holds the rounded 16 - the pools are no longer equal up
    to spelling.  So the magnitude condition cannot be dropped, and it cannot be a condition on the INITIAL pool only. -/
theorem history_bound_needed :
    (∀ q, Ebad.rnd (Ebad.rnd q) = Ebad.rnd q) ∧
    absPool [.num (.int 3)] = absPool [.num (.float 3)] ∧
    stepOkB Ebad [.num (.int 3)] (.bin .add 0 0) = true ∧ stepOkB Ebad [.num (.float 3)] (.bin .add 0 0) = true ∧
    histOkB Ebad [.bin .add 0 0, .bin .add 1 1] [.num (.int 3)] = false ∧
    (runH Ebad [.bin .add 0 0, .bin .add 1 1] [.num (.int 3)]).map absPool ≠
      (runH Ebad [.bin .add 0 0, .bin .add 1 1] [.num (.float 3)]).map absPool := by
  refine ⟨?_, by simp [absPool], by decide +kernel, by decide +kernel, by decide +kernel, ?_⟩
  · intro q
    by_cases h : q = 12
    · simp only [Ebad, h, if_true]; decide +kernel
    · simp [Ebad, h]
  · intro heq
    have h := congrArg lastNum heq
    revert h
    decide +kernel

/-! ### the host typing of produced numbers, and non-vacuity of the hypotheses -/

/-- **T `jsonParse_token_typing`**: what `json.loads` makes of a number token: without fraction and exponent a host `int`, otherwise a host
    `float` holding the double nearest to the decimal value - and after forgetting the spelling both are the same number. -/
theorem jsonParse_token_typing (rnd : Rat → Rat) (n : Int) (t : Json.Str) :
    ofJ hOps rnd (.num (.int n)) = .num (.int n) ∧
    ofJ hOps rnd (.num (.dec t)) = .num (.float (rnd ((NumText.decValL t).getD 0))) ∧
    absV (ofJ hOps rnd (.num (.int n))) = ofJ aOps rnd (.num (.int n)) := by
  refine ⟨by simp [ofJ, hOps], by simp [ofJ, hOps], ofJ_abs rnd _⟩

/-- `jsonParse('[1, 1.0, 1e2, {"a": 2, "a": 3.5}]')`: int, float, float; the repeated key keeps its last value -/
theorem jsonParse_example :
    (match (callH3 id "jsonParse" [.str "[1, 1.0, 1e2, {\"a\": 2, \"a\": 3.5}]"]).result with
     | .arr [.num (.int 1), .num (.float a), .num (.float b), .obj [("a", .num (.float c))]] => a == 1 && b == 100 && c == 7 / 2
     | _ => false) = true := by decide +kernel

/-- **T `bucket_key_spelling`**: the typed bucket key of data.py (`('number', value)`): `1` and `1.0` share a key, `True` and `1` do
    not (the general statement is `C12.keyEq_abs`). -/
theorem bucket_key_spelling :
    keyEq pyEq (.num (.int 1)) (.num (.float 1)) = true ∧ keyEq pyEq (.bool true) (.num (.int 1)) = false ∧
    keyEq pyEq (.arr [.num (.float 2), .str "x"]) (.arr [.num (.int 2), .str "x"]) = true := by
  decide +kernel

/-- **T `objectSet_number_key_fails`**: a number key is rejected by validation in either spelling: result null, object untouched. -/
theorem objectSet_number_key_fails :
    (match callH3 id "objectSet" [.obj [("a", .num (.int 1))], .num (.int 1), .str "v"] with
     | ⟨.null, [.obj [("a", .num (.int 1))], _, _]⟩ => true
     | _ => false) = true ∧
    (match callH3 id "objectSet" [.obj [("a", .num (.int 1))], .num (.float 1), .str "v"] with
     | ⟨.null, [.obj [("a", .num (.int 1))], _, _]⟩ => true
     | _ => false) = true ∧
    (match callH3 id "objectGet" [.null, .str "k", .num (.float 5)] with
     | ⟨.num (.float q), _⟩ => q == 5
     | _ => false) = true := by
  decide +kernel

/-- a history inside the hypotheses: `n = arrayLength(a); i = n - one; x = arrayGet(a, i); s = stringRepeat('ab', i); t = s + x;
    d = datetimeNew(2020, i, n); m = datetimeMonth(d); y = arrayGet(a, m)` from the int and from the float spelling of the pool -/
def exHist : List Step :=
  [.call "arrayLength" [0], .bin .sub 4 1, .call "arrayGet" [0, 5], .call "stringRepeat" [2, 5], .bin .add 7 6,
   .call "datetimeNew" [3, 5, 4], .call "datetimeMonth" [9], .call "arrayGet" [0, 10]]

def exPoolI : Pool PyNum := [.arr [.num (.int 7), .num (.int 8), .num (.int 9)], .num (.int 1), .str "ab", .num (.int 2020)]
def exPoolF : Pool PyNum := [.arr [.num (.float 7), .num (.int 8), .num (.float 9)], .num (.float 1), .str "ab", .num (.float 2020)]

/-- the hypotheses of `history_spelling_irrelevant` are met by a non-trivial instance (8 steps with five flows of a produced number
    into an index / count / field position) -/
theorem exHist_ok : histOkB E0 exHist exPoolI = true ∧ histOkB E0 exHist exPoolF = true ∧ absPool exPoolI = absPool exPoolF := by
  refine ⟨by decide +kernel, by decide +kernel, by simp [absPool, exPoolI, exPoolF]⟩

/-- … and the conclusion on it, obtained from the theorem (not by evaluation) -/
example : (runH E0 exHist exPoolI).map absPool = (runH E0 exHist exPoolF).map absPool :=
  history_spelling_irrelevant E0 sane_E0 exHist exPoolI exPoolF exHist_ok.2.2 exHist_ok.1 exHist_ok.2.1

/-- `callOkB` is not trivially true: `stringNew` of a host int beyond 1e15 is outside the hypothesis -/
example : callOkB E0 "stringNew" [.num (.int (10 ^ 15))] = false ∧ callOkB E0 "stringNew" [.num (.int (10 ^ 15 - 1))] = true := by
  decide +kernel

end C12Hist
