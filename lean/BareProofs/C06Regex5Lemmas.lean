import BareProofs.C06Regex4Lemmas

/-!
# C06Regex5Lemmas — `_R_SCRIPT_FUNCTION_ARG_SPLIT.split(args)` = the identifiers `Scan.argsLoop` collects; reading of the
`function` groups
-/

namespace C06Regex
open Rx Text Scan RxPatterns

/-! ## the text consumed by `argsLoop` -/

/-- the text `(?:\s*,\s*ident)*` consumes = what `argsLoop` skips -/
def argsText : Nat → Chars → Chars
  | 0, _ => []
  | n + 1, r =>
    match lstripL r with
    | x :: r1 =>
      if x = ',' then
        match ident? (lstripL r1) with
        | some (a, r2) => r.takeWhile isSpace ++ ',' :: (r1.takeWhile isSpace ++ a ++ argsText n r2)
        | none => []
      else []
    | [] => []

theorem argsText_succ_some (n : Nat) (r r1 a r2 : Chars) (h1 : lstripL r = ',' :: r1) (h2 : ident? (lstripL r1) = some (a, r2)) :
    argsText (n + 1) r = r.takeWhile isSpace ++ ',' :: (r1.takeWhile isSpace ++ a ++ argsText n r2) := by
  simp [argsText, h1, h2]

theorem argsText_succ_noident (n : Nat) (r r1 : Chars) (h1 : lstripL r = ',' :: r1) (h2 : ident? (lstripL r1) = none) :
    argsText (n + 1) r = [] := by
  simp [argsText, h1, h2]

theorem argsText_succ_nocomma (n : Nat) (r : Chars) (h1 : ∀ r1, lstripL r ≠ ',' :: r1) : argsText (n + 1) r = [] := by
  rw [argsText]
  cases hl : lstripL r with
  | nil => rfl
  | cons x r1 =>
    have : ¬ x = ',' := fun e => h1 r1 (by rw [hl, e])
    simp [this]

theorem argsText_spec : ∀ (n : Nat) (r : Chars), r = argsText n r ++ (argsLoop n r).2
  | 0, r => rfl
  | n + 1, r => by
    cases hl : lstripL r with
    | nil =>
      rw [argsText_succ_nocomma n r (fun r1 e => by rw [hl] at e; cases e),
        argsLoop_succ_nocomma n r (fun r1 e => by rw [hl] at e; cases e)]; rfl
    | cons x r1 =>
      by_cases hx : x = ','
      · subst hx
        cases hi : ident? (lstripL r1) with
        | none => rw [argsText_succ_noident n r r1 hl hi, argsLoop_succ_noident n r r1 hl hi]; rfl
        | some ar =>
          obtain ⟨a, r2⟩ := ar
          rw [argsText_succ_some n r r1 a r2 hl hi, argsLoop_succ_some n r r1 a r2 hl hi]
          have e1 := (List.takeWhile_append_dropWhile (p := isSpace) (l := r)).symm
          rw [show r.dropWhile isSpace = ',' :: r1 from hl] at e1
          have e2 := (List.takeWhile_append_dropWhile (p := isSpace) (l := r1)).symm
          rw [show r1.dropWhile isSpace = a ++ r2 from ident?_eq_append hi] at e2
          have e3 := argsText_spec n r2
          simp only [List.append_assoc, List.cons_append]
          rw [← e3, ← e2, ← e1]
      · rw [argsText_succ_nocomma n r (fun r1' e => by rw [hl] at e; exact hx (List.cons.inj e).1),
          argsLoop_succ_nocomma n r (fun r1' e => by rw [hl] at e; exact hx (List.cons.inj e).1)]; rfl

theorem take_argsText (n : Nat) (r : Chars) : r.take (r.length - (argsLoop n r).2.length) = argsText n r := by
  have e := argsText_spec n r
  have hl := congrArg List.length e
  simp only [List.length_append] at hl
  rw [show r.length - (argsLoop n r).2.length = (argsText n r).length from by omega]
  conv => lhs; arg 2; rw [e]
  simp

/-! ## `\s*,\s*` at one position, and `split` -/

theorem argSplit_match (s : Chars) :
    matchFrom functionArgSplit 0 s = match lstripL s with
      | x :: r1 =>
        if x = ',' then some ⟨0 + (s.takeWhile isSpace).length + 1 + (r1.takeWhile isSpace).length, lstripL r1, []⟩ else none
      | [] => none := by
  unfold matchFrom functionArgSplit lit
  rw [ws_lit_det false ',' (by decide)]
  cases lstripL s with
  | nil => rfl
  | cons x r1 =>
    by_cases hx : x = ','
    · simp only [hx, if_true]
      simp only [ws, sp]
      rw [star_atom_backoff, backoff_some _ _ _ _ rfl, adv_takeWhile]
      simp [skip, space_test, lstripL]
    · simp [hx]

theorem splitAux_nil (r : Rx) (fuel : Nat) (cur : Chars) : splitAux r fuel cur [] = [cur.reverse] := by
  cases fuel <;> simp [splitAux]

/-- scanning over word characters: no separator starts there -/
theorem splitAux_word : ∀ (w : Chars) (fuel : Nat) (cur X : Chars), (∀ x ∈ w, isWord x = true) → w.length ≤ fuel →
    splitAux functionArgSplit fuel cur (w ++ X) = splitAux functionArgSplit (fuel - w.length) (w.reverse ++ cur) X
  | [], fuel, cur, X, _, _ => by simp
  | c :: w, 0, cur, X, _, h => by simp at h
  | c :: w, fuel + 1, cur, X, hw, h => by
    have hc : isWord c = true := hw c (by simp)
    have hs : isSpace c = false := word_not_space hc
    have hne : ¬ c = ',' := fun e => by rw [e] at hc; exact absurd hc (by decide)
    rw [List.cons_append, splitAux, argSplit_match]
    simp only [lstripL, List.dropWhile_cons, hs, Bool.false_eq_true, if_false, hne]
    rw [splitAux_word w fuel (c :: cur) X (fun x hx => hw x (List.mem_cons_of_mem _ hx)) (by simpa using h)]
    simp

theorem lstrip_tw_cons (r : Chars) (x : Char) (X : Chars) (hx : isSpace x = false) :
    lstripL (r.takeWhile isSpace ++ x :: X) = x :: X ∧ (r.takeWhile isSpace ++ x :: X).takeWhile isSpace = r.takeWhile isSpace := by
  constructor
  · simp only [lstripL]
    rw [List.dropWhile_append_of_pos (fun a ha => mem_takeWhile_p _ _ _ ha)]
    simp [List.dropWhile_cons, hx]
  · rw [List.takeWhile_append_of_pos (fun a ha => mem_takeWhile_p _ _ _ ha)]
    simp [List.takeWhile_cons, hx]

/-- **`_R_SCRIPT_FUNCTION_ARG_SPLIT.split` of `ident(?:\s*,\s*ident)*` = the identifiers** -/
theorem splitAux_args : ∀ (n : Nat) (r : Chars) (fuel : Nat) (cur w : Chars), (∀ x ∈ w, isWord x = true) →
    (w ++ argsText n r).length ≤ fuel →
    splitAux functionArgSplit fuel cur (w ++ argsText n r) = (cur.reverse ++ w) :: (argsLoop n r).1
  | 0, r, fuel, cur, w, hw, hf => by
    have hf' : w.length ≤ fuel := by simpa [argsText] using hf
    simp only [argsText, argsLoop_zero]
    rw [splitAux_word w fuel cur [] hw hf', splitAux_nil]
    simp
  | n + 1, r, fuel, cur, w, hw, hf => by
    have base : argsText (n + 1) r = [] → (argsLoop (n + 1) r).1 = [] →
        splitAux functionArgSplit fuel cur (w ++ argsText (n + 1) r) = (cur.reverse ++ w) :: (argsLoop (n + 1) r).1 := by
      intro e1 e2
      rw [e1, e2, splitAux_word w fuel cur [] hw (by rw [e1] at hf; simpa using hf), splitAux_nil]
      simp
    cases hl : lstripL r with
    | nil =>
      exact base (argsText_succ_nocomma n r (fun r1 e => by rw [hl] at e; cases e))
        (by rw [argsLoop_succ_nocomma n r (fun r1 e => by rw [hl] at e; cases e)])
    | cons x r1 =>
      by_cases hx : x = ','
      · subst hx
        cases hi : ident? (lstripL r1) with
        | none => exact base (argsText_succ_noident n r r1 hl hi) (by rw [argsLoop_succ_noident n r r1 hl hi])
        | some ar =>
          obtain ⟨a, r2⟩ := ar
          have ha := ident?_word hi
          rw [argsText_succ_some n r r1 a r2 hl hi, argsLoop_succ_some n r r1 a r2 hl hi] at *
          simp only [List.length_append, List.length_cons] at hf
          rw [splitAux_word w fuel cur _ hw (by omega)]
          -- the separator
          obtain ⟨hs1, hs2⟩ := lstrip_tw_cons r ',' (r1.takeWhile isSpace ++ a ++ argsText n r2) (by decide)
          have hane : a ≠ [] := by
            intro e; rw [e] at hi
            cases hlr : lstripL r1 with
            | nil => rw [hlr] at hi; simp [ident?] at hi
            | cons c cs =>
              rw [hlr] at hi
              by_cases hc : isIdStart c = true
              · simp [ident?, hc] at hi
              · simp [ident?, hc] at hi
          obtain ⟨a0, a', rfl⟩ := List.exists_cons_of_ne_nil hane
          have ha0 : isSpace a0 = false := word_not_space (ha a0 (by simp))
          have hs3 := lstrip_tw_cons r1 a0 (a' ++ argsText n r2) ha0
          obtain ⟨f', hf'⟩ : ∃ f', fuel - w.length = f' + 1 := ⟨fuel - w.length - 1, by omega⟩
          rw [hf']
          have hsne : r.takeWhile isSpace ++ ',' :: (r1.takeWhile isSpace ++ (a0 :: a') ++ argsText n r2) ≠ [] := by simp
          obtain ⟨c0, t0, e0⟩ := List.exists_cons_of_ne_nil hsne
          rw [e0, splitAux, ← e0, argSplit_match, hs1, hs2]
          simp only [if_true]
          rw [show r1.takeWhile isSpace ++ (a0 :: a') ++ argsText n r2 = r1.takeWhile isSpace ++ a0 :: (a' ++ argsText n r2) from by simp]
          rw [hs3.1, hs3.2]
          simp only [show ¬ (0 + (r.takeWhile isSpace).length + 1 + (r1.takeWhile isSpace).length = 0) from by omega, if_false]
          rw [show a0 :: (a' ++ argsText n r2) = (a0 :: a') ++ argsText n r2 from rfl,
            splitAux_args n r2 f' [] (a0 :: a') ha (by simp only [List.length_append, List.length_cons] at hf ⊢; omega)]
          simp
      · exact base (argsText_succ_nocomma n r (fun r1' e => by rw [hl] at e; exact hx (List.cons.inj e).1))
          (by rw [argsLoop_succ_nocomma n r (fun r1' e => by rw [hl] at e; exact hx (List.cons.inj e).1)])

theorem split_args (a r6 : Chars) (ha : ∀ x ∈ a, isWord x = true) :
    split functionArgSplit (a ++ argsText r6.length r6) = a :: (argsLoop r6.length r6).1 := by
  unfold split
  rw [splitAux_args r6.length r6 _ [] a ha (Nat.le_refl _)]
  simp

/-! ## the tail of a function line behind `(` and its blanks, as data -/

/-- the scanner's reading of `args? lastArgArray? ) :` (the text is `Scan.funcBegin?`'s, with `closeOK` for the last two
matches) -/
def funcTail (name : Chars) (isAsync : Bool) (r5 : Chars) : Option Shape :=
  let ar : List Chars × Chars := match ident? r5 with
    | some (a, r6) => (a :: (argsLoop r6.length r6).1, (argsLoop r6.length r6).2)
    | none => ([], r5)
  let lr : Bool × Chars := match keyword? "..." (lstripL ar.2) with
    | some r8 => (true, r8)
    | none => (false, ar.2)
  if closeOK lr.2 then some (.funcBegin name ar.1 lr.1 isAsync) else none

/-- what parser.py reads from a match of `_R_SCRIPT_FUNCTION_BEGIN` -/
def funcReader (line : Chars) (st : St) : Option Shape :=
  (st.group line 2).map fun name =>
    Shape.funcBegin name (match st.group line 3 with | some a => split functionArgSplit a | none => [])
      (st.span 4).isSome (st.span 1).isSome

theorem funcReader_eval (line name : Chars) (isAsync : Bool) (p : Nat) (caps : List (Nat × Nat × Nat))
    (h2 : (caps.lookup 2).map (slice line) = some name) (h1 : (caps.lookup 1).isSome = isAsync) :
    funcReader line ⟨p, [], caps⟩ =
      some (.funcBegin name (match (caps.lookup 3).map (slice line) with | some a => split functionArgSplit a | none => [])
        (caps.lookup 4).isSome isAsync) := by
  simp only [funcReader, St.group, St.span, h2, h1, Option.map_some]

theorem func_read (line name : Chars) (isAsync : Bool) (p5 : Nat) (r5 : Chars) (caps : List (Nat × Nat × Nat))
    (hd : line.drop p5 = r5) (hnl : '\n' ∉ r5)
    (h2 : (caps.lookup 2).map (slice line) = some name) (h1 : (caps.lookup 1).isSome = isAsync)
    (h3 : caps.lookup 3 = none) (h4 : caps.lookup 4 = none) :
    ((Rx.opt (.cap 3 (some "args") (ident ⬝ .star argIter)) ⬝ K5rx).m ⟨p5, r5, caps⟩ some).bind (funcReader line) =
      funcTail name isAsync r5 := by
  rw [K4_eval]
  unfold funcTail
  have l42 : ∀ a b, ((4, a, b) :: caps).lookup 2 = caps.lookup 2 := fun a b => by simp [List.lookup]
  have l41 : ∀ a b, ((4, a, b) :: caps).lookup 1 = caps.lookup 1 := fun a b => by simp [List.lookup]
  have l43 : ∀ a b, ((4, a, b) :: caps).lookup 3 = caps.lookup 3 := fun a b => by simp [List.lookup]
  cases hi : ident? r5 with
  | none =>
    simp only []
    unfold K5rx
    rw [K5_eval _ _ _ hnl]
    cases hk : keyword? "..." (lstripL r5) with
    | none =>
      simp only []
      by_cases hc : closeOK r5 = true
      · simp only [hc, if_true, Option.bind_some]
        rw [funcReader_eval line name isAsync _ _ h2 h1, h3, h4]; rfl
      · simp [hc]
    | some r8 =>
      simp only []
      by_cases hc : closeOK r8 = true
      · simp only [hc, if_true, Option.bind_some]
        rw [funcReader_eval line name isAsync _ _ (by rw [l42]; exact h2) (by rw [l41]; exact h1), l43, h3]
        simp [List.lookup]
      · simp [hc]
  | some ar =>
    obtain ⟨a, r6⟩ := ar
    have hsp := ident?_eq_append hi
    have hla := congrArg List.length hsp
    simp only [List.length_append] at hla
    have hspec := argsText_spec r6.length r6
    have hl7 := congrArg List.length hspec
    simp only [List.length_append] at hl7
    have hn6 : '\n' ∉ r6 := fun hm => hnl (by rw [hsp]; exact List.mem_append_right _ hm)
    have hn7 : '\n' ∉ (argsLoop r6.length r6).2 := fun hm => hn6 (by rw [hspec]; exact List.mem_append_right _ hm)
    have hg3 : slice line (p5, p5 + r5.length - (argsLoop r6.length r6).2.length) = a ++ argsText r6.length r6 := by
      rw [show p5 + r5.length - (argsLoop r6.length r6).2.length = p5 + (a ++ argsText r6.length r6).length from by
        simp only [List.length_append]; omega]
      exact slice_prefix line p5 _ _ (argsLoop r6.length r6).2 (by rw [hd, hsp, List.append_assoc, ← hspec]) rfl
    have l32 : ∀ a b, ((3, a, b) :: caps).lookup 2 = caps.lookup 2 := fun a b => by simp [List.lookup]
    have l31 : ∀ a b, ((3, a, b) :: caps).lookup 1 = caps.lookup 1 := fun a b => by simp [List.lookup]
    simp only []
    unfold K5rx
    rw [K5_eval _ _ _ hn7]
    cases hk : keyword? "..." (lstripL (argsLoop r6.length r6).2) with
    | none =>
      simp only []
      by_cases hc : closeOK (argsLoop r6.length r6).2 = true
      · simp only [hc, if_true, Option.bind_some]
        rw [funcReader_eval line name isAsync _ _ (by rw [l32]; exact h2) (by rw [l31]; exact h1)]
        simp [List.lookup, hg3, split_args a r6 (ident?_word hi), h4]
      · simp [hc]
    | some r8 =>
      simp only []
      by_cases hc : closeOK r8 = true
      · simp only [hc, if_true, Option.bind_some]
        rw [funcReader_eval line name isAsync _ _ (by simp only [List.lookup]; exact h2) (by simp only [List.lookup]; exact h1)]
        simp [List.lookup, hg3, split_args a r6 (ident?_word hi)]
      · simp [hc]

end C06Regex
