import BareModel.Datetime

/-!
# C16 — calendar lemmas used by the property theorems in `BareProofs/C16.lean`

* Python `//`, `%` with a positive divisor are Lean's `/`, `%` on `Int`
* `daysBeforeYear (y + 1) = daysBeforeYear y + yearLen y` for every integer year
* month tables: running sums, monotonicity, injectivity inside one year
* the loop invariants of the two day loops of `datetimeNew` (`dayUp_spec`, `dayDown_spec`, `dayAdjust_spec`)
* `_ord2ymd` is the inverse of `_ymd2ord` on every integer ordinal (`ord2ymd_sound`, `ymd2ord_inj`)
-/

open Datetime
namespace C16

theorem pyFloorDiv_pos (a : Int) {b : Int} (h : 0 < b) : pyFloorDiv a b = a / b :=
  Int.fdiv_eq_ediv_of_nonneg a (Int.le_of_lt h)

theorem pyMod_pos (a : Int) {b : Int} (h : 0 < b) : pyMod a b = a % b :=
  Int.fmod_eq_emod_of_nonneg a (Int.le_of_lt h)

theorem isLeap_iff (y : Int) : isLeap y = true ↔ (y % 4 = 0 ∧ (y % 100 ≠ 0 ∨ y % 400 = 0)) := by
  simp [isLeap, pyMod_pos]

/-- number of days of a year -/
def yearLen (y : Int) : Int := if isLeap y then 366 else 365

theorem div_step4 (y : Int) : y / 4 = (y - 1) / 4 + (if y % 4 = 0 then 1 else 0) := by split <;> omega
theorem div_step100 (y : Int) : y / 100 = (y - 1) / 100 + (if y % 100 = 0 then 1 else 0) := by split <;> omega
theorem div_step400 (y : Int) : y / 400 = (y - 1) / 400 + (if y % 400 = 0 then 1 else 0) := by split <;> omega

theorem mod100_of_mod400 {y : Int} (h : y % 400 = 0) : y % 100 = 0 := by
  have e2 : y % 400 % 100 = y % 100 := Int.emod_emod_of_dvd y (by decide)
  omega
theorem mod4_of_mod100 {y : Int} (h : y % 100 = 0) : y % 4 = 0 := by
  have e1 : y % 100 % 4 = y % 4 := Int.emod_emod_of_dvd y (by decide)
  omega

theorem daysBeforeYear_succ (y : Int) : daysBeforeYear (y + 1) = daysBeforeYear y + yearLen y := by
  unfold yearLen
  have h4 := div_step4 y
  have h100 := div_step100 y
  have h400 := div_step400 y
  have hl := isLeap_iff y
  simp only [daysBeforeYear, Int.add_sub_cancel]
  by_cases c400 : y % 400 = 0
  · have c100 := mod100_of_mod400 c400
    have c4 := mod4_of_mod100 c100
    have : isLeap y = true := hl.2 ⟨c4, Or.inr c400⟩
    rw [if_pos c4] at h4; rw [if_pos c100] at h100; rw [if_pos c400] at h400
    simp only [this, if_true]
    omega
  · by_cases c100 : y % 100 = 0
    · have c4 := mod4_of_mod100 c100
      have : ¬ isLeap y = true := fun h => by
        rcases (hl.1 h).2 with h' | h'
        · exact h' c100
        · exact c400 h'
      rw [if_pos c4] at h4; rw [if_pos c100] at h100; rw [if_neg c400] at h400
      simp only [this, Bool.false_eq_true, if_false]; omega
    · by_cases c4 : y % 4 = 0
      · have : isLeap y = true := hl.2 ⟨c4, Or.inl c100⟩
        rw [if_pos c4] at h4; rw [if_neg c100] at h100; rw [if_neg c400] at h400
        simp only [this, if_true]; omega
      · have : ¬ isLeap y = true := fun h => c4 (hl.1 h).1
        rw [if_neg c4] at h4; rw [if_neg c100] at h100; rw [if_neg c400] at h400
        simp only [this, Bool.false_eq_true, if_false]; omega

theorem month_cases {m : Int} (h1 : 1 ≤ m) (h2 : m ≤ 12) :
    m = 1 ∨ m = 2 ∨ m = 3 ∨ m = 4 ∨ m = 5 ∨ m = 6 ∨ m = 7 ∨ m = 8 ∨ m = 9 ∨ m = 10 ∨ m = 11 ∨ m = 12 := by omega

/-- the month table: days-before is the running sum of days-in -/
theorem mdays_dbm (leap : Bool) {m : Int} (h1 : 1 ≤ m) (h2 : m ≤ 12) :
    ∃ k, mdays leap m = some k ∧ 28 ≤ k ∧ k ≤ 31 ∧ dbmL leap (m + 1) = dbmL leap m + k := by
  rcases month_cases h1 h2 with h | h | h | h | h | h | h | h | h | h | h | h <;> subst h <;>
    cases leap <;> simp [mdays, dbmL, dbmTable]

/-- days before the first of month `m` of year `y` (`ymd2ord y m d = ord0 y m + d`) -/
def ord0 (y m : Int) : Int := daysBeforeYear y + daysBeforeMonth y m

theorem ymd2ord_eq (y m d : Int) : ymd2ord y m d = ord0 y m + d := rfl

theorem dbmL_one (leap : Bool) : dbmL leap 1 = 0 := by cases leap <;> simp [dbmL, dbmTable]
theorem dbmL_13 (leap : Bool) : dbmL leap 13 = if leap then 366 else 365 := by cases leap <;> simp [dbmL, dbmTable]

theorem monthrange_some {y m k : Int} (h : monthrange y m = some k) : daysInMonth y m = k := by
  simp [daysInMonth, h]

/-- going to the previous month keeps `ord0 + day` when the month length is added to the day -/
theorem prev_month (y : Int) {m : Int} (h1 : 1 ≤ m) (h2 : m ≤ 12) :
    ∃ k, monthrange (if m ≠ 1 then y else y - 1) (if m ≠ 1 then m - 1 else 12) = some k ∧ 28 ≤ k ∧ k ≤ 31 ∧
      1 ≤ (if m ≠ 1 then m - 1 else 12) ∧ (if m ≠ 1 then m - 1 else 12) ≤ 12 ∧
      ord0 (if m ≠ 1 then y else y - 1) (if m ≠ 1 then m - 1 else 12) + k = ord0 y m := by
  by_cases hm : m = 1
  · subst hm
    simp only [ne_eq, not_true_eq_false, if_false]
    obtain ⟨k, hk, k1, k2, hs⟩ := mdays_dbm (isLeap (y - 1)) (m := 12) (by omega) (by omega)
    refine ⟨k, hk, k1, k2, by omega, by omega, ?_⟩
    have hy := daysBeforeYear_succ (y - 1)
    rw [Int.sub_add_cancel] at hy
    simp only [ord0, daysBeforeMonth, dbmL_one]
    have h13 : dbmL (isLeap (y - 1)) (12 + 1) = yearLen (y - 1) := by
      rw [show (12 : Int) + 1 = 13 by rfl, dbmL_13]; rfl
    omega
  · simp only [ne_eq, hm, not_false_eq_true, if_true]
    obtain ⟨k, hk, k1, k2, hs⟩ := mdays_dbm (isLeap y) (m := m - 1) (by omega) (by omega)
    rw [Int.sub_add_cancel] at hs
    refine ⟨k, hk, k1, k2, by omega, by omega, ?_⟩
    simp only [ord0, daysBeforeMonth]; omega

/-- going to the next month keeps `ord0 + day` when the month length is subtracted from the day -/
theorem next_month (y : Int) {m : Int} (h1 : 1 ≤ m) (h2 : m ≤ 12) :
    ∃ k, monthrange y m = some k ∧ 28 ≤ k ∧ k ≤ 31 ∧
      1 ≤ (if m ≠ 12 then m + 1 else 1) ∧ (if m ≠ 12 then m + 1 else 1) ≤ 12 ∧
      ord0 (if m ≠ 12 then y else y + 1) (if m ≠ 12 then m + 1 else 1) = ord0 y m + k := by
  obtain ⟨k, hk, k1, k2, hs⟩ := mdays_dbm (isLeap y) h1 h2
  refine ⟨k, hk, k1, k2, ?_⟩
  by_cases hm : m = 12
  · subst hm
    simp only [ne_eq, not_true_eq_false, if_false]
    refine ⟨by omega, by omega, ?_⟩
    have hy := daysBeforeYear_succ y
    have h13 : dbmL (isLeap y) (12 + 1) = yearLen y := by
      rw [show (12 : Int) + 1 = 13 by rfl, dbmL_13]; rfl
    simp only [ord0, daysBeforeMonth, dbmL_one]
    omega
  · simp only [ne_eq, hm, not_false_eq_true, if_true]
    refine ⟨by omega, by omega, ?_⟩
    simp only [ord0, daysBeforeMonth]; omega

/-- `while day < 1` loop: invariant `ord0 year month + day`, measure `1 - day` -/
theorem dayUp_spec : ∀ (f : Nat) (y m d : Int), 1 ≤ m → m ≤ 12 → 1 - d ≤ f →
    ∃ y' m' d', dayUp f y m d = some (y', m', d') ∧ 1 ≤ m' ∧ m' ≤ 12 ∧ ord0 y' m' + d' = ord0 y m + d ∧
      (d < 1 → 1 ≤ d' ∧ d' ≤ daysInMonth y' m') ∧ (1 ≤ d → (y', m', d') = (y, m, d))
  | 0, y, m, d, h1, h2, hf => by
    refine ⟨y, m, d, rfl, h1, h2, rfl, ?_, fun _ => rfl⟩
    intro h; simp at hf; omega
  | f + 1, y, m, d, h1, h2, hf => by
    by_cases hd : d < 1
    · obtain ⟨k, hk, k1, k2, m1, m2, hs⟩ := prev_month y h1 h2
      simp only [dayUp, hd, if_true, hk]
      obtain ⟨y', m', d', hr, a1, a2, ho, hlt, hge⟩ :=
        dayUp_spec f (if m ≠ 1 then y else y - 1) (if m ≠ 1 then m - 1 else 12) (d + k) m1 m2 (by push_cast at hf ⊢; omega)
      refine ⟨y', m', d', hr, a1, a2, by omega, ?_, fun h => by omega⟩
      intro _
      by_cases hdk : d + k < 1
      · exact hlt hdk
      · have := hge (by omega)
        simp only [Prod.mk.injEq] at this
        obtain ⟨e1, e2, e3⟩ := this
        subst e1 e2 e3
        rw [monthrange_some hk]; omega
    · simp only [dayUp, hd, if_false]
      exact ⟨y, m, d, rfl, h1, h2, rfl, fun h => False.elim h, fun _ => rfl⟩

/-- `while day > month_days` loop: same invariant, measure `day` -/
theorem dayDown_spec : ∀ (f : Nat) (y m d md : Int), 1 ≤ m → m ≤ 12 → monthrange y m = some md → 1 ≤ d → d ≤ f →
    ∃ y' m' d', dayDown f y m d md = some (y', m', d') ∧ 1 ≤ m' ∧ m' ≤ 12 ∧ ord0 y' m' + d' = ord0 y m + d ∧
      1 ≤ d' ∧ d' ≤ daysInMonth y' m'
  | 0, y, m, d, md, h1, h2, hmd, hd, hf => by simp at hf; omega
  | f + 1, y, m, d, md, h1, h2, hmd, hd, hf => by
    obtain ⟨k, hk, k1, k2, m1, m2, hs⟩ := next_month y h1 h2
    have hkmd : k = md := by rw [hk] at hmd; exact Option.some.inj hmd
    subst hkmd
    by_cases hgt : d > k
    · obtain ⟨k', hk', _, _, _, _, _⟩ := next_month (if m ≠ 12 then y else y + 1) m1 m2
      simp only [dayDown, hgt, if_true, hk']
      obtain ⟨y', m', d', hr, a1, a2, ho, b1, b2⟩ :=
        dayDown_spec f (if m ≠ 12 then y else y + 1) (if m ≠ 12 then m + 1 else 1) (d - k) k' m1 m2 hk' (by omega)
          (by push_cast at hf ⊢; omega)
      exact ⟨y', m', d', hr, a1, a2, by omega, b1, b2⟩
    · simp only [dayDown, hgt, if_false]
      exact ⟨y, m, d, rfl, h1, h2, rfl, hd, by rw [monthrange_some hk]; omega⟩

/-- the `# Adjust day` block: the result is a valid month/day with the same ordinal -/
theorem dayAdjust_spec (y m d : Int) (h1 : 1 ≤ m) (h2 : m ≤ 12) :
    ∃ y' m' d', dayAdjust y m d = some (y', m', d') ∧ 1 ≤ m' ∧ m' ≤ 12 ∧ 1 ≤ d' ∧ d' ≤ daysInMonth y' m' ∧
      ord0 y' m' + d' = ord0 y m + d := by
  unfold dayAdjust
  by_cases hd : d < 1
  · simp only [hd, if_true]
    obtain ⟨y', m', d', hr, a1, a2, ho, hlt, _⟩ := dayUp_spec (1 - d).toNat y m d h1 h2 (by omega)
    exact ⟨y', m', d', hr, a1, a2, (hlt hd).1, (hlt hd).2, ho⟩
  · simp only [hd, if_false]
    obtain ⟨k, hk, k1, k2, _, _, _⟩ := next_month y h1 h2
    by_cases h28 : d > 28
    · simp only [h28, if_true, hk]
      obtain ⟨y', m', d', hr, a1, a2, ho, b1, b2⟩ := dayDown_spec d.toNat y m d k h1 h2 hk (by omega) (by omega)
      exact ⟨y', m', d', hr, a1, a2, b1, b2, ho⟩
    · simp only [h28, if_false]
      exact ⟨y, m, d, rfl, h1, h2, by omega, by rw [monthrange_some hk]; omega, rfl⟩

/-! ### finite table facts -/

/-- Bool form of "month/day part of `_ord2ymd` is right" for one zero-based day-of-year `n` -/
def monthDayOk (leap : Bool) (n : Nat) : Bool :=
  let md := monthDay leap n
  decide (1 ≤ md.1) && decide (md.1 ≤ 12) && decide (1 ≤ md.2) &&
    (match mdays leap md.1 with | some k => decide (md.2 ≤ k) | none => false) &&
    decide (dbmL leap md.1 + md.2 = (n : Int) + 1)

theorem monthDayOk_all : ∀ leap : Bool, ∀ n : Nat, n < 365 → monthDayOk leap n = true := by decide +kernel

theorem dbmL_mono_nat : ∀ leap : Bool, ∀ a : Nat, a < 14 → ∀ b : Nat, b < 14 → 1 ≤ a → a ≤ b →
    dbmL leap (a : Int) ≤ dbmL leap (b : Int) := by decide +kernel

theorem dbmL_mono {leap : Bool} {m m' : Int} (h1 : 1 ≤ m) (h2 : m ≤ m') (h3 : m' ≤ 13) :
    dbmL leap m ≤ dbmL leap m' := by
  have := dbmL_mono_nat leap m.toNat (by omega) m'.toNat (by omega) (by omega) (by omega)
  rwa [Int.toNat_of_nonneg (by omega), Int.toNat_of_nonneg (by omega)] at this

theorem monthDay_sound (leap : Bool) {n : Int} (h0 : 0 ≤ n) (h1 : n < 365) :
    1 ≤ (monthDay leap n).1 ∧ (monthDay leap n).1 ≤ 12 ∧ 1 ≤ (monthDay leap n).2 ∧
      (∃ k, mdays leap (monthDay leap n).1 = some k ∧ (monthDay leap n).2 ≤ k) ∧
      dbmL leap (monthDay leap n).1 + (monthDay leap n).2 = n + 1 := by
  have h := monthDayOk_all leap n.toNat (by omega)
  rw [monthDayOk, Int.toNat_of_nonneg h0] at h
  simp only [Bool.and_eq_true, decide_eq_true_eq] at h
  obtain ⟨⟨⟨⟨a, b⟩, c⟩, d⟩, e⟩ := h
  refine ⟨a, b, c, ?_, e⟩
  cases hk : mdays leap (monthDay leap n).1 with
  | none => rw [hk] at d; simp at d
  | some k => rw [hk] at d; exact ⟨k, rfl, by simpa using d⟩

/-! ### `_ord2ymd` inverts `_ymd2ord` (all integer ordinals) -/

/-- days before the year at position `(a, b, c, d)` of the 400/100/4/1-year cycles -/
theorem dby_cycle (a b c d : Int) (hb : 0 ≤ b) (hb' : b ≤ 3) (hc : 0 ≤ c) (hc' : c ≤ 24) (hd : 0 ≤ d) (hd' : d ≤ 3) :
    daysBeforeYear (a * 400 + 1 + b * 100 + c * 4 + d) = 146097 * a + 36524 * b + 1461 * c + 365 * d := by
  have e4 : (a * 400 + 1 + b * 100 + c * 4 + d - 1) / 4 = 100 * a + 25 * b + c := by omega
  have e100 : (a * 400 + 1 + b * 100 + c * 4 + d - 1) / 100 = 4 * a + b := by omega
  have e400 : (a * 400 + 1 + b * 100 + c * 4 + d - 1) / 400 = a := by omega
  simp only [daysBeforeYear, e4, e100, e400]; omega

theorem isLeap_cycle (a b c d : Int) (hb : 0 ≤ b) (hb' : b ≤ 3) (hc : 0 ≤ c) (hc' : c ≤ 24) (hd : 0 ≤ d) (hd' : d ≤ 3) :
    isLeap (a * 400 + 1 + b * 100 + c * 4 + d) = true ↔ (d = 3 ∧ (c ≠ 24 ∨ b = 3)) := by
  have m4 : (a * 400 + 1 + b * 100 + c * 4 + d) % 4 = (d + 1) % 4 := by omega
  have m100 : (a * 400 + 1 + b * 100 + c * 4 + d) % 100 = (c * 4 + d + 1) % 100 := by omega
  have m400 : (a * 400 + 1 + b * 100 + c * 4 + d) % 400 = (b * 100 + c * 4 + d + 1) % 400 := by omega
  rw [isLeap_iff, m4, m100, m400]
  constructor
  · rintro ⟨h1, h2⟩
    refine ⟨by omega, ?_⟩
    rcases h2 with h2 | h2
    · left; omega
    · right; omega
  · rintro ⟨h1, h2⟩
    refine ⟨by omega, ?_⟩
    rcases h2 with h2 | h2
    · left; omega
    · by_cases h24 : c = 24
      · right; omega
      · left; omega

theorem ord2ymd_sound (ord : Int) :
    1 ≤ (ord2ymd ord).2.1 ∧ (ord2ymd ord).2.1 ≤ 12 ∧ 1 ≤ (ord2ymd ord).2.2 ∧
      (ord2ymd ord).2.2 ≤ daysInMonth (ord2ymd ord).1 (ord2ymd ord).2.1 ∧
      ymd2ord (ord2ymd ord).1 (ord2ymd ord).2.1 (ord2ymd ord).2.2 = ord := by
  simp only [ord2ymd]
  generalize hN : ord - 1 = N
  have q1 := Int.emod_add_mul_ediv N 146097
  have b1 := Int.emod_nonneg N (show (146097 : Int) ≠ 0 by decide)
  have c1 := Int.emod_lt_of_pos N (show (0 : Int) < 146097 by decide)
  generalize N / 146097 = n400 at *
  generalize N % 146097 = r1 at *
  have q2 := Int.emod_add_mul_ediv r1 36524
  have b2 := Int.emod_nonneg r1 (show (36524 : Int) ≠ 0 by decide)
  have c2 := Int.emod_lt_of_pos r1 (show (0 : Int) < 36524 by decide)
  generalize r1 / 36524 = n100 at *
  generalize r1 % 36524 = r2 at *
  have q3 := Int.emod_add_mul_ediv r2 1461
  have b3 := Int.emod_nonneg r2 (show (1461 : Int) ≠ 0 by decide)
  have c3 := Int.emod_lt_of_pos r2 (show (0 : Int) < 1461 by decide)
  generalize r2 / 1461 = n4 at *
  generalize r2 % 1461 = r3 at *
  have q4 := Int.emod_add_mul_ediv r3 365
  have b4 := Int.emod_nonneg r3 (show (365 : Int) ≠ 0 by decide)
  have c4 := Int.emod_lt_of_pos r3 (show (0 : Int) < 365 by decide)
  generalize r3 / 365 = n1 at *
  generalize r3 % 365 = r4 at *
  have g100 : 0 ≤ n100 ∧ n100 ≤ 4 := by omega
  have g4 : 0 ≤ n4 ∧ n4 ≤ 24 := by omega
  have g1 : 0 ≤ n1 ∧ n1 ≤ 4 := by omega
  by_cases hsp : n1 = 4 ∨ n100 = 4
  · -- last day of a 4-year or 400-year cycle: December 31st of a leap year
    simp only [hsp, if_true]
    -- the year as a cycle position with last digit 3
    obtain ⟨a, b, c, hb, hb', hc, hc', hy, hlp, hord⟩ :
        ∃ a b c : Int, 0 ≤ b ∧ b ≤ 3 ∧ 0 ≤ c ∧ c ≤ 24 ∧
          n400 * 400 + 1 + n100 * 100 + n4 * 4 + n1 - 1 = a * 400 + 1 + b * 100 + c * 4 + 3 ∧
          (c ≠ 24 ∨ b = 3) ∧ 146097 * a + 36524 * b + 1461 * c + 365 * 3 + 366 = ord := by
      rcases hsp with h | h
      · exact ⟨n400, n100, n4, by omega, by omega, by omega, by omega, by omega, by omega, by omega⟩
      · exact ⟨n400, 3, 24, by omega, by omega, by omega, by omega, by omega, by omega, by omega⟩
    rw [hy]
    have hleap : isLeap (a * 400 + 1 + b * 100 + c * 4 + 3) = true :=
      (isLeap_cycle a b c 3 hb hb' hc hc' (by omega) (by omega)).2 ⟨rfl, hlp⟩
    have hdby := dby_cycle a b c 3 hb hb' hc hc' (by omega) (by omega)
    refine ⟨by omega, by omega, by omega, by simp [daysInMonth, monthrange, mdays], ?_⟩
    simp only [ymd2ord, daysBeforeMonth, hleap, hdby]
    simp [dbmL, dbmTable]
    omega
  · simp only [hsp, if_false]
    have hn1 : n1 ≤ 3 := by omega
    have hn100 : n100 ≤ 3 := by omega
    have hlc := isLeap_cycle n400 n100 n4 n1 g100.1 hn100 g4.1 g4.2 g1.1 hn1
    have hdby := dby_cycle n400 n100 n4 n1 g100.1 hn100 g4.1 g4.2 g1.1 hn1
    have hl : (decide (n1 = 3) && (decide (n4 ≠ 24) || decide (n100 = 3))) =
        isLeap (n400 * 400 + 1 + n100 * 100 + n4 * 4 + n1) := by
      rw [Bool.eq_iff_iff, hlc]
      simp only [Bool.and_eq_true, Bool.or_eq_true, decide_eq_true_eq]
    rw [hl]
    obtain ⟨m1, m2, d1, ⟨k, hk, d2⟩, hs⟩ :=
      monthDay_sound (isLeap (n400 * 400 + 1 + n100 * 100 + n4 * 4 + n1)) b4 c4
    refine ⟨m1, m2, d1, ?_, ?_⟩
    · simp only [daysInMonth, monthrange, hk, Option.getD_some]; exact d2
    · simp only [ymd2ord, daysBeforeMonth, hdby]
      omega

/-! ### `_ymd2ord` is injective on valid dates and maps years 1..9999 onto 1..`_MAXORDINAL` -/

theorem yearLen_bounds (y : Int) : 365 ≤ yearLen y ∧ yearLen y ≤ 366 := by
  unfold yearLen; split <;> omega

theorem dby_mono_nat (a : Int) : ∀ n : Nat, daysBeforeYear a + 365 * n ≤ daysBeforeYear (a + n)
  | 0 => by simp
  | n + 1 => by
    have ih := dby_mono_nat a n
    have hs := daysBeforeYear_succ (a + n)
    have hb := yearLen_bounds (a + n)
    have : a + ((n + 1 : Nat) : Int) = a + n + 1 := by push_cast; omega
    rw [this, hs]; push_cast; omega

theorem dby_mono {a b : Int} (h : a ≤ b) : daysBeforeYear a + 365 * (b - a) ≤ daysBeforeYear b := by
  have := dby_mono_nat a (b - a).toNat
  rw [Int.toNat_of_nonneg (by omega)] at this
  have e : a + (b - a) = b := by omega
  rwa [e] at this

/-- a legal month and day-of-month for year `y` -/
def ValidMD (y m d : Int) : Prop := 1 ≤ m ∧ m ≤ 12 ∧ 1 ≤ d ∧ d ≤ daysInMonth y m

theorem validMD_next {y m d : Int} (h : ValidMD y m d) :
    dbmL (isLeap y) m + d ≤ dbmL (isLeap y) (m + 1) := by
  obtain ⟨h1, h2, h3, h4⟩ := h
  obtain ⟨k, hk, _, _, hs⟩ := mdays_dbm (isLeap y) h1 h2
  have : daysInMonth y m = k := monthrange_some hk
  omega

theorem ord_in_year {y m d : Int} (h : ValidMD y m d) :
    daysBeforeYear y < ymd2ord y m d ∧ ymd2ord y m d ≤ daysBeforeYear (y + 1) := by
  have hn := validMD_next h
  obtain ⟨h1, h2, h3, h4⟩ := h
  have lo : dbmL (isLeap y) 1 ≤ dbmL (isLeap y) m := dbmL_mono (by omega) h1 (by omega)
  have hi : dbmL (isLeap y) (m + 1) ≤ dbmL (isLeap y) 13 := dbmL_mono (by omega) (by omega) (by omega)
  rw [dbmL_one] at lo
  have h13 : dbmL (isLeap y) 13 = yearLen y := by rw [dbmL_13]; rfl
  rw [daysBeforeYear_succ]
  simp only [ymd2ord, daysBeforeMonth]
  omega

theorem md_inj {y m d m' d' : Int} (h : ValidMD y m d) (h' : ValidMD y m' d')
    (e : dbmL (isLeap y) m + d = dbmL (isLeap y) m' + d') : m = m' ∧ d = d' := by
  have n1 := validMD_next h
  have n2 := validMD_next h'
  obtain ⟨a1, a2, a3, a4⟩ := h
  obtain ⟨b1, b2, b3, b4⟩ := h'
  by_cases c1 : m < m'
  · have := dbmL_mono (leap := isLeap y) (m := m + 1) (m' := m') (by omega) (by omega) (by omega)
    omega
  · by_cases c2 : m' < m
    · have := dbmL_mono (leap := isLeap y) (m := m' + 1) (m' := m) (by omega) (by omega) (by omega)
      omega
    · have : m = m' := by omega
      subst this
      exact ⟨rfl, by omega⟩

theorem ymd2ord_inj {y m d y' m' d' : Int} (h : ValidMD y m d) (h' : ValidMD y' m' d')
    (e : ymd2ord y m d = ymd2ord y' m' d') : y = y' ∧ m = m' ∧ d = d' := by
  have r1 := ord_in_year h
  have r2 := ord_in_year h'
  have hy : y = y' := by
    by_cases c1 : y < y'
    · have := dby_mono (a := y + 1) (b := y') (by omega); omega
    · by_cases c2 : y' < y
      · have := dby_mono (a := y' + 1) (b := y) (by omega); omega
      · omega
  subst hy
  refine ⟨rfl, md_inj h h' ?_⟩
  simp only [ymd2ord, daysBeforeMonth] at e
  omega

theorem ord2ymd_valid (ord : Int) : ValidMD (ord2ymd ord).1 (ord2ymd ord).2.1 (ord2ymd ord).2.2 := by
  obtain ⟨a, b, c, d, _⟩ := ord2ymd_sound ord
  exact ⟨a, b, c, d⟩

/-- `_ord2ymd (_ymd2ord y m d) = (y, m, d)` for every valid date of every integer year -/
theorem ord2ymd_ymd2ord {y m d : Int} (h : ValidMD y m d) : ord2ymd (ymd2ord y m d) = (y, m, d) := by
  have hs := (ord2ymd_sound (ymd2ord y m d)).2.2.2.2
  obtain ⟨e1, e2, e3⟩ := ymd2ord_inj (ord2ymd_valid _) h hs
  exact Prod.ext e1 (Prod.ext e2 e3)

theorem dby_one : daysBeforeYear 1 = 0 := by decide
theorem dby_10000 : daysBeforeYear 10000 = maxOrdinal := by decide

/-- years 1..9999 are exactly the ordinals 1.._MAXORDINAL -/
theorem year_range_iff {y m d : Int} (h : ValidMD y m d) :
    (1 ≤ y ∧ y ≤ 9999) ↔ (1 ≤ ymd2ord y m d ∧ ymd2ord y m d ≤ maxOrdinal) := by
  have r := ord_in_year h
  constructor
  · rintro ⟨a, b⟩
    have l1 := dby_mono (a := 1) (b := y) a
    have l2 := dby_mono (a := y + 1) (b := 10000) (by omega)
    rw [dby_one] at l1; rw [dby_10000] at l2
    omega
  · rintro ⟨a, b⟩
    constructor
    · apply Classical.byContradiction; intro c
      have l := dby_mono (a := y + 1) (b := 1) (by omega)
      rw [dby_one] at l; omega
    · apply Classical.byContradiction; intro c
      have l := dby_mono (a := 10000) (b := y) (by omega)
      rw [dby_10000] at l; omega

end C16
