import BareProofs.C17BridgeLemmas
import BareProofs.C08
import BareProofs.C09

/-!
# C17Bridge — the include semantics of the statement machine IS the include model of C17

`BareProofs/C17.lean` proves the include property about the abstract machine `Include.runScript`.  This file ties that
machine to `Machine.execM` / `execIncludes` / `execute` (the machine of C01, C08, C09, …), instantiated with C17's
resolution and a virtual file map (`IncludeBridge.instCfg`).

For ALL programs (jumps, calls, any host, any fuel):

* `executeT_res`, `execMT_res`, `execIncludesT_res`  the traced machine computes exactly the machine's results: its event
  list is an observation of `Machine.execute`, not a second semantics
* `machine_resolve_spec`            `cfg.resolve` of the instantiation is `Include.specLocation` (so `C17.resolve_*` apply)
* `machine_include_global_scope`    an included script runs with `locals = none` (also when the include statement sits in
  a function body), from index 0, with a fresh label cache, with `base` = its own resolved location, on the includer's state
* `machine_return_ends_only_include`  a `return` of the included script: the next entry / the includer goes on
* `machine_base_restored`           after the include statement the includer continues with its own `base`, `locals`, cache
* `machine_include_error_step`      a failing entry: `includeFailed` / `includeParse` carrying the RESOLVED location, state untouched
* `machine_include_counts`          the included statements count against the includer's counter (C09 tie)
* `machine_dead_after_return`       what follows a `return` in a jump-free list is never looked at

For jump-free programs and file systems (`Straight`, `FilesStraight`; `Include.Item` has no jumps), any tagging of statements:

* `machine_refines_include`         events and outcome of `Include.run` on `itemsOf P` = those of the machine
* `machine_run_spec`, `machine_fetch_order`, `machine_include_errors`, `machine_return_trace`  the theorems of C17, about
  `executeT` (= `Machine.execute` by `executeT_res`)

Outside the bridge (stated, with Lean examples at the end): include statements executed inside *function bodies* — the
machine runs a callee with `base = none` (runtime.py hands the caller's `urlFn` on; DESIGN finding F42) and their events
are not in the trace; programs with jumps are covered by the step theorems only.
-/

namespace C17Bridge
open Machine IncludeBridge
variable {W : Type}

/-! ## the traced machine is the machine -/

/-- **executeT_res**: for every program, configuration, fuel and state the traced machine returns the result of
`Machine.execute`. -/
theorem executeT_res (tag : Stmt → String) (cfg : Config W) (fuel : Nat) (P : List Stmt) (base : Option String) (st : State W) :
    (executeT tag cfg fuel P base st).res = execute cfg fuel P base st :=
  execMT_res ..

/-- the classification of a traced run only depends on the machine's result and on who raised the error -/
theorem stop_fin_iff (m : TRes W) : m.stop = .fin ↔ (∃ st, m.res = .done st) ∨ (∃ v st, m.res = .ret v st) := by
  unfold TRes.stop
  cases hr : m.res with
  | done st => simp [stopOf]
  | ret v st => simp [stopOf]
  | err e st => simp [stopOf_err_ne_fin]
  | oof => simp [stopOf]

theorem stop_incFailed (m : TRes W) (u : String) (h : m.stop = .incFailed u) : ∃ st, m.res = .err (.includeFailed u) st := by
  unfold TRes.stop at h
  cases hr : m.res with
  | done st => simp [hr, stopOf] at h
  | ret v st => simp [hr, stopOf] at h
  | oof => simp [hr, stopOf] at h
  | err e st =>
    rw [hr] at h
    cases e <;> cases hi : m.inc <;> simp [hi, stopOf] at h
    exact ⟨st, by rw [h]⟩

theorem stop_incParse (m : TRes W) (u : String) (h : m.stop = .incParse u) : ∃ st, m.res = .err (.includeParse u) st := by
  unfold TRes.stop at h
  cases hr : m.res with
  | done st => simp [hr, stopOf] at h
  | ret v st => simp [hr, stopOf] at h
  | oof => simp [hr, stopOf] at h
  | err e st =>
    rw [hr] at h
    cases e <;> cases hi : m.inc <;> simp [hi, stopOf] at h
    exact ⟨st, by rw [h]⟩

/-! ## resolution -/

theorem selfOf_urlFnOf (base : Option String) : Include.selfOf (urlFnOf base) = base := by cases base <;> rfl

/-- **machine_resolve_spec**: the location the machine asks `cfg.fetch` for is the one the property prescribes — system
includes against the configured prefix, everything else against the INCLUDING file `base` (verbatim without one). -/
theorem machine_resolve_spec (tag : Stmt → String) (cfg : Config W) (sp : Option String) (fs : String → VFile)
    (base : Option String) (inc : IncludeScript) :
    (instCfg cfg sp fs).resolve base inc = Include.specLocation (icfgOf tag sp fs) base (entryOf inc) := by
  have := C17.resolveEntry_eq_spec (icfgOf tag sp fs) (urlFnOf base) (entryOf inc)
  rw [selfOf_urlFnOf] at this
  exact this

example : (instCfg (W := Unit) ⟨⟨fun _ _ => true, fun _ _ _ _ => .null, id, fun _ _ w => .ret (.ok .null) w,
      fun _ _ w => .ret (.ok .null) w, fun _ w => w, id, fun _ w => (.null, w), fun _ => none⟩, fun _ => none, 0, false, false,
      fun _ i => i.url, fun _ => .missing⟩ (some "/sys/") (fun _ => .missing)).resolve (some "http://h/a/b.bare") ⟨"../c.bare", false⟩
    = "http://h/a/../c.bare" := by decide

/-! ## one-step theorems, for all programs -/

/-- **machine_base_restored**: an include statement (at top level, in an included script or in a function body) runs its
entries against the `base` of the list it is written in, and afterwards THAT list continues — next statement, same
`base`, same `locals`, same label cache, from the state the included scripts left; anything else the entries end with
(an error, out of fuel) ends the list. -/
theorem machine_base_restored (cfg : Config W) (fuel : Nat) (P : List Stmt) (locals : Option Env) (base : Option String)
    (cache : Cache) (pc : Nat) (st : State W) (incs : List IncludeScript)
    (h : P[pc]? = some (.include incs)) (hb : C08.BudgetOk cfg st) :
    execM cfg (fuel+1) P locals base cache pc st =
      match execIncludes cfg fuel base incs (C08.tick st) with
      | .done st2 => execM cfg fuel P locals base cache (pc+1) st2
      | o => o := by
  rw [execM.eq_1, h]
  simp only [C08.BudgetOk] at hb
  simp only [hb, C08.tick]
  rfl

/-- **machine_include_global_scope**: the script an entry resolves to runs in GLOBAL scope (`locals = none`, whatever the
locals of the including list are — they are not an argument of `execIncludes`), from its first statement, with an empty
label cache, with `base` = its own resolved location, on the state of the includer; when it ends — by running off its
end or by `return` (**machine_return_ends_only_include**) — the next entry is run against the includer's `base`, from the
state it left. -/
theorem machine_include_global_scope (cfg : Config W) (fuel : Nat) (base : Option String) (inc : IncludeScript)
    (rest : List IncludeScript) (st : State W) (stmts : List Stmt)
    (hf : cfg.fetch (cfg.resolve base inc) = .script stmts) :
    execIncludes cfg (fuel+1) base (inc :: rest) st =
      match execM cfg fuel stmts none (some (cfg.resolve base inc)) [] 0 st with
      | .done st' => execIncludes cfg fuel base rest st'
      | .ret _ st' => execIncludes cfg fuel base rest st'
      | o => o := by
  rw [execIncludes.eq_2]
  simp only [hf]
  generalize execM cfg fuel stmts none _ [] 0 st = r
  cases r <;> rfl

/-- **machine_return_ends_only_include**: a `return` in an included script ends that script only. -/
theorem machine_return_ends_only_include (cfg : Config W) (fuel : Nat) (base : Option String) (inc : IncludeScript)
    (rest : List IncludeScript) (st st' : State W) (stmts : List Stmt) (v : Value)
    (hf : cfg.fetch (cfg.resolve base inc) = .script stmts)
    (hret : execM cfg fuel stmts none (some (cfg.resolve base inc)) [] 0 st = .ret v st') :
    execIncludes cfg (fuel+1) base (inc :: rest) st = execIncludes cfg fuel base rest st' := by
  rw [machine_include_global_scope cfg fuel base inc rest st stmts hf, hret]

/-- **machine_include_error_step**: an entry whose RESOLVED location cannot be fetched (no text / fetchFn raised) ends the
run with `Include of "<resolved>" failed`; text that does not parse with the parser error `Included from "<resolved>"`;
the state is untouched, no further entry is looked at. -/
theorem machine_include_error_step (cfg : Config W) (fuel : Nat) (base : Option String) (inc : IncludeScript)
    (rest : List IncludeScript) (st : State W) :
    (cfg.fetch (cfg.resolve base inc) = .missing →
      execIncludes cfg fuel base (inc :: rest) st = .err (.includeFailed (cfg.resolve base inc)) st) ∧
    (cfg.fetch (cfg.resolve base inc) = .broken →
      execIncludes cfg fuel base (inc :: rest) st = .err (.includeParse (cfg.resolve base inc)) st) := by
  constructor <;> intro h <;> rw [execIncludes.eq_2] <;> simp only [h]

/-- **machine_include_counts**: the statements of included scripts count against the SAME counter: an include statement
that starts at counter `n` hands its included scripts the counter `n + 1`, and the includer goes on from the counter
they reached, which is at least that (`C09.count_monotone_include`); a budget error inside is the includer's error
(`machine_base_restored`: any non-`done` result is passed on). -/
theorem machine_include_counts (cfg : Config W) (fuel : Nat) (P : List Stmt) (locals : Option Env) (base : Option String)
    (cache : Cache) (pc : Nat) (st : State W) (incs : List IncludeScript)
    (h : P[pc]? = some (.include incs)) (hb : C08.BudgetOk cfg st) :
    (∀ st2, execIncludes cfg fuel base incs (C08.tick st) = .done st2 →
      st.count + 1 ≤ st2.count ∧
      execM cfg (fuel+1) P locals base cache pc st = execM cfg fuel P locals base cache (pc+1) st2) ∧
    (∀ e st2, execIncludes cfg fuel base incs (C08.tick st) = .err e st2 →
      execM cfg (fuel+1) P locals base cache pc st = .err e st2) := by
  have hstep := machine_base_restored cfg fuel P locals base cache pc st incs h hb
  have hmono := C09.count_monotone_include cfg fuel base incs (C08.tick st)
  constructor
  · intro st2 hd
    rw [hd] at hstep hmono
    exact ⟨hmono, hstep⟩
  · intro e st2 he
    rw [he] at hstep
    exact hstep

/-! ## what follows a `return` is dead (jump-free prefix) -/

theorem getElem?_ret_prefix (A B : List Stmt) (e : Option Expr) (pc : Nat) (h : pc ≤ A.length) :
    (A ++ .ret e :: B)[pc]? = (A ++ [.ret e])[pc]? := by
  rcases Nat.lt_or_ge pc A.length with hlt | hge
  · rw [List.getElem?_append_left hlt, List.getElem?_append_left hlt]
  · have : pc = A.length := by omega
    subst this
    simp

theorem dead_after_return_aux (cfg : Config W) (A B : List Stmt) (e : Option Expr) (hA : Straight A = true) :
    ∀ (fuel : Nat) (locals : Option Env) (base : Option String) (pc : Nat) (st : State W), pc ≤ A.length →
      execM₀ cfg fuel (A ++ .ret e :: B) locals base pc st = execM₀ cfg fuel (A ++ [.ret e]) locals base pc st
  | 0, locals, base, pc, st, hpc => by
    rw [execM₀.eq_1, execM₀.eq_1 cfg 0 (A ++ [Stmt.ret e]), getElem?_ret_prefix A B e pc hpc]
  | fuel+1, locals, base, pc, st, hpc => by
    rw [execM₀.eq_1, execM₀.eq_1 cfg (fuel+1) (A ++ [Stmt.ret e]), getElem?_ret_prefix A B e pc hpc]
    rcases Nat.lt_or_ge pc A.length with hlt | hge
    · have hpc1 : pc + 1 ≤ A.length := hlt
      have ih := fun locals base st => dead_after_return_aux cfg A B e hA fuel locals base (pc+1) st hpc1
      rw [List.getElem?_append_left hlt, List.getElem?_eq_getElem hlt]
      have hstr : straight A[pc] = true := List.all_eq_true.mp hA _ (List.getElem_mem hlt)
      simp only
      split
      · rfl
      · cases hs : A[pc] with
        | expr name ex =>
          simp only
          generalize evalExpr cfg _ locals ex _ = r
          cases r with
          | ok v st2 => cases name <;> cases locals <;> exact ih ..
          | err => rfl
          | oof => rfl
        | jump l c => rw [hs] at hstr; simp [straight] at hstr
        | ret ex => cases ex <;> rfl
        | label l => exact ih ..
        | function fid name args laa isAsync body => exact ih ..
        | «include» incs =>
          simp only
          generalize execIncludes₀ cfg fuel base incs _ = r
          cases r with
          | done st2 => exact ih ..
          | _ => rfl
    · have : pc = A.length := by omega
      subst this
      simp only [List.getElem?_append_right (Nat.le_refl _), Nat.sub_self, List.getElem?_cons_zero]
      split
      · rfl
      · cases e <;> rfl

/-- **machine_dead_after_return**: in a list whose statements before a `return` are jump-free, what follows that `return`
is never run, fetched or counted — `B` is arbitrary (it may contain jumps, labels, includes): the list behaves exactly as
if it ended at the `return`.  With `machine_return_ends_only_include` (the includer goes on) this is the machine form of
`C17.return_ends_only_include`. -/
theorem machine_dead_after_return (cfg : Config W) (fuel : Nat) (A B : List Stmt) (e : Option Expr) (locals : Option Env)
    (base : Option String) (st : State W) (hA : Straight A = true) :
    execM cfg fuel (A ++ .ret e :: B) locals base [] 0 st = execM cfg fuel (A ++ [.ret e]) locals base [] 0 st := by
  rw [C08.cache_transparent_nil, C08.cache_transparent_nil]
  exact dead_after_return_aux cfg A B e hA fuel locals base 0 st (Nat.zero_le _)

/-! ## the bridge -/

/-- the include model's outcome that corresponds to how a machine run ended in the script tree -/
def outcomeOf : Stop → Option Include.Outcome
  | .fin => some .ok
  | .incFailed u => some (.includeFailed u)
  | .incParse u => some (.parseError u)
  | .stmt => none
  | .oof => none

section Bridge
variable {σ : Type} (tag : Stmt → String) (cfg : Config W) (sp : Option String) (fs : String → VFile)

/-- the abstracted file map -/
def ifs : String → Include.File := fun u => fileOf tag (fs u)

/-- **machine_refines_include**: for every jump-free program `P` over a jump-free file system, every tagging of
statements, every host / function table / statement budget of the machine, every initial state, every fuel, every
semantics `eff` and state of the include model and every gas `g ≥ fuel`:

* the events of the machine run (= `Machine.execute`, `executeT_res`) are an initial part of the events of
  `Include.run` on the abstraction `itemsOf P`;
* if the machine run ended in the script tree — normally, or with an include statement's `includeFailed` /
  `includeParse` — the two event lists are EQUAL and the include model's outcome is the corresponding one.

(When a plain statement fails — runtime error, statement budget, out of fuel — the machine stops there, while the include
model, whose statements cannot fail, runs on: only the prefix statement holds.) -/
theorem machine_refines_include (eff : String → σ → σ) (hfs : FilesStraight fs) (P : List Stmt) (hP : Straight P = true)
    (base : Option String) (fuel g : Nat) (hg : fuel ≤ g) (st : State W) (s : σ) :
    let m := executeT tag (instCfg cfg sp fs) fuel P base st
    let r := Include.run (icfgOf tag sp fs) eff (g + 1) (urlFnOf base) (itemsOf tag P) s
    m.trace <+: r.trace ∧ ∀ out, outcomeOf m.stop = some out → r.trace = m.trace ∧ r.outcome = out := by
  intro m r
  have h := (simAt tag cfg sp fs eff hfs fuel).1 g hg P none base [] 0 { st with count := 0 } ⟨urlFnOf base, 0⟩ s hP rfl
  have hm : execMT tag (instCfg cfg sp fs) fuel P none base [] 0 { st with count := 0 } = m := rfl
  have hr : Include.runItems (icfgOf tag sp fs) eff (Include.runScript (icfgOf tag sp fs) eff g) ⟨urlFnOf base, 0⟩
      (itemsOf tag (P.drop 0)) s = r := rfl
  rw [hm, hr] at h
  refine ⟨simS_prefix h, ?_⟩
  intro out hout
  unfold Sim at h
  cases hs : m.stop <;> rw [hs] at h hout <;> simp only [outcomeOf, Option.some.injEq, reduceCtorEq] at hout <;>
    subst hout <;> exact h

/-- the run ended in the script tree (not inside a plain statement, not on the fuel of the model) -/
def InTree (s : Stop) : Bool := (outcomeOf s).isSome

/-- **machine_run_spec** (`C17.run_spec` for the machine): the events of a machine run that ended in the script tree ARE the
depth-first, program-order walk of the include tree of `P` — each entry resolved against the file that contains it, once
per entry, its statements right after it — up to and including the first location that cannot be loaded; and the way the
run ended is what that location dictates. -/
theorem machine_run_spec (hfs : FilesStraight fs) (P : List Stmt) (hP : Straight P = true) (base : Option String)
    (fuel g : Nat) (hg : fuel ≤ g) (st : State W) (out : Include.Outcome)
    (hout : outcomeOf (executeT tag (instCfg cfg sp fs) fuel P base st).stop = some out) :
    let E := Include.expectedEvents (icfgOf tag sp fs) (ifs tag fs) (g + 1) base (itemsOf tag P)
    (executeT tag (instCfg cfg sp fs) fuel P base st).trace = Include.cutAt (Include.failing (ifs tag fs)) E ∧
    out = Include.specOutcome (ifs tag fs) E := by
  intro E
  obtain ⟨_, h⟩ := machine_refines_include tag cfg sp fs (fun _ (u : Unit) => u) hfs P hP base fuel g hg st ()
  obtain ⟨ht, ho⟩ := h out hout
  have hne : out ≠ .exceeded ∧ out ≠ .outOfGas := by
    cases hs : (executeT tag (instCfg cfg sp fs) fuel P base st).stop <;> rw [hs] at hout <;>
      simp only [outcomeOf, Option.some.injEq, reduceCtorEq] at hout <;> subst hout <;> simp
  have := C17.run_spec (icfgOf tag sp fs) (fun _ (u : Unit) => u) (ifs tag fs) rfl (g + 1) ⟨urlFnOf base, 0⟩ (itemsOf tag P) ()
    (by rw [show Include.runScript _ _ (g+1) ⟨urlFnOf base, 0⟩ (itemsOf tag P) () =
          Include.run (icfgOf tag sp fs) (fun _ (u : Unit) => u) (g+1) (urlFnOf base) (itemsOf tag P) () from rfl, ho]; exact hne.1)
    (by rw [show Include.runScript _ _ (g+1) ⟨urlFnOf base, 0⟩ (itemsOf tag P) () =
          Include.run (icfgOf tag sp fs) (fun _ (u : Unit) => u) (g+1) (urlFnOf base) (itemsOf tag P) () from rfl, ho]; exact hne.2)
  rw [selfOf_urlFnOf] at this
  have hrun : Include.runScript (icfgOf tag sp fs) (fun _ (u : Unit) => u) (g+1) ⟨urlFnOf base, 0⟩ (itemsOf tag P) () =
      Include.run (icfgOf tag sp fs) (fun _ (u : Unit) => u) (g+1) (urlFnOf base) (itemsOf tag P) () := rfl
  rw [hrun, ht, ho] at this
  exact this

/-- **machine_fetch_order** (`C17.include_fetch_order` for the machine): a machine run that completes has asked
`cfg.fetch` for exactly the locations of the include tree, depth-first, in program order, once per include entry, each
resolved against its including file. -/
theorem machine_fetch_order (hfs : FilesStraight fs) (P : List Stmt) (hP : Straight P = true) (base : Option String)
    (fuel g : Nat) (hg : fuel ≤ g) (st : State W)
    (hfin : (executeT tag (instCfg cfg sp fs) fuel P base st).stop = .fin) :
    Include.fetchesOf (executeT tag (instCfg cfg sp fs) fuel P base st).trace =
      Include.expectedFetches (icfgOf tag sp fs) (ifs tag fs) (g + 1) base (itemsOf tag P) := by
  obtain ⟨ht, ho⟩ := machine_run_spec tag cfg sp fs hfs P hP base fuel g hg st .ok (by rw [hfin]; rfl)
  rw [ht, C17.cutAt_of_none _ _ (C17.specOutcome_ok _ _ ho.symm)]
  rfl

/-- a run that ends with an include error has asked for an initial part of them -/
theorem machine_fetch_prefix (hfs : FilesStraight fs) (P : List Stmt) (hP : Straight P = true) (base : Option String)
    (fuel g : Nat) (hg : fuel ≤ g) (st : State W) (out : Include.Outcome)
    (hout : outcomeOf (executeT tag (instCfg cfg sp fs) fuel P base st).stop = some out) :
    Include.fetchesOf (executeT tag (instCfg cfg sp fs) fuel P base st).trace <+:
      Include.expectedFetches (icfgOf tag sp fs) (ifs tag fs) (g + 1) base (itemsOf tag P) := by
  obtain ⟨ht, _⟩ := machine_run_spec tag cfg sp fs hfs P hP base fuel g hg st out hout
  rw [ht]
  exact (C17.cutAt_prefix _ _).filterMap _

/-- **machine_include_errors** (`C17.include_errors` for the machine): if an include statement of the script tree ends the
run with `includeFailed u` (resp. `includeParse u`), then the machine's result is that error, `u` is a RESOLVED location of
the tree, the file map has nothing loadable (resp. a text that does not parse) there, the request for `u` is the LAST
event, nothing before it failed, and the whole event list is an initial part of the tree's walk. -/
theorem machine_include_errors (hfs : FilesStraight fs) (P : List Stmt) (hP : Straight P = true) (base : Option String)
    (fuel g : Nat) (hg : fuel ≤ g) (st : State W) (u : String) :
    let m := executeT tag (instCfg cfg sp fs) fuel P base st
    let E := Include.expectedEvents (icfgOf tag sp fs) (ifs tag fs) (g + 1) base (itemsOf tag P)
    (m.stop = .incFailed u →
      (∃ st', execute (instCfg cfg sp fs) fuel P base st = .err (.includeFailed u) st') ∧
      fetchOf fs u = .missing ∧
      ∃ pre post, E = pre ++ .fetch u :: post ∧ m.trace = pre ++ [.fetch u] ∧ ∀ ev ∈ pre, Include.failing (ifs tag fs) ev = false) ∧
    (m.stop = .incParse u →
      (∃ st', execute (instCfg cfg sp fs) fuel P base st = .err (.includeParse u) st') ∧
      fetchOf fs u = .broken ∧
      ∃ pre post, E = pre ++ .fetch u :: post ∧ m.trace = pre ++ [.fetch u] ∧ ∀ ev ∈ pre, Include.failing (ifs tag fs) ev = false) := by
  intro m E
  have key : ∀ out, outcomeOf m.stop = some out → out ≠ .ok →
      ∃ a, E.find? (Include.failing (ifs tag fs)) = some a ∧ out = Include.specOutcome (ifs tag fs) E ∧
        m.trace = Include.cutAt (Include.failing (ifs tag fs)) E := by
    intro out hout hne
    obtain ⟨ht, ho⟩ := machine_run_spec tag cfg sp fs hfs P hP base fuel g hg st out hout
    obtain ⟨a, ha⟩ := C17.find_of_not_ok (ifs tag fs) E (by rw [← ho]; exact hne)
    exact ⟨a, ha, ho, ht⟩
  constructor
  · intro hs
    obtain ⟨st', hres⟩ := stop_incFailed m u hs
    obtain ⟨a, ha, ho, ht⟩ := key (.includeFailed u) (by rw [hs]; rfl) (by simp)
    have hp := List.find?_some ha
    obtain ⟨pre, post, h1, h2, h3⟩ := C17.cutAt_of_some _ _ a ha
    refine ⟨⟨st', by rw [← executeT_res tag]; exact hres⟩, ?_⟩
    cases a with
    | exec t => simp [Include.failing] at hp
    | fetch v =>
      simp only [Include.specOutcome, ha] at ho
      simp only [Include.failing] at hp
      unfold ifs at ho hp
      cases hv : fs v <;> simp [hv, fileOf] at ho hp
      all_goals subst ho
      · exact ⟨by simp [fetchOf, hv], pre, post, h1, by rw [ht, h3], h2⟩
      · exact ⟨by simp [fetchOf, hv], pre, post, h1, by rw [ht, h3], h2⟩
  · intro hs
    obtain ⟨st', hres⟩ := stop_incParse m u hs
    obtain ⟨a, ha, ho, ht⟩ := key (.parseError u) (by rw [hs]; rfl) (by simp)
    have hp := List.find?_some ha
    obtain ⟨pre, post, h1, h2, h3⟩ := C17.cutAt_of_some _ _ a ha
    refine ⟨⟨st', by rw [← executeT_res tag]; exact hres⟩, ?_⟩
    cases a with
    | exec t => simp [Include.failing] at hp
    | fetch v =>
      simp only [Include.specOutcome, ha] at ho
      simp only [Include.failing] at hp
      unfold ifs at ho hp
      cases hv : fs v <;> simp [hv, fileOf] at ho hp
      subst ho
      exact ⟨by simp [fetchOf, hv], pre, post, h1, by rw [ht, h3], h2⟩

end Bridge

/-! ## the hypotheses are decidable for finite file systems, and inhabited -/

/-- `filesStraight` (a `Bool`) implies the hypothesis `FilesStraight` of the bridge theorems for `ofList` file systems -/
theorem filesStraight_sound (files : List (String × VFile)) (h : filesStraight files = true) : FilesStraight (ofList files) := by
  intro u ss hu
  unfold ofList at hu
  cases hf : files.find? (·.1 == u) with
  | none => simp [hf] at hu
  | some p =>
    simp only [hf, Option.map_some, Option.getD_some] at hu
    have hm := List.mem_of_find?_eq_some hf
    have := List.all_eq_true.mp h p hm
    rw [hu] at this
    exact this

section Examples
open HostImpl C08

def exTag : Stmt → String
  | .expr none (.function _ [.string t]) => t
  | .expr (some n) _ => n.render
  | .label l => l.render
  | .function _ n _ _ _ _ => n.render
  | _ => "?"

/-- the tree of `C17`'s example as REAL statement lists: depth 3, path and URL bases, a system include, two `return`s, a
broken file; `sys.bare` assigns a global -/
def exFiles : List (String × VFile) := [
  ("/r/sub/a.bare", .stmts [logS "a1", .include [⟨"http://h/x/b.bare", false⟩, ⟨"../c.bare", false⟩], .ret none, logS "never"]),
  ("http://h/x/b.bare", .stmts [logS "b1", .include [⟨"lib/d.bare", false⟩, ⟨"sys.bare", true⟩], logS "b2"]),
  ("http://h/x/lib/d.bare", .stmts [logS "d1", .ret (some (.number 5)), .include [⟨"never.bare", false⟩]]),
  ("/sys/sys.bare", .stmts [.expr (some (.user "x")) (.number 1)]),
  ("/r/sub/../c.bare", .stmts [.label (.user "L"), logS "c1"]),
  ("/r/bad.bare", .broken)]

def exRoot : List Stmt :=
  [logS "m1", .include [⟨"sub/a.bare", false⟩], logS "m2", .include [⟨"bad.bare", false⟩, ⟨"x.bare", false⟩], logS "never"]

def exCfg : Config World := instCfg (xcfg [] 1000) (some "/sys/") (ofList exFiles)

example : Straight exRoot = true := by decide
example : FilesStraight (ofList exFiles) := filesStraight_sound _ (by decide)
example : Straight [.jump (.user "L") none] = false := by decide

/-- the machine run: every reference resolved against ITS includer, `d` and `a` end by `return` and their includers go on,
the log and the global written by the system include are in the ONE state, `bad.bare` stops everything with the resolved
location, 15 statements were counted (those of the included scripts too) -/
example :
    let m := executeT exTag exCfg 100 exRoot (some "/r/main.bare") g0
    m.trace = [.exec "m1", .fetch "/r/sub/a.bare", .exec "a1", .fetch "http://h/x/b.bare", .exec "b1",
               .fetch "http://h/x/lib/d.bare", .exec "d1", .fetch "/sys/sys.bare", .exec "x", .exec "b2",
               .fetch "/r/sub/../c.bare", .exec "L", .exec "c1", .exec "m2", .fetch "/r/bad.bare"] ∧
    m.stop = .incParse "/r/bad.bare" ∧
    (obs m.res).err = some (.includeParse "/r/bad.bare") ∧
    (obs m.res).log = ["m1", "a1", "b1", "d1", "b2", "c1", "m2"] ∧
    (obs m.res).globals = g0.globals ++ [(.user "x", .num 1)] ∧
    (obs m.res).count = 15 := by decide +kernel

/-- … and `Include.run` on the abstraction produces the same events and the corresponding outcome (`machine_refines_include`) -/
example :
    let r := Include.run (icfgOf exTag (some "/sys/") (ofList exFiles)) (fun t l => l ++ [t]) 101 (.relativeTo "/r/main.bare")
      (itemsOf exTag exRoot) []
    r.trace = (executeT exTag exCfg 100 exRoot (some "/r/main.bare") g0).trace ∧
    r.outcome = .parseError "/r/bad.bare" := by decide +kernel

/-- a run that completes (`machine_fetch_order` is not vacuous) -/
example :
    let m := executeT exTag exCfg 100 (exRoot.take 3) (some "/r/main.bare") g0
    m.stop = .fin ∧ Include.fetchesOf m.trace =
      ["/r/sub/a.bare", "http://h/x/b.bare", "http://h/x/lib/d.bare", "/sys/sys.bare", "/r/sub/../c.bare"] := by decide +kernel

/-- a missing file (`machine_include_errors`, first half) -/
example : (executeT exTag exCfg 100 [.include [⟨"../nope.bare", false⟩], logS "never"] (some "http://h/x/y/main.bare") g0).stop
    = .incFailed "http://h/x/y/../nope.bare" := by decide +kernel

/-- a plain statement that fails: the machine stops (`Stop.stmt`), the include model would run on — only the prefix
statement of `machine_refines_include` applies -/
example :
    let P : List Stmt := [logS "m1", .expr none (.function (.user "nope") []), .include [⟨"sub/a.bare", false⟩]]
    (executeT exTag exCfg 100 P (some "/r/main.bare") g0).stop = .stmt ∧
    (executeT exTag exCfg 100 P (some "/r/main.bare") g0).trace = [.exec "m1", .exec "?"] ∧
    (Include.run (icfgOf exTag (some "/sys/") (ofList exFiles)) (fun t l => l ++ [t]) 101 (.relativeTo "/r/main.bare")
      (itemsOf exTag P) []).trace.length = 14 := by decide +kernel

/-- `machine_dead_after_return`: the tail may hold anything, e.g. a jump to a label that does not exist -/
example : Straight [logS "a", .include [⟨"sub/a.bare", false⟩]] = true := by decide

/-! ### outside the bridge: an include statement inside a function body (DESIGN finding F42)

`Machine.callValue` runs a function body with `base = none`: the include of `lib.bare` inside `f`, called from
`/r/main.bare`, is resolved verbatim (and fails here, because only `/r/lib.bare` exists), where runtime.py hands the
caller's `urlFn` to the callee and fetches `/r/lib.bare`.  The error is raised inside a plain statement (`Stop.stmt`), and
the request is not an event of the script tree. -/
def f42Body : List Stmt := [.include [⟨"lib.bare", false⟩]]
def f42Cfg : Config World :=
  instCfg (xcfg [(0, { name := .user "f", args := [], lastArgArray := false, body := f42Body })] 1000) none
    (ofList [("/r/lib.bare", .stmts [logS "lib"])])
def f42Root : List Stmt := [.function 0 (.user "f") [] false false f42Body, .expr none (.function (.user "f") [])]

example :
    let m := executeT exTag f42Cfg 100 f42Root (some "/r/main.bare") g0
    (obs m.res).err = some (.includeFailed "lib.bare") ∧ m.stop = .stmt ∧ m.trace = [.exec "f", .exec "?"] := by decide +kernel

/-- the same include statement at top level of `/r/main.bare` is resolved against the including file -/
example :
    let m := executeT exTag f42Cfg 100 f42Body (some "/r/main.bare") g0
    m.stop = .fin ∧ m.trace = [.fetch "/r/lib.bare", .exec "lib"] := by decide +kernel

end Examples

end C17Bridge
