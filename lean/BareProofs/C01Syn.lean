import BareProofs.C01SynLemmas

/-!
# C01 — a purely syntactic sufficient condition for "the run touches no reserved global"

The C01 theorems for the concrete hosts (`C01.parse_exec_structured_hostImpl`, `C01.ticked_erasure_hostImpl`, `…_hostLib`,
`C01Host.lean`) carry a condition on the **run**: `touchesReserved (guarded run) = false` — no library call of the run names
a parser-generated (`__bareScript…`) global.  The only library functions of `HostImpl.host` / `HostLib.hostLib` that reach the
globals by a *computed* name are `systemGlobalGet` and `systemGlobalSet` (`globalFns`).  This file replaces the run-level
condition by a decidable condition on the **source program and the start state**:

* `NoGlobalAccess B st` (HostImpl; `NoGlobalAccessL` for HostLib):
  1. `nmB globalFns false B` — the program never *reads* the identifiers `systemGlobalGet` / `systemGlobalSet`: not as a
     variable, not as the name of a called function, not as the index variable of a `for` (function bodies included; no
     include statements — the version with includes is `…_includes` below);
  2. `EnvOK globalFns st.globals` — every initial global holds a value that is not one of the two library function values,
     **or** is bound under one of the two identifiers (the usual start state binds `systemGlobalGet ↦ fn (lib "systemGlobalGet")`:
     that binding can be reached only by an identifier the program does not contain);
  3. `WorldOK globalFns st.world` — no heap cell (array element, object member) and no entry of the partial-application table
     (`systemPartial`) holds one of the two function values, so they cannot be obtained through a container, a partial
     application or a call-back;
* `TableClean scfg` — the bodies of the function table satisfy 1. (like `TablesOK`, a condition on the table the
  configuration carries; `tableClean_of_list` decides it for a table given as a list).

**Main theorems** (no bound on fuel, program size, nesting, heap):

* `noGlobalAccess_touchesReserved` (+ `_execM₀`, `_runT₀`, `_parse`; `…L…` for HostLib; `_includes` with include statements
  whose fetched scripts satisfy the predicate): under `NoGlobalAccess`, the guarded **machine** run never ends with the guard's
  error.  Proof: the value-flow invariant of `C01SynLemmas` (`run_good`) — in such a run **no** `globalGet` / `globalSet`
  request is ever issued, because the two function values never become callable: every value in locals, in the globals under a
  non-forbidden name, in heap cells, in the partial table, in call arguments and results is clean, and this is preserved by
  every step of `evalExpr` / `callValue₀` / `runTree` / `execM₀` / `execIncludes₀` and by every library function of the host.
* `noGlobalAccess_runS` (direct, `pure_good`: the same invariant on `callS` / `execSS` / `execSB` / `execSE` / `forS`): the
  guarded **pure** run never ends with the guard's error and is the real pure run — for every program that reads no forbidden
  identifier (no `ProgOK` needed).  `noGlobalAccess_touchesReserved_runS`: the same from any state `st'` that is only
  *related* (`StRel`: same world, same user-visible globals) to a state satisfying the predicate — through `C01.ticked_erasure`
  for the guarded host (this is the form the end-to-end theorems need: the pure side starts from `st'`).
* `parse_exec_structured_hostImpl_syntactic`, `ticked_erasure_hostImpl_syntactic`, `parse_exec_structured_budget_hostImpl_syntactic`
  (and `…_hostLib_syntactic`): the C01 end-to-end statements for the concrete hosts **without any run-level hypothesis** and
  without any mention of the guarded host: exactly the shape of `C01.parse_exec_structured` / `C01.ticked_erasure`.
* `parse_exec_structured_hostImpl_whole` / `…_hostLib_whole`: the function table is the one the program defines
  (`progTable B`), so `TablesOK` and `TableClean` follow from `ProgOK B` and the predicate: every hypothesis is a condition on
  `B` and `st`.

Scope: the modelled hosts.  The real library has further entry points that reach globals by computed name (`dataFilter`,
`dataCalculatedField`, `dataJoin` evaluate expression *texts* against the globals: `dataCalculatedField(d, 'b', '__bareScriptIndex0')`
reads a hidden variable); they are not part of `HostImpl` / `HostLib`.  The framework is parametric in the list `F` of forbidden library names (`HostClean F`), so a larger
host only needs its own `HostClean` instance.
-/

set_option linter.unusedSimpArgs false
set_option linter.unusedSectionVars false
set_option linter.unusedVariables false

namespace C01Syn
open Machine StructuredS Lower Structured C01

variable {W : Type}

/-! ## the generic statements (any host with `HostClean`, any list `F` of forbidden library names) -/

section Generic
variable {F : List String} {okW : W → Prop} {inc : Bool} {cfg : Config W} {scfg : SConfig W} {start : FnId → Nat}

/-- the bodies of the (structured) function table read no forbidden identifier -/
def TableCleanG (F : List String) (inc : Bool) (scfg : SConfig W) : Prop :=
  ∀ id d, scfg.sfuns id = some d → nmB F inc d.body = true

/-- the fetched scripts read no forbidden identifier -/
def FetchCleanG (F : List String) (cfg : Config W) : Prop :=
  ∀ url ss, cfg.fetch url = .script ss → nmP F true ss = true

/-- from the source-level conditions to `CfgClean` of the guarded machine configuration (the machine's table is the
lowering of the structured one) -/
theorem cfgClean_of (ag : Agree cfg scfg start) (hh : HostClean F okW cfg.host) (htc : TableCleanG F inc scfg)
    (hf : inc = true → ∀ url ss, cfg.fetch url = .script ss → nmP F inc ss = true) :
    CfgClean F okW inc (guardCfg cfg) := by
  refine cfgClean_guard ⟨hh, fun id fd hfd => ?_, hf⟩
  rw [ag.funs id] at hfd
  cases hd : scfg.sfuns id with
  | none => rw [hd] at hfd; cases hfd
  | some d =>
    rw [hd] at hfd
    simp only [Option.map_some, Option.some.injEq] at hfd
    subst hfd
    exact lowerB_nm inc d.body none (start id) (htc id d hd)

section
variable (hc : CfgClean F okW inc (guardCfg cfg))
include hc

/-- the cache-free machine, any statement list, any program counter, any locals -/
theorem execM₀_untouched (fuel : Nat) (P : List Stmt) (l : Option Env) (base : Option String) (pc : Nat) (st : State W)
    (hP : nmP F inc P = true) (hl : LocOK F l) (hst : StOK F okW st) :
    touchesReserved (execM₀ (guardCfg cfg) fuel P l base pc st) = false :=
  goodRes_touches ((run_good hc fuel).2.1 P l base pc st hP hl hst)

/-- one call of a clean function value -/
theorem callValue₀_untouched (fuel : Nat) (f : Value) (args : List Value) (st : State W) (hf : clean F f = true)
    (ha : CleanL F args) (hst : StOK F okW st) : touchesReservedO (callValue₀ (guardCfg cfg) fuel f args st) = false :=
  goodOut_touches ((run_good hc fuel).1 f args st hf ha hst)

/-- `execute_script` on the real, label-caching machine -/
theorem execute_untouched (fuel : Nat) (P : List Stmt) (base : Option String) (st : State W)
    (hP : nmP F inc P = true) (hst : StOK F okW st) : touchesReserved (execute (guardCfg cfg) fuel P base st) = false := by
  rw [C08.execute_eq]
  exact execM₀_untouched hc fuel P none base 0 { st with count := 0 } hP trivial hst

/-- the ticked structured reading -/
theorem runT₀_untouched (B : List SStmt) (hraw : NoRawB B) (hB : nmB F inc B = true) (fuel : Nat) (base : Option String)
    (st : State W) (hst : StOK F okW st) : touchesReserved (runT₀ (guardCfg cfg) fuel B base st) = false := by
  have e : runT₀ (guardCfg cfg) fuel B base st = execM₀ (guardCfg cfg) fuel (lowerB none B 0).1 none base 0 st :=
    (run_body_eq (guardCfg cfg) base B 0 hraw fuel none st).symm
  rw [e]
  exact execM₀_untouched hc fuel _ none base 0 st (lowerB_nm inc B none 0 hB) trivial hst

end

/-- the pure source-level reading: obtained from the machine side through `C01.ticked_erasure` for the guarded host (which
satisfies `HostNoReserved`): a terminating pure run is matched by a machine run with the same error, if any -/
theorem runS_untouched (ag : Agree cfg scfg start) (htb : TruthyBool cfg.host) (htab : TablesOK scfg)
    (hc : CfgClean F okW inc (guardCfg cfg)) (hmax : cfg.maxStatements = 0) (B : List SStmt) (hB : ProgOK B)
    (hnm : nmB F inc B = true) (st st' : State W) (hs : StRel st st') (hst : StOK F okW st) (k : Nat) :
    touchesReserved (runS (guardS scfg) k B st') = false := by
  by_cases hne : runS (guardS scfg) k B st' = .oof
  · rw [hne]; rfl
  · have h := ticked_erasure (agree_guard ag) ((truthyBool_guard _).2 htb) (hostNoReserved_guard _) (scfg := guardS scfg) htab
      hmax B hB none st st' hs
    obtain ⟨r, hr, N, hN⟩ := h.2 k hne
    rw [hr.touches, ← hN N (Nat.le_refl _)]
    exact runT₀_untouched hc B hB.noRaw hnm N none st hst

/-- the pure source-level reading, **directly** (`pure_good`: the same value-flow invariant on `callS` / `execSS` / `execSB` /
`execSE` / `forS`): no `ProgOK`, no `TablesOK`, no host law, no machine configuration — any structured program that reads no
forbidden identifier, from an admissible state.  The guarded pure run is the real pure run. -/
theorem runS_clean (hh : HostClean F okW scfg.host) (htc : TableCleanG F inc scfg) (B : List SStmt) (hnm : nmB F inc B = true)
    (st : State W) (hst : StOK F okW st) (k : Nat) :
    touchesReserved (runS (guardS scfg) k B st) = false ∧ runS scfg k B st = runS (guardS scfg) k B st := by
  have hu : touchesReserved (runS (guardS scfg) k B st) = false := by
    rw [runS_eq]
    exact goodS_touches ((pure_good (scfg := guardS scfg) (inc := inc) (hostClean_guard hh) htc k).2.2.1 B none st hnm trivial hst)
  exact ⟨hu, (guard_runS scfg k B st hu).1⟩

section Corollaries
variable (ag : Agree cfg scfg start) (htb : TruthyBool cfg.host) (htab : TablesOK scfg)
  (hc : CfgClean F okW inc (guardCfg cfg))
include ag htb htab hc

/-- **T3 without run-level hypothesis**, generic form -/
theorem ticked_erasure_clean (hmax : cfg.maxStatements = 0) (B : List SStmt) (hB : ProgOK B) (hnm : nmB F inc B = true)
    (base : Option String) (st st' : State W) (hs : StRel st st') (hst : StOK F okW st) :
    (∀ fuel, runT₀ cfg fuel B base st ≠ .oof →
      ∃ r', ResRel (runT₀ cfg fuel B base st) r' ∧ ∃ N, ∀ k, N ≤ k → runS scfg k B st' = r') ∧
    (∀ k, runS scfg k B st' ≠ .oof →
      ∃ r, ResRel r (runS scfg k B st') ∧ ∃ N, ∀ f, N ≤ f → runT₀ cfg f B base st = r) := by
  have h := ticked_erasure_guarded ag htb htab hmax B hB base st st' hs
  refine ⟨fun fuel hne => ?_, fun k hne => ?_⟩
  · have hu := runT₀_untouched hc B hB.noRaw hnm fuel base st hst
    have e := (guard_runT₀ cfg B hB.noRaw fuel base st hu).1
    exact (h.1 fuel (by rw [← e]; exact hne) hu).2
  · have hu := runS_untouched ag htb htab hc hmax B hB hnm st st' hs hst k
    have e := (guard_runS scfg k B st' hu).1
    exact (h.2 k (by rw [← e]; exact hne) hu).2

/-- **T4 without run-level hypothesis**, generic form -/
theorem parse_exec_structured_clean (hmax : cfg.maxStatements = 0) (B : List SStmt) (hB : ProgOK B) (hfid : FidsInOrder B)
    (hnm : nmB F inc B = true) (base : Option String) (st st' : State W) (hs : StRel st st') (hst : StOK F okW st) :
    ∃ P, parseLines (renderB B) = .ok P ∧
      (∀ fuel, execute cfg fuel P base st ≠ .oof →
        ∃ r', ResRel (execute cfg fuel P base st) r' ∧ ∃ N, ∀ k, N ≤ k → runS scfg k B st' = r') ∧
      (∀ k, runS scfg k B st' ≠ .oof →
        ∃ r, ResRel r (runS scfg k B st') ∧ ∃ N, ∀ f, N ≤ f → execute cfg f P base st = r) := by
  obtain ⟨P, hP, h1, h2⟩ := parse_exec_structured_guarded ag htb htab hmax B hB hfid base st st' hs
  have hP' := parseLines_render B hB.wellNested hfid (incB_of_noInclude B hB.noInclude)
  rw [hP'] at hP
  cases hP
  refine ⟨lowerProgram B, hP', fun fuel hne => ?_, fun k hne => ?_⟩
  · have hu := execute_untouched hc fuel (lowerProgram B) base st (lowerB_nm inc B none 0 hnm) hst
    have e := (guard_execute cfg fuel _ base st hu).1
    exact (h1 fuel (by rw [← e]; exact hne) hu).2
  · have hu := runS_untouched ag htb htab hc hmax B hB hnm st st' hs hst k
    have e := (guard_runS scfg k B st' hu).1
    exact (h2 k (by rw [← e]; exact hne) hu).2

/-- **T4 with a statement budget, without run-level hypothesis on reserved globals**, generic form -/
theorem parse_exec_structured_budget_clean (B : List SStmt) (hB : ProgOK B) (hfid : FidsInOrder B)
    (hnm : nmB F inc B = true) (fuel : Nat) (base : Option String) (st st' : State W) (hs : StRel st st')
    (hst : StOK F okW st) :
    ∃ P, parseLines (renderB B) = .ok P ∧
      (execute cfg fuel P base st ≠ .oof → (∀ m s, execute cfg fuel P base st ≠ .err (.exceeded m) s) →
        ∃ r', ResRel (execute cfg fuel P base st) r' ∧ ∃ N, ∀ k, N ≤ k → runS scfg k B st' = r') := by
  obtain ⟨P, hP, h1⟩ := parse_exec_structured_budget_guarded ag htb htab B hB hfid fuel base st st' hs
  have hP' := parseLines_render B hB.wellNested hfid (incB_of_noInclude B hB.noInclude)
  rw [hP'] at hP
  cases hP
  refine ⟨lowerProgram B, hP', fun hne hbud => ?_⟩
  have hu := execute_untouched hc fuel (lowerProgram B) base st (lowerB_nm inc B none 0 hnm) hst
  have e := (guard_execute cfg fuel _ base st hu).1
  exact (h1 (by rw [← e]; exact hne) (by rw [← e]; exact hbud) hu).2

end Corollaries
end Generic

/-! ## the concrete predicate -/

/-- the library functions of `HostImpl` / `HostLib` that reach the globals by a computed name -/
def globalFns : List String := ["systemGlobalGet", "systemGlobalSet"]

/-- **`NoGlobalAccess B st`** (HostImpl): the program never reads the identifiers `systemGlobalGet` / `systemGlobalSet`, and
in the start state the two library function values occur nowhere except (possibly) in the globals under exactly these two
identifiers — not under another name, not in a heap cell, not in the partial-application table.  Decidable. -/
structure NoGlobalAccess (B : List SStmt) (st : State HostImpl.World) : Prop where
  prog : nmB globalFns false B = true
  globals : EnvOK globalFns st.globals
  world : WorldOK globalFns st.world

instance (B : List SStmt) (st : State HostImpl.World) : Decidable (NoGlobalAccess B st) :=
  decidable_of_iff (nmB globalFns false B = true ∧ EnvOK globalFns st.globals ∧ WorldOK globalFns st.world)
    ⟨fun h => ⟨h.1, h.2.1, h.2.2⟩, fun h => ⟨h.1, h.2, h.3⟩⟩

/-- the same for `HostLib` (the heap is `Lib.Heap`; `lheapOKB` is the decidable form of its invariant) -/
structure NoGlobalAccessL (B : List SStmt) (st : State HostLib.LWorld) : Prop where
  prog : nmB globalFns false B = true
  globals : EnvOK globalFns st.globals
  heap : lheapOKB globalFns st.world.heap = true
  partials : PartialsOK globalFns st.world.partials

instance (B : List SStmt) (st : State HostLib.LWorld) : Decidable (NoGlobalAccessL B st) :=
  decidable_of_iff (nmB globalFns false B = true ∧ EnvOK globalFns st.globals ∧ lheapOKB globalFns st.world.heap = true ∧
      PartialsOK globalFns st.world.partials)
    ⟨fun h => ⟨h.1, h.2.1, h.2.2.1, h.2.2.2⟩, fun h => ⟨h.1, h.2, h.3, h.4⟩⟩

/-- the bodies of the function table never read the two identifiers (and contain no include statement) -/
def TableClean (scfg : SConfig W) : Prop := TableCleanG globalFns false scfg

/-- `TableClean` for a table given as a finite list is a finite check -/
theorem tableClean_of_list (scfg : SConfig W) (ds : List (FnId × SFuncDef))
    (htab : ∀ id, scfg.sfuns id = (ds.find? (·.1 == id)).map (·.2))
    (hds : ds.all (fun p => nmB globalFns false p.2.body) = true) : TableClean scfg := by
  intro id d hd
  rw [htab id] at hd
  cases hf : ds.find? (·.1 == id) with
  | none => rw [hf] at hd; cases hd
  | some p =>
    rw [hf] at hd
    simp only [Option.map_some, Option.some.injEq] at hd
    subst hd
    exact List.all_eq_true.1 hds p (List.mem_of_find?_eq_some hf)

theorem NoGlobalAccess.stOK {B : List SStmt} {st : State HostImpl.World} (h : NoGlobalAccess B st) :
    StOK globalFns (WorldOK globalFns) st := ⟨h.globals, h.world⟩

theorem NoGlobalAccessL.stOK {B : List SStmt} {st : State HostLib.LWorld} (h : NoGlobalAccessL B st) :
    StOK globalFns (LWorldOK globalFns) st := ⟨h.globals, lheapOKB_sound h.heap, h.partials⟩

theorem hostImpl_clean' : HostClean globalFns (WorldOK globalFns) HostImpl.host := hostImpl_clean (by decide) (by decide)
theorem hostLib_clean' : HostClean globalFns (LWorldOK globalFns) HostLib.hostLib := hostLib_clean (by decide) (by decide)

/-! ## HostImpl -/

section HostImplInstances
variable {cfg : Config HostImpl.World} {scfg : SConfig HostImpl.World} {start : FnId → Nat} (ag : Agree cfg scfg start)
  (hh : cfg.host = HostImpl.host) (htc : TableClean scfg)
include ag hh htc

theorem cfgClean_hostImpl : CfgClean globalFns (WorldOK globalFns) false (guardCfg cfg) :=
  cfgClean_of ag (hh ▸ hostImpl_clean') htc (fun h => by cases h)

/-- **`noGlobalAccess_touchesReserved`** (HostImpl, `execute_script` on the lowering of the program = on what the parser
returns for its text, any fuel, any include base): under the syntactic condition the guarded run never ends with the guard's
error — no library call of the run names a reserved global (indeed none reaches the globals at all). -/
theorem noGlobalAccess_touchesReserved {B : List SStmt} {st : State HostImpl.World} (h : NoGlobalAccess B st) (fuel : Nat)
    (base : Option String) : touchesReserved (execute (guardCfg cfg) fuel (lowerProgram B) base st) = false :=
  execute_untouched (cfgClean_hostImpl ag hh htc) fuel _ base st (lowerB_nm false B none 0 h.prog) h.stOK

/-- … stated for the statement list the parser returns for the rendered lines of `B` -/
theorem noGlobalAccess_touchesReserved_parse {B : List SStmt} {st : State HostImpl.World} (h : NoGlobalAccess B st)
    (hwn : WellNested B) (hfid : FidsInOrder B) (hi : NoAdjacentIncludes B) (fuel : Nat) (base : Option String) :
    ∃ P, parseLines (renderB B) = .ok P ∧ touchesReserved (execute (guardCfg cfg) fuel P base st) = false :=
  ⟨lowerProgram B, parseLines_render B hwn hfid hi, noGlobalAccess_touchesReserved ag hh htc h fuel base⟩

/-- … for the cache-free machine from any program counter of the lowered program -/
theorem noGlobalAccess_touchesReserved_execM₀ {B : List SStmt} {st : State HostImpl.World} (h : NoGlobalAccess B st)
    (fuel : Nat) (base : Option String) (pc : Nat) :
    touchesReserved (execM₀ (guardCfg cfg) fuel (lowerProgram B) none base pc st) = false :=
  execM₀_untouched (cfgClean_hostImpl ag hh htc) fuel _ none base pc st (lowerB_nm false B none 0 h.prog) trivial h.stOK

/-- … for the ticked structured reading -/
theorem noGlobalAccess_touchesReserved_runT₀ {B : List SStmt} {st : State HostImpl.World} (h : NoGlobalAccess B st)
    (hraw : NoRawB B) (fuel : Nat) (base : Option String) : touchesReserved (runT₀ (guardCfg cfg) fuel B base st) = false :=
  runT₀_untouched (cfgClean_hostImpl ag hh htc) B hraw h.prog fuel base st h.stOK

/-- … and for the pure source-level reading, from any state `st'` with the same world and user-visible globals -/
theorem noGlobalAccess_touchesReserved_runS (htab : TablesOK scfg) (hmax : cfg.maxStatements = 0) {B : List SStmt}
    {st : State HostImpl.World} (h : NoGlobalAccess B st) (hB : ProgOK B) (st' : State HostImpl.World) (hs : StRel st st')
    (k : Nat) : touchesReserved (runS (guardS scfg) k B st') = false :=
  runS_untouched ag (hh ▸ hostImpl_truthyBool) htab (cfgClean_hostImpl ag hh htc) hmax B hB h.prog st st' hs h.stOK k

/-- **T4 for `HostImpl.host`, purely syntactic hypotheses.**  All 18 library functions, `systemGlobalGet` / `systemGlobalSet`
included in the host and bound in the start state: for every structured program `B` with `ProgOK`, `FidsInOrder` and
`NoGlobalAccess B st`, the lines a user writes for `B` parse to a statement list `P` on which `execute_script` (the real
machine with the real host) agrees with the pure source-level reading (real host) in both directions.  No hypothesis about
any run, no guarded or sanitised host: only decidable conditions on the program and the start state (and on the tables). -/
theorem parse_exec_structured_hostImpl_syntactic (htab : TablesOK scfg) (hmax : cfg.maxStatements = 0) (B : List SStmt)
    (hB : ProgOK B) (hfid : FidsInOrder B) (base : Option String) (st st' : State HostImpl.World) (hs : StRel st st')
    (hng : NoGlobalAccess B st) :
    ∃ P, parseLines (renderB B) = .ok P ∧
      (∀ fuel, execute cfg fuel P base st ≠ .oof →
        ∃ r', ResRel (execute cfg fuel P base st) r' ∧ ∃ N, ∀ k, N ≤ k → runS scfg k B st' = r') ∧
      (∀ k, runS scfg k B st' ≠ .oof →
        ∃ r, ResRel r (runS scfg k B st') ∧ ∃ N, ∀ f, N ≤ f → execute cfg f P base st = r) :=
  parse_exec_structured_clean ag (hh ▸ hostImpl_truthyBool) htab (cfgClean_hostImpl ag hh htc) hmax B hB hfid hng.prog base
    st st' hs hng.stOK

/-- **T3 for `HostImpl.host`, purely syntactic hypotheses** -/
theorem ticked_erasure_hostImpl_syntactic (htab : TablesOK scfg) (hmax : cfg.maxStatements = 0) (B : List SStmt)
    (hB : ProgOK B) (base : Option String) (st st' : State HostImpl.World) (hs : StRel st st') (hng : NoGlobalAccess B st) :
    (∀ fuel, runT₀ cfg fuel B base st ≠ .oof →
      ∃ r', ResRel (runT₀ cfg fuel B base st) r' ∧ ∃ N, ∀ k, N ≤ k → runS scfg k B st' = r') ∧
    (∀ k, runS scfg k B st' ≠ .oof →
      ∃ r, ResRel r (runS scfg k B st') ∧ ∃ N, ∀ f, N ≤ f → runT₀ cfg f B base st = r) :=
  ticked_erasure_clean ag (hh ▸ hostImpl_truthyBool) htab (cfgClean_hostImpl ag hh htc) hmax B hB hng.prog base st st' hs
    hng.stOK

/-- **T4 with a statement budget for `HostImpl.host`, purely syntactic hypotheses** (as long as the run is not stopped by the
budget) -/
theorem parse_exec_structured_budget_hostImpl_syntactic (htab : TablesOK scfg) (B : List SStmt) (hB : ProgOK B)
    (hfid : FidsInOrder B) (fuel : Nat) (base : Option String) (st st' : State HostImpl.World) (hs : StRel st st')
    (hng : NoGlobalAccess B st) :
    ∃ P, parseLines (renderB B) = .ok P ∧
      (execute cfg fuel P base st ≠ .oof → (∀ m s, execute cfg fuel P base st ≠ .err (.exceeded m) s) →
        ∃ r', ResRel (execute cfg fuel P base st) r' ∧ ∃ N, ∀ k, N ≤ k → runS scfg k B st' = r') :=
  parse_exec_structured_budget_clean ag (hh ▸ hostImpl_truthyBool) htab (cfgClean_hostImpl ag hh htc) B hB hfid hng.prog fuel
    base st st' hs hng.stOK

/-- under the syntactic condition the real host, the guarded host and the sanitised host run the program identically -/
theorem noGlobalAccess_real_eq_sanitized {B : List SStmt} {st : State HostImpl.World} (h : NoGlobalAccess B st) (fuel : Nat)
    (base : Option String) :
    execute cfg fuel (lowerProgram B) base st = execute (sanCfg cfg) fuel (lowerProgram B) base st :=
  real_eq_sanitized_execute cfg fuel _ base st (noGlobalAccess_touchesReserved ag hh htc h fuel base)

end HostImplInstances

/-- the pure source-level reading on its own (direct proof: no `ProgOK`, no `TablesOK`, no machine configuration): under the
syntactic condition the guarded pure run never ends with the guard's error, and is the real pure run -/
theorem noGlobalAccess_runS {scfg : SConfig HostImpl.World} (hh : scfg.host = HostImpl.host) (htc : TableClean scfg)
    {B : List SStmt} {st : State HostImpl.World} (h : NoGlobalAccess B st) (k : Nat) :
    touchesReserved (runS (guardS scfg) k B st) = false ∧ runS scfg k B st = runS (guardS scfg) k B st :=
  runS_clean (hh ▸ hostImpl_clean') htc B h.prog st h.stOK k

/-! ### HostImpl, programs with include statements: the fetched scripts must satisfy the predicate too -/

/-- `execute_script` of **any** jump-level statement list (includes admitted) that reads no forbidden identifier, with a
function table and fetched scripts that read none, from an admissible state: the guarded run never ends with the guard's
error.  (No structured program, no `Agree`: directly on the machine configuration.) -/
theorem noGlobalAccess_touchesReserved_includes {cfg : Config HostImpl.World} (hh : cfg.host = HostImpl.host)
    (hfuns : ∀ id fd, cfg.funs id = some fd → nmP globalFns true fd.body = true) (hfetch : FetchCleanG globalFns cfg)
    (P : List Stmt) (hP : nmP globalFns true P = true) (st : State HostImpl.World) (hg : EnvOK globalFns st.globals)
    (hw : WorldOK globalFns st.world) (fuel : Nat) (base : Option String) :
    touchesReserved (execute (guardCfg cfg) fuel P base st) = false :=
  execute_untouched (cfgClean_guard ⟨hh ▸ hostImpl_clean', hfuns, fun _ => hfetch⟩) fuel P base st hP ⟨hg, hw⟩

/-! ## HostLib -/

section HostLibInstances
variable {cfg : Config HostLib.LWorld} {scfg : SConfig HostLib.LWorld} {start : FnId → Nat} (ag : Agree cfg scfg start)
  (hh : cfg.host = HostLib.hostLib) (htc : TableClean scfg)
include ag hh htc

theorem cfgClean_hostLib : CfgClean globalFns (LWorldOK globalFns) false (guardCfg cfg) :=
  cfgClean_of ag (hh ▸ hostLib_clean') htc (fun h => by cases h)

/-- **`noGlobalAccess_touchesReserved` for `HostLib.hostLib`** (the 40 functions of the verified library model `Lib` plus
HostImpl's `system*` functions) -/
theorem noGlobalAccessL_touchesReserved {B : List SStmt} {st : State HostLib.LWorld} (h : NoGlobalAccessL B st) (fuel : Nat)
    (base : Option String) : touchesReserved (execute (guardCfg cfg) fuel (lowerProgram B) base st) = false :=
  execute_untouched (cfgClean_hostLib ag hh htc) fuel _ base st (lowerB_nm false B none 0 h.prog) h.stOK

theorem noGlobalAccessL_touchesReserved_runT₀ {B : List SStmt} {st : State HostLib.LWorld} (h : NoGlobalAccessL B st)
    (hraw : NoRawB B) (fuel : Nat) (base : Option String) : touchesReserved (runT₀ (guardCfg cfg) fuel B base st) = false :=
  runT₀_untouched (cfgClean_hostLib ag hh htc) B hraw h.prog fuel base st h.stOK

theorem noGlobalAccessL_touchesReserved_runS (htab : TablesOK scfg) (hmax : cfg.maxStatements = 0) {B : List SStmt}
    {st : State HostLib.LWorld} (h : NoGlobalAccessL B st) (hB : ProgOK B) (st' : State HostLib.LWorld) (hs : StRel st st')
    (k : Nat) : touchesReserved (runS (guardS scfg) k B st') = false :=
  runS_untouched ag (hh ▸ HostLib.hostLib_truthyBool) htab (cfgClean_hostLib ag hh htc) hmax B hB h.prog st st' hs h.stOK k

/-- **T4 for `HostLib.hostLib`, purely syntactic hypotheses** -/
theorem parse_exec_structured_hostLib_syntactic (htab : TablesOK scfg) (hmax : cfg.maxStatements = 0) (B : List SStmt)
    (hB : ProgOK B) (hfid : FidsInOrder B) (base : Option String) (st st' : State HostLib.LWorld) (hs : StRel st st')
    (hng : NoGlobalAccessL B st) :
    ∃ P, parseLines (renderB B) = .ok P ∧
      (∀ fuel, execute cfg fuel P base st ≠ .oof →
        ∃ r', ResRel (execute cfg fuel P base st) r' ∧ ∃ N, ∀ k, N ≤ k → runS scfg k B st' = r') ∧
      (∀ k, runS scfg k B st' ≠ .oof →
        ∃ r, ResRel r (runS scfg k B st') ∧ ∃ N, ∀ f, N ≤ f → execute cfg f P base st = r) :=
  parse_exec_structured_clean ag (hh ▸ HostLib.hostLib_truthyBool) htab (cfgClean_hostLib ag hh htc) hmax B hB hfid hng.prog
    base st st' hs hng.stOK

/-- **T3 for `HostLib.hostLib`, purely syntactic hypotheses** -/
theorem ticked_erasure_hostLib_syntactic (htab : TablesOK scfg) (hmax : cfg.maxStatements = 0) (B : List SStmt)
    (hB : ProgOK B) (base : Option String) (st st' : State HostLib.LWorld) (hs : StRel st st') (hng : NoGlobalAccessL B st) :
    (∀ fuel, runT₀ cfg fuel B base st ≠ .oof →
      ∃ r', ResRel (runT₀ cfg fuel B base st) r' ∧ ∃ N, ∀ k, N ≤ k → runS scfg k B st' = r') ∧
    (∀ k, runS scfg k B st' ≠ .oof →
      ∃ r, ResRel r (runS scfg k B st') ∧ ∃ N, ∀ f, N ≤ f → runT₀ cfg f B base st = r) :=
  ticked_erasure_clean ag (hh ▸ HostLib.hostLib_truthyBool) htab (cfgClean_hostLib ag hh htc) hmax B hB hng.prog base st st'
    hs hng.stOK

/-- **T4 with a statement budget for `HostLib.hostLib`, purely syntactic hypotheses** -/
theorem parse_exec_structured_budget_hostLib_syntactic (htab : TablesOK scfg) (B : List SStmt) (hB : ProgOK B)
    (hfid : FidsInOrder B) (fuel : Nat) (base : Option String) (st st' : State HostLib.LWorld) (hs : StRel st st')
    (hng : NoGlobalAccessL B st) :
    ∃ P, parseLines (renderB B) = .ok P ∧
      (execute cfg fuel P base st ≠ .oof → (∀ m s, execute cfg fuel P base st ≠ .err (.exceeded m) s) →
        ∃ r', ResRel (execute cfg fuel P base st) r' ∧ ∃ N, ∀ k, N ≤ k → runS scfg k B st' = r') :=
  parse_exec_structured_budget_clean ag (hh ▸ HostLib.hostLib_truthyBool) htab (cfgClean_hostLib ag hh htc) B hB hfid hng.prog
    fuel base st st' hs hng.stOK

end HostLibInstances

theorem noGlobalAccessL_runS {scfg : SConfig HostLib.LWorld} (hh : scfg.host = HostLib.hostLib) (htc : TableClean scfg)
    {B : List SStmt} {st : State HostLib.LWorld} (h : NoGlobalAccessL B st) (k : Nat) :
    touchesReserved (runS (guardS scfg) k B st) = false ∧ runS scfg k B st = runS (guardS scfg) k B st :=
  runS_clean (hh ▸ hostLib_clean') htc B h.prog st h.stOK k

/-! ## whole programs: the function table read off the program, so that every hypothesis is a condition on `B` and `st`

`C01.TablesOK` and `TableClean` speak about the function table of the configuration.  When that table is the one the program
itself defines (`progTable B`: the `function` statements of `B`, outside function bodies, by their `fid`), both follow from
`ProgOK B` and `nmB … B`. -/

mutual
/-- the function definitions of a statement (not descending into function bodies: `WellNested` excludes nested definitions) -/
def funsS : SStmt → List (FnId × SFuncDef)
  | .func fid n args laa _ b => [(fid, { name := n, args := args, lastArgArray := laa, body := b })]
  | .ite _ t e => funsB t ++ funsE e
  | .while _ b => funsB b
  | .for _ _ _ b => funsB b
  | _ => []
def funsB : List SStmt → List (FnId × SFuncDef)
  | [] => []
  | s :: ss => funsS s ++ funsB ss
def funsE : SElse → List (FnId × SFuncDef)
  | .none => []
  | .els b => funsB b
  | .elif _ t e => funsB t ++ funsE e
end

/-- the function table a program defines: the first definition with the given `fid` -/
def progTable (B : List SStmt) : FnId → Option SFuncDef := fun id => ((funsB B).find? (·.1 == id)).map (·.2)

theorem progTable_mem {B : List SStmt} {id : FnId} {d : SFuncDef} (h : progTable B id = some d) : ∃ i, (i, d) ∈ funsB B := by
  unfold progTable at h
  cases hf : (funsB B).find? (·.1 == id) with
  | none => rw [hf] at h; cases h
  | some p =>
    rw [hf] at h
    simp only [Option.map_some, Option.some.injEq] at h
    subst h
    exact ⟨p.1, List.mem_of_find?_eq_some hf⟩

mutual
theorem funsS_ok (il w : Bool) : ∀ s : SStmt, NoRawS s → NoReservedS s = true → NoIncludeS s = true →
    NoWhileContinueS w s = true → wnS il false s = true → ∀ p ∈ funsS s, FuncOK p.2
  | .func fid n args laa a b, h1, h2, h3, h4, h5, p, hp => by
      simp only [funsS, List.mem_singleton] at hp
      subst hp
      simp only [NoRawS] at h1
      simp only [NoReservedS, NoIncludeS, NoWhileContinueS, wnS, Bool.and_eq_true, Bool.not_false, true_and] at h2 h3 h4 h5
      exact ⟨h1, h2.2, by simp only [Bool.and_eq_true]; exact h2.1, h3, h4, h5⟩
  | .ite c t e, h1, h2, h3, h4, h5, p, hp => by
      simp only [NoRawS] at h1
      simp only [NoReservedS, NoIncludeS, NoWhileContinueS, wnS, Bool.and_eq_true] at h2 h3 h4 h5
      simp only [funsS, List.mem_append] at hp
      rcases hp with hp | hp
      · exact funsB_ok il w t h1.1 h2.1.2 h3.1 h4.1 h5.1 p hp
      · exact funsE_ok il w e h1.2 h2.2 h3.2 h4.2 h5.2 p hp
  | .while c b, h1, h2, h3, h4, h5, p, hp => by
      simp only [NoRawS] at h1
      simp only [NoReservedS, NoIncludeS, NoWhileContinueS, wnS, Bool.and_eq_true] at h2 h3 h4 h5
      simp only [funsS] at hp
      exact funsB_ok true true b h1 h2.2 h3 h4 h5 p hp
  | .for v ix vals b, h1, h2, h3, h4, h5, p, hp => by
      simp only [NoRawS] at h1
      simp only [NoReservedS, NoIncludeS, NoWhileContinueS, wnS, Bool.and_eq_true] at h2 h3 h4 h5
      simp only [funsS] at hp
      exact funsB_ok true false b h1 h2.2 h3 h4 h5 p hp
  | .expr _ _, _, _, _, _, _, p, hp => by simp [funsS] at hp
  | .ret _, _, _, _, _, _, p, hp => by simp [funsS] at hp
  | .label _, _, _, _, _, _, p, hp => by simp [funsS] at hp
  | .jump _ _, _, _, _, _, _, p, hp => by simp [funsS] at hp
  | .include _, _, _, _, _, _, p, hp => by simp [funsS] at hp
  | .brk, _, _, _, _, _, p, hp => by simp [funsS] at hp
  | .cont, _, _, _, _, _, p, hp => by simp [funsS] at hp
theorem funsB_ok (il w : Bool) : ∀ B : List SStmt, NoRawB B → NoReservedB B = true → NoIncludeB B = true →
    NoWhileContinueB w B = true → wnB il false B = true → ∀ p ∈ funsB B, FuncOK p.2
  | [], _, _, _, _, _, p, hp => by simp [funsB] at hp
  | s :: ss, h1, h2, h3, h4, h5, p, hp => by
      simp only [NoRawB] at h1
      simp only [NoReservedB, NoIncludeB, NoWhileContinueB, wnB, Bool.and_eq_true] at h2 h3 h4 h5
      simp only [funsB, List.mem_append] at hp
      rcases hp with hp | hp
      · exact funsS_ok il w s h1.1 h2.1 h3.1 h4.1 h5.1 p hp
      · exact funsB_ok il w ss h1.2 h2.2 h3.2 h4.2 h5.2 p hp
theorem funsE_ok (il w : Bool) : ∀ e : SElse, NoRawE e → NoReservedE e = true → NoIncludeE e = true →
    NoWhileContinueE w e = true → wnE il false e = true → ∀ p ∈ funsE e, FuncOK p.2
  | .none, _, _, _, _, _, p, hp => by simp [funsE] at hp
  | .els b, h1, h2, h3, h4, h5, p, hp => by
      simp only [NoRawE] at h1
      simp only [NoReservedE, NoIncludeE, NoWhileContinueE, wnE] at h2 h3 h4 h5
      simp only [funsE] at hp
      exact funsB_ok il w b h1 h2 h3 h4 h5 p hp
  | .elif c t e, h1, h2, h3, h4, h5, p, hp => by
      simp only [NoRawE] at h1
      simp only [NoReservedE, NoIncludeE, NoWhileContinueE, wnE, Bool.and_eq_true] at h2 h3 h4 h5
      simp only [funsE, List.mem_append] at hp
      rcases hp with hp | hp
      · exact funsB_ok il w t h1.1 h2.1.2 h3.1 h4.1 h5.1 p hp
      · exact funsE_ok il w e h1.2 h2.2 h3.2 h4.2 h5.2 p hp
end

mutual
theorem funsS_nm {F : List String} {inc : Bool} : ∀ s : SStmt, nmS F inc s = true → ∀ p ∈ funsS s, nmB F inc p.2.body = true
  | .func fid n args laa a b, h, p, hp => by
      simp only [funsS, List.mem_singleton] at hp
      subst hp
      simpa [nmS] using h
  | .ite c t e, h, p, hp => by
      simp only [nmS, Bool.and_eq_true] at h
      simp only [funsS, List.mem_append] at hp
      rcases hp with hp | hp
      · exact funsB_nm t h.1.2 p hp
      · exact funsE_nm e h.2 p hp
  | .while c b, h, p, hp => by
      simp only [nmS, Bool.and_eq_true] at h
      simp only [funsS] at hp
      exact funsB_nm b h.2 p hp
  | .for v ix vals b, h, p, hp => by
      simp only [nmS, Bool.and_eq_true] at h
      simp only [funsS] at hp
      exact funsB_nm b h.2 p hp
  | .expr _ _, _, p, hp => by simp [funsS] at hp
  | .ret _, _, p, hp => by simp [funsS] at hp
  | .label _, _, p, hp => by simp [funsS] at hp
  | .jump _ _, _, p, hp => by simp [funsS] at hp
  | .include _, _, p, hp => by simp [funsS] at hp
  | .brk, _, p, hp => by simp [funsS] at hp
  | .cont, _, p, hp => by simp [funsS] at hp
theorem funsB_nm {F : List String} {inc : Bool} : ∀ B : List SStmt, nmB F inc B = true → ∀ p ∈ funsB B, nmB F inc p.2.body = true
  | [], _, p, hp => by simp [funsB] at hp
  | s :: ss, h, p, hp => by
      simp only [nmB, Bool.and_eq_true] at h
      simp only [funsB, List.mem_append] at hp
      rcases hp with hp | hp
      · exact funsS_nm s h.1 p hp
      · exact funsB_nm ss h.2 p hp
theorem funsE_nm {F : List String} {inc : Bool} : ∀ e : SElse, nmEl F inc e = true → ∀ p ∈ funsE e, nmB F inc p.2.body = true
  | .none, _, p, hp => by simp [funsE] at hp
  | .els b, h, p, hp => by
      simp only [nmEl] at h
      simp only [funsE] at hp
      exact funsB_nm b h p hp
  | .elif c t e, h, p, hp => by
      simp only [nmEl, Bool.and_eq_true] at h
      simp only [funsE, List.mem_append] at hp
      rcases hp with hp | hp
      · exact funsB_nm t h.1.2 p hp
      · exact funsE_nm e h.2 p hp
end

/-- the table a `ProgOK` program defines satisfies `TablesOK` -/
theorem tablesOK_progTable {scfg : SConfig W} {B : List SStmt} (hsf : scfg.sfuns = progTable B) (hB : ProgOK B) :
    TablesOK scfg := by
  intro id d hd
  rw [hsf] at hd
  obtain ⟨i, hm⟩ := progTable_mem hd
  exact funsB_ok false false B hB.noRaw hB.noReserved hB.noInclude hB.noWhileContinue hB.wellNested _ hm

/-- … and `TableClean` when the program reads no forbidden identifier -/
theorem tableClean_progTable {scfg : SConfig W} {B : List SStmt} (hsf : scfg.sfuns = progTable B)
    (hnm : nmB globalFns false B = true) : TableClean scfg := by
  intro id d hd
  rw [hsf] at hd
  obtain ⟨i, hm⟩ := progTable_mem hd
  exact funsB_nm B hnm _ hm

/-- **T4 for `HostImpl.host`, whole-program form**: the function table is the one the program defines; every hypothesis is a
(decidable) condition on the program `B` and the start state `st` — `ProgOK B`, `FidsInOrder B`, `NoGlobalAccess B st` — or
fixes the configuration (`Agree`, the host, the table, unlimited budget). -/
theorem parse_exec_structured_hostImpl_whole {cfg : Config HostImpl.World} {scfg : SConfig HostImpl.World} {start : FnId → Nat}
    (ag : Agree cfg scfg start) (hh : cfg.host = HostImpl.host) (hmax : cfg.maxStatements = 0) (B : List SStmt)
    (hsf : scfg.sfuns = progTable B) (hB : ProgOK B) (hfid : FidsInOrder B) (base : Option String)
    (st st' : State HostImpl.World) (hs : StRel st st') (hng : NoGlobalAccess B st) :
    ∃ P, parseLines (renderB B) = .ok P ∧
      (∀ fuel, execute cfg fuel P base st ≠ .oof →
        ∃ r', ResRel (execute cfg fuel P base st) r' ∧ ∃ N, ∀ k, N ≤ k → runS scfg k B st' = r') ∧
      (∀ k, runS scfg k B st' ≠ .oof →
        ∃ r, ResRel r (runS scfg k B st') ∧ ∃ N, ∀ f, N ≤ f → execute cfg f P base st = r) :=
  parse_exec_structured_hostImpl_syntactic ag hh (tableClean_progTable hsf hng.prog) (tablesOK_progTable hsf hB) hmax B hB hfid
    base st st' hs hng

/-- the same for `HostLib.hostLib` -/
theorem parse_exec_structured_hostLib_whole {cfg : Config HostLib.LWorld} {scfg : SConfig HostLib.LWorld} {start : FnId → Nat}
    (ag : Agree cfg scfg start) (hh : cfg.host = HostLib.hostLib) (hmax : cfg.maxStatements = 0) (B : List SStmt)
    (hsf : scfg.sfuns = progTable B) (hB : ProgOK B) (hfid : FidsInOrder B) (base : Option String)
    (st st' : State HostLib.LWorld) (hs : StRel st st') (hng : NoGlobalAccessL B st) :
    ∃ P, parseLines (renderB B) = .ok P ∧
      (∀ fuel, execute cfg fuel P base st ≠ .oof →
        ∃ r', ResRel (execute cfg fuel P base st) r' ∧ ∃ N, ∀ k, N ≤ k → runS scfg k B st' = r') ∧
      (∀ k, runS scfg k B st' ≠ .oof →
        ∃ r, ResRel r (runS scfg k B st') ∧ ∃ N, ∀ f, N ≤ f → execute cfg f P base st = r) :=
  parse_exec_structured_hostLib_syntactic ag hh (tableClean_progTable hsf hng.prog) (tablesOK_progTable hsf hB) hmax B hB hfid
    base st st' hs hng

/-! ## examples: the hypotheses are inhabited, and the predicate is not trivially true -/

namespace Demo
open C01.Demo

def u (s : String) : Name := .user s
def var (s : String) : Expr := .variable (u s)
def call (f : String) (args : List Expr) : Expr := .function (u f) args

/-- The program
```
function f(n):
    acc = 0
    for x in arrayNew(1, 2, 3):
        acc = acc + x
    endfor
    return acc + n
endfunction
for y, i in arrayNew(10, 20):
    systemLog(y + f(i))
endfor
p = systemPartial(f, 100)
box = arrayNew(p, systemLog)
if arrayLength(box) > 1:
    g = arrayGet(box, 0)
    systemLog(g())
endif
```
a function (with a `for` of its own), a `for` with an index variable at global scope (its hidden `__bareScriptValues0 / Length0`
are globals), library calls, a partial application, *function values stored in a container* and fetched back — the situations
the value-flow invariant has to cover.  On the real implementation it logs `16 27 106`, as `impl_pure_run` below. -/
def prog : List SStmt := [
  .func 0 (u "f") [u "n"] false false fBody,
  .for (u "y") (some (u "i")) (call "arrayNew" [.number 10, .number 20]) [
    .expr none (call "systemLog" [.binary .add (var "y") (call "f" [var "i"])]) ],
  .expr (some (u "p")) (call "systemPartial" [var "f", .number 100]),
  .expr (some (u "box")) (call "arrayNew" [var "p", var "systemLog"]),
  .ite (.binary .gt (call "arrayLength" [var "box"]) (.number 1)) [
    .expr (some (u "g")) (call "arrayGet" [var "box", .number 0]),
    .expr none (call "systemLog" [call "g" []]) ] .none ]

theorem progOK : ProgOK prog :=
  ⟨by simp [prog, fBody, NoRawB, NoRawS, NoRawE], by decide, by decide, by decide, by decide⟩

theorem tableClean_impl : TableClean implSCfg :=
  tableClean_of_list implSCfg [(0, fDef)] (fun id => by
    show sfuns id = _
    unfold sfuns
    by_cases h : id = 0
    · subst h; rfl
    · have : ((0 : Nat) == id) = false := by rw [beq_eq_false_iff_ne]; exact fun e => h e.symm
      simp [h, this]) (by decide)

theorem tableClean_lib : TableClean libSCfg :=
  tableClean_of_list libSCfg [(0, fDef)] (fun id => by
    show sfuns id = _
    unfold sfuns
    by_cases h : id = 0
    · subst h; rfl
    · have : ((0 : Nat) == id) = false := by rw [beq_eq_false_iff_ne]; exact fun e => h e.symm
      simp [h, this]) (by decide)

/-- **non-vacuity**: the program and the usual start state (all 18 library functions bound under their names —
`systemGlobalGet` and `systemGlobalSet` included — empty heap) satisfy the predicate -/
theorem nga_prog : NoGlobalAccess prog implSt0 := by decide

/-- … also from a start state with a non-empty heap and partial table holding (clean) function values -/
example : NoGlobalAccess prog
    { implSt0 with world := { heap := [.arr [.fn (.lib "systemLog"), .num 1], .obj [("k", .fn (.other 0))]],
                              partials := [(.fn (.lib "arrayPush"), [.arr 0])] } } := by decide

/-- **the predicate is not trivially true** — a program that mentions `systemGlobalSet` fails it (`C01.Demo.prog` calls
`systemGlobalSet('g', 5)` and `systemGlobalGet('g')`) … -/
example : ¬ NoGlobalAccess C01.Demo.prog implSt0 := by decide

/-- … so does the program of `C01.Demo.touching_program_differs` (which really runs differently on the machine and in the
source-level reading) … -/
example : ¬ NoGlobalAccess peekProg implSt0 := by decide

/-- … a program that only *reads* the identifier as a variable (to pass the function on) … -/
example : ¬ NoGlobalAccess [.expr (some (u "h")) (var "systemGlobalGet")] implSt0 := by decide

/-- … a start state that binds one of the two functions under another name … -/
example : ¬ NoGlobalAccess prog { implSt0 with globals := (u "peek", .fn (.lib "systemGlobalGet")) :: implSt0.globals } := by
  decide

/-- … keeps it in a heap cell … -/
example : ¬ NoGlobalAccess prog { implSt0 with world := { heap := [.arr [.fn (.lib "systemGlobalSet")]] } } := by decide

/-- … or inside a partial application. -/
example : ¬ NoGlobalAccess prog
    { implSt0 with world := { partials := [(.fn (.lib "systemGlobalGet"), [.str "__bareScriptIndex0"])] } } := by decide

/-! the state part of the predicate is needed: programs that never mention the two identifiers, run from start states that
fail `EnvOK` / `WorldOK`, do touch a reserved global -/

/-- `for x in arrayNew(7, 8): systemLog(peek('__bareScriptIndex0')) endfor` -/
def aliasProg : List SStmt := [
  .for (u "x") none (call "arrayNew" [.number 7, .number 8]) [
    .expr none (call "systemLog" [call "peek" [.string "__bareScriptIndex0"]]) ] ]

/-- `for x in arrayNew(7, 8): g = arrayGet(box, 0); systemLog(g('__bareScriptIndex0')) endfor` -/
def boxProg : List SStmt := [
  .for (u "x") none (call "arrayNew" [.number 7, .number 8]) [
    .expr (some (u "g")) (call "arrayGet" [var "box", .number 0]),
    .expr none (call "systemLog" [call "g" [.string "__bareScriptIndex0"]]) ] ]

/-- the function under another name -/
def aliasSt : State HostImpl.World :=
  { implSt0 with globals := (u "peek", .fn (.lib "systemGlobalGet")) :: implSt0.globals }

/-- the function in a heap cell -/
def boxSt : State HostImpl.World :=
  { implSt0 with globals := (u "box", .arr 0) :: implSt0.globals, world := { heap := [.arr [.fn (.lib "systemGlobalGet")]] } }

set_option maxRecDepth 100000 in
/-- both programs satisfy the program part (`nmB`) and `ProgOK`; the start states fail the state part; and the guarded runs
report a reserved global: the machine logs the hidden loop index `0 1` -/
theorem state_condition_needed :
    nmB globalFns false aliasProg = true ∧ nmB globalFns false boxProg = true ∧
    ¬ EnvOK globalFns aliasSt.globals ∧ ¬ WorldOK globalFns boxSt.world ∧
    touchesReserved (execute (guardCfg (peekCfg HostImpl.host)) 300 (lowerProgram aliasProg) none aliasSt) = true ∧
    touchesReserved (execute (guardCfg (peekCfg HostImpl.host)) 300 (lowerProgram boxProg) none boxSt) = true ∧
    logI (execute (peekCfg HostImpl.host) 300 (lowerProgram aliasProg) none aliasSt) = some ["0", "1"] ∧
    logI (execute (peekCfg HostImpl.host) 300 (lowerProgram boxProg) none boxSt) = some ["0", "1"] := by
  rw [host_eq2]
  decide +kernel

/-- the hypotheses of the HostImpl theorems are inhabited -/
example (fuel : Nat) (base : Option String) :
    touchesReserved (execute (guardCfg implCfg) fuel (lowerProgram prog) base implSt0) = false :=
  noGlobalAccess_touchesReserved impl_agree rfl tableClean_impl nga_prog fuel base

example (base : Option String) (st' : State HostImpl.World) (hs : StRel implSt0 st') :=
  parse_exec_structured_hostImpl_syntactic impl_agree rfl tableClean_impl funcOK rfl prog progOK (by decide) base implSt0 st'
    hs nga_prog

example (base : Option String) (st' : State HostImpl.World) (hs : StRel implSt0 st') :=
  ticked_erasure_hostImpl_syntactic impl_agree rfl tableClean_impl funcOK rfl prog progOK base implSt0 st' hs nga_prog

example (max fuel : Nat) (base : Option String) (st' : State HostImpl.World) (hs : StRel implSt0 st') :=
  parse_exec_structured_budget_hostImpl_syntactic (cfg := implCfgB max) (scfg := implSCfg) (start := fun _ => 0)
    ⟨rfl, rfl, rfl, fun _ => rfl⟩ rfl tableClean_impl funcOK prog progOK (by decide) fuel base implSt0 st' hs nga_prog

/-- the pure configuration over the kernel-evaluable copy of the host (`C01.HostK`, proved equal) -/
def implSCfgK : SConfig HostImpl.World := { host := HostK.hostK, sfuns := sfuns }
theorem implSCfg_K : implSCfg = implSCfgK :=
  congrArg (fun h => ({ host := h, sfuns := sfuns } : SConfig HostImpl.World)) HostK.host_eq

set_option maxRecDepth 100000 in
/-- the pure source-level reading **with the real host** (no guard) logs `16 27 106` (evaluated by the kernel) … -/
theorem impl_pure_run : logI (runS implSCfg 100 prog implSt0) = some ["16", "27", "106"] := by
  rw [implSCfg_K]; decide +kernel

/-- … **hence so does `execute_script` on the parsed text with the real `HostImpl.host`**, for every sufficiently large fuel —
by `parse_exec_structured_hostImpl_syntactic`: no run of a guarded host is evaluated, the side condition is the decidable
`NoGlobalAccess prog implSt0` -/
example : ∃ P, parseLines (renderB prog) = .ok P ∧
    ∃ N, ∀ f, N ≤ f → logI (execute implCfg f P none implSt0) = some ["16", "27", "106"] := by
  obtain ⟨P, hP, _, hconv⟩ := parse_exec_structured_hostImpl_syntactic impl_agree rfl tableClean_impl funcOK rfl prog progOK
    (by decide) none implSt0 implSt0 (StRel.refl _) nga_prog
  have hne : runS implSCfg 100 prog implSt0 ≠ .oof := by
    intro h; have := impl_pure_run; rw [h] at this; cases this
  obtain ⟨r, hr, N, hN⟩ := hconv 100 hne
  refine ⟨P, hP, N, fun f hf => ?_⟩
  rw [hN f hf, logI, world?_of_resRel hr]
  exact impl_pure_run

/-- the pure side on its own -/
example (k : Nat) : runS implSCfg k prog implSt0 = runS (guardS implSCfg) k prog implSt0 :=
  (noGlobalAccess_runS rfl tableClean_impl nga_prog k).2

/-- the whole-program form: configurations whose table is the one `prog` defines -/
def wholeSCfg : SConfig HostImpl.World := { host := HostImpl.host, sfuns := progTable prog }
def wholeCfg : Config HostImpl.World :=
  { host := HostImpl.host, funs := fun id => (progTable prog id).map (lowerDef 0), maxStatements := 0 }

example (base : Option String) (st' : State HostImpl.World) (hs : StRel implSt0 st') :=
  parse_exec_structured_hostImpl_whole (cfg := wholeCfg) (scfg := wholeSCfg) (start := fun _ => 0) ⟨rfl, rfl, rfl, fun _ => rfl⟩
    rfl rfl prog rfl progOK (by decide) base implSt0 st' hs nga_prog

/-! ### HostLib -/

theorem ngaL_prog : NoGlobalAccessL prog libSt0 := by decide

example : ¬ NoGlobalAccessL C01.Demo.prog libSt0 := by decide

example (fuel : Nat) (base : Option String) :
    touchesReserved (execute (guardCfg libCfg) fuel (lowerProgram prog) base libSt0) = false :=
  noGlobalAccessL_touchesReserved lib_agree rfl tableClean_lib ngaL_prog fuel base

example (base : Option String) (st' : State HostLib.LWorld) (hs : StRel libSt0 st') :=
  parse_exec_structured_hostLib_syntactic lib_agree rfl tableClean_lib funcOK rfl prog progOK (by decide) base libSt0 st' hs
    ngaL_prog

example (base : Option String) (st' : State HostLib.LWorld) (hs : StRel libSt0 st') :=
  ticked_erasure_hostLib_syntactic lib_agree rfl tableClean_lib funcOK rfl prog progOK base libSt0 st' hs ngaL_prog

end Demo

end C01Syn
