import BareProofs.C06RegexLemmas

/-!
# C06Regex2Lemmas — further engine lemmas: `re.search`, back-off with a unique / first acceptable position,
`.+` in front of `\s*:\s*$` (the LAST colon followed by blanks only), `\s+` giving a blank back
-/

namespace C06Regex
open Rx Text Scan RxPatterns

/-! ## back-off: more closed forms -/

theorem backoff_none (k : K) (st : St) : ∀ n, (∀ j, j ≤ n → k (adv st j) = none) → backoff k st n = none
  | 0, h => by simpa [backoff] using h 0 (Nat.le_refl _)
  | n + 1, h => by
    rw [backoff, h (n + 1) (Nat.le_refl _), backoff_none k st n (fun j hj => h j (by omega))]; rfl

/-- the first acceptable position from the top: everything above `m` is refused, `m` is accepted -/
theorem backoff_first (k : K) (st : St) (v : St) (m : Nat) : ∀ n, m ≤ n → k (adv st m) = some v →
    (∀ j, m < j → j ≤ n → k (adv st j) = none) → backoff k st n = some v
  | 0, hm, hv, _ => by
    have : m = 0 := by omega
    subst this; simpa [backoff] using hv
  | n + 1, hm, hv, hn => by
    by_cases e : m = n + 1
    · subst e; exact backoff_some k st v _ hv
    · rw [backoff, hn (n + 1) (by omega) (Nat.le_refl _), backoff_first k st v m n (by omega) hv (fun j h1 h2 => hn j h1 (by omega))]
      rfl

/-! ## `re.search` -/

theorem searchFrom_none (r : Rx) : ∀ (l : Chars) (p : Nat),
    (∀ i, i ≤ l.length → matchFrom r (p + i) (l.drop i) = none) → searchFrom r p l = none
  | [], p, h => by simpa [searchFrom] using h 0 (Nat.le_refl _)
  | c :: t, p, h => by
    have h0 := h 0 (Nat.zero_le _)
    simp only [Nat.add_zero, List.drop_zero] at h0
    rw [searchFrom, h0]
    exact searchFrom_none r t (p + 1) (fun i hi => by
      have := h (i + 1) (by simpa using hi)
      simpa [Nat.add_assoc, Nat.add_comm 1] using this)

theorem searchFrom_first (r : Rx) (st : St) : ∀ (n : Nat) (l : Chars) (p : Nat), n ≤ l.length →
    (∀ i, i < n → matchFrom r (p + i) (l.drop i) = none) → matchFrom r (p + n) (l.drop n) = some st →
    searchFrom r p l = some (p + n, st)
  | 0, l, p, _, _, hm => by
    simp only [Nat.add_zero, List.drop_zero] at hm
    cases l with
    | nil => simp [searchFrom, hm]
    | cons c t => simp [searchFrom, hm]
  | n + 1, [], p, hl, _, _ => by simp at hl
  | n + 1, c :: t, p, hl, hn, hm => by
    have h0 := hn 0 (Nat.zero_lt_succ _)
    simp only [Nat.add_zero, List.drop_zero] at h0
    rw [searchFrom, h0]
    have := searchFrom_first r st n t (p + 1) (by simpa using hl)
      (fun i hi => by
        have := hn (i + 1) (by omega)
        simpa [Nat.add_assoc, Nat.add_comm 1] using this)
      (by simpa [Nat.add_assoc, Nat.add_comm 1] using hm)
    simpa [Nat.add_assoc, Nat.add_comm 1] using this

/-! ## the continuation backslash -/

/-- `\\\s*$` at one position -/
theorem cont_matchFrom_cons (p : Nat) (x : Char) (r : Chars) (h : '\n' ∉ x :: r) :
    matchFrom continuation p (x :: r) =
      if x = '\\' ∧ allSpace r = true then some ⟨p + (x :: r).length, [], []⟩ else none := by
  unfold matchFrom continuation elit
  rw [seq_m, one_m', step_lit]
  have hr : '\n' ∉ r := fun hm => h (List.mem_cons_of_mem _ hm)
  by_cases hx : x = '\\'
  · subst hx
    simp only [if_true, true_and]
    rw [ws_eol_seq _ _ (by exact hr)]
    by_cases ha : allSpace r = true <;> simp [ha, Nat.add_assoc, Nat.add_comm 1]
  · simp [hx]

theorem cont_matchFrom_nil (p : Nat) : matchFrom continuation p [] = none := by
  unfold matchFrom continuation elit
  rw [seq_m, one_m', step_lit]

theorem contBody?_of_decomp (b w : Chars) (hw : allSpace w = true) : contBody? (b ++ '\\' :: w) = some b := by
  unfold contBody?
  rw [show b ++ '\\' :: w = (b ++ ['\\']) ++ w from by simp, C10.rev_dropWhile_append_ws _ _ hw]
  simp [List.dropWhile, show isSpace '\\' = false from by decide]

/-! ## patterns whose leading `\s*` sits inside the first group -/

/-- `^(?P<g>\s*R)T` when `R` cannot start with a blank -/
theorem lead_cap (i : Nat) (nm : Option String) (R T : Rx) (line : Chars) (k : K)
    (hR : ∀ K' : K, RejectsHead isSpace (fun st => R.m st K')) :
    (Rx.bol ⬝ Rx.cap i nm (ws ⬝ R) ⬝ T).m ⟨0, line, []⟩ k =
      R.m ⟨(line.takeWhile isSpace).length, lstripL line, []⟩
        (fun st' => T.m ⟨st'.pos, st'.rest, (i, 0, st'.pos) :: st'.caps⟩ k) := by
  rw [seq_m, bol_m, seq_m, cap_m, seq_m]
  simp only [ws, sp, if_true]
  rw [star_atom_det _ _ _ (by simpa [space_test] using hR _)]
  simp [skip, space_test, lstripL]

theorem noNL_keyword' {w : String} {l r : Chars} (h : '\n' ∉ l) (hk : keyword? w l = some r) : '\n' ∉ r := by
  unfold keyword? at hk
  split at hk
  · cases hk; exact not_mem_drop h
  · cases hk

theorem keyword?_drop {w : String} {l r : Chars} (h : keyword? w l = some r) : r = l.drop w.length := by
  unfold keyword? at h; split at h
  · cases h; rfl
  · cases h

theorem keyword?_length {w : String} {l r : Chars} (h : keyword? w l = some r) : w.length + r.length = l.length := by
  unfold keyword? at h; split at h
  · rename_i hp
    cases h
    have := (List.isPrefixOf_iff_prefix.mp hp).length_le
    rw [String.length_toList] at this
    simp; omega
  · cases h

theorem head_lstrip_ns : ∀ {r e : Chars} {x : Char}, lstripL r = x :: e → isSpace x = false
  | [], _, _, h => by simp [lstripL] at h
  | c :: r, e, x, h => by
    by_cases hc : isSpace c = true
    · have : lstripL r = x :: e := by simpa [lstripL, List.dropWhile_cons, hc] using h
      exact head_lstrip_ns this
    · have : c = x := by
        have := h; simp only [lstripL, List.dropWhile_cons, hc] at this
        simpa using (List.cons.inj this).1
      rw [← this]; simpa using hc

theorem allSpace_of_lstrip_nil {r : Chars} (h : lstripL r = []) : allSpace r = true :=
  (dropWhile_nil_iff_all isSpace r).mp h

theorem not_allSpace_of_lstrip_cons {r e : Chars} {x : Char} (h : lstripL r = x :: e) : allSpace r = false := by
  cases ha : allSpace r with
  | false => rfl
  | true => unfold lstripL at h; rw [(dropWhile_nil_iff_all isSpace r).mpr ha] at h; cases h

/-- `(?:\s+(?P<expr>\S.*))?` then `\s*$` after the group that closes: the tail of `_R_SCRIPT_RETURN` -/
theorem return_tail (p : Nat) (r : Chars) (hr : '\n' ∉ r) :
    (Rx.opt (.ncg (ws1 ⬝ .cap 2 (some "expr") (.one .nspace ⬝ .star (.one .dot))))).m ⟨p, r, []⟩
        (fun st' => (ws ⬝ Rx.eol).m ⟨st'.pos, st'.rest, (1, 0, st'.pos) :: st'.caps⟩ some) =
      if allSpace r then some ⟨p + r.length, [], [(1, 0, p)]⟩
      else match r with
        | c :: _ =>
          if isSpace c then
            some ⟨p + r.length, [], [(1, 0, p + r.length), (2, p + (r.takeWhile isSpace).length, p + r.length)]⟩
          else none
        | [] => none := by
  rw [opt_m, ncg_m, seq_m]
  simp only [ws1, sp]
  rw [plus_atom_det]
  · cases r with
    | nil =>
      simp only []
      rw [ws_eol_seq _ _ (by simp)]
      simp [allSpace]
    | cons c r' =>
      have hr' : '\n' ∉ r' := fun hm => hr (List.mem_cons_of_mem _ hm)
      simp only [space_test]
      by_cases hc : isSpace c = true
      · simp only [hc, if_true, skip, cap_m, seq_m, one_m', step]
        cases he : List.dropWhile isSpace r' with
        | nil =>
          have ha : allSpace (c :: r') = true := by
            simp only [allSpace, List.all_cons, hc, Bool.true_and]; exact allSpace_of_lstrip_nil he
          simp only []
          rw [ws_eol _ _ (by exact hr)]
          simp [ha]
        | cons x e =>
          have hx : isSpace x = false := head_lstrip_ns he
          have hna : allSpace (c :: r') = false := by
            simp only [allSpace, List.all_cons, hc, Bool.true_and]; exact not_allSpace_of_lstrip_cons he
          have he' : '\n' ∉ e := by
            have : '\n' ∉ List.dropWhile isSpace r' := not_mem_dropWhile hr'
            rw [he] at this; exact fun hm => this (List.mem_cons_of_mem _ hm)
          have hl := lstrip_split_length r'
          simp only [lstripL, he, List.length_cons] at hl
          simp only [Atom.test, hx, Bool.not_false, if_true, hna, Bool.false_eq_true, if_false]
          rw [star_atom_backoff, takeWhile_dot_length (by exact he'), backoff_some]
          · rfl
          · simp only [adv, List.drop_length]
            rw [ws_eol _ _ (by simp)]
            simp only [allSpace, List.all_nil, if_true, List.length_nil, Nat.add_zero, List.takeWhile_cons, hc, List.length_cons,
              Option.some.injEq, St.mk.injEq, true_and, List.cons.injEq, Prod.mk.injEq, and_true]
            omega
      · have hna : allSpace (c :: r') = false := by simp [allSpace, hc]
        simp only [hc, Bool.false_eq_true, if_false]
        rw [ws_eol_seq _ _ (by exact hr)]
        simp [hna]
  · intro st ⟨c, r1, h1, h2⟩
    rw [space_test] at h2
    simp [cap_m, seq_m, one_m', step, h1, Atom.test, h2]

/-! ## `.+\s*:\s*$` — the LAST colon that is followed by blanks only -/

theorem rev_dropWhile_of_decomp (a t : Chars) (ht : allSpace t = true) :
    (a ++ ':' :: t).reverse.dropWhile isSpace = ':' :: a.reverse := by
  rw [show a ++ ':' :: t = (a ++ [':']) ++ t from by simp, C10.rev_dropWhile_append_ws _ _ ht]
  simp [List.dropWhile, show isSpace ':' = false from by decide]

theorem all_takeWhile (p : Char → Bool) : ∀ l : List Char, (l.takeWhile p).all p = true
  | [] => rfl
  | c :: l => by
    by_cases hc : p c = true
    · simp [List.takeWhile_cons, hc, all_takeWhile p l]
    · simp [List.takeWhile_cons, hc]

theorem colon_decomp_of_rev {r rb : Chars} (h : r.reverse.dropWhile isSpace = ':' :: rb) :
    ∃ t, allSpace t = true ∧ r = rb.reverse ++ ':' :: t := by
  refine ⟨(r.reverse.takeWhile isSpace).reverse, ?_, ?_⟩
  · simp only [allSpace, List.all_reverse]; exact all_takeWhile _ _
  · have h1 := List.takeWhile_append_dropWhile (p := isSpace) (l := r.reverse)
    rw [h] at h1
    have h2 := congrArg List.reverse h1
    simp only [List.reverse_append, List.reverse_cons, List.reverse_reverse, List.append_assoc, List.singleton_append] at h2
    exact h2.symm

/-- no suffix of `r` is `\s*:\s*` when the last non-blank of `r` is not a colon -/
theorem no_colon_suffix {r : Chars} (h : ∀ rb, r.reverse.dropWhile isSpace ≠ ':' :: rb) (m : Nat) (r2 : Chars)
    (h1 : lstripL (r.drop m) = ':' :: r2) : allSpace r2 = false := by
  cases ha : allSpace r2 with
  | false => rfl
  | true =>
    exfalso
    have e1 := List.takeWhile_append_dropWhile (p := isSpace) (l := r.drop m)
    rw [show (r.drop m).dropWhile isSpace = ':' :: r2 from h1] at e1
    have e2 : r = (r.take m ++ (r.drop m).takeWhile isSpace) ++ ':' :: r2 := by
      rw [List.append_assoc, e1, List.take_append_drop]
    exact h _ (by rw [e2]; exact rev_dropWhile_of_decomp _ _ ha)

theorem lstrip_of_allSpace {x : Chars} (h : allSpace x = true) : lstripL x = [] :=
  (dropWhile_nil_iff_all isSpace x).mpr h

theorem allSpace_drop {t : Chars} (h : allSpace t = true) (j : Nat) : allSpace (t.drop j) = true := by
  simp only [allSpace, List.all_eq_true] at h ⊢
  intro x hx; exact h x ((List.drop_sublist j t).subset hx)

/-- the continuation of `(?P<g>.+)` in these patterns: close the group, then `\s*:\s*$` -/
def colonK (i q : Nat) : K := fun st' => (ws ⬝ lit ':' ⬝ ws ⬝ Rx.eol).m ⟨st'.pos, st'.rest, (i, q, st'.pos) :: st'.caps⟩ some

theorem dotplus_colon_unfold (i : Nat) (nm : Option String) (st : St) (h : '\n' ∉ st.rest) :
    (Rx.cap i nm dotPlus ⬝ ws ⬝ lit ':' ⬝ ws ⬝ Rx.eol).m st some = match st.rest with
      | [] => none
      | _ :: rest' => backoff (colonK i st.pos) ⟨st.pos + 1, rest', st.caps⟩ rest'.length := by
  unfold dotPlus
  rw [seq_m, cap_m, plus_m, one_m']
  cases hr : st.rest with
  | nil => simp [step, hr]
  | cons x rest' =>
    have hx : Atom.dot.test x = true := dot_test_of_noNL h x (by simp [hr])
    have hr' : '\n' ∉ rest' := fun hm => h (by rw [hr]; exact List.mem_cons_of_mem _ hm)
    simp only [step, hr, hx, if_true]
    rw [star_atom_backoff, takeWhile_dot_length (by exact hr')]
    rfl

/-- `(?P<g>.+)\s*:\s*$` when no suffix has the form `\s*:\s*` -/
theorem dotplus_colon_none (i : Nat) (nm : Option String) (st : St) (h : '\n' ∉ st.rest)
    (hno : ∀ m r2, lstripL (st.rest.drop m) = ':' :: r2 → allSpace r2 = false) :
    (Rx.cap i nm dotPlus ⬝ ws ⬝ lit ':' ⬝ ws ⬝ Rx.eol).m st some = none := by
  rw [dotplus_colon_unfold _ _ _ h]
  cases hr : st.rest with
  | nil => rfl
  | cons x rest' =>
    simp only []
    apply backoff_none
    intro j _
    have hn : '\n' ∉ rest'.drop j := not_mem_drop (fun hm => h (by rw [hr]; exact List.mem_cons_of_mem _ hm))
    simp only [colonK, adv]
    rw [colon_tail _ _ (by exact hn)]
    simp only []
    split
    · rename_i r2 heq
      have := hno (j + 1) r2 (by rw [hr]; simpa using heq)
      simp [this]
    · rfl

/-- `(?P<g>.+)\s*:\s*$` on `b : t` with `t` blank: the group is `b` (non-empty) -/
theorem dotplus_colon (i : Nat) (nm : Option String) (q : Nat) (b t : Chars) (caps : List (Nat × Nat × Nat))
    (h : '\n' ∉ b ++ ':' :: t) (ht : allSpace t = true) :
    (Rx.cap i nm dotPlus ⬝ ws ⬝ lit ':' ⬝ ws ⬝ Rx.eol).m ⟨q, b ++ ':' :: t, caps⟩ some =
      if b = [] then none else some ⟨q + (b ++ ':' :: t).length, [], (i, q, q + b.length) :: caps⟩ := by
  rw [dotplus_colon_unfold _ _ _ h]
  have hnt : '\n' ∉ t := fun hm => h (by simp [hm])
  cases b with
  | nil =>
    simp only [List.nil_append, if_true]
    apply backoff_none
    intro j _
    simp only [colonK, adv]
    rw [colon_tail _ _ (by exact not_mem_drop hnt)]
    simp only [lstrip_of_allSpace (allSpace_drop ht j)]
  | cons y b' =>
    simp only [List.cons_append, reduceCtorEq, if_false]
    have hn' : '\n' ∉ b' ++ ':' :: t := fun hm => h (by rw [List.cons_append]; exact List.mem_cons_of_mem _ hm)
    apply backoff_first _ _ _ b'.length
    · simp
    · simp only [colonK, adv, List.drop_left']
      rw [colon_tail _ _ (by simpa using hnt)]
      simp only [lstripL, List.dropWhile_cons, show isSpace ':' = false from by decide, Bool.false_eq_true, if_false, ht, if_true,
        List.length_cons, List.length_append, Option.some.injEq, St.mk.injEq, true_and, List.cons.injEq, Prod.mk.injEq, and_true]
      omega
    · intro j h1 h2
      obtain ⟨k, rfl⟩ : ∃ k, j = b'.length + (k + 1) := ⟨j - b'.length - 1, by omega⟩
      simp only [colonK, adv]
      have hd : (b' ++ ':' :: t).drop (b'.length + (k + 1)) = t.drop k := by
        rw [← List.drop_drop]; simp
      rw [colon_tail _ _ (by exact not_mem_drop hn')]
      simp only [hd, lstrip_of_allSpace (allSpace_drop ht _)]

theorem exprColon?_decomp (a t : Chars) (ht : allSpace t = true) :
    exprColon? (a ++ ':' :: t) =
      match a.dropWhile isSpace, (a.takeWhile isSpace).getLast? with
      | _, none => none
      | [], some c => if (a.takeWhile isSpace).length ≥ 2 then some ((a.takeWhile isSpace).length - 1, [c]) else none
      | e, some _ => some ((a.takeWhile isSpace).length, e) := by
  unfold exprColon?
  rw [rev_dropWhile_of_decomp _ _ ht]
  simp only [List.reverse_reverse]
  rfl

theorem exprColon?_none {r : Chars} (h : ∀ rb, r.reverse.dropWhile isSpace ≠ ':' :: rb) : exprColon? r = none := by
  unfold exprColon?
  split
  · rename_i rb heq; exact absurd heq (h rb)
  · rfl

theorem takeWhile_append_colon : ∀ (a t : Chars), (a ++ ':' :: t).takeWhile isSpace = a.takeWhile isSpace
  | [], t => by simp [List.takeWhile_cons, show isSpace ':' = false from by decide]
  | c :: a, t => by
    by_cases hc : isSpace c = true
    · simp [List.takeWhile_cons, hc, takeWhile_append_colon a t]
    · simp [List.takeWhile_cons, hc]

theorem takeWhile_eq_self {a : Chars} (h : a.dropWhile isSpace = []) : a.takeWhile isSpace = a := by
  have := List.takeWhile_append_dropWhile (p := isSpace) (l := a)
  rw [h, List.append_nil] at this; exact this

/-- **`\s+(?P<g>.+)\s*:\s*$`** on the rest of a line = `Scan.exprColon?`: the group ends before the LAST colon that is followed
by blanks only; `\s+` takes all blanks, but gives its last one to the group when nothing else stands before that colon. -/
theorem exprColon_rx (i : Nat) (nm : Option String) (p : Nat) (rest : Chars) (caps : List (Nat × Nat × Nat)) (h : '\n' ∉ rest) :
    (ws1 ⬝ Rx.cap i nm dotPlus ⬝ ws ⬝ lit ':' ⬝ ws ⬝ Rx.eol).m ⟨p, rest, caps⟩ some =
      match exprColon? rest with
      | some (n, e) => some ⟨p + rest.length, [], (i, p + n, p + n + e.length) :: caps⟩
      | none => none := by
  rw [seq_m]; simp only [ws1, sp]
  rw [plus_m, one_m']
  by_cases hyes : ∃ rb, rest.reverse.dropWhile isSpace = ':' :: rb
  · obtain ⟨rb, hrb⟩ := hyes
    obtain ⟨t, ht, e⟩ := colon_decomp_of_rev hrb
    generalize rb.reverse = a at e
    subst e
    rw [exprColon?_decomp _ _ ht]
    cases a with
    | nil => simp [step, Atom.test, show isSpace ':' = false from by decide]
    | cons c0 a' =>
      by_cases hc : isSpace c0 = true
      · have hn' : '\n' ∉ a' ++ ':' :: t := fun hm => h (by rw [List.cons_append]; exact List.mem_cons_of_mem _ hm)
        simp only [step, List.cons_append, Atom.test, hc, if_true, List.takeWhile_cons, List.dropWhile_cons]
        rw [star_atom_backoff, space_test, takeWhile_append_colon]
        have hle : (a'.takeWhile isSpace).length ≤ a'.length := (List.takeWhile_sublist _).length_le
        have hK : ∀ j, j ≤ a'.length →
            (Rx.cap i nm dotPlus ⬝ ws ⬝ lit ':' ⬝ ws ⬝ Rx.eol).m (adv ⟨p + 1, a' ++ ':' :: t, caps⟩ j) some =
              if a'.drop j = [] then none
              else some ⟨p + 1 + j + (a'.drop j ++ ':' :: t).length, [], (i, p + 1 + j, p + 1 + j + (a'.drop j).length) :: caps⟩ := by
          intro j hj
          simp only [adv, List.drop_append_of_le_length hj]
          exact dotplus_colon i nm _ _ t caps (by
            have := not_mem_drop (n := j) hn'
            rwa [List.drop_append_of_le_length hj] at this) ht
        cases he : a'.dropWhile isSpace with
        | cons x e' =>
          have hd := drop_length_takeWhile isSpace a'
          rw [he] at hd
          have hl := lstrip_split_length a'
          simp only [lstripL, he, List.length_cons] at hl
          have := hK _ hle
          rw [hd] at this
          simp only [reduceCtorEq, if_false] at this
          rw [backoff_some _ _ _ _ this]
          simp only [List.getLast?_cons_cons, List.length_cons, List.length_append]
          cases hg : (c0 :: a'.takeWhile isSpace).getLast? with
          | none => simp at hg
          | some c =>
            simp only [Option.some.injEq, St.mk.injEq, true_and, List.cons.injEq, Prod.mk.injEq, and_true, List.length_cons]
            omega
        | nil =>
          have htw := takeWhile_eq_self he
          rw [htw]
          cases ha : a' with
          | nil =>
            subst ha
            have := hK 0 (Nat.le_refl _)
            simp only [adv_zero, List.drop_zero, if_true] at this
            have this' : (Rx.cap i nm dotPlus ⬝ ws ⬝ lit ':' ⬝ ws ⬝ Rx.eol).m ⟨p + 1, ':' :: t, caps⟩ some = none := by
              simpa using this
            simp [backoff, this']
          | cons y a'' =>
            rw [← ha]
            have hlen : a'.length = a''.length + 1 := by rw [ha]; rfl
            obtain ⟨c, hc'⟩ : ∃ c, a'.getLast? = some c := by
              cases hgl : a'.getLast? with
              | none => rw [ha] at hgl; simp at hgl
              | some c => exact ⟨c, rfl⟩
            have hdl := drop_last a' c hc'
            have h1 := hK (a''.length + 1) (by omega)
            rw [show a'.drop (a''.length + 1) = [] from List.drop_eq_nil_of_le (by omega)] at h1
            simp only [if_true] at h1
            have h2 := hK a''.length (by omega)
            rw [show a''.length = a'.length - 1 from by omega, hdl] at h2
            simp only [reduceCtorEq, if_false] at h2
            rw [show a'.length - 1 = a''.length from by omega] at h2
            rw [hlen, backoff, h1, backoff_some _ _ _ _ h2]
            have hgl2 : (c0 :: a').getLast? = some c := by rw [ha] at hc' ⊢; simpa [List.getLast?_cons_cons] using hc'
            simp only [hgl2, List.length_cons, List.length_append, List.length_nil, hlen]
            rw [if_pos (by omega)]
            simp
            omega
      · simp [step, Atom.test, hc, List.takeWhile_cons]
  · have hno : ∀ rb, rest.reverse.dropWhile isSpace ≠ ':' :: rb := fun rb hrb => hyes ⟨rb, hrb⟩
    rw [exprColon?_none hno]
    cases rest with
    | nil => rfl
    | cons c r' =>
      by_cases hc : isSpace c = true
      · simp only [step, Atom.test, hc, if_true]
        rw [star_atom_backoff]
        apply backoff_none
        intro j _
        apply dotplus_colon_none
        · exact not_mem_drop (fun hm => h (List.mem_cons_of_mem _ hm))
        · intro m r2 h1
          exact no_colon_suffix hno (j + m + 1) r2 (by simpa [adv, List.drop_drop, Nat.add_comm, Nat.add_left_comm] using h1)
      · simp [step, Atom.test, hc]

/-- the expression found by `exprColon?` stands at its offset -/
theorem exprColon?_drop {r e : Chars} {n : Nat} (h : exprColon? r = some (n, e)) : ∃ tl, r.drop n = e ++ tl := by
  by_cases hyes : ∃ rb, r.reverse.dropWhile isSpace = ':' :: rb
  · obtain ⟨rb, hrb⟩ := hyes
    obtain ⟨t, ht, e1⟩ := colon_decomp_of_rev hrb
    generalize rb.reverse = a at e1
    subst e1
    rw [exprColon?_decomp _ _ ht] at h
    have hle : (a.takeWhile isSpace).length ≤ a.length := (List.takeWhile_sublist _).length_le
    split at h
    · cases h
    · rename_i c hd hg
      split at h
      · cases h
        have htw := takeWhile_eq_self hd
        rw [htw] at hg ⊢
        refine ⟨':' :: t, ?_⟩
        rw [List.drop_append_of_le_length (by omega), drop_last a c hg]
      · cases h
    · cases h
      refine ⟨':' :: t, ?_⟩
      rw [List.drop_append_of_le_length hle, drop_length_takeWhile]
  · rw [exprColon?_none (fun rb hrb => hyes ⟨rb, hrb⟩)] at h; cases h

/-! ## `for`: the pieces -/

theorem rejects_cap_ident' (p : Char → Bool) (hp : ∀ x, p x = true → isIdStart x = false) (i : Nat) (nm : Option String)
    (k : K) : RejectsHead p (fun st => (Rx.cap i nm ident).m st k) := by
  intro st ⟨c, r, hr, hc⟩
  simp only [seq_m, cap_m, ident, one_m', step, hr, idStart_test, hp c hc]
  simp

/-- `\s+` in front of something that cannot start with a blank = `Scan.ws1?` -/
theorem ws1_det (R : Rx) (st : St) (k : K) (hR : RejectsHead isSpace (fun st => R.m st k)) :
    (ws1 ⬝ R).m st k = match st.rest with
      | c :: r' => if isSpace c then R.m ⟨st.pos + 1 + (r'.takeWhile isSpace).length, lstripL r', st.caps⟩ k else none
      | [] => none := by
  rw [seq_m]; simp only [ws1, sp]
  rw [plus_atom_det _ _ _ (by simpa [space_test] using hR)]
  cases st.rest with
  | nil => rfl
  | cons c r' => simp [space_test, skip, lstripL]

/-- `\s+in\s+(?P<values>.+)\s*:\s*$` -/
theorem for_tail (p : Nat) (rest : Chars) (caps : List (Nat × Nat × Nat)) (h : '\n' ∉ rest) :
    (ws1 ⬝ kw "in".toList ⬝ ws1 ⬝ Rx.cap 3 (some "values") dotPlus ⬝ ws ⬝ lit ':' ⬝ ws ⬝ Rx.eol).m ⟨p, rest, caps⟩ some =
      match ws1? rest with
      | some r =>
        match keyword? "in" r with
        | some r' =>
          match exprColon? r' with
          | some (n, e) =>
            some ⟨p + rest.length, [], (3, p + rest.length - r'.length + n, p + rest.length - r'.length + n + e.length) :: caps⟩
          | none => none
        | none => none
      | none => none := by
  rw [ws1_det _ _ _ (rejects_kw isSpace "in" 'i' ['n'] rfl (by decide) _ _)]
  cases rest with
  | nil => rfl
  | cons c r0 =>
    have h0 : '\n' ∉ r0 := fun hm => h (List.mem_cons_of_mem _ hm)
    by_cases hc : isSpace c = true
    · simp only [hc, if_true, ws1?]
      rw [seq_m, kw_match "in" 'i' ['n'] rfl]
      cases hk : keyword? "in" (lstripL r0) with
      | none => rfl
      | some r' =>
        have hr' : '\n' ∉ r' := noNL_keyword' (not_mem_dropWhile h0) hk
        have hl := keyword?_length hk
        have hl2 := lstrip_split_length r0
        simp only []
        rw [exprColon_rx _ _ _ _ _ hr']
        cases exprColon? r' with
        | none => rfl
        | some ne =>
          obtain ⟨n, e⟩ := ne
          simp only [List.length_cons, Option.some.injEq, St.mk.injEq, true_and, List.cons.injEq, Prod.mk.injEq, and_true]
          omega
    · simp [hc, ws1?]

/-- the optional index group `(?:\s*,\s*(?P<index>[A-Za-z_]\w*))?` in front of a continuation that cannot start with a word
character and (at this state) not behind a comma either -/
theorem for_index (st : St) (K' : K) (hw : RejectsHead isWord K')
    (hcomma : ∀ r1, lstripL st.rest = ',' :: r1 → K' st = none) :
    (Rx.opt (.ncg (ws ⬝ lit ',' ⬝ ws ⬝ .cap 2 (some "index") ident))).m st K' =
      match lstripL st.rest with
      | x :: r1 =>
        if x = ',' then
          match ident? (lstripL r1) with
          | some (ix, r2) =>
            K' ⟨st.pos + (st.rest.takeWhile isSpace).length + 1 + (r1.takeWhile isSpace).length + ix.length, r2,
              (2, st.pos + (st.rest.takeWhile isSpace).length + 1 + (r1.takeWhile isSpace).length,
                st.pos + (st.rest.takeWhile isSpace).length + 1 + (r1.takeWhile isSpace).length + ix.length) :: st.caps⟩
          | none => none
        else K' st
      | [] => K' st := by
  rw [opt_m, ncg_m]
  unfold lit
  rw [ws_lit_det false ',' (by decide)]
  cases hl : lstripL st.rest with
  | nil => simp
  | cons x r1 =>
    by_cases hx : x = ','
    · subst hx
      simp only [if_true]
      rw [hcomma r1 hl, seq_m]
      simp only [ws, sp]
      rw [star_atom_det _ _ _ (by simpa [space_test] using rejects_cap_ident' isSpace (fun x => space_not_idStart) 2 _ K')]
      rw [cap_ident_det _ _ _ _ hw]
      simp only [skip, space_test, lstripL]
      cases ident? (List.dropWhile isSpace r1) with
      | none => rfl
      | some p => simp
    · simp [hx]

theorem ws1?_suffix {rest r : Chars} (h : ws1? rest = some r) : ∃ pre, rest = pre ++ r := by
  cases rest with
  | nil => simp [ws1?] at h
  | cons c r0 =>
    by_cases hc : isSpace c = true
    · simp only [ws1?, hc, if_true, Option.some.injEq] at h
      refine ⟨c :: r0.takeWhile isSpace, ?_⟩
      rw [← h, List.cons_append]; simp [lstripL]
    · simp [ws1?, hc] at h

theorem keyword?_suffix {w : String} {l r : Chars} (h : keyword? w l = some r) : ∃ pre, l = pre ++ r :=
  ⟨l.take w.length, by rw [keyword?_drop h]; exact (List.take_append_drop _ _).symm⟩

theorem drop_of_suffix {rest pre r : Chars} (h : rest = pre ++ r) : rest.drop (rest.length - r.length) = r := by
  subst h; simp

end C06Regex
