import BareProofs.C09TermLemmas
import BareProofs.HostLibBridge
import BareModel.HostImpl
import BareModel.HostLib

/-!
# C09Term, hosts file — `HostWF` for the two concrete hosts, on the part of the state space where it is true

`HostImpl.host` / `HostLib.hostLib` are **not** well-founded on all states (`C09.Counter` in `C09Term.lean`: the
partial application `systemPartial(arrayIndexOf, a)` stored in `a` makes `arrayIndexOf(a, p)` call itself back for
ever).  The only call-backs of the two hosts are the match-function form of `arrayIndexOf` and partial applications, and
a call-back cycle needs both.  `hostImplWF m` / `hostLibWF m` establish `HostWF` for the two maximal ways of excluding
that, each as a value-level invariant (`vok m`) that every host operation preserves:

* `m = true`:  no value is the function `systemPartial` or a partial application;
* `m = false`: no value is the function `arrayIndexOf`; partial applications are allowed, but every `other j` that occurs
  anywhere refers to an existing table entry (`j < partials.length` — no dangling or forward reference, so a partial's
  target is an earlier partial or a library/script function: rank `k + 2` for entry `k`).

For `HostLib` the library is `Lib.lib`; `LibParam.lib_q` proves once and for all that it never fabricates a function
value: every value it returns or stores satisfies any predicate that holds of its arguments, of the heap and of all
non-function values.
-/

open Machine
namespace C09

namespace LibParam
open Lib

variable (Q : Lib.Value → Prop)

def lcellVals : Lib.Cell → List Lib.Value
  | .arr xs => xs
  | .obj kvs => kvs.map (·.2)

def AllQ (xs : List Lib.Value) : Prop := ∀ x ∈ xs, Q x
def KvQ (kvs : List (String × Lib.Value)) : Prop := ∀ kv ∈ kvs, Q kv.2
def CellQ : Lib.Cell → Prop
  | .arr xs => AllQ Q xs
  | .obj kvs => KvQ Q kvs
def HeapQ (h : Lib.Heap) : Prop := ∀ c ∈ h, CellQ Q c
def VArgQ : VArg → Prop
  | .one v => Q v
  | .many vs => AllQ Q vs
def VArgsQ (va : List VArg) : Prop := ∀ a ∈ va, VArgQ Q a
def EffQ : Eff → Prop
  | .ret v => Q v
  | .fail v => Q v
  | .unmodelled => True
  | .store _ c v => CellQ Q c ∧ Q v
  | .alloc c => CellQ Q c
def BodyQ (b : List VArg → Heap → Eff) : Prop := ∀ va h, VArgsQ Q va → HeapQ Q h → EffQ Q (b va h)

variable {Q} (hQ : ∀ v, isFn v = false → Q v)

theorem getArr_q {h : Heap} (hh : HeapQ Q h) {r : Nat} {xs : List Lib.Value} (he : getArr h r = some xs) : AllQ Q xs := by
  unfold getArr at he
  split at he
  · next ys heq => cases he; exact hh _ (List.mem_of_getElem? heq)
  · cases he

theorem getObj_q {h : Heap} (hh : HeapQ Q h) {r : Nat} {kvs : List (String × Lib.Value)} (he : getObj h r = some kvs) :
    KvQ Q kvs := by
  unfold getObj at he
  split at he
  · next ys heq => cases he; exact hh _ (List.mem_of_getElem? heq)
  · cases he


theorem vq1 {a : VArg} {l : List VArg} (h : VArgsQ Q (a :: l)) : VArgQ Q a := h a List.mem_cons_self
theorem vq2 {a b : VArg} {l : List VArg} (h : VArgsQ Q (a :: b :: l)) : VArgQ Q b :=
  h b (List.mem_cons_of_mem _ List.mem_cons_self)
theorem vq3 {a b c : VArg} {l : List VArg} (h : VArgsQ Q (a :: b :: c :: l)) : VArgQ Q c :=
  h c (List.mem_cons_of_mem _ (List.mem_cons_of_mem _ List.mem_cons_self))

theorem pyGetItem_mem {xs : List Lib.Value} {i : Int} {v : Lib.Value} (h : pyGetItem xs i = some v) : v ∈ xs := by
  unfold pyGetItem at h
  split at h
  · split at h
    · exact List.mem_of_getElem? h
    · cases h
  · exact List.mem_of_getElem? h

theorem pySetItem_q {xs xs' : List Lib.Value} {i : Int} {v : Lib.Value} (h : pySetItem xs i v = some xs')
    (h1 : AllQ Q xs) (h2 : Q v) : AllQ Q xs' := by
  unfold pySetItem at h
  cases hk : pyIdx xs.length i with
  | none => rw [hk] at h; cases h
  | some k =>
    rw [hk] at h
    simp only [Option.map_some, Option.some.injEq] at h
    rw [← h]
    intro x hx
    rcases List.mem_or_eq_of_mem_set hx with h | h
    · exact h1 x h
    · rw [h]; exact h2

theorem pyDelItem_q {xs xs' : List Lib.Value} {i : Int} (h : pyDelItem xs i = some xs') (h1 : AllQ Q xs) :
    AllQ Q xs' := by
  unfold pyDelItem at h
  cases hk : pyIdx xs.length i with
  | none => rw [hk] at h; cases h
  | some k =>
    rw [hk] at h
    simp only [Option.map_some, Option.some.injEq] at h
    rw [← h]
    intro x hx
    exact h1 x (List.mem_of_mem_eraseIdx hx)

theorem pySlice_q {xs : List Lib.Value} (s e : Int) (h1 : AllQ Q xs) : AllQ Q (pySlice xs s e) := by
  intro x hx
  unfold pySlice at hx
  exact h1 x (List.mem_of_mem_drop (List.mem_of_mem_take hx))

theorem append_q {xs ys : List Lib.Value} (h1 : AllQ Q xs) (h2 : AllQ Q ys) : AllQ Q (xs ++ ys) := by
  intro x hx
  rcases List.mem_append.1 hx with h | h
  · exact h1 x h
  · exact h2 x h

theorem replicate_q {n : Nat} {v : Lib.Value} (h : Q v) : AllQ Q (List.replicate n v) := by
  intro x hx
  rw [List.eq_of_mem_replicate hx]; exact h

theorem dictSet_q {kvs : List (String × Lib.Value)} {k : String} {v : Lib.Value} (h1 : KvQ Q kvs) (h2 : Q v) :
    KvQ Q (dictSet kvs k v) := by
  induction kvs with
  | nil => intro kv hkv; simp only [dictSet, List.mem_singleton] at hkv; rw [hkv]; exact h2
  | cons x rest ih =>
    obtain ⟨k', x⟩ := x
    intro kv hkv
    simp only [dictSet] at hkv
    split at hkv
    · rcases List.mem_cons.1 hkv with h | h
      · rw [h]; exact h2
      · exact h1 kv (List.mem_cons_of_mem _ h)
    · rcases List.mem_cons.1 hkv with h | h
      · rw [h]; exact h1 _ List.mem_cons_self
      · exact ih (fun kv hkv => h1 kv (List.mem_cons_of_mem _ hkv)) kv h

theorem dictDel_q {kvs : List (String × Lib.Value)} (k : String) (h1 : KvQ Q kvs) : KvQ Q (dictDel kvs k) :=
  fun kv hkv => h1 kv (List.mem_filter.1 hkv).1

theorem dictUpdate_q {kvs kvs2 : List (String × Lib.Value)} (h1 : KvQ Q kvs) (h2 : KvQ Q kvs2) :
    KvQ Q (dictUpdate kvs kvs2) := by
  unfold dictUpdate
  induction kvs2 generalizing kvs with
  | nil => exact h1
  | cons p rest ih =>
    simp only [List.foldl_cons]
    exact ih (dictSet_q h1 (h2 p List.mem_cons_self)) (fun kv hkv => h2 kv (List.mem_cons_of_mem _ hkv))

theorem dictGet_q {kvs : List (String × Lib.Value)} (k : String) (d : Lib.Value) (h1 : KvQ Q kvs) (h2 : Q d) :
    Q ((dictGet kvs k).getD d) := by
  unfold dictGet
  induction kvs with
  | nil => exact h2
  | cons p rest ih =>
    obtain ⟨k', x⟩ := p
    simp only [List.lookup]
    split
    · exact h1 _ List.mem_cons_self
    · exact ih (fun kv hkv => h1 kv (List.mem_cons_of_mem _ hkv))

include hQ in
theorem objectNewLoop_q : ∀ (args : List Lib.Value) (acc o : List (String × Lib.Value)), AllQ Q args → KvQ Q acc →
    objectNewLoop args acc = some o → KvQ Q o
  | [], acc, o, _, hacc, h => by simp only [objectNewLoop, Option.some.injEq] at h; rw [← h]; exact hacc
  | [.str k], acc, o, _, hacc, h => by
      simp only [objectNewLoop, Option.some.injEq] at h; rw [← h]; exact dictSet_q hacc (hQ _ rfl)
  | .str k :: v :: rest, acc, o, ha, hacc, h => by
      simp only [objectNewLoop] at h
      exact objectNewLoop_q rest _ o (fun x hx => ha x (List.mem_cons_of_mem _ (List.mem_cons_of_mem _ hx)))
        (dictSet_q hacc (ha v (List.mem_cons_of_mem _ List.mem_cons_self))) h
  | [.null], _, _, _, _, h | [.bool _], _, _, _, _, h | [.num _], _, _, _, _, h | [.dt _], _, _, _, _, h
  | [.arr _], _, _, _, _, h | [.obj _], _, _, _, _, h | [.fn _], _, _, _, _, h | [.regex _], _, _, _, _, h => by
      simp [objectNewLoop] at h
  | .null :: _ :: _, _, _, _, _, h | .bool _ :: _ :: _, _, _, _, _, h | .num _ :: _ :: _, _, _, _, _, h
  | .dt _ :: _ :: _, _, _, _, _, h | .arr _ :: _ :: _, _, _, _, _, h | .obj _ :: _ :: _, _, _, _, _, h
  | .fn _ :: _ :: _, _, _, _, _, h | .regex _ :: _ :: _, _, _, _, _, h => by simp [objectNewLoop] at h

include hQ in
theorem fromCodes_q : ∀ (vs : List Lib.Value) (acc : List Char), EffQ Q (fromCodes vs acc)
  | [], acc => hQ _ rfl
  | v :: vs, acc => by
      unfold fromCodes
      split
      · split
        · exact trivial
        · exact hQ _ rfl
      · exact hQ _ rfl
      · exact fromCodes_q vs _

include hQ in
theorem searchRes_q (o : Option (Option Int)) : EffQ Q (searchRes o) := by
  unfold searchRes
  split
  · exact trivial
  · exact hQ _ rfl
  · exact hQ _ rfl

theorem digits_nonfn {v : Lib.Value} (o : Option Nat) (f : Nat → Lib.Value) (hf : ∀ n, isFn (f n) = false)
    (h : o.map f = some v) : isFn v = false := by
  cases o with
  | none => cases h
  | some k => simp only [Option.map_some, Option.some.injEq] at h; rw [← h]; exact hf k

theorem parseDefault_nonfn {s : String} {v : Lib.Value} (h : parseDefault s = some v) : isFn v = false := by
  unfold parseDefault at h
  split at h
  · cases h; rfl
  · cases h; rfl
  · exact digits_nonfn _ _ (fun _ => rfl) h
  · split at h
    · split at h
      · cases h
      · cases h; rfl
    · cases h
  · exact digits_nonfn _ _ (fun _ => rfl) h
  · cases h

include hQ in
theorem checkArg_q {h : Heap} {m : Gen.ArgModel} {a v : Lib.Value} (ha : Q a) (hc : checkArg h m a = some v) : Q v := by
  unfold checkArg at hc
  split at hc
  · cases hc; exact ha
  · split at hc
    · cases hc; exact hQ _ rfl
    · split at hc
      · split at hc
        · cases hc; exact hQ _ rfl
        · cases hc
      · split at hc
        · cases hc
        · split at hc
          · cases hc
          · cases hc; exact hQ _ rfl
      · split at hc
        · cases hc
        · cases hc; exact ha

include hQ in
theorem missingArg_q {m : Gen.ArgModel} {a : VArg} (hm : missingArg m = some a) : VArgQ Q a := by
  unfold missingArg at hm
  split at hm
  · cases hm; intro x hx; cases hx
  · split at hm
    · next d hd =>
      cases hm
      cases hdef : m.default with
      | none => rw [hdef] at hd; cases hd
      | some s => rw [hdef] at hd; exact hQ _ (parseDefault_nonfn hd)
    · split at hm
      · cases hm; exact hQ _ rfl
      · split at hm
        · cases hm; exact hQ _ rfl
        · cases hm

include hQ in
theorem validate_q (h : Heap) : ∀ (ms : List Gen.ArgModel) (args : List Lib.Value) (va : List VArg), AllQ Q args →
    validate h ms args = some va → VArgsQ Q va
  | [], [], va, _, hv => by simp only [validate, Option.some.injEq] at hv; rw [← hv]; intro a ha; cases ha
  | [], _ :: _, va, _, hv => by simp [validate] at hv
  | m :: ms, [], va, ha, hv => by
      simp only [validate] at hv
      split at hv
      · cases hv
      · next a hma =>
        cases hr : validate h ms [] with
        | none => rw [hr] at hv; cases hv
        | some va' =>
          rw [hr] at hv
          simp only [Option.map_some, Option.some.injEq] at hv
          rw [← hv]
          intro x hx
          rcases List.mem_cons.1 hx with rfl | hx
          · exact missingArg_q hQ hma
          · exact validate_q h ms [] va' ha hr x hx
  | m :: ms, a :: as, va, ha, hv => by
      simp only [validate] at hv
      split at hv
      · cases hr : validate h ms [] with
        | none => rw [hr] at hv; cases hv
        | some va' =>
          rw [hr] at hv
          simp only [Option.map_some, Option.some.injEq] at hv
          rw [← hv]
          intro x hx
          rcases List.mem_cons.1 hx with rfl | hx
          · exact ha
          · exact validate_q h ms [] va' (fun _ h => by cases h) hr x hx
      · split at hv
        · cases hv
        · next v hc =>
          cases hr : validate h ms as with
          | none => rw [hr] at hv; cases hv
          | some va' =>
            rw [hr] at hv
            simp only [Option.map_some, Option.some.injEq] at hv
            rw [← hv]
            intro x hx
            rcases List.mem_cons.1 hx with rfl | hx
            · exact checkArg_q hQ (ha a List.mem_cons_self) hc
            · exact validate_q h ms as va' (fun y hy => ha y (List.mem_cons_of_mem _ hy)) hr x hx


include hQ in
theorem bodies_q : ∀ nb ∈ bodies, BodyQ Q nb.2 := by
  intro nb hnb
  simp only [bodies, List.mem_cons, List.not_mem_nil, or_false] at hnb
  intro va h hva hh
  rcases hnb with h | h | h | h | h | h | h | h | h | h | h | h | h | h | h | h | h | h | h | h | h | h | h | h | h | h
    | h | h | h | h | h | h | h | h | h | h | h <;> subst h <;> simp only
  all_goals first
    | unfold arrayCopyB | unfold arrayDeleteB | unfold arrayExtendB | unfold arrayGetB | unfold arrayIndexOfB
    | unfold arrayJoinB | unfold arrayLastIndexOfB | unfold arrayLengthB | unfold arrayNewSizeB | unfold arrayPopB
    | unfold arrayPushB | unfold arraySetB | unfold arrayShiftB | unfold arraySliceB | unfold objectAssignB
    | unfold objectCopyB | unfold objectDeleteB | unfold objectGetB | unfold objectHasB | unfold objectKeysB
    | unfold objectSetB | unfold stringCharCodeAtB | unfold stringEndsWithB | unfold stringIndexOfB
    | unfold stringLastIndexOfB | unfold stringLengthB | unfold stringLowerB | unfold stringRepeatB
    | unfold stringReplaceB | unfold stringSliceB | unfold stringSplitB | unfold stringStartsWithB | unfold stringTrimB
    | unfold stringUpperB | unfold regexEscapeB | unfold urlEncodeB
  all_goals repeat' split
  all_goals first
    | exact trivial
    | exact hQ _ rfl
    | exact searchRes_q hQ _
    | exact getArr_q hh ‹_›
    | exact getObj_q hh ‹_›
    | exact ⟨pyDelItem_q ‹_› (getArr_q hh ‹_›), hQ _ rfl⟩
    | exact ⟨append_q (getArr_q hh ‹_›) (getArr_q hh ‹_›), hQ _ rfl⟩
    | exact getArr_q hh ‹_› _ (pyGetItem_mem ‹_›)
    | exact replicate_q (vq2 hva)
    | exact ⟨fun x hx => getArr_q hh ‹_› x (List.dropLast_subset _ hx), getArr_q hh ‹_› _ (List.mem_of_getLast? ‹_›)⟩
    | exact ⟨append_q (getArr_q hh ‹_›) (vq2 hva), hQ _ rfl⟩
    | exact ⟨pySetItem_q ‹_› (getArr_q hh ‹_›) (vq3 hva), vq3 hva⟩
    | exact ⟨fun y hy => getArr_q hh ‹_› y (List.mem_cons_of_mem _ hy), getArr_q hh ‹_› _ List.mem_cons_self⟩
    | exact pySlice_q _ _ (getArr_q hh ‹_›)
    | exact ⟨dictUpdate_q (getObj_q hh ‹_›) (getObj_q hh ‹_›), hQ _ rfl⟩
    | exact ⟨dictDel_q _ (getObj_q hh ‹_›), hQ _ rfl⟩
    | exact dictGet_q _ _ (getObj_q hh ‹_›) (vq3 hva)
    | exact ⟨dictSet_q (getObj_q hh ‹_›) (vq3 hva), vq3 hva⟩
    | (intro x hx; obtain ⟨p, _, rfl⟩ := List.mem_map.1 hx; exact hQ _ rfl)


theorem lookup_mem {β : Type} {l : List (String × β)} {k : String} {v : β} (h : l.lookup k = some v) :
    ∃ k', (k', v) ∈ l := by
  induction l with
  | nil => cases h
  | cons p rest ih =>
    obtain ⟨k', x⟩ := p
    simp only [List.lookup] at h
    split at h
    · cases h; exact ⟨k', List.mem_cons_self⟩
    · obtain ⟨k'', hk⟩ := ih h; exact ⟨k'', List.mem_cons_of_mem _ hk⟩

include hQ in
theorem rawBodies_q : ∀ nb ∈ rawBodies, ∀ args h, AllQ Q args → EffQ Q (nb.2 args h) := by
  intro nb hnb args h ha
  simp only [rawBodies, List.mem_cons, List.not_mem_nil, or_false] at hnb
  rcases hnb with h | h | h <;> subst h <;> simp only
  · exact ha
  · unfold objectNewR
    split
    · next kvs heq => exact objectNewLoop_q hQ _ _ _ ha (fun _ h => by cases h) heq
    · exact hQ _ rfl
  · exact fromCodes_q hQ _ _

include hQ in
theorem failValue_q {txt : String} {args : List Lib.Value} {v : Lib.Value} (ha : AllQ Q args)
    (h : failValue txt args = some v) : Q v := by
  unfold failValue at h
  split at h
  · cases h; exact hQ _ rfl
  · split at h
    · cases h
      cases hg : args[2]? with
      | none => exact hQ _ rfl
      | some x => exact ha x (List.mem_of_getElem? hg)
    · exact hQ _ (parseDefault_nonfn h)

include hQ in
theorem eff_q (f : String) (args : List Lib.Value) (h : Heap) (ha : AllQ Q args) (hh : HeapQ Q h) :
    EffQ Q (eff f args h) := by
  unfold eff
  split
  · exact trivial
  · split
    · split
      · next b hb =>
        obtain ⟨k, hk⟩ := lookup_mem hb
        exact rawBodies_q hQ _ hk args h ha
      · exact trivial
    · split
      · next ms b fv _ hb hfv =>
        split
        · exact failValue_q hQ ha hfv
        · next va hva =>
          obtain ⟨k, hk⟩ := lookup_mem hb
          exact bodies_q hQ _ hk va h (validate_q hQ h _ _ _ ha hva) hh
      · exact trivial

/-- what the outcome of a library call must satisfy -/
def ResQ (Q : Lib.Value → Prop) : Lib.Res × Heap → Prop
  | (.ok v, h) => Q v ∧ HeapQ Q h
  | (.fail v, h) => Q v ∧ HeapQ Q h
  | (.unmodelled, _) => True

include hQ in
theorem run_q {e : Eff} {h : Heap} (he : EffQ Q e) (hh : HeapQ Q h) : ResQ Q (e.run h) := by
  cases e with
  | ret v => exact ⟨he, hh⟩
  | fail v => exact ⟨he, hh⟩
  | unmodelled => exact trivial
  | store r c v =>
    refine ⟨he.2, fun c' hc' => ?_⟩
    rcases List.mem_or_eq_of_mem_set hc' with h | h
    · exact hh c' h
    · rw [h]; exact he.1
  | alloc c =>
    refine ⟨?_, fun c' hc' => ?_⟩
    · cases c <;> exact hQ _ rfl
    · rcases List.mem_append.1 hc' with h | h
      · exact hh c' h
      · rw [List.mem_singleton.1 h]; exact he

include hQ in
/-- **Lib never fabricates function values**: for every predicate `Q` on values that holds of all non-function values, a
library call whose arguments and heap satisfy `Q` returns a value and a heap that satisfy `Q`. -/
theorem lib_q (f : String) (args : List Lib.Value) (h : Heap) (ha : AllQ Q args) (hh : HeapQ Q h) :
    ResQ Q (Lib.lib f args h) := run_q hQ (eff_q hQ f args h ha hh) hh

end LibParam

/-! ## HostImpl -/

section HostImplWF
open HostImpl

def vok (m : Bool) (n : Nat) : Value → Bool
  | .fn (.lib name) => if m then name != "systemPartial" else name != "arrayIndexOf"
  | .fn (.other j) => if m then false else decide (j < n)
  | _ => true

theorem vok_mono {m : Bool} {n n' : Nat} (h : n ≤ n') {v : Value} (hv : vok m n v = true) : vok m n' v = true := by
  unfold vok at *
  split <;> simp_all
  omega

def cellVals : Cell → List Value
  | .arr xs => xs
  | .obj kvs => kvs.map (·.2)

def HeapOk (m : Bool) (n : Nat) (heap : List Cell) : Prop := ∀ c ∈ heap, ∀ v ∈ cellVals c, vok m n v = true

def PartialsOk (m : Bool) (ps : List (Value × List Value)) : Prop :=
  m = false → ∀ k f pre, ps[k]? = some (f, pre) → vok false k f = true ∧ ∀ a ∈ pre, vok false ps.length a = true

def WorldOk (m : Bool) (w : World) : Prop := HeapOk m w.partials.length w.heap ∧ PartialsOk m w.partials

def lenExt : Ext World :=
  ⟨fun w w' => w.partials.length ≤ w'.partials.length, fun _ => Nat.le_refl _, fun h1 h2 => Nat.le_trans h1 h2⟩

/-- rank of a call of a host callable: the match-function form of `arrayIndexOf` (two arguments) calls back with one
argument; a partial application calls its target, which is an earlier partial or a library function -/
def hostRank : FnVal → List Value → Nat
  | .lib name, args => if name == "arrayIndexOf" && args.length == 2 then 1 else 0
  | .other k, _ => k + 2
  | .script _, _ => 0

def implData (m : Bool) : WFData World :=
  { E := lenExt, ok := fun w v => vok m w.partials.length v = true, okW := WorldOk m, rank := fun _ => hostRank }

theorem ret_gen {m : Bool} {r : Nat} {w w' : World} {out : LibOut} (hp : w'.partials = w.partials)
    (hh : HeapOk m w.partials.length w'.heap) (hw : WorldOk m w)
    (hv : ∀ v, out.val? = some v → vok m w.partials.length v = true) : TreeWF (implData m) r w (.ret out w') := by
  refine .ret ?_ ?_ ?_
  · show w.partials.length ≤ w'.partials.length
    rw [hp]; exact Nat.le_refl _
  · show WorldOk m w'
    unfold WorldOk; rw [hp]; exact ⟨hh, hw.2⟩
  · show ∀ v, out.val? = some v → vok m w'.partials.length v = true
    rw [hp]; exact hv


def ListOk (m : Bool) (n : Nat) (xs : List Value) : Prop := ∀ x ∈ xs, vok m n x = true
def KvOk (m : Bool) (n : Nat) (kvs : List (String × Value)) : Prop := ∀ kv ∈ kvs, vok m n kv.2 = true

theorem listOk_append {m n} {xs ys : List Value} (h1 : ListOk m n xs) (h2 : ListOk m n ys) : ListOk m n (xs ++ ys) := by
  intro x hx
  rcases List.mem_append.1 hx with h | h
  · exact h1 x h
  · exact h2 x h

theorem listOk_set {m n} {xs : List Value} {i : Nat} {v : Value} (h1 : ListOk m n xs) (h2 : vok m n v = true) :
    ListOk m n (xs.set i v) := by
  intro x hx
  rcases List.mem_or_eq_of_mem_set hx with h | h
  · exact h1 x h
  · rw [h]; exact h2

theorem listOk_dropLast {m n} {xs : List Value} (h1 : ListOk m n xs) : ListOk m n xs.dropLast :=
  fun x hx => h1 x (List.dropLast_subset xs hx)

theorem arr_ok {m n} {w : World} (h : HeapOk m n w.heap) (r : Nat) : ListOk m n ((w.arr? r).getD []) := by
  unfold World.arr?
  split
  · next xs heq => exact h _ (List.mem_of_getElem? heq)
  · intro x hx; cases hx

theorem obj_ok {m n} {w : World} (h : HeapOk m n w.heap) (r : Nat) : KvOk m n ((w.obj? r).getD []) := by
  unfold World.obj?
  split
  · next kvs heq =>
    intro kv hkv
    exact h _ (List.mem_of_getElem? heq) kv.2 (List.mem_map.2 ⟨kv, hkv, rfl⟩)
  · intro x hx; cases hx

theorem kvOk_objSet {m n} {kvs : List (String × Value)} {k : String} {v : Value} (h1 : KvOk m n kvs)
    (h2 : vok m n v = true) : KvOk m n (objSet kvs k v) := by
  induction kvs with
  | nil => intro kv hkv; simp only [objSet, List.mem_singleton] at hkv; rw [hkv]; exact h2
  | cons x rest ih =>
    obtain ⟨k', x⟩ := x
    intro kv hkv
    simp only [objSet] at hkv
    split at hkv
    · rcases List.mem_cons.1 hkv with h | h
      · rw [h]; exact h2
      · exact h1 kv (List.mem_cons_of_mem _ h)
    · rcases List.mem_cons.1 hkv with h | h
      · rw [h]; exact h1 _ List.mem_cons_self
      · exact ih (fun kv hkv => h1 kv (List.mem_cons_of_mem _ hkv)) kv h

theorem objNew_ok {m n} : ∀ (args : List Value) (acc o : List (String × Value)), ListOk m n args → KvOk m n acc →
    objNew args acc = some o → KvOk m n o
  | [], acc, o, _, hacc, h => by simp only [objNew, Option.some.injEq] at h; rw [← h]; exact hacc
  | [.str k], acc, o, _, hacc, h => by
      simp only [objNew, Option.some.injEq] at h; rw [← h]; exact kvOk_objSet hacc rfl
  | .str k :: v :: rest, acc, o, ha, hacc, h => by
      simp only [objNew] at h
      exact objNew_ok rest _ o (fun x hx => ha x (List.mem_cons_of_mem _ (List.mem_cons_of_mem _ hx)))
        (kvOk_objSet hacc (ha v (List.mem_cons_of_mem _ List.mem_cons_self))) h
  | [.null], _, _, _, _, h | [.bool _], _, _, _, _, h | [.num _], _, _, _, _, h | [.dt _], _, _, _, _, h
  | [.arr _], _, _, _, _, h | [.obj _], _, _, _, _, h | [.fn _], _, _, _, _, h | [.regex _], _, _, _, _, h => by
      simp [objNew] at h
  | .null :: _ :: _, _, _, _, _, h | .bool _ :: _ :: _, _, _, _, _, h | .num _ :: _ :: _, _, _, _, _, h
  | .dt _ :: _ :: _, _, _, _, _, h | .arr _ :: _ :: _, _, _, _, _, h | .obj _ :: _ :: _, _, _, _, _, h
  | .fn _ :: _ :: _, _, _, _, _, h | .regex _ :: _ :: _, _, _, _, _, h => by simp [objNew] at h

theorem find_ok {m n} {kvs : List (String × Value)} (h1 : KvOk m n kvs) {d : Value} (h2 : vok m n d = true)
    (p : String × Value → Bool) : vok m n (((kvs.find? p).map (·.2)).getD d) = true := by
  cases hf : kvs.find? p with
  | none => exact h2
  | some kv => exact h1 kv (List.mem_of_find?_eq_some hf)

theorem heapOk_append {m n} {h : List Cell} {c : Cell} (h1 : HeapOk m n h) (h2 : ListOk m n (cellVals c)) :
    HeapOk m n (h ++ [c]) := by
  intro c' hc'
  rcases List.mem_append.1 hc' with hc | hc
  · exact h1 c' hc
  · rw [List.mem_singleton.1 hc]; exact h2

theorem heapOk_set {m n} {h : List Cell} {c : Cell} {r : Nat} (h1 : HeapOk m n h) (h2 : ListOk m n (cellVals c)) :
    HeapOk m n (h.set r c) := by
  intro c' hc'
  rcases List.mem_or_eq_of_mem_set hc' with hc | hc
  · exact h1 c' hc
  · rw [hc]; exact h2

theorem vals_obj {m n} {kvs : List (String × Value)} (h : KvOk m n kvs) : ListOk m n (cellVals (.obj kvs)) := by
  intro v hv
  obtain ⟨kv, hkv, rfl⟩ := List.mem_map.1 hv
  exact h kv hkv


theorem vok_true_irrel {n n' : Nat} {v : Value} (h : vok true n v = true) : vok true n' v = true := by
  unfold vok at *
  split <;> simp_all

theorem indexOfFn_wf (f : Value) : ∀ (xs : List Value) (i : Nat) (w : World), WorldOk true w →
    vok true w.partials.length f = true → ListOk true w.partials.length xs →
    TreeWF (implData true) 1 w (indexOfFn f xs i w)
  | [], i, w, hw, _, _ => ret_gen rfl hw.1 hw (fun v hv => by
      simp only [LibOut.val?, Option.some.injEq] at hv; subst hv; rfl)
  | x :: xs, i, w, hw, hf, hx => by
      unfold indexOfFn
      refine .call (Nat.le_refl _) hw hf (fun a ha' => ?_) ?_ (fun v w1 _ hw1 _ => ?_)
      · rw [List.mem_singleton.1 ha']; exact hx x List.mem_cons_self
      · cases f with
        | fn fv =>
          cases fv with
          | script id => exact Nat.zero_le _
          | lib n => show hostRank (.lib n) [x] + 1 ≤ 1; simp [hostRank]
          | other k => simp [vok] at hf
        | _ => exact Nat.zero_le _
      · split
        · exact ret_gen rfl hw1.1 hw1 (fun v hv => by
            simp only [LibOut.val?, Option.some.injEq] at hv; subst hv; rfl)
        · exact indexOfFn_wf f xs (i+1) w1 hw1 (vok_true_irrel hf)
            (fun y hy => vok_true_irrel (hx y (List.mem_cons_of_mem _ hy)))

theorem indexOfFn_wf' {m : Bool} (f a b : Value) (xs : List Value) (w : World) (hw : WorldOk m w)
    (hf0 : vok m w.partials.length (.fn (.lib "arrayIndexOf")) = true)
    (hf : vok m w.partials.length f = true) (hx : ListOk m w.partials.length xs) :
    TreeWF (implData m) (hostRank (.lib "arrayIndexOf") [a, b]) w (indexOfFn f xs 0 w) := by
  cases m with
  | false => simp [vok] at hf0
  | true =>
    have : hostRank (.lib "arrayIndexOf") [a, b] = 1 := by simp [hostRank]
    rw [this]
    exact indexOfFn_wf f xs 0 w hw hf hx

theorem partial_wf {m : Bool} {r : Nat} {w : World} (hw : WorldOk m w) {f : FnVal} {a : Value} {as : List Value}
    (hf : vok m w.partials.length (.fn (.lib "systemPartial")) = true)
    (ha : ∀ x ∈ Value.fn f :: a :: as, vok m w.partials.length x = true) :
    TreeWF (implData m) r w
      (.ret (.ok (.fn (.other w.partials.length))) { w with partials := w.partials ++ [(.fn f, a :: as)] }) := by
  cases m with
  | true => simp [vok] at hf
  | false =>
    have hlen : (w.partials ++ [(Value.fn f, a :: as)]).length = w.partials.length + 1 := by simp
    refine .ret ?_ ⟨?_, ?_⟩ ?_
    · show w.partials.length ≤ (w.partials ++ [(Value.fn f, a :: as)]).length
      omega
    · show HeapOk false (w.partials ++ [(Value.fn f, a :: as)]).length w.heap
      intro c hc v hv
      exact vok_mono (by omega) (hw.1 c hc v hv)
    · intro _ k f' pre hk
      show vok false k f' = true ∧ ∀ x ∈ pre, vok false (w.partials ++ [(Value.fn f, a :: as)]).length x = true
      by_cases hlt : k < w.partials.length
      · rw [List.getElem?_append_left hlt] at hk
        obtain ⟨h1, h2⟩ := hw.2 rfl k f' pre hk
        exact ⟨h1, fun x hx => vok_mono (by omega) (h2 x hx)⟩
      · rw [List.getElem?_append_right (by omega)] at hk
        have hk0 : k - w.partials.length = 0 := by
          rcases Nat.eq_zero_or_pos (k - w.partials.length) with h | h
          · exact h
          · rw [List.getElem?_eq_none (by simp; omega)] at hk; cases hk
        rw [hk0] at hk
        simp only [List.getElem?_cons_zero, Option.some.injEq, Prod.mk.injEq] at hk
        obtain ⟨rfl, rfl⟩ := hk
        have hkeq : k = w.partials.length := by omega
        subst hkeq
        exact ⟨ha _ List.mem_cons_self, fun x hx => vok_mono (by omega) (ha x (List.mem_cons_of_mem _ hx))⟩
    · intro v hv
      simp only [LibOut.val?, Option.some.injEq] at hv; subst hv
      show vok false (w.partials ++ [(Value.fn f, a :: as)]).length (.fn (.other w.partials.length)) = true
      simp [vok]

theorem lib_wf (m : Bool) (name : String) (args : List Value) (w : World) (hw : WorldOk m w)
    (hf : vok m w.partials.length (.fn (.lib name)) = true) (ha : ∀ a ∈ args, vok m w.partials.length a = true) :
    TreeWF (implData m) (hostRank (.lib name) args) w (lib name args w) := by
  unfold lib
  simp only [HostImpl.ok, HostImpl.fail, World.alloc, World.setCell]
  repeat' split
  all_goals first
    | exact partial_wf hw hf ha
    | exact indexOfFn_wf' _ _ _ _ _ hw hf (ha _ (List.mem_cons_of_mem _ List.mem_cons_self)) (arr_ok hw.1 _)
    | (refine .globalGet (Nat.le_refl _) hw (fun v w1 hle hw1 hv => ret_gen rfl hw1.1 hw1 (fun x hx => ?_))
       simp only [LibOut.val?, Option.some.injEq] at hx; subst hx
       cases v with
       | none => first | rfl | exact vok_mono hle (ha _ (List.mem_cons_of_mem _ List.mem_cons_self))
       | some y => exact hv y rfl)
    | (refine .globalSet (Nat.le_refl _) hw ?_ (fun w1 hle hw1 => ret_gen rfl hw1.1 hw1 (fun x hx => ?_))
       · first | rfl | exact ha _ (List.mem_cons_of_mem _ List.mem_cons_self)
       · simp only [LibOut.val?, Option.some.injEq] at hx; subst hx
         first | rfl | exact vok_mono hle (ha _ (List.mem_cons_of_mem _ List.mem_cons_self)))
    | skip
  all_goals try (refine ret_gen ?_ ?_ hw ?_)
  all_goals try (intro v hv; simp only [LibOut.val?, Option.some.injEq] at hv; subst hv)
  all_goals try rfl
  all_goals try exact hw.1
  all_goals first
    | exact heapOk_append hw.1 ha
    | exact heapOk_append hw.1 (arr_ok hw.1 _)
    | exact heapOk_set hw.1 (listOk_append (arr_ok hw.1 _) (fun x hx => ha x (List.mem_cons_of_mem _ hx)))
    | exact heapOk_set hw.1 (listOk_set (arr_ok hw.1 _) rfl)
    | exact heapOk_set hw.1 (listOk_set (arr_ok hw.1 _) (ha _ (List.mem_cons_of_mem _ (List.mem_cons_of_mem _ List.mem_cons_self))))
    | exact heapOk_set hw.1 (listOk_dropLast (arr_ok hw.1 _))
    | (refine heapOk_append hw.1 (vals_obj (objNew_ok _ _ _ ha ?_ ‹_›)); intro x hx; cases hx)
    | exact heapOk_set hw.1 (vals_obj (kvOk_objSet (obj_ok hw.1 _) (ha _ (List.mem_cons_of_mem _ (List.mem_cons_of_mem _ List.mem_cons_self)))))
    | exact arr_ok hw.1 _ _ (List.mem_of_getElem? ‹_›)
    | exact arr_ok hw.1 _ _ (List.mem_of_getLast? ‹_›)
    | exact find_ok (obj_ok hw.1 _) rfl _
    | exact find_ok (obj_ok hw.1 _) (ha _ (List.mem_cons_of_mem _ (List.mem_cons_of_mem _ List.mem_cons_self))) _
    | exact ha _ (List.mem_cons_of_mem _ (List.mem_cons_of_mem _ List.mem_cons_self))

theorem other_wf (m : Bool) (k : Nat) (args : List Value) (w : World) (hw : WorldOk m w)
    (hf : vok m w.partials.length (.fn (.other k)) = true) (ha : ∀ a ∈ args, vok m w.partials.length a = true) :
    TreeWF (implData m) (hostRank (.other k) args) w (HostImpl.other k args w) := by
  cases m with
  | true => simp [vok] at hf
  | false =>
    unfold HostImpl.other
    split
    · next f pre heq =>
      obtain ⟨h1, h2⟩ := hw.2 rfl k f pre heq
      have hk : k < w.partials.length := by simpa [vok] using hf
      refine .call (Nat.le_refl _) hw (vok_mono (Nat.le_of_lt hk) h1) ?_ ?_ (fun v w1 _ hw1 hv => ?_)
      · intro a ha'
        rcases List.mem_append.1 ha' with h | h
        · exact h2 a h
        · exact ha a h
      · show callRank (fun _ => hostRank) w f (pre ++ args) ≤ k + 2
        cases f with
        | fn fv =>
          cases fv with
          | script id => exact Nat.zero_le _
          | lib n => simp only [callRank, hostRank]; split <;> omega
          | other j =>
            have : j < k := by simpa [vok] using h1
            simp only [callRank, hostRank]; omega
        | _ => exact Nat.zero_le _
      · exact ret_gen rfl hw1.1 hw1 (fun x hx => by
          simp only [LibOut.val?, Option.some.injEq] at hx; subst hx; exact hv)
    · exact ret_gen rfl hw.1 hw (fun x hx => by
        simp only [LibOut.val?, Option.some.injEq] at hx; subst hx; rfl)


theorem vok_nonfn {m : Bool} {n : Nat} {v : Value} (h : ∀ f, v ≠ .fn f) : vok m n v = true := by
  cases v <;> first | rfl | exact absurd rfl (h _)

theorem binop_nonfn (op : BinOp) (a b : Value) (w : World) : ∀ f, binop op a b w ≠ .fn f := by
  intro f
  unfold binop
  repeat' split
  all_goals nofun

theorem neg_nonfn (v : Value) : ∀ f, HostImpl.neg v ≠ .fn f := by
  intro f; unfold HostImpl.neg; split <;> nofun

/-- **hostImplWF.** `HostImpl.host` is well-founded on the states without `systemPartial` and partial values (`m = true`),
and on the states without the function value `arrayIndexOf` (`m = false`, partial applications allowed). -/
def hostImplWF (m : Bool) : HostWF HostImpl.host where
  toWFData := implData m
  ok_mono := fun hle hv => vok_mono hle hv
  ok_null := fun _ => rfl
  ok_bool := fun _ _ => rfl
  ok_num := fun _ _ => rfl
  ok_str := fun _ _ => rfl
  ok_script := fun _ _ => rfl
  ok_builtin := fun _ _ _ h => by cases h
  binop_ok := fun op a b w _ _ _ => vok_nonfn (binop_nonfn op a b w)
  neg_ok := fun v _ _ => vok_nonfn (neg_nonfn v)
  notCallable_ok := fun _ w hw => ⟨Nat.le_refl _, hw⟩
  logFailure_ok := fun w hw => ⟨Nat.le_refl _, hw⟩
  newArray_ok := fun xs w hw hx => ⟨Nat.le_refl _, ⟨heapOk_append hw.1 hx, hw.2⟩, rfl⟩
  lib_wf := fun name args w hw hf ha => lib_wf m name args w hw hf ha
  other_wf := fun k args w hw hf ha => other_wf m k args w hw hf ha

end HostImplWF

/-! ## HostLib -/

section HostLibWF
open HostLib HostImpl

/-- the `Lib` heap holds admissible values only -/
def LHeapOk (m : Bool) (n : Nat) (h : Lib.Heap) : Prop := LibParam.HeapQ (fun v => vok m n (ofLib v) = true) h

def lenExtL : Ext LWorld :=
  ⟨fun w w' => w.partials.length ≤ w'.partials.length, fun _ => Nat.le_refl _, fun h1 h2 => Nat.le_trans h1 h2⟩

def LWorldOk (m : Bool) (w : LWorld) : Prop := LHeapOk m w.partials.length w.heap ∧ PartialsOk m w.partials

def libData (m : Bool) : WFData LWorld :=
  { E := lenExtL, ok := fun w v => vok m w.partials.length v = true, okW := LWorldOk m, rank := fun _ => hostRank }

theorem lheapOk_mono {m : Bool} {n n' : Nat} (hn : n ≤ n') {h : Lib.Heap} (hh : LHeapOk m n h) : LHeapOk m n' h := by
  intro c hc
  have := hh c hc
  cases c with
  | arr xs => exact fun x hx => vok_mono hn (this x hx)
  | obj kvs => exact fun kv hkv => vok_mono hn (this kv hkv)

theorem toImpl_heapOk {m : Bool} {n : Nat} {h : Lib.Heap} (hh : LHeapOk m n h) : HeapOk m n (h.map cellOfLib) := by
  intro c hc v hv
  obtain ⟨c0, hc0, rfl⟩ := List.mem_map.1 hc
  have := hh c0 hc0
  cases c0 with
  | arr xs =>
    obtain ⟨x, hx, rfl⟩ := List.mem_map.1 hv
    exact this x hx
  | obj kvs =>
    simp only [cellOfLib, cellVals, List.map_map] at hv
    obtain ⟨kv, hkv, rfl⟩ := List.mem_map.1 hv
    exact this kv hkv

theorem toImpl_worldOk {m : Bool} {w : LWorld} (hw : LWorldOk m w) : WorldOk m w.toImpl :=
  ⟨toImpl_heapOk hw.1, hw.2⟩

theorem callRank_const {W1 W2 : Type} (g : FnVal → List Value → Nat) (w1 : W1) (w2 : W2) (f : Value) (args : List Value) :
    callRank (fun _ => g) w1 f args = callRank (fun _ => g) w2 f args := by
  cases f with
  | fn fv => cases fv <;> rfl
  | _ => rfl

theorem putBack_toImpl (w : LWorld) : putBack w.heap w.toImpl = w := rfl

/-- a HostImpl tree that is well-founded stays so when it is transported to `LWorld` next to an admissible `Lib` heap -/
theorem lift_wf {m : Bool} {r : Nat} : ∀ (t : LibTree World) (h : Lib.Heap) (w0 : World),
    TreeWF (implData m) r w0 t → LHeapOk m w0.partials.length h → TreeWF (libData m) r (putBack h w0) (lift t h)
  | .ret o w, h, w0, ht, hh => by
      cases ht with | ret hle hw hv =>
      exact .ret hle ⟨lheapOk_mono hle hh, hw.2⟩ hv
  | .call f args w k, h, w0, ht, hh => by
      cases ht with | call hle hw hf ha hr hk =>
      refine .call hle ⟨lheapOk_mono hle hh, hw.2⟩ hf ha ?_ (fun v w1 hle1 hw1 hv1 => ?_)
      · exact Nat.le_trans (Nat.le_of_eq (callRank_const hostRank (putBack h w) w f args)) hr
      · have := lift_wf (k v w1.toImpl) w1.heap w1.toImpl (hk v w1.toImpl hle1 (toImpl_worldOk hw1) hv1) hw1.1
        rw [putBack_toImpl] at this
        exact this
  | .globalGet n w k, h, w0, ht, hh => by
      cases ht with | globalGet hle hw hk =>
      refine .globalGet hle ⟨lheapOk_mono hle hh, hw.2⟩ (fun v w1 hle1 hw1 hv1 => ?_)
      have := lift_wf (k v w1.toImpl) w1.heap w1.toImpl (hk v w1.toImpl hle1 (toImpl_worldOk hw1) hv1) hw1.1
      rw [putBack_toImpl] at this
      exact this
  | .globalSet n v w k, h, w0, ht, hh => by
      cases ht with | globalSet hle hw hv hk =>
      refine .globalSet hle ⟨lheapOk_mono hle hh, hw.2⟩ hv (fun w1 hle1 hw1 => ?_)
      have := lift_wf (k w1.toImpl) w1.heap w1.toImpl (hk w1.toImpl hle1 (toImpl_worldOk hw1)) hw1.1
      rw [putBack_toImpl] at this
      exact this

theorem vok_ofLib_nonfn (m : Bool) (n : Nat) : ∀ v, Lib.isFn v = false → vok m n (ofLib v) = true := by
  intro v hv
  cases v <;> first | rfl | cases hv

theorem libLib_wf (m : Bool) (name : String) (args : List Value) (w : LWorld) (hw : LWorldOk m w)
    (hf : vok m w.partials.length (.fn (.lib name)) = true) (ha : ∀ a ∈ args, vok m w.partials.length a = true) :
    TreeWF (libData m) (hostRank (.lib name) args) w (HostLib.lib name args w) := by
  unfold HostLib.lib
  have hq := LibParam.lib_q (Q := fun v => vok m w.partials.length (ofLib v) = true)
    (vok_ofLib_nonfn m _) name (args.map toLib) w.heap (by
      intro x hx
      obtain ⟨a, ha', rfl⟩ := List.mem_map.1 hx
      show vok m w.partials.length (ofLib (toLib a)) = true
      rw [HostLib.ofLib_toLib]; exact ha a ha') hw.1
  generalize Lib.lib name (args.map toLib) w.heap = res at hq
  obtain ⟨r, h'⟩ := res
  cases r with
  | ok v => exact .ret (Nat.le_refl _) ⟨hq.2, hw.2⟩ (fun x hx => by cases hx; exact hq.1)
  | fail v => exact .ret (Nat.le_refl _) ⟨hq.2, hw.2⟩ (fun x hx => by cases hx; exact hq.1)
  | unmodelled =>
    simp only
    unfold fallback
    split
    · have := lift_wf _ w.heap w.toImpl (lib_wf m name args w.toImpl (toImpl_worldOk hw) hf ha) hw.1
      rw [putBack_toImpl] at this
      exact this
    · exact .ret (Nat.le_refl _) hw (fun x hx => by cases hx; rfl)

theorem libOther_wf (m : Bool) (k : Nat) (args : List Value) (w : LWorld) (hw : LWorldOk m w)
    (hf : vok m w.partials.length (.fn (.other k)) = true) (ha : ∀ a ∈ args, vok m w.partials.length a = true) :
    TreeWF (libData m) (hostRank (.other k) args) w (HostLib.other k args w) := by
  unfold HostLib.other
  have := lift_wf _ w.heap w.toImpl (other_wf m k args w.toImpl (toImpl_worldOk hw) hf ha) hw.1
  rw [putBack_toImpl] at this
  exact this

/-- **hostLibWF.** The same two invariants for `HostLib.hostLib` (the verified library `Lib` as the machine's library). -/
def hostLibWF (m : Bool) : HostWF HostLib.hostLib where
  toWFData := libData m
  ok_mono := fun hle hv => vok_mono hle hv
  ok_null := fun _ => rfl
  ok_bool := fun _ _ => rfl
  ok_num := fun _ _ => rfl
  ok_str := fun _ _ => rfl
  ok_script := fun _ _ => rfl
  ok_builtin := fun _ _ _ h => by cases h
  binop_ok := fun op a b w _ _ _ => vok_nonfn (binop_nonfn op a b w.toImpl)
  neg_ok := fun v _ _ => vok_nonfn (neg_nonfn v)
  notCallable_ok := fun _ w hw => ⟨Nat.le_refl _, hw⟩
  logFailure_ok := fun w hw => ⟨Nat.le_refl _, hw⟩
  newArray_ok := fun xs w hw hx => by
    refine ⟨Nat.le_refl _, ⟨?_, hw.2⟩, rfl⟩
    intro c hc
    rcases List.mem_append.1 hc with h | h
    · exact hw.1 c h
    · rw [List.mem_singleton.1 h]
      intro x hx'
      obtain ⟨a, ha, rfl⟩ := List.mem_map.1 hx'
      show vok _ _ (ofLib (toLib a)) = true
      rw [HostLib.ofLib_toLib]; exact hx a ha
  lib_wf := fun name args w hw hf ha => libLib_wf m name args w hw hf ha
  other_wf := fun k args w hw hf ha => libOther_wf m k args w hw hf ha

end HostLibWF

/-! ## decidable admissibility of a start state -/

section Checkers
open HostImpl HostLib

def partialsOkB (m : Bool) (ps : List (Value × List Value)) : Bool :=
  m || (List.range ps.length).all fun k =>
    match ps[k]? with
    | some (f, pre) => vok false k f && pre.all (vok false ps.length)
    | none => true

def globalsOkB (m : Bool) (n : Nat) (g : Env) : Bool := g.all fun p => vok m n p.2

def heapOkB (m : Bool) (n : Nat) (heap : List Cell) : Bool := heap.all fun c => (cellVals c).all (vok m n)

def lheapOkB (m : Bool) (n : Nat) (heap : Lib.Heap) : Bool :=
  heap.all fun c => (LibParam.lcellVals c).all fun v => vok m n (ofLib v)

/-- **admissible start state of `HostImpl`** (decidable): every value in the globals, in the heap and (for `m = false`)
in the table of partial applications passes `vok m`, and every partial's target is an earlier entry -/
def implStateOk (m : Bool) (st : State World) : Bool :=
  heapOkB m st.world.partials.length st.world.heap && partialsOkB m st.world.partials &&
    globalsOkB m st.world.partials.length st.globals

/-- **admissible start state of `HostLib`** (decidable) -/
def libStateOk (m : Bool) (st : State LWorld) : Bool :=
  lheapOkB m st.world.partials.length st.world.heap && partialsOkB m st.world.partials &&
    globalsOkB m st.world.partials.length st.globals

theorem partialsOkB_sound {m : Bool} {ps : List (Value × List Value)} (h : partialsOkB m ps = true) :
    PartialsOk m ps := by
  intro hm k f pre hk
  subst hm
  simp only [partialsOkB, Bool.false_or, List.all_eq_true, List.mem_range] at h
  have hlt : k < ps.length := by
    rcases Nat.lt_or_ge k ps.length with h' | h'
    · exact h'
    · rw [List.getElem?_eq_none h'] at hk; cases hk
  have := h k hlt
  rw [hk] at this
  simp only [Bool.and_eq_true, List.all_eq_true] at this
  exact this

theorem globalsOkB_sound {m : Bool} {n : Nat} {g : Env} (h : globalsOkB m n g = true) : ∀ p ∈ g, vok m n p.2 = true := by
  simpa only [globalsOkB, List.all_eq_true] using h

theorem implStateOk_sound {m : Bool} {st : State World} (h : implStateOk m st = true) : SOK (hostImplWF m) st := by
  simp only [implStateOk, Bool.and_eq_true] at h
  refine ⟨⟨?_, partialsOkB_sound h.1.2⟩, globalsOkB_sound h.2⟩
  intro c hc v hv
  have := h.1.1
  simp only [heapOkB, List.all_eq_true] at this
  exact this c hc v hv

theorem libStateOk_sound {m : Bool} {st : State LWorld} (h : libStateOk m st = true) : SOK (hostLibWF m) st := by
  simp only [libStateOk, Bool.and_eq_true] at h
  refine ⟨⟨?_, partialsOkB_sound h.1.2⟩, globalsOkB_sound h.2⟩
  intro c hc
  have := h.1.1
  simp only [lheapOkB, List.all_eq_true] at this
  have hc' := this c hc
  cases c with
  | arr xs => exact fun x hx => hc' x hx
  | obj kvs => exact fun kv hkv => hc' kv.2 (List.mem_map.2 ⟨kv, hkv, rfl⟩)

end Checkers

end C09
