import BareProofs.C11BridgeLemmas

/-!
# C11Bridge — one value order: the C11 comparison theorems hold on the execution model

`BareProofs/C11.lean` proves the order laws for `Compare.valueCompare` over *closed* values (`Compare.PValue`).  The jump
machine (`BareModel/Machine.lean`) that C01/C03/C04/C08/C09 execute runs on the host `HostImpl.host`, whose values are
references into `World.heap` and whose comparison is the fuelled `HostImpl.valueCompare` / `HostImpl.compare?`.  This file
connects the two.

* `reify w v : Option Compare.PValue`   the closed value a heap value denotes; `none` exactly when no recursion depth
  reifies it (`reifyF_complete`), which is exactly when `v` is or reaches a dangling reference or a container that reaches
  itself (`reify_none_iff`; `reify_none_of_reaches_self`, `reify_none_of_dangling`).  `reify_arr`, `reify_obj`,
  `reify_scalar`: `reify` is compositional (fuel-free equations).
* `compare_bridge`                      `compare? w a b = some (Compare.valueCompare pa pb)` for reifiable operands: the fuel
  `(heap.length+1)² + 2` of `compare?` always suffices on them.
* order laws on worlds                  `machine_cmp_refl`, `machine_cmp_antisymm`, `machine_cmp_trans`, `machine_cmp_total`,
  `machine_cmp_range`, `machine_null_least`, `machine_cross_type_by_name` (the last two for *all* values, reifiable or not),
  `machine_alias_equal` (values with the same closed value — two aliases — compare equal), `machine_equal_congr` (values the
  machine finds `==`, e.g. a cell and its copy, are interchangeable as operands)
* consumers                             `machine_relops_sign` / `machine_relop` (`HostImpl.binop` = the sign test of
  `Compare.valueCompare` on the reified operands), `machine_eval_relop` (the same through `Machine.evalExpr`),
  `machine_systemCompare` (+ `machine_call_systemCompare` through `Machine.callValue`), `indexOfVal_bridge`,
  `machine_indexOf` and `machine_indexOf_first` for `arrayIndexOf`
* the second host                       `HostLib.hostLib` (world `LWorld`, values isomorphic to `Lib` values): `reifyL`,
  `hostLib_compare_bridge`, `hostLib_relops_sign`, `hostLib_systemCompare`; `Lib.valueCompare` (the comparison inside the
  `Lib` model of `arrayIndexOf`/…) is bridged in `lib_compare_bridge`.

Both models agree with the real `value_compare` on functions / regexes / booleans / datetimes (checked by running
`/repo/src/bare_script/value.py`): two functions and two regexes compare equal (type name), `true` vs `1` is
"boolean" vs "number", a self-containing list raises `RecursionError` (`compare? = none`).
-/

namespace C11Bridge
open Machine HostImpl

/-! ## `reify` is compositional -/

theorem reify_of_reifyF (w : World) (a : Value) (p : Compare.PValue) : (∃ n, reifyF w n a = some p) ↔ reify w a = some p :=
  ⟨fun ⟨n, h⟩ => reifyF_complete w n a p h, fun h => ⟨_, h⟩⟩

/-- an array reifies iff its cell exists and every element reifies (no fuel in sight) -/
theorem reify_arr (w : World) (r : Nat) (p : Compare.PValue) :
    reify w (.arr r) = some p ↔ ∃ xs pxs, w.arr? r = some xs ∧ mapOpt (reify w) xs = some pxs ∧ p = .arr pxs := by
  constructor
  · intro h
    obtain ⟨xs, pxs, hxs, hm, rfl⟩ := (reifyF_arr w _ r p).mp h
    exact ⟨xs, pxs, hxs, mapOpt_congr _ _ xs pxs (fun x _ y hy => reifyF_succ w _ x y hy) hm, rfl⟩
  · rintro ⟨xs, pxs, hxs, hm, rfl⟩
    exact reifyF_complete w (w.heap.length + 2) _ _ ((reifyF_arr w _ r _).mpr ⟨xs, pxs, hxs, hm, rfl⟩)

/-- an object reifies iff its cell exists and every item value reifies; keys and insertion order are kept -/
theorem reify_obj (w : World) (r : Nat) (p : Compare.PValue) :
    reify w (.obj r) = some p ↔
      ∃ kvs pkvs, w.obj? r = some kvs ∧ mapOpt (reifyItem (reify w)) kvs = some pkvs ∧ p = .obj pkvs := by
  constructor
  · intro h
    obtain ⟨xs, pxs, hxs, hm, rfl⟩ := (reifyF_obj w _ r p).mp h
    refine ⟨xs, pxs, hxs, mapOpt_congr _ _ xs pxs (fun x _ y hy => ?_) hm, rfl⟩
    obtain ⟨e, hv⟩ := (reifyItem_iff _ _ _).mp hy
    exact (reifyItem_iff _ _ _).mpr ⟨e, reifyF_succ w _ x.2 y.2 hv⟩
  · rintro ⟨xs, pxs, hxs, hm, rfl⟩
    exact reifyF_complete w (w.heap.length + 2) _ _ ((reifyF_obj w _ r _).mpr ⟨xs, pxs, hxs, hm, rfl⟩)

/-- scalars, functions and regexes always reify, to themselves -/
theorem reify_scalar (w : World) :
    reify w .null = some .null ∧ (∀ b, reify w (.bool b) = some (.bool b)) ∧ (∀ q, reify w (.num q) = some (.num q)) ∧
    (∀ s, reify w (.str s) = some (.str s)) ∧ (∀ t, reify w (.dt t) = some (.dt t)) ∧
    (∀ f, reify w (.fn f) = some (.fn (HostLib.encFn f))) ∧ (∀ r, reify w (.regex r) = some (.regex r)) := by
  refine ⟨?_, ?_, ?_, ?_, ?_, ?_, ?_⟩ <;> intros <;> rfl

/-- the type name survives reification -/
theorem reify_typeName (w : World) (a : Value) (p : Compare.PValue) (h : reify w a = some p) :
    Compare.typeName p = HostImpl.typeName a := reifyF_typeName w _ a p h

theorem reify_null_iff (w : World) (a : Value) (p : Compare.PValue) (h : reify w a = some p) : p = .null ↔ a = .null := by
  have := reify_typeName w a p h
  cases a <;> cases p <;> simp_all [Compare.typeName, HostImpl.typeName]

/-! ### when `reify` fails -/

/-- `x` is an element (item value) of the container `a` -/
inductive Child (w : World) : Value → Value → Prop
  | arr {r xs x} : w.arr? r = some xs → x ∈ xs → Child w (.arr r) x
  | obj {r kvs kv} : w.obj? r = some kvs → kv ∈ kvs → Child w (.obj r) kv.2

/-- `b` is reached from `a` in one or more containment steps -/
inductive Reaches (w : World) : Value → Value → Prop
  | step {a x} : Child w a x → Reaches w a x
  | trans {a x b} : Child w a x → Reaches w x b → Reaches w a b

theorem mapOpt_mem {α β : Type} (f : α → Option β) : ∀ (xs : List α) (l : List β), mapOpt f xs = some l →
    ∀ x ∈ xs, ∃ y ∈ l, f x = some y
  | [], _, _, x, hx => by simp at hx
  | x0 :: xs, l, h, x, hx => by
    obtain ⟨y0, ys, h1, h2, rfl⟩ := (mapOpt_cons_iff f x0 xs l).mp h
    rcases List.mem_cons.mp hx with rfl | hx
    · exact ⟨y0, by simp, h1⟩
    · obtain ⟨y, hy, hfx⟩ := mapOpt_mem f xs ys h2 x hx
      exact ⟨y, by simp [hy], hfx⟩

/-- a reifiable container has reifiable elements, each strictly shallower -/
theorem child_reify (w : World) {a x : Value} (hc : Child w a x) (p : Compare.PValue) (h : reify w a = some p) :
    ∃ q, reify w x = some q ∧ depth q < depth p := by
  cases hc with
  | arr hxs hx =>
    obtain ⟨xs', pxs, hxs', hm, rfl⟩ := (reify_arr w _ p).mp h
    rw [hxs] at hxs'; cases hxs'
    obtain ⟨y, hy, hxy⟩ := mapOpt_mem _ _ _ hm _ hx
    exact ⟨y, hxy, by have := depth_le_depthList pxs y hy; simp only [depth]; omega⟩
  | obj hxs hx =>
    obtain ⟨xs', pxs, hxs', hm, rfl⟩ := (reify_obj w _ p).mp h
    rw [hxs] at hxs'; cases hxs'
    obtain ⟨y, hy, hxy⟩ := mapOpt_mem _ _ _ hm _ hx
    obtain ⟨_, hv⟩ := (reifyItem_iff _ _ _).mp hxy
    exact ⟨y.2, hv, by have := depth_le_depthItems pxs y hy; simp only [depth]; omega⟩

theorem reaches_reify (w : World) {a b : Value} (hr : Reaches w a b) : ∀ (p : Compare.PValue), reify w a = some p →
    ∃ q, reify w b = some q ∧ depth q < depth p := by
  induction hr with
  | step hc => exact fun p h => child_reify w hc p h
  | trans hc _ ih =>
    intro p h
    obtain ⟨q, hq, hd⟩ := child_reify w hc p h
    obtain ⟨q', hq', hd'⟩ := ih q hq
    exact ⟨q', hq', by omega⟩

/-- a container that reaches itself does not reify … -/
theorem reify_none_of_reaches_self (w : World) (a : Value) (h : Reaches w a a) : reify w a = none := by
  cases hp : reify w a with
  | none => rfl
  | some p =>
    obtain ⟨q, hq, hd⟩ := reaches_reify w h p hp
    rw [hp] at hq; cases hq; omega

/-- … nor does anything from which a non-reifiable value is reached (a self-containing container, a dangling reference) -/
theorem reify_none_of_reaches (w : World) (a b : Value) (h : Reaches w a b) (hb : reify w b = none) : reify w a = none := by
  cases hp : reify w a with
  | none => rfl
  | some p =>
    obtain ⟨q, hq, _⟩ := reaches_reify w h p hp
    rw [hb] at hq; cases hq

/-- a reference without a cell of its kind does not reify -/
theorem reify_none_of_dangling (w : World) (r : Nat) :
    (w.arr? r = none → reify w (.arr r) = none) ∧ (w.obj? r = none → reify w (.obj r) = none) := by
  constructor <;> intro h <;> simp [reify, reifyF, h]

/-! ### … and only then: `reify = none` iff a dangling reference or a self-reaching container is reached -/

/-- a reference without a cell of its kind -/
def Dangling (w : World) : Value → Prop
  | .arr r => w.arr? r = none
  | .obj r => w.obj? r = none
  | _ => False

/-- a reference with a cell of its kind -/
def Live (w : World) : Value → Prop
  | .arr r => ∃ xs, w.arr? r = some xs
  | .obj r => ∃ kvs, w.obj? r = some kvs
  | _ => False

def refIdx : Value → Nat
  | .arr r => r
  | .obj r => r
  | _ => 0

theorem live_lt (w : World) (x : Value) (h : Live w x) : refIdx x < w.heap.length := by
  cases x <;> simp only [Live] at h
  · obtain ⟨xs, h⟩ := h; exact (cellVal_arr w _ xs h).2
  · obtain ⟨xs, h⟩ := h; exact (cellVal_obj w _ xs h).2

theorem live_eq (w : World) (x y : Value) (hx : Live w x) (hy : Live w y) (h : refIdx x = refIdx y) : x = y := by
  cases x <;> cases y <;> simp only [Live, refIdx] at hx hy h <;> subst h
  · rfl
  · obtain ⟨xs, hx⟩ := hx; obtain ⟨ys, hy⟩ := hy
    have h1 := (cellVal_arr w _ xs hx).1; have h2 := (cellVal_obj w _ ys hy).1
    rw [h1] at h2; cases h2
  · obtain ⟨xs, hx⟩ := hx; obtain ⟨ys, hy⟩ := hy
    have h1 := (cellVal_obj w _ xs hx).1; have h2 := (cellVal_arr w _ ys hy).1
    rw [h1] at h2; cases h2
  · rfl

theorem mapOpt_none {α β : Type} (f : α → Option β) : ∀ xs : List α, mapOpt f xs = none → ∃ x ∈ xs, f x = none
  | [], h => by simp [mapOpt] at h
  | x :: xs, h => by
    cases hx : f x with
    | none => exact ⟨x, by simp, hx⟩
    | some y =>
      cases hxs : mapOpt f xs with
      | none =>
        obtain ⟨z, hz, hfz⟩ := mapOpt_none f xs hxs
        exact ⟨z, by simp [hz], hfz⟩
      | some ys => simp [mapOpt, hx, hxs] at h

/-- one unit of fuel: a value that does not reify and does not dangle is a live container with an element that does not
reify with one unit less -/
theorem reifyF_none_step (w : World) (n : Nat) (a : Value) (h : reifyF w (n+1) a = none) (hd : ¬ Dangling w a) :
    Live w a ∧ ∃ x, Child w a x ∧ reifyF w n x = none := by
  cases a with
  | arr r =>
    simp only [Dangling] at hd
    cases hxs : w.arr? r with
    | none => exact absurd hxs hd
    | some xs =>
      simp only [reifyF, hxs] at h
      have hm : mapOpt (reifyF w n) xs = none := by cases hm : mapOpt (reifyF w n) xs <;> simp_all
      obtain ⟨x, hx, hfx⟩ := mapOpt_none _ xs hm
      exact ⟨⟨xs, hxs⟩, x, .arr hxs hx, hfx⟩
  | obj r =>
    simp only [Dangling] at hd
    cases hxs : w.obj? r with
    | none => exact absurd hxs hd
    | some kvs =>
      simp only [reifyF, hxs] at h
      have hm : mapOpt (reifyItem (reifyF w n)) kvs = none := by
        cases hm : mapOpt (reifyItem (reifyF w n)) kvs <;> simp_all
      obtain ⟨kv, hkv, hfx⟩ := mapOpt_none _ kvs hm
      refine ⟨⟨kvs, hxs⟩, kv.2, .obj hxs hkv, ?_⟩
      simpa [reifyItem] using hfx
  | _ => simp [reifyF] at h

/-- `a` itself or something reached from it -/
def ReachesEq (w : World) (a b : Value) : Prop := b = a ∨ Reaches w a b

theorem reaches_trans (w : World) {a b c : Value} (h1 : Reaches w a b) (h2 : Reaches w b c) : Reaches w a c := by
  induction h1 with
  | step hc => exact .trans hc h2
  | trans hc _ ih => exact .trans hc (ih h2)

theorem child_reachesEq (w : World) {a x b : Value} (hc : Child w a x) (h : ReachesEq w x b) : Reaches w a b := by
  rcases h with rfl | h
  · exact .step hc
  · exact .trans hc h

/-- a value that fails with fuel `n` and reaches no dangling reference starts a containment chain of `n` live containers -/
theorem chain_of_none (w : World) : ∀ (n : Nat) (a : Value), reifyF w n a = none → (∀ b, ReachesEq w a b → ¬ Dangling w b) →
    ∃ l : List Value, l.length = n ∧ (∀ x ∈ l, ReachesEq w a x ∧ Live w x) ∧ l.Pairwise (Reaches w)
  | 0, _, _, _ => ⟨[], rfl, fun x hx => by simp at hx, List.Pairwise.nil⟩
  | n+1, a, h, hd => by
    obtain ⟨hlive, x, hc, hx⟩ := reifyF_none_step w n a h (hd a (Or.inl rfl))
    obtain ⟨l, hl, hmem, hp⟩ := chain_of_none w n x hx (fun b hb => hd b (Or.inr (child_reachesEq w hc hb)))
    refine ⟨a :: l, by simp [hl], fun y hy => ?_, List.pairwise_cons.mpr ⟨fun y hy => ?_, hp⟩⟩
    · rcases List.mem_cons.mp hy with rfl | hy
      · exact ⟨Or.inl rfl, hlive⟩
      · exact ⟨Or.inr (child_reachesEq w hc (hmem y hy).1), (hmem y hy).2⟩
    · exact child_reachesEq w hc (hmem y hy).1

/-- **Characterisation of failure.**  `reify w a = none` exactly when `a` is, or reaches, a dangling reference or a container
that reaches itself. -/
theorem reify_none_iff (w : World) (a : Value) :
    reify w a = none ↔ (∃ b, ReachesEq w a b ∧ Dangling w b) ∨ (∃ c, ReachesEq w a c ∧ Reaches w c c) := by
  constructor
  · intro h
    by_cases hd : ∃ b, ReachesEq w a b ∧ Dangling w b
    · exact Or.inl hd
    · right
      refine Classical.byContradiction fun hno => ?_
      obtain ⟨l, hl, hmem, hp⟩ := chain_of_none w _ a h (fun b hb hdb => hd ⟨b, hb, hdb⟩)
      have hnd : (l.map refIdx).Nodup := by
        refine List.pairwise_map.mpr (hp.imp_of_mem fun {x y} hx hy hxy hidx => hno ?_)
        have := live_eq w x y (hmem x hx).2 (hmem y hy).2 hidx
        subst this
        exact ⟨x, (hmem x hx).1, hxy⟩
      have hsub : l.map refIdx ⊆ List.range w.heap.length := fun i hi => by
        obtain ⟨x, hx, rfl⟩ := List.mem_map.mp hi
        exact List.mem_range.mpr (live_lt w x (hmem x hx).2)
      have := hnd.length_le_of_subset hsub
      simp [hl] at this
      omega
  · rintro (⟨b, hab, hb⟩ | ⟨c, hac, hc⟩)
    · have hbn : reify w b = none := by
        cases b <;> simp only [Dangling] at hb
        · exact (reify_none_of_dangling w _).1 hb
        · exact (reify_none_of_dangling w _).2 hb
      rcases hab with rfl | hab
      · exact hbn
      · exact reify_none_of_reaches w a b hab hbn
    · have hcn := reify_none_of_reaches_self w c hc
      rcases hac with rfl | hac
      · exact hcn
      · exact reify_none_of_reaches w a c hac hcn

/-! ## the bridge -/

theorem compare_fuel (n : Nat) : n + 1 ≤ (n + 1) * (n + 1) + 2 := by
  have := Nat.le_mul_self (n + 1); omega

/-- **Bridge.**  On operands that denote closed values, the comparison the machine runs (`HostImpl.compare?`: heap
references, fuel `(heap.length+1)² + 2`) *is* the comparison of the C11 model on those closed values; in particular it never
runs out of fuel. -/
theorem compare_bridge (w : World) (a b : Value) (pa pb : Compare.PValue) (ha : reify w a = some pa) (hb : reify w b = some pb) :
    compare? w a b = some (Compare.valueCompare pa pb) :=
  valueCompare_bridge w _ a pa ha _ b pb hb _ (compare_fuel w.heap.length)

/-- the totalised `HostImpl.compare` agrees as well -/
theorem compare_bridge' (w : World) (a b : Value) (pa pb : Compare.PValue) (ha : reify w a = some pa) (hb : reify w b = some pb) :
    HostImpl.compare w a b = Compare.valueCompare pa pb := by
  simp [HostImpl.compare, compare_bridge w a b pa pb ha hb]

/-- contrapositive: where the machine comparison does not terminate, an operand does not denote a closed value -/
theorem not_reifiable_of_compare_none (w : World) (a b : Value) (h : compare? w a b = none) :
    reify w a = none ∨ reify w b = none := by
  cases ha : reify w a with
  | none => exact Or.inl rfl
  | some pa =>
    cases hb : reify w b with
    | none => exact Or.inr rfl
    | some pb => rw [compare_bridge w a b pa pb ha hb] at h; cases h

/-! ### the worlds of the examples -/

/-- a nested array-of-objects heap: cells 2 and 3 are arrays holding an object each (the same items, inserted in a different
order) and the number 2; cell 4 is an array holding the two aliases `.arr 2`, `.arr 2` and the copy `.arr 3`;
cell 5 is an array that contains itself; cell 6 holds a dangling reference. -/
def exW : World :=
  { heap := [.obj [("b", .num 1), ("a", .str "x")], .obj [("a", .str "x"), ("b", .num 1)],
             .arr [.obj 0, .num 2], .arr [.obj 1, .num 2], .arr [.arr 2, .arr 2, .arr 3], .arr [.arr 5], .arr [.obj 9]] }

def exP0 : Compare.PValue := .arr [.obj [("b", .num 1), ("a", .str "x")], .num 2]
def exP1 : Compare.PValue := .arr [.obj [("a", .str "x"), ("b", .num 1)], .num 2]

theorem exW_reify : reify exW (.arr 2) = some exP0 ∧ reify exW (.arr 3) = some exP1 ∧
    reify exW (.arr 4) = some (.arr [exP0, exP0, exP1]) ∧ reify exW (.arr 5) = none ∧ reify exW (.arr 6) = none := by
  refine ⟨rfl, rfl, rfl, rfl, rfl⟩

theorem exP_cmp : Compare.valueCompare exP0 exP1 = 0 ∧ Compare.valueCompare exP0 (.arr [exP0, exP0, exP1]) = 1 := by
  have e1 : Compare.strCompare "a" "b" = -1 := by decide
  have e2 : Compare.strCompare "b" "a" = 1 := by decide
  have e3 : Compare.strCompare "a" "a" = 0 := by decide
  have e4 : Compare.strCompare "b" "b" = 0 := by decide
  have e5 : Compare.strCompare "x" "x" = 0 := by decide
  have e6 : Compare.strCompare "object" "array" = 1 := by decide
  constructor <;>
    simp [exP0, exP1, Compare.valueCompare, Compare.cmpList, Compare.cmpItems, Compare.sortItems, Compare.sortBy,
      Compare.insertBy, Compare.tri, Compare.typeName, *]

/-- non-vacuity of `compare_bridge`: a nested array-of-objects heap … -/
example : compare? exW (.arr 2) (.arr 3) = some (Compare.valueCompare exP0 exP1) :=
  compare_bridge exW _ _ _ _ exW_reify.1 exW_reify.2.1

/-- … and the self-containing array: neither reifiable nor comparable (Python: `RecursionError`) -/
example : reify exW (.arr 5) = none ∧ compare? exW (.arr 5) (.arr 5) = none ∧ Reaches exW (.arr 5) (.arr 5) :=
  ⟨rfl, by simp [compare?, HostImpl.valueCompare, compareLists, exW, World.arr?],
    .step (.arr (xs := [.arr 5]) rfl (by simp))⟩

/-! ## the order laws on worlds -/

/-- the result is -1, 0 or 1 -/
theorem machine_cmp_range (w : World) (a b : Value) (pa pb : Compare.PValue) (ha : reify w a = some pa) (hb : reify w b = some pb) :
    compare? w a b = some (-1) ∨ compare? w a b = some 0 ∨ compare? w a b = some 1 := by
  rw [compare_bridge w a b pa pb ha hb]
  rcases C11.cmp_range pa pb with h | h | h <;> simp [h]

/-- reflexive: every reifiable value compares equal to itself (and the comparison terminates) -/
theorem machine_cmp_refl (w : World) (a : Value) (pa : Compare.PValue) (ha : reify w a = some pa) : compare? w a a = some 0 := by
  rw [compare_bridge w a a pa pa ha ha, C11.cmp_refl]

/-- antisymmetric: swapping the operands negates the result -/
theorem machine_cmp_antisymm (w : World) (a b : Value) (pa pb : Compare.PValue) (ha : reify w a = some pa)
    (hb : reify w b = some pb) : ∃ c, compare? w a b = some c ∧ compare? w b a = some (-c) :=
  ⟨_, compare_bridge w a b pa pb ha hb, by rw [compare_bridge w b a pb pa hb ha, C11.cmp_antisymm pb pa]⟩

/-- transitive (with the strict and the "equal" variants) -/
theorem machine_cmp_trans (w : World) (a b c : Value) (pa pb pc : Compare.PValue) (ha : reify w a = some pa)
    (hb : reify w b = some pb) (hc : reify w c = some pc) :
    ∃ x y z, compare? w a b = some x ∧ compare? w b c = some y ∧ compare? w a c = some z ∧
      (x ≤ 0 → y ≤ 0 → z ≤ 0) ∧ (x < 0 → y ≤ 0 → z < 0) ∧ (x ≤ 0 → y < 0 → z < 0) ∧ (x = 0 → y = 0 → z = 0) :=
  ⟨_, _, _, compare_bridge w a b pa pb ha hb, compare_bridge w b c pb pc hb hc, compare_bridge w a c pa pc ha hc,
    C11.cmp_trans pa pb pc, (C11.cmp_trans_strict pa pb pc).1, (C11.cmp_trans_strict pa pb pc).2.1,
    (C11.cmp_trans_strict pa pb pc).2.2⟩

/-- total: any two reifiable values are comparable, one way or the other -/
theorem machine_cmp_total (w : World) (a b : Value) (pa pb : Compare.PValue) (ha : reify w a = some pa) (hb : reify w b = some pb) :
    ∃ x y, compare? w a b = some x ∧ compare? w b a = some y ∧ (x ≤ 0 ∨ y ≤ 0) :=
  ⟨_, _, compare_bridge w a b pa pb ha hb, compare_bridge w b a pb pa hb ha, C11.cmp_total pa pb⟩

/-- values that denote the same closed value — two aliases of one cell, a cell and its copy, two different functions … —
compare equal, and are interchangeable as operands -/
theorem machine_alias_equal (w : World) (a a' b : Value) (pa pb : Compare.PValue) (ha : reify w a = some pa)
    (ha' : reify w a' = some pa) (hb : reify w b = some pb) :
    compare? w a a' = some 0 ∧ compare? w a b = compare? w a' b ∧ compare? w b a = compare? w b a' := by
  refine ⟨by rw [compare_bridge w a a' pa pa ha ha', C11.cmp_refl], ?_, ?_⟩
  · rw [compare_bridge w a b pa pb ha hb, compare_bridge w a' b pa pb ha' hb]
  · rw [compare_bridge w b a pb pa hb ha, compare_bridge w b a' pb pa hb ha']

/-- closed values that compare equal are interchangeable as operands (a consequence of the C11 laws) -/
theorem cmp_congr_of_eq (pa pa' pb : Compare.PValue) (h : Compare.valueCompare pa pa' = 0) :
    Compare.valueCompare pa pb = Compare.valueCompare pa' pb ∧ Compare.valueCompare pb pa = Compare.valueCompare pb pa' := by
  have a1 := C11.cmp_antisymm pa pa'
  have a2 := C11.cmp_antisymm pa pb
  have a3 := C11.cmp_antisymm pa' pb
  have r1 := C11.cmp_range pa pb
  have r2 := C11.cmp_range pa' pb
  have ⟨t1, t2, t3⟩ := C11.cmp_trans_strict pa pa' pb
  have ⟨u1, u2, u3⟩ := C11.cmp_trans_strict pa' pa pb
  have ⟨v1, v2, v3⟩ := C11.cmp_trans_strict pb pa pa'
  have ⟨w1, w2, w3⟩ := C11.cmp_trans_strict pb pa' pa
  constructor <;> omega

/-- … on the machine: heap values that the machine's own comparison finds equal (`a == a'`) — a cell and a copy of it with
the keys inserted in another order, `1` and `1.0`, any two functions — give the same result against every third value -/
theorem machine_equal_congr (w : World) (a a' b : Value) (pa pa' pb : Compare.PValue) (ha : reify w a = some pa)
    (ha' : reify w a' = some pa') (hb : reify w b = some pb) (h0 : compare? w a a' = some 0) :
    compare? w a b = compare? w a' b ∧ compare? w b a = compare? w b a' := by
  rw [compare_bridge w a a' pa pa' ha ha'] at h0
  have ⟨c1, c2⟩ := cmp_congr_of_eq pa pa' pb (Option.some.inj h0)
  rw [compare_bridge w a b pa pb ha hb, compare_bridge w a' b pa' pb ha' hb, compare_bridge w b a pb pa hb ha,
    compare_bridge w b a' pb pa' hb ha', c1, c2]
  exact ⟨rfl, rfl⟩

/-- null orders before everything else and only null equals null — for **all** values `b` of any world (no reifiability
needed: the comparison does not enter `b`) -/
theorem machine_null_least (w : World) (b : Value) :
    compare? w .null .null = some 0 ∧
    (b ≠ .null → compare? w .null b = some (-1) ∧ compare? w b .null = some 1) ∧
    (compare? w .null b = some 0 ↔ b = .null) := by
  refine ⟨by simp [compare?, HostImpl.valueCompare], fun hb => ?_, ?_⟩
  · cases b <;> first | exact absurd rfl hb | simp [compare?, HostImpl.valueCompare]
  · cases b <;> simp [compare?, HostImpl.valueCompare]

/-- two non-null values of different types compare exactly as their type names compare in code-point order — for **all**
values of any world (the comparison does not enter the containers) -/
theorem machine_cross_type_by_name (w : World) (a b : Value) (ha : a ≠ .null) (hb : b ≠ .null)
    (h : HostImpl.typeName a ≠ HostImpl.typeName b) :
    compare? w a b = some (Compare.strCompare (HostImpl.typeName a) (HostImpl.typeName b)) := by
  cases a <;> cases b <;> simp [HostImpl.typeName] at h ha hb <;>
    simp [compare?, HostImpl.valueCompare, HostImpl.typeName, cmpOrd_str]

/-- … which, for reifiable operands, is the statement of `C11.cross_type_by_name` about their closed values -/
theorem machine_cross_type_by_name' (w : World) (a b : Value) (pa pb : Compare.PValue) (ha : reify w a = some pa)
    (hb : reify w b = some pb) (hna : a ≠ .null) (hnb : b ≠ .null) (h : HostImpl.typeName a ≠ HostImpl.typeName b) :
    compare? w a b = some (Compare.strCompare (Compare.typeName pa) (Compare.typeName pb)) ∧
    Compare.valueCompare pa pb = Compare.strCompare (Compare.typeName pa) (Compare.typeName pb) := by
  rw [reify_typeName w a pa ha, reify_typeName w b pb hb]
  refine ⟨machine_cross_type_by_name w a b hna hnb h, ?_⟩
  have := compare_bridge w a b pa pb ha hb
  rw [machine_cross_type_by_name w a b hna hnb h] at this
  exact (Option.some.inj this).symm

example : compare? exW (.arr 2) (.arr 2) = some 0 ∧ compare? exW (.arr 4) (.arr 4) = some 0 :=
  ⟨machine_cmp_refl exW _ _ exW_reify.1, machine_cmp_refl exW _ _ exW_reify.2.2.1⟩

/-- `[a, a, copy] < a = copy` in `exW`: antisymmetry and transitivity instantiated on heap values -/
example : ∃ x y z, compare? exW (.arr 4) (.arr 2) = some x ∧ compare? exW (.arr 2) (.arr 3) = some y ∧
    compare? exW (.arr 4) (.arr 3) = some z ∧ x < 0 ∧ y = 0 ∧ z < 0 := by
  obtain ⟨x, y, z, hx, hy, hz, _, t, _, _⟩ := machine_cmp_trans exW (.arr 4) (.arr 2) (.arr 3) _ _ _ exW_reify.2.2.1 exW_reify.1
    exW_reify.2.1
  obtain ⟨c, hc1, hc2⟩ := machine_cmp_antisymm exW (.arr 2) (.arr 4) _ _ exW_reify.1 exW_reify.2.2.1
  have e1 := compare_bridge exW (.arr 2) (.arr 4) _ _ exW_reify.1 exW_reify.2.2.1
  have e2 := compare_bridge exW (.arr 2) (.arr 3) _ _ exW_reify.1 exW_reify.2.1
  rw [exP_cmp.2] at e1; rw [exP_cmp.1] at e2
  rw [e1] at hc1; cases hc1
  rw [hc2] at hx; cases hx
  rw [e2] at hy; cases hy
  exact ⟨_, _, _, hc2, e2, hz, by decide, rfl, t (by decide) (by decide)⟩

/-- cell 4 of `exW` is `[a, a, copy]`: two aliases of the array cell 2 and a copy of it with the keys in another order.
The aliases are one value; the copy compares equal to them and behaves like them against the enclosing array; and any two
functions compare equal. -/
example : exW.arr? 4 = some [.arr 2, .arr 2, .arr 3] ∧ compare? exW (.arr 2) (.arr 2) = some 0 ∧
    compare? exW (.arr 2) (.arr 3) = some 0 ∧ compare? exW (.arr 2) (.arr 4) = compare? exW (.arr 3) (.arr 4) ∧
    compare? exW (.fn (.script 3)) (.fn (.lib "f")) = some 0 := by
  have e : compare? exW (.arr 2) (.arr 3) = some 0 := by
    rw [compare_bridge exW _ _ _ _ exW_reify.1 exW_reify.2.1, exP_cmp.1]
  refine ⟨rfl, (machine_alias_equal exW _ _ .null _ _ exW_reify.1 exW_reify.1 rfl).1, e,
    (machine_equal_congr exW _ _ (.arr 4) _ _ _ exW_reify.1 exW_reify.2.1 exW_reify.2.2.1 e).1, ?_⟩
  have h := compare_bridge exW (.fn (.script 3)) (.fn (.lib "f")) _ _ rfl rfl
  rw [h]; simp [Compare.valueCompare, Compare.typeName]; decide

example : (Value.obj 0) ≠ .null ∧ HostImpl.typeName (.obj 0) ≠ HostImpl.typeName (.regex 1) ∧
    compare? exW (.obj 0) (.regex 1) = some (-1) := by
  refine ⟨by simp, by decide, ?_⟩
  rw [machine_cross_type_by_name exW _ _ (by simp) (by simp) (by decide)]; decide

/-! ## consumers: the relational operators -/

/-- the relational operators among the binary operators -/
def relOf : BinOp → Option Compare.RelOp
  | .eq => some .eq | .ne => some .ne | .le => some .le | .lt => some .lt | .ge => some .ge | .gt => some .gt
  | _ => none

/-- The six relational operators of the machine host are exactly the sign tests of `Compare.valueCompare` on the reified
operands — i.e. `Compare.relop`, the operator model of C11 (`C11.relops_sign`, `C11.relops_identities`). -/
theorem machine_relop (w : World) (op : BinOp) (rop : Compare.RelOp) (hop : relOf op = some rop) (a b : Value)
    (pa pb : Compare.PValue) (ha : reify w a = some pa) (hb : reify w b = some pb) :
    HostImpl.host.binop op a b w = .bool (Compare.relop rop pa pb) := by
  have h := compare_bridge w a b pa pb ha hb
  cases op <;> simp only [relOf, Option.some.injEq, reduceCtorEq] at hop <;> subst hop <;>
    simp [HostImpl.host, HostImpl.binop, h, Compare.relop]

theorem machine_relops_sign (w : World) (a b : Value) (pa pb : Compare.PValue) (ha : reify w a = some pa) (hb : reify w b = some pb) :
    binop .eq a b w = .bool (Compare.valueCompare pa pb == 0) ∧
    binop .ne a b w = .bool (Compare.valueCompare pa pb != 0) ∧
    binop .le a b w = .bool (decide (Compare.valueCompare pa pb ≤ 0)) ∧
    binop .lt a b w = .bool (decide (Compare.valueCompare pa pb < 0)) ∧
    binop .ge a b w = .bool (decide (Compare.valueCompare pa pb ≥ 0)) ∧
    binop .gt a b w = .bool (decide (Compare.valueCompare pa pb > 0)) := by
  have h := compare_bridge w a b pa pb ha hb
  simp [HostImpl.binop, h]

/-- … hence the operator identities of C11 hold for the machine's operators on reifiable operands: `!=` is the negation of
`==`, `>` of `<=`, `<` of `>=`; `a >= b` is `b <= a`, `a > b` is `b < a`; `==` is symmetric. -/
theorem machine_relops_identities (w : World) (a b : Value) (pa pb : Compare.PValue) (ha : reify w a = some pa)
    (hb : reify w b = some pb) :
    ∃ eq ne le lt ge gt le' lt' eq' : Bool,
      binop .eq a b w = .bool eq ∧ binop .ne a b w = .bool ne ∧ binop .le a b w = .bool le ∧ binop .lt a b w = .bool lt ∧
      binop .ge a b w = .bool ge ∧ binop .gt a b w = .bool gt ∧ binop .le b a w = .bool le' ∧ binop .lt b a w = .bool lt' ∧
      binop .eq b a w = .bool eq' ∧
      ne = !eq ∧ gt = !le ∧ lt = !ge ∧ ge = le' ∧ gt = lt' ∧ eq = eq' ∧ le = (lt || eq) ∧
      lt.toNat + eq.toNat + gt.toNat = 1 := by
  have h1 := machine_relops_sign w a b pa pb ha hb
  have h2 := machine_relops_sign w b a pb pa hb ha
  have hi := C11.relops_identities pa pb
  simp only [Compare.relop] at hi
  exact ⟨_, _, _, _, _, _, _, _, _, h1.1, h1.2.1, h1.2.2.1, h1.2.2.2.1, h1.2.2.2.2.1, h1.2.2.2.2.2, h2.2.2.1, h2.2.2.2.1, h2.1,
    hi.1, hi.2.1, hi.2.2.1, hi.2.2.2.1, hi.2.2.2.2.1, hi.2.2.2.2.2.1, hi.2.2.2.2.2.2.1, hi.2.2.2.2.2.2.2⟩

/-- The same through the evaluator: on any machine configuration whose host is `HostImpl.host`, a relational expression whose
operands evaluate to reifiable values evaluates to the sign test of `Compare.valueCompare` on their closed values (operands
evaluated left to right, the comparison made in the world the right operand leaves behind). -/
theorem machine_eval_relop (cfg : Config World) (hh : cfg.host = HostImpl.host) (call : CallFn World) (locals : Option Env)
    (op : BinOp) (rop : Compare.RelOp) (hop : relOf op = some rop) (l r : Expr) (st st1 st2 : State World) (lv rv : Value)
    (hl : evalExpr cfg call locals l st = .ok lv st1) (hr : evalExpr cfg call locals r st1 = .ok rv st2)
    (pa pb : Compare.PValue) (ha : reify st2.world lv = some pa) (hb : reify st2.world rv = some pb) :
    evalExpr cfg call locals (.binary op l r) st = .ok (.bool (Compare.relop rop pa pb)) st2 := by
  have h := machine_relop st2.world op rop hop lv rv pa pb ha hb
  cases op <;> simp only [relOf, reduceCtorEq] at hop <;> rw [evalExpr, hl] <;>
    first | (intro hc; cases hc) | simp only [hr, hh, h]

/-- a configuration and a state over `exW` with two globals: `a` = the array cell 2, `b` = its copy, cell 3 -/
def exCfg : Config World := { host := HostImpl.host, funs := fun _ => none, maxStatements := 0 }
def exSt : State World := { globals := [(.user "a", .arr 2), (.user "b", .arr 3)], world := exW, count := 0 }

theorem exSt_eval (call : CallFn World) :
    evalExpr exCfg call none (.variable (.user "a")) exSt = .ok (.arr 2) exSt ∧
    evalExpr exCfg call none (.variable (.user "b")) exSt = .ok (.arr 3) exSt := by
  constructor <;> (rw [evalExpr]; simp [kwNull, kwFalse, kwTrue, lookupVar, Env.get?, exSt])

/-- the script expression `a == b` evaluates to true, `a < b` to false: through `Machine.evalExpr` -/
example (call : CallFn World) :
    evalExpr exCfg call none (.binary .eq (.variable (.user "a")) (.variable (.user "b"))) exSt = .ok (.bool true) exSt ∧
    evalExpr exCfg call none (.binary .lt (.variable (.user "a")) (.variable (.user "b"))) exSt = .ok (.bool false) exSt := by
  have h1 := machine_eval_relop exCfg rfl call none .eq .eq rfl _ _ exSt exSt exSt _ _ (exSt_eval call).1 (exSt_eval call).2
    _ _ exW_reify.1 exW_reify.2.1
  have h2 := machine_eval_relop exCfg rfl call none .lt .lt rfl _ _ exSt exSt exSt _ _ (exSt_eval call).1 (exSt_eval call).2
    _ _ exW_reify.1 exW_reify.2.1
  simp only [Compare.relop, exP_cmp.1] at h1 h2
  exact ⟨h1, h2⟩

/-- a copy with another key order is `==`; an array is `>` an array that starts with an array ("object" > "array"); the
self-containing array is not comparable: the operator yields null (the swallowed `RecursionError`) -/
example : binop .eq (.arr 2) (.arr 3) exW = .bool true ∧ binop .gt (.arr 2) (.arr 4) exW = .bool true ∧
    binop .le (.arr 2) (.arr 4) exW = .bool false ∧ binop .eq (.arr 5) (.arr 5) exW = .null := by
  have h1 := machine_relops_sign exW _ _ _ _ exW_reify.1 exW_reify.2.1
  have h2 := machine_relops_sign exW _ _ _ _ exW_reify.1 exW_reify.2.2.1
  rw [exP_cmp.1] at h1; rw [exP_cmp.2] at h2
  refine ⟨h1.1, h2.2.2.2.2.2, h2.2.2.1, ?_⟩
  have h : compare? exW (.arr 5) (.arr 5) = none := by
    simp [compare?, HostImpl.valueCompare, compareLists, exW, World.arr?]
  simp [binop, h]

/-! ## consumers: `systemCompare` -/

/-- `systemCompare(a, b)` returns `Compare.valueCompare` of the closed values, world unchanged; a missing argument is null -/
theorem machine_systemCompare (w : World) (a b : Value) (pa pb : Compare.PValue) (ha : reify w a = some pa) (hb : reify w b = some pb) :
    HostImpl.host.lib "systemCompare" [a, b] w = .ret (.ok (.num (Compare.valueCompare pa pb : Int))) w ∧
    HostImpl.host.lib "systemCompare" [a] w = .ret (.ok (.num (Compare.valueCompare pa .null : Int))) w ∧
    HostImpl.host.lib "systemCompare" [] w = .ret (.ok (.num (Compare.valueCompare .null .null : Int))) w := by
  have h1 : HostImpl.host.lib "systemCompare" [a, b] w =
      (match compare? w a b with | some c => ok (.num c) w | none => fail .null w) := rfl
  have h2 : HostImpl.host.lib "systemCompare" [a] w =
      (match compare? w a .null with | some c => ok (.num c) w | none => fail .null w) := rfl
  have h3 : HostImpl.host.lib "systemCompare" [] w = ok (.num 0) w := rfl
  rw [h1, h2, h3, compare_bridge w a b pa pb ha hb, compare_bridge w a .null pa .null ha rfl]
  refine ⟨rfl, rfl, ?_⟩
  simp [ok, Compare.valueCompare]

/-- … and a script that calls it gets exactly that number: through the call wrapper `Machine.callValue`, on any
configuration whose host is `HostImpl.host`, state unchanged -/
theorem machine_call_systemCompare (cfg : Config World) (hh : cfg.host = HostImpl.host) (fuel : Nat) (st : State World)
    (a b : Value) (pa pb : Compare.PValue) (ha : reify st.world a = some pa) (hb : reify st.world b = some pb) :
    callValue cfg (fuel + 1) (.fn (.lib "systemCompare")) [a, b] st = .ok (.num (Compare.valueCompare pa pb : Int)) st := by
  rw [callValue, hh, (machine_systemCompare st.world a b pa pb ha hb).1]
  rfl

example : HostImpl.host.lib "systemCompare" [.arr 2, .arr 3] exW = .ret (.ok (.num 0)) exW ∧
    HostImpl.host.lib "systemCompare" [.arr 2, .arr 4] exW = .ret (.ok (.num 1)) exW ∧
    HostImpl.host.lib "systemCompare" [.arr 5, .arr 5] exW = .ret (.fail .null) exW := by
  have h1 := (machine_systemCompare exW _ _ _ _ exW_reify.1 exW_reify.2.1).1
  have h2 := (machine_systemCompare exW _ _ _ _ exW_reify.1 exW_reify.2.2.1).1
  rw [exP_cmp.1] at h1; rw [exP_cmp.2] at h2
  refine ⟨by simpa using h1, by simpa using h2, ?_⟩
  have h : compare? exW (.arr 5) (.arr 5) = none := by
    simp [compare?, HostImpl.valueCompare, compareLists, exW, World.arr?]
  show (match compare? exW (.arr 5) (.arr 5) with | some c => ok (.num c) exW | none => fail .null exW) = _
  rw [h]; rfl

/-! ## consumers: `arrayIndexOf` with a value needle -/

/-- the sequential search of the host = the scan of the C11 model on the closed values -/
theorem indexOfVal_bridge (w : World) (v : Value) (pv : Compare.PValue) (hv : reify w v = some pv) :
    ∀ (xs : List Value) (pxs : List Compare.PValue) (i : Nat), mapOpt (reify w) xs = some pxs →
    indexOfVal w v xs i = some (Compare.scanFrom pv i pxs)
  | [], pxs, i, h => by rw [(mapOpt_nil_iff _ pxs).mp h]; rfl
  | x :: xs, pxs, i, h => by
    obtain ⟨y, ys, h1, h2, rfl⟩ := (mapOpt_cons_iff _ x xs pxs).mp h
    simp only [indexOfVal, Compare.scanFrom, compare_bridge w x v y pv h1 hv, indexOfVal_bridge w v pv hv xs ys (i+1) h2]
    split <;> rfl

/-- `arrayIndexOf(array, value)` (value needle, search from 0) on the machine host is `Compare.arrayIndexOf` on the closed
values: `ok` with the index (or -1), except on the empty array, where the argument check `index >= len(array)` fails with
the documented failure value -1. -/
theorem machine_indexOf (w : World) (r : Nat) (v : Value) (pxs : List Compare.PValue) (pv : Compare.PValue)
    (hr : reify w (.arr r) = some (.arr pxs)) (hv : reify w v = some pv) (hfn : ∀ f, v ≠ .fn f) :
    ∃ i, Compare.arrayIndexOf pxs pv 0 = some i ∧
      HostImpl.host.lib "arrayIndexOf" [.arr r, v] w = .ret (if pxs.length = 0 then .fail (.num (-1)) else .ok (.num i)) w := by
  obtain ⟨xs, pxs', hxs, hm, hp⟩ := (reify_arr w r _).mp hr
  cases hp
  have hlen := mapOpt_length _ xs pxs hm
  have hnf : ∀ id, pv ≠ .fn id := by
    intro id hid; subst hid
    have ht := reify_typeName w v _ hv
    cases v <;> first | exact absurd rfl (hfn _) | exact absurd ht (by simp only [Compare.typeName, HostImpl.typeName]; decide)
  have hidx : Compare.arrayIndexOf pxs pv 0 = some (if 0 ≥ pxs.length then -1 else Compare.scanFrom pv 0 pxs) := by
    cases pv <;> first | exact absurd rfl (hnf _) | simp [Compare.arrayIndexOf]
  refine ⟨_, hidx, ?_⟩
  have hlib : HostImpl.host.lib "arrayIndexOf" [.arr r, v] w =
      (let xs := (w.arr? r).getD []
       if xs.length == 0 then fail (.num (-1)) w
       else match indexOfVal w v xs 0 with | some r => ok (.num r) w | none => fail .null w) := by
    cases v <;> first | exact absurd rfl (hfn _) | rfl
  rw [hlib, hxs]
  simp only [Option.getD_some, indexOfVal_bridge w v pv hv xs pxs 0 hm, beq_iff_eq, ← hlen]
  by_cases h0 : pxs.length = 0
  · simp [h0, fail]
  · simp [h0, ok]

/-- **`arrayIndexOf` returns the first equal element**, on the machine: for an array cell whose elements are reifiable and a
reifiable needle that is not a function, the call returns the first position `k` whose element compares equal to the needle
*under the machine's own `compare?`*, and -1 when no element does. -/
theorem machine_indexOf_first (w : World) (r : Nat) (v : Value) (xs : List Value) (pxs : List Compare.PValue) (pv : Compare.PValue)
    (hxs : w.arr? r = some xs) (hr : reify w (.arr r) = some (.arr pxs)) (hv : reify w v = some pv) (hfn : ∀ f, v ≠ .fn f) :
    (xs = [] ∧ HostImpl.host.lib "arrayIndexOf" [.arr r, v] w = .ret (.fail (.num (-1))) w) ∨
    (xs ≠ [] ∧ HostImpl.host.lib "arrayIndexOf" [.arr r, v] w = .ret (.ok (.num (-1))) w ∧
      ∀ (j : Nat) x, xs[j]? = some x → ∃ c, compare? w x v = some c ∧ c ≠ 0) ∨
    (∃ (k : Nat) (x : Value), HostImpl.host.lib "arrayIndexOf" [.arr r, v] w = .ret (.ok (.num (k : Int))) w ∧
      xs[k]? = some x ∧ compare? w x v = some 0 ∧
      ∀ (j : Nat) y, j < k → xs[j]? = some y → ∃ c, compare? w y v = some c ∧ c ≠ 0) := by
  obtain ⟨xs', pxs', hxs', hm, hp⟩ := (reify_arr w r _).mp hr
  rw [hxs] at hxs'; cases hxs'; cases hp
  have hlen := mapOpt_length _ xs pxs hm
  obtain ⟨i, hi, hlib⟩ := machine_indexOf w r v pxs pv hr hv hfn
  -- comparisons of elements with the needle, on the machine and in the model
  have hcmp : ∀ (j : Nat) x, xs[j]? = some x → ∃ px, pxs[j]? = some px ∧ compare? w x v = some (Compare.valueCompare px pv) :=
    fun j x hx => by
      obtain ⟨px, hpx, hxp⟩ := mapOpt_getElem _ xs pxs hm j x hx
      exact ⟨px, hpx, compare_bridge w x v px pv hxp hv⟩
  by_cases h0 : pxs.length = 0
  · left
    exact ⟨List.eq_nil_of_length_eq_zero (by omega), by simpa [h0] using hlib⟩
  · right
    have hne : xs ≠ [] := fun h => h0 (by rw [hlen, h]; rfl)
    simp only [h0, if_false] at hlib
    rcases (C11.indexOf_first pxs pv 0).2 i hi with ⟨rfl, hall⟩ | ⟨k, px, rfl, _, hk, hk0, hbefore⟩
    · left
      refine ⟨hne, hlib, fun j x hx => ?_⟩
      obtain ⟨px, hpx, hc⟩ := hcmp j x hx
      exact ⟨_, hc, hall j px (Nat.zero_le _) hpx⟩
    · right
      obtain ⟨x, hx, hxp⟩ := mapOpt_getElem' _ xs pxs hm k px hk
      refine ⟨k, x, hlib, hx, by rw [compare_bridge w x v px pv hxp hv, hk0], fun j y hj hy => ?_⟩
      obtain ⟨py, hpy, hc⟩ := hcmp j y hy
      exact ⟨_, hc, hbefore j py (Nat.zero_le _) hj hpy⟩

/-- in `exW` cell 4 = `[a, a, copy]`: the copy `.arr 3` (same closed value, other key order, another cell) is found at 0 -/
example : HostImpl.host.lib "arrayIndexOf" [.arr 4, .arr 3] exW = .ret (.ok (.num 0)) exW := by
  obtain ⟨i, hi, h⟩ := machine_indexOf exW 4 (.arr 3) _ _ exW_reify.2.2.1 exW_reify.2.1 (by simp)
  have h01 : Compare.valueCompare exP0 (.arr [.obj [("a", .str "x"), ("b", .num 1)], .num 2]) = 0 := exP_cmp.1
  simp [Compare.arrayIndexOf, Compare.scanFrom, exP1, h01] at hi
  subst hi
  simpa using h

end C11Bridge
