import BareProofs.C06Regex8
import BareProofs.C06Regex9Lemmas

/-!
# C06Regex9 — the number literal `_R_EXPR_NUMBER`, and the capstones without suffix

`float(match.group(1))`: the engine-side reading `readNumber` re-scans exactly the captured text into sign, integer digits,
fraction digits and exponent and applies `ExprScan.decVal` (the exact rational `float()` then rounds).  That `float(text)` is this
value for every text of the grammar `[+-]?\d+(?:\.\d*)?(?:e[+-]\d+)?` with Unicode decimal digits is C13's
`floatText_text_uni` / `scanNumber_eq_literal` (`BareProofs/C13Bridge*.lean`), not re-proved here.
-/

namespace C06Regex
open Rx Text RxPatterns

/-- `float(group(1))` as the exact rational of the re-scanned captured text -/
def readNumber (g : Chars) : Rat :=
  let sg := ExprScan.scanSign g
  let c := numCore sg.2
  ExprScan.decVal sg.1 c.1 c.2.1 c.2.2

/-- `_R_EXPR_NUMBER.match(text)`: `float(group(1))`, rest of the text -/
def rxScanNumber (t : Chars) : Option (Rat × Chars) :=
  (matchAt exprNumber t).bind fun st => (st.group t 1).map fun g => (readNumber g, st.rest)

theorem scanNumber_eq (t : Chars) :
    ExprScan.scanNumber t =
      if ((ExprScan.scanSign (lstripL t)).2.takeWhile ExprScan.isDigit).isEmpty then none
      else some (ExprScan.decVal (ExprScan.scanSign (lstripL t)).1 (numCore (ExprScan.scanSign (lstripL t)).2).1
        (numCore (ExprScan.scanSign (lstripL t)).2).2.1 (numCore (ExprScan.scanSign (lstripL t)).2).2.2,
        numTail (ExprScan.scanSign (lstripL t)).2) := by
  unfold ExprScan.scanNumber
  rw [skipWs_eq]
  rfl

theorem numTail_le (x : Chars) : (numTail x).length ≤ (x.dropWhile ExprScan.isDigit).length := by
  have h1 := scanFrac_len (x.dropWhile ExprScan.isDigit)
  have h2 := scanExp_len (ExprScan.scanFrac (x.dropWhile ExprScan.isDigit)).2
  simp only [numTail]; omega

theorem split_digit_len (x : Chars) :
    (x.takeWhile ExprScan.isDigit).length + (x.dropWhile ExprScan.isDigit).length = x.length := by
  have := congrArg List.length (List.takeWhile_append_dropWhile (p := ExprScan.isDigit) (l := x))
  rwa [List.length_append] at this

/-- the value read back from the captured text is the scanner's value -/
theorem readNumber_take (s : Chars) (hne : ((ExprScan.scanSign s).2.takeWhile ExprScan.isDigit).isEmpty = false) :
    readNumber (s.take (s.length - (numTail (ExprScan.scanSign s).2).length)) =
      ExprScan.decVal (ExprScan.scanSign s).1 (numCore (ExprScan.scanSign s).2).1 (numCore (ExprScan.scanSign s).2).2.1
        (numCore (ExprScan.scanSign s).2).2.2 := by
  cases s with
  | nil => simp [ExprScan.scanSign] at hne
  | cons c r =>
    rw [scanSign_cons] at hne ⊢
    by_cases h1 : c = '+'
    · subst h1
      simp only [if_true] at hne ⊢
      have hle := numTail_le r
      have hsp := split_digit_len r
      rw [show ('+' :: r).length - (numTail r).length = (r.length - (numTail r).length) + 1 from by
        simp only [List.length_cons]; omega, List.take_succ_cons]
      simp only [readNumber, scanSign_cons, if_true, numCore_rescan]
    · by_cases h2 : c = '-'
      · subst h2
        simp only [h1, if_false, if_true] at hne ⊢
        have hle := numTail_le r
        have hsp := split_digit_len r
        rw [show ('-' :: r).length - (numTail r).length = (r.length - (numTail r).length) + 1 from by
          simp only [List.length_cons]; omega, List.take_succ_cons]
        simp only [readNumber, scanSign_cons, h1, if_false, if_true, numCore_rescan]
      · simp only [h1, h2, if_false] at hne ⊢
        have hle := numTail_le (c :: r)
        have hsp := split_digit_len (c :: r)
        have hpos : 0 < ((c :: r).takeWhile ExprScan.isDigit).length := by
          cases h : (c :: r).takeWhile ExprScan.isDigit with
          | nil => rw [h] at hne; simp at hne
          | cons _ _ => simp
        have hrec := numCore_rescan (c :: r)
        obtain ⟨n, hn⟩ : ∃ n, (c :: r).length - (numTail (c :: r)).length = n + 1 :=
          ⟨(c :: r).length - (numTail (c :: r)).length - 1, by omega⟩
        rw [hn] at hrec ⊢
        rw [List.take_succ_cons] at hrec ⊢
        simp only [readNumber, scanSign_cons, h1, h2, if_false, hrec]

/-- **`_R_EXPR_NUMBER`** `^\s*([+-]?\d+(?:\.\d*)?(?:e[+-]\d+)?)`: every optional piece is greedy in front of a rest that accepts
anything, so the engine never backs off; the value is read back from the captured text (`readNumber`). -/
theorem number_regex (t : Chars) : ExprScan.scanNumber t = rxScanNumber t := by
  have hk : ∀ p, Total (fun st' : St => some (⟨st'.pos, st'.rest, (1, p, st'.pos) :: st'.caps⟩ : St)) := fun _ _ => rfl
  rw [scanNumber_eq]
  unfold rxScanNumber matchAt matchFrom exprNumber
  rw [lead]
  · rw [cap_m, numBody_total _ _ (hk _)]
    simp only []
    by_cases he : ((ExprScan.scanSign (lstripL t)).2.takeWhile ExprScan.isDigit).isEmpty = true
    · simp [he]
    · have he' : ((ExprScan.scanSign (lstripL t)).2.takeWhile ExprScan.isDigit).isEmpty = false := by simpa using he
      simp only [he', Bool.false_eq_true, if_false, Option.bind_some, St.group, St.span, List.lookup, beq_self_eq_true,
        Option.map_some]
      have hg : slice t ((t.takeWhile isSpace).length,
          (t.takeWhile isSpace).length + ((lstripL t).length - (numTail (ExprScan.scanSign (lstripL t)).2).length)) =
          (lstripL t).take ((lstripL t).length - (numTail (ExprScan.scanSign (lstripL t)).2).length) := by
        simp [slice, drop_ind]
      rw [hg, readNumber_take _ he']
  · intro st ⟨x, r, hr, hx⟩
    show (Rx.cap 1 none _).m st some = none
    rw [cap_m, numBody_total _ _ (hk _), hr, scanSign_cons]
    have h1 : ¬ x = '+' := fun e => by rw [e] at hx; exact absurd hx (by decide)
    have h2 : ¬ x = '-' := fun e => by rw [e] at hx; exact absurd hx (by decide)
    have hd : ExprScan.isDigit x = false := space_not_digit hx
    simp [h1, h2, List.takeWhile_cons, hd]

/-! ## the capstones -/

/-- EVERY token scanner of `parse_expression` by the engine on the pinned `_R_EXPR_*` ASTs -/
def rxS3 : Scanners :=
  ⟨rxScanBinOp, rxScanUnaryOp, rxScanGroupOpen, rxScanClose, rxScanComma, rxScanFuncOpen,
   rxScanNumber, rxStr, rxScanVariable, rxScanVariableEx⟩

theorem exS_eq_rxS3 : exS = rxS3 := by
  rw [exS_eq_rxS2]
  unfold rxS2 rxS3
  rw [show ExprScan.scanNumber = rxScanNumber from funext number_regex]

/-- `parse_expression` with every token scanner replaced by the engine -/
def rxParseExprFull (s : String) : Except ParseErr Expr := parseExprLW rxS3 s.toList

/-- **`parse_expression` is regex driven**: `ExprParse.parseExpr` = the same recursive-descent parser with EVERY token scanner
(number, both strings with their escape substitutions, variable, bracketed variable with its escape, function open, binary and
unary operators, group open / close, argument comma / close) computed by the backtracking engine `Rx.m` on the ASTs pinned to
parser.py's `_R_EXPR_*` sources — for ALL texts, no side condition. -/
theorem parseExpr_is_regex_driven (s : String) : ExprParse.parseExpr s = rxParseExprFull s := by
  unfold ExprParse.parseExpr rxParseExprFull
  rw [← parseExprLW_ex, exS_eq_rxS3]

/-- **`parse_script` is fully regex driven**: for every chunk list and start line, the model of `parse_script` equals the pipeline
in which the line splitter, the comment and continuation tests, the whole statement cascade AND every expression token are the
engine on the ASTs pinned to parser.py's pattern sources.  No side condition. -/
theorem parseScript_fully_regex_driven (chunks : List String) (start : Nat) :
    Parser.parseScript chunks start = rxParseScriptWith rxParseExprFull chunks start := by
  rw [parseScript_is_regex_driven, ← show ExprParse.parseExpr = rxParseExprFull from funext parseExpr_is_regex_driven]
  rfl

example : rxScanNumber "  -12.5e+3x".toList = some (-12500, ['x']) ∧ rxScanNumber "1e+".toList = some (1, "e+".toList) ∧
    rxScanNumber "+.5".toList = none := by decide +kernel

end C06Regex
